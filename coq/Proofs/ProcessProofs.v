(* Proofs about Model/Process.v (property C12). *)
From UV Require Import Lib.Base Model.Process.
From Coq Require Import Permutation.

(* ------------------------------------------------------------------ *)
(* A. descriptor tables                                                 *)
(* ------------------------------------------------------------------ *)
Lemma get_nil fd : get [] fd = None.
Proof. unfold get. destruct fd; reflexivity. Qed.

Lemma get_set_same t fd v : get (set t fd v) fd = v.
Proof.
  revert t. induction fd as [|n IH]; intros [|x r]; simpl; auto.
  - apply IH.
  - apply IH.
Qed.

Lemma get_set_other t fd fd' v : fd <> fd' -> get (set t fd v) fd' = get t fd'.
Proof.
  revert t fd'. induction fd as [|n IH]; intros [|x r] [|m] H; simpl; try congruence; auto.
  - destruct m; reflexivity.
  - change (get (set [] n v) m = None). rewrite IH by congruence. apply get_nil.
  - change (get (set r n v) m = get r m). apply IH. congruence.
Qed.

Lemma get_set t fd fd' v :
  get (set t fd v) fd' = if (fd =? fd')%nat then v else get t fd'.
Proof.
  destruct (Nat.eqb_spec fd fd') as [->|H].
  - apply get_set_same.
  - apply get_set_other; auto.
Qed.

Lemma lff_spec s : forall i min,
  let r := lowest_free_from s i min in
  i <= r /\ min <= r /\ nth (r - i) s None = None /\
  forall j, i <= j < r -> min <= j -> nth (j - i) s None <> None.
Proof.
  induction s as [|x s IH]; intros i min; cbn [lowest_free_from].
  - cbv zeta. split; [lia|]. split; [lia|]. split.
    + destruct (Nat.max i min - i); reflexivity.
    + intros j H1 H2. lia.
  - destruct ((min <=? i) && is_none x) eqn:E.
    + cbv zeta. apply andb_true_iff in E as [E1 E2]. apply Nat.leb_le in E1.
      split; [lia|]. split; [lia|]. split.
      * rewrite Nat.sub_diag. simpl. destruct x; [discriminate|reflexivity].
      * intros j H. lia.
    + specialize (IH (S i) min). cbv zeta in IH |- *.
      destruct IH as (A & B & C & D).
      set (r := lowest_free_from s (S i) min) in *.
      split; [lia|]. split; [lia|]. split.
      * replace (r - i) with (S (r - S i)) by lia. exact C.
      * intros j H1 H2. destruct (Nat.eq_dec j i) as [->|Hne].
        -- rewrite Nat.sub_diag. simpl. apply andb_false_iff in E as [E|E].
           ++ apply Nat.leb_gt in E. lia.
           ++ destruct x; [discriminate|discriminate].
        -- replace (j - i) with (S (j - S i)) by lia. apply D; lia.
Qed.

Lemma lowest_free_spec t min :
  let r := lowest_free t min in
  min <= r /\ get t r = None /\ forall j, min <= j < r -> get t j <> None.
Proof.
  cbv zeta. unfold lowest_free, get.
  pose proof (lff_spec t 0 min) as H. cbv zeta in H.
  destruct H as (_ & B & C & D).
  rewrite Nat.sub_0_r in C. split; [auto|]. split; [auto|].
  intros j Hj. specialize (D j). rewrite Nat.sub_0_r in D. apply D; lia.
Qed.

Lemma lowest_free_unique t min r :
  min <= r -> get t r = None -> (forall j, min <= j < r -> get t j <> None) ->
  lowest_free t min = r.
Proof.
  intros H1 H2 H3.
  destruct (lowest_free_spec t min) as (A & B & C).
  destruct (Nat.lt_trichotomy (lowest_free t min) r) as [L|[E|G]]; auto.
  - exfalso. apply (H3 (lowest_free t min)); auto.
  - exfalso. apply (C r); auto.
Qed.

Lemma alloc_spec t min f cx t' r :
  alloc t min f cx = (t', r) ->
  min <= r /\ get t r = None /\ get t' r = Some (mkE f cx) /\
  (forall d, d <> r -> get t' d = get t d) /\
  (forall j, min <= j < r -> get t j <> None).
Proof.
  unfold alloc. intros H. inversion H; subst. clear H.
  destruct (lowest_free_spec t min) as (A & B & C).
  split; [auto|]. split; [auto|]. split; [apply get_set_same|]. split; [|auto].
  intros d Hd. apply get_set_other. auto.
Qed.

Lemma get_exec t d : get (exec t) d = exec_entry (get t d).
Proof.
  unfold get, exec. revert d. induction t as [|x t IH]; intros [|d]; simpl; auto.
Qed.

Lemma get_close t fd d : get (close t fd) d = if (fd =? d)%nat then None else get t d.
Proof. unfold close. apply get_set. Qed.

(* ------------------------------------------------------------------ *)
(* B. pass 1                                                            *)
(* ------------------------------------------------------------------ *)
(* [t'] is [t] plus close-on-exec descriptors on numbers >= sc that were free *)
Definition ext (sc : nat) (t t' : tbl) : Prop :=
  forall d, get t' d = get t d \/
            (sc <= d /\ get t d = None /\ exists f, get t' d = Some (mkE f true)).

Lemma ext_refl sc t : ext sc t t.
Proof. intros d. left. reflexivity. Qed.

Lemma ext_trans sc a b c : ext sc a b -> ext sc b c -> ext sc a c.
Proof.
  intros H1 H2 d. destruct (H2 d) as [E|(L & N & f & E)].
  - rewrite E. apply H1.
  - destruct (H1 d) as [E1|(L1 & N1 & f1 & E1)].
    + right. repeat split; auto. congruence. eauto.
    + congruence.
Qed.

Lemma ext_some sc t t' d e : ext sc t t' -> get t d = Some e -> get t' d = Some e.
Proof. intros H G. destruct (H d) as [E|(_ & N & _)]; congruence. Qed.

Lemma ext_low sc t t' d : ext sc t t' -> d < sc -> get t' d = get t d.
Proof. intros H L. destruct (H d) as [E|(L1 & _)]; auto. lia. Qed.

Lemma ext_alloc sc t f t' r : alloc t sc f true = (t', r) -> ext sc t t'.
Proof.
  intros H. apply alloc_spec in H as (A & B & C & D & _).
  intros d. destruct (Nat.eq_dec d r) as [->|Hne].
  - right. repeat split; eauto.
  - left. apply D. auto.
Qed.

Lemma pass1_spec sc : forall us fd t t' us',
  fd + length us <= sc ->
  pass1 sc fd us t = Ok (t', us') ->
  ext sc t t' /\ length us' = length us /\
  (forall k, nth_error us k = Some None -> nth_error us' k = Some None) /\
  (forall k u, nth_error us k = Some (Some u) ->
     exists u', nth_error us' k = Some (Some u') /\
       ((fd + k <= u /\ u' = u) \/
        (u < fd + k /\ sc <= u' /\
         exists e, get t u = Some e /\ get t' u' = Some (mkE (e_file e) true)))).
Proof.
  induction us as [|u0 rest IH]; intros fd t t' us' Hb H; cbn [pass1] in H.
  - inversion H; subst. split; [apply ext_refl|]. split; [reflexivity|].
    split; intros k; destruct k; simpl; discriminate.
  - cbn [length] in Hb.
    destruct u0 as [use_fd|].
    + destruct (use_fd <? fd)%nat eqn:Elt.
      * apply Nat.ltb_lt in Elt.
        unfold dupfd_cloexec in H. destruct (get t use_fd) as [e|] eqn:Eg; [|discriminate].
        destruct (alloc t sc (e_file e) true) as [t1 r] eqn:Ea.
        destruct (pass1 sc (S fd) rest t1) as [[t2 l]|] eqn:Er; [|discriminate].
        inversion H; subst. clear H.
        apply IH in Er as (X1 & X2 & X3 & X4); [|lia].
        pose proof (ext_alloc _ _ _ _ _ Ea) as X0.
        apply alloc_spec in Ea as (A & B & C & D & _).
        split; [eapply ext_trans; eauto|]. split; [simpl; congruence|].
        split.
        -- intros [|k] Hk; simpl in *; [discriminate|auto].
        -- intros [|k] u Hk; simpl in *.
           ++ inversion Hk; subst. exists r. split; auto. right.
              split; [lia|]. split; [auto|]. exists e. split; auto.
              eapply ext_some; eauto.
           ++ destruct (X4 k u Hk) as (u' & U1 & U2). exists u'. split; auto.
              destruct U2 as [(U2 & U3)|(U2 & U3 & e' & U4 & U5)].
              ** left. split; [lia|auto].
              ** right. split; [lia|]. split; auto. exists e'. split; auto.
                 assert (Hk' : k < length rest) by (apply nth_error_Some; congruence).
                 rewrite <- (ext_low sc t t1 u X0); [auto|lia].
      * apply Nat.ltb_ge in Elt.
        destruct (pass1 sc (S fd) rest t) as [[t2 l]|] eqn:Er; [|discriminate].
        inversion H; subst. clear H.
        apply IH in Er as (X1 & X2 & X3 & X4); [|lia].
        split; auto. split; [simpl; congruence|].
        split.
        -- intros [|k] Hk; simpl in *; [discriminate|auto].
        -- intros [|k] u Hk; simpl in *.
           ++ inversion Hk; subst. exists u. split; auto. left. split; [lia|auto].
           ++ destruct (X4 k u Hk) as (u' & U1 & U2). exists u'. split; auto.
              destruct U2 as [(U2 & U3)|(U2 & U3 & e' & U4 & U5)].
              ** left. split; [lia|auto].
              ** right. split; [lia|]. split; auto. exists e'. split; auto.
    + destruct (pass1 sc (S fd) rest t) as [[t2 l]|] eqn:Er; [|discriminate].
      inversion H; subst. clear H.
      apply IH in Er as (X1 & X2 & X3 & X4); [|lia].
      split; auto. split; [simpl; congruence|].
      split.
      * intros [|k] Hk; simpl in *; auto.
      * intros [|k] u Hk; simpl in *; [discriminate|].
        destruct (X4 k u Hk) as (u' & U1 & U2). exists u'. split; auto.
        destruct U2 as [(U2 & U3)|(U2 & U3 & e' & U4 & U5)].
        -- left. split; [lia|auto].
        -- right. split; [lia|]. split; auto. exists e'. split; auto.
Qed.

(* pass 1 cannot fail when every named source is open *)
Lemma pass1_ok sc : forall us fd t,
  fd + length us <= sc ->
  (forall k u, nth_error us k = Some (Some u) -> u < fd + k -> get t u <> None) ->
  exists t' us', pass1 sc fd us t = Ok (t', us').
Proof.
  induction us as [|u0 rest IH]; intros fd t Hb Hs; cbn [pass1].
  - eauto.
  - cbn [length] in Hb. destruct u0 as [use_fd|].
    + destruct (use_fd <? fd)%nat eqn:Elt.
      * apply Nat.ltb_lt in Elt. unfold dupfd_cloexec.
        destruct (get t use_fd) as [e|] eqn:Eg.
        -- destruct (alloc t sc (e_file e) true) as [t1 r] eqn:Ea.
           pose proof (ext_alloc _ _ _ _ _ Ea) as X0.
           destruct (IH (S fd) t1) as (t2 & l & E); [lia| |rewrite E; eauto].
           intros k u Hk Hlt.
           assert (Hk' : k < length rest) by (apply nth_error_Some; congruence).
           rewrite (ext_low sc t t1 u X0) by lia.
           apply (Hs (S k) u); simpl; auto. lia.
        -- exfalso. apply (Hs 0 use_fd); simpl; auto. lia.
      * destruct (IH (S fd) t) as (t2 & l & E); [lia| |rewrite E; eauto].
        intros k u Hk Hlt. apply (Hs (S k) u); simpl; auto. lia.
    + destruct (IH (S fd) t) as (t2 & l & E); [lia| |rewrite E; eauto].
      intros k u Hk Hlt. apply (Hs (S k) u); simpl; auto. lia.
Qed.

(* ------------------------------------------------------------------ *)
(* C. pass 2                                                            *)
(* ------------------------------------------------------------------ *)
Definition nocx (e : entry) : entry := mkE (e_file e) false.

(* what slot [k] must hold when pass 2 is over (before exec) *)
Definition want (t0 : tbl) (us0 : list (option nat)) (k : nat) : option entry :=
  match nth k us0 None with
  | Some u => option_map nocx (get t0 u)
  | None => if k <? 3 then Some (mkE devnull false) else get t0 k
  end.

Section Pass2.
  Variables (sc : nat) (t0 t1 : tbl) (us0 us1 : list (option nat)).
  Hypothesis Hlen0 : length us0 = sc.
  Hypothesis Hlen1 : length us1 = sc.
  Hypothesis Hext : ext sc t0 t1.
  Hypothesis Hopen : forall k u, nth_error us0 k = Some (Some u) -> get t0 u <> None.
  Hypothesis Hnone : forall k, nth_error us0 k = Some None -> nth_error us1 k = Some None.
  Hypothesis Hsome : forall k u, nth_error us0 k = Some (Some u) ->
     exists u', nth_error us1 k = Some (Some u') /\
       ((k <= u /\ u' = u) \/
        (u < k /\ sc <= u' /\
         exists e, get t0 u = Some e /\ get t1 u' = Some (mkE (e_file e) true))).

  Definition Inv (i : nat) (T : tbl) : Prop :=
    (forall d, i <= d -> get T d = get t1 d) /\
    (forall d, d < i -> get T d = want t0 us0 d).

  Lemma want_low d : d < 3 -> d < sc -> want t0 us0 d <> None.
  Proof.
    intros H3 Hd. unfold want.
    destruct (nth d us0 None) as [u|] eqn:E.
    - assert (nth_error us0 d = Some (Some u)).
      { rewrite (nth_error_nth' us0 None) by lia. congruence. }
      apply Hopen in H. destruct (get t0 u); simpl; congruence.
    - apply Nat.ltb_lt in H3. rewrite H3. discriminate.
  Qed.

  (* the source of slot k as seen by pass 2 is at or above k, open in t1, and
     refers to the file the container named *)
  Lemma slot_some k u' : k < sc -> nth_error us1 k = Some (Some u') ->
    k <= u' /\ exists e', get t1 u' = Some e' /\ want t0 us0 k = Some (nocx e').
  Proof.
    intros Hk H1.
    destruct (nth_error us0 k) as [[u|]|] eqn:E0.
    - destruct (Hsome k u E0) as (u2 & U1 & U2).
      rewrite H1 in U1. inversion U1; subst u2. clear U1.
      assert (Hn : nth k us0 None = Some u).
      { erewrite nth_error_nth; eauto. }
      unfold want. rewrite Hn.
      destruct U2 as [(A & ->)|(A & B & e & C & D)].
      + split; auto. pose proof (Hopen k u E0) as Ho.
        destruct (get t0 u) as [e|] eqn:Eg; [|congruence].
        exists e. split; [eapply ext_some; eauto|reflexivity].
      + split; [lia|]. exists (mkE (e_file e) true). split; auto.
        rewrite C. reflexivity.
    - apply Hnone in E0. congruence.
    - apply nth_error_None in E0. lia.
  Qed.

  Lemma slot_none k : k < sc -> nth_error us1 k = Some None -> nth k us0 None = None.
  Proof.
    intros Hk H1.
    destruct (nth_error us0 k) as [[u|]|] eqn:E0.
    - destruct (Hsome k u E0) as (u2 & U1 & _). congruence.
    - erewrite nth_error_nth; eauto.
    - apply nth_error_None in E0. lia.
  Qed.

  Lemma step2_inv i u T : i < sc -> nth_error us1 i = Some u -> Inv i T ->
    exists T', step2 sc i u T = Ok T' /\ Inv (S i) T'.
  Proof.
    intros Hi Hu [I1 I2]. unfold step2.
    destruct u as [u'|].
    - destruct (slot_some i u' Hi Hu) as (A & e' & B & C).
      destruct (Nat.eqb_spec i u') as [<-|Hne].
      + unfold set_cloexec. rewrite (I1 i) by lia. rewrite B.
        eexists. split; [reflexivity|]. split.
        * intros d Hd. rewrite get_set_other by lia. apply I1. lia.
        * intros d Hd. destruct (Nat.eq_dec d i) as [->|Hd'].
          -- rewrite get_set_same. symmetry. exact C.
          -- rewrite get_set_other by lia. apply I2. lia.
      + unfold dup2. rewrite (I1 u') by lia. rewrite B.
        destruct (Nat.eqb_spec u' i) as [->|_]; [congruence|].
        eexists. split; [reflexivity|]. split.
        * intros d Hd. rewrite get_set_other by lia. apply I1. lia.
        * intros d Hd. destruct (Nat.eq_dec d i) as [->|Hd'].
          -- rewrite get_set_same. symmetry. exact C.
          -- rewrite get_set_other by lia. apply I2. lia.
    - pose proof (slot_none i Hi Hu) as Hn.
      destruct (Nat.leb_spec 3 i) as [H3|H3].
      + eexists. split; [reflexivity|]. split.
        * intros d Hd. apply I1. lia.
        * intros d Hd. destruct (Nat.eq_dec d i) as [->|Hd'].
          -- rewrite (I1 i) by lia. rewrite (ext_low sc t0 t1 i Hext Hi).
             unfold want. rewrite Hn. destruct (Nat.ltb_spec i 3); [lia|reflexivity].
          -- apply I2. lia.
      + assert (Hr : lowest_free (close T i) 0 = i).
        { apply lowest_free_unique; [lia| |].
          - rewrite get_close, Nat.eqb_refl. reflexivity.
          - intros j Hj. rewrite get_close.
            destruct (Nat.eqb_spec i j); [lia|].
            rewrite (I2 j) by lia. apply want_low; lia. }
        unfold open_, alloc. rewrite Hr. rewrite Nat.eqb_refl.
        destruct (Nat.leb_spec sc i) as [Hs|Hs]; [lia|].
        eexists. split; [reflexivity|]. split.
        * intros d Hd. rewrite get_set_other by lia. rewrite get_close.
          destruct (Nat.eqb_spec i d); [lia|]. apply I1. lia.
        * intros d Hd. destruct (Nat.eq_dec d i) as [->|Hd'].
          -- rewrite get_set_same. unfold want. rewrite Hn.
             destruct (Nat.ltb_spec i 3); [reflexivity|lia].
          -- rewrite get_set_other by lia. rewrite get_close.
             destruct (Nat.eqb_spec i d); [lia|]. apply I2. lia.
  Qed.

  Lemma pass2_inv : forall todo i T,
    i + length todo = sc ->
    (forall k, k < length todo -> nth_error todo k = nth_error us1 (i + k)) ->
    Inv i T ->
    exists T', pass2 sc i todo T = Ok T' /\ Inv sc T'.
  Proof.
    induction todo as [|u rest IH]; intros i T Hl Hn HI; cbn [pass2].
    - simpl in Hl. rewrite Nat.add_0_r in Hl. subst i. eauto.
    - cbn [length] in Hl.
      assert (Hu : nth_error us1 i = Some u).
      { specialize (Hn 0). simpl in Hn. rewrite Nat.add_0_r in Hn. symmetry. apply Hn. lia. }
      destruct (step2_inv i u T) as (T1 & E1 & I1); [lia|auto|auto|].
      rewrite E1. apply IH; [lia| |auto].
      intros k Hk. specialize (Hn (S k)). simpl in Hn.
      rewrite Hn by lia. f_equal. lia.
  Qed.
End Pass2.

(* ------------------------------------------------------------------ *)
(* D. the child's table                                                 *)
(* ------------------------------------------------------------------ *)
Definition sources_open (t : tbl) (us : list (option nat)) : Prop :=
  forall k u, nth_error us k = Some (Some u) -> get t u <> None.

(* both passes succeed; the resulting table (before exec) *)
Lemma shuffle_spec t0 us0 :
  sources_open t0 us0 ->
  exists t1 us1 T,
    pass1 (length us0) 0 us0 t0 = Ok (t1, us1) /\
    pass2 (length us0) 0 us1 t1 = Ok T /\
    ext (length us0) t0 t1 /\
    (forall d, length us0 <= d -> get T d = get t1 d) /\
    (forall d, d < length us0 -> get T d = want t0 us0 d).
Proof.
  intros Ho. set (sc := length us0).
  destruct (pass1_ok sc us0 0 t0) as (t1 & us1 & E1); [unfold sc; lia| |].
  { intros k u Hk _. eapply Ho; eauto. }
  pose proof (pass1_spec sc us0 0 t0 t1 us1 ltac:(unfold sc; lia) E1) as (X1 & X2 & X3 & X4).
  destruct (pass2_inv sc t0 t1 us0 us1 eq_refl X2 X1 Ho X3) with (todo := us1) (i := 0) (T := t1)
    as (T & E2 & I1 & I2).
  - intros k u Hk. destruct (X4 k u Hk) as (u' & U1 & U2). exists u'. split; auto.
  - simpl. auto.
  - intros k Hk. reflexivity.
  - split; [intros; reflexivity|intros; lia].
  - exists t1, us1, T. repeat split; auto.
Qed.

Lemma exec_entry_nocx e : exec_entry (Some (nocx e)) = Some (nocx e).
Proof. reflexivity. Qed.

(* the table of the child after a successful exec *)
Definition child_slot (t0 : tbl) (us0 : list (option nat)) (i : nat) : option entry :=
  match nth i us0 None with
  | Some u => option_map nocx (get t0 u)
  | None => if i <? 3 then Some (mkE devnull false) else exec_entry (get t0 i)
  end.

Lemma ext_exec_entry sc t t' d : ext sc t t' -> exec_entry (get t' d) = exec_entry (get t d).
Proof.
  intros H. destruct (H d) as [E|(_ & N & f & E)]; rewrite E; [reflexivity|].
  rewrite N. reflexivity.
Qed.

Lemma ext_none sc t t' d : ext sc t t' -> get t' d = None -> get t d = None.
Proof. intros H N. destruct (H d) as [E|(_ & N' & _)]; congruence. Qed.

Lemma sources_open_ext sc t t' us : ext sc t t' -> sources_open t us -> sources_open t' us.
Proof.
  intros X Ho k u Hk. specialize (Ho k u Hk).
  destruct (get t u) as [e|] eqn:E; [|congruence]. rewrite (ext_some sc _ _ _ _ X E). discriminate.
Qed.

(* process.c:320-337: the error pipe ends up at or above stdio_count, on the
   same file; the table only gains a close-on-exec descriptor above *)
Lemma move_efd_spec sc efd t ew :
  get t efd = Some ew ->
  exists t0 efd1 e1, move_efd sc efd t = Some (t0, efd1) /\ ext sc t t0 /\
    sc <= efd1 /\ get t0 efd1 = Some e1 /\ e_file e1 = e_file ew.
Proof.
  intros H. unfold move_efd. destruct (Nat.ltb_spec efd sc) as [L|G].
  - unfold dupfd_cloexec. rewrite H.
    destruct (alloc t sc (e_file ew) true) as [t0 n] eqn:A.
    pose proof (ext_alloc _ _ _ _ _ A) as X.
    apply alloc_spec in A as (A1 & _ & A3 & _).
    exists t0, n, (mkE (e_file ew) true). repeat split; auto.
  - exists t, efd, ew. repeat split; auto. apply ext_refl.
Qed.

Theorem child_fds t0 us0 efd :
  sources_open t0 us0 -> get t0 efd <> None ->
  exists t', child_init us0 efd None t0 = CExec t' /\
    (forall i, i < length us0 -> get t' i = child_slot t0 us0 i) /\
    (forall d, length us0 <= d -> get t' d = exec_entry (get t0 d)).
Proof.
  intros Ho He. destruct (get t0 efd) as [ew|] eqn:Ee; [|congruence].
  destruct (move_efd_spec (length us0) efd t0 ew Ee) as (tm & efd1 & e1 & Em & Xm & _).
  pose proof (sources_open_ext _ _ _ _ Xm Ho) as Hom.
  destruct (shuffle_spec tm us0 Hom) as (t1 & us1 & T & E1 & E2 & X & A & B).
  unfold child_init. rewrite Em, E1, E2. eexists. split; [reflexivity|]. split.
  - intros i Hi. rewrite get_exec, (B i Hi). unfold want, child_slot.
    destruct (nth i us0 None) as [u|] eqn:En.
    + assert (Hu : nth_error us0 i = Some (Some u)).
      { rewrite (nth_error_nth' us0 None) by lia. congruence. }
      specialize (Ho i u Hu). destruct (get t0 u) as [e|] eqn:Eg; [|congruence].
      rewrite (ext_some _ _ _ _ _ Xm Eg). reflexivity.
    + destruct (i <? 3); [reflexivity|]. rewrite (ext_low _ _ _ _ Xm Hi). reflexivity.
  - intros d Hd. rewrite get_exec, (A d Hd).
    rewrite (ext_exec_entry _ _ _ _ X). apply (ext_exec_entry _ _ _ _ Xm).
Qed.

Lemma exec_cx_clear t d e : get (exec t) d = Some e -> e_cx e = false.
Proof.
  rewrite get_exec. destruct (get t d) as [x|]; simpl; [|discriminate].
  destruct (e_cx x) eqn:E; [discriminate|]. intros H. inversion H; subst. auto.
Qed.

(* every descriptor of the parent that is not the target of a mapping *)
Definition others_cloexec (t0 : tbl) (us0 : list (option nat)) : Prop :=
  forall d e, (length us0 <= d \/ (3 <= d /\ nth d us0 None = None)) ->
              get t0 d = Some e -> e_cx e = true.

Corollary child_no_other t0 us0 efd t' :
  sources_open t0 us0 -> get t0 efd <> None -> others_cloexec t0 us0 ->
  child_init us0 efd None t0 = CExec t' ->
  forall d, get t' d <> None -> d < length us0 /\ (d < 3 \/ nth d us0 None <> None).
Proof.
  intros Ho Hefd Hc He d Hd.
  destruct (child_fds t0 us0 efd Ho Hefd) as (t2 & E & A & B).
  rewrite He in E. inversion E; subst t2. clear E.
  destruct (Nat.lt_ge_cases d (length us0)) as [L|G].
  - split; auto. destruct (Nat.lt_ge_cases d 3) as [L3|G3]; auto. right.
    intros Hn. apply Hd. rewrite (A d L). unfold child_slot. rewrite Hn.
    destruct (Nat.ltb_spec d 3); [lia|].
    destruct (get t0 d) as [e|] eqn:Eg; [|reflexivity].
    simpl. rewrite (Hc d e); auto.
  - exfalso. apply Hd. rewrite (B d G).
    destruct (get t0 d) as [e|] eqn:Eg; [|reflexivity].
    simpl. rewrite (Hc d e); auto.
Qed.

(* ------------------------------------------------------------------ *)
(* E. the error pipe                                                    *)
(* ------------------------------------------------------------------ *)
Definition sc_ret (x : Z * tbl * option cres * option (option nat * Z) *
                       option (option wans) * list wans) : Z :=
  let '(r, _, _, _, _, _) := x in r.
Definition sc_reaped (x : Z * tbl * option cres * option (option nat * Z) *
                          option (option wans) * list wans) : option (option wans) :=
  let '(_, _, _, _, r, _) := x in r.

Lemma sources_open_alloc t us min f cx t' r :
  alloc t min f cx = (t', r) -> sources_open t us -> sources_open t' us.
Proof.
  intros Ha Ho k u Hk. apply alloc_spec in Ha as (_ & B & _ & D & _).
  specialize (Ho k u Hk). rewrite D; auto. intros ->. congruence.
Qed.

(* the table of a child that stops in uv__write_errno after a failed exec:
   its error_fd still refers to the error pipe *)
Lemma child_fail_table t0 us0 e efd ew :
  sources_open t0 us0 -> get t0 efd = Some ew ->
  exists T efd1 e1, child_init us0 efd (Some e) t0 = CFail T efd1 (- e)%Z /\
    get T efd1 = Some e1 /\ e_file e1 = e_file ew.
Proof.
  intros Ho Hw.
  destruct (move_efd_spec (length us0) efd t0 ew Hw) as (tm & efd1 & e1 & Em & Xm & G & Gm & Fm).
  pose proof (sources_open_ext _ _ _ _ Xm Ho) as Hom.
  destruct (shuffle_spec tm us0 Hom) as (t1 & us1 & T & E1 & E2 & X & A & B).
  unfold child_init. rewrite Em, E1, E2. exists T, efd1, e1. split; [reflexivity|].
  split; [|exact Fm]. rewrite (A efd1 G). eapply ext_some; eauto.
Qed.

(* commit a79de05: no hypothesis on where the error pipe landed any more *)
Theorem exec_failure_reported t us fresh e wo :
  sources_open t us ->
  sc_ret (spawn_child t us fresh false false (Some e) wo) = (- e)%Z /\
  sc_reaped (spawn_child t us fresh false false (Some e) wo) = Some (fst (wait_retry wo)).
Proof.
  intros Ho. unfold spawn_child.
  destruct (alloc t 0 fresh true) as [t1 rfd] eqn:A1.
  destruct (alloc t1 0 (S fresh) true) as [t2 wfd] eqn:A2.
  pose proof (sources_open_alloc _ _ _ _ _ _ _ A1 Ho) as Ho1.
  pose proof (sources_open_alloc _ _ _ _ _ _ _ A2 Ho1) as Ho2.
  pose proof A2 as A2'. apply alloc_spec in A2' as (_ & _ & C & _ & _).
  destruct (child_fail_table t2 us e wfd _ Ho2 C) as (T & efd1 & e1 & E & G & F).
  rewrite E, G, F. cbn [e_file]. rewrite Nat.eqb_refl.
  destruct (wait_retry wo) as [a wo1]. split; reflexivity.
Qed.

(* History: the code before commit a79de05 (no move of error_fd).  With 0,1,2
   open, six slots, the error pipe lands on 3/4 and slot 4 is mapped: the
   parent saw success. *)
Definition child_init_unfixed (us : list (option nat)) (efd : nat) (exec_err : option Z)
           (t : tbl) : cres :=
  let sc := length us in
  match pass1 sc 0 us t with
  | Fail t1 e => CFail t1 efd e
  | Ok (t1, us1) =>
      match pass2 sc 0 us1 t1 with
      | Fail t2 e => CFail t2 efd e
      | Ok t2 => match exec_err with
                 | None => CExec (exec t2)
                 | Some e => CFail t2 efd (- e)%Z
                 end
      end
  end.

(* exec_errorno as the parent computed it from such a child *)
Definition exec_errorno_unfixed (t : tbl) (us : list (option nat)) (fresh : nat) (e : Z) : Z :=
  let '(t1, rfd) := alloc t 0 fresh true in
  let '(t2, wfd) := alloc t1 0 (S fresh) true in
  match child_init_unfixed us wfd (Some e) t2 with
  | CExec _ => 0%Z
  | CFail tc efd err =>
      match get tc efd with
      | Some w => if (e_file w =? S fresh)%nat then err else 0%Z
      | None => 0%Z
      end
  end.

Lemma error_pipe_clobbered_before_a79de05 :
  let t := [Some (mkE 1 false); Some (mkE 2 false); Some (mkE 3 false)] in
  let us := [Some 0; Some 1; Some 2; Some 0; Some 1; Some 2] in
  sources_open t us /\
  exec_errorno_unfixed t us 10 2%Z = 0%Z /\
  sc_ret (spawn_child t us 10 false false (Some 2%Z) []) = (-2)%Z.
Proof.
  cbv zeta. split; [|split; vm_compute; reflexivity].
  intros k u Hk.
  do 6 (destruct k as [|k]; [inversion Hk; subst; vm_compute; discriminate|]).
  destruct k; discriminate.
Qed.

(* ------------------------------------------------------------------ *)
(* F. status words                                                      *)
(* ------------------------------------------------------------------ *)
Local Open Scope Z_scope.

Definition decode_spec_of (s : Z) : Z * Z :=
  if s mod 128 =? 0 then ((s / 256) mod 256, 0)
  else if s mod 128 <=? 126 then (0, s mod 128)
  else (0, 0).

Definition macros_ok (s : Z) : bool :=
  Bool.eqb (WIFEXITED s) (s mod 128 =? 0) &&
  Bool.eqb (WIFSIGNALED s) ((1 <=? s mod 128) && (s mod 128 <=? 126)) &&
  (WEXITSTATUS s =? (s / 256) mod 256) &&
  (WTERMSIG s =? s mod 128) &&
  (fst (decode s) =? fst (decode_spec_of s)) && (snd (decode s) =? snd (decode_spec_of s)).

Fixpoint zrange (n : nat) (start : Z) : list Z :=
  match n with
  | O => []
  | S k => start :: zrange k (start + 1)
  end.

Lemma zrange_all n : forall start s, start <= s < start + Z.of_nat n -> In s (zrange n start).
Proof.
  induction n as [|n IH]; intros start s H; [lia|].
  cbn [zrange]. destruct (Z.eq_dec s start) as [->|Hne]; [left; auto|].
  right. apply IH. lia.
Qed.

Definition words16 : list Z := zrange (256 * 256) 0.

Lemma words16_all s : 0 <= s < 65536 -> In s words16.
Proof. intros H. apply zrange_all. lia. Qed.

Lemma macros_sweep : forallb macros_ok words16 = true.
Proof. vm_compute. reflexivity. Qed.

Lemma macros_ok_all s : 0 <= s < 65536 -> macros_ok s = true.
Proof.
  intros H. pose proof macros_sweep as S. rewrite forallb_forall in S.
  apply S. apply words16_all. auto.
Qed.

Lemma status_macros s : 0 <= s < 65536 ->
  WIFEXITED s = (s mod 128 =? 0) /\
  WIFSIGNALED s = ((1 <=? s mod 128) && (s mod 128 <=? 126)) /\
  WEXITSTATUS s = (s / 256) mod 256 /\
  WTERMSIG s = s mod 128.
Proof.
  intros H. pose proof (macros_ok_all s H) as M. unfold macros_ok in M.
  repeat (apply andb_true_iff in M as [M ?]).
  apply Bool.eqb_prop in M. apply Bool.eqb_prop in H4.
  apply Z.eqb_eq in H3. apply Z.eqb_eq in H2. auto.
Qed.

Lemma decode_spec s : 0 <= s < 65536 -> decode s = decode_spec_of s.
Proof.
  intros H. pose proof (macros_ok_all s H) as M. unfold macros_ok in M.
  repeat (apply andb_true_iff in M as [M ?]).
  apply Z.eqb_eq in H0. apply Z.eqb_eq in H1.
  destruct (decode s), (decode_spec_of s). simpl in *. congruence.
Qed.

(* a normal exit with code c, a death by signal g (with or without core) *)
Lemma decode_exit c : 0 <= c < 256 -> decode (256 * c) = (c, 0).
Proof.
  intros H. rewrite decode_spec by lia. unfold decode_spec_of.
  replace ((256 * c) mod 128) with 0 by lia. rewrite Z.eqb_refl.
  f_equal. rewrite Z.mul_comm, Z.div_mul by lia. apply Z.mod_small. lia.
Qed.

Lemma decode_signal g core : 1 <= g <= 126 -> 0 <= core <= 1 ->
  decode (g + 128 * core) = (0, g).
Proof.
  intros H Hc. rewrite decode_spec by lia. unfold decode_spec_of.
  replace ((g + 128 * core) mod 128) with g by lia.
  destruct (Z.eqb_spec g 0); [lia|]. destruct (Z.leb_spec g 126); [reflexivity|lia].
Qed.

Lemma decode_range s : 0 <= s < 65536 ->
  0 <= fst (decode s) < 256 /\ 0 <= snd (decode s) < 127 /\
  (fst (decode s) = 0 \/ snd (decode s) = 0).
Proof.
  intros H. rewrite decode_spec by auto. unfold decode_spec_of.
  destruct (Z.eqb_spec (s mod 128) 0); simpl; [lia|].
  destruct (Z.leb_spec (s mod 128) 126); simpl; lia.
Qed.
Local Close Scope Z_scope.

(* ------------------------------------------------------------------ *)
(* G. uv__wait_children                                                 *)
(* ------------------------------------------------------------------ *)
Fixpoint reaps (evs : list event) : list (nat * Z * bool) :=
  match evs with
  | [] => []
  | EReap h st cb :: r => (h, st, cb) :: reaps r
  | _ :: r => reaps r
  end.

Fixpoint exits (evs : list event) : list (nat * Z * Z) :=
  match evs with
  | [] => []
  | EExit h es ts :: r => (h, es, ts) :: exits r
  | _ :: r => exits r
  end.

(* the callbacks that the reaped children are owed *)
Definition owed1 (x : nat * Z * bool) : list (nat * Z * Z) :=
  let '(h, st, cb) := x in
  if cb then [(h, fst (decode st), snd (decode st))] else [].
Definition owed (l : list (nat * Z * bool)) : list (nat * Z * Z) := flat_map owed1 l.

Lemma reaps_app a b : reaps (a ++ b) = reaps a ++ reaps b.
Proof. induction a as [|x a IH]; simpl; auto. destruct x; simpl; auto. f_equal. auto. Qed.
Lemma exits_app a b : exits (a ++ b) = exits a ++ exits b.
Proof. induction a as [|x a IH]; simpl; auto. destruct x; simpl; auto. f_equal. auto. Qed.
Lemma owed_app a b : owed (a ++ b) = owed a ++ owed b.
Proof. unfold owed. apply flat_map_app. Qed.

Definition pend_key (x : proc * Z) : nat * Z * bool := (p_h (fst x), snd x, p_cb (fst x)).

Lemma collect_spec : forall q o keep pend ev o' ab,
  collect q o = (keep, pend, ev, o', ab) ->
  reaps ev = map pend_key pend /\ exits ev = [] /\
  Permutation q (map fst pend ++ keep).
Proof.
  induction q as [|p rest IH]; intros o keep pend ev o' ab H; cbn [collect] in H.
  - inversion H; subst. simpl. auto.
  - destruct (wait_retry o) as [a o1].
    destruct a as [a|].
    + destruct a.
      * destruct (collect rest o1) as [[[[k1 p1] e1] o2] ab1] eqn:E.
        inversion H; subst. destruct (IH _ _ _ _ _ _ E) as (A & B & C).
        simpl. repeat split; auto. apply Permutation_cons_app. auto.
      * destruct (collect rest o1) as [[[[k1 p1] e1] o2] ab1] eqn:E.
        inversion H; subst. destruct (IH _ _ _ _ _ _ E) as (A & B & C).
        simpl. repeat split; auto. apply Permutation_cons_app. auto.
      * destruct (collect rest o1) as [[[[k1 p1] e1] o2] ab1] eqn:E.
        inversion H; subst. destruct (IH _ _ _ _ _ _ E) as (A & B & C).
        simpl. repeat split; auto. apply Permutation_cons_app. auto.
      * destruct (collect rest o1) as [[[[k1 p1] e1] o2] ab1] eqn:E.
        inversion H; subst. destruct (IH _ _ _ _ _ _ E) as (A & B & C).
        simpl. repeat split; auto. f_equal. auto.
      * inversion H; subst. simpl. auto.
    + inversion H; subst. simpl. auto.
Qed.

Lemma deliver_spec pend :
  reaps (deliver pend) = [] /\ exits (deliver pend) = owed (map pend_key pend).
Proof.
  induction pend as [|[p st] r [IH1 IH2]]; simpl; auto.
  rewrite reaps_app, exits_app, IH1, IH2. unfold pend_key at 1. simpl.
  destruct (p_cb p); simpl; auto.
Qed.

Lemma wait_children_spec s o s' ev :
  wait_children s o = (s', ev) ->
  (l_abort s' = false -> exits ev = owed (reaps ev)) /\
  exists rest, owed (reaps ev) = exits ev ++ rest.
Proof.
  unfold wait_children. intros H.
  destruct (collect (l_q s) o) as [[[[keep pend] e1] o1] ab] eqn:E.
  destruct (collect_spec _ _ _ _ _ _ _ E) as (A & B & _).
  destruct (deliver_spec pend) as (C & D).
  destruct ab; inversion H; subst; clear H.
  - split; [simpl; discriminate|]. rewrite B. simpl. eauto.
  - assert (X : exits (e1 ++ deliver pend ++ match o1 with [] => [] | _ :: _ => [EExtra] end)
                = owed (reaps (e1 ++ deliver pend ++ match o1 with [] => [] | _ :: _ => [EExtra] end))).
    { rewrite !exits_app, !reaps_app, A, B, C, D. destruct o1; simpl; rewrite !app_nil_r; auto. }
    split; [auto|]. exists []. rewrite app_nil_r. auto.
Qed.

Lemma step_abort s o : l_abort s = true -> step s o = (s, []).
Proof. intros H. unfold step. rewrite H. reflexivity. Qed.

Lemma run_abort ops : forall s, l_abort s = true -> run s ops = (s, []).
Proof.
  induction ops as [|o r IH]; intros s H; simpl; auto.
  rewrite step_abort by auto. rewrite IH by auto. reflexivity.
Qed.

Lemma step_spec s o s' ev :
  step s o = (s', ev) ->
  (l_abort s' = false -> exits ev = owed (reaps ev)) /\
  exists rest, owed (reaps ev) = exits ev ++ rest.
Proof.
  unfold step. destruct (l_abort s) eqn:Ea.
  - intros H. inversion H; subst. simpl. split; eauto.
  - destruct o as [h sp wo|ans|h].
    + destruct (uv_spawn sp wo) as [r wo1]. intros H. inversion H; subst. simpl. split; eauto.
    + apply wait_children_spec.
    + intros H. inversion H; subst. simpl. split; eauto.
Qed.

(* every callback run so far belongs to a reaped child, in order, with the
   decoded status; when the loop did not abort() every reaped child with a
   callback has had it *)
Theorem exit_once_true_status : forall ops s s' evs,
  run s ops = (s', evs) ->
  (l_abort s' = false -> exits evs = owed (reaps evs)) /\
  exists rest, owed (reaps evs) = exits evs ++ rest.
Proof.
  induction ops as [|o r IH]; intros s s' evs H; cbn [run] in H.
  - inversion H; subst. simpl. split; eauto.
  - destruct (step s o) as [s1 e1] eqn:E1. destruct (run s1 r) as [s2 e2] eqn:E2.
    inversion H; subst. clear H.
    destruct (step_spec _ _ _ _ E1) as (A1 & r1 & B1).
    destruct (IH _ _ _ E2) as (A2 & r2 & B2).
    destruct (l_abort s1) eqn:Ea.
    + rewrite run_abort in E2 by auto. inversion E2; subst. rewrite app_nil_r.
      split; [congruence|eauto].
    + rewrite exits_app, reaps_app, owed_app. rewrite A1 by auto. split.
      * intros H. rewrite A2 by auto. reflexivity.
      * exists r2. rewrite B2. rewrite <- A1 by auto. rewrite app_assoc. reflexivity.
Qed.

(* no handle is reaped twice when every uv_spawn uses a fresh handle *)
Definition spawn_handle (o : op) : list nat :=
  match o with OSpawn h _ _ => [h] | _ => [] end.
Definition spawn_handles (ops : list op) : list nat := flat_map spawn_handle ops.
Definition reaped_handles (evs : list event) : list nat := map (fun x => fst (fst x)) (reaps evs).

Lemma NoDup_app_inv {A} (a b : list A) :
  NoDup (a ++ b) -> NoDup a /\ NoDup b /\ forall x, In x a -> ~ In x b.
Proof.
  induction a as [|y a IH]; simpl; intros H.
  - split; [constructor|]. split; auto.
  - inversion H; subst. destruct (IH H3) as (A1 & A2 & A3).
    split; [constructor; auto; intros X; apply H2; apply in_or_app; auto|].
    split; auto. intros x [->|Hx]; auto. intros X. apply H2. apply in_or_app. auto.
Qed.

Lemma NoDup_app_intro {A} (a b : list A) :
  NoDup a -> NoDup b -> (forall x, In x a -> ~ In x b) -> NoDup (a ++ b).
Proof.
  induction a as [|y a IH]; simpl; intros H1 H2 H3; auto.
  inversion H1; subst. constructor.
  - intros X. apply in_app_or in X as [X|X]; auto. apply (H3 y); auto.
  - apply IH; auto.
Qed.

Lemma NoDup_map_filter {A B} (g : A -> B) (f : A -> bool) l :
  NoDup (map g l) -> NoDup (map g (filter f l)).
Proof.
  induction l as [|x l IH]; simpl; intros H; auto.
  inversion H; subst. destruct (f x); simpl; auto.
  constructor; auto. intros X. apply H2. apply in_map_iff in X as (y & Y1 & Y2).
  apply filter_In in Y2 as [Y2 _]. apply in_map_iff. eauto.
Qed.

Definition fresh_inv (q : list proc) (B : list nat) : Prop :=
  NoDup (map p_h q) /\ NoDup B /\ forall h, In h (map p_h q) -> ~ In h B.

Definition active_handle (o : op) : list nat :=
  match o with
  | OSpawn h sp wo => if r_active (fst (uv_spawn sp wo)) then [h] else []
  | _ => []
  end.
Definition active_handles (ops : list op) : list nat := flat_map active_handle ops.

Lemma active_sub ops x : In x (active_handles ops) -> In x (spawn_handles ops).
Proof.
  unfold active_handles, spawn_handles. rewrite !in_flat_map.
  intros (o & O1 & O2). exists o. split; auto.
  destruct o as [h sp wo|ans|h]; cbn [active_handle spawn_handle] in *; auto.
  destruct (r_active (fst (uv_spawn sp wo))); auto. destruct O2.
Qed.

Lemma fresh_inv_weaken q a B : fresh_inv q (a ++ B) -> fresh_inv q B.
Proof.
  intros (I1 & I2 & I3). apply NoDup_app_inv in I2 as (_ & I2 & _).
  split; auto. split; auto. intros h Hh X. apply (I3 h Hh). apply in_or_app. auto.
Qed.

Lemma reaped_handles_collect ev pend :
  reaps ev = map pend_key pend -> reaped_handles ev = map p_h (map fst pend).
Proof.
  intros H. unfold reaped_handles. rewrite H, !map_map. reflexivity.
Qed.

Lemma step_fresh s o s1 e1 B :
  fresh_inv (l_q s) (spawn_handle o ++ B) -> step s o = (s1, e1) ->
  fresh_inv (l_q s1) B /\ NoDup (reaped_handles e1) /\
  (forall h, In h (reaped_handles e1) -> In h (map p_h (l_q s)) /\ ~ In h (map p_h (l_q s1))) /\
  (forall h, In h (map p_h (l_q s1)) -> In h (map p_h (l_q s)) \/ In h (active_handle o)).
Proof.
  intros HI H. pose proof (fresh_inv_weaken _ _ _ HI) as HW.
  unfold step in H. destruct (l_abort s) eqn:Ea.
  { inversion H; subst. split; auto. split; [constructor|]. split; [intros h []|auto]. }
  destruct o as [h sp wo|ans|h].
  - cbn [active_handle]. destruct (uv_spawn sp wo) as [res wo1]. inversion H; subst. clear H.
    cbn [fst].
    split; [|split; [constructor|split; [intros x []|]]].
    + destruct (r_active res); auto. cbn [l_q].
      destruct HI as (I1 & I2 & I3). destruct HW as (_ & W2 & W3).
      cbn [spawn_handle app] in I2, I3. inversion I2; subst.
      split; [|split; auto].
      * rewrite map_app. apply NoDup_app_intro; auto.
        -- simpl. constructor; [tauto|constructor].
        -- intros x Hx [E|[]]. subst x. apply (I3 h Hx). left. auto.
      * intros x Hx. rewrite map_app in Hx. apply in_app_or in Hx as [Hx|[<-|[]]]; auto.
    + cbn [l_q]. intros x Hx. destruct (r_active res); auto.
      rewrite map_app in Hx. apply in_app_or in Hx as [Hx|[<-|[]]]; auto.
      right. left. auto.
  - unfold wait_children in H.
    destruct (collect (l_q s) ans) as [[[[keep pend] ev] o1] ab] eqn:E.
    destruct (collect_spec _ _ _ _ _ _ _ E) as (A & _ & P).
    apply (Permutation_map p_h) in P. rewrite map_app in P.
    destruct HW as (W1 & W2 & W3).
    pose proof (Permutation_NoDup P W1) as ND. apply NoDup_app_inv in ND as (N1 & N2 & N3).
    assert (RH : reaped_handles e1 = map p_h (map fst pend)).
    { destruct ab; inversion H; subst.
      - apply reaped_handles_collect. auto.
      - apply reaped_handles_collect. destruct (deliver_spec pend) as (C & _).
        rewrite !reaps_app, C, A. destruct o1; simpl; rewrite !app_nil_r; auto. }
    assert (Q1 : l_q s1 = keep) by (destruct ab; inversion H; subst; reflexivity).
    rewrite RH, Q1.
    split; [|split; [auto|split]].
    + split; auto. split; auto. intros x Hx. apply W3.
      apply (Permutation_in _ (Permutation_sym P)). apply in_or_app. auto.
    + intros x Hx. split; [|apply N3; auto].
      apply (Permutation_in _ (Permutation_sym P)). apply in_or_app. auto.
    + intros x Hx. left. apply (Permutation_in _ (Permutation_sym P)). apply in_or_app. auto.
  - inversion H; subst. clear H. cbn [l_q].
    destruct HW as (W1 & W2 & W3).
    assert (Sub : forall x, In x (map p_h (filter (fun p => negb (p_h p =? h)) (l_q s))) ->
                            In x (map p_h (l_q s))).
    { intros x Hx. apply in_map_iff in Hx as (y & Y1 & Y2). apply filter_In in Y2 as [Y2 _].
      apply in_map_iff. eauto. }
    split; [|split; [constructor|split; [intros x []|]]].
    + split; [apply NoDup_map_filter; auto|]. split; auto.
    + intros x Hx. left. auto.
Qed.

Lemma reaped_once_gen : forall ops s s' evs,
  fresh_inv (l_q s) (spawn_handles ops) ->
  run s ops = (s', evs) ->
  NoDup (reaped_handles evs) /\
  forall h, In h (reaped_handles evs) -> In h (map p_h (l_q s)) \/ In h (active_handles ops).
Proof.
  induction ops as [|o r IH]; intros s s' evs HI H; cbn [run] in H.
  - inversion H; subst. simpl. split; [constructor|tauto].
  - destruct (step s o) as [s1 e1] eqn:E1. destruct (run s1 r) as [s2 e2] eqn:E2.
    inversion H; subst. clear H.
    change (spawn_handles (o :: r)) with (spawn_handle o ++ spawn_handles r) in *.
    change (active_handles (o :: r)) with (active_handle o ++ active_handles r) in *.
    destruct (step_fresh _ _ _ _ _ HI E1) as (F1 & F2 & F3 & F4).
    destruct (IH _ _ _ F1 E2) as (G1 & G2).
    unfold reaped_handles in *. rewrite reaps_app, map_app. split.
    + apply NoDup_app_intro; auto.
      intros x Hx Hy. destruct (F3 x Hx) as (X1 & X2).
      destruct (G2 x Hy) as [Y|Y]; [auto|].
      destruct HI as (_ & _ & I3). apply (I3 x X1). apply in_or_app. right.
      apply active_sub. auto.
    + intros x Hx. apply in_app_or in Hx as [Hx|Hx].
      * left. apply F3. auto.
      * destruct (G2 x Hx) as [Y|Y].
        -- destruct (F4 x Y) as [Z|Z]; auto. right. apply in_or_app. auto.
        -- right. apply in_or_app. auto.
Qed.

(* from an empty loop: nobody is reaped twice, and only spawned handles are reaped *)
Theorem reaped_once ops s' evs :
  NoDup (spawn_handles ops) -> run linit ops = (s', evs) ->
  NoDup (reaped_handles evs) /\ forall h, In h (reaped_handles evs) -> In h (active_handles ops).
Proof.
  intros H R. destruct (reaped_once_gen ops linit s' evs) as (A & B); auto.
  - split; [constructor|]. split; auto.
  - split; auto. intros h Hh. destruct (B h Hh) as [[]|X]; auto.
Qed.

(* a spawn whose exec (or an earlier step) failed queues nothing *)
Lemma failed_spawn_not_queued s h sp wo s1 e1 :
  l_abort s = false -> step s (OSpawn h sp wo) = (s1, e1) ->
  r_ret (fst (uv_spawn sp wo)) <> 0%Z -> l_q s1 = l_q s.
Proof.
  intros Ha H Hr. unfold step in H. rewrite Ha in H.
  destruct (uv_spawn sp wo) as [res wo1] eqn:E. inversion H; subst. cbn [l_q].
  simpl in Hr.
  assert (r_active res = false) as ->; auto.
  unfold uv_spawn in E.
  destruct (init_stdio (s_stdio sp) (s_tbl sp) (s_fresh sp) 0 (s_sp_fail sp)) as [[[t1 ps] f1] err].
  destruct err.
  - inversion E; subst. reflexivity.
  - destruct (spawn_child t1 (pad3 3 (map snd ps)) f1 (s_pipe_fail sp) (s_fork_fail sp) (eff_exec_err sp) wo)
      as [[[[[eno t2] c] wrote] reaped] wo2].
    destruct (open_streams (s_stdio sp) ps 0 t2) as [t3 streams].
    inversion E; subst. simpl in *. apply Z.eqb_neq. auto.
Qed.

Lemma ret_nonzero_inactive sp wo :
  r_ret (fst (uv_spawn sp wo)) <> 0%Z -> r_active (fst (uv_spawn sp wo)) = false.
Proof.
  unfold uv_spawn.
  destruct (init_stdio (s_stdio sp) (s_tbl sp) (s_fresh sp) 0 (s_sp_fail sp)) as [[[t1 ps] f1] err].
  destruct err.
  - simpl. auto.
  - destruct (spawn_child t1 (pad3 3 (map snd ps)) f1 (s_pipe_fail sp) (s_fork_fail sp) (eff_exec_err sp) wo)
      as [[[[[eno t2] c] wrote] reaped] wo2].
    destruct (open_streams (s_stdio sp) ps 0 t2) as [t3 streams].
    simpl. intros H. apply Z.eqb_neq. auto.
Qed.

Lemma spawn_unique : forall ops h a b c d,
  NoDup (spawn_handles ops) ->
  In (OSpawn h a b) ops -> In (OSpawn h c d) ops -> OSpawn h a b = OSpawn h c d.
Proof.
  induction ops as [|o r IH]; intros h a b c d N H1 H2; [destruct H1|].
  change (spawn_handles (o :: r)) with (spawn_handle o ++ spawn_handles r) in N.
  apply NoDup_app_inv in N as (_ & N2 & N3).
  assert (Hin : forall x y, In (OSpawn h x y) r -> In h (spawn_handles r)).
  { intros x y Hx. unfold spawn_handles. apply in_flat_map. eexists. split; eauto. simpl. auto. }
  destruct H1 as [->|H1], H2 as [E|H2].
  - auto.
  - exfalso. apply (N3 h); [simpl; auto|eauto].
  - subst o. exfalso. apply (N3 h); [simpl; auto|eauto].
  - eapply IH; eauto.
Qed.

Lemma exits_reaped evs h es ts :
  (exists rest, owed (reaps evs) = exits evs ++ rest) ->
  In (h, es, ts) (exits evs) -> In h (reaped_handles evs).
Proof.
  intros (rest & E) H.
  assert (X : In (h, es, ts) (owed (reaps evs))) by (rewrite E; apply in_or_app; auto).
  unfold owed in X. apply in_flat_map in X as ([[h' st] cb] & Y1 & Y2).
  unfold owed1 in Y2. destruct cb; [|destruct Y2].
  destruct Y2 as [Y2|[]]. inversion Y2; subst.
  unfold reaped_handles. apply in_map_iff. exists (h, st, true). auto.
Qed.

(* a uv_spawn that returned an error never leads to an exit callback *)
Theorem failed_spawn_no_exit ops s' evs h sp wo :
  NoDup (spawn_handles ops) -> run linit ops = (s', evs) ->
  In (OSpawn h sp wo) ops -> r_ret (fst (uv_spawn sp wo)) <> 0%Z ->
  forall es ts, ~ In (h, es, ts) (exits evs).
Proof.
  intros N R Hin Hr es ts X.
  destruct (exit_once_true_status _ _ _ _ R) as (_ & P).
  apply (exits_reaped _ _ _ _ P) in X.
  destruct (reaped_once _ _ _ N R) as (_ & B). apply B in X.
  unfold active_handles in X. apply in_flat_map in X as (o & O1 & O2).
  destruct o as [h' sp' wo'|ans|h']; cbn [active_handle] in O2; try destruct O2.
  destruct (r_active (fst (uv_spawn sp' wo'))) eqn:Ea; [|destruct O2].
  destruct O2 as [->|[]].
  pose proof (spawn_unique _ _ _ _ _ _ N Hin O1) as E. inversion E; subst.
  rewrite ret_nonzero_inactive in Ea by auto. discriminate.
Qed.

(* the former witness at the level of uv_spawn: now the error arrives *)
Definition clobber_spec : spec :=
  mkSpec [Some (mkE 1 false); Some (mkE 2 false); Some (mkE 3 false)]
         [SFd 0; SFd 1; SFd 2; SFd 0; SFd 1; SFd 2]
         true 7 10 None false false (Some 2%Z) [] (mkC 0 0 0) (mkC 0 0 0) None None.

Lemma clobber_spec_now :
  r_ret (fst (uv_spawn clobber_spec [WPid 32512%Z])) = (-2)%Z /\
  r_active (fst (uv_spawn clobber_spec [WPid 32512%Z])) = false /\
  r_reaped (fst (uv_spawn clobber_spec [WPid 32512%Z])) = Some (Some (WPid 32512%Z)) /\
  exits (snd (run linit [OSpawn 0 clobber_spec [WPid 32512%Z]; OScan []])) = [].
Proof. vm_compute. repeat split; reflexivity. Qed.

(* the parent's table is unchanged by a uv_spawn without UV_CREATE_PIPE slots,
   whatever happens (every descriptor made on the way is closed again) *)
Definition no_pipes (cs : list stdio) : Prop := forall c, In c cs -> c <> SPipe.

Lemma init_stdio_no_pipes : forall cs t fresh nsp spf,
  no_pipes cs ->
  exists ps e, init_stdio cs t fresh nsp spf = (t, ps, fresh, e) /\
               error_closes cs ps t = t /\
               (forall i, open_streams cs ps i t = (t, [])) /\
               (forall t' i, open_streams cs ps i t' = (t', [])).
Proof.
  induction cs as [|c r IH]; intros t fresh nsp spf Hn.
  - exists [], None. simpl. auto.
  - assert (Hr : no_pipes r) by (intros x Hx; apply Hn; right; auto).
    destruct (IH t fresh nsp spf Hr) as (ps & e & E & C & O & O').
    destruct c.
    + cbn [init_stdio]. rewrite E. eexists _, _. split; [reflexivity|].
      simpl. auto.
    + exfalso. apply (Hn SPipe); [left; auto|auto].
    + cbn [init_stdio]. rewrite E. eexists _, _. split; [reflexivity|].
      simpl. auto.
    + exists [], (Some UV_EINVAL). simpl. auto.
Qed.

Definition sc_tbl (x : Z * tbl * option cres * option (option nat * Z) *
                       option (option wans) * list wans) : tbl :=
  let '(_, t, _, _, _, _) := x in t.

Lemma spawn_child_restores t us fresh pf ff ee wo d :
  get (sc_tbl (spawn_child t us fresh pf ff ee wo)) d = get t d.
Proof.
  unfold spawn_child. destruct pf; [reflexivity|].
  destruct (alloc t 0 fresh true) as [t1 rfd] eqn:A1.
  destruct (alloc t1 0 (S fresh) true) as [t2 wfd] eqn:A2.
  apply alloc_spec in A1 as (_ & B1 & _ & D1 & _).
  apply alloc_spec in A2 as (_ & B2 & _ & D2 & _).
  assert (X : get (close (close t2 wfd) rfd) d = get t d).
  { rewrite !get_close.
    destruct (Nat.eqb_spec rfd d) as [<-|N1]; [auto|].
    destruct (Nat.eqb_spec wfd d) as [<-|N2].
    - rewrite <- B2. destruct (Nat.eq_dec wfd rfd) as [->|N3]; [congruence|]. apply D1. auto.
    - rewrite D2 by auto. apply D1. auto. }
  destruct ff; [exact X|].
  destruct (child_init us wfd ee t2) as [tc|tc efd e].
  - exact X.
  - destruct (get tc efd) as [w|]; [|exact X].
    destruct (e_file w =? S fresh)%nat; [|exact X].
    destruct (wait_retry wo). exact X.
Qed.

Theorem spawn_no_leak sp wo :
  no_pipes (s_stdio sp) ->
  forall d, get (r_ptbl (fst (uv_spawn sp wo))) d = get (s_tbl sp) d.
Proof.
  intros Hn d. unfold uv_spawn.
  destruct (init_stdio_no_pipes (s_stdio sp) (s_tbl sp) (s_fresh sp) 0 (s_sp_fail sp) Hn)
    as (ps & e & E & C & O & O').
  rewrite E. destruct e.
  - simpl. rewrite C. reflexivity.
  - pose proof (spawn_child_restores (s_tbl sp) (pad3 3 (map snd ps)) (s_fresh sp)
                  (s_pipe_fail sp) (s_fork_fail sp) (eff_exec_err sp) wo d) as R.
    destruct (spawn_child (s_tbl sp) (pad3 3 (map snd ps)) (s_fresh sp) (s_pipe_fail sp)
                (s_fork_fail sp) (eff_exec_err sp) wo) as [[[[[eno t2] c] wrote] reaped] wo2].
    rewrite O'. simpl in *. exact R.
Qed.

(* ------------------------------------------------------------------ *)
(* H. uv_spawn: from the stdio containers to the child's table           *)
(* ------------------------------------------------------------------ *)
Fixpoint npipes (cs : list stdio) : nat :=
  match cs with
  | [] => 0
  | SPipe :: r => S (npipes r)
  | _ :: r => npipes r
  end.

Definition no_bad (cs : list stdio) : Prop := forall c, In c cs -> c <> SBad.

Lemma init_stdio_spec : forall cs t fresh nsp,
  no_bad cs ->
  exists t1 ps,
    init_stdio cs t fresh nsp None = (t1, ps, fresh + 2 * npipes cs, None) /\
    length ps = length cs /\ ext 0 t t1 /\
    forall i,
      match nth_error cs i with
      | Some SIgnore => nth_error ps i = Some (None, None)
      | Some (SFd fd) => nth_error ps i = Some (None, Some fd)
      | Some SPipe =>
          exists a b, nth_error ps i = Some (Some a, Some b) /\
            get t1 a = Some (mkE (fresh + 2 * npipes (firstn i cs)) true) /\
            get t1 b = Some (mkE (S (fresh + 2 * npipes (firstn i cs))) true) /\
            get t a = None /\ get t b = None
      | Some SBad => False
      | None => True
      end.
Proof.
  induction cs as [|c r IH]; intros t fresh nsp Hb.
  - exists t, []. simpl. rewrite Nat.add_0_r. split; auto. split; auto.
    split; [apply ext_refl|]. intros [|i]; exact I.
  - assert (Hr : no_bad r) by (intros x Hx; apply Hb; right; auto).
    destruct c.
    + destruct (IH t fresh nsp Hr) as (t1 & ps & E & L & X & HS).
      exists t1, ((None, None) :: ps). cbn [init_stdio]. rewrite E.
      split; [reflexivity|]. split; [simpl; congruence|]. split; auto.
      intros [|i]; [reflexivity|]. exact (HS i).
    + destruct (alloc t 0 fresh true) as [ta a] eqn:Aa.
      destruct (alloc ta 0 (S fresh) true) as [tb b] eqn:Ab.
      destruct (IH tb (S (S fresh)) (S nsp) Hr) as (t1 & ps & E & L & X & HS).
      pose proof (ext_alloc 0 _ _ _ _ Aa) as Xa. pose proof (ext_alloc 0 _ _ _ _ Ab) as Xb.
      pose proof (alloc_spec _ _ _ _ _ _ Aa) as (_ & Na & Ga & Da & _).
      pose proof (alloc_spec _ _ _ _ _ _ Ab) as (_ & Nb & Gb & Db & _).
      assert (Hab : a <> b) by (intros ->; congruence).
      exists t1, ((Some a, Some b) :: ps). cbn [init_stdio]. rewrite Aa, Ab, E.
      split; [f_equal; f_equal; simpl; lia|]. split; [simpl; congruence|].
      split; [eapply ext_trans; [exact Xa|eapply ext_trans; eauto]|].
      intros [|i].
      * cbn [nth_error firstn npipes]. exists a, b. split; [reflexivity|].
        rewrite Nat.mul_0_r, Nat.add_0_r.
        split; [eapply ext_some; [exact X|]; rewrite Db by auto; exact Ga|].
        split; [eapply ext_some; [exact X|exact Gb]|].
        split; [exact Na|]. eapply ext_none; [exact Xa|exact Nb].
      * specialize (HS i). cbn [nth_error]. destruct (nth_error r i) as [[| |fd|]|]; auto.
        destruct HS as (a' & b' & S1 & S2 & S3 & S4 & S5).
        exists a', b'. split; [exact S1|].
        cbn [firstn npipes].
        replace (fresh + 2 * S (npipes (firstn i r)))
          with (S (S fresh) + 2 * npipes (firstn i r)) by lia.
        split; [exact S2|]. split; [exact S3|].
        split; [apply (ext_none 0 t tb a' (ext_trans _ _ _ _ Xa Xb) S4)|
               apply (ext_none 0 t tb b' (ext_trans _ _ _ _ Xa Xb) S5)].
    + destruct (IH t fresh nsp Hr) as (t1 & ps & E & L & X & HS).
      exists t1, ((None, Some fd) :: ps). cbn [init_stdio]. rewrite E.
      split; [reflexivity|]. split; [simpl; congruence|]. split; auto.
      intros [|i]; [reflexivity|]. exact (HS i).
    + exfalso. apply (Hb SBad); [left; auto|auto].
Qed.

Lemma pad3_nth : forall n l i, nth i (pad3 n l) None = nth i l None.
Proof.
  induction n as [|n IH]; intros l i; [reflexivity|].
  destruct l as [|x l], i as [|i]; simpl; auto.
  rewrite IH. destruct i; reflexivity.
Qed.

Lemma pad3_length : forall n l, length (pad3 n l) = Nat.max n (length l).
Proof.
  induction n as [|n IH]; intros l; [reflexivity|].
  destruct l as [|x l]; simpl; rewrite IH; simpl; lia.
Qed.

(* what the containers ask for in slot i *)
Definition container_slot (sp : spec) (i : nat) : option entry :=
  match nth i (s_stdio sp) SIgnore with
  | SFd fd => option_map nocx (get (s_tbl sp) fd)
  | SPipe => Some (mkE (S (s_fresh sp + 2 * npipes (firstn i (s_stdio sp)))) false)
  | _ => if i <? 3 then Some (mkE devnull false) else exec_entry (get (s_tbl sp) i)
  end.

Definition inherited_open (sp : spec) : Prop :=
  forall i fd, nth_error (s_stdio sp) i = Some (SFd fd) -> get (s_tbl sp) fd <> None.

Theorem spawn_fds sp wo :
  no_bad (s_stdio sp) -> inherited_open sp ->
  s_sp_fail sp = None -> s_pipe_fail sp = false -> s_fork_fail sp = false ->
  eff_exec_err sp = None ->
  let r := fst (uv_spawn sp wo) in
  let sc := Nat.max 3 (length (s_stdio sp)) in
  r_ret r = 0%Z /\ r_active r = true /\
  exists t', r_child r = Some (CExec t') /\
    (forall i, i < sc -> get t' i = container_slot sp i) /\
    (forall d, sc <= d -> get t' d = exec_entry (get (s_tbl sp) d)).
Proof.
  intros Hb Ho Hsp Hpf Hff Hee. cbv zeta. unfold uv_spawn. rewrite Hsp.
  destruct (init_stdio_spec (s_stdio sp) (s_tbl sp) (s_fresh sp) 0 Hb) as (t1 & ps & E & L & X & HS).
  rewrite E. set (us := pad3 3 (map snd ps)).
  unfold spawn_child. rewrite Hpf, Hff, Hee.
  destruct (alloc t1 0 (s_fresh sp + 2 * npipes (s_stdio sp)) true) as [ta rfd] eqn:Aa.
  destruct (alloc ta 0 (S (s_fresh sp + 2 * npipes (s_stdio sp))) true) as [t2 wfd] eqn:Ab.
  assert (X2 : ext 0 (s_tbl sp) t2).
  { eapply ext_trans; [exact X|]. eapply ext_trans; eapply ext_alloc; eauto. }
  assert (X12 : ext 0 t1 t2) by (eapply ext_trans; eapply ext_alloc; eauto).
  assert (Lus : length us = Nat.max 3 (length (s_stdio sp))).
  { unfold us. rewrite pad3_length, map_length, L. reflexivity. }
  assert (Hus : forall i, nth i us None = snd (nth i ps (None, None))).
  { intros i. unfold us. rewrite pad3_nth. apply (map_nth snd ps (None, None)). }
  (* what pass 2 sees in slot i, by container *)
  assert (Hslot : forall i,
     match nth i (s_stdio sp) SIgnore with
     | SFd fd => nth i us None = Some fd /\ get (s_tbl sp) fd <> None
     | SPipe => exists b, nth i us None = Some b /\
                  get t2 b = Some (mkE (S (s_fresh sp + 2 * npipes (firstn i (s_stdio sp)))) true)
     | _ => nth i us None = None
     end).
  { intros i. rewrite Hus. specialize (HS i).
    destruct (nth_error (s_stdio sp) i) as [c|] eqn:En.
    - rewrite (nth_error_nth _ _ SIgnore En).
      destruct c as [| |fd|].
      + rewrite (nth_error_nth _ _ (None, None) HS). reflexivity.
      + destruct HS as (a & b & S1 & S2 & S3 & _).
        rewrite (nth_error_nth _ _ (None, None) S1). exists b. split; [reflexivity|].
        eapply ext_some; eauto.
      + rewrite (nth_error_nth _ _ (None, None) HS). split; [reflexivity|]. eapply Ho; eauto.
      + destruct HS.
    - apply nth_error_None in En.
      rewrite (nth_overflow _ SIgnore En). rewrite nth_overflow by lia. reflexivity. }
  assert (Hopen : sources_open t2 us).
  { intros k u Hk. assert (Hn : nth k us None = Some u) by (erewrite nth_error_nth; eauto).
    specialize (Hslot k). destruct (nth k (s_stdio sp) SIgnore) as [| |fd|].
    - congruence.
    - destruct Hslot as (b & B1 & B2). assert (u = b) by congruence. subst. congruence.
    - destruct Hslot as (B1 & B2). assert (u = fd) by congruence. subst.
      destruct (get (s_tbl sp) fd) as [e|] eqn:Eg; [|congruence].
      rewrite (ext_some 0 _ _ _ _ X2 Eg). discriminate.
    - congruence. }
  assert (Hw : get t2 wfd <> None).
  { apply alloc_spec in Ab as (_ & _ & C & _). rewrite C. discriminate. }
  destruct (child_fds t2 us wfd Hopen Hw) as (t' & Ec & A & B).
  rewrite Ec.
  destruct (open_streams (s_stdio sp) ps 0 (close (close t2 wfd) rfd)) as [t3 streams].
  cbn [fst r_ret r_active r_child]. split; [reflexivity|]. split; [reflexivity|].
  exists t'. split; [reflexivity|]. split.
  - intros i Hi. rewrite (A i) by lia. unfold child_slot, container_slot.
    specialize (Hslot i). destruct (nth i (s_stdio sp) SIgnore) as [| |fd|].
    + rewrite Hslot. destruct (i <? 3); [reflexivity|]. apply (ext_exec_entry 0). auto.
    + destruct Hslot as (b & B1 & B2). rewrite B1, B2. reflexivity.
    + destruct Hslot as (B1 & B2). rewrite B1.
      destruct (get (s_tbl sp) fd) as [e|] eqn:Eg; [|congruence].
      rewrite (ext_some 0 _ _ _ _ X2 Eg). reflexivity.
    + rewrite Hslot. destruct (i <? 3); [reflexivity|]. apply (ext_exec_entry 0). auto.
  - intros d Hd. rewrite (B d) by lia. apply (ext_exec_entry 0). auto.
Qed.

(* the parent's side of the UV_CREATE_PIPE slots *)
Lemma open_streams_spec : forall cs ps k t t' l,
  open_streams cs ps k t = (t', l) ->
  (forall d, (forall j a b, nth_error cs j = Some SPipe ->
                            nth_error ps j = Some (a, Some b) -> d <> b) ->
             get t' d = get t d) /\
  (forall i a b, nth_error cs i = Some SPipe -> nth_error ps i = Some (Some a, b) ->
                 In (k + i, a) l).
Proof.
  induction cs as [|c r IH]; intros ps k t t' l H.
  - simpl in H. inversion H; subst. split; auto. intros [|i] a b Hc; discriminate.
  - destruct ps as [|[a0 b0] pr].
    + simpl in H. destruct c; inversion H; subst; (split; [auto|intros [|i] a b _ Hp; discriminate]).
    + assert (Gen : forall t0 l0, open_streams r pr (S k) t0 = (t', l0) ->
               (forall d, (forall j a b, nth_error (c :: r) j = Some SPipe ->
                      nth_error ((a0, b0) :: pr) j = Some (a, Some b) -> d <> b) ->
                  get t' d = get t0 d) /\
               (forall i a b, nth_error r i = Some SPipe -> nth_error pr i = Some (Some a, b) ->
                  In (S k + i, a) l0)).
      { intros t0 l0 H0. destruct (IH _ _ _ _ _ H0) as (A & B). split; auto.
        intros d Hd. apply A. intros j a b Hc Hp. apply (Hd (S j) a b); auto. }
      cbn [open_streams] in H.
      destruct c; try (destruct (Gen _ _ H) as (A & B); split; [exact A|];
                       intros [|i] a b Hc Hp; simpl in Hc, Hp; [discriminate|];
                       replace (k + S i) with (S k + i) by lia; eauto).
      destruct a0 as [pa|].
      * destruct (open_streams r pr (S k) (close_opt t b0)) as [t1 l1] eqn:E1.
        inversion H; subst. destruct (Gen _ _ E1) as (A & B). split.
        -- intros d Hd. rewrite (A d Hd). destruct b0 as [b0|]; [|reflexivity].
           simpl. rewrite get_close. destruct (Nat.eqb_spec b0 d) as [<-|]; [|reflexivity].
           exfalso. apply (Hd 0 (Some pa) b0); reflexivity.
        -- intros [|i] a b Hc Hp; simpl in Hc, Hp.
           ++ inversion Hp; subst. rewrite Nat.add_0_r. left. reflexivity.
           ++ right. replace (k + S i) with (S k + i) by lia. eauto.
      * destruct (Gen _ _ H) as (A & B). split; [exact A|].
        intros [|i] a b Hc Hp; simpl in Hc, Hp; [discriminate|].
        replace (k + S i) with (S k + i) by lia. eauto.
Qed.

Theorem spawn_streams sp wo i :
  no_bad (s_stdio sp) ->
  s_sp_fail sp = None -> s_pipe_fail sp = false -> s_fork_fail sp = false ->
  nth_error (s_stdio sp) i = Some SPipe ->
  let r := fst (uv_spawn sp wo) in
  exists a, In (i, a) (r_streams r) /\
    get (r_ptbl r) a = Some (mkE (s_fresh sp + 2 * npipes (firstn i (s_stdio sp))) true).
Proof.
  intros Hb Hsp Hpf Hff Hi. cbv zeta. unfold uv_spawn. rewrite Hsp.
  destruct (init_stdio_spec (s_stdio sp) (s_tbl sp) (s_fresh sp) 0 Hb) as (t1 & ps & E & L & X & HS).
  rewrite E.
  pose proof (HS i) as Si. rewrite Hi in Si. destruct Si as (a & b & S1 & S2 & S3 & _).
  (* every child end differs from this parent end: the files differ *)
  assert (Hneq : forall j a' b', nth_error (s_stdio sp) j = Some SPipe ->
                   nth_error ps j = Some (a', Some b') -> a <> b').
  { intros j a' b' Hj Hp. pose proof (HS j) as Sj. rewrite Hj in Sj.
    destruct Sj as (a2 & b2 & T1 & _ & T3 & _). rewrite Hp in T1. inversion T1; subst.
    intros <-. rewrite S2 in T3. inversion T3. lia. }
  pose proof (spawn_child_restores t1 (pad3 3 (map snd ps)) (s_fresh sp + 2 * npipes (s_stdio sp))
                (s_pipe_fail sp) (s_fork_fail sp) (eff_exec_err sp) wo a) as R.
  destruct (spawn_child t1 (pad3 3 (map snd ps)) (s_fresh sp + 2 * npipes (s_stdio sp))
              (s_pipe_fail sp) (s_fork_fail sp) (eff_exec_err sp) wo)
    as [[[[[eno t2] c] wrote] reaped] wo2].
  destruct (open_streams (s_stdio sp) ps 0 t2) as [t3 streams] eqn:Eo.
  destruct (open_streams_spec _ _ _ _ _ _ Eo) as (A & B).
  cbn [fst r_streams r_ptbl]. exists a. split.
  - apply (B i a (Some b)); auto.
  - rewrite (A a Hneq). simpl in R. rewrite R. exact S2.
Qed.

(* ------------------------------------------------------------------ *)
(* I. a failing exec seen through uv_spawn; the descriptor ledger         *)
(* ------------------------------------------------------------------ *)
Lemma init_us_open sp t1 ps :
  inherited_open sp -> length ps = length (s_stdio sp) -> ext 0 (s_tbl sp) t1 ->
  (forall i,
      match nth_error (s_stdio sp) i with
      | Some SIgnore => nth_error ps i = Some (None, None)
      | Some (SFd fd) => nth_error ps i = Some (None, Some fd)
      | Some SPipe =>
          exists a b, nth_error ps i = Some (Some a, Some b) /\
            get t1 a = Some (mkE (s_fresh sp + 2 * npipes (firstn i (s_stdio sp))) true) /\
            get t1 b = Some (mkE (S (s_fresh sp + 2 * npipes (firstn i (s_stdio sp)))) true) /\
            get (s_tbl sp) a = None /\ get (s_tbl sp) b = None
      | Some SBad => False
      | None => True
      end) ->
  sources_open t1 (pad3 3 (map snd ps)).
Proof.
  intros Ho L X HS k u Hk.
  assert (Hn : nth k (pad3 3 (map snd ps)) None = Some u) by (erewrite nth_error_nth; eauto).
  rewrite pad3_nth in Hn. rewrite (map_nth snd ps (None, None)) in Hn.
  specialize (HS k). destruct (nth_error (s_stdio sp) k) as [c|] eqn:En.
  - destruct c as [| |fd|].
    + rewrite (nth_error_nth _ _ (None, None) HS) in Hn. discriminate.
    + destruct HS as (a & b & S1 & _ & S3 & _).
      rewrite (nth_error_nth _ _ (None, None) S1) in Hn. inversion Hn; subst. congruence.
    + rewrite (nth_error_nth _ _ (None, None) HS) in Hn. inversion Hn; subst.
      pose proof (Ho k u En) as H. destruct (get (s_tbl sp) u) as [e|] eqn:Eg; [|congruence].
      rewrite (ext_some 0 _ _ _ _ X Eg). discriminate.
    + destruct HS.
  - apply nth_error_None in En. rewrite nth_overflow in Hn by lia. discriminate.
Qed.

Theorem spawn_exec_failure sp wo e :
  no_bad (s_stdio sp) -> inherited_open sp ->
  s_sp_fail sp = None -> s_pipe_fail sp = false -> s_fork_fail sp = false ->
  eff_exec_err sp = Some e ->
  let r := fst (uv_spawn sp wo) in
  r_ret r = (- e)%Z /\ r_active r = (- e =? 0)%Z /\ r_reaped r = Some (fst (wait_retry wo)).
Proof.
  intros Hb Ho Hsp Hpf Hff Hee. cbv zeta. unfold uv_spawn. rewrite Hsp.
  destruct (init_stdio_spec (s_stdio sp) (s_tbl sp) (s_fresh sp) 0 Hb) as (t1 & ps & E & L & X & HS).
  rewrite E. rewrite Hpf, Hff, Hee.
  pose proof (init_us_open sp t1 ps Ho L X HS) as Hopen.
  pose proof (exec_failure_reported t1 (pad3 3 (map snd ps)) (s_fresh sp + 2 * npipes (s_stdio sp))
                e wo Hopen) as (R1 & R2).
  destruct (spawn_child t1 (pad3 3 (map snd ps)) (s_fresh sp + 2 * npipes (s_stdio sp))
              false false (Some e) wo) as [[[[[eno t2] c] wrote] reaped] wo2].
  destruct (open_streams (s_stdio sp) ps 0 t2) as [t3 streams].
  simpl in *. subst. auto.
Qed.

(* every descriptor init_stdio adds is an end of a UV_CREATE_PIPE pair *)
Lemma init_stdio_new : forall cs t fresh nsp,
  no_bad cs ->
  forall t1 ps f1 e, init_stdio cs t fresh nsp None = (t1, ps, f1, e) ->
  forall d, get t1 d = get t d \/
    exists i a b, nth_error cs i = Some SPipe /\ nth_error ps i = Some (Some a, Some b) /\
                  (d = a \/ d = b).
Proof.
  induction cs as [|c r IH]; intros t fresh nsp Hb t1 ps f1 e H d.
  - simpl in H. inversion H; subst. auto.
  - assert (Hr : no_bad r) by (intros x Hx; apply Hb; right; auto).
    cbn [init_stdio] in H. destruct c.
    + destruct (init_stdio r t fresh nsp None) as [[[t1' ps'] f1'] e'] eqn:E.
      inversion H; subst. destruct (IH _ _ _ Hr _ _ _ _ E d) as [A|(i & a & b & A1 & A2 & A3)]; auto.
      right. exists (S i), a, b. auto.
    + destruct (alloc t 0 fresh true) as [ta a] eqn:Aa.
      destruct (alloc ta 0 (S fresh) true) as [tb b] eqn:Ab.
      destruct (init_stdio r tb (S (S fresh)) (S nsp) None) as [[[t1' ps'] f1'] e'] eqn:E.
      inversion H; subst.
      apply alloc_spec in Aa as (_ & _ & _ & Da & _).
      apply alloc_spec in Ab as (_ & _ & _ & Db & _).
      destruct (Nat.eq_dec d a) as [->|Na]; [right; exists 0, a, b; simpl; auto|].
      destruct (Nat.eq_dec d b) as [->|Nb]; [right; exists 0, a, b; simpl; auto|].
      destruct (IH _ _ _ Hr _ _ _ _ E d) as [A|(i & a' & b' & A1 & A2 & A3)].
      * left. rewrite A, Db, Da; auto.
      * right. exists (S i), a', b'. auto.
    + destruct (init_stdio r t fresh nsp None) as [[[t1' ps'] f1'] e'] eqn:E.
      inversion H; subst. destruct (IH _ _ _ Hr _ _ _ _ E d) as [A|(i & a & b & A1 & A2 & A3)]; auto.
      right. exists (S i), a, b. auto.
    + exfalso. apply (Hb SBad); [left; auto|auto].
Qed.

Lemma open_streams_none : forall cs ps k t t' l d,
  open_streams cs ps k t = (t', l) -> get t d = None -> get t' d = None.
Proof.
  induction cs as [|c r IH]; intros ps k t t' l d H N.
  - simpl in H. inversion H; subst. auto.
  - destruct ps as [|[a0 b0] pr].
    + simpl in H. destruct c; inversion H; subst; auto.
    + cbn [open_streams] in H.
      destruct c; try (eapply IH; eauto; fail).
      destruct a0 as [pa|]; [|eapply IH; eauto].
      destruct (open_streams r pr (S k) (close_opt t b0)) as [t1 l1] eqn:E1.
      inversion H; subst. eapply IH; [exact E1|].
      destruct b0 as [b0|]; simpl; auto. rewrite get_close. destruct (b0 =? d); auto.
Qed.

Lemma open_streams_closes : forall cs ps k t t' l j a b,
  open_streams cs ps k t = (t', l) ->
  nth_error cs j = Some SPipe -> nth_error ps j = Some (Some a, Some b) -> get t' b = None.
Proof.
  induction cs as [|c r IH]; intros ps k t t' l j a b H Hc Hp.
  - destruct j; discriminate.
  - destruct ps as [|[a0 b0] pr]; [destruct j; discriminate|].
    cbn [open_streams] in H. destruct j as [|j]; simpl in Hc, Hp.
    + inversion Hc; subst. inversion Hp; subst.
      destruct (open_streams r pr (S k) (close_opt t (Some b))) as [t1 l1] eqn:E1.
      inversion H; subst. eapply open_streams_none; [exact E1|].
      simpl. rewrite get_close, Nat.eqb_refl. reflexivity.
    + destruct c; try (eapply IH; eauto; fail).
      destruct a0 as [pa|]; [|eapply IH; eauto].
      destruct (open_streams r pr (S k) (close_opt t b0)) as [t1 l1] eqn:E1.
      inversion H; subst. eapply IH; eauto.
Qed.

(* whatever happens after the stdio rows were set up (pipe2, fork or exec
   failing, or success), every descriptor of the parent that was not handed to
   a stream is what it was before uv_spawn *)
Theorem spawn_ledger sp wo :
  no_bad (s_stdio sp) -> s_sp_fail sp = None ->
  let r := fst (uv_spawn sp wo) in
  forall d, (forall i, ~ In (i, d) (r_streams r)) -> get (r_ptbl r) d = get (s_tbl sp) d.
Proof.
  intros Hb Hsp. cbv zeta. unfold uv_spawn. rewrite Hsp.
  destruct (init_stdio_spec (s_stdio sp) (s_tbl sp) (s_fresh sp) 0 Hb) as (t1 & ps & E & L & X & HS).
  pose proof (init_stdio_new _ _ _ _ Hb _ _ _ _ E) as New.
  rewrite E.
  pose proof (spawn_child_restores t1 (pad3 3 (map snd ps)) (s_fresh sp + 2 * npipes (s_stdio sp))
                (s_pipe_fail sp) (s_fork_fail sp) (eff_exec_err sp) wo) as R.
  destruct (spawn_child t1 (pad3 3 (map snd ps)) (s_fresh sp + 2 * npipes (s_stdio sp))
              (s_pipe_fail sp) (s_fork_fail sp) (eff_exec_err sp) wo)
    as [[[[[eno t2] c] wrote] reaped] wo2].
  destruct (open_streams (s_stdio sp) ps 0 t2) as [t3 streams] eqn:Eo.
  destruct (open_streams_spec _ _ _ _ _ _ Eo) as (A & B).
  cbn [fst r_streams r_ptbl]. simpl in R. intros d Hd.
  destruct (New d) as [Same|(i & a & b & N1 & N2 & [->| ->])].
  - rewrite A; [rewrite R; exact Same|].
    intros j a b Hj Hp ->. pose proof (HS j) as Sj. rewrite Hj in Sj.
    destruct Sj as (a2 & b2 & T1 & _ & T3 & _ & T5). rewrite Hp in T1. inversion T1; subst.
    congruence.
  - exfalso. apply (Hd i). apply (B i a (Some b)); auto.
  - rewrite (open_streams_closes _ _ _ _ _ _ _ _ _ Eo N1 N2).
    pose proof (HS i) as Si. rewrite N1 in Si.
    destruct Si as (a2 & b2 & T1 & _ & _ & _ & T5). rewrite N2 in T1. inversion T1; subst.
    symmetry. exact T5.
Qed.

Theorem failed_spawn_clean sp wo e :
  no_bad (s_stdio sp) -> inherited_open sp ->
  s_sp_fail sp = None -> s_pipe_fail sp = false -> s_fork_fail sp = false ->
  eff_exec_err sp = Some e -> e <> 0%Z ->
  let r := fst (uv_spawn sp wo) in
  r_ret r = (- e)%Z /\ r_active r = false /\ r_reaped r = Some (fst (wait_retry wo)) /\
  (forall d, (forall i, ~ In (i, d) (r_streams r)) -> get (r_ptbl r) d = get (s_tbl sp) d) /\
  (forall ops h s' evs, NoDup (spawn_handles ops) -> run linit ops = (s', evs) ->
     In (OSpawn h sp wo) ops -> forall es ts, ~ In (h, es, ts) (exits evs)).
Proof.
  intros Hb Ho Hsp Hpf Hff Hee Hne. cbv zeta.
  destruct (spawn_exec_failure sp wo e Hb Ho Hsp Hpf Hff Hee) as (R1 & R2 & R3).
  split; [exact R1|]. split; [rewrite R2; apply Z.eqb_neq; lia|]. split; [exact R3|].
  split; [exact (spawn_ledger sp wo Hb Hsp)|].
  intros ops h s' evs N R I. apply (failed_spawn_no_exit ops s' evs h sp wo N R I).
  rewrite R1. lia.
Qed.

(* ------------------------------------------------------------------ *)
(* J. the caller's signal mask                                          *)
(* ------------------------------------------------------------------ *)
Theorem spawn_restores_sigmask sp wo : r_mask (fst (uv_spawn sp wo)) = s_mask sp.
Proof.
  unfold uv_spawn.
  destruct (init_stdio (s_stdio sp) (s_tbl sp) (s_fresh sp) 0 (s_sp_fail sp)) as [[[t1 ps] f1] err].
  destruct err; [reflexivity|].
  destruct (spawn_child t1 (pad3 3 (map snd ps)) f1 (s_pipe_fail sp) (s_fork_fail sp) (eff_exec_err sp) wo)
    as [[[[[eno t2] c] wrote] reaped] wo2].
  destruct (open_streams (s_stdio sp) ps 0 t2) as [t3 streams].
  destruct (s_pipe_fail sp); [reflexivity|].
  unfold fork_sigmask. reflexivity.
Qed.

(* while the fork is in flight everything but the fatal signals is blocked, and
   what the caller had blocked stays blocked *)
Lemma block_from_spec : forall m i k,
  nth k (block_from i m) false = (nth k m false || ((k <? length m) && (1 <=? i + k) && fork_blocked (i + k))).
Proof.
  induction m as [|b r IH]; intros i k; cbn [block_from].
  - destruct k; reflexivity.
  - destruct k as [|k]; cbn [nth length].
    + rewrite Nat.add_0_r. reflexivity.
    + rewrite IH. replace (S i + k) with (i + S k) by lia.
      replace (S k <? S (length r)) with (k <? length r); [reflexivity|].
      destruct (Nat.ltb_spec k (length r)), (Nat.ltb_spec (S k) (S (length r))); auto; lia.
Qed.

Lemma fork_child_mask m sig :
  1 <= sig < length m ->
  match fst (fork_sigmask m false) with
  | Some cm => nth sig cm false = (nth sig m false || fork_blocked sig)
  | None => False
  end.
Proof.
  intros H. cbn [fork_sigmask fst]. rewrite block_from_spec. cbn [Nat.add].
  destruct (Nat.ltb_spec sig (length m)); [|lia]. destruct (Nat.leb_spec 1 sig); [|lia].
  reflexivity.
Qed.

(* ------------------------------------------------------------------ *)
(* K. UV_PROCESS_SETUID / UV_PROCESS_SETGID                              *)
(* ------------------------------------------------------------------ *)
Definition all3 (id : nat) : creds := mkC id id id.

Lemma child_creds_priv uc gc sg su :
  c_e uc = 0 ->
  child_creds uc gc sg su =
    Some (match su with Some u => all3 u | None => uc end,
          match sg with Some g => all3 g | None => gc end).
Proof.
  intros H. unfold child_creds, setid. rewrite H. simpl.
  destruct sg, su; reflexivity.
Qed.

Lemma r_creds_spec sp wo :
  r_creds (fst (uv_spawn sp wo)) =
    match r_child (fst (uv_spawn sp wo)) with
    | Some (CExec _) =>
        match child_creds (s_uid sp) (s_gid sp) (s_setgid sp) (s_setuid sp) with
        | Some (u, g) => Some (exec_creds u, exec_creds g)
        | None => None
        end
    | _ => None
    end.
Proof.
  unfold uv_spawn.
  destruct (init_stdio (s_stdio sp) (s_tbl sp) (s_fresh sp) 0 (s_sp_fail sp)) as [[[t1 ps] f1] err].
  destruct err; [reflexivity|].
  destruct (spawn_child t1 (pad3 3 (map snd ps)) f1 (s_pipe_fail sp) (s_fork_fail sp) (eff_exec_err sp) wo)
    as [[[[[eno t2] c] wrote] reaped] wo2].
  destruct (open_streams (s_stdio sp) ps 0 t2) as [t3 streams].
  reflexivity.
Qed.

(* a privileged caller (effective uid 0): the child is exec'ed with real,
   effective and saved id all equal to the requested one, for uid and gid *)
Theorem uid_gid_take_effect sp wo :
  no_bad (s_stdio sp) -> inherited_open sp ->
  s_sp_fail sp = None -> s_pipe_fail sp = false -> s_fork_fail sp = false ->
  s_exec_err sp = None -> c_e (s_uid sp) = 0 ->
  let r := fst (uv_spawn sp wo) in
  r_ret r = 0%Z /\ r_active r = true /\
  r_creds r = Some (match s_setuid sp with Some u => all3 u | None => exec_creds (s_uid sp) end,
                    match s_setgid sp with Some g => all3 g | None => exec_creds (s_gid sp) end).
Proof.
  intros Hb Ho Hsp Hpf Hff Hee Hp. cbv zeta.
  assert (He : eff_exec_err sp = None).
  { unfold eff_exec_err. rewrite child_creds_priv by auto. exact Hee. }
  destruct (spawn_fds sp wo Hb Ho Hsp Hpf Hff He) as (R1 & R2 & t' & R3 & _).
  split; [exact R1|]. split; [exact R2|].
  rewrite r_creds_spec, R3, child_creds_priv by auto.
  destruct (s_setuid sp), (s_setgid sp); reflexivity.
Qed.

(* whoever the caller is: a child that reaches exec has the requested ids as
   its effective ids; and a request the kernel refuses is a failed spawn *)
Theorem uid_gid_effective sp wo uc gc :
  r_creds (fst (uv_spawn sp wo)) = Some (uc, gc) ->
  (forall u, s_setuid sp = Some u -> c_e uc = u) /\
  (forall g, s_setgid sp = Some g -> c_e gc = g) /\
  (s_setuid sp = None -> uc = exec_creds (s_uid sp)) /\
  (s_setgid sp = None -> gc = exec_creds (s_gid sp)).
Proof.
  rewrite r_creds_spec. destruct (r_child (fst (uv_spawn sp wo))) as [[t|t e z]|]; try discriminate.
  unfold child_creds, setid.
  destruct (s_setgid sp) as [g|], (s_setuid sp) as [u|];
    destruct (c_e (s_uid sp) =? 0)%nat;
    repeat match goal with
           | |- context [if ?b then _ else _] => destruct b
           end; intros H; inversion H; subst; simpl;
    repeat split; intros; try congruence.
Qed.

Theorem uid_gid_refused sp wo :
  no_bad (s_stdio sp) -> inherited_open sp ->
  s_sp_fail sp = None -> s_pipe_fail sp = false -> s_fork_fail sp = false ->
  child_creds (s_uid sp) (s_gid sp) (s_setgid sp) (s_setuid sp) = None ->
  let r := fst (uv_spawn sp wo) in
  r_ret r = (- EPERM)%Z /\ r_active r = false /\ r_creds r = None.
Proof.
  intros Hb Ho Hsp Hpf Hff Hc. cbv zeta.
  assert (He : eff_exec_err sp = Some EPERM) by (unfold eff_exec_err; rewrite Hc; reflexivity).
  destruct (spawn_exec_failure sp wo EPERM Hb Ho Hsp Hpf Hff He) as (R1 & R2 & _).
  split; [exact R1|]. split; [rewrite R2; reflexivity|].
  rewrite r_creds_spec, Hc. destruct (r_child (fst (uv_spawn sp wo))) as [[?|? ? ?]|]; reflexivity.
Qed.

(* ------------------------------------------------------------------ *)
(* L. assert(fd > STDERR_FILENO) in uv__close                            *)
(* ------------------------------------------------------------------ *)
(* no assertion of uv__close can trip inside uv_spawn, whatever is closed in
   the parent and whatever the stdio list is *)
Theorem spawn_no_trip sp wo : r_trip (fst (uv_spawn sp wo)) = false.
Proof.
  unfold uv_spawn.
  destruct (init_stdio (s_stdio sp) (s_tbl sp) (s_fresh sp) 0 (s_sp_fail sp)) as [[[t1 ps] f1] err].
  destruct err; [reflexivity|].
  destruct (spawn_child t1 (pad3 3 (map snd ps)) f1 (s_pipe_fail sp) (s_fork_fail sp) (eff_exec_err sp) wo)
    as [[[[[eno t2] c] wrote] reaped] wo2].
  destruct (open_streams (s_stdio sp) ps 0 t2) as [t3 streams].
  reflexivity.
Qed.

(* History: before commit 298b4fa the write end of the error pipe and the
   child's end of every UV_CREATE_PIPE pair were closed with the checking
   uv__close(); this is where an assert-enabled build aborted. *)
Definition error_wfd (t : tbl) (fresh : nat) : nat :=
  snd (alloc (fst (alloc t 0 fresh true)) 0 (S fresh) true).

Fixpoint streams_trip (cs : list stdio) (ps : pipes) : bool :=
  match cs, ps with
  | c :: cr, (a, b) :: pr =>
      match c, a, b with
      | SPipe, Some _, Some n => (n <=? 2)%nat || streams_trip cr pr
      | _, _, _ => streams_trip cr pr
      end
  | _, _ => false
  end.

Definition trip_unfixed (s : spec) : bool :=
  let '(t1, ps, fresh1, err) := init_stdio (s_stdio s) (s_tbl s) (s_fresh s) 0 (s_sp_fail s) in
  match err with
  | Some _ => false
  | None => (negb (s_pipe_fail s) && (error_wfd t1 fresh1 <=? 2)%nat) || streams_trip (s_stdio s) ps
  end.

(* 0 and 1 closed, nothing to redirect: the error pipe is 0/1 *)
Definition closed_stdio_spec : spec :=
  mkSpec [None; None; Some (mkE 3 false)] [] true 7 10 None false false None []
         (mkC 0 0 0) (mkC 0 0 0) None None.
(* 0, 1, 2 closed, a UV_CREATE_PIPE slot and an inherited descriptor 5: the pair is 0/1 *)
Definition closed_stdio_pipe_spec : spec :=
  mkSpec [None; None; None; None; None; Some (mkE 3 false)] [SPipe; SFd 5] true 7 10 None false false
         None [] (mkC 0 0 0) (mkC 0 0 0) None None.

Lemma closed_stdio_now :
  trip_unfixed closed_stdio_spec = true /\
  trip_unfixed closed_stdio_pipe_spec = true /\
  r_trip (fst (uv_spawn closed_stdio_spec [])) = false /\
  r_ret (fst (uv_spawn closed_stdio_spec [])) = 0%Z /\
  r_active (fst (uv_spawn closed_stdio_spec [])) = true /\
  r_trip (fst (uv_spawn closed_stdio_pipe_spec [])) = false /\
  r_ret (fst (uv_spawn closed_stdio_pipe_spec [])) = 0%Z /\
  r_streams (fst (uv_spawn closed_stdio_pipe_spec [])) = [(0, 0)].
Proof. vm_compute. repeat split; reflexivity. Qed.

(* ------------------------------------------------------------------ *)
(* M. uv_disable_stdio_inheritance                                       *)
(* ------------------------------------------------------------------ *)
Definition mark (e : entry) : entry := mkE (e_file e) true.

(* the numbers the function reaches: everything below 16, and the run of open
   descriptors that starts at 16 *)
Definition covered (t : tbl) (d : nat) : Prop :=
  d < 16 \/ (forall j, 16 <= j -> j <= d -> get t j <> None).

Lemma disable_from_spec : forall fuel fd t B,
  (forall j, B <= j -> get t j = None) ->
  Nat.max 16 B < fuel + fd ->
  (forall j, 16 <= j -> j < fd -> get t j <> None) ->
  let r := disable_from fuel fd t in
  (forall d, d < fd -> get r d = get t d) /\
  (forall d, fd <= d -> covered t d -> get r d = option_map mark (get t d)) /\
  (forall d, fd <= d -> ~ covered t d -> get r d = get t d).
Proof.
  induction fuel as [|f IH]; intros fd t B HB Hf Hrun; cbn [disable_from]; cbv zeta.
  - split; [auto|]. split; [|auto].
    intros d Hd _. rewrite (HB d) by lia. reflexivity.
  - unfold set_cloexec. destruct (get t fd) as [e|] eqn:Eg.
    + set (t1 := set t fd (Some (mkE (e_file e) true))).
      assert (Hsame : forall d, d <> fd -> get t1 d = get t d)
        by (intros d Hd; unfold t1; apply get_set_other; auto).
      assert (Hfd : get t1 fd = Some (mark e)) by (unfold t1; apply get_set_same).
      assert (Hopen : forall j, get t1 j <> None <-> get t j <> None).
      { intros j. destruct (Nat.eq_dec j fd) as [->|Hj].
        - rewrite Hfd, Eg. split; discriminate.
        - rewrite Hsame by auto. tauto. }
      assert (Hcov : forall d, covered t1 d <-> covered t d).
      { intros d. unfold covered. split; intros [H|H]; auto; right; intros j A1 A2;
          apply Hopen; apply H; auto. }
      destruct (IH (S fd) t1 B) as (I1 & I2 & I3).
      * intros j Hj. destruct (Nat.eq_dec j fd) as [->|Hne].
        -- rewrite (HB fd Hj) in Eg. discriminate.
        -- rewrite Hsame by auto. apply HB. auto.
      * lia.
      * intros j A1 A2. apply Hopen. destruct (Nat.eq_dec j fd) as [->|Hne]; [congruence|].
        apply Hrun; lia.
      * cbv zeta in I1, I2, I3. split; [|split].
        -- intros d Hd. rewrite I1 by lia. apply Hsame. lia.
        -- intros d Hd Hc. destruct (Nat.eq_dec d fd) as [->|Hne].
           ++ rewrite I1 by lia. rewrite Hfd, Eg. reflexivity.
           ++ rewrite I2; [|lia|apply Hcov; auto]. rewrite Hsame by auto. reflexivity.
        -- intros d Hd Hc. destruct (Nat.eq_dec d fd) as [->|Hne].
           ++ exfalso. apply Hc. destruct (Nat.lt_ge_cases fd 16) as [L|G]; [left; auto|].
              right. intros j A1 A2. destruct (Nat.eq_dec j fd) as [->|Hj]; [congruence|].
              apply Hrun; lia.
           ++ rewrite I3; [|lia|rewrite Hcov; auto]. apply Hsame. auto.
    + destruct (Nat.ltb_spec 15 fd) as [L|G].
      * split; [auto|]. split; [|auto].
        intros d Hd [Hc|Hc]; [lia|]. exfalso. apply (Hc fd); auto; lia.
      * destruct (IH (S fd) t B HB) as (I1 & I2 & I3); [lia|intros; lia|].
        cbv zeta in I1, I2, I3. split; [|split].
        -- intros d Hd. apply I1. lia.
        -- intros d Hd Hc. destruct (Nat.eq_dec d fd) as [->|Hne].
           ++ rewrite I1 by lia. rewrite Eg. reflexivity.
           ++ apply I2; auto. lia.
        -- intros d Hd Hc. destruct (Nat.eq_dec d fd) as [->|Hne].
           ++ apply I1. lia.
           ++ apply I3; auto. lia.
Qed.

Lemma disable_from_files : forall fuel fd t d,
  option_map e_file (get (disable_from fuel fd t) d) = option_map e_file (get t d).
Proof.
  induction fuel as [|f IH]; intros fd t d; cbn [disable_from]; [reflexivity|].
  unfold set_cloexec. destruct (get t fd) as [e|] eqn:Eg.
  - rewrite IH. rewrite get_set. destruct (Nat.eqb_spec fd d) as [->|]; [|reflexivity].
    rewrite Eg. reflexivity.
  - destruct (15 <? fd); [reflexivity|apply IH].
Qed.

Lemma get_beyond t j : length t <= j -> get t j = None.
Proof. intros H. unfold get. apply nth_overflow. auto. Qed.

Theorem disable_stdio_inheritance_spec t :
  let t' := disable_stdio_inheritance t in
  (forall d, covered t d -> get t' d = option_map mark (get t d)) /\
  (forall d, ~ covered t d -> get t' d = get t d).
Proof.
  cbv zeta. unfold disable_stdio_inheritance.
  destruct (disable_from_spec (17 + length t) 0 t (length t)) as (_ & I2 & I3).
  - apply get_beyond.
  - lia.
  - intros j A1 A2. lia.
  - cbv zeta in I2, I3. split; intros d H; [apply I2|apply I3]; auto; lia.
Qed.

(* after the call no covered descriptor is inheritable, nothing was opened or
   closed, and none of the covered descriptors at or above stdio_count is open
   in a child spawned from such a table *)
Theorem disable_stdio_inheritance_effect t :
  let t' := disable_stdio_inheritance t in
  (forall d e, covered t d -> get t' d = Some e -> e_cx e = true) /\
  (forall d, option_map e_file (get t' d) = option_map e_file (get t d)) /\
  (forall d, covered t d -> exec_entry (get t' d) = None).
Proof.
  cbv zeta. destruct (disable_stdio_inheritance_spec t) as (A & B). cbv zeta in A, B.
  split; [|split].
  - intros d e Hc H. rewrite (A d Hc) in H. destruct (get t d); inversion H. reflexivity.
  - intros d. apply disable_from_files.
  - intros d Hc. rewrite (A d Hc). destruct (get t d); reflexivity.
Qed.

Theorem disable_then_child t us efd tc :
  let t' := disable_stdio_inheritance t in
  sources_open t' us -> get t' efd <> None ->
  child_init us efd None t' = CExec tc ->
  forall d, length us <= d -> covered t d -> get tc d = None.
Proof.
  cbv zeta. intros Ho He Hc d Hd Hcov.
  destruct (child_fds _ us efd Ho He) as (t2 & E & _ & B).
  rewrite Hc in E. inversion E; subst t2.
  rewrite (B d Hd). destruct (disable_stdio_inheritance_effect t) as (_ & _ & X). apply X. auto.
Qed.

(* ------------------------------------------------------------------ *)
(* N. uv_kill                                                            *)
(* ------------------------------------------------------------------ *)
(* pass-through: whatever pid is - a process, 0, or a negative number naming a
   process group - kill(2) is called with exactly these arguments and its
   outcome is returned as 0 / UV__ERR(errno) *)
Theorem uv_kill_passthrough pid sig a :
  fst (uv_kill pid sig a) = (pid, sig) /\
  snd (uv_kill pid sig a) = match a with KOk => 0%Z | KErr e => (- e)%Z end /\
  uv_process_kill pid sig a = uv_kill pid sig a.
Proof. repeat split. Qed.
