(* Proofs about Model/Process.v (property C12). *)
From UV Require Import Lib.Base Model.Process.

(* ------------------------------------------------------------------ *)
(* A. descriptor tables                                                 *)
(* ------------------------------------------------------------------ *)
Lemma get_nil fd : get [] fd = None.
Proof. unfold get. destruct fd; reflexivity. Qed.

Lemma get_set_same t fd v : get (set t fd v) fd = v.
Proof.
  revert t. induction fd as [|n IH]; intros [|x r]; simpl; auto.
  - apply IH.
  - apply IH.
Qed.

Lemma get_set_other t fd fd' v : fd <> fd' -> get (set t fd v) fd' = get t fd'.
Proof.
  revert t fd'. induction fd as [|n IH]; intros [|x r] [|m] H; simpl; try congruence; auto.
  - destruct m; reflexivity.
  - change (get (set [] n v) m = None). rewrite IH by congruence. apply get_nil.
  - change (get (set r n v) m = get r m). apply IH. congruence.
Qed.

Lemma get_set t fd fd' v :
  get (set t fd v) fd' = if (fd =? fd')%nat then v else get t fd'.
Proof.
  destruct (Nat.eqb_spec fd fd') as [->|H].
  - apply get_set_same.
  - apply get_set_other; auto.
Qed.

Lemma lff_spec s : forall i min,
  let r := lowest_free_from s i min in
  i <= r /\ min <= r /\ nth (r - i) s None = None /\
  forall j, i <= j < r -> min <= j -> nth (j - i) s None <> None.
Proof.
  induction s as [|x s IH]; intros i min; cbn [lowest_free_from].
  - cbv zeta. repeat split; try lia.
    all: try (destruct (Nat.max i min - i); reflexivity).
    all: try (intros; lia).
  - destruct ((min <=? i) && is_none x) eqn:E.
    + cbv zeta. apply andb_true_iff in E as [E1 E2]. apply Nat.leb_le in E1.
      repeat split; try lia.
      * rewrite Nat.sub_diag. simpl. destruct x; [discriminate|reflexivity].
      * intros j H. lia.
    + specialize (IH (S i) min). cbv zeta in IH |- *.
      destruct IH as (A & B & C & D).
      set (r := lowest_free_from s (S i) min) in *.
      repeat split; try lia.
      * replace (r - i) with (S (r - S i)) by lia. exact C.
      * intros j H1 H2. destruct (Nat.eq_dec j i) as [->|Hne].
        -- rewrite Nat.sub_diag. simpl. apply andb_false_iff in E as [E|E].
           ++ apply Nat.leb_gt in E. lia.
           ++ destruct x; [discriminate|discriminate].
        -- replace (j - i) with (S (j - S i)) by lia. apply D; lia.
Qed.

Lemma lowest_free_spec t min :
  let r := lowest_free t min in
  min <= r /\ get t r = None /\ forall j, min <= j < r -> get t j <> None.
Proof.
  cbv zeta. unfold lowest_free, get.
  pose proof (lff_spec t 0 min) as H. cbv zeta in H.
  destruct H as (_ & B & C & D).
  rewrite Nat.sub_0_r in C. repeat split; auto.
  intros j Hj. specialize (D j). rewrite Nat.sub_0_r in D. apply D; lia.
Qed.

Lemma lowest_free_unique t min r :
  min <= r -> get t r = None -> (forall j, min <= j < r -> get t j <> None) ->
  lowest_free t min = r.
Proof.
  intros H1 H2 H3.
  destruct (lowest_free_spec t min) as (A & B & C).
  destruct (Nat.lt_trichotomy (lowest_free t min) r) as [L|[E|G]]; auto.
  - exfalso. apply (H3 (lowest_free t min)); auto.
  - exfalso. apply (C r); auto.
Qed.

Lemma alloc_spec t min f cx t' r :
  alloc t min f cx = (t', r) ->
  min <= r /\ get t r = None /\ get t' r = Some (mkE f cx) /\
  (forall d, d <> r -> get t' d = get t d) /\
  (forall j, min <= j < r -> get t j <> None).
Proof.
  unfold alloc. intros H. inversion H; subst. clear H.
  destruct (lowest_free_spec t min) as (A & B & C).
  repeat split; auto.
  - apply get_set_same.
  - intros d Hd. apply get_set_other. auto.
Qed.

Lemma get_exec t d : get (exec t) d = exec_entry (get t d).
Proof.
  unfold get, exec. revert d. induction t as [|x t IH]; intros [|d]; simpl; auto.
Qed.

Lemma get_close t fd d : get (close t fd) d = if (fd =? d)%nat then None else get t d.
Proof. unfold close. apply get_set. Qed.

(* ------------------------------------------------------------------ *)
(* B. pass 1                                                            *)
(* ------------------------------------------------------------------ *)
(* [t'] is [t] plus close-on-exec descriptors on numbers >= sc that were free *)
Definition ext (sc : nat) (t t' : tbl) : Prop :=
  forall d, get t' d = get t d \/
            (sc <= d /\ get t d = None /\ exists f, get t' d = Some (mkE f true)).

Lemma ext_refl sc t : ext sc t t.
Proof. intros d. left. reflexivity. Qed.

Lemma ext_trans sc a b c : ext sc a b -> ext sc b c -> ext sc a c.
Proof.
  intros H1 H2 d. destruct (H2 d) as [E|(L & N & f & E)].
  - rewrite E. apply H1.
  - destruct (H1 d) as [E1|(L1 & N1 & f1 & E1)].
    + right. repeat split; auto. congruence. eauto.
    + congruence.
Qed.

Lemma ext_some sc t t' d e : ext sc t t' -> get t d = Some e -> get t' d = Some e.
Proof. intros H G. destruct (H d) as [E|(_ & N & _)]; congruence. Qed.

Lemma ext_low sc t t' d : ext sc t t' -> d < sc -> get t' d = get t d.
Proof. intros H L. destruct (H d) as [E|(L1 & _)]; auto. lia. Qed.

Lemma ext_alloc sc t f t' r : alloc t sc f true = (t', r) -> ext sc t t'.
Proof.
  intros H. apply alloc_spec in H as (A & B & C & D & _).
  intros d. destruct (Nat.eq_dec d r) as [->|Hne].
  - right. repeat split; eauto.
  - left. apply D. auto.
Qed.

Lemma pass1_spec sc : forall us fd t t' us',
  fd + length us <= sc ->
  pass1 sc fd us t = Ok (t', us') ->
  ext sc t t' /\ length us' = length us /\
  (forall k, nth_error us k = Some None -> nth_error us' k = Some None) /\
  (forall k u, nth_error us k = Some (Some u) ->
     exists u', nth_error us' k = Some (Some u') /\
       ((fd + k <= u /\ u' = u) \/
        (u < fd + k /\ sc <= u' /\
         exists e, get t u = Some e /\ get t' u' = Some (mkE (e_file e) true)))).
Proof.
  induction us as [|u0 rest IH]; intros fd t t' us' Hb H; cbn [pass1] in H.
  - inversion H; subst. split; [apply ext_refl|]. split; [reflexivity|].
    split; intros k; destruct k; simpl; discriminate.
  - cbn [length] in Hb.
    destruct u0 as [use_fd|].
    + destruct (use_fd <? fd)%nat eqn:Elt.
      * apply Nat.ltb_lt in Elt.
        unfold dupfd_cloexec in H. destruct (get t use_fd) as [e|] eqn:Eg; [|discriminate].
        destruct (alloc t sc (e_file e) true) as [t1 r] eqn:Ea.
        destruct (pass1 sc (S fd) rest t1) as [[t2 l]|] eqn:Er; [|discriminate].
        inversion H; subst. clear H.
        apply IH in Er as (X1 & X2 & X3 & X4); [|lia].
        pose proof (ext_alloc _ _ _ _ _ Ea) as X0.
        apply alloc_spec in Ea as (A & B & C & D & _).
        split; [eapply ext_trans; eauto|]. split; [simpl; congruence|].
        split.
        -- intros [|k] Hk; simpl in *; [discriminate|auto].
        -- intros [|k] u Hk; simpl in *.
           ++ inversion Hk; subst. exists r. split; auto. right.
              split; [lia|]. split; [auto|]. exists e. split; auto.
              eapply ext_some; eauto.
           ++ destruct (X4 k u Hk) as (u' & U1 & U2). exists u'. split; auto.
              destruct U2 as [(U2 & U3)|(U2 & U3 & e' & U4 & U5)].
              ** left. split; [lia|auto].
              ** right. split; [lia|]. split; auto. exists e'. split; auto.
                 assert (Hk' : k < length rest) by (apply nth_error_Some; congruence).
                 rewrite <- (ext_low sc t t1 u X0); [auto|lia].
      * apply Nat.ltb_ge in Elt.
        destruct (pass1 sc (S fd) rest t) as [[t2 l]|] eqn:Er; [|discriminate].
        inversion H; subst. clear H.
        apply IH in Er as (X1 & X2 & X3 & X4); [|lia].
        split; auto. split; [simpl; congruence|].
        split.
        -- intros [|k] Hk; simpl in *; [discriminate|auto].
        -- intros [|k] u Hk; simpl in *.
           ++ inversion Hk; subst. exists u. split; auto. left. split; [lia|auto].
           ++ destruct (X4 k u Hk) as (u' & U1 & U2). exists u'. split; auto.
              destruct U2 as [(U2 & U3)|(U2 & U3 & e' & U4 & U5)].
              ** left. split; [lia|auto].
              ** right. split; [lia|]. split; auto. exists e'. split; auto.
    + destruct (pass1 sc (S fd) rest t) as [[t2 l]|] eqn:Er; [|discriminate].
      inversion H; subst. clear H.
      apply IH in Er as (X1 & X2 & X3 & X4); [|lia].
      split; auto. split; [simpl; congruence|].
      split.
      * intros [|k] Hk; simpl in *; auto.
      * intros [|k] u Hk; simpl in *; [discriminate|].
        destruct (X4 k u Hk) as (u' & U1 & U2). exists u'. split; auto.
        destruct U2 as [(U2 & U3)|(U2 & U3 & e' & U4 & U5)].
        -- left. split; [lia|auto].
        -- right. split; [lia|]. split; auto. exists e'. split; auto.
Qed.

(* pass 1 cannot fail when every named source is open *)
Lemma pass1_ok sc : forall us fd t,
  fd + length us <= sc ->
  (forall k u, nth_error us k = Some (Some u) -> u < fd + k -> get t u <> None) ->
  exists t' us', pass1 sc fd us t = Ok (t', us').
Proof.
  induction us as [|u0 rest IH]; intros fd t Hb Hs; cbn [pass1].
  - eauto.
  - cbn [length] in Hb. destruct u0 as [use_fd|].
    + destruct (use_fd <? fd)%nat eqn:Elt.
      * apply Nat.ltb_lt in Elt. unfold dupfd_cloexec.
        destruct (get t use_fd) as [e|] eqn:Eg.
        -- destruct (alloc t sc (e_file e) true) as [t1 r] eqn:Ea.
           pose proof (ext_alloc _ _ _ _ _ Ea) as X0.
           destruct (IH (S fd) t1) as (t2 & l & E); [lia| |rewrite E; eauto].
           intros k u Hk Hlt.
           assert (Hk' : k < length rest) by (apply nth_error_Some; congruence).
           rewrite (ext_low sc t t1 u X0) by lia.
           apply (Hs (S k) u); simpl; auto. lia.
        -- exfalso. apply (Hs 0 use_fd); simpl; auto. lia.
      * destruct (IH (S fd) t) as (t2 & l & E); [lia| |rewrite E; eauto].
        intros k u Hk Hlt. apply (Hs (S k) u); simpl; auto. lia.
    + destruct (IH (S fd) t) as (t2 & l & E); [lia| |rewrite E; eauto].
      intros k u Hk Hlt. apply (Hs (S k) u); simpl; auto. lia.
Qed.
