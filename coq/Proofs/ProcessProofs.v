(* Proofs about Model/Process.v (property C12). *)
From UV Require Import Lib.Base Model.Process.

(* ------------------------------------------------------------------ *)
(* A. descriptor tables                                                 *)
(* ------------------------------------------------------------------ *)
Lemma get_nil fd : get [] fd = None.
Proof. unfold get. destruct fd; reflexivity. Qed.

Lemma get_set_same t fd v : get (set t fd v) fd = v.
Proof.
  revert t. induction fd as [|n IH]; intros [|x r]; simpl; auto.
  - apply IH.
  - apply IH.
Qed.

Lemma get_set_other t fd fd' v : fd <> fd' -> get (set t fd v) fd' = get t fd'.
Proof.
  revert t fd'. induction fd as [|n IH]; intros [|x r] [|m] H; simpl; try congruence; auto.
  - destruct m; reflexivity.
  - change (get (set [] n v) m = None). rewrite IH by congruence. apply get_nil.
  - change (get (set r n v) m = get r m). apply IH. congruence.
Qed.

Lemma get_set t fd fd' v :
  get (set t fd v) fd' = if (fd =? fd')%nat then v else get t fd'.
Proof.
  destruct (Nat.eqb_spec fd fd') as [->|H].
  - apply get_set_same.
  - apply get_set_other; auto.
Qed.

Lemma lff_spec s : forall i min,
  let r := lowest_free_from s i min in
  i <= r /\ min <= r /\ nth (r - i) s None = None /\
  forall j, i <= j < r -> min <= j -> nth (j - i) s None <> None.
Proof.
  induction s as [|x s IH]; intros i min; cbn [lowest_free_from].
  - cbv zeta. split; [lia|]. split; [lia|]. split.
    + destruct (Nat.max i min - i); reflexivity.
    + intros j H1 H2. lia.
  - destruct ((min <=? i) && is_none x) eqn:E.
    + cbv zeta. apply andb_true_iff in E as [E1 E2]. apply Nat.leb_le in E1.
      split; [lia|]. split; [lia|]. split.
      * rewrite Nat.sub_diag. simpl. destruct x; [discriminate|reflexivity].
      * intros j H. lia.
    + specialize (IH (S i) min). cbv zeta in IH |- *.
      destruct IH as (A & B & C & D).
      set (r := lowest_free_from s (S i) min) in *.
      split; [lia|]. split; [lia|]. split.
      * replace (r - i) with (S (r - S i)) by lia. exact C.
      * intros j H1 H2. destruct (Nat.eq_dec j i) as [->|Hne].
        -- rewrite Nat.sub_diag. simpl. apply andb_false_iff in E as [E|E].
           ++ apply Nat.leb_gt in E. lia.
           ++ destruct x; [discriminate|discriminate].
        -- replace (j - i) with (S (j - S i)) by lia. apply D; lia.
Qed.

Lemma lowest_free_spec t min :
  let r := lowest_free t min in
  min <= r /\ get t r = None /\ forall j, min <= j < r -> get t j <> None.
Proof.
  cbv zeta. unfold lowest_free, get.
  pose proof (lff_spec t 0 min) as H. cbv zeta in H.
  destruct H as (_ & B & C & D).
  rewrite Nat.sub_0_r in C. split; [auto|]. split; [auto|].
  intros j Hj. specialize (D j). rewrite Nat.sub_0_r in D. apply D; lia.
Qed.

Lemma lowest_free_unique t min r :
  min <= r -> get t r = None -> (forall j, min <= j < r -> get t j <> None) ->
  lowest_free t min = r.
Proof.
  intros H1 H2 H3.
  destruct (lowest_free_spec t min) as (A & B & C).
  destruct (Nat.lt_trichotomy (lowest_free t min) r) as [L|[E|G]]; auto.
  - exfalso. apply (H3 (lowest_free t min)); auto.
  - exfalso. apply (C r); auto.
Qed.

Lemma alloc_spec t min f cx t' r :
  alloc t min f cx = (t', r) ->
  min <= r /\ get t r = None /\ get t' r = Some (mkE f cx) /\
  (forall d, d <> r -> get t' d = get t d) /\
  (forall j, min <= j < r -> get t j <> None).
Proof.
  unfold alloc. intros H. inversion H; subst. clear H.
  destruct (lowest_free_spec t min) as (A & B & C).
  split; [auto|]. split; [auto|]. split; [apply get_set_same|]. split; [|auto].
  intros d Hd. apply get_set_other. auto.
Qed.

Lemma get_exec t d : get (exec t) d = exec_entry (get t d).
Proof.
  unfold get, exec. revert d. induction t as [|x t IH]; intros [|d]; simpl; auto.
Qed.

Lemma get_close t fd d : get (close t fd) d = if (fd =? d)%nat then None else get t d.
Proof. unfold close. apply get_set. Qed.

(* ------------------------------------------------------------------ *)
(* B. pass 1                                                            *)
(* ------------------------------------------------------------------ *)
(* [t'] is [t] plus close-on-exec descriptors on numbers >= sc that were free *)
Definition ext (sc : nat) (t t' : tbl) : Prop :=
  forall d, get t' d = get t d \/
            (sc <= d /\ get t d = None /\ exists f, get t' d = Some (mkE f true)).

Lemma ext_refl sc t : ext sc t t.
Proof. intros d. left. reflexivity. Qed.

Lemma ext_trans sc a b c : ext sc a b -> ext sc b c -> ext sc a c.
Proof.
  intros H1 H2 d. destruct (H2 d) as [E|(L & N & f & E)].
  - rewrite E. apply H1.
  - destruct (H1 d) as [E1|(L1 & N1 & f1 & E1)].
    + right. repeat split; auto. congruence. eauto.
    + congruence.
Qed.

Lemma ext_some sc t t' d e : ext sc t t' -> get t d = Some e -> get t' d = Some e.
Proof. intros H G. destruct (H d) as [E|(_ & N & _)]; congruence. Qed.

Lemma ext_low sc t t' d : ext sc t t' -> d < sc -> get t' d = get t d.
Proof. intros H L. destruct (H d) as [E|(L1 & _)]; auto. lia. Qed.

Lemma ext_alloc sc t f t' r : alloc t sc f true = (t', r) -> ext sc t t'.
Proof.
  intros H. apply alloc_spec in H as (A & B & C & D & _).
  intros d. destruct (Nat.eq_dec d r) as [->|Hne].
  - right. repeat split; eauto.
  - left. apply D. auto.
Qed.

Lemma pass1_spec sc : forall us fd t t' us',
  fd + length us <= sc ->
  pass1 sc fd us t = Ok (t', us') ->
  ext sc t t' /\ length us' = length us /\
  (forall k, nth_error us k = Some None -> nth_error us' k = Some None) /\
  (forall k u, nth_error us k = Some (Some u) ->
     exists u', nth_error us' k = Some (Some u') /\
       ((fd + k <= u /\ u' = u) \/
        (u < fd + k /\ sc <= u' /\
         exists e, get t u = Some e /\ get t' u' = Some (mkE (e_file e) true)))).
Proof.
  induction us as [|u0 rest IH]; intros fd t t' us' Hb H; cbn [pass1] in H.
  - inversion H; subst. split; [apply ext_refl|]. split; [reflexivity|].
    split; intros k; destruct k; simpl; discriminate.
  - cbn [length] in Hb.
    destruct u0 as [use_fd|].
    + destruct (use_fd <? fd)%nat eqn:Elt.
      * apply Nat.ltb_lt in Elt.
        unfold dupfd_cloexec in H. destruct (get t use_fd) as [e|] eqn:Eg; [|discriminate].
        destruct (alloc t sc (e_file e) true) as [t1 r] eqn:Ea.
        destruct (pass1 sc (S fd) rest t1) as [[t2 l]|] eqn:Er; [|discriminate].
        inversion H; subst. clear H.
        apply IH in Er as (X1 & X2 & X3 & X4); [|lia].
        pose proof (ext_alloc _ _ _ _ _ Ea) as X0.
        apply alloc_spec in Ea as (A & B & C & D & _).
        split; [eapply ext_trans; eauto|]. split; [simpl; congruence|].
        split.
        -- intros [|k] Hk; simpl in *; [discriminate|auto].
        -- intros [|k] u Hk; simpl in *.
           ++ inversion Hk; subst. exists r. split; auto. right.
              split; [lia|]. split; [auto|]. exists e. split; auto.
              eapply ext_some; eauto.
           ++ destruct (X4 k u Hk) as (u' & U1 & U2). exists u'. split; auto.
              destruct U2 as [(U2 & U3)|(U2 & U3 & e' & U4 & U5)].
              ** left. split; [lia|auto].
              ** right. split; [lia|]. split; auto. exists e'. split; auto.
                 assert (Hk' : k < length rest) by (apply nth_error_Some; congruence).
                 rewrite <- (ext_low sc t t1 u X0); [auto|lia].
      * apply Nat.ltb_ge in Elt.
        destruct (pass1 sc (S fd) rest t) as [[t2 l]|] eqn:Er; [|discriminate].
        inversion H; subst. clear H.
        apply IH in Er as (X1 & X2 & X3 & X4); [|lia].
        split; auto. split; [simpl; congruence|].
        split.
        -- intros [|k] Hk; simpl in *; [discriminate|auto].
        -- intros [|k] u Hk; simpl in *.
           ++ inversion Hk; subst. exists u. split; auto. left. split; [lia|auto].
           ++ destruct (X4 k u Hk) as (u' & U1 & U2). exists u'. split; auto.
              destruct U2 as [(U2 & U3)|(U2 & U3 & e' & U4 & U5)].
              ** left. split; [lia|auto].
              ** right. split; [lia|]. split; auto. exists e'. split; auto.
    + destruct (pass1 sc (S fd) rest t) as [[t2 l]|] eqn:Er; [|discriminate].
      inversion H; subst. clear H.
      apply IH in Er as (X1 & X2 & X3 & X4); [|lia].
      split; auto. split; [simpl; congruence|].
      split.
      * intros [|k] Hk; simpl in *; auto.
      * intros [|k] u Hk; simpl in *; [discriminate|].
        destruct (X4 k u Hk) as (u' & U1 & U2). exists u'. split; auto.
        destruct U2 as [(U2 & U3)|(U2 & U3 & e' & U4 & U5)].
        -- left. split; [lia|auto].
        -- right. split; [lia|]. split; auto. exists e'. split; auto.
Qed.

(* pass 1 cannot fail when every named source is open *)
Lemma pass1_ok sc : forall us fd t,
  fd + length us <= sc ->
  (forall k u, nth_error us k = Some (Some u) -> u < fd + k -> get t u <> None) ->
  exists t' us', pass1 sc fd us t = Ok (t', us').
Proof.
  induction us as [|u0 rest IH]; intros fd t Hb Hs; cbn [pass1].
  - eauto.
  - cbn [length] in Hb. destruct u0 as [use_fd|].
    + destruct (use_fd <? fd)%nat eqn:Elt.
      * apply Nat.ltb_lt in Elt. unfold dupfd_cloexec.
        destruct (get t use_fd) as [e|] eqn:Eg.
        -- destruct (alloc t sc (e_file e) true) as [t1 r] eqn:Ea.
           pose proof (ext_alloc _ _ _ _ _ Ea) as X0.
           destruct (IH (S fd) t1) as (t2 & l & E); [lia| |rewrite E; eauto].
           intros k u Hk Hlt.
           assert (Hk' : k < length rest) by (apply nth_error_Some; congruence).
           rewrite (ext_low sc t t1 u X0) by lia.
           apply (Hs (S k) u); simpl; auto. lia.
        -- exfalso. apply (Hs 0 use_fd); simpl; auto. lia.
      * destruct (IH (S fd) t) as (t2 & l & E); [lia| |rewrite E; eauto].
        intros k u Hk Hlt. apply (Hs (S k) u); simpl; auto. lia.
    + destruct (IH (S fd) t) as (t2 & l & E); [lia| |rewrite E; eauto].
      intros k u Hk Hlt. apply (Hs (S k) u); simpl; auto. lia.
Qed.

(* ------------------------------------------------------------------ *)
(* C. pass 2                                                            *)
(* ------------------------------------------------------------------ *)
Definition nocx (e : entry) : entry := mkE (e_file e) false.

(* what slot [k] must hold when pass 2 is over (before exec) *)
Definition want (t0 : tbl) (us0 : list (option nat)) (k : nat) : option entry :=
  match nth k us0 None with
  | Some u => option_map nocx (get t0 u)
  | None => if k <? 3 then Some (mkE devnull false) else get t0 k
  end.

Section Pass2.
  Variables (sc : nat) (t0 t1 : tbl) (us0 us1 : list (option nat)).
  Hypothesis Hlen0 : length us0 = sc.
  Hypothesis Hlen1 : length us1 = sc.
  Hypothesis Hext : ext sc t0 t1.
  Hypothesis Hopen : forall k u, nth_error us0 k = Some (Some u) -> get t0 u <> None.
  Hypothesis Hnone : forall k, nth_error us0 k = Some None -> nth_error us1 k = Some None.
  Hypothesis Hsome : forall k u, nth_error us0 k = Some (Some u) ->
     exists u', nth_error us1 k = Some (Some u') /\
       ((k <= u /\ u' = u) \/
        (u < k /\ sc <= u' /\
         exists e, get t0 u = Some e /\ get t1 u' = Some (mkE (e_file e) true))).

  Definition Inv (i : nat) (T : tbl) : Prop :=
    (forall d, i <= d -> get T d = get t1 d) /\
    (forall d, d < i -> get T d = want t0 us0 d).

  Lemma want_low d : d < 3 -> d < sc -> want t0 us0 d <> None.
  Proof.
    intros H3 Hd. unfold want.
    destruct (nth d us0 None) as [u|] eqn:E.
    - assert (nth_error us0 d = Some (Some u)).
      { rewrite (nth_error_nth' us0 None) by lia. congruence. }
      apply Hopen in H. destruct (get t0 u); simpl; congruence.
    - apply Nat.ltb_lt in H3. rewrite H3. discriminate.
  Qed.

  (* the source of slot k as seen by pass 2 is at or above k, open in t1, and
     refers to the file the container named *)
  Lemma slot_some k u' : k < sc -> nth_error us1 k = Some (Some u') ->
    k <= u' /\ exists e', get t1 u' = Some e' /\ want t0 us0 k = Some (nocx e').
  Proof.
    intros Hk H1.
    destruct (nth_error us0 k) as [[u|]|] eqn:E0.
    - destruct (Hsome k u E0) as (u2 & U1 & U2).
      rewrite H1 in U1. inversion U1; subst u2. clear U1.
      assert (Hn : nth k us0 None = Some u).
      { erewrite nth_error_nth; eauto. }
      unfold want. rewrite Hn.
      destruct U2 as [(A & ->)|(A & B & e & C & D)].
      + split; auto. pose proof (Hopen k u E0) as Ho.
        destruct (get t0 u) as [e|] eqn:Eg; [|congruence].
        exists e. split; [eapply ext_some; eauto|reflexivity].
      + split; [lia|]. exists (mkE (e_file e) true). split; auto.
        rewrite C. reflexivity.
    - apply Hnone in E0. congruence.
    - apply nth_error_None in E0. lia.
  Qed.

  Lemma slot_none k : k < sc -> nth_error us1 k = Some None -> nth k us0 None = None.
  Proof.
    intros Hk H1.
    destruct (nth_error us0 k) as [[u|]|] eqn:E0.
    - destruct (Hsome k u E0) as (u2 & U1 & _). congruence.
    - erewrite nth_error_nth; eauto.
    - apply nth_error_None in E0. lia.
  Qed.

  Lemma step2_inv i u T : i < sc -> nth_error us1 i = Some u -> Inv i T ->
    exists T', step2 sc i u T = Ok T' /\ Inv (S i) T'.
  Proof.
    intros Hi Hu [I1 I2]. unfold step2.
    destruct u as [u'|].
    - destruct (slot_some i u' Hi Hu) as (A & e' & B & C).
      destruct (Nat.eqb_spec i u') as [<-|Hne].
      + unfold set_cloexec. rewrite (I1 i) by lia. rewrite B.
        eexists. split; [reflexivity|]. split.
        * intros d Hd. rewrite get_set_other by lia. apply I1. lia.
        * intros d Hd. destruct (Nat.eq_dec d i) as [->|Hd'].
          -- rewrite get_set_same. symmetry. exact C.
          -- rewrite get_set_other by lia. apply I2. lia.
      + unfold dup2. rewrite (I1 u') by lia. rewrite B.
        destruct (Nat.eqb_spec u' i) as [->|_]; [congruence|].
        eexists. split; [reflexivity|]. split.
        * intros d Hd. rewrite get_set_other by lia. apply I1. lia.
        * intros d Hd. destruct (Nat.eq_dec d i) as [->|Hd'].
          -- rewrite get_set_same. symmetry. exact C.
          -- rewrite get_set_other by lia. apply I2. lia.
    - pose proof (slot_none i Hi Hu) as Hn.
      destruct (Nat.leb_spec 3 i) as [H3|H3].
      + eexists. split; [reflexivity|]. split.
        * intros d Hd. apply I1. lia.
        * intros d Hd. destruct (Nat.eq_dec d i) as [->|Hd'].
          -- rewrite (I1 i) by lia. rewrite (ext_low sc t0 t1 i Hext Hi).
             unfold want. rewrite Hn. destruct (Nat.ltb_spec i 3); [lia|reflexivity].
          -- apply I2. lia.
      + assert (Hr : lowest_free (close T i) 0 = i).
        { apply lowest_free_unique; [lia| |].
          - rewrite get_close, Nat.eqb_refl. reflexivity.
          - intros j Hj. rewrite get_close.
            destruct (Nat.eqb_spec i j); [lia|].
            rewrite (I2 j) by lia. apply want_low; lia. }
        unfold open_, alloc. rewrite Hr. rewrite Nat.eqb_refl.
        destruct (Nat.leb_spec sc i) as [Hs|Hs]; [lia|].
        eexists. split; [reflexivity|]. split.
        * intros d Hd. rewrite get_set_other by lia. rewrite get_close.
          destruct (Nat.eqb_spec i d); [lia|]. apply I1. lia.
        * intros d Hd. destruct (Nat.eq_dec d i) as [->|Hd'].
          -- rewrite get_set_same. unfold want. rewrite Hn.
             destruct (Nat.ltb_spec i 3); [reflexivity|lia].
          -- rewrite get_set_other by lia. rewrite get_close.
             destruct (Nat.eqb_spec i d); [lia|]. apply I2. lia.
  Qed.

  Lemma pass2_inv : forall todo i T,
    i + length todo = sc ->
    (forall k, k < length todo -> nth_error todo k = nth_error us1 (i + k)) ->
    Inv i T ->
    exists T', pass2 sc i todo T = Ok T' /\ Inv sc T'.
  Proof.
    induction todo as [|u rest IH]; intros i T Hl Hn HI; cbn [pass2].
    - simpl in Hl. rewrite Nat.add_0_r in Hl. subst i. eauto.
    - cbn [length] in Hl.
      assert (Hu : nth_error us1 i = Some u).
      { specialize (Hn 0). simpl in Hn. rewrite Nat.add_0_r in Hn. symmetry. apply Hn. lia. }
      destruct (step2_inv i u T) as (T1 & E1 & I1); [lia|auto|auto|].
      rewrite E1. apply IH; [lia| |auto].
      intros k Hk. specialize (Hn (S k)). simpl in Hn.
      rewrite Hn by lia. f_equal. lia.
  Qed.
End Pass2.

(* ------------------------------------------------------------------ *)
(* D. the child's table                                                 *)
(* ------------------------------------------------------------------ *)
Definition sources_open (t : tbl) (us : list (option nat)) : Prop :=
  forall k u, nth_error us k = Some (Some u) -> get t u <> None.

(* both passes succeed; the resulting table (before exec) *)
Lemma shuffle_spec t0 us0 :
  sources_open t0 us0 ->
  exists t1 us1 T,
    pass1 (length us0) 0 us0 t0 = Ok (t1, us1) /\
    pass2 (length us0) 0 us1 t1 = Ok T /\
    ext (length us0) t0 t1 /\
    (forall d, length us0 <= d -> get T d = get t1 d) /\
    (forall d, d < length us0 -> get T d = want t0 us0 d).
Proof.
  intros Ho. set (sc := length us0).
  destruct (pass1_ok sc us0 0 t0) as (t1 & us1 & E1); [unfold sc; lia| |].
  { intros k u Hk _. eapply Ho; eauto. }
  pose proof (pass1_spec sc us0 0 t0 t1 us1 ltac:(unfold sc; lia) E1) as (X1 & X2 & X3 & X4).
  destruct (pass2_inv sc t0 t1 us0 us1 eq_refl X2 X1 Ho X3) with (todo := us1) (i := 0) (T := t1)
    as (T & E2 & I1 & I2).
  - intros k u Hk. destruct (X4 k u Hk) as (u' & U1 & U2). exists u'. split; auto.
  - simpl. auto.
  - intros k Hk. reflexivity.
  - split; [intros; reflexivity|intros; lia].
  - exists t1, us1, T. repeat split; auto.
Qed.

Lemma exec_entry_nocx e : exec_entry (Some (nocx e)) = Some (nocx e).
Proof. reflexivity. Qed.

(* the table of the child after a successful exec *)
Definition child_slot (t0 : tbl) (us0 : list (option nat)) (i : nat) : option entry :=
  match nth i us0 None with
  | Some u => option_map nocx (get t0 u)
  | None => if i <? 3 then Some (mkE devnull false) else exec_entry (get t0 i)
  end.

Theorem child_fds t0 us0 :
  sources_open t0 us0 ->
  exists t', child_init us0 None t0 = CExec t' /\
    (forall i, i < length us0 -> get t' i = child_slot t0 us0 i) /\
    (forall d, length us0 <= d -> get t' d = exec_entry (get t0 d)).
Proof.
  intros Ho. destruct (shuffle_spec t0 us0 Ho) as (t1 & us1 & T & E1 & E2 & X & A & B).
  unfold child_init. rewrite E1, E2. eexists. split; [reflexivity|]. split.
  - intros i Hi. rewrite get_exec, (B i Hi). unfold want, child_slot.
    destruct (nth i us0 None) as [u|].
    + destruct (get t0 u); reflexivity.
    + destruct (i <? 3); reflexivity.
  - intros d Hd. rewrite get_exec, (A d Hd).
    destruct (X d) as [E|(_ & N & f & E)]; rewrite E; [reflexivity|].
    rewrite N. reflexivity.
Qed.

Lemma exec_cx_clear t d e : get (exec t) d = Some e -> e_cx e = false.
Proof.
  rewrite get_exec. destruct (get t d) as [x|]; simpl; [|discriminate].
  destruct (e_cx x) eqn:E; [discriminate|]. intros H. inversion H; subst. auto.
Qed.

(* every descriptor of the parent that is not the target of a mapping *)
Definition others_cloexec (t0 : tbl) (us0 : list (option nat)) : Prop :=
  forall d e, (length us0 <= d \/ (3 <= d /\ nth d us0 None = None)) ->
              get t0 d = Some e -> e_cx e = true.

Corollary child_no_other t0 us0 t' :
  sources_open t0 us0 -> others_cloexec t0 us0 ->
  child_init us0 None t0 = CExec t' ->
  forall d, get t' d <> None -> d < length us0 /\ (d < 3 \/ nth d us0 None <> None).
Proof.
  intros Ho Hc He d Hd.
  destruct (child_fds t0 us0 Ho) as (t2 & E & A & B).
  rewrite He in E. inversion E; subst t2. clear E.
  destruct (Nat.lt_ge_cases d (length us0)) as [L|G].
  - split; auto. destruct (Nat.lt_ge_cases d 3) as [L3|G3]; auto. right.
    intros Hn. apply Hd. rewrite (A d L). unfold child_slot. rewrite Hn.
    destruct (Nat.ltb_spec d 3); [lia|].
    destruct (get t0 d) as [e|] eqn:Eg; [|reflexivity].
    simpl. rewrite (Hc d e); auto.
  - exfalso. apply Hd. rewrite (B d G).
    destruct (get t0 d) as [e|] eqn:Eg; [|reflexivity].
    simpl. rewrite (Hc d e); auto.
Qed.

(* ------------------------------------------------------------------ *)
(* E. the error pipe                                                    *)
(* ------------------------------------------------------------------ *)
Definition sc_ret (x : Z * tbl * option cres * option (option nat * Z) *
                       option (option wans) * list wans) : Z :=
  let '(r, _, _, _, _, _) := x in r.
Definition sc_reaped (x : Z * tbl * option cres * option (option nat * Z) *
                          option (option wans) * list wans) : option (option wans) :=
  let '(_, _, _, _, r, _) := x in r.

(* slot [w] is not written by the shuffle *)
Definition untouched (us : list (option nat)) (w : nat) : Prop :=
  length us <= w \/ (3 <= w /\ nth w us None = None).

Lemma sources_open_alloc t us min f cx t' r :
  alloc t min f cx = (t', r) -> sources_open t us -> sources_open t' us.
Proof.
  intros Ha Ho k u Hk. apply alloc_spec in Ha as (_ & B & _ & D & _).
  specialize (Ho k u Hk). rewrite D; auto. intros ->. congruence.
Qed.

(* the table of a child that stops in uv__write_errno after a failed exec *)
Lemma child_fail_table t0 us0 e w ew :
  sources_open t0 us0 -> untouched us0 w -> get t0 w = Some ew ->
  exists T, child_init us0 (Some e) t0 = CFail T (- e)%Z /\ get T w = Some ew.
Proof.
  intros Ho Hu Hw. destruct (shuffle_spec t0 us0 Ho) as (t1 & us1 & T & E1 & E2 & X & A & B).
  unfold child_init. rewrite E1, E2. eexists. split; [reflexivity|].
  destruct (Nat.lt_ge_cases w (length us0)) as [L|G].
  - destruct Hu as [Hu|[H3 Hn]]; [lia|].
    rewrite (B w L). unfold want. rewrite Hn. destruct (Nat.ltb_spec w 3); [lia|auto].
  - rewrite (A w G). eapply ext_some; eauto.
Qed.

Theorem exec_failure_reported t us fresh e wo t1 rfd t2 wfd :
  alloc t 0 fresh true = (t1, rfd) ->
  alloc t1 0 (S fresh) true = (t2, wfd) ->
  sources_open t us -> untouched us wfd ->
  sc_ret (spawn_child t us fresh false false (Some e) wo) = (- e)%Z /\
  sc_reaped (spawn_child t us fresh false false (Some e) wo) = Some (fst (wait_retry wo)).
Proof.
  intros A1 A2 Ho Hu. unfold spawn_child. rewrite A1, A2.
  pose proof (sources_open_alloc _ _ _ _ _ _ _ A1 Ho) as Ho1.
  pose proof (sources_open_alloc _ _ _ _ _ _ _ A2 Ho1) as Ho2.
  pose proof A2 as A2'. apply alloc_spec in A2' as (_ & _ & C & _ & _).
  destruct (child_fail_table t2 us e wfd _ Ho2 Hu C) as (T & E & G).
  rewrite E, G. cbn [e_file]. rewrite Nat.eqb_refl.
  destruct (wait_retry wo) as [a wo1]. split; reflexivity.
Qed.

(* without the hypothesis: 0,1,2 open, six slots, the error pipe lands on 3/4
   and slot 4 is mapped: the parent sees success *)
Lemma error_pipe_clobbered_witness :
  let t := [Some (mkE 1 false); Some (mkE 2 false); Some (mkE 3 false)] in
  let us := [Some 0; Some 1; Some 2; Some 0; Some 1; Some 2] in
  sources_open t us /\
  sc_ret (spawn_child t us 10 false false (Some 2%Z) []) = 0%Z.
Proof.
  cbv zeta. split; [|vm_compute; reflexivity].
  intros k u Hk.
  do 6 (destruct k as [|k]; [inversion Hk; subst; vm_compute; discriminate|]).
  destruct k; discriminate.
Qed.

(* ------------------------------------------------------------------ *)
(* F. status words                                                      *)
(* ------------------------------------------------------------------ *)
Local Open Scope Z_scope.

Definition decode_spec_of (s : Z) : Z * Z :=
  if s mod 128 =? 0 then ((s / 256) mod 256, 0)
  else if s mod 128 <=? 126 then (0, s mod 128)
  else (0, 0).

Definition macros_ok (s : Z) : bool :=
  Bool.eqb (WIFEXITED s) (s mod 128 =? 0) &&
  Bool.eqb (WIFSIGNALED s) ((1 <=? s mod 128) && (s mod 128 <=? 126)) &&
  (WEXITSTATUS s =? (s / 256) mod 256) &&
  (WTERMSIG s =? s mod 128) &&
  (fst (decode s) =? fst (decode_spec_of s)) && (snd (decode s) =? snd (decode_spec_of s)).

Definition words16 : list Z := map Z.of_nat (seq 0 (256 * 256)).

Lemma words16_all s : 0 <= s < 65536 -> In s words16.
Proof.
  intros H. unfold words16. apply in_map_iff. exists (Z.to_nat s). split; [lia|].
  apply in_seq. lia.
Qed.

Lemma macros_sweep : forallb macros_ok words16 = true.
Proof. vm_compute. reflexivity. Qed.

Lemma macros_ok_all s : 0 <= s < 65536 -> macros_ok s = true.
Proof.
  intros H. pose proof macros_sweep as S. rewrite forallb_forall in S.
  apply S. apply words16_all. auto.
Qed.

Lemma status_macros s : 0 <= s < 65536 ->
  WIFEXITED s = (s mod 128 =? 0) /\
  WIFSIGNALED s = ((1 <=? s mod 128) && (s mod 128 <=? 126)) /\
  WEXITSTATUS s = (s / 256) mod 256 /\
  WTERMSIG s = s mod 128.
Proof.
  intros H. pose proof (macros_ok_all s H) as M. unfold macros_ok in M.
  repeat (apply andb_true_iff in M as [M ?]).
  apply Bool.eqb_prop in M. apply Bool.eqb_prop in H4.
  apply Z.eqb_eq in H3. apply Z.eqb_eq in H2. auto.
Qed.

Lemma decode_spec s : 0 <= s < 65536 -> decode s = decode_spec_of s.
Proof.
  intros H. pose proof (macros_ok_all s H) as M. unfold macros_ok in M.
  repeat (apply andb_true_iff in M as [M ?]).
  apply Z.eqb_eq in H0. apply Z.eqb_eq in H1.
  destruct (decode s), (decode_spec_of s). simpl in *. congruence.
Qed.

(* a normal exit with code c, a death by signal g (with or without core) *)
Lemma decode_exit c : 0 <= c < 256 -> decode (256 * c) = (c, 0).
Proof.
  intros H. rewrite decode_spec by lia. unfold decode_spec_of.
  replace ((256 * c) mod 128) with 0 by lia. simpl.
  f_equal. lia.
Qed.

Lemma decode_signal g core : 1 <= g <= 126 -> 0 <= core <= 1 ->
  decode (g + 128 * core) = (0, g).
Proof.
  intros H Hc. rewrite decode_spec by lia. unfold decode_spec_of.
  replace ((g + 128 * core) mod 128) with g by lia.
  destruct (Z.eqb_spec g 0); [lia|]. destruct (Z.leb_spec g 126); [reflexivity|lia].
Qed.

Lemma decode_range s : 0 <= s < 65536 ->
  0 <= fst (decode s) < 256 /\ 0 <= snd (decode s) < 127 /\
  (fst (decode s) = 0 \/ snd (decode s) = 0).
Proof.
  intros H. rewrite decode_spec by auto. unfold decode_spec_of.
  destruct (Z.eqb_spec (s mod 128) 0); simpl; [lia|].
  destruct (Z.leb_spec (s mod 128) 126); simpl; lia.
Qed.
Local Close Scope Z_scope.

(* ------------------------------------------------------------------ *)
(* G. uv__wait_children                                                 *)
(* ------------------------------------------------------------------ *)
Fixpoint reaps (evs : list event) : list (nat * Z * bool) :=
  match evs with
  | [] => []
  | EReap h st cb :: r => (h, st, cb) :: reaps r
  | _ :: r => reaps r
  end.

Fixpoint exits (evs : list event) : list (nat * Z * Z) :=
  match evs with
  | [] => []
  | EExit h es ts :: r => (h, es, ts) :: exits r
  | _ :: r => exits r
  end.

(* the callbacks that the reaped children are owed *)
Definition owed1 (x : nat * Z * bool) : list (nat * Z * Z) :=
  let '(h, st, cb) := x in
  if cb then [(h, fst (decode st), snd (decode st))] else [].
Definition owed (l : list (nat * Z * bool)) : list (nat * Z * Z) := flat_map owed1 l.

Lemma reaps_app a b : reaps (a ++ b) = reaps a ++ reaps b.
Proof. induction a as [|x a IH]; simpl; auto. destruct x; simpl; auto. f_equal. auto. Qed.
Lemma exits_app a b : exits (a ++ b) = exits a ++ exits b.
Proof. induction a as [|x a IH]; simpl; auto. destruct x; simpl; auto. f_equal. auto. Qed.
Lemma owed_app a b : owed (a ++ b) = owed a ++ owed b.
Proof. unfold owed. apply flat_map_app. Qed.

Definition pend_key (x : proc * Z) : nat * Z * bool := (p_h (fst x), snd x, p_cb (fst x)).

Lemma collect_spec : forall q o keep pend ev o' ab,
  collect q o = (keep, pend, ev, o', ab) ->
  reaps ev = map pend_key pend /\ exits ev = [] /\
  Permutation.Permutation q (map fst pend ++ keep).
Proof.
  induction q as [|p rest IH]; intros o keep pend ev o' ab H; cbn [collect] in H.
  - inversion H; subst. simpl. auto.
  - destruct (wait_retry o) as [a o1].
    destruct a as [a|].
    + destruct a.
      * destruct (collect rest o1) as [[[[k1 p1] e1] o2] ab1] eqn:E.
        inversion H; subst. destruct (IH _ _ _ _ _ _ E) as (A & B & C).
        simpl. repeat split; auto. apply Permutation.Permutation_cons_app. auto.
      * destruct (collect rest o1) as [[[[k1 p1] e1] o2] ab1] eqn:E.
        inversion H; subst. destruct (IH _ _ _ _ _ _ E) as (A & B & C).
        simpl. repeat split; auto. apply Permutation.Permutation_cons_app. auto.
      * destruct (collect rest o1) as [[[[k1 p1] e1] o2] ab1] eqn:E.
        inversion H; subst. destruct (IH _ _ _ _ _ _ E) as (A & B & C).
        simpl. repeat split; auto. apply Permutation.Permutation_cons_app. auto.
      * destruct (collect rest o1) as [[[[k1 p1] e1] o2] ab1] eqn:E.
        inversion H; subst. destruct (IH _ _ _ _ _ _ E) as (A & B & C).
        simpl. repeat split; auto. f_equal. auto.
      * inversion H; subst. simpl. auto.
    + inversion H; subst. simpl. auto.
Qed.

Lemma deliver_spec pend :
  reaps (deliver pend) = [] /\ exits (deliver pend) = owed (map pend_key pend).
Proof.
  induction pend as [|[p st] r [IH1 IH2]]; simpl; auto.
  rewrite reaps_app, exits_app, IH1, IH2. unfold pend_key at 1. simpl.
  destruct (p_cb p); simpl; auto.
Qed.

Lemma wait_children_spec s o s' ev :
  wait_children s o = (s', ev) ->
  (l_abort s' = false -> exits ev = owed (reaps ev)) /\
  exists rest, owed (reaps ev) = exits ev ++ rest.
Proof.
  unfold wait_children. intros H.
  destruct (collect (l_q s) o) as [[[[keep pend] e1] o1] ab] eqn:E.
  destruct (collect_spec _ _ _ _ _ _ _ E) as (A & B & _).
  destruct (deliver_spec pend) as (C & D).
  destruct ab; inversion H; subst; clear H.
  - split; [simpl; discriminate|]. rewrite B. simpl. eauto.
  - assert (X : exits (e1 ++ deliver pend ++ match o1 with [] => [] | _ :: _ => [EExtra] end)
                = owed (reaps (e1 ++ deliver pend ++ match o1 with [] => [] | _ :: _ => [EExtra] end))).
    { rewrite !exits_app, !reaps_app, A, B, C, D. destruct o1; simpl; rewrite !app_nil_r; auto. }
    split; [auto|]. exists []. rewrite app_nil_r. auto.
Qed.

Lemma step_abort s o : l_abort s = true -> step s o = (s, []).
Proof. intros H. unfold step. rewrite H. reflexivity. Qed.

Lemma run_abort ops : forall s, l_abort s = true -> run s ops = (s, []).
Proof.
  induction ops as [|o r IH]; intros s H; simpl; auto.
  rewrite step_abort by auto. rewrite IH by auto. reflexivity.
Qed.

Lemma step_spec s o s' ev :
  step s o = (s', ev) ->
  (l_abort s' = false -> exits ev = owed (reaps ev)) /\
  exists rest, owed (reaps ev) = exits ev ++ rest.
Proof.
  unfold step. destruct (l_abort s) eqn:Ea.
  - intros H. inversion H; subst. simpl. split; eauto.
  - destruct o as [h sp wo|ans|h].
    + destruct (uv_spawn sp wo) as [r wo1]. intros H. inversion H; subst. simpl. split; eauto.
    + apply wait_children_spec.
    + intros H. inversion H; subst. simpl. split; eauto.
Qed.

(* every callback run so far belongs to a reaped child, in order, with the
   decoded status; when the loop did not abort() every reaped child with a
   callback has had it *)
Theorem exit_once_true_status : forall ops s s' evs,
  run s ops = (s', evs) ->
  (l_abort s' = false -> exits evs = owed (reaps evs)) /\
  exists rest, owed (reaps evs) = exits evs ++ rest.
Proof.
  induction ops as [|o r IH]; intros s s' evs H; cbn [run] in H.
  - inversion H; subst. simpl. split; eauto.
  - destruct (step s o) as [s1 e1] eqn:E1. destruct (run s1 r) as [s2 e2] eqn:E2.
    inversion H; subst. clear H.
    destruct (step_spec _ _ _ _ E1) as (A1 & r1 & B1).
    destruct (IH _ _ _ E2) as (A2 & r2 & B2).
    destruct (l_abort s1) eqn:Ea.
    + rewrite run_abort in E2 by auto. inversion E2; subst. rewrite app_nil_r.
      split; [congruence|eauto].
    + rewrite exits_app, reaps_app, owed_app. rewrite A1 by auto. split.
      * intros H. rewrite A2 by auto. reflexivity.
      * exists r2. rewrite B2. rewrite <- A1 by auto. rewrite app_assoc. reflexivity.
Qed.

(* no handle is reaped twice when every uv_spawn uses a fresh handle *)
Definition spawn_handle (o : op) : list nat :=
  match o with OSpawn h _ _ => [h] | _ => [] end.
Definition spawn_handles (ops : list op) : list nat := flat_map spawn_handle ops.
Definition reaped_handles (evs : list event) : list nat := map (fun x => fst (fst x)) (reaps evs).

Lemma NoDup_app_inv {A} (a b : list A) :
  NoDup (a ++ b) -> NoDup a /\ NoDup b /\ forall x, In x a -> ~ In x b.
Proof.
  induction a as [|y a IH]; simpl; intros H.
  - split; [constructor|]. split; auto.
  - inversion H; subst. destruct (IH H3) as (A1 & A2 & A3).
    split; [constructor; auto; intros X; apply H2; apply in_or_app; auto|].
    split; auto. intros x [->|Hx]; auto. intros X. apply H2. apply in_or_app. auto.
Qed.

Lemma NoDup_app_intro {A} (a b : list A) :
  NoDup a -> NoDup b -> (forall x, In x a -> ~ In x b) -> NoDup (a ++ b).
Proof.
  induction a as [|y a IH]; simpl; intros H1 H2 H3; auto.
  inversion H1; subst. constructor.
  - intros X. apply in_app_or in X as [X|X]; auto. apply (H3 y); auto.
  - apply IH; auto.
Qed.

Lemma NoDup_map_filter {A B} (g : A -> B) (f : A -> bool) l :
  NoDup (map g l) -> NoDup (map g (filter f l)).
Proof.
  induction l as [|x l IH]; simpl; intros H; auto.
  inversion H; subst. destruct (f x); simpl; auto.
  constructor; auto. intros X. apply H2. apply in_map_iff in X as (y & Y1 & Y2).
  apply filter_In in Y2 as [Y2 _]. apply in_map_iff. eauto.
Qed.

Definition fresh_inv (q : list proc) (B : list nat) : Prop :=
  NoDup (map p_h q) /\ NoDup B /\ forall h, In h (map p_h q) -> ~ In h B.

Lemma reaped_once_gen : forall ops s s' evs,
  fresh_inv (l_q s) (spawn_handles ops) ->
  run s ops = (s', evs) ->
  NoDup (reaped_handles evs) /\
  forall h, In h (reaped_handles evs) -> In h (map p_h (l_q s)).
Proof.
  induction ops as [|o r IH]; intros s s' evs HI H; cbn [run] in H.
  - inversion H; subst. simpl. split; [constructor|tauto].
  - destruct (step s o) as [s1 e1] eqn:E1. destruct (run s1 r) as [s2 e2] eqn:E2.
    inversion H; subst. clear H.
    unfold reaped_handles. rewrite reaps_app, map_app.
    destruct HI as (I1 & I2 & I3).
    unfold step in E1. destruct (l_abort s) eqn:Ea.
    { inversion E1; subst. rewrite run_abort in E2 by auto. inversion E2; subst.
      simpl. split; [constructor|tauto]. }
    destruct o as [h sp wo|ans|h].
    + (* spawn *)
      destruct (uv_spawn sp wo) as [res wo1]. inversion E1; subst. clear E1.
      simpl in I2, I3. inversion I2; subst.
      assert (Hq : ~ In h (map p_h (l_q s))) by (intros X; apply (I3 h X); left; auto).
      simpl.
      destruct (r_active res).
      * destruct (IH _ _ _ ltac:(shelve) E2) as (A & B).
        split; auto. intros x Hx. apply B in Hx. simpl in Hx.
        rewrite map_app in Hx. apply in_app_or in Hx as [Hx|Hx]; auto.
        simpl in Hx. destruct Hx as [<-|[]].
        (* a handle spawned here cannot have been reaped before... it can be reaped later *)
        shelve.
      * destruct (IH _ _ _ ltac:(shelve) E2) as (A & B). split; auto.
    + shelve.
    + shelve.
Abort.
