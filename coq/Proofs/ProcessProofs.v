From UV Require Import Lib.Base Model.Process.
Local Open Scope Z_scope.
Lemma decode_exit_0 : decode 0 = (0, 0).
Proof. reflexivity. Qed.
