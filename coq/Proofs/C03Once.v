(* C03, part 4: every idle/prepare/check handle is called at most once per
   phase, in queue order, and exactly once unless a callback of the phase
   stopped or closed it before its turn.

   [QInv]: the three watcher queues have no duplicates and hold only active
   handles of their own kind.  [LqInv k]: during the phase of kind k the
   detached queue [lq] has no duplicates, holds active handles of kind k, and
   is disjoint from the kind's queue.  Both are preserved by every API call:
   uv_x_start inserts only an inactive handle, uv_x_stop / uv_close unlink the
   handle from both queues, nothing else touches the queues, and no API call
   ever adds to [lq]. *)
From UV Require Import Lib.Base Model.Heap Model.Timer Model.LoopCore
  Proofs.TimerProofs Proofs.C03Base Proofs.C03Order Proofs.C03Step.

Definition is_wk (k : hkind) : bool :=
  match k with KIdle | KPrepare | KCheck => true | _ => false end.

Definition QInv (s : lstate) : Prop :=
  (forall k i, In i (wq_get s k) -> h_active (hget s i) = true /\ h_kind (hget s i) = k) /\
  (forall k, NoDup (wq_get s k)).

Definition LqInv (k : hkind) (s : lstate) : Prop :=
  NoDup (lq s) /\
  (forall i, In i (lq s) ->
     h_active (hget s i) = true /\ h_kind (hget s i) = k /\ ~ In i (wq_get s k)).

Definition PInv (k : hkind) (s : lstate) : Prop := QInv s /\ LqInv k s.

(* the queue fields *)
Definition qs (s : lstate) := (idle_q s, prepare_q s, check_q s, lq s).

Lemma qs_wq s s' k : qs s' = qs s -> wq_get s' k = wq_get s k.
Proof. unfold qs. intros H. inversion H. destruct k; cbn [wq_get]; congruence. Qed.

Lemma qs_lq s s' : qs s' = qs s -> lq s' = lq s.
Proof. unfold qs. intros H. inversion H. reflexivity. Qed.

(* ---- handle table access ---- *)
Lemma upd_oob {A} i (f : A -> A) l : (length l <= i)%nat -> upd i f l = l.
Proof.
  revert i; induction l as [|x xs IH]; intros [|i] H; simpl in *; auto; try lia.
  rewrite IH by lia. reflexivity.
Qed.

Lemma hget_upd_h_cases s i f j :
  hget (upd_h s i f) j = hget s j \/ (j = i /\ hget (upd_h s i f) j = f (hget s j)).
Proof.
  unfold hget, upd_h. lcbn.
  destruct (Nat.eq_dec i j) as [->|Hne].
  - destruct (Nat.lt_ge_cases j (length (hs s))).
    + right. split; [reflexivity|]. apply nth_upd_same; assumption.
    + left. rewrite upd_oob by assumption. reflexivity.
  - left. apply nth_upd_other; assumption.
Qed.

Lemma hget_hs s s' j : hs s' = hs s -> hget s' j = hget s j.
Proof. unfold hget. intros ->. reflexivity. Qed.

Lemma active_valid s j : h_active (hget s j) = true -> (j < length (hs s))%nat.
Proof.
  intros H. destruct (Nat.lt_ge_cases j (length (hs s))); [assumption|].
  unfold hget in H. rewrite nth_overflow in H by assumption. discriminate.
Qed.

(* ---- frames: active handles outside X stay active, with their kind ---- *)
Definition Fr (X : nat -> Prop) (s s' : lstate) : Prop :=
  forall j, h_active (hget s j) = true -> ~ X j ->
            h_active (hget s' j) = true /\ h_kind (hget s' j) = h_kind (hget s j).

Definition noX : nat -> Prop := fun _ => False.

Lemma Fr_refl X s : Fr X s s.
Proof. intros j H _. auto. Qed.

Lemma Fr_trans X a b c : Fr X a b -> Fr X b c -> Fr X a c.
Proof.
  intros H1 H2 j Ha Hx. destruct (H1 j Ha Hx) as [A K].
  destruct (H2 j A Hx) as [A' K']. split; congruence.
Qed.

Lemma Fr_weaken (X Y : nat -> Prop) s s' : (forall j, X j -> Y j) -> Fr X s s' -> Fr Y s s'.
Proof. intros H F j Ha Hy. apply F; auto. Qed.

Lemma Fr_noX X s s' : Fr noX s s' -> Fr X s s'.
Proof. apply Fr_weaken. intros j []. Qed.

Lemma Fr_hs X s s' : hs s' = hs s -> Fr X s s'.
Proof. intros H j Ha _. rewrite (hget_hs s s' j H). auto. Qed.

Lemma Fr_upd_h_keep X s i f :
  (forall h, h_kind (f h) = h_kind h) -> (forall h, h_active h = true -> h_active (f h) = true) ->
  Fr X s (upd_h s i f).
Proof.
  intros Hk Ha j Hj _. destruct (hget_upd_h_cases s i f j) as [->|[_ ->]]; auto.
Qed.

Lemma Fr_upd_h_x s i f :
  (forall h, h_kind (f h) = h_kind h) -> Fr (eq i) s (upd_h s i f).
Proof.
  intros Hk j Hj Hx. destruct (hget_upd_h_cases s i f j) as [->|[E _]]; auto.
  exfalso. apply Hx. auto.
Qed.

Lemma Fr_handle_start X s i : Fr X s (handle_start s i).
Proof.
  unfold handle_start. destruct (h_active (hget s i)); [apply Fr_refl|].
  destruct (h_ref (hget s i)).
  - eapply Fr_trans; [apply Fr_upd_h_keep|apply Fr_hs; reflexivity]; auto.
  - apply Fr_upd_h_keep; auto.
Qed.

Lemma Fr_handle_stop s i : Fr (eq i) s (handle_stop s i).
Proof.
  unfold handle_stop. destruct (h_active (hget s i)); [|apply Fr_refl].
  destruct (h_ref (hget s i)).
  - eapply Fr_trans; [apply Fr_upd_h_x|apply Fr_hs; reflexivity]; auto.
  - apply Fr_upd_h_x; auto.
Qed.

Lemma Fr_handle_ref X s i : Fr X s (handle_ref s i).
Proof.
  unfold handle_ref. destruct (h_ref (hget s i)); [apply Fr_refl|].
  destruct (h_closing (hget s i)); [apply Fr_upd_h_keep; auto|].
  destruct (h_active (hget s i)); [|apply Fr_upd_h_keep; auto].
  eapply Fr_trans; [apply Fr_upd_h_keep|apply Fr_hs; reflexivity]; auto.
Qed.

Lemma Fr_handle_unref X s i : Fr X s (handle_unref s i).
Proof.
  unfold handle_unref. destruct (h_ref (hget s i)); [|apply Fr_refl].
  destruct (h_closing (hget s i)); [apply Fr_upd_h_keep; auto|].
  destruct (h_active (hget s i)); [|apply Fr_upd_h_keep; auto].
  eapply Fr_trans; [apply Fr_upd_h_keep|apply Fr_hs; reflexivity]; auto.
Qed.

Lemma Fr_handle_init X s k : Fr X s (handle_init s k).
Proof.
  intros j Ha _. unfold handle_init, hget. lcbn.
  rewrite app_nth1 by (apply active_valid; exact Ha). auto.
Qed.

Lemma Fr_sync_timer_active s i : Fr (eq i) s (sync_timer_active s i).
Proof.
  unfold sync_timer_active. destruct (t_active _); [apply Fr_handle_start|apply Fr_handle_stop].
Qed.

Lemma Fr_l_timer_start s i cb t r : Fr (eq i) s (fst (l_timer_start s i cb t r)).
Proof.
  unfold l_timer_start. destruct (timer_start (ts s) i cb t r) as [ts' c]. cbn [fst].
  eapply Fr_trans; [|apply Fr_sync_timer_active].
  match goal with |- Fr _ _ (set_ts ?x _) => apply Fr_trans with (b := x); [|apply Fr_hs; reflexivity] end.
  destruct (c =? 0)%Z; [apply Fr_handle_stop|apply Fr_refl].
Qed.

Lemma Fr_l_timer_stop s i : Fr (eq i) s (l_timer_stop s i).
Proof.
  unfold l_timer_stop. eapply Fr_trans; [|apply Fr_sync_timer_active]. apply Fr_hs; reflexivity.
Qed.

Lemma Fr_l_timer_again s i : Fr (eq i) s (fst (l_timer_again s i)).
Proof.
  unfold l_timer_again. destruct (timer_again (ts s) i) as [ts' c]. cbn [fst].
  eapply Fr_trans; [|apply Fr_sync_timer_active].
  match goal with |- Fr _ _ (set_ts ?x _) => apply Fr_trans with (b := x); [|apply Fr_hs; reflexivity] end.
  destruct (_ && _); [apply Fr_handle_stop|apply Fr_refl].
Qed.

(* ---- the queue fields under the primitives ---- *)
Lemma qs_handle_start s i : qs (handle_start s i) = qs s.
Proof. unfold handle_start. repeat break_if; reflexivity. Qed.
Lemma qs_handle_stop s i : qs (handle_stop s i) = qs s.
Proof. unfold handle_stop. repeat break_if; reflexivity. Qed.
Lemma qs_handle_ref s i : qs (handle_ref s i) = qs s.
Proof. unfold handle_ref. repeat break_if; reflexivity. Qed.
Lemma qs_handle_unref s i : qs (handle_unref s i) = qs s.
Proof. unfold handle_unref. repeat break_if; reflexivity. Qed.
Lemma qs_sync_timer_active s i : qs (sync_timer_active s i) = qs s.
Proof. unfold sync_timer_active. destruct (t_active _); [apply qs_handle_start|apply qs_handle_stop]. Qed.

Lemma qs_l_timer_start s i cb t r : qs (fst (l_timer_start s i cb t r)) = qs s.
Proof.
  unfold l_timer_start. destruct (timer_start (ts s) i cb t r) as [ts' c]. cbn [fst].
  rewrite qs_sync_timer_active.
  match goal with |- qs (set_ts ?x ?v) = _ => change (qs (set_ts x v)) with (qs x) end.
  destruct (c =? 0)%Z; [apply qs_handle_stop|reflexivity].
Qed.

Lemma qs_l_timer_stop s i : qs (l_timer_stop s i) = qs s.
Proof. unfold l_timer_stop. rewrite qs_sync_timer_active. reflexivity. Qed.

Lemma qs_l_timer_again s i : qs (fst (l_timer_again s i)) = qs s.
Proof.
  unfold l_timer_again. destruct (timer_again (ts s) i) as [ts' c]. cbn [fst].
  rewrite qs_sync_timer_active.
  match goal with |- qs (set_ts ?x ?v) = _ => change (qs (set_ts x v)) with (qs x) end.
  destruct (_ && _); [apply qs_handle_stop|reflexivity].
Qed.

Lemma qs_async_send s i : qs (async_send s i) = qs s.
Proof. unfold async_send. break_if; reflexivity. Qed.
Lemma qs_work_submit s a : qs (work_submit s a) = qs s.
Proof. unfold work_submit. cbv zeta. break_if; reflexivity. Qed.

Lemma Fr_async_send X s i : Fr X s (async_send s i).
Proof.
  unfold async_send. break_if; [apply Fr_refl|].
  eapply Fr_trans; [apply Fr_upd_h_keep|apply Fr_hs; reflexivity]; auto.
Qed.
Lemma Fr_work_submit X s a : Fr X s (work_submit s a).
Proof. unfold work_submit. cbv zeta. break_if; apply Fr_hs; reflexivity. Qed.

(* ---- generic preservation: queues only shrink, members are framed ---- *)
Lemma QInv_shrink X s s' :
  (forall k, subseq (wq_get s' k) (wq_get s k)) ->
  Fr X s s' ->
  (forall k j, In j (wq_get s' k) -> ~ X j) ->
  QInv s -> QInv s'.
Proof.
  intros Hsub HF HX [Q1 Q2]. split.
  - intros k i Hi. pose proof (subseq_in _ _ _ (Hsub k) Hi) as Hi0.
    destruct (Q1 k i Hi0) as [A K]. destruct (HF i A (HX k i Hi)) as [A' K']. split; congruence.
  - intros k. eapply subseq_nodup; [apply Hsub|apply Q2].
Qed.

Lemma LqInv_shrink X k s s' :
  subseq (wq_get s' k) (wq_get s k) ->
  subseq (lq s') (lq s) ->
  Fr X s s' ->
  (forall j, In j (lq s') -> ~ X j) ->
  LqInv k s -> LqInv k s'.
Proof.
  intros Hsub Hlq HF HX [L1 L2]. split.
  - eapply subseq_nodup; eauto.
  - intros i Hi. pose proof (subseq_in _ _ _ Hlq Hi) as Hi0.
    destruct (L2 i Hi0) as (A & K & N). destruct (HF i A (HX i Hi)) as [A' K'].
    repeat split; try congruence. intros Hin. apply N. eapply subseq_in; eauto.
Qed.

(* [Pres k s s']: the step s -> s' keeps the queue invariant, and the phase
   invariant of kind k if it held *)
Definition Pres (k : hkind) (s s' : lstate) : Prop :=
  QInv s' /\ (LqInv k s -> LqInv k s').

Lemma Pres_refl k s : QInv s -> Pres k s s.
Proof. intros Q. split; auto. Qed.

Lemma Pres_trans k a b c : Pres k a b -> (QInv b -> Pres k b c) -> Pres k a c.
Proof. intros [Q1 L1] H. destruct (H Q1) as [Q2 L2]. split; auto. Qed.

Lemma Pres_PInv k s s' : Pres k s s' -> PInv k s -> PInv k s'.
Proof. intros [Q L] [_ L0]. split; auto. Qed.

(* queues and lq untouched *)
Lemma Pres_frame X k s s' :
  qs s' = qs s -> Fr X s s' ->
  (forall j, X j -> is_wk (h_kind (hget s j)) = false) ->
  is_wk k = true ->
  QInv s -> Pres k s s'.
Proof.
  intros Hq HF HX Hk Q.
  assert (NQ : forall k' j, In j (wq_get s k') -> ~ X j).
  { intros k' j Hj Hx. destruct Q as [Q1 _]. destruct (Q1 k' j Hj) as [_ K].
    apply HX in Hx. rewrite K in Hx. destruct k'; cbn in *; try discriminate; contradiction. }
  split.
  - eapply QInv_shrink with (X := X); eauto.
    + intros k'. rewrite (qs_wq s s' k' Hq). apply subseq_refl.
    + intros k' j Hj. rewrite (qs_wq s s' k' Hq) in Hj. eauto.
  - intros L. eapply LqInv_shrink with (X := X); eauto.
    + rewrite (qs_wq s s' k Hq). apply subseq_refl.
    + rewrite (qs_lq s s' Hq). apply subseq_refl.
    + intros j Hj Hx. rewrite (qs_lq s s' Hq) in Hj. destruct L as [_ L2].
      destruct (L2 j Hj) as (_ & K & _). apply HX in Hx. rewrite K, Hk in Hx. discriminate.
Qed.

Lemma noX_ok s : forall j, noX j -> is_wk (h_kind (hget s j)) = false.
Proof. intros j []. Qed.

(* ---- wq_get / wq_set ---- *)
Lemma wq_get_set_same s k v : is_wk k = true -> wq_get (wq_set s k v) k = v.
Proof. destruct k; cbn; try discriminate; reflexivity. Qed.

Lemma wq_get_set_other s k k' v : k <> k' -> wq_get (wq_set s k v) k' = wq_get s k'.
Proof. destruct k, k'; cbn; try reflexivity; congruence. Qed.

Lemma wq_get_nonwk s k : is_wk k = false -> wq_get s k = [].
Proof. destruct k; cbn; try discriminate; reflexivity. Qed.

Lemma wq_set_nonwk s k v : is_wk k = false -> wq_set s k v = s.
Proof. destruct k; cbn; try discriminate; reflexivity. Qed.

Lemma lq_wq_set s k v : lq (wq_set s k v) = lq s.
Proof. destruct k; reflexivity. Qed.

Lemma hs_wq_set s k v : hs (wq_set s k v) = hs s.
Proof. destruct k; reflexivity. Qed.

Lemma hkind_eq_dec (a b : hkind) : {a = b} + {a <> b}.
Proof. decide equality. Qed.

Lemma remove_q_subseq i l : subseq (remove_q i l) l.
Proof. unfold remove_q, remove_id. apply subseq_filter. Qed.

(* ---- uv_x_stop ---- *)
Lemma watcher_stop_Pres k s i : is_wk k = true -> QInv s -> Pres k s (watcher_stop s i).
Proof.
  intros Hk P. unfold watcher_stop. destruct (h_active (hget s i)) eqn:Ea; [|apply Pres_refl; exact P].
  set (ki := h_kind (hget s i)).
  set (s1 := wq_set s ki (remove_q i (wq_get s ki))).
  set (s2 := set_lq s1 (remove_q i (lq s1))).
  assert (W : forall k', subseq (wq_get (handle_stop s2 i) k') (wq_get s k')).
  { intros k'. rewrite (qs_wq _ _ k' (qs_handle_stop s2 i)).
    change (wq_get s2 k') with (wq_get s1 k'). subst s1.
    destruct (hkind_eq_dec ki k') as [<-|Hne].
    - destruct (is_wk ki) eqn:Ew.
      + rewrite wq_get_set_same by assumption. apply remove_q_subseq.
      + rewrite wq_set_nonwk by assumption. apply subseq_refl.
    - rewrite wq_get_set_other by assumption. apply subseq_refl. }
  assert (NI : forall k' j, In j (wq_get (handle_stop s2 i) k') -> i <> j).
  { intros k' j Hj. rewrite (qs_wq _ _ k' (qs_handle_stop s2 i)) in Hj.
    change (wq_get s2 k') with (wq_get s1 k') in Hj. subst s1.
    destruct (hkind_eq_dec ki k') as [<-|Hne].
    - destruct (is_wk ki) eqn:Ew.
      + rewrite wq_get_set_same in Hj by assumption. apply remove_id_in in Hj. tauto.
      + rewrite wq_get_nonwk in Hj by assumption. destruct Hj.
    - rewrite wq_get_set_other in Hj by assumption.
      destruct P as [Q1 _]. destruct (Q1 k' j Hj) as [_ K]. intros <-. apply Hne. exact K. }
  assert (F : Fr (eq i) s (handle_stop s2 i)).
  { eapply Fr_trans; [|apply Fr_handle_stop]. apply Fr_hs. subst s2 s1. lcbn. apply hs_wq_set. }
  assert (LQ : lq (handle_stop s2 i) = remove_q i (lq s)).
  { rewrite (qs_lq _ _ (qs_handle_stop s2 i)). subst s2 s1. lcbn. rewrite lq_wq_set. reflexivity. }
  split.
  - eapply QInv_shrink with (X := eq i); eauto.
  - intros L. eapply LqInv_shrink with (X := eq i); eauto.
    + rewrite LQ. apply remove_q_subseq.
    + intros j Hj. rewrite LQ in Hj. apply remove_id_in in Hj. tauto.
Qed.

Lemma watcher_stop_lq s i :
  lq (watcher_stop s i) = lq s \/ lq (watcher_stop s i) = remove_q i (lq s).
Proof.
  unfold watcher_stop. destruct (h_active (hget s i)); [|left; reflexivity]. right.
  rewrite (qs_lq _ _ (qs_handle_stop _ i)). lcbn. rewrite lq_wq_set. reflexivity.
Qed.

(* ---- uv_x_start ---- *)
Lemma hget_upd_h_same s i f :
  (i < length (hs s))%nat -> hget (upd_h s i f) i = f (hget s i).
Proof. intros H. unfold hget, upd_h. lcbn. apply nth_upd_same. exact H. Qed.

Lemma handle_start_active s i :
  (i < length (hs s))%nat ->
  h_active (hget (handle_start s i) i) = true /\
  h_kind (hget (handle_start s i) i) = h_kind (hget s i).
Proof.
  intros V. unfold handle_start. destruct (h_active (hget s i)) eqn:Ea; [auto|].
  destruct (h_ref (hget s i)).
  - rewrite (hget_hs (upd_h s i (with_active true)) _ i) by reflexivity.
    rewrite hget_upd_h_same by exact V. auto.
  - rewrite hget_upd_h_same by exact V. auto.
Qed.

Lemma watcher_start_Pres k s i b :
  is_wk k = true -> is_wk (h_kind (hget s i)) = true -> (i < length (hs s))%nat ->
  QInv s -> Pres k s (fst (watcher_start s i b)).
Proof.
  intros Hk Hki V P. unfold watcher_start.
  destruct (h_active (hget s i)) eqn:Ea; [apply Pres_refl; exact P|].
  destruct (negb b); [apply Pres_refl; exact P|]. cbn [fst].
  set (ki := h_kind (hget s i)) in *.
  set (s1 := wq_set s ki (i :: wq_get s ki)).
  set (s2 := upd_h s1 i (with_hascb true)).
  assert (HS : hs s1 = hs s) by (subst s1; apply hs_wq_set).
  assert (F : Fr noX s (handle_start s2 i)).
  { eapply Fr_trans; [|apply Fr_handle_start].
    eapply Fr_trans; [apply Fr_hs; exact HS|]. subst s2. apply Fr_upd_h_keep; auto. }
  assert (V2 : (i < length (hs s2))%nat).
  { subst s2. lcbn. rewrite upd_length, HS. exact V. }
  assert (K2 : h_kind (hget s2 i) = ki).
  { subst s2. rewrite hget_upd_h_same by (rewrite HS; exact V).
    cbn [with_hascb h_kind]. rewrite (hget_hs s s1 i HS). reflexivity. }
  destruct (handle_start_active s2 i V2) as [AI KI]. rewrite K2 in KI.
  assert (WQ : forall k', wq_get (handle_start s2 i) k' =
                          if hkind_eq_dec ki k' then i :: wq_get s ki else wq_get s k').
  { intros k'. rewrite (qs_wq _ _ k' (qs_handle_start s2 i)).
    change (wq_get s2 k') with (wq_get s1 k'). subst s1.
    destruct (hkind_eq_dec ki k') as [<-|Hne].
    - apply wq_get_set_same; assumption.
    - apply wq_get_set_other; assumption. }
  assert (LQ : lq (handle_start s2 i) = lq s).
  { rewrite (qs_lq _ _ (qs_handle_start s2 i)). subst s2 s1. lcbn. apply lq_wq_set. }
  destruct P as [Q1 Q2].
  assert (NI : ~ In i (wq_get s ki)).
  { intros Hin. destruct (Q1 ki i Hin) as [A _]. congruence. }
  split; [split|intros [L1 L2]; split].
  - intros k' j Hj. rewrite WQ in Hj. destruct (hkind_eq_dec ki k') as [<-|Hne].
    + destruct Hj as [<-|Hj]; [split; assumption|].
      destruct (Q1 ki j Hj) as [A K]. destruct (F j A (fun x => x)) as [A' K']. split; congruence.
    + destruct (Q1 k' j Hj) as [A K]. destruct (F j A (fun x => x)) as [A' K']. split; congruence.
  - intros k'. rewrite WQ. destruct (hkind_eq_dec ki k') as [<-|Hne]; [|apply Q2].
    constructor; [exact NI|apply Q2].
  - rewrite LQ. exact L1.
  - intros j Hj. rewrite LQ in Hj. destruct (L2 j Hj) as (A & K & N).
    destruct (F j A (fun x => x)) as [A' K']. repeat split; try congruence.
    rewrite WQ. destruct (hkind_eq_dec ki k) as [<-|Hne]; [|exact N].
    intros [<-|Hin]; [congruence|contradiction].
Qed.

Lemma watcher_start_lq s i b : lq (fst (watcher_start s i b)) = lq s.
Proof.
  unfold watcher_start. repeat break_if; cbn [fst]; try reflexivity.
  rewrite (qs_lq _ _ (qs_handle_start _ i)). lcbn. apply lq_wq_set.
Qed.

Ltac pres_frame XX := apply (Pres_frame XX); [ | | |assumption|assumption].

(* ---- uv_close ---- *)
Lemma kind_upd_h s i f j :
  (forall h, h_kind (f h) = h_kind h) -> h_kind (hget (upd_h s i f) j) = h_kind (hget s j).
Proof. intros Hk. destruct (hget_upd_h_cases s i f j) as [->|[_ ->]]; auto. Qed.

Lemma active_upd_h s i f j :
  (forall h, h_active (f h) = h_active h) -> h_active (hget (upd_h s i f) j) = h_active (hget s j).
Proof. intros Hk. destruct (hget_upd_h_cases s i f j) as [->|[_ ->]]; auto. Qed.

Lemma l_close_Pres k s i : is_wk k = true -> QInv s -> Pres k s (l_close s i).
Proof.
  intros Hk Q. unfold l_close. destruct (h_closing (hget s i)); [apply Pres_refl; exact Q|].
  set (s1 := upd_h s i (with_closing true)).
  assert (P1 : Pres k s s1).
  { pres_frame noX; [reflexivity| |apply noX_ok].
    apply Fr_upd_h_keep; auto. }
  assert (K1 : forall j, h_kind (hget s1 j) = h_kind (hget s j)).
  { intros j. apply kind_upd_h. auto. }
  eapply Pres_trans; [exact P1|]. intros Q1.
  match goal with |- Pres k s1 (set_closing ?x ?v) =>
    apply Pres_trans with (b := x);
    [|intros Qx; pres_frame noX;
      [reflexivity|apply Fr_hs; reflexivity|apply noX_ok]] end.
  destruct (h_kind (hget s i)) eqn:Eki.
  - pres_frame (eq i).
    + rewrite qs_handle_stop. reflexivity.
    + match goal with |- Fr _ _ (handle_stop ?x _) =>
        apply Fr_trans with (b := x); [apply Fr_hs; reflexivity|apply Fr_handle_stop] end.
    + intros j <-. rewrite K1, Eki. reflexivity.
  - apply watcher_stop_Pres; assumption.
  - apply watcher_stop_Pres; assumption.
  - apply watcher_stop_Pres; assumption.
  - pres_frame (eq i).
    + rewrite qs_handle_stop. reflexivity.
    + match goal with |- Fr _ _ (handle_stop ?x _) =>
        apply Fr_trans with (b := x); [|apply Fr_handle_stop] end.
      match goal with |- Fr _ _ (set_alq (set_async ?x _) _) =>
        apply Fr_trans with (b := x); [|apply Fr_hs; reflexivity] end.
      apply Fr_upd_h_keep; auto.
    + intros j <-. rewrite K1, Eki. reflexivity.
Qed.

Lemma l_close_lq s i : lq (l_close s i) = lq s \/ lq (l_close s i) = remove_q i (lq s).
Proof.
  unfold l_close. destruct (h_closing (hget s i)); [left; reflexivity|]. lcbn.
  destruct (h_kind (hget s i)).
  - left. rewrite (qs_lq _ _ (qs_handle_stop _ i)). reflexivity.
  - apply (watcher_stop_lq (upd_h s i (with_closing true)) i).
  - apply (watcher_stop_lq (upd_h s i (with_closing true)) i).
  - apply (watcher_stop_lq (upd_h s i (with_closing true)) i).
  - left. rewrite (qs_lq _ _ (qs_handle_stop _ i)). reflexivity.
Qed.

(* ---- every API call ---- *)
Lemma is_watcher_wk s i : is_watcher s i = is_wk (h_kind (hget s i)).
Proof. unfold is_watcher, kind_is. destruct (h_kind (hget s i)); reflexivity. Qed.

Lemma kind_is_true s i k : kind_is s i k = true -> h_kind (hget s i) = k.
Proof. unfold kind_is. destruct (h_kind (hget s i)), k; cbn; congruence. Qed.

Lemma usable_valid s i : usable s i = true -> (i < length (hs s))%nat.
Proof.
  unfold usable, lvalid. intros H. apply andb_true_iff in H. destruct H as [H _].
  apply Nat.ltb_lt. exact H.
Qed.

Lemma lapi_Pres k s o : is_wk k = true -> QInv s -> Pres k s (fst (lapi s o)).
Proof.
  intros Hk Q. destruct o; unfold lapi; cbv beta iota; try (apply Pres_refl; exact Q).
  - (* LInit *)
    assert (P1 : Pres k s (handle_init s k0)).
    { pres_frame noX; [reflexivity|apply Fr_handle_init|apply noX_ok]. }
    destruct k0; cbn [fst]; try exact P1.
    eapply Pres_trans; [exact P1|]. intros Q1.
    pres_frame noX; [| |apply noX_ok].
    + rewrite qs_handle_start. reflexivity.
    + eapply Fr_trans; [|apply Fr_handle_start].
      match goal with |- Fr _ _ (set_async ?x _) =>
        apply Fr_trans with (b := x); [|apply Fr_hs; reflexivity] end.
      apply Fr_upd_h_keep; auto.
  - (* LTStart *)
    break_if; [|apply Pres_refl; exact Q].
    apply andb_true_iff in Heqb. destruct Heqb as [_ Hki]. apply kind_is_true in Hki.
    pose proof (qs_l_timer_start s i cb t r) as Hq. pose proof (Fr_l_timer_start s i cb t r) as HF.
    destruct (l_timer_start s i cb t r) as [s' c]. cbn [fst] in *.
    pres_frame (eq i); [exact Hq|exact HF|]. intros j <-. rewrite Hki. reflexivity.
  - (* LTAgain *)
    break_if; [|apply Pres_refl; exact Q].
    apply andb_true_iff in Heqb. destruct Heqb as [_ Hki]. apply kind_is_true in Hki.
    pose proof (qs_l_timer_again s i) as Hq. pose proof (Fr_l_timer_again s i) as HF.
    destruct (l_timer_again s i) as [s' c]. cbn [fst] in *.
    pres_frame (eq i); [exact Hq|exact HF|]. intros j <-. rewrite Hki. reflexivity.
  - (* LTSetRepeat *)
    break_if; [|apply Pres_refl; exact Q]. cbn [fst].
    pres_frame noX; [reflexivity|apply Fr_hs; reflexivity|apply noX_ok].
  - (* LStart *)
    break_if; [|apply Pres_refl; exact Q].
    apply andb_true_iff in Heqb. destruct Heqb as [Heqb _].
    apply andb_true_iff in Heqb. destruct Heqb as [Hu Hw].
    rewrite is_watcher_wk in Hw. apply usable_valid in Hu.
    pose proof (watcher_start_Pres k s i hascb Hk Hw Hu Q) as P.
    destruct (watcher_start s i hascb) as [s' c]. exact P.
  - (* LStop *)
    break_if; [|apply Pres_refl; exact Q].
    destruct (kind_is s i KTimer) eqn:Hki.
    + apply kind_is_true in Hki. cbn [fst].
      pres_frame (eq i).
      * apply qs_l_timer_stop.
      * apply Fr_l_timer_stop.
      * intros j <-. rewrite Hki. reflexivity.
    + break_if; cbn [fst]; [apply watcher_stop_Pres; assumption|apply Pres_refl; exact Q].
  - (* LRef *)
    break_if; cbn [fst]; [|apply Pres_refl; exact Q].
    pres_frame noX; [apply qs_handle_ref|apply Fr_handle_ref|apply noX_ok].
  - (* LUnref *)
    break_if; cbn [fst]; [|apply Pres_refl; exact Q].
    pres_frame noX; [apply qs_handle_unref|apply Fr_handle_unref|apply noX_ok].
  - (* LClose *)
    break_if; cbn [fst]; [|apply Pres_refl; exact Q]. apply l_close_Pres; assumption.
  - (* LSend *)
    break_if; cbn [fst]; [|apply Pres_refl; exact Q].
    pres_frame noX; [apply qs_async_send|apply Fr_async_send|apply noX_ok].
  - (* LWork *)
    cbn [fst].
    pres_frame noX; [apply qs_work_submit|apply Fr_work_submit|apply noX_ok].
  - (* LStopLoop *)
    cbn [fst].
    pres_frame noX; [reflexivity|apply Fr_hs; reflexivity|apply noX_ok].
  - (* LAdv *)
    cbn [fst].
    pres_frame noX; [reflexivity|apply Fr_hs; reflexivity|apply noX_ok].
Qed.

(* no API call adds to the detached queue; only uv_x_stop / uv_close of a
   handle removes it *)
Lemma lapi_lq s o :
  lq (fst (lapi s o)) = lq s \/
  exists i, (o = LStop i \/ o = LClose i) /\ lq (fst (lapi s o)) = remove_q i (lq s).
Proof.
  destruct o; unfold lapi; cbv beta iota; try (left; reflexivity).
  - left. destruct k; cbn [fst]; try reflexivity.
    rewrite (qs_lq _ _ (qs_handle_start _ _)). reflexivity.
  - left. break_if; [|reflexivity].
    pose proof (qs_l_timer_start s i cb t r) as Hq.
    destruct (l_timer_start s i cb t r) as [s' c]. cbn [fst] in *. apply qs_lq; exact Hq.
  - left. break_if; [|reflexivity].
    pose proof (qs_l_timer_again s i) as Hq.
    destruct (l_timer_again s i) as [s' c]. cbn [fst] in *. apply qs_lq; exact Hq.
  - left. break_if; reflexivity.
  - left. break_if; [|reflexivity].
    pose proof (watcher_start_lq s i hascb) as Hq.
    destruct (watcher_start s i hascb) as [s' c]. exact Hq.
  - break_if; [|left; reflexivity].
    break_if; [left; cbn [fst]; apply qs_lq, qs_l_timer_stop|].
    break_if; cbn [fst]; [|left; reflexivity].
    destruct (watcher_stop_lq s i) as [H|H]; [left; exact H|right; exists i; auto].
  - left. break_if; cbn [fst]; [apply qs_lq, qs_handle_ref|reflexivity].
  - left. break_if; cbn [fst]; [apply qs_lq, qs_handle_unref|reflexivity].
  - break_if; cbn [fst]; [|left; reflexivity].
    destruct (l_close_lq s i) as [H|H]; [left; exact H|right; exists i; auto].
  - left. break_if; cbn [fst]; [apply qs_lq, qs_async_send|reflexivity].
  - left. cbn [fst]. apply qs_lq, qs_work_submit.
Qed.

Lemma lapi_lq_subseq s o : subseq (lq (fst (lapi s o))) (lq s).
Proof.
  destruct (lapi_lq s o) as [->|(i & _ & ->)]; [apply subseq_refl|apply remove_q_subseq].
Qed.

Lemma lapi_lq_removed s o i :
  In i (lq s) -> ~ In i (lq (fst (lapi s o))) -> o = LStop i \/ o = LClose i.
Proof.
  intros Hin Hn. destruct (lapi_lq s o) as [E|(j & Ho & E)]; rewrite E in Hn; [contradiction|].
  destruct (Nat.eq_dec j i) as [->|Hne]; [exact Ho|].
  exfalso. apply Hn. apply remove_id_in. auto.
Qed.

Lemma lapis_Pres k os : forall s, is_wk k = true -> QInv s -> Pres k s (fst (lapis s os)).
Proof.
  induction os as [|o os IH]; intros s Hk Q; cbn [lapis]; [apply Pres_refl; exact Q|].
  pose proof (lapi_Pres k s o Hk Q) as P1. destruct (lapi s o) as [s1 e1]. cbn [fst] in P1.
  eapply Pres_trans; [exact P1|]. intros Q1.
  pose proof (IH s1 Hk Q1) as P2. destruct (lapis s1 os) as [s2 e2]. exact P2.
Qed.

Lemma lapis_lq_subseq os : forall s, subseq (lq (fst (lapis s os))) (lq s).
Proof.
  induction os as [|o os IH]; intros s; cbn [lapis]; [apply subseq_refl|].
  pose proof (lapi_lq_subseq s o) as H1. destruct (lapi s o) as [s1 e1]. cbn [fst] in H1.
  pose proof (IH s1) as H2. destruct (lapis s1 os) as [s2 e2]. cbn [fst] in *.
  eapply subseq_trans; eauto.
Qed.

Lemma lapis_lq_removed os : forall s i,
  In i (lq s) -> ~ In i (lq (fst (lapis s os))) -> In (LStop i) os \/ In (LClose i) os.
Proof.
  induction os as [|o os IH]; intros s i Hin Hn; cbn [lapis] in Hn; [contradiction|].
  pose proof (lapi_lq_removed s o i Hin) as H1. destruct (lapi s o) as [s1 e1]. cbn [fst] in H1.
  pose proof (IH s1 i) as H2. destruct (lapis s1 os) as [s2 e2]. cbn [fst] in *.
  destruct (in_dec Nat.eq_dec i (lq s1)) as [Hi1|Hi1].
  - destruct (H2 Hi1 Hn); [left|right]; right; assumption.
  - destruct (H1 Hi1) as [->| ->]; [left|right]; left; reflexivity.
Qed.

(* ---- a callback ---- *)
Lemma callback_Pres k s beh tag i :
  is_wk k = true -> QInv s -> Pres k s (fst (callback s beh tag i)).
Proof.
  intros Hk Q. rewrite callback_eq. cbn [fst].
  apply Pres_trans with (b := set_cbcount s (S (cbcount s))).
  - pres_frame noX; [reflexivity|apply Fr_hs; reflexivity|apply noX_ok].
  - intros Q1. apply lapis_Pres; assumption.
Qed.

Lemma callback_lq_subseq s beh tag i : subseq (lq (fst (callback s beh tag i))) (lq s).
Proof. rewrite callback_eq. cbn [fst]. apply (lapis_lq_subseq _ (set_cbcount s (S (cbcount s)))). Qed.

Lemma callback_cbcount s beh tag i : cbcount (fst (callback s beh tag i)) = S (cbcount s).
Proof.
  rewrite callback_eq. cbn [fst].
  destruct (lapis_quiet (cb_ops s beh) (set_cbcount s (S (cbcount s)))) as (H & _). exact H.
Qed.

(* a handle that leaves the detached queue during callback number n was
   stopped or closed by that callback (n = cap is the wind-down that closes
   every handle) *)
Lemma callback_lq_removed s beh tag i j :
  In j (lq s) -> ~ In j (lq (fst (callback s beh tag i))) ->
  cbcount s = cap \/ In (LStop j) (beh (cbcount s)) \/ In (LClose j) (beh (cbcount s)).
Proof.
  intros Hin Hn. rewrite callback_eq in Hn. cbn [fst] in Hn.
  apply (lapis_lq_removed _ (set_cbcount s (S (cbcount s)))) in Hn; [|exact Hin].
  unfold cb_ops in Hn. destruct (Nat.eqb_spec (cbcount s) cap); [left; assumption|].
  destruct (Nat.ltb_spec cap (cbcount s)); [destruct Hn as [[]|[]]|]. right. exact Hn.
Qed.

(* ---- one step of the detached iteration: pop the head, re-queue it ---- *)
Lemma wq_get_set_lq s v k : wq_get (set_lq s v) k = wq_get s k.
Proof. destruct k; reflexivity. Qed.

Lemma NoDup_app_snoc {A} (l : list A) x : NoDup l -> ~ In x l -> NoDup (l ++ [x]).
Proof.
  induction l as [|y l IH]; intros Hn Hx; simpl.
  - constructor; [intros []|constructor].
  - inversion Hn; subst. constructor.
    + intros Hin. apply in_app_or in Hin. destruct Hin as [Hin|[<-|[]]]; [contradiction|].
      apply Hx. left; reflexivity.
    + apply IH; auto. intros Hin. apply Hx. right; exact Hin.
Qed.

Lemma PInv_pop k s i rest :
  is_wk k = true -> lq s = i :: rest -> PInv k s ->
  PInv k (wq_set (set_lq s rest) k (wq_get (set_lq s rest) k ++ [i])).
Proof.
  intros Hk El [[Q1 Q2] [L1 L2]]. rewrite El in *.
  set (s2 := wq_set (set_lq s rest) k (wq_get (set_lq s rest) k ++ [i])).
  assert (HG : forall j, hget s2 j = hget s j).
  { intros j. apply hget_hs. subst s2. rewrite hs_wq_set. reflexivity. }
  assert (WQ : forall k', wq_get s2 k' = if hkind_eq_dec k k' then wq_get s k ++ [i] else wq_get s k').
  { intros k'. subst s2. destruct (hkind_eq_dec k k') as [<-|Hne].
    - rewrite wq_get_set_same by assumption. apply f_equal2; [apply wq_get_set_lq|reflexivity].
    - rewrite wq_get_set_other by assumption. apply wq_get_set_lq. }
  assert (LQ : lq s2 = rest) by (subst s2; rewrite lq_wq_set; reflexivity).
  destruct (L2 i (or_introl eq_refl)) as (Ai & Ki & Ni).
  apply NoDup_cons_iff in L1. destruct L1 as [Hnr L1'].
  split; [split|split].
  - intros k' j Hj. rewrite HG. rewrite WQ in Hj. destruct (hkind_eq_dec k k') as [<-|Hne]; [|auto].
    apply in_app_or in Hj. destruct Hj as [Hj|[<-|[]]]; auto.
  - intros k'. rewrite WQ. destruct (hkind_eq_dec k k') as [<-|Hne]; [|apply Q2].
    apply NoDup_app_snoc; auto.
  - rewrite LQ. exact L1'.
  - intros j Hj. rewrite LQ in Hj. rewrite HG.
    destruct (L2 j (or_intror Hj)) as (A & K & N). repeat split; auto.
    rewrite WQ. destruct (hkind_eq_dec k k) as [_|]; [|congruence].
    intros Hin. apply in_app_or in Hin. destruct Hin as [Hin|[<-|[]]]; [contradiction|].
    contradiction.
Qed.

(* who may have removed handle j from the phase: callback number n stopped or
   closed it (n = cap: the wind-down closes every handle) *)
Definition removed_by (beh : nat -> list lop) (j n : nat) : Prop :=
  n = cap \/ In (LStop j) (beh n) \/ In (LClose j) (beh n).

(* the called handles are exactly the successive heads of [lq] *)
Lemma run_lq_heads fuel s beh k tag i rest :
  lq s = i :: rest ->
  exists s3 e1 s4 e2,
    callback (wq_set (set_lq s rest) k (wq_get (set_lq s rest) k ++ [i])) beh tag i = (s3, e1) /\
    run_lq fuel s3 beh k tag = (s4, e2) /\
    run_lq (S fuel) s beh k tag = (s4, e1 ++ e2) /\
    cb_ids (e1 ++ e2) = i :: cb_ids e2.
Proof.
  intros El. cbn [run_lq]. rewrite El. cbv zeta.
  destruct (callback _ beh tag i) as [s3 e1] eqn:E1.
  destruct (run_lq fuel s3 beh k tag) as [s4 e2] eqn:E2.
  exists s3, e1, s4, e2. split; [reflexivity|]. split; [exact E2|]. split; [reflexivity|].
  rewrite cb_ids_app, (callback_ids' _ _ _ _ _ _ E1). reflexivity.
Qed.

Lemma run_lq_spec beh k tag fuel : forall s s' evs,
  is_wk k = true -> PInv k s -> (length (lq s) <= fuel)%nat ->
  run_lq fuel s beh k tag = (s', evs) ->
  PInv k s' /\
  subseq (cb_ids evs) (lq s) /\
  (cbcount s <= cbcount s')%nat /\
  (forall j, In j (lq s) -> ~ In j (cb_ids evs) ->
     exists n, (cbcount s <= n < cbcount s')%nat /\ removed_by beh j n).
Proof.
  induction fuel as [|f IH]; intros s s' evs Hk P Hlen E.
  - cbn [run_lq] in E. inversion E; subst s' evs.
    destruct (lq s) as [|x l] eqn:El; [|cbn in Hlen; lia].
    split; [exact P|]. split; [apply subseq_nil|]. split; [lia|]. intros j [].
  - destruct (lq s) as [|i rest] eqn:El.
    + cbn [run_lq] in E. rewrite El in E. inversion E; subst s' evs.
      split; [exact P|]. split; [apply subseq_nil|]. split; [lia|]. intros j [].
    + destruct (run_lq_heads f s beh k tag i rest El) as (s3 & e1 & s4 & e2 & E1 & E2 & E3 & Eids).
      rewrite E3 in E. inversion E; subst s' evs. clear E E3.
      set (s2 := wq_set (set_lq s rest) k (wq_get (set_lq s rest) k ++ [i])) in *.
      pose proof (PInv_pop k s i rest Hk El P) as P2. fold s2 in P2.
      assert (LQ2 : lq s2 = rest) by (subst s2; rewrite lq_wq_set; reflexivity).
      assert (C2 : cbcount s2 = cbcount s).
      { pose proof (core_wq_set (set_lq s rest) k (wq_get (set_lq s rest) k ++ [i])) as C.
        fold s2 in C. unfold core in C. inversion C. reflexivity. }
      pose proof (callback_Pres k s2 beh tag i Hk (proj1 P2)) as P3.
      pose proof (callback_lq_subseq s2 beh tag i) as S3.
      pose proof (callback_cbcount s2 beh tag i) as C3.
      pose proof (callback_lq_removed s2 beh tag i) as R3.
      rewrite E1 in P3, S3, C3, R3. cbn [fst] in P3, S3, C3, R3.
      apply Pres_PInv in P3; [|exact P2]. rewrite LQ2 in S3.
      assert (Hlen3 : (length (lq s3) <= f)%nat).
      { apply subseq_length in S3. cbn [length] in Hlen. lia. }
      destruct (IH s3 s4 e2 Hk P3 Hlen3 E2) as (P4 & Sub4 & C4 & M4).
      split; [exact P4|]. split; [|split].
      * rewrite Eids. apply ss_keep. eapply subseq_trans; eauto.
      * lia.
      * intros j Hj Hn. rewrite Eids in Hn.
        assert (j <> i) by (intros ->; apply Hn; left; reflexivity).
        assert (Hjr : In j rest) by (destruct Hj; [congruence|assumption]).
        assert (Hn2 : ~ In j (cb_ids e2)) by (intros X; apply Hn; right; exact X).
        destruct (in_dec Nat.eq_dec j (lq s3)) as [Hj3|Hj3].
        -- destruct (M4 j Hj3 Hn2) as (n & Hr & Hb). exists n. split; [lia|exact Hb].
        -- exists (cbcount s). split; [lia|]. rewrite <- C2. unfold removed_by.
           apply R3; [rewrite LQ2; exact Hjr|exact Hj3].
Qed.

(* ---- a whole watcher phase ---- *)
Theorem run_watchers_once s beh k tag s' evs :
  QInv s -> run_watchers s beh k tag = (s', evs) ->
  QInv s' /\
  NoDup (cb_ids evs) /\
  subseq (cb_ids evs) (wq_get s k) /\
  (cbcount s <= cbcount s')%nat /\
  (forall j, In j (wq_get s k) -> ~ In j (cb_ids evs) ->
     exists n, (cbcount s <= n < cbcount s')%nat /\ removed_by beh j n).
Proof.
  intros Q E. unfold run_watchers in E.
  destruct (is_wk k) eqn:Hk.
  - set (s1 := set_lq (wq_set s k []) (wq_get s k)) in *.
    assert (HG : forall j, hget s1 j = hget s j).
    { intros j. apply hget_hs. subst s1. lcbn. apply hs_wq_set. }
    assert (WQ : forall k', wq_get s1 k' = if hkind_eq_dec k k' then [] else wq_get s k').
    { intros k'. subst s1. rewrite wq_get_set_lq. destruct (hkind_eq_dec k k') as [<-|Hne].
      - apply wq_get_set_same; assumption.
      - apply wq_get_set_other; assumption. }
    assert (P1 : PInv k s1).
    { destruct Q as [Q1 Q2]. split; [split|split].
      - intros k' j Hj. rewrite HG. rewrite WQ in Hj.
        destruct (hkind_eq_dec k k'); [destruct Hj|auto].
      - intros k'. rewrite WQ. destruct (hkind_eq_dec k k'); [constructor|apply Q2].
      - subst s1. lcbn. apply Q2.
      - intros j Hj. subst s1. lcbn_in Hj. rewrite HG. destruct (Q1 k j Hj) as [A K].
        repeat split; auto. rewrite WQ. destruct (hkind_eq_dec k k); [intros []|congruence]. }
    assert (C1 : cbcount s1 = cbcount s).
    { subst s1. lcbn. pose proof (core_wq_set s k []) as C. unfold core in C. inversion C. reflexivity. }
    assert (LQ1 : lq s1 = wq_get s k) by reflexivity.
    destruct (run_lq_spec beh k tag (length (wq_get s k)) s1 s' evs Hk P1) as (P & Sub & C & M);
      [rewrite LQ1; lia|exact E|].
    rewrite LQ1 in Sub, M. rewrite C1 in C, M.
    split; [exact (proj1 P)|]. split; [|split; [exact Sub|split; [exact C|exact M]]].
    eapply subseq_nodup; [exact Sub|]. destruct Q as [_ Q2]. apply Q2.
  - rewrite (wq_get_nonwk s k Hk) in *. cbn [length run_lq] in E.
    inversion E; subst s' evs. rewrite (wq_set_nonwk s k [] Hk).
    split; [|repeat split; auto; try constructor; intros j []].
    eapply QInv_shrink with (X := noX); eauto.
    + intros k'. rewrite wq_get_set_lq. apply subseq_refl.
    + apply Fr_hs. reflexivity.
Qed.

(* exactly once: a handle queued at the start of the phase that no callback of
   the phase stops or closes is called exactly once *)
Theorem run_watchers_exactly_once s beh k tag s' evs i :
  QInv s -> run_watchers s beh k tag = (s', evs) ->
  In i (wq_get s k) ->
  (forall n, (cbcount s <= n < cbcount s')%nat -> ~ removed_by beh i n) ->
  count_occ Nat.eq_dec (cb_ids evs) i = 1%nat.
Proof.
  intros Q E Hi Hno.
  destruct (run_watchers_once s beh k tag s' evs Q E) as (_ & ND & _ & _ & M).
  assert (Hin : In i (cb_ids evs)).
  { destruct (in_dec Nat.eq_dec i (cb_ids evs)) as [H|H]; [exact H|].
    destruct (M i Hi H) as (n & Hr & Hb). exfalso. eapply Hno; eauto. }
  pose proof (proj1 (NoDup_count_occ Nat.eq_dec (cb_ids evs)) ND i) as Hle.
  apply (count_occ_In Nat.eq_dec) in Hin. lia.
Qed.

(* ================= the queue invariant through the other phases ================= *)
Lemma QInv_fr s s' : qs s' = qs s -> Fr noX s s' -> QInv s -> QInv s'.
Proof.
  intros Hq HF Q. eapply QInv_shrink with (X := noX); eauto.
  intros k. rewrite (qs_wq s s' k Hq). apply subseq_refl.
Qed.

Lemma QInv_same s s' : qs s' = qs s -> hs s' = hs s -> QInv s -> QInv s'.
Proof. intros Hq Hh. apply QInv_fr; [exact Hq|apply Fr_hs; exact Hh]. Qed.

Lemma callback_QInv s beh tag i : QInv s -> QInv (fst (callback s beh tag i)).
Proof. intros Q. exact (proj1 (callback_Pres KIdle s beh tag i eq_refl Q)). Qed.

Lemma lapi_QInv s o : QInv s -> QInv (fst (lapi s o)).
Proof. intros Q. exact (proj1 (lapi_Pres KIdle s o eq_refl Q)). Qed.

Lemma run_watchers_QInv s beh k tag : QInv s -> QInv (fst (run_watchers s beh k tag)).
Proof.
  intros Q. destruct (run_watchers s beh k tag) as [s' evs] eqn:E.
  exact (proj1 (run_watchers_once s beh k tag s' evs Q E)).
Qed.

Lemma run_wq_QInv l : forall s beh, QInv s -> QInv (fst (run_wq l s beh)).
Proof.
  induction l as [|w rest IH]; intros s beh Q; cbn [run_wq]; [exact Q|]. cbv zeta.
  set (s2 := set_works (set_nreq s (nreq s - 1)) _).
  assert (Q2 : QInv s2) by (apply (QInv_same s); [reflexivity|reflexivity|exact Q]).
  match goal with |- context [if ?c then _ else _] => destruct c end.
  - pose proof (callback_QInv s2 beh 5 w Q2) as Q3.
    destruct (callback s2 beh 5 w) as [s3 e1]. cbn [fst] in Q3.
    pose proof (IH s3 beh Q3) as Q4. destruct (run_wq rest s3 beh) as [s4 e2]. exact Q4.
  - pose proof (IH s2 beh Q2) as Q4. destruct (run_wq rest s2 beh) as [s4 e2]. exact Q4.
Qed.

Lemma run_alq_QInv fuel : forall s beh, QInv s -> QInv (fst (run_alq fuel s beh)).
Proof.
  induction fuel as [|f IH]; intros s beh Q; cbn [run_alq]; [exact Q|].
  destruct (alq s) as [|i rest]; [exact Q|]. cbv zeta.
  set (s2 := set_async (set_alq s rest) _).
  assert (Q2 : QInv s2) by (apply (QInv_same s); [reflexivity|reflexivity|exact Q]).
  assert (Q3 : QInv (upd_h s2 i (with_pending false))).
  { apply (QInv_fr s2); [reflexivity| |exact Q2]. apply Fr_upd_h_keep; auto. }
  match goal with |- context [if ?c then _ else _] => destruct c end;
    [match goal with |- context [if ?c then _ else _] => destruct c end|].
  - pose proof (callback_QInv _ beh 4 i Q3) as Q4.
    destruct (callback _ beh 4 i) as [s4 e1]. cbn [fst] in Q4.
    pose proof (IH s4 beh Q4) as Q5. destruct (run_alq f s4 beh) as [s5 e2]. exact Q5.
  - pose proof (IH _ beh Q3) as Q5. destruct (run_alq f _ beh) as [s5 e2]. exact Q5.
  - pose proof (IH _ beh Q2) as Q5. destruct (run_alq f _ beh) as [s5 e2]. exact Q5.
Qed.

Lemma io_poll_QInv s beh timeout : QInv s -> QInv (fst (io_poll s beh timeout)).
Proof.
  intros Q. unfold io_poll. destruct (efd s).
  - cbv zeta.
    match goal with |- context [if ?c then ?a else ?b] =>
      assert (Q1 : QInv (fst (if c then a else b)));
      [destruct c; cbn [fst]|destruct (if c then a else b) as [s2 e1]] end.
    + apply run_wq_QInv. apply (QInv_same s); [reflexivity|reflexivity|exact Q].
    + apply (QInv_same s); [reflexivity|reflexivity|exact Q].
    + cbn [fst] in Q1.
      match goal with |- context [run_alq ?n ?s0 beh] =>
        assert (Q2 : QInv (fst (run_alq n s0 beh)));
        [apply run_alq_QInv; apply (QInv_same s2); [reflexivity|reflexivity|exact Q1]
        |destruct (run_alq n s0 beh) as [s4 e2]] end.
      exact Q2.
  - repeat break_if; cbn [fst]; (apply (QInv_same s); [reflexivity|reflexivity|exact Q]).
Qed.

Lemma run_closing_QInv l : forall s beh, QInv s -> QInv (fst (run_closing l s beh)).
Proof.
  induction l as [|i rest IH]; intros s beh Q; cbn [run_closing]; [exact Q|]. cbv zeta.
  assert (Q2 : QInv (handle_unref (upd_h s i (with_closed true)) i)).
  { apply (QInv_fr s); [rewrite qs_handle_unref; reflexivity| |exact Q].
    apply Fr_trans with (b := upd_h s i (with_closed true)); [apply Fr_upd_h_keep; auto|apply Fr_handle_unref]. }
  pose proof (callback_QInv _ beh 6 i Q2) as Q3.
  destruct (callback _ beh 6 i) as [s3 e1]. cbn [fst] in Q3.
  pose proof (IH s3 beh Q3) as Q4. destruct (run_closing rest s3 beh) as [s4 e2]. exact Q4.
Qed.

(* ================= one iteration: no watcher is called twice ================= *)
(* the handles called with tag t *)
Definition ids_of (t : nat) (evs : list levent) : list nat :=
  map snd (filter (fun p => Nat.eqb (fst p) t) (cbs evs)).

Lemma ids_of_app t a b : ids_of t (a ++ b) = ids_of t a ++ ids_of t b.
Proof. unfold ids_of. rewrite cbs_app, filter_app, map_app. reflexivity. Qed.

Lemma ids_of_same t evs : Forall (eq t) (cb_tags evs) -> ids_of t evs = cb_ids evs.
Proof.
  unfold ids_of, cb_tags, cb_ids. induction (cbs evs) as [|p l IH]; cbn; intros H; [reflexivity|].
  inversion H; subst. rewrite Nat.eqb_refl. cbn. rewrite IH by assumption. reflexivity.
Qed.

Lemma ids_of_other t (P : nat -> Prop) evs :
  Forall P (cb_tags evs) -> (forall t', P t' -> t' <> t) -> ids_of t evs = [].
Proof.
  unfold ids_of, cb_tags. induction (cbs evs) as [|p l IH]; cbn; intros H HP; [reflexivity|].
  inversion H; subst. destruct (Nat.eqb_spec (fst p) t) as [E|E].
  - exfalso. eapply HP; eauto.
  - apply IH; assumption.
Qed.

Theorem iteration_once s beh mode s' evs :
  QInv s -> iteration s beh mode = (s', evs) ->
  exists s1 e1 s2 e2 s3 e3,
    run_watchers s beh KIdle 1 = (s1, e1) /\
    run_watchers s1 beh KPrepare 2 = (s2, e2) /\
    io_poll (set_dirty s2 false) beh (poll_timeout s s2 mode) = (s3, e3) /\
    NoDup (ids_of 1 evs) /\ subseq (ids_of 1 evs) (idle_q s) /\
    NoDup (ids_of 2 evs) /\ subseq (ids_of 2 evs) (prepare_q s1) /\
    NoDup (ids_of 3 evs) /\ subseq (ids_of 3 evs) (check_q s3).
Proof.
  intros Q E. destruct (iteration_phases _ _ _ _ _ E)
    as (s1 & e1 & s2 & e2 & s3 & e3 & s4 & e4 & s5 & e5 & e6 & H1 & H2 & H3 & H4 & H5 & H6 & ->).
  exists s1, e1, s2, e2, s3, e3. split; [exact H1|]. split; [exact H2|]. split; [exact H3|].
  destruct (run_watchers_once s beh KIdle 1 s1 e1 Q H1) as (Q1 & N1 & S1 & _).
  destruct (run_watchers_once s1 beh KPrepare 2 s2 e2 Q1 H2) as (Q2 & N2 & S2 & _).
  assert (Q3 : QInv s3).
  { rewrite <- (fst_eq _ _ _ H3). apply io_poll_QInv.
    apply (QInv_same s2); [reflexivity|reflexivity|exact Q2]. }
  destruct (run_watchers_once s3 beh KCheck 3 s4 e4 Q3 H4) as (Q4 & N4 & S4 & _).
  pose proof (run_watchers_tags s beh KIdle 1) as T1. rewrite H1 in T1. cbn [snd] in T1.
  pose proof (run_watchers_tags s1 beh KPrepare 2) as T2. rewrite H2 in T2. cbn [snd] in T2.
  pose proof (io_poll_tags (set_dirty s2 false) beh (poll_timeout s s2 mode)) as T3.
  rewrite H3 in T3. cbn [snd] in T3.
  pose proof (run_watchers_tags s3 beh KCheck 3) as T4. rewrite H4 in T4. cbn [snd] in T4.
  pose proof (run_closing_tags (closing s4) (set_closing s4 []) beh) as T5.
  rewrite H5 in T5. cbn [snd] in T5.
  pose proof (l_run_timers_tags (update_time s5) beh) as T6. rewrite H6 in T6. cbn [snd] in T6.
  assert (I1 : ids_of 1 (e1 ++ e2 ++ e3 ++ e4 ++ e5 ++ e6) = cb_ids e1).
  { rewrite !ids_of_app. rewrite (ids_of_same 1 e1 T1).
    rewrite (ids_of_other 1 _ e2 T2) by (intros ? <-; discriminate).
    rewrite (ids_of_other 1 _ e3 T3) by (intros ? [-> | ->]; discriminate).
    rewrite (ids_of_other 1 _ e4 T4) by (intros ? <-; discriminate).
    rewrite (ids_of_other 1 _ e5 T5) by (intros ? <-; discriminate).
    rewrite (ids_of_other 1 _ e6 T6) by (intros ? <-; discriminate).
    rewrite !app_nil_r. reflexivity. }
  assert (I2 : ids_of 2 (e1 ++ e2 ++ e3 ++ e4 ++ e5 ++ e6) = cb_ids e2).
  { rewrite !ids_of_app. rewrite (ids_of_same 2 e2 T2).
    rewrite (ids_of_other 2 _ e1 T1) by (intros ? <-; discriminate).
    rewrite (ids_of_other 2 _ e3 T3) by (intros ? [-> | ->]; discriminate).
    rewrite (ids_of_other 2 _ e4 T4) by (intros ? <-; discriminate).
    rewrite (ids_of_other 2 _ e5 T5) by (intros ? <-; discriminate).
    rewrite (ids_of_other 2 _ e6 T6) by (intros ? <-; discriminate).
    rewrite !app_nil_r. reflexivity. }
  assert (I3 : ids_of 3 (e1 ++ e2 ++ e3 ++ e4 ++ e5 ++ e6) = cb_ids e4).
  { rewrite !ids_of_app. rewrite (ids_of_same 3 e4 T4).
    rewrite (ids_of_other 3 _ e1 T1) by (intros ? <-; discriminate).
    rewrite (ids_of_other 3 _ e2 T2) by (intros ? <-; discriminate).
    rewrite (ids_of_other 3 _ e3 T3) by (intros ? [-> | ->]; discriminate).
    rewrite (ids_of_other 3 _ e5 T5) by (intros ? <-; discriminate).
    rewrite (ids_of_other 3 _ e6 T6) by (intros ? <-; discriminate).
    rewrite !app_nil_r. reflexivity. }
  rewrite I1, I2, I3. repeat split; assumption.
Qed.
