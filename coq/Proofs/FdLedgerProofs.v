(* C15 - proofs about the descriptor ledger (Model/FdLedger.v). *)
From UV Require Import Lib.Base Model.FdLedger.
Arguments lowest_free : simpl never.

(* ------------------------------------------------------------------ *)
(* equality tests                                                       *)
(* ------------------------------------------------------------------ *)
Lemma lslot_eqb_eq a b : lslot_eqb a b = true <-> a = b.
Proof. destruct a, b; cbn; split; congruence. Qed.

Lemma hslot_eqb_eq a b : hslot_eqb a b = true <-> a = b.
Proof.
  destruct a, b; cbn; split; try congruence.
  - intros H; apply Nat.eqb_eq in H; congruence.
  - intros H; inversion H; apply Nat.eqb_refl.
Qed.

Lemma owner_eqb_eq a b : owner_eqb a b = true <-> a = b.
Proof.
  destruct a, b; cbn; split; try congruence; intros H.
  - apply Nat.eqb_eq in H; congruence.
  - inversion H; apply Nat.eqb_refl.
  - apply andb_true_iff in H; destruct H as [H1 H2].
    apply Nat.eqb_eq in H1; apply lslot_eqb_eq in H2; congruence.
  - inversion H; subst. rewrite Nat.eqb_refl. cbn. apply lslot_eqb_eq; reflexivity.
  - apply andb_true_iff in H; destruct H as [H1 H2].
    apply Nat.eqb_eq in H1; apply hslot_eqb_eq in H2; congruence.
  - inversion H; subst. rewrite Nat.eqb_refl. cbn. apply hslot_eqb_eq; reflexivity.
  - apply Bool.eqb_prop in H; congruence.
  - inversion H; destruct w0; reflexivity.
  - apply Nat.eqb_eq in H; congruence.
  - inversion H; apply Nat.eqb_refl.
Qed.

Lemma own_is_true o x : own_is o x = true <-> x = o.
Proof. unfold own_is. apply owner_eqb_eq. Qed.

Lemma own_is_refl o : own_is o o = true.
Proof. apply own_is_true; reflexivity. Qed.

(* ------------------------------------------------------------------ *)
(* which owner tags occur in a ledger                                   *)
(* ------------------------------------------------------------------ *)
Definition present (L : ledger) (o : owner) : Prop :=
  exists fd e, In (fd, e) L /\ e_owner e = o.

Lemma present_cons fd e L o :
  present ((fd, e) :: L) o <-> e_owner e = o \/ present L o.
Proof.
  unfold present; split.
  - intros (fd' & e' & [H | H] & Ho).
    + inversion H; subst; auto.
    + right; eauto.
  - intros [H | (fd' & e' & H & Ho)].
    + exists fd, e; split; [left; reflexivity | exact H].
    + exists fd', e'; split; [right; exact H | exact Ho].
Qed.

Lemma present_nil o : ~ present [] o.
Proof. intros (fd & e & [] & _). Qed.

Lemma alloc_present : forall os L cx L' fds o,
  alloc L os cx = (L', fds) -> present L' o -> present L o \/ In o os.
Proof.
  induction os as [|o1 r IH]; intros L cx L' fds o H Hp; cbn in H.
  - inversion H; subst; auto.
  - destruct (alloc ((lowest_free L, mkE o1 cx true) :: L) r cx) as [L2 f2] eqn:E.
    inversion H; subst.
    destruct (IH _ _ _ _ o E Hp) as [Hq | Hq].
    + apply present_cons in Hq; cbn in Hq. destruct Hq; [right; left; auto | left; auto].
    + right; right; auto.
Qed.

Lemma close_if_present : forall p g L L' ev o,
  close_if p g L = (L', ev) -> present L' o ->
  (present L o /\ p o = false) \/ (g = true /\ o = OUser).
Proof.
  induction L as [|[fd e] r IH]; intros L' ev o H Hp; cbn in H.
  - inversion H; subst. destruct (present_nil _ Hp).
  - destruct (close_if p g r) as [r' ev'] eqn:E.
    destruct (p (e_owner e)) eqn:Ep.
    + destruct (g && Nat.leb fd 2) eqn:Eg; inversion H; subst.
      * apply present_cons in Hp; cbn in Hp. destruct Hp as [Hp | Hp].
        -- right. apply andb_true_iff in Eg. destruct Eg; auto.
        -- destruct (IH _ _ o eq_refl Hp) as [[Hq Hf] | Hq]; [left; split; auto | right; auto].
           apply present_cons; auto.
      * destruct (IH _ _ o eq_refl Hp) as [[Hq Hf] | Hq]; [left; split; auto | right; auto].
        apply present_cons; auto.
    + inversion H; subst. apply present_cons in Hp. destruct Hp as [Hp | Hp].
      * left; split; [apply present_cons; auto | congruence].
      * destruct (IH _ _ o eq_refl Hp) as [[Hq Hf] | Hq]; [left; split; auto | right; auto].
        apply present_cons; auto.
Qed.

Lemma relabel_present f L o :
  present (relabel f L) o -> exists o0, present L o0 /\ f o0 = o.
Proof.
  unfold relabel. intros (fd & e & Hin & Ho).
  apply in_map_iff in Hin. destruct Hin as (x & Heq & Hin0). destruct x as [n0 e0].
  cbn in Heq. injection Heq as H1 H2. subst fd e. cbn.
  exists (e_owner e0). split; [exists n0, e0; auto | exact Ho].
Qed.

Lemma adopt_present : forall fd o' L L' x o,
  adopt fd o' L = (L', x) -> present L' o -> present L o \/ o = o'.
Proof.
  induction L as [|[n e] r IH]; intros L' x o H Hp; cbn in H.
  - inversion H; subst. destruct (present_nil _ Hp).
  - destruct (Nat.eqb n fd && is_user (e_owner e)).
    + inversion H; subst. apply present_cons in Hp; cbn in Hp. destruct Hp as [Hp | Hp]; auto.
      left. apply present_cons; auto.
    + destruct (adopt fd o' r) as [r' x'] eqn:E. inversion H; subst.
      apply present_cons in Hp. destruct Hp as [Hp | Hp].
      * left; apply present_cons; auto.
      * destruct (IH _ _ o eq_refl Hp); auto. left; apply present_cons; auto.
Qed.

Lemma adopt_none : forall fd o' L L', adopt fd o' L = (L', None) -> L' = L.
Proof.
  induction L as [|[n e] r IH]; intros L' H; cbn in H.
  - inversion H; auto.
  - destruct (Nat.eqb n fd && is_user (e_owner e)); [inversion H|].
    destruct (adopt fd o' r) as [r' x'] eqn:E. inversion H; subst. f_equal. apply IH; reflexivity.
Qed.

Lemma remove_fd_incl fd L : incl (remove_fd fd L) L.
Proof.
  induction L as [|[n e] r IH]; cbn; [apply incl_refl|].
  destruct (Nat.eqb n fd).
  - apply incl_tl, incl_refl.
  - intros x [Hx | Hx]; [left; auto | right; apply IH; auto].
Qed.

Lemma remove_fd_present fd L o : present (remove_fd fd L) o -> present L o.
Proof. intros (n & e & H & Ho). exists n, e; split; auto. apply (remove_fd_incl fd L); auto. Qed.

Lemma user_close_incl : forall sel L L' ev, user_close sel L = (L', ev) -> incl L' L.
Proof.
  induction L as [|[fd e] r IH]; intros L' ev H; cbn in H.
  - inversion H; apply incl_refl.
  - destruct (user_close sel r) as [r' ev'] eqn:E.
    destruct (sel fd (e_owner e) && is_user (e_owner e)); inversion H; subst.
    + apply incl_tl. eapply IH; reflexivity.
    + intros x [Hx | Hx]; [left; auto | right; eapply IH; eauto].
Qed.

Lemma user_close_present sel L L' ev o :
  user_close sel L = (L', ev) -> present L' o -> present L o.
Proof.
  intros H (n & e & Hin & Ho). exists n, e; split; auto. eapply user_close_incl; eauto.
Qed.

Lemma has_false p L :
  existsb (fun x => p (e_owner (snd x))) L = false -> forall o, present L o -> p o = false.
Proof.
  intros H o (fd & e & Hin & Ho).
  destruct (p o) eqn:E; auto.
  assert (existsb (fun x => p (e_owner (snd x))) L = true).
  { apply existsb_exists. exists (fd, e); split; auto. cbn. rewrite Ho; auto. }
  congruence.
Qed.

(* ------------------------------------------------------------------ *)
(* abstract execution over sets of owner tags                           *)
(* ------------------------------------------------------------------ *)
Fixpoint post {A} (p : prog A) (W : owner -> Prop) (Q : A -> (owner -> Prop) -> Prop) : Prop :=
  match p with
  | Ret a => Q a W
  | Create k os cx c =>
      post (c AOk) (fun o => W o \/ In o os) Q /\ post (c AEmfile) W Q /\ post (c AOther) W Q
  | CloseIf p g c => post c (fun o => (W o /\ p o = false) \/ (g = true /\ o = OUser)) Q
  | Relabel f c => post c (fun o => exists o0, W o0 /\ f o0 = o) Q
  | Adopt fd o' c => post (c true) (fun o => W o \/ o = o') Q /\ post (c false) W Q
  | Has p c => post (c true) W Q /\ post (c false) (fun o => W o /\ p o = false) Q
  | Count p c => forall n, post (c n) W Q
  | FdOf o c => forall x, post (c x) W Q
  | RawClose fd c => post c W Q
  | UserClose sel c => post c W Q
  | UserAdd fd cx c => post c (fun o => W o \/ o = OUser) Q
  end.

Lemma post_sound {A} (p : prog A) : forall W Q s,
  post p W Q -> (forall o, present (i_led s) o -> W o) ->
  exists W' : owner -> Prop, (forall o, present (i_led (snd (run_prog p s))) o -> W' o) /\ Q (fst (run_prog p s)) W'.
Proof.
  induction p as [a | k os cx c IH | p g c IH | f c IH | fd o' c IH | p c IH | p c IH | ow c IH
                 | fd c IH | sel c IH | fd cx c IH]; intros W Q s Hp Hs; cbn in Hp |- *.
  - exists W; auto.
  - destruct Hp as (H1 & H2 & H3).
    destruct (next_ans (i_orc s)) as [a orc].
    destruct a.
    + destruct (alloc (i_led s) os cx) as [L fds] eqn:E.
      apply (IH AOk _ _ _ H1). cbn. intros o Ho.
      destruct (alloc_present _ _ _ _ _ o E Ho); auto.
    + apply (IH AEmfile _ _ _ H2). cbn; auto.
    + apply (IH AOther _ _ _ H3). cbn; auto.
  - destruct (close_if p g (i_led s)) as [L ev] eqn:E.
    apply (IH _ _ _ Hp). cbn. intros o Ho.
    destruct (close_if_present _ _ _ _ _ o E Ho) as [[H1 H2] | H1]; auto.
  - apply (IH _ _ _ Hp). cbn. intros o Ho.
    destruct (relabel_present _ _ _ Ho) as (o0 & H1 & H2). exists o0; auto.
  - destruct Hp as (H1 & H2).
    destruct (adopt fd o' (i_led s)) as [L x] eqn:E. destruct x as [from|].
    + apply (IH true _ _ _ H1). cbn. intros o Ho.
      destruct (adopt_present _ _ _ _ _ o E Ho); auto.
    + apply (IH false _ _ _ H2). auto.
  - destruct Hp as (H1 & H2).
    destruct (existsb (fun x => p (e_owner (snd x))) (i_led s)) eqn:E.
    + apply (IH true _ _ _ H1); auto.
    + apply (IH false _ _ _ H2). intros o Ho. split; auto. eapply has_false; eauto.
  - apply (IH _ _ _ _ (Hp _)); auto.
  - apply (IH _ _ _ _ (Hp _)); auto.
  - apply (IH _ _ _ Hp). cbn. intros o Ho. apply Hs. eapply remove_fd_present; eauto.
  - destruct (user_close sel (i_led s)) as [L ev] eqn:E.
    apply (IH _ _ _ Hp). cbn. intros o Ho. apply Hs. eapply user_close_present; eauto.
  - apply (IH _ _ _ Hp). cbn. intros o Ho.
    destruct (memb fd (dom (i_led s))); auto.
    apply present_cons in Ho; cbn in Ho. destruct Ho; auto.
Qed.

(* weakening of the abstract state and of the postcondition *)
Lemma post_mono {A} (p : prog A) : forall (W W' : owner -> Prop) (Q Q' : A -> (owner -> Prop) -> Prop),
  (forall o, W' o -> W o) ->
  (forall a (T T' : owner -> Prop), (forall o, T' o -> T o) -> Q a T -> Q' a T') ->
  post p W Q -> post p W' Q'.
Proof.
  induction p as [a | k os cx c IH | p g c IH | f c IH | fd o' c IH | p c IH | p c IH | ow c IH
                 | fd c IH | sel c IH | fd cx c IH]; intros W W' Q Q' HS HQ Hp; cbn in Hp |- *.
  - eapply HQ; eauto.
  - destruct Hp as (H1 & H2 & H3). repeat split.
    + eapply IH; [| exact HQ | exact H1]. cbn; intros o [H | H]; auto.
    + eapply IH; eauto.
    + eapply IH; eauto.
  - eapply IH; [| exact HQ | exact Hp]. cbn; intros o [[H1 H2] | H]; auto.
  - eapply IH; [| exact HQ | exact Hp]. cbn; intros o (o0 & H1 & H2); eauto.
  - destruct Hp as (H1 & H2). split.
    + eapply IH; [| exact HQ | exact H1]. cbn; intros o [H | H]; auto.
    + eapply IH; eauto.
  - destruct Hp as (H1 & H2). split.
    + eapply IH; eauto.
    + eapply IH; [| exact HQ | exact H2]. cbn; intros o [H3 H4]; auto.
  - intros n. eapply IH; eauto.
  - intros x. eapply IH; eauto.
  - eapply IH; eauto.
  - eapply IH; eauto.
  - eapply IH; [| exact HQ | exact Hp]. cbn; intros o [H | H]; auto.
Qed.

(* ------------------------------------------------------------------ *)
(* the ownership invariant                                              *)
(* ------------------------------------------------------------------ *)
(* which owner tags may occur in the table, given libuv's own state *)
Definition okown (m : mstate) (o : owner) : Prop :=
  match o with
  | OUser | OGiven _ => True
  | OProc _ => m_ginit m = true
  | OLoop l s => m_loop m = Some l \/ (s = SBackend /\ In l (m_leaked m))
  | OHandle h s => hok m h s = true
  | OTemp _ => False
  end.

Definition minv (m : mstate) : Prop :=
  (m_fixed m = true -> m_leaked m = []) /\ (m_loop m <> None -> m_ginit m = true) /\
  (m_loop m = None -> forall h, is_open m h = false).

Definition Qop (m : mstate) (o : op) (r : mstate * nat) (W : owner -> Prop) : Prop :=
  (forall ow, W ow -> okown (fst r) ow) /\ minv (fst r) /\
  (o = OLoopClose -> snd r = RC_OK -> m_loop (fst r) = None) /\
  m_fixed (fst r) = m_fixed m.

Lemma hok_add m t st h s :
  hok m h s = true -> hok (add_handle m t st) h s = true.
Proof.
  unfold hok, is_open, ty_of, hstate_of, add_handle; cbn.
  destruct (nth_error (m_handles m) h) eqn:E; [|discriminate].
  rewrite nth_error_app1; [rewrite E; auto|].
  apply nth_error_Some; congruence.
Qed.

Lemma hok_add_new m t s :
  hok (add_handle m t HOpen) (length (m_handles m)) s = slot_ok t s.
Proof.
  unfold hok, is_open, ty_of, hstate_of, add_handle; cbn.
  rewrite nth_error_app2 by lia. rewrite Nat.sub_diag. reflexivity.
Qed.

Lemma is_open_add_none m t st :
  (forall h, is_open m h = false) -> st <> HOpen -> forall h, is_open (add_handle m t st) h = false.
Proof.
  intros H Hst h. specialize (H h). unfold is_open, hstate_of, add_handle in *; cbn.
  destruct (Nat.lt_ge_cases h (length (m_handles m))).
  - rewrite nth_error_app1 by auto. exact H.
  - rewrite nth_error_app2 by auto. destruct (h - length (m_handles m)) as [|k]; cbn.
    + destruct st; auto; congruence.
    + destruct k; reflexivity.
Qed.

Lemma hok_sethst_other m h st h' s :
  h' <> h -> hok (set_hst m h st) h' s = hok m h' s.
Proof.
  intros Hne. unfold hok, is_open, ty_of, hstate_of, set_hst; cbn.
  rewrite nth_error_upd_other by congruence. reflexivity.
Qed.

Lemma is_open_sethst m h st h' :
  st <> HOpen -> is_open m h' = false -> is_open (set_hst m h st) h' = false.
Proof.
  intros Hst. unfold is_open, hstate_of, set_hst; cbn.
  destruct (Nat.eq_dec h h') as [->|Hne].
  - destruct (nth_error (m_handles m) h') as [r|] eqn:E.
    + rewrite (nth_error_upd_same _ _ _ _ E). destruct st; auto; congruence.
    + intros _. assert (nth_error (upd h' (fun r => mkH (h_ty r) st) (m_handles m)) h' = None).
      { apply nth_error_None. rewrite upd_length. apply nth_error_None; auto. }
      rewrite H; reflexivity.
  - rewrite nth_error_upd_other by congruence. auto.
Qed.

Definition run_closing (m : mstate) : mstate :=
  set_handles m (map (fun r => match h_st r with HClosing => mkH (h_ty r) HClosed | _ => r end)
                     (m_handles m)).

Lemma hok_run m h s : hok (run_closing m) h s = hok m h s.
Proof.
  unfold hok, is_open, ty_of, hstate_of, run_closing; cbn. rewrite nth_error_map.
  destruct (nth_error (m_handles m) h) as [[t st]|]; cbn; auto. destruct st; auto.
Qed.

Lemma is_open_run m h : is_open (run_closing m) h = is_open m h.
Proof.
  unfold is_open, hstate_of, run_closing; cbn. rewrite nth_error_map.
  destruct (nth_error (m_handles m) h) as [[t st]|]; cbn; auto. destruct st; auto.
Qed.

Ltac decode :=
  repeat match goal with
  | H : _ /\ _ |- _ => destruct H
  | H : _ \/ _ |- _ => destruct H
  | H : exists _, _ |- _ => destruct H
  | H : In _ (_ :: _) |- _ => cbn [In] in H
  | H : In _ [] |- _ => destruct H
  | H : False |- _ => destruct H
  | H : true = false |- _ => discriminate H
  | H : false = true |- _ => discriminate H
  | H : own_is ?a ?a = false |- _ => rewrite own_is_refl in H; discriminate H
  | H : ?a = ?o |- _ => is_var o; subst o
  | H : ?o = ?a |- _ => is_var o; subst o
  end.

(* an owner that was fine before stays fine when libuv's state only grows *)
Lemma okown_ext m m' o :
  (m_ginit m = true -> m_ginit m' = true) ->
  m_loop m' = m_loop m ->
  incl (m_leaked m) (m_leaked m') ->
  (forall h s, hok m h s = true -> hok m' h s = true) ->
  okown m o -> okown m' o.
Proof.
  intros Hg Hl Hk Hh. destruct o; cbn; auto.
  rewrite Hl. intros [H | [H1 H2]]; auto.
Qed.

Lemma minv_ext m m' :
  m_fixed m' = m_fixed m -> m_leaked m' = m_leaked m ->
  m_loop m' = m_loop m -> (m_ginit m = true -> m_ginit m' = true) ->
  (m_loop m = None -> forall h, is_open m' h = false) ->
  minv m -> minv m'.
Proof.
  intros Hf Hk Hl Hg Hh (H1 & H2 & H3). repeat split.
  - rewrite Hf, Hk; auto.
  - rewrite Hl; auto.
  - rewrite Hl; auto.
Qed.

Lemma all_closed_not_open m :
  all_closed (m_handles m) = true -> forall h, is_open m h = false.
Proof.
  unfold all_closed, is_open, hstate_of. intros H h.
  destruct (nth_error (m_handles m) h) as [[t st]|] eqn:E; auto.
  apply nth_error_In in E. rewrite forallb_forall in H. specialize (H _ E). cbn in H.
  destruct st; auto; discriminate.
Qed.

Lemma is_open_nil m h : m_handles m = [] -> is_open m h = false.
Proof. unfold is_open, hstate_of. intros ->. destruct h; reflexivity. Qed.
