(* C15 - proofs about the descriptor ledger (Model/FdLedger.v). *)
From UV Require Import Lib.Base Model.FdLedger.
Arguments lowest_free : simpl never.

(* ------------------------------------------------------------------ *)
(* equality tests                                                       *)
(* ------------------------------------------------------------------ *)
Lemma lslot_eqb_eq a b : lslot_eqb a b = true <-> a = b.
Proof. destruct a, b; cbn; split; congruence. Qed.

Lemma hslot_eqb_eq a b : hslot_eqb a b = true <-> a = b.
Proof.
  destruct a, b; cbn; split; try congruence.
  - intros H; apply Nat.eqb_eq in H; congruence.
  - intros H; inversion H; apply Nat.eqb_refl.
Qed.

Lemma owner_eqb_eq a b : owner_eqb a b = true <-> a = b.
Proof.
  destruct a, b; cbn; split; try congruence; intros H.
  - apply Nat.eqb_eq in H; congruence.
  - inversion H; apply Nat.eqb_refl.
  - apply andb_true_iff in H; destruct H as [H1 H2].
    apply Nat.eqb_eq in H1; apply lslot_eqb_eq in H2; congruence.
  - inversion H; subst. rewrite Nat.eqb_refl. cbn. apply lslot_eqb_eq; reflexivity.
  - apply andb_true_iff in H; destruct H as [H1 H2].
    apply Nat.eqb_eq in H1; apply hslot_eqb_eq in H2; congruence.
  - inversion H; subst. rewrite Nat.eqb_refl. cbn. apply hslot_eqb_eq; reflexivity.
  - apply Bool.eqb_prop in H; congruence.
  - inversion H; destruct w0; reflexivity.
  - apply Nat.eqb_eq in H; congruence.
  - inversion H; apply Nat.eqb_refl.
Qed.

Lemma own_is_true o x : own_is o x = true <-> x = o.
Proof. unfold own_is. apply owner_eqb_eq. Qed.

Lemma own_is_refl o : own_is o o = true.
Proof. apply own_is_true; reflexivity. Qed.

(* ------------------------------------------------------------------ *)
(* which owner tags occur in a ledger                                   *)
(* ------------------------------------------------------------------ *)
Definition present (L : ledger) (o : owner) : Prop :=
  exists fd e, In (fd, e) L /\ e_owner e = o.

Lemma present_cons fd e L o :
  present ((fd, e) :: L) o <-> e_owner e = o \/ present L o.
Proof.
  unfold present; split.
  - intros (fd' & e' & [H | H] & Ho).
    + inversion H; subst; auto.
    + right; eauto.
  - intros [H | (fd' & e' & H & Ho)].
    + exists fd, e; split; [left; reflexivity | exact H].
    + exists fd', e'; split; [right; exact H | exact Ho].
Qed.

Lemma present_nil o : ~ present [] o.
Proof. intros (fd & e & [] & _). Qed.

Lemma alloc_present : forall os L cx L' fds o,
  alloc L os cx = (L', fds) -> present L' o -> present L o \/ In o os.
Proof.
  induction os as [|o1 r IH]; intros L cx L' fds o H Hp; cbn in H.
  - inversion H; subst; auto.
  - destruct (alloc ((lowest_free L, mkE o1 cx true) :: L) r cx) as [L2 f2] eqn:E.
    inversion H; subst.
    destruct (IH _ _ _ _ o E Hp) as [Hq | Hq].
    + apply present_cons in Hq; cbn in Hq. destruct Hq; [right; left; auto | left; auto].
    + right; right; auto.
Qed.

Lemma close_if_present : forall p g L L' ev o,
  close_if p g L = (L', ev) -> present L' o ->
  (present L o /\ p o = false) \/ (g = true /\ o = OUser).
Proof.
  induction L as [|[fd e] r IH]; intros L' ev o H Hp; cbn in H.
  - inversion H; subst. destruct (present_nil _ Hp).
  - destruct (close_if p g r) as [r' ev'] eqn:E.
    destruct (p (e_owner e)) eqn:Ep.
    + destruct (g && Nat.leb fd 2) eqn:Eg; inversion H; subst.
      * apply present_cons in Hp; cbn in Hp. destruct Hp as [Hp | Hp].
        -- right. apply andb_true_iff in Eg. destruct Eg; auto.
        -- destruct (IH _ _ o eq_refl Hp) as [[Hq Hf] | Hq]; [left; split; auto | right; auto].
           apply present_cons; auto.
      * destruct (IH _ _ o eq_refl Hp) as [[Hq Hf] | Hq]; [left; split; auto | right; auto].
        apply present_cons; auto.
    + inversion H; subst. apply present_cons in Hp. destruct Hp as [Hp | Hp].
      * left; split; [apply present_cons; auto | congruence].
      * destruct (IH _ _ o eq_refl Hp) as [[Hq Hf] | Hq]; [left; split; auto | right; auto].
        apply present_cons; auto.
Qed.

Lemma relabel_present f L o :
  present (relabel f L) o -> exists o0, present L o0 /\ f o0 = o.
Proof.
  unfold relabel. intros (fd & e & Hin & Ho).
  apply in_map_iff in Hin. destruct Hin as (x & Heq & Hin0). destruct x as [n0 e0].
  cbn in Heq. injection Heq as H1 H2. subst fd e. cbn.
  exists (e_owner e0). split; [exists n0, e0; auto | exact Ho].
Qed.

Lemma adopt_present : forall fd o' L L' x o,
  adopt fd o' L = (L', x) -> present L' o -> present L o \/ o = o'.
Proof.
  induction L as [|[n e] r IH]; intros L' x o H Hp; cbn in H.
  - inversion H; subst. destruct (present_nil _ Hp).
  - destruct (Nat.eqb n fd && is_user (e_owner e)).
    + inversion H; subst. apply present_cons in Hp; cbn in Hp. destruct Hp as [Hp | Hp]; auto.
      left. apply present_cons; auto.
    + destruct (adopt fd o' r) as [r' x'] eqn:E. inversion H; subst.
      apply present_cons in Hp. destruct Hp as [Hp | Hp].
      * left; apply present_cons; auto.
      * destruct (IH _ _ o eq_refl Hp); auto. left; apply present_cons; auto.
Qed.

Lemma adopt_none : forall fd o' L L', adopt fd o' L = (L', None) -> L' = L.
Proof.
  induction L as [|[n e] r IH]; intros L' H; cbn in H.
  - inversion H; auto.
  - destruct (Nat.eqb n fd && is_user (e_owner e)); [inversion H|].
    destruct (adopt fd o' r) as [r' x'] eqn:E. inversion H; subst. f_equal. apply IH; reflexivity.
Qed.

Lemma remove_fd_incl fd L : incl (remove_fd fd L) L.
Proof.
  induction L as [|[n e] r IH]; cbn; [apply incl_refl|].
  destruct (Nat.eqb n fd).
  - apply incl_tl, incl_refl.
  - intros x [Hx | Hx]; [left; auto | right; apply IH; auto].
Qed.

Lemma remove_fd_present fd L o : present (remove_fd fd L) o -> present L o.
Proof. intros (n & e & H & Ho). exists n, e; split; auto. apply (remove_fd_incl fd L); auto. Qed.

Lemma user_close_incl : forall sel L L' ev, user_close sel L = (L', ev) -> incl L' L.
Proof.
  induction L as [|[fd e] r IH]; intros L' ev H; cbn in H.
  - inversion H; apply incl_refl.
  - destruct (user_close sel r) as [r' ev'] eqn:E.
    destruct (sel fd (e_owner e) && is_user (e_owner e)); inversion H; subst.
    + apply incl_tl. eapply IH; reflexivity.
    + intros x [Hx | Hx]; [left; auto | right; eapply IH; eauto].
Qed.

Lemma user_close_present sel L L' ev o :
  user_close sel L = (L', ev) -> present L' o -> present L o.
Proof.
  intros H (n & e & Hin & Ho). exists n, e; split; auto. eapply user_close_incl; eauto.
Qed.

Lemma has_false p L :
  existsb (fun x => p (e_owner (snd x))) L = false -> forall o, present L o -> p o = false.
Proof.
  intros H o (fd & e & Hin & Ho).
  destruct (p o) eqn:E; auto.
  assert (existsb (fun x => p (e_owner (snd x))) L = true).
  { apply existsb_exists. exists (fd, e); split; auto. cbn. rewrite Ho; auto. }
  congruence.
Qed.

(* ------------------------------------------------------------------ *)
(* abstract execution over sets of owner tags                           *)
(* ------------------------------------------------------------------ *)
Fixpoint post {A} (p : prog A) (W : owner -> Prop) (Q : A -> (owner -> Prop) -> Prop) : Prop :=
  match p with
  | Ret a => Q a W
  | Create k os cx c =>
      post (c AOk) (fun o => W o \/ In o os) Q /\ post (c AEmfile) W Q /\ post (c AOther) W Q
  | CloseIf p g c => post c (fun o => (W o /\ p o = false) \/ (g = true /\ o = OUser)) Q
  | Relabel f c => post c (fun o => exists o0, W o0 /\ f o0 = o) Q
  | Adopt fd o' c => post (c true) (fun o => W o \/ o = o') Q /\ post (c false) W Q
  | Has p c => post (c true) W Q /\ post (c false) (fun o => W o /\ p o = false) Q
  | Count p c => forall n, post (c n) W Q
  | FdOf o c => forall x, post (c x) W Q
  | RawClose fd c => post c W Q
  | UserClose sel c => post c W Q
  | UserAdd fd cx c => post c (fun o => W o \/ o = OUser) Q
  end.

Lemma post_sound {A} (p : prog A) : forall W Q s,
  post p W Q -> (forall o, present (i_led s) o -> W o) ->
  exists W' : owner -> Prop, (forall o, present (i_led (snd (run_prog p s))) o -> W' o) /\ Q (fst (run_prog p s)) W'.
Proof.
  induction p as [a | k os cx c IH | p g c IH | f c IH | fd o' c IH | p c IH | p c IH | ow c IH
                 | fd c IH | sel c IH | fd cx c IH]; intros W Q s Hp Hs; cbn in Hp |- *.
  - exists W; auto.
  - destruct Hp as (H1 & H2 & H3).
    destruct (next_ans (i_orc s)) as [a orc].
    destruct a.
    + destruct (alloc (i_led s) os cx) as [L fds] eqn:E.
      apply (IH AOk _ _ _ H1). cbn. intros o Ho.
      destruct (alloc_present _ _ _ _ _ o E Ho); auto.
    + apply (IH AEmfile _ _ _ H2). cbn; auto.
    + apply (IH AOther _ _ _ H3). cbn; auto.
  - destruct (close_if p g (i_led s)) as [L ev] eqn:E.
    apply (IH _ _ _ Hp). cbn. intros o Ho.
    destruct (close_if_present _ _ _ _ _ o E Ho) as [[H1 H2] | H1]; auto.
  - apply (IH _ _ _ Hp). cbn. intros o Ho.
    destruct (relabel_present _ _ _ Ho) as (o0 & H1 & H2). exists o0; auto.
  - destruct Hp as (H1 & H2).
    destruct (adopt fd o' (i_led s)) as [L x] eqn:E. destruct x as [from|].
    + apply (IH true _ _ _ H1). cbn. intros o Ho.
      destruct (adopt_present _ _ _ _ _ o E Ho); auto.
    + apply (IH false _ _ _ H2). auto.
  - destruct Hp as (H1 & H2).
    destruct (existsb (fun x => p (e_owner (snd x))) (i_led s)) eqn:E.
    + apply (IH true _ _ _ H1); auto.
    + apply (IH false _ _ _ H2). intros o Ho. split; auto. eapply has_false; eauto.
  - apply (IH _ _ _ _ (Hp _)); auto.
  - apply (IH _ _ _ _ (Hp _)); auto.
  - apply (IH _ _ _ Hp). cbn. intros o Ho. apply Hs. eapply remove_fd_present; eauto.
  - destruct (user_close sel (i_led s)) as [L ev] eqn:E.
    apply (IH _ _ _ Hp). cbn. intros o Ho. apply Hs. eapply user_close_present; eauto.
  - apply (IH _ _ _ Hp). cbn. intros o Ho.
    destruct (memb fd (dom (i_led s))); auto.
    apply present_cons in Ho; cbn in Ho. destruct Ho; auto.
Qed.

(* weakening of the abstract state and of the postcondition *)
Lemma post_mono {A} (p : prog A) : forall (W W' : owner -> Prop) (Q Q' : A -> (owner -> Prop) -> Prop),
  (forall o, W' o -> W o) ->
  (forall a (T T' : owner -> Prop), (forall o, T' o -> T o) -> Q a T -> Q' a T') ->
  post p W Q -> post p W' Q'.
Proof.
  induction p as [a | k os cx c IH | p g c IH | f c IH | fd o' c IH | p c IH | p c IH | ow c IH
                 | fd c IH | sel c IH | fd cx c IH]; intros W W' Q Q' HS HQ Hp; cbn in Hp |- *.
  - eapply HQ; eauto.
  - destruct Hp as (H1 & H2 & H3). repeat split.
    + eapply IH; [| exact HQ | exact H1]. cbn; intros o [H | H]; auto.
    + eapply IH; eauto.
    + eapply IH; eauto.
  - eapply IH; [| exact HQ | exact Hp]. cbn; intros o [[H1 H2] | H]; auto.
  - eapply IH; [| exact HQ | exact Hp]. cbn; intros o (o0 & H1 & H2); eauto.
  - destruct Hp as (H1 & H2). split.
    + eapply IH; [| exact HQ | exact H1]. cbn; intros o [H | H]; auto.
    + eapply IH; eauto.
  - destruct Hp as (H1 & H2). split.
    + eapply IH; eauto.
    + eapply IH; [| exact HQ | exact H2]. cbn; intros o [H3 H4]; auto.
  - intros n. eapply IH; eauto.
  - intros x. eapply IH; eauto.
  - eapply IH; eauto.
  - eapply IH; eauto.
  - eapply IH; [| exact HQ | exact Hp]. cbn; intros o [H | H]; auto.
Qed.

(* ------------------------------------------------------------------ *)
(* the ownership invariant                                              *)
(* ------------------------------------------------------------------ *)
(* which owner tags may occur in the table, given libuv's own state *)
Definition okown (m : mstate) (o : owner) : Prop :=
  match o with
  | OUser | OGiven _ => True
  | OProc _ => m_ginit m = true
  | OLoop l s => m_loop m = Some l \/ (s = SBackend /\ In l (m_leaked m))
  | OHandle h s => hok m h s = true
  | OTemp _ => False
  end.

Definition minv (m : mstate) : Prop :=
  (m_fixed m = true -> m_leaked m = []) /\ (m_loop m <> None -> m_ginit m = true) /\
  (m_loop m = None -> forall h, is_open m h = false).

Definition Qop (m : mstate) (o : op) (r : mstate * nat) (W : owner -> Prop) : Prop :=
  (forall ow, W ow -> okown (fst r) ow) /\ minv (fst r) /\
  (o = OLoopClose -> snd r = RC_OK -> m_loop (fst r) = None) /\
  m_fixed (fst r) = m_fixed m.

Lemma hok_add m t st h s :
  hok m h s = true -> hok (add_handle m t st) h s = true.
Proof.
  unfold hok, is_open, ty_of, hstate_of, add_handle; cbn.
  destruct (nth_error (m_handles m) h) eqn:E; [|discriminate].
  rewrite nth_error_app1; [rewrite E; auto|].
  apply nth_error_Some; congruence.
Qed.

Lemma hok_add_new m t s :
  hok (add_handle m t HOpen) (length (m_handles m)) s = slot_ok t s.
Proof.
  unfold hok, is_open, ty_of, hstate_of, add_handle; cbn.
  rewrite nth_error_app2 by lia. rewrite Nat.sub_diag. reflexivity.
Qed.

Lemma is_open_add_none m t st :
  (forall h, is_open m h = false) -> st <> HOpen -> forall h, is_open (add_handle m t st) h = false.
Proof.
  intros H Hst h. specialize (H h). unfold is_open, hstate_of, add_handle in *; cbn.
  destruct (Nat.lt_ge_cases h (length (m_handles m))).
  - rewrite nth_error_app1 by auto. exact H.
  - rewrite nth_error_app2 by auto. destruct (h - length (m_handles m)) as [|k]; cbn.
    + destruct st; auto; congruence.
    + destruct k; reflexivity.
Qed.

Lemma hok_sethst_other m h st h' s :
  h' <> h -> hok (set_hst m h st) h' s = hok m h' s.
Proof.
  intros Hne. unfold hok, is_open, ty_of, hstate_of, set_hst; cbn.
  rewrite nth_error_upd_other by congruence. reflexivity.
Qed.

Lemma is_open_sethst m h st h' :
  st <> HOpen -> is_open m h' = false -> is_open (set_hst m h st) h' = false.
Proof.
  intros Hst. unfold is_open, hstate_of, set_hst; cbn.
  destruct (Nat.eq_dec h h') as [->|Hne].
  - destruct (nth_error (m_handles m) h') as [r|] eqn:E.
    + rewrite (nth_error_upd_same _ _ _ _ E). destruct st; auto; congruence.
    + intros _. assert (nth_error (upd h' (fun r => mkH (h_ty r) st) (m_handles m)) h' = None).
      { apply nth_error_None. rewrite upd_length. apply nth_error_None; auto. }
      rewrite H; reflexivity.
  - rewrite nth_error_upd_other by congruence. auto.
Qed.

Definition run_closing (m : mstate) : mstate :=
  set_handles m (map (fun r => match h_st r with HClosing => mkH (h_ty r) HClosed | _ => r end)
                     (m_handles m)).

Lemma hok_run m h s : hok (run_closing m) h s = hok m h s.
Proof.
  unfold hok, is_open, ty_of, hstate_of, run_closing; cbn. rewrite nth_error_map.
  destruct (nth_error (m_handles m) h) as [[t st]|]; cbn; auto. destruct st; auto.
Qed.

Lemma is_open_run m h : is_open (run_closing m) h = is_open m h.
Proof.
  unfold is_open, hstate_of, run_closing; cbn. rewrite nth_error_map.
  destruct (nth_error (m_handles m) h) as [[t st]|]; cbn; auto. destruct st; auto.
Qed.

Ltac decode :=
  repeat match goal with
  | H : _ /\ _ |- _ => destruct H
  | H : _ \/ _ |- _ => destruct H
  | H : exists _, _ |- _ => destruct H
  | H : In _ (_ :: _) |- _ => cbn [In] in H
  | H : In _ [] |- _ => destruct H
  | H : False |- _ => destruct H
  | H : true = false |- _ => discriminate H
  | H : false = true |- _ => discriminate H
  | H : own_is ?a ?a = false |- _ => rewrite own_is_refl in H; discriminate H
  | H : ?a = ?o |- _ => is_var o; subst o
  | H : ?o = ?a |- _ => is_var o; subst o
  end.

(* an owner that was fine before stays fine when libuv's state only grows *)
Lemma okown_ext m m' o :
  (m_ginit m = true -> m_ginit m' = true) ->
  m_loop m' = m_loop m ->
  incl (m_leaked m) (m_leaked m') ->
  (forall h s, hok m h s = true -> hok m' h s = true) ->
  okown m o -> okown m' o.
Proof.
  intros Hg Hl Hk Hh. destruct o; cbn; auto.
  rewrite Hl. intros [H | [H1 H2]]; auto.
Qed.

Lemma minv_ext m m' :
  m_fixed m' = m_fixed m -> m_leaked m' = m_leaked m ->
  m_loop m' = m_loop m -> (m_ginit m = true -> m_ginit m' = true) ->
  (m_loop m = None -> forall h, is_open m' h = false) ->
  minv m -> minv m'.
Proof.
  intros Hf Hk Hl Hg Hh (H1 & H2 & H3). repeat split.
  - rewrite Hf, Hk; auto.
  - rewrite Hl; auto.
  - rewrite Hl; auto.
Qed.

Lemma all_closed_not_open m :
  all_closed (m_handles m) = true -> forall h, is_open m h = false.
Proof.
  unfold all_closed, is_open, hstate_of. intros H h.
  destruct (nth_error (m_handles m) h) as [[t st]|] eqn:E; auto.
  apply nth_error_In in E. rewrite forallb_forall in H. specialize (H _ E). cbn in H.
  destruct st; auto; discriminate.
Qed.

Lemma is_open_nil m h : m_handles m = [] -> is_open m h = false.
Proof. unfold is_open, hstate_of. intros ->. destruct h; reflexivity. Qed.
(* ------------------------------------------------------------------ *)
(* every operation keeps the ownership invariant                        *)
(* ------------------------------------------------------------------ *)
Ltac walk :=
  repeat first
    [ progress cbn -[okown own_is is_queued is_temp move shift_queue Qop is_open hok add_handle set_hst
                     all_closed run_closing]
    | progress unfold init_fail_tail, spawn_error_temps
    | match goal with
      | |- _ /\ _ => split
      | |- forall _, _ => intro
      | |- post (if ?b then _ else _) _ _ => destruct b eqn:?
      | |- post ((if ?b then _ else _) _) _ _ => destruct b eqn:?
      | |- post (match ?x with _ => _ end) _ _ => destruct x eqn:?
      end ].
Ltac leaf0 :=
  unfold Qop; cbn [fst snd];
  split; [intros ow Hw; decode
         | split; [| split; [intros; try discriminate; try reflexivity | try reflexivity]]].
Ltac side := cbn; auto using incl_refl, incl_tl, hok_add; try congruence; try (intros; congruence).
Ltac fin :=
  try assumption; try reflexivity;
  try (eapply okown_ext; [ | | | | eassumption]; side; fail);
  try (eapply minv_ext; [ | | | | | eassumption]; side; fail);
  try (cbn; left; congruence);
  try (exfalso; match goal with H : _ && false = true |- _ => rewrite andb_false_r in H; discriminate H end).

Lemma okown_new_handle m h t s :
  negb (Nat.eqb h (length (m_handles m))) = false -> slot_ok t s = true ->
  okown (add_handle m t HOpen) (OHandle h s).
Proof.
  intros H Hs. apply negb_false_iff, Nat.eqb_eq in H. subst h. cbn [okown].
  rewrite hok_add_new. exact Hs.
Qed.

Lemma okown_hok m h s : negb (hok m h s) = false -> okown m (OHandle h s).
Proof. intros H. apply negb_false_iff in H. exact H. Qed.

Lemma okown_hok_any m h s s' : negb (hok m h s) = false -> slot_ok (ty_of m h) s' = true -> okown m (OHandle h s').
Proof.
  intros H Hs. apply negb_false_iff in H. cbn. unfold hok in *.
  apply andb_true_iff in H. destruct H as [H _]. rewrite H, Hs. reflexivity.
Qed.

Lemma post_hinit m h t w : minv m -> post (op_hinit m h t w) (okown m) (Qop m (OHInit h t w)).
Proof.
  intros Hm. unfold op_hinit. walk; leaf0; fin; try (apply okown_new_handle; [assumption | reflexivity]).
Qed.

Lemma post_slurp m : minv m -> post (op_slurp m) (okown m) (Qop m OSlurp).
Proof. intros Hm. unfold op_slurp. walk; leaf0; fin. Qed.

Lemma post_ensure m h b : minv m -> post (op_ensure m h b) (okown m) (Qop m (OEnsure h b)).
Proof. intros Hm. unfold op_ensure. walk; leaf0; fin; try (apply okown_hok; assumption). Qed.

Lemma post_pipe_bind m h b : minv m -> post (op_pipe_bind m h b) (okown m) (Qop m (OPipeBind h b)).
Proof. intros Hm. unfold op_pipe_bind. walk; leaf0; fin; try (apply okown_hok; assumption). Qed.

Lemma move_cases a b o : (o = a /\ move a b o = b) \/ (own_is a o = false /\ move a b o = o).
Proof.
  unfold move, own_is. destruct (owner_eqb o a) eqn:E; auto.
  apply owner_eqb_eq in E; auto.
Qed.

Ltac unmove :=
  repeat match goal with
  | H : move ?a ?b ?o = _ |- _ =>
      let E := fresh in
      destruct (move_cases a b o) as [[? E] | [? E]]; rewrite E in H; clear E
  | |- context [move ?a ?b ?o] =>
      let E := fresh in
      destruct (move_cases a b o) as [[? E] | [? E]]; rewrite E; clear E
  end.

Lemma post_open m h src ok : minv m -> post (op_open m h src ok) (okown m) (Qop m (OOpen h src ok)).
Proof.
  intros Hm. unfold op_open. walk; leaf0; unmove; decode; fin; try (apply okown_hok; assumption).
Qed.

Lemma post_accept_shed m o l h : m_loop m = Some l -> hok m h HAcc = true -> minv m ->
  forall fuel (W : owner -> Prop), (forall ow, W ow -> okown m ow) ->
  post (accept_shed fuel l h m) W (Qop m o).
Proof.
  intros Hl Hh Hm. induction fuel as [|f IH]; intros W HW; walk;
    try (apply IH; intros ow Hw; decode; auto; fail); leaf0; fin; auto;
    try (apply okown_hok; rewrite Hh; reflexivity).
Qed.

Lemma post_srvio m h fuel : minv m -> post (op_srvio m h fuel) (okown m) (Qop m (OSrvIo h fuel)).
Proof.
  intros Hm. unfold op_srvio. walk;
    try (apply post_accept_shed; auto; [apply negb_false_iff; assumption | intros ow Hw; decode; auto]; fail);
    leaf0; fin; try (apply okown_hok; assumption).
Qed.

Lemma okown_shift m h o : okown m o -> okown m (shift_queue h o).
Proof.
  destruct o as [| | | h' s | |]; cbn; auto.
  destruct s as [| |k]; cbn; auto.
  destruct (Nat.eqb h h') eqn:E; cbn; auto.
  apply Nat.eqb_eq in E; subst h'.
  unfold hok. intros H. apply andb_true_iff in H. destruct H as [H1 H2].
  destruct k; cbn; unfold hok; rewrite H1; destruct (ty_of m h); cbn in *; try discriminate; reflexivity.
Qed.

Lemma post_accept m s c ok : minv m -> post (op_accept m s c ok) (okown m) (Qop m (OAccept s c ok)).
Proof.
  intros Hm. unfold op_accept. walk; leaf0; unmove; decode; fin;
    try (apply okown_shift; unmove; decode; fin);
    try (apply orb_false_iff in Heqb; destruct Heqb as [Heqb _]; apply negb_false_iff, andb_true_iff in Heqb;
         destruct Heqb as [Hs Hc]; cbn; exact Hc).
Qed.

Lemma okown_queued m h k : hok m h HAcc = true -> okown m (OHandle h (HQ k)).
Proof.
  cbn. unfold hok. intros H. apply andb_true_iff in H. destruct H as [H1 H2]. rewrite H1.
  destruct (ty_of m h); cbn in *; auto.
Qed.

Lemma post_recv_keep m (Q : mstate * nat -> (owner -> Prop) -> Prop) h : hok m h HAcc = true ->
  forall n (W : owner -> Prop) c, (forall ow, W ow -> okown m ow) ->
  (forall W' : owner -> Prop, (forall ow, W' ow -> okown m ow) -> post c W' Q) ->
  post (recv_keep h n c) W Q.
Proof.
  intros Hh. induction n as [|n IH]; intros W c HW Hc; walk; auto;
    apply IH; auto; intros ow Hw; decode; auto; apply okown_queued; assumption.
Qed.

Lemma post_recv_drop m (Q : mstate * nat -> (owner -> Prop) -> Prop) :
  forall n j (W : owner -> Prop) c, (forall ow, W ow -> okown m ow \/ is_temp ow = true) ->
  (forall W' : owner -> Prop, (forall ow, W' ow -> okown m ow \/ is_temp ow = true) -> post c W' Q) ->
  post (recv_drop j n c) W Q.
Proof.
  induction n as [|n IH]; intros j W c HW Hc; walk; auto;
    apply IH; auto; intros ow Hw; decode; auto.
Qed.

Lemma post_recvfds m o h n keep : o <> OLoopClose -> hok m h HAcc = true -> minv m ->
  post (op_recvfds m h n keep) (okown m) (Qop m o).
Proof.
  intros Ho Hh Hm. unfold op_recvfds. destruct (Nat.leb n keep).
  - apply (post_recv_keep m); auto. intros W' HW'. walk; leaf0; fin; auto; congruence.
  - apply (post_recv_keep m); auto. intros W' HW'. apply (post_recv_drop m); auto.
    intros W2 HW2. walk; leaf0; fin; try congruence.
    destruct (HW2 _ H); auto. congruence.
Qed.

Lemma okown_closed m h st o :
  okown m o -> own_is (OHandle h HIo) o = false -> own_is (OHandle h HAcc) o = false ->
  is_queued h o = false -> okown (set_hst m h st) o.
Proof.
  destruct o as [| | | h' s | |]; cbn; auto.
  intros H H1 H2 H3. destruct (Nat.eq_dec h' h) as [->|Hne].
  - exfalso. destruct s; cbn in *.
    + rewrite Nat.eqb_refl in H1; discriminate.
    + rewrite Nat.eqb_refl in H2; discriminate.
    + rewrite Nat.eqb_refl in H3; discriminate.
  - rewrite hok_sethst_other by auto. exact H.
Qed.

Lemma okown_closed_udp m h st o :
  ty_of m h = TUdp ->
  okown m o -> own_is (OHandle h HIo) o = false -> okown (set_hst m h st) o.
Proof.
  intros Ht. destruct o as [| | | h' s | |]; cbn; auto.
  intros H H1. destruct (Nat.eq_dec h' h) as [->|Hne].
  - exfalso. unfold hok in H. rewrite Ht in H. apply andb_true_iff in H. destruct H as [_ H].
    destruct s; cbn in *; try discriminate. rewrite Nat.eqb_refl in H1; discriminate.
  - rewrite hok_sethst_other by auto. exact H.
Qed.

Lemma okown_closed_other m h st o :
  ty_of m h = TOther -> okown m o -> okown (set_hst m h st) o.
Proof.
  intros Ht. destruct o as [| | | h' s | |]; cbn; auto.
  intros H. destruct (Nat.eq_dec h' h) as [->|Hne].
  - exfalso. unfold hok in H. rewrite Ht in H. apply andb_true_iff in H. destruct H as [_ H]. discriminate.
  - rewrite hok_sethst_other by auto. exact H.
Qed.

Lemma minv_sethst m h st : st <> HOpen -> minv m -> minv (set_hst m h st).
Proof.
  intros Hst (H1 & H2 & H3). repeat split; auto.
  cbn. intros Hl h'. apply is_open_sethst; auto.
Qed.

Lemma post_close m h : minv m -> post (op_close m h) (okown m) (Qop m (OClose h)).
Proof.
  intros Hm. unfold op_close. walk; leaf0; fin;
    try (apply minv_sethst; [discriminate | assumption]);
    try (apply okown_closed; assumption);
    try (apply okown_closed_udp; assumption);
    try (apply okown_closed_other; assumption);
    try exact I.
Qed.

Lemma post_run m : minv m -> post (op_run m) (okown m) (Qop m ORun).
Proof.
  intros Hm. unfold op_run. fold (run_closing m). walk; leaf0; fin.
  - eapply okown_ext; [ | | | | eassumption]; cbn; auto using incl_refl.
    intros h s. rewrite hok_run. auto.
  - destruct Hm as (H1 & H2 & H3). repeat split; auto.
    cbn. intros Hl h. rewrite is_open_run. auto.
Qed.

Lemma post_fsevent m h : minv m -> post (op_fsevent_start m h) (okown m) (Qop m (OFsEventStart h)).
Proof. intros Hm. unfold op_fsevent_start. walk; leaf0; fin. Qed.

Lemma post_give1 m k g : minv m -> post (op_give1 m k g) (okown m) (Qop m (OGive1 k g)).
Proof. intros Hm. unfold op_give1. walk; leaf0; fin; exact I. Qed.

Lemma post_give2 m k g1 g2 : minv m -> post (op_give2 m k g1 g2) (okown m) (Qop m (OGive2 k g1 g2)).
Proof. intros Hm. unfold op_give2. walk; leaf0; fin; exact I. Qed.

Lemma post_user_close m g : minv m -> post (op_user_close m g) (okown m) (Qop m (OUserClose g)).
Proof. intros Hm. unfold op_user_close. walk; leaf0; fin. Qed.

Lemma post_user_close_fd m fd : minv m -> post (op_user_close_fd m fd) (okown m) (Qop m (OUserCloseFd fd)).
Proof. intros Hm. unfold op_user_close_fd. walk; leaf0; fin. Qed.

Lemma post_user_add m fd cx : minv m -> post (op_user_add m fd cx) (okown m) (Qop m (OUserAdd fd cx)).
Proof. intros Hm. unfold op_user_add. walk; leaf0; fin; exact I. Qed.

Lemma post_iou_lazy m u : minv m -> post (op_iou_lazy m u) (okown m) (Qop m (OIouLazy u)).
Proof. intros Hm. unfold op_iou_lazy. walk; leaf0; fin. Qed.

Lemma okown_loop_closed m l o :
  okown m o -> m_loop m = Some l -> all_closed (m_handles m) = true ->
  (forall s, own_is (OLoop l s) o = false) -> okown (set_loop m None) o.
Proof.
  intros H Hl Hc Hs. destruct o as [| | l' s' | h s | |]; cbn in *; auto.
  - destruct H as [H | H]; auto. exfalso.
    assert (l' = l) by congruence. subst l'.
    specialize (Hs s'). rewrite Nat.eqb_refl in Hs. cbn in Hs.
    destruct s'; discriminate.
Qed.

Lemma post_loop_close m : minv m -> post (op_loop_close m) (okown m) (Qop m OLoopClose).
Proof.
  intros Hm. unfold op_loop_close. walk; leaf0; fin.
  - apply negb_false_iff in Heqb. eapply okown_loop_closed; eauto.
    intros s; destruct s; assumption.
  - apply negb_false_iff in Heqb. destruct Hm as (H1 & H2 & H3). repeat split; auto.
    intros _ h. exact (all_closed_not_open m Heqb h).
Qed.

(* while no loop is live nothing is owned by a handle, so libuv's state may change freely *)
Lemma okown_init m m' o :
  minv m -> m_loop m = None ->
  (m_ginit m = true -> m_ginit m' = true) -> incl (m_leaked m) (m_leaked m') ->
  okown m o -> okown m' o.
Proof.
  intros (H1 & H2 & H3) Hl Hg Hk. destruct o as [| | l' s' | h s | |]; cbn; auto.
  - rewrite Hl. intros [H | [Ha Hb]]; [discriminate | right; auto].
  - unfold hok. rewrite (H3 Hl h). discriminate.
Qed.
Ltac solve_minv Hm :=
  let H1 := fresh in let H2 := fresh in let H3 := fresh in
  destruct Hm as (H1 & H2 & H3); repeat split; cbn; intros; try congruence; auto;
  try (apply is_open_nil; reflexivity).

Lemma post_loop_init m nofd u : minv m -> post (op_loop_init m nofd u) (okown m) (Qop m (OLoopInit nofd u)).
Proof.
  intros Hm. unfold op_loop_init. walk; leaf0; fin;
    try (eapply okown_init; [eassumption | assumption | | | eassumption]; cbn; auto using incl_refl, incl_tl; fail);
    try (cbn; right; split; [reflexivity | left; reflexivity]);
    try (solve_minv Hm; fail);
    try (match goal with H : is_lib _ = false |- _ => cbn in H; discriminate H end).
Qed.

(* ---- uv_spawn ---- *)
Definition tempset (i : nat) (sd : list sdesc) (o : owner) : Prop :=
  exists j sh, nth_error sd j = Some (SdPipe sh) /\ (o = OTemp (2 * (i + j)) \/ o = OTemp (2 * (i + j) + 1)).

Lemma tempset_nil i o : ~ tempset i [] o.
Proof. intros (j & sh & H & _). destruct j; discriminate. Qed.

Lemma tempset_is_temp i sd o : tempset i sd o -> is_temp o = true.
Proof. intros (j & sh & _ & [-> | ->]); reflexivity. Qed.

Lemma tempset_skip i x r o : (forall sh, x <> SdPipe sh) -> tempset i (x :: r) o -> tempset (S i) r o.
Proof.
  intros Hx (j & sh & Hn & Ho). destruct j as [|j]; cbn in Hn.
  - inversion Hn. subst x. destruct (Hx sh eq_refl).
  - exists j, sh. split; auto. replace (S i + j) with (i + S j) by lia. exact Ho.
Qed.

Lemma tempset_tail i x r o : tempset (S i) r o -> tempset i (x :: r) o.
Proof.
  intros (j & sh & Hn & Ho). exists (S j), sh. split; auto.
  replace (i + S j) with (S i + j) by lia. exact Ho.
Qed.

Lemma tempset_head i sh r o :
  tempset i (SdPipe sh :: r) o -> o = OTemp (2 * i) \/ o = OTemp (2 * i + 1) \/ tempset (S i) r o.
Proof.
  intros (j & sh' & Hn & Ho). destruct j as [|j]; cbn in Hn.
  - rewrite Nat.add_0_r in Ho. destruct Ho; auto.
  - right; right. exists j, sh'. split; auto. replace (S i + j) with (i + S j) by lia. exact Ho.
Qed.

Section Spawn.
Variables (m : mstate) (o : op).
Hypothesis Hm : minv m.
Hypothesis Ho : o <> OLoopClose.

Lemma post_spawn_unwind : forall done (W : owner -> Prop) c,
  (forall ow, W ow -> okown m ow \/ is_temp ow = true) ->
  (forall W' : owner -> Prop, (forall ow, W' ow -> okown m ow \/ is_temp ow = true) -> post c W' (Qop m o)) ->
  post (spawn_unwind m done c) W (Qop m o).
Proof.
  induction done as [|sh r IH]; intros W c HW Hc; cbn -[okown own_is is_queued Qop].
  - apply Hc; auto.
  - intros x. apply IH.
    + intros ow Hw. decode; auto. left; exact I.
    + intros W' HW'. destruct x; [destruct (m_fixed m)|]; cbn; apply Hc; auto.
Qed.

Lemma post_spawn_open rc : forall sd i done (W : owner -> Prop),
  (forall ow, W ow -> okown m ow \/ tempset i sd ow) ->
  post (spawn_open m i sd done rc) W (Qop m o).
Proof.
  induction sd as [|x r IH]; intros i done W HW.
  - cbn -[okown Qop]. leaf0; fin; try congruence.
    destruct (HW _ Hw) as [H | H]; auto. destruct (tempset_nil _ _ H).
  - destruct x as [|sh| |].
    + cbn -[okown Qop]. apply IH. intros ow Hw. destruct (HW _ Hw); auto.
      right. eapply tempset_skip; eauto. discriminate.
    + cbn -[okown own_is Qop move hok Nat.mul]. split.
      * (* the stream handle is busy *)
        apply post_spawn_unwind.
        -- intros ow Hw. decode. destruct (HW _ H); auto. right. eapply tempset_is_temp; eauto.
        -- intros W' HW'. cbn -[okown Qop]. leaf0; fin; try congruence.
           destruct (HW' _ H); auto. congruence.
      * destruct (negb (hok m sh HAcc)) eqn:Eh; cbn -[okown own_is Qop move hok Nat.mul].
        -- apply post_spawn_unwind.
           ++ intros ow Hw. decode. destruct (HW _ H); auto. right. eapply tempset_is_temp; eauto.
           ++ intros W' HW'. cbn -[okown Qop]. leaf0; fin; try congruence.
              destruct (HW' _ H); auto. congruence.
        -- apply IH. intros ow Hw. decode.
           assert (Hsh : okown m (OHandle sh HIo)).
           { apply negb_false_iff in Eh. cbn. unfold hok in *. apply andb_true_iff in Eh.
             destruct Eh as [E1 E2]. rewrite E1. destruct (ty_of m sh); cbn in *; auto. }
           destruct (HW _ H) as [Hk | Hk].
           ++ destruct (move_cases (OTemp (2 * i)) (OHandle sh HIo) x) as [[E1 E2] | [E1 E2]];
                rewrite E2; auto.
           ++ destruct (move_cases (OTemp (2 * i)) (OHandle sh HIo) x) as [[E1 E2] | [E1 E2]];
                rewrite E2; auto.
              apply tempset_head in Hk. destruct Hk as [Hk | [Hk | Hk]]; auto.
              ** subst x. rewrite own_is_refl in E1. discriminate.
              ** subst x. rewrite own_is_refl in H2. discriminate.
    + cbn -[okown Qop]. apply IH. intros ow Hw. destruct (HW _ Hw); auto.
      right. eapply tempset_skip; eauto. discriminate.
    + cbn -[okown Qop]. apply IH. intros ow Hw. destruct (HW _ Hw); auto.
      right. eapply tempset_skip; eauto. discriminate.
Qed.

Lemma post_spawn_pairs (Q : mstate * nat -> (owner -> Prop) -> Prop) : forall sd i (T W : owner -> Prop) k,
  (forall ow, W ow -> okown m ow \/ T ow) ->
  (forall ow, T ow -> is_temp ow = true) ->
  (forall W' : owner -> Prop, (forall ow, W' ow -> okown m ow \/ T ow \/ tempset i sd ow) -> post (k true) W' Q) ->
  (forall W' : owner -> Prop, (forall ow, W' ow -> okown m ow \/ is_temp ow = true) -> post (k false) W' Q) ->
  post (spawn_pairs i sd k) W Q.
Proof.
  induction sd as [|x r IH]; intros i T W k HW HT Hk1 Hk0.
  - cbn. apply Hk1. intros ow Hw. destruct (HW _ Hw); auto.
  - destruct x as [|sh| |].
    + cbn. apply (IH (S i) T); auto. intros W' HW'. apply Hk1. intros ow Hw.
      destruct (HW' _ Hw) as [H | [H | H]]; auto. right; right. apply tempset_tail; auto.
    + cbn -[Nat.mul]. repeat split.
      * apply (IH (S i) (fun ow => T ow \/ ow = OTemp (2 * i) \/ ow = OTemp (2 * i + 1))).
        -- intros ow Hw. decode; auto. destruct (HW _ H); auto.
        -- intros ow [H | [-> | ->]]; auto.
        -- intros W' HW'. apply Hk1. intros ow Hw.
           destruct (HW' _ Hw) as [H | [[H | [H | H]] | H]]; auto.
           ++ right; right. exists 0, sh. split; auto. rewrite Nat.add_0_r. auto.
           ++ right; right. exists 0, sh. split; auto. rewrite Nat.add_0_r. auto.
           ++ right; right. apply tempset_tail; auto.
        -- exact Hk0.
      * apply Hk0. intros ow Hw. destruct (HW _ Hw); auto.
      * apply Hk0. intros ow Hw. destruct (HW _ Hw); auto.
    + cbn. apply (IH (S i) T); auto. intros W' HW'. apply Hk1. intros ow Hw.
      destruct (HW' _ Hw) as [H | [H | H]]; auto. right; right. apply tempset_tail; auto.
    + cbn. apply Hk0. intros ow Hw. destruct (HW _ Hw); auto.
Qed.
End Spawn.

Lemma Qop_transfer m m' o a (T T' : owner -> Prop) :
  m_fixed m' = m_fixed m -> (forall ow, T' ow -> T ow) -> Qop m' o a T -> Qop m o a T'.
Proof.
  intros Hf HT (H1 & H2 & H3 & H4). unfold Qop. split; [auto | split; [exact H2 | split; [exact H3 | congruence]]].
Qed.

Lemma post_spawn m h sd ok : minv m -> post (op_spawn m h sd ok) (okown m) (Qop m (OSpawn h sd ok)).
Proof.
  intros Hm. unfold op_spawn.
  destruct (m_loop m) as [l|] eqn:El; [|cbn -[okown Qop]; leaf0; fin].
  destruct (negb (Nat.eqb h (length (m_handles m)))) eqn:Eh; [cbn -[okown Qop]; leaf0; fin|].
  set (m' := add_handle m TOther HOpen).
  assert (Hm' : minv m').
  { eapply minv_ext; [ | | | | | exact Hm]; subst m'; side. }
  assert (Hext : forall ow, okown m ow -> okown m' ow).
  { intros ow H. eapply okown_ext; [ | | | | exact H]; subst m'; side. }
  assert (Hne : OSpawn h sd ok <> OLoopClose) by discriminate.
  eapply post_mono with (W := okown m) (Q := Qop m' (OSpawn h sd ok)); [auto | |].
  { intros a T T' HT HQ. eapply Qop_transfer; eauto. }
  apply (post_spawn_pairs m' (Qop m' (OSpawn h sd ok)) sd 0 (fun _ => False)).
  - intros ow H; auto.
  - intros ow [].
  - intros W' HW'. cbn -[okown own_is Qop]. repeat split.
    + apply post_spawn_open; auto. intros ow Hw. decode.
      destruct (HW' _ H) as [Hk | [[] | Hk]]; auto.
    + apply post_spawn_open; auto. intros ow Hw. destruct (HW' _ Hw) as [Hk | [[] | Hk]]; auto.
    + apply post_spawn_open; auto. intros ow Hw. destruct (HW' _ Hw) as [Hk | [[] | Hk]]; auto.
  - intros W' HW'. cbn -[okown Qop]. leaf0; fin; try congruence.
    destruct (HW' _ H); auto. congruence.
Qed.

Theorem op_post m o : minv m -> post (op_prog m o) (okown m) (Qop m o).
Proof.
  intros Hm. unfold op_prog. destruct (m_abort m) eqn:Ea.
  - cbn -[okown Qop]. leaf0; fin.
  - destruct o.
    + apply post_loop_init; auto.
    + apply post_loop_close; auto.
    + cbn -[okown Qop]. leaf0; fin.
    + apply post_iou_lazy; auto.
    + apply post_hinit; auto.
    + apply post_ensure; auto.
    + apply post_pipe_bind; auto.
    + apply post_open; auto.
    + apply post_srvio; auto.
    + apply post_accept; auto.
    + destruct (hok m h HAcc) eqn:Eh.
      * apply post_recvfds; auto. discriminate.
      * cbn -[okown Qop]. leaf0; fin.
    + apply post_close; auto.
    + apply post_run; auto.
    + apply post_fsevent; auto.
    + apply post_give1; auto.
    + apply post_give2; auto.
    + apply post_user_close; auto.
    + apply post_user_close_fd; auto.
    + apply post_user_add; auto.
    + apply post_slurp; auto.
    + apply post_spawn; auto.
Qed.

(* ------------------------------------------------------------------ *)
(* the invariant along every program                                    *)
(* ------------------------------------------------------------------ *)
Definition led_ok (m : mstate) (L : ledger) : Prop := forall o, present L o -> okown m o.
Definition Inv (st : mstate * ist) : Prop := minv (fst st) /\ led_ok (fst st) (i_led (snd st)).

Lemma step_spec st o :
  Inv st ->
  Inv (step st o) /\ m_fixed (fst (step st o)) = m_fixed (fst st) /\
  exists rc, i_tr (snd (step st o)) = ERet rc :: i_tr (snd (run_prog (op_prog (fst st) o) (snd st))) /\
             (o = OLoopClose -> rc = RC_OK -> m_loop (fst (step st o)) = None).
Proof.
  intros [Hm Hl]. unfold step.
  destruct (post_sound (op_prog (fst st) o) _ _ (snd st) (op_post (fst st) o Hm) Hl) as (W' & HW & HQ).
  destruct (run_prog (op_prog (fst st) o) (snd st)) as [r s] eqn:E. cbn [fst snd] in *.
  destruct HQ as (H1 & H2 & H3 & H4).
  split; [split; [exact H2 | intros ow Hp; apply H1, HW, Hp] | split; [exact H4 |]].
  exists (snd r). split; [reflexivity | exact H3].
Qed.

Lemma run_ops_inv : forall ops st, Inv st ->
  Inv (run_ops ops st) /\ m_fixed (fst (run_ops ops st)) = m_fixed (fst st).
Proof.
  induction ops as [|o r IH]; intros st HI; cbn.
  - auto.
  - destruct (step_spec st o HI) as (H1 & H2 & _).
    destruct (IH _ H1) as (H3 & H4). unfold run_ops in *. split; auto. congruence.
Qed.

Lemma init_inv fixed fds orc : Inv (minit fixed, mkI (user_ledger fds) orc []).
Proof.
  split; cbn.
  - repeat split; cbn; auto. intros _ h. apply is_open_nil. reflexivity.
  - intros o (fd & e & Hin & Ho). unfold user_ledger in Hin. apply in_map_iff in Hin.
    destruct Hin as (x & Hx & _). inversion Hx; subst. cbn. exact I.
Qed.

(* After the program's last call, uv_loop_close(), returned 0: every descriptor in the table
   that libuv is responsible for is the process-wide signal lock pipe, or the backend
   descriptor of a loop instance whose uv_loop_init failed late (current code only). *)
Theorem ledger_balanced_gen fixed fds ops orc :
  let st := run fixed fds (ops ++ [OLoopClose]) orc in
  hd (ERet RC_ERR) (i_tr (snd st)) = ERet RC_OK ->
  m_fixed (fst st) = fixed /\ minv (fst st) /\
  forall fd e, In (fd, e) (i_led (snd st)) -> is_lib (e_owner e) = true ->
    (exists w, e_owner e = OProc w) \/
    (exists l, e_owner e = OLoop l SBackend /\ In l (m_leaked (fst st))).
Proof.
  cbn zeta. unfold run, run_ops. rewrite fold_left_app. cbn [fold_left].
  fold (run_ops ops (minit fixed, mkI (user_ledger fds) orc [])).
  destruct (run_ops_inv ops _ (init_inv fixed fds orc)) as (HI & Hf).
  set (st0 := run_ops ops (minit fixed, mkI (user_ledger fds) orc [])) in *.
  destruct (step_spec st0 OLoopClose HI) as ((Hm & Hl) & Hf' & rc & Htr & Hrc).
  intros Hhd. rewrite Htr in Hhd. cbn in Hhd. inversion Hhd as [Hrc0].
  specialize (Hrc eq_refl Hrc0).
  split; [cbn in Hf; congruence | split; [exact Hm |]].
  intros fd e Hin Hlib.
  assert (Hok : okown (fst (step st0 OLoopClose)) (e_owner e)) by (apply Hl; exists fd, e; auto).
  destruct (e_owner e) as [| g | l s | h s | w | k]; cbn in Hlib; try discriminate.
  - cbn in Hok. rewrite Hrc in Hok. destruct Hok as [Hok | [-> Hok]]; [discriminate|].
    right. exists l. auto.
  - cbn in Hok. destruct Hm as (_ & _ & H3). unfold hok in Hok. rewrite (H3 Hrc h) in Hok. discriminate.
  - left. exists w; reflexivity.
  - destruct Hok.
Qed.

(* ------------------------------------------------------------------ *)
(* close-on-exec by construction                                        *)
(* ------------------------------------------------------------------ *)
Fixpoint all_cx {A} (p : prog A) : Prop :=
  match p with
  | Ret _ => True
  | Create k os cx c => cx = true /\ forall a, all_cx (c a)
  | CloseIf _ _ c | Relabel _ c | RawClose _ c | UserClose _ c | UserAdd _ _ c => all_cx c
  | Adopt _ _ c => forall b, all_cx (c b)
  | Has _ c => forall b, all_cx (c b)
  | Count _ c => forall n, all_cx (c n)
  | FdOf _ c => forall x, all_cx (c x)
  end.

Definition trace_cx (tr : list event) : Prop :=
  forall k cx fs os, In (ECreate k cx fs os) tr -> cx = true.
(* every descriptor libuv created carries FD_CLOEXEC *)
Definition lib_cx (L : ledger) : Prop :=
  forall fd e, In (fd, e) L -> e_lib e = true -> e_cx e = true.

Lemma alloc_lib_cx : forall os L L' fds, lib_cx L -> alloc L os true = (L', fds) -> lib_cx L'.
Proof.
  induction os as [|o r IH]; intros L L' fds HL H; cbn in H.
  - inversion H; subst; auto.
  - destruct (alloc ((lowest_free L, mkE o true true) :: L) r true) as [L2 f2] eqn:E.
    inversion H; subst. eapply IH; [| exact E].
    intros fd e [Hin | Hin] Hlib; [inversion Hin; reflexivity | eauto].
Qed.

Lemma close_if_sub : forall p g L L' ev fd e,
  close_if p g L = (L', ev) -> In (fd, e) L' -> exists e0, In (fd, e0) L /\ e_cx e0 = e_cx e /\ e_lib e0 = e_lib e.
Proof.
  induction L as [|[n e1] r IH]; intros L' ev fd e H Hin; cbn in H.
  - inversion H; subst. destruct Hin.
  - destruct (close_if p g r) as [r' ev'] eqn:E.
    destruct (p (e_owner e1)).
    + destruct (g && Nat.leb n 2).
      * inversion H; subst. destruct Hin as [Hin | Hin].
        -- inversion Hin; subst. exists e1. cbn. repeat split; auto.
        -- destruct (IH _ _ _ _ eq_refl Hin) as (e0 & H1 & H2). exists e0. split; [right|]; auto.
      * inversion H; subst.
        destruct (IH _ _ _ _ eq_refl Hin) as (e0 & H1 & H2). exists e0. split; [right|]; auto.
    + inversion H; subst. destruct Hin as [Hin | Hin].
      * inversion Hin; subst. exists e. cbn. repeat split; auto.
      * destruct (IH _ _ _ _ eq_refl Hin) as (e0 & H1 & H2). exists e0. split; [right|]; auto.
Qed.

Lemma adopt_sub : forall fd o L L' x n e,
  adopt fd o L = (L', x) -> In (n, e) L' -> exists e0, In (n, e0) L /\ e_cx e0 = e_cx e /\ e_lib e0 = e_lib e.
Proof.
  induction L as [|[n1 e1] r IH]; intros L' x n e H Hin; cbn in H.
  - inversion H; subst. destruct Hin.
  - destruct (Nat.eqb n1 fd && is_user (e_owner e1)).
    + inversion H; subst. destruct Hin as [Hin | Hin].
      * inversion Hin; subst. exists e1. cbn. repeat split; auto.
      * exists e. cbn. repeat split; auto.
    + destruct (adopt fd o r) as [r' x'] eqn:E. inversion H; subst. destruct Hin as [Hin | Hin].
      * inversion Hin; subst. exists e. cbn. repeat split; auto.
      * destruct (IH _ _ _ _ eq_refl Hin) as (e0 & H1 & H2). exists e0. split; [right|]; auto.
Qed.

Lemma lib_cx_sub (L L' : ledger) :
  (forall fd e, In (fd, e) L' -> exists e0, In (fd, e0) L /\ e_cx e0 = e_cx e /\ e_lib e0 = e_lib e) ->
  lib_cx L -> lib_cx L'.
Proof.
  intros H HL fd e Hin Hlib. destruct (H _ _ Hin) as (e0 & H1 & H2 & H3).
  rewrite <- H2. eapply HL; eauto; congruence.
Qed.

Lemma all_cx_sound {A} (p : prog A) : forall s,
  all_cx p -> trace_cx (i_tr s) -> lib_cx (i_led s) ->
  trace_cx (i_tr (snd (run_prog p s))) /\ lib_cx (i_led (snd (run_prog p s))).
Proof.
  induction p as [a | k os cx c IH | p g c IH | f c IH | fd o' c IH | p c IH | p c IH | ow c IH
                 | fd c IH | sel c IH | fd cx c IH]; intros s Hp Ht Hl; cbn in Hp |- *.
  - auto.
  - destruct Hp as [-> Hc]. destruct (next_ans (i_orc s)) as [a orc]. destruct a.
    + destruct (alloc (i_led s) os true) as [L fds] eqn:E. apply IH; cbn; auto.
      * intros k' cx' fs' os' [H | H]; [inversion H; auto | eauto].
      * eapply alloc_lib_cx; eauto.
    + apply IH; cbn; auto. intros k' cx' fs' os' [H | H]; [discriminate | eauto].
    + apply IH; cbn; auto. intros k' cx' fs' os' [H | H]; [discriminate | eauto].
  - destruct (close_if p g (i_led s)) as [L ev] eqn:E. apply IH; cbn; auto.
    + intros k' cx' fs' os' H. apply in_app_or in H. destruct H as [H | H]; [| eauto].
      exfalso. apply in_rev in H. clear -E H. revert L ev E H.
      induction (i_led s) as [|[n e1] r IHr]; intros L ev E H; cbn in E.
      * inversion E; subst. destruct H.
      * destruct (close_if p g r) as [r' ev'] eqn:E'. destruct (p (e_owner e1)).
        -- destruct (g && Nat.leb n 2); inversion E; subst; (destruct H as [H | H]; [discriminate | eauto]).
        -- inversion E; subst. eauto.
    + eapply lib_cx_sub; [| exact Hl]. intros; eapply close_if_sub; eauto.
  - apply IH; cbn; auto. eapply lib_cx_sub; [| exact Hl]. unfold relabel. intros n e Hin.
    apply in_map_iff in Hin. destruct Hin as ([n0 e0] & Heq & Hin). cbn in Heq. inversion Heq; subst.
    exists e0. cbn. auto.
  - destruct (adopt fd o' (i_led s)) as [L x] eqn:E. destruct x as [from|].
    + apply IH; cbn; auto.
      * intros k' cx' fs' os' [H | H]; [discriminate | eauto].
      * eapply lib_cx_sub; [| exact Hl]. intros; eapply adopt_sub; eauto.
    + apply IH; auto.
  - apply IH; auto.
  - apply IH; auto.
  - apply IH; auto.
  - apply IH; cbn; auto.
    + intros k' cx' fs' os' [H | H]; [discriminate | eauto].
    + intros n e Hin. apply (Hl n e). eapply remove_fd_incl; eauto.
  - destruct (user_close sel (i_led s)) as [L ev] eqn:E. apply IH; cbn; auto.
    + intros k' cx' fs' os' H. apply in_app_or in H. destruct H as [H | H]; [| eauto].
      exfalso. apply in_rev in H. clear -E H. revert L ev E H.
      induction (i_led s) as [|[n e1] r IHr]; intros L ev E H; cbn in E.
      * inversion E; subst. destruct H.
      * destruct (user_close sel r) as [r' ev'] eqn:E'.
        destruct (sel n (e_owner e1) && is_user (e_owner e1)); inversion E; subst.
        -- destruct H as [H | H]; [discriminate | eauto].
        -- eauto.
    + intros n e Hin. apply (Hl n e). eapply user_close_incl; eauto.
  - apply IH; cbn; auto. destruct (memb fd (dom (i_led s))); auto.
    intros n e [Hin | Hin] Hlib; [inversion Hin; subst; discriminate | eauto].
Qed.

Ltac walkcx :=
  repeat first
    [ progress cbn -[own_is is_queued is_temp move shift_queue hok is_open add_handle set_hst all_closed Nat.mul]
    | progress unfold init_fail_tail, spawn_error_temps
    | match goal with
      | |- _ /\ _ => split
      | |- forall _, _ => intro
      | |- True => exact I
      | |- _ = _ => reflexivity
      | |- all_cx (if ?b then _ else _) => destruct b
      | |- all_cx ((if ?b then _ else _) _) => destruct b
      | |- all_cx (match ?x with _ => _ end) => destruct x
      end ].

Lemma cx_accept_shed m l h : forall fuel, all_cx (accept_shed fuel l h m).
Proof. induction fuel; walkcx; auto. Qed.
Lemma cx_recv_keep h : forall n c, all_cx c -> all_cx (recv_keep h n c).
Proof. induction n; intros c Hc; walkcx; auto. Qed.
Lemma cx_recv_drop : forall n j c, all_cx c -> all_cx (recv_drop j n c).
Proof. induction n; intros j c Hc; walkcx; auto. Qed.
Lemma cx_recvfds m h n keep : all_cx (op_recvfds m h n keep).
Proof.
  unfold op_recvfds. destruct (Nat.leb n keep); repeat (apply cx_recv_keep || apply cx_recv_drop); exact I.
Qed.
Lemma cx_spawn_unwind m : forall done c, all_cx c -> all_cx (spawn_unwind m done c).
Proof. induction done as [|sh r IH]; intros c Hc; walkcx; auto. apply IH. destruct x; [destruct (m_fixed m)|]; cbn; auto. Qed.
Lemma cx_spawn_open m rc : forall sd i done, all_cx (spawn_open m i sd done rc).
Proof.
  induction sd as [|x r IH]; intros i done; [exact I|].
  destruct x; walkcx; auto; apply cx_spawn_unwind; exact I.
Qed.
Lemma cx_spawn_pairs : forall sd i k, (forall b, all_cx (k b)) -> all_cx (spawn_pairs i sd k).
Proof. induction sd as [|x r IH]; intros i k Hk; [apply Hk|]. destruct x; walkcx; auto. Qed.

Theorem op_all_cx m o : all_cx (op_prog m o).
Proof.
  unfold op_prog. destruct (m_abort m); [exact I|].
  destruct o; try (unfold op_loop_init, op_loop_close, op_iou_lazy, op_hinit, op_ensure, op_pipe_bind, op_open,
    op_accept, op_close, op_run, op_fsevent_start, op_give1, op_give2, op_user_close, op_user_close_fd,
    op_user_add, op_slurp; walkcx; fail).
  - unfold op_srvio. walkcx. apply cx_accept_shed.
  - destruct (hok m h HAcc); [apply cx_recvfds | exact I].
  - unfold op_spawn. walkcx. apply cx_spawn_pairs. intros b. walkcx; apply cx_spawn_open.
Qed.

Theorem cloexec_by_construction fixed fds ops orc :
  let st := run fixed fds ops orc in
  trace_cx (i_tr (snd st)) /\ lib_cx (i_led (snd st)).
Proof.
  cbn zeta. unfold run.
  assert (H0 : trace_cx (i_tr (snd (minit fixed, mkI (user_ledger fds) orc []))) /\
               lib_cx (i_led (snd (minit fixed, mkI (user_ledger fds) orc [])))).
  { split; cbn. - intros k cx fs os []. 
    - intros fd e Hin. unfold user_ledger in Hin. apply in_map_iff in Hin.
      destruct Hin as (x & Hx & _). inversion Hx; subst. cbn. discriminate. }
  revert H0. generalize (minit fixed, mkI (user_ledger fds) orc []).
  induction ops as [|o r IH]; intros st H0; cbn; auto.
  apply IH. unfold step.
  destruct (all_cx_sound (op_prog (fst st) o) (snd st) (op_all_cx _ _) (proj1 H0) (proj2 H0)) as [H1 H2].
  destruct (run_prog (op_prog (fst st) o) (snd st)) as [r0 s0]. cbn in *. split; auto.
  intros k cx fs os [H | H]; [discriminate | eauto].
Qed.

(* ------------------------------------------------------------------ *)
(* libuv closes only what it owns                                       *)
(* ------------------------------------------------------------------ *)
Fixpoint closes_lib {A} (p : prog A) : Prop :=
  match p with
  | Ret _ => True
  | Create _ _ _ c => forall a, closes_lib (c a)
  | CloseIf q _ c => (forall o, q o = true -> is_lib o = true) /\ closes_lib c
  | Relabel _ c | RawClose _ c | UserClose _ c | UserAdd _ _ c => closes_lib c
  | Adopt _ _ c => forall b, closes_lib (c b)
  | Has _ c => forall b, closes_lib (c b)
  | Count _ c => forall n, closes_lib (c n)
  | FdOf _ c => forall x, closes_lib (c x)
  end.

(* every close through a field (EClose) hits an entry libuv owns; so does every field reset
   that keeps a stdio descriptor open (EKeep) *)
Definition trace_closes_lib (tr : list event) : Prop :=
  forall fd o, In (EClose fd o) tr \/ In (EKeep fd o) tr -> is_lib o = true.

Lemma close_if_events : forall p g L L' ev fd o,
  close_if p g L = (L', ev) -> In (EClose fd o) ev \/ In (EKeep fd o) ev -> p o = true.
Proof.
  induction L as [|[n e1] r IH]; intros L' ev fd o H Hin; cbn in H.
  - inversion H; subst. destruct Hin as [[] | []].
  - destruct (close_if p g r) as [r' ev'] eqn:E. destruct (p (e_owner e1)) eqn:Ep.
    + destruct (g && Nat.leb n 2).
      * inversion H; subst. destruct Hin as [[Hin | Hin] | [Hin | Hin]]; try discriminate; eauto.
        inversion Hin; subst; auto.
      * inversion H; subst. destruct Hin as [[Hin | Hin] | [Hin | Hin]]; try discriminate; eauto.
        inversion Hin; subst; auto.
    + inversion H; subst. eauto.
Qed.

Lemma user_close_events : forall sel L L' ev fd o,
  user_close sel L = (L', ev) -> ~ (In (EClose fd o) ev \/ In (EKeep fd o) ev).
Proof.
  induction L as [|[n e1] r IH]; intros L' ev fd o H Hin; cbn in H.
  - inversion H; subst. destruct Hin as [[] | []].
  - destruct (user_close sel r) as [r' ev'] eqn:E.
    destruct (sel n (e_owner e1) && is_user (e_owner e1)); inversion H; subst.
    + destruct Hin as [[Hin | Hin] | [Hin | Hin]]; try discriminate; eapply IH; eauto.
    + eapply IH; eauto.
Qed.

Lemma closes_lib_sound {A} (p : prog A) : forall s,
  closes_lib p -> trace_closes_lib (i_tr s) -> trace_closes_lib (i_tr (snd (run_prog p s))).
Proof.
  induction p as [a | k os cx c IH | p g c IH | f c IH | fd o' c IH | p c IH | p c IH | ow c IH
                 | fd c IH | sel c IH | fd cx c IH]; intros s Hp Ht; cbn in Hp |- *.
  - auto.
  - destruct (next_ans (i_orc s)) as [a orc]. destruct a.
    + destruct (alloc (i_led s) os cx) as [L fds]. apply IH; cbn; auto.
      intros n o [[H | H] | [H | H]]; try discriminate; eauto.
    + apply IH; cbn; auto. intros n o [[H | H] | [H | H]]; try discriminate; eauto.
    + apply IH; cbn; auto. intros n o [[H | H] | [H | H]]; try discriminate; eauto.
  - destruct Hp as [Hq Hc]. destruct (close_if p g (i_led s)) as [L ev] eqn:E. apply IH; cbn; auto.
    intros n o H.
    assert (H' : (In (EClose n o) ev \/ In (EKeep n o) ev) \/ (In (EClose n o) (i_tr s) \/ In (EKeep n o) (i_tr s))).
    { destruct H as [H | H]; apply in_app_or in H; destruct H as [H | H]; auto;
        apply in_rev in H; auto. }
    destruct H' as [H' | H']; [| eauto]. apply Hq. eapply close_if_events; eauto.
  - apply IH; auto.
  - destruct (adopt fd o' (i_led s)) as [L x]. destruct x as [from|]; apply IH; cbn; auto.
    intros n o [[H | H] | [H | H]]; try discriminate; eauto.
  - apply IH; auto.
  - apply IH; auto.
  - apply IH; auto.
  - apply IH; cbn; auto. intros n o [[H | H] | [H | H]]; try discriminate; eauto.
  - destruct (user_close sel (i_led s)) as [L ev] eqn:E. apply IH; cbn; auto.
    intros n o H.
    assert (H' : (In (EClose n o) ev \/ In (EKeep n o) ev) \/ (In (EClose n o) (i_tr s) \/ In (EKeep n o) (i_tr s))).
    { destruct H as [H | H]; apply in_app_or in H; destruct H as [H | H]; auto;
        apply in_rev in H; auto. }
    destruct H' as [H' | H']; [| eauto]. destruct (user_close_events _ _ _ _ _ _ E H').
  - apply IH; auto.
Qed.

Lemma own_is_lib a : is_lib a = true -> forall o, own_is a o = true -> is_lib o = true.
Proof. intros H o Ho. apply own_is_true in Ho. subst; auto. Qed.
Lemma is_queued_lib h : forall o, is_queued h o = true -> is_lib o = true.
Proof. destruct o; cbn; auto; discriminate. Qed.
Lemma is_temp_lib : forall o, is_temp o = true -> is_lib o = true.
Proof. destruct o; cbn; auto; discriminate. Qed.

Ltac walkcl :=
  repeat first
    [ progress cbn -[own_is is_queued is_temp move shift_queue hok is_open add_handle set_hst all_closed Nat.mul is_lib]
    | progress unfold init_fail_tail, spawn_error_temps
    | apply own_is_lib; reflexivity
    | apply is_queued_lib
    | apply is_temp_lib
    | match goal with
      | |- _ /\ _ => split
      | |- True => exact I
      | |- forall o, is_lib o = true -> is_lib o = true => auto
      | |- forall _, _ => intro
      | |- closes_lib (if ?b then _ else _) => destruct b
      | |- closes_lib ((if ?b then _ else _) _) => destruct b
      | |- closes_lib (match ?x with _ => _ end) => destruct x
      end ].

Lemma cl_accept_shed m l h : forall fuel, closes_lib (accept_shed fuel l h m).
Proof. induction fuel; walkcl; auto. Qed.
Lemma cl_recv_keep h : forall n c, closes_lib c -> closes_lib (recv_keep h n c).
Proof. induction n; intros c Hc; walkcl; auto. Qed.
Lemma cl_recv_drop : forall n j c, closes_lib c -> closes_lib (recv_drop j n c).
Proof. induction n; intros j c Hc; walkcl; auto. Qed.
Lemma cl_recvfds m h n keep : closes_lib (op_recvfds m h n keep).
Proof.
  unfold op_recvfds. destruct (Nat.leb n keep); repeat (apply cl_recv_keep || apply cl_recv_drop); walkcl.
Qed.
Lemma cl_spawn_unwind m : forall done c, closes_lib c -> closes_lib (spawn_unwind m done c).
Proof. induction done as [|sh r IH]; intros c Hc; walkcl; auto. apply IH. destruct x; [destruct (m_fixed m)|]; cbn; auto. Qed.
Lemma cl_spawn_open m rc : forall sd i done, closes_lib (spawn_open m i sd done rc).
Proof.
  induction sd as [|x r IH]; intros i done; [exact I|].
  destruct x; walkcl; auto; apply cl_spawn_unwind; walkcl.
Qed.
Lemma cl_spawn_pairs : forall sd i k, (forall b, closes_lib (k b)) -> closes_lib (spawn_pairs i sd k).
Proof. induction sd as [|x r IH]; intros i k Hk; [apply Hk|]. destruct x; walkcl; auto. Qed.

Theorem op_closes_lib m o : closes_lib (op_prog m o).
Proof.
  unfold op_prog. destruct (m_abort m); [exact I|].
  destruct o; try (unfold op_loop_init, op_loop_close, op_iou_lazy, op_hinit, op_ensure, op_pipe_bind, op_open,
    op_accept, op_close, op_run, op_fsevent_start, op_give1, op_give2, op_user_close, op_user_close_fd,
    op_user_add, op_slurp; walkcl; fail).
  - unfold op_srvio. walkcl. apply cl_accept_shed.
  - destruct (hok m h HAcc); [apply cl_recvfds | exact I].
  - unfold op_spawn. walkcl. apply cl_spawn_pairs. intros b. walkcl; apply cl_spawn_open.
Qed.

Theorem never_close_foreign fixed fds ops orc :
  trace_closes_lib (i_tr (snd (run fixed fds ops orc))).
Proof.
  unfold run.
  assert (H0 : trace_closes_lib (i_tr (snd (minit fixed, mkI (user_ledger fds) orc [])))).
  { intros fd o [[] | []]. }
  revert H0. generalize (minit fixed, mkI (user_ledger fds) orc []).
  induction ops as [|o r IH]; intros st H0; cbn; auto.
  apply IH. unfold step.
  pose proof (closes_lib_sound (op_prog (fst st) o) (snd st) (op_closes_lib _ _) H0) as H1.
  destruct (run_prog (op_prog (fst st) o) (snd st)) as [r0 s0]. cbn in *.
  intros fd ow [[H | H] | [H | H]]; try discriminate; eauto.
Qed.

(* uv_close of a stream handle wrapping descriptor 0, 1 or 2 leaves the descriptor open and
   hands it back to the caller *)
Lemma close_if_keeps : forall p L fd e,
  In (fd, e) L -> p (e_owner e) = true -> fd <= 2 ->
  In (fd, set_owner OUser e) (fst (close_if p true L)).
Proof.
  induction L as [|[n e1] r IH]; intros fd e Hin Hp Hfd; [destruct Hin|].
  cbn. destruct (close_if p true r) as [r' ev'] eqn:E. destruct Hin as [Hin | Hin].
  - inversion Hin; subst. rewrite Hp. cbn [andb].
    assert (Hl : Nat.leb fd 2 = true) by (apply Nat.leb_le; auto). rewrite Hl. left; reflexivity.
  - specialize (IH _ _ Hin Hp Hfd). cbn in IH.
    destruct (p (e_owner e1)); cbn; [destruct (Nat.leb n 2)|]; cbn; auto.
Qed.

Lemma close_if_other : forall p g L x,
  In x L -> p (e_owner (snd x)) = false -> In x (fst (close_if p g L)).
Proof.
  induction L as [|[n e1] r IH]; intros x Hin Hp; [destruct Hin|].
  cbn. destruct (close_if p g r) as [r' ev'] eqn:E. destruct Hin as [Hin | Hin].
  - subst x. cbn in Hp. rewrite Hp. left; reflexivity.
  - specialize (IH _ Hin Hp). cbn in IH.
    destruct (p (e_owner e1)); cbn; [destruct (g && Nat.leb n 2)|]; cbn; auto.
Qed.

Theorem stdio_survives_uv_close m s h fd e :
  m_abort m = false -> hok m h HIo = true ->
  In (fd, e) (i_led s) -> e_owner e = OHandle h HIo -> fd <= 2 ->
  In (fd, set_owner OUser e) (i_led (snd (step (m, s) (OClose h)))).
Proof.
  intros Ha Hk Hin Hown Hfd. unfold hok in Hk. apply andb_true_iff in Hk. destruct Hk as [Ho Ht].
  unfold step, op_prog. cbn [fst snd]. rewrite Ha. unfold op_close. rewrite Ho. cbn [negb].
  assert (H1 : forall L ev, close_if (own_is (OHandle h HIo)) true (i_led s) = (L, ev) ->
                            In (fd, set_owner OUser e) L).
  { intros L ev E. pose proof (close_if_keeps (own_is (OHandle h HIo)) (i_led s) fd e Hin) as K.
    rewrite E in K. apply K; auto. rewrite Hown. apply own_is_refl. }
  assert (Hstream : forall L1 ev1, close_if (own_is (OHandle h HIo)) true (i_led s) = (L1, ev1) ->
    In (fd, set_owner OUser e)
       (i_led (snd (run_prog (close_field (OHandle h HAcc)
           (CloseIf (is_queued h) false (Ret (set_hst m h HClosing, RC_OK))))
           (mkI L1 (i_orc s) (rev ev1 ++ i_tr s)))))).
  { intros L1 ev1 E1. unfold close_field. cbn [run_prog i_led i_orc i_tr].
    destruct (close_if (own_is (OHandle h HAcc)) false L1) as [L2 ev2] eqn:E2. cbn [i_led i_orc i_tr].
    destruct (close_if (is_queued h) false L2) as [L3 ev3] eqn:E3. cbn [i_led i_orc i_tr fst snd].
    pose proof (close_if_other (own_is (OHandle h HAcc)) false L1 _ (H1 _ _ E1)) as K2. rewrite E2 in K2.
    pose proof (close_if_other (is_queued h) false L2 _ (K2 eq_refl)) as K3. rewrite E3 in K3.
    exact (K3 eq_refl). }
  destruct (ty_of m h); try discriminate; cbn [run_prog];
    destruct (close_if (own_is (OHandle h HIo)) true (i_led s)) as [L1 ev1] eqn:E1;
    cbn [i_led i_orc i_tr fst snd].
  - destruct (run_prog _ _) as [r0 s0] eqn:Er. pose proof (Hstream _ _ eq_refl) as K. rewrite Er in K. exact K.
  - destruct (run_prog _ _) as [r0 s0] eqn:Er. pose proof (Hstream _ _ eq_refl) as K. rewrite Er in K. exact K.
  - exact (H1 _ _ eq_refl).
Qed.

(* ------------------------------------------------------------------ *)
(* witnesses                                                            *)
(* ------------------------------------------------------------------ *)
Definition stdio3 : list (nat * bool) := [(0, false); (1, false); (2, false)].

(* cloexec_lock cannot be initialised (or eventfd fails): uv_loop_init returns an error and the
   epoll descriptor of that instance stays open for the life of the process *)
Definition leak_prog : list op := [OLoopInit 3 true; OLoopInit 0 true].
(* second stdio container's pipe handle is already open: uv__stream_open fails *)
Definition double_close_prog : list op :=
  [OLoopInit 0 true; OGive2 KPipe2 0 1; OHInit 0 TPipe false; OHInit 1 TPipe false;
   OOpen 1 (SrcGiven 0) true; OSpawn 2 [SdPipe 0; SdPipe 1; SdInherit] true].
Definition tcp_prog : list op :=
  [OLoopInit 0 true; OHInit 0 TTcp true; OEnsure 0 true; OHInit 1 TTcp false; OEnsure 1 true;
   OSrvIo 0 3; OHInit 2 TTcp false; OAccept 0 2 true; OClose 0; OClose 1; OClose 2; ORun].

Definition only_lock_pipe (st : mstate * ist) : Prop :=
  forall fd e, In (fd, e) (i_led (snd st)) -> is_lib (e_owner e) = true -> exists w, e_owner e = OProc w.

Lemma leak_witness :
  let st := run false stdio3 (leak_prog ++ [OLoopClose]) [] in
  hd (ERet RC_ERR) (i_tr (snd st)) = ERet RC_OK /\
  In (3, mkE (OLoop 0 SBackend) true true) (i_led (snd st)).
Proof. vm_compute. split; [reflexivity | auto 10]. Qed.

Lemma leak_witness_fixed :
  let st := run true stdio3 (leak_prog ++ [OLoopClose]) [] in
  i_led (snd st) = [(6, mkE (OProc true) true true); (5, mkE (OProc false) true true);
                    (0, mkE OUser false false); (1, mkE OUser false false); (2, mkE OUser false false)].
Proof. vm_compute. reflexivity. Qed.

Lemma double_close_witness :
  In (ERawClose 13 None) (i_tr (snd (run false stdio3 double_close_prog []))).
Proof. vm_compute. auto 20. Qed.

Lemma tcp_example :
  let st := run true stdio3 (tcp_prog ++ [OLoopClose]) [] in
  hd (ERet RC_ERR) (i_tr (snd st)) = ERet RC_OK /\ m_leaked (fst st) = [] /\
  length (i_led (snd st)) = 5.
Proof. vm_compute. auto. Qed.

(* ------------------------------------------------------------------ *)
(* the code as it is (m_fixed = true): no close by remembered number    *)
(* ------------------------------------------------------------------ *)
Fixpoint no_raw {A} (p : prog A) : Prop :=
  match p with
  | Ret _ => True
  | Create _ _ _ c => forall a, no_raw (c a)
  | RawClose _ _ => False
  | CloseIf _ _ c | Relabel _ c | UserClose _ c | UserAdd _ _ c => no_raw c
  | Adopt _ _ c => forall b, no_raw (c b)
  | Has _ c => forall b, no_raw (c b)
  | Count _ c => forall n, no_raw (c n)
  | FdOf _ c => forall x, no_raw (c x)
  end.

Definition trace_no_raw (tr : list event) : Prop := forall fd x, ~ In (ERawClose fd x) tr.

Lemma close_if_no_raw : forall p g L L' ev fd x, close_if p g L = (L', ev) -> ~ In (ERawClose fd x) ev.
Proof.
  induction L as [|[n e1] r IH]; intros L' ev fd x H Hin; cbn in H.
  - inversion H; subst. destruct Hin.
  - destruct (close_if p g r) as [r' ev'] eqn:E. destruct (p (e_owner e1)).
    + destruct (g && Nat.leb n 2); inversion H; subst;
        (destruct Hin as [Hin | Hin]; [discriminate | eapply IH; eauto]).
    + inversion H; subst. eapply IH; eauto.
Qed.

Lemma user_close_no_raw : forall sel L L' ev fd x, user_close sel L = (L', ev) -> ~ In (ERawClose fd x) ev.
Proof.
  induction L as [|[n e1] r IH]; intros L' ev fd x H Hin; cbn in H.
  - inversion H; subst. destruct Hin.
  - destruct (user_close sel r) as [r' ev'] eqn:E.
    destruct (sel n (e_owner e1) && is_user (e_owner e1)); inversion H; subst.
    + destruct Hin as [Hin | Hin]; [discriminate | eapply IH; eauto].
    + eapply IH; eauto.
Qed.

Lemma no_raw_sound {A} (p : prog A) : forall s,
  no_raw p -> trace_no_raw (i_tr s) -> trace_no_raw (i_tr (snd (run_prog p s))).
Proof.
  induction p as [a | k os cx c IH | p g c IH | f c IH | fd o' c IH | p c IH | p c IH | ow c IH
                 | fd c IH | sel c IH | fd cx c IH]; intros s Hp Ht; cbn in Hp |- *.
  - auto.
  - destruct (next_ans (i_orc s)) as [a orc]. destruct a.
    + destruct (alloc (i_led s) os cx) as [L fds]. apply IH; cbn; auto.
      intros n x [H | H]; [discriminate | eapply Ht; eauto].
    + apply IH; cbn; auto. intros n x [H | H]; [discriminate | eapply Ht; eauto].
    + apply IH; cbn; auto. intros n x [H | H]; [discriminate | eapply Ht; eauto].
  - destruct (close_if p g (i_led s)) as [L ev] eqn:E. apply IH; cbn; auto.
    intros n x H. apply in_app_or in H. destruct H as [H | H]; [| eapply Ht; eauto].
    apply in_rev in H. eapply close_if_no_raw; eauto.
  - apply IH; auto.
  - destruct (adopt fd o' (i_led s)) as [L x]. destruct x as [from|]; apply IH; cbn; auto.
    intros n x [H | H]; [discriminate | eapply Ht; eauto].
  - apply IH; auto.
  - apply IH; auto.
  - apply IH; auto.
  - destruct Hp.
  - destruct (user_close sel (i_led s)) as [L ev] eqn:E. apply IH; cbn; auto.
    intros n x H. apply in_app_or in H. destruct H as [H | H]; [| eapply Ht; eauto].
    apply in_rev in H. eapply user_close_no_raw; eauto.
  - apply IH; auto.
Qed.

Ltac walknr :=
  repeat first
    [ progress cbn -[own_is is_queued is_temp move shift_queue hok is_open add_handle set_hst all_closed Nat.mul is_lib]
    | progress unfold init_fail_tail, spawn_error_temps
    | match goal with
      | |- _ /\ _ => split
      | |- True => exact I
      | |- forall _, _ => intro
      | |- no_raw (if ?b then _ else _) => destruct b
      | |- no_raw ((if ?b then _ else _) _) => destruct b
      | |- no_raw (match ?x with _ => _ end) => destruct x
      end ].

Lemma nr_accept_shed m l h : forall fuel, no_raw (accept_shed fuel l h m).
Proof. induction fuel; walknr; auto. Qed.
Lemma nr_recv_keep h : forall n c, no_raw c -> no_raw (recv_keep h n c).
Proof. induction n; intros c Hc; walknr; auto. Qed.
Lemma nr_recv_drop : forall n j c, no_raw c -> no_raw (recv_drop j n c).
Proof. induction n; intros j c Hc; walknr; auto. Qed.
Lemma nr_recvfds m h n keep : no_raw (op_recvfds m h n keep).
Proof.
  unfold op_recvfds. destruct (Nat.leb n keep); repeat (apply nr_recv_keep || apply nr_recv_drop); exact I.
Qed.
Lemma nr_spawn_unwind m : m_fixed m = true -> forall done c, no_raw c -> no_raw (spawn_unwind m done c).
Proof.
  intros Hf. induction done as [|sh r IH]; intros c Hc; walknr; auto.
  apply IH. destruct x; [rewrite Hf|]; auto.
Qed.
Lemma nr_spawn_open m rc : m_fixed m = true -> forall sd i done, no_raw (spawn_open m i sd done rc).
Proof.
  intros Hf. induction sd as [|x r IH]; intros i done; [exact I|].
  destruct x; walknr; auto; apply nr_spawn_unwind; auto; walknr.
Qed.
Lemma nr_spawn_pairs : forall sd i k, (forall b, no_raw (k b)) -> no_raw (spawn_pairs i sd k).
Proof. induction sd as [|x r IH]; intros i k Hk; [apply Hk|]. destruct x; walknr; auto. Qed.

Theorem op_no_raw m o : m_fixed m = true -> no_raw (op_prog m o).
Proof.
  intros Hf. unfold op_prog. destruct (m_abort m); [exact I|].
  destruct o; try (unfold op_loop_init, op_loop_close, op_iou_lazy, op_hinit, op_ensure, op_pipe_bind, op_open,
    op_accept, op_close, op_run, op_fsevent_start, op_give1, op_give2, op_user_close, op_user_close_fd,
    op_user_add, op_slurp; walknr; fail).
  - unfold op_srvio. walknr. apply nr_accept_shed.
  - destruct (hok m h HAcc); [apply nr_recvfds | exact I].
  - unfold op_spawn. walknr. apply nr_spawn_pairs. intros b. walknr; apply nr_spawn_open; exact Hf.
Qed.

(* every close libuv performs, in every program of the current code, goes through a descriptor
   field and targets an entry libuv owns; there is no close by number at all *)
Theorem never_close_foreign_current fds ops orc :
  let tr := i_tr (snd (run true fds ops orc)) in
  (forall fd o, In (EClose fd o) tr \/ In (EKeep fd o) tr -> is_lib o = true) /\
  (forall fd x, ~ In (ERawClose fd x) tr).
Proof.
  cbn zeta. split; [exact (never_close_foreign true fds ops orc)|].
  unfold run.
  assert (H0 : Inv (minit true, mkI (user_ledger fds) orc []) /\
               m_fixed (fst (minit true, mkI (user_ledger fds) orc [])) = true /\
               trace_no_raw (i_tr (snd (minit true, mkI (user_ledger fds) orc [])))).
  { split; [apply init_inv | split; [reflexivity | intros fd x []]]. }
  revert H0. generalize (minit true, mkI (user_ledger fds) orc []).
  induction ops as [|o r IH]; intros st (HI & Hf & Ht); cbn; auto.
  apply IH. destruct (step_spec st o HI) as (HI' & Hf' & _).
  split; [exact HI' | split; [congruence |]].
  unfold step.
  pose proof (no_raw_sound (op_prog (fst st) o) (snd st) (op_no_raw _ _ Hf) Ht) as H1.
  destruct (run_prog (op_prog (fst st) o) (snd st)) as [r0 s0]. cbn in *.
  intros fd x [H | H]; [discriminate | eapply H1; eauto].
Qed.

(* a uv_spawn that fails during stdio setup (UV_EINVAL from a CREATE_PIPE container whose handle is
   not a pipe) after an inherited stream and a created pair *)
Definition failing_spawn_prog : list op :=
  [OLoopInit 0 true; OHInit 0 TTcp true; OHInit 1 TPipe false;
   OSpawn 2 [SdInherit; SdPipe 1; SdBadPipe] true].
Lemma failing_spawn_example :
  let st := run true stdio3 failing_spawn_prog [] in
  hd (ERet RC_OK) (i_tr (snd st)) = ERet RC_ERR /\
  fd_of (OHandle 0 HIo) (i_led (snd st)) = Some 11 /\ count_if is_temp (i_led (snd st)) = 0 /\
  In (EClose 12 (OTemp 2)) (i_tr (snd st)) /\ In (EClose 13 (OTemp 3)) (i_tr (snd st)).
Proof. vm_compute. repeat split; auto 10. Qed.

(* the ring route of uv_fs_open: the only creation step carries the close-on-exec flag *)
Lemma ring_open_cx m g : all_cx (op_iou_open m g).
Proof. unfold op_iou_open, op_give1. walkcx. Qed.
