(* C08, layer C: progress.  In every reachable state with an unfinished request some thread
   can take a step without any spurious wake-up (no deadlock, no lost wake-up). *)
From UV Require Import Lib.Base Model.ThreadPool Proofs.ThreadPoolDefs Proofs.ThreadPoolProofsB.

Arguments threshold : simpl never.

(* ---- counting requests ---- *)
Definition countr (p : req -> bool) (n : nat) (f : nat -> req) : nat :=
  length (filter (fun i => p (f i)) (seq 0 n)).

Lemma cntr_notin p (f : nat -> req) i v l :
  ~ In i l ->
  length (filter (fun j => p (updf f i v j)) l) = length (filter (fun j => p (f j)) l).
Proof.
  induction l as [|x l IH]; intros H; cbn [filter]; [reflexivity|].
  rewrite updf_other by (intros ->; apply H; left; reflexivity).
  destruct (p (f x)); cbn [length]; rewrite IH; auto; intros K; apply H; right; exact K.
Qed.

Lemma cntr_in p (f : nat -> req) i v l :
  NoDup l -> In i l ->
  length (filter (fun j => p (updf f i v j)) l) + b2n (p (f i)) =
  length (filter (fun j => p (f j)) l) + b2n (p v).
Proof.
  induction l as [|x l IH]; intros ND HI; [destruct HI|].
  inversion ND as [|? ? Hx ND']; subst.
  cbn [filter]. destruct HI as [->|HI].
  - rewrite updf_same. pose proof (cntr_notin p f i v l Hx) as K.
    destruct (p v), (p (f i)); cbn [length b2n]; lia.
  - assert (x <> i) by (intros ->; contradiction).
    rewrite updf_other by exact H.
    specialize (IH ND' HI).
    destruct (p (f x)); cbn [length]; lia.
Qed.

Lemma countr_updf p n f i v :
  i < n -> countr p n (updf f i v) + b2n (p (f i)) = countr p n f + b2n (p v).
Proof.
  intros H. unfold countr. apply cntr_in; [apply seq_NoDup | apply in_seq; lia].
Qed.

Lemma countr_updf_out p n f i v : n <= i -> countr p n (updf f i v) = countr p n f.
Proof. intros H. unfold countr. apply cntr_notin. rewrite in_seq. lia. Qed.

Lemma countr_S p n f : countr p (S n) f = countr p n f + b2n (p (f n)).
Proof.
  unfold countr. rewrite seq_S, filter_app, app_length. cbn [filter plus].
  destruct (p (f n)); reflexivity.
Qed.

Lemma countr_pos p n f i : i < n -> p (f i) = true -> 1 <= countr p n f.
Proof.
  intros H Hp. unfold countr.
  assert (In i (filter (fun j => p (f j)) (seq 0 n))) as K.
  { apply filter_In. split; [apply in_seq; lia | exact Hp]. }
  destruct (filter (fun j => p (f j)) (seq 0 n)); [destruct K | cbn [length]; lia].
Qed.

(* request q belongs to loop l and has not had its callback *)
Definition unf_st (st : rstate) : bool :=
  match st with RFree | Done _ => false | _ => true end.
Definition unf (l : nat) (q : req) : bool := Nat.eqb (r_loop q) l && unf_st (r_st q).

(* ---- the invariant ---- *)
Definition loop_ok (x : loopst) : Prop :=
  (l_pc x = LReady -> cur_op x <> None) /\
  (l_in_done x = true ->
     l_pc x = LReady \/ (exists r, l_pc x = LCancel2 r) \/ (exists r, l_pc x = LCancel3 r)) /\
  (l_pc x = LWorkDone \/ l_pc x = LDrain \/ l_pc x = LEnd -> l_in_done x = false /\ l_cb x = []) /\
  (l_pc x = LEnd -> l_active x = 0) /\
  (l_wq x <> [] -> l_pending x = true \/ l_pc x = LWorkDone).

Definition actives_ok (s : state) : Prop :=
  forall l, l_active (lp s l) = countr (unf l) (nreq s) (reqs s).

Record InvC (c : config) (s : state) : Prop := mkInvC {
  c_loops_ok : forall l, loop_ok (lp s l);
  c_active : actives_ok s;
  c_gm : forall l, gmutex s = Some l -> l < c_loops c /\ exists r, l_pc (lp s l) = LCancel2 r;
  c_p5 : wait_pred c s = false -> exists w, w < c_n c /\ wk s w <> WWait false;
  c_looplt : forall r, r_st (reqs s r) <> RFree -> r_loop (reqs s r) < c_loops c
}.

Lemma countr_same p n f i v : p (f i) = p v -> countr p n (updf f i v) = countr p n f.
Proof.
  intros E. destruct (Nat.lt_ge_cases i n) as [H | H].
  - pose proof (countr_updf p n f i v H) as K. rewrite E in K. lia.
  - apply countr_updf_out. exact H.
Qed.

(* ---- shape of the state a worker leaves behind ---- *)
Definition wl_result (c : config) (w : nat) (s s' : state) : Prop :=
  lp s' = lp s /\ gmutex s' = gmutex s /\ nreq s' = nreq s /\
  ((wk s' w = WWait false /\ wait_pred c s' = true /\ reqs s' = reqs s) \/
   (exists r b, wk s' w = WRun r b /\ (In (IWork r) (wq s) \/ In r (sp s)) /\
                reqs s' = updf (reqs s) r
                            (mkReq (r_loop (reqs s r)) (r_kind (reqs s r)) (r_work (reqs s r)) (Running w))) \/
   (wk s' w = WRelock false /\ reqs s' = reqs s) \/
   (wk s' w = WExited /\ reqs s' = reqs s)).

Lemma signal_if_idle_frame c t aux s :
  lp (signal_if_idle c t aux s) = lp s /\ gmutex (signal_if_idle c t aux s) = gmutex s.
Proof.
  unfold signal_if_idle. destruct (0 <? idle s); [|auto].
  unfold signal. cbn. destruct (waiters (c_n c) (wk s)); cbn; auto.
Qed.

Lemma signal_frame c t aux s :
  lp (signal c t aux s) = lp s /\ gmutex (signal c t aux s) = gmutex s /\
  nreq (signal c t aux s) = nreq s /\ reqs (signal c t aux s) = reqs s.
Proof. unfold signal. cbn. destruct (waiters (c_n c) (wk s)); cbn; auto. Qed.

Lemma wloop_shape fuel : forall c t w aux s, wl_result c w s (wloop fuel c t w aux s).
Proof.
  induction fuel as [|fuel IH]; intros c t w aux s; cbn [wloop].
  - destruct (wait_pred c s) eqn:Ew.
    + unfold wl_result. cbn. repeat split; auto. left. rewrite updf_same. repeat split; auto.
    + unfold wl_result. cbn. repeat split; auto. right. right. left. rewrite updf_same. auto.
  - destruct (wait_pred c s) eqn:Ew.
    + unfold wl_result. cbn. repeat split; auto. left. rewrite updf_same. repeat split; auto.
    + destruct (wq s) as [|[r| |] rest] eqn:Eq.
      * unfold wait_pred in Ew. rewrite Eq in Ew. discriminate.
      * unfold wl_result. cbn. repeat split; auto. right. left. exists r, false.
        rewrite updf_same. repeat split; auto. left. rewrite Eq. left. reflexivity.
      * destruct (threshold (c_n c) <=? running s).
        -- destruct (IH c t w aux (set_wq s (rest ++ [ISlowMsg]))) as (E1 & E2 & E3 & K).
           unfold wl_result. cbn in *. repeat split; auto.
           destruct K as [K | [(r & b & K1 & K2 & K3) | K]]; [left; exact K | | right; right; exact K].
           right. left. exists r, b. repeat split; auto.
           destruct K2 as [K2 | K2]; [|right; exact K2]. left.
           rewrite Eq. apply in_app_or in K2. destruct K2 as [K2 | [K2 | []]]; [right; exact K2 | discriminate].
        -- destruct (sp s) as [|r sp'] eqn:Esp.
           ++ destruct (IH c t w aux (set_wq s rest)) as (E1 & E2 & E3 & K).
              unfold wl_result. cbn in *. repeat split; auto.
              destruct K as [K | [(r & b & K1 & K2 & K3) | K]]; [left; exact K | | right; right; exact K].
              right. left. exists r, b. repeat split; auto.
              destruct K2 as [K2 | K2]; [left; rewrite Eq; right; exact K2 | right; exact K2].
           ++ unfold wl_result.
              destruct sp' as [|r2 sp''].
              ** cbn. repeat split; auto. right. left. exists r, true. rewrite updf_same.
                 repeat split; auto. right. rewrite Esp. left. reflexivity.
              ** match goal with |- context [signal_if_idle c t aux ?x] => set (s1 := x) end.
                 destruct (signal_if_idle_frame c t aux s1) as [F1 F2].
                 destruct (signal_if_idle_rel c t aux s1) as (G1 & G2 & G3 & G4 & G5 & G6 & G7).
                 cbn. rewrite F1, F2, G5, G6. cbn. repeat split; auto.
                 right. left. exists r, true. rewrite updf_same. repeat split; auto. right. rewrite Esp. left. reflexivity.
      * unfold wl_result. destruct (signal_frame c t aux s) as (F1 & F2 & F3 & F4).
        cbn. rewrite F1, F2, F3, F4. repeat split; auto. right. right. right. rewrite updf_same. auto.
Qed.

Lemma wstep_prefix_C c s t w aux s' :
  (exists b, wk s w = WRelock b) \/ (exists sg, wk s w = WWait sg) ->
  wstep c t w aux s = Some s' ->
  exists s2, s' = wloop wloop_fuel c t w aux s2 /\ wq s2 = wq s /\ sp s2 = sp s /\
             reqs s2 = reqs s /\ lp s2 = lp s /\ gmutex s2 = gmutex s /\ nreq s2 = nreq s.
Proof.
  unfold wstep. intros [[slow Epc] | [sg Epc]]; rewrite Epc.
  - destruct (is_free (gmutex s)); [|discriminate]. intros E; apply some_eq in E; subst s'.
    eexists. split; [reflexivity|]. destruct slow; cbn; repeat split; reflexivity.
  - destruct ((sg || (aux =? 1)) && is_free (gmutex s)); [|discriminate].
    intros E; apply some_eq in E; subst s'.
    eexists. split; [reflexivity|]. cbn; repeat split; reflexivity.
Qed.

Lemma unf_running l (q : req) w :
  r_st q = Queued -> unf l (mkReq (r_loop q) (r_kind q) (r_work q) (Running w)) = unf l q.
Proof. intros E. unfold unf. cbn. rewrite E. reflexivity. Qed.

Lemma InvC_worker_result c s s' w :
  InvC c s -> w < c_n c ->
  lp s' = lp s -> gmutex s' = gmutex s -> nreq s' = nreq s ->
  (reqs s' = reqs s \/
   exists r, r_st (reqs s r) = Queued /\
             reqs s' = updf (reqs s) r
                         (mkReq (r_loop (reqs s r)) (r_kind (reqs s r)) (r_work (reqs s r)) (Running w))) ->
  (wait_pred c s' = false -> wk s' w <> WWait false) ->
  InvC c s'.
Proof.
  intros H Hw El Eg En Er Hp. destruct H. constructor.
  - intros l. rewrite El. apply c_loops_ok0.
  - intros l. rewrite El, En. rewrite c_active0.
    destruct Er as [-> | (r & Hq & ->)]; [reflexivity|].
    symmetry. apply countr_same. symmetry. apply unf_running. exact Hq.
  - intros l. rewrite Eg, El. apply c_gm0.
  - intros K. exists w. split; [exact Hw | apply Hp; exact K].
  - intros r. destruct Er as [-> | (r0 & Hq & ->)]; [apply c_looplt0|].
    unfold updf. destruct (Nat.eqb_spec r r0); subst; cbn; [|apply c_looplt0].
    intros _. apply c_looplt0. rewrite Hq. discriminate.
Qed.

Lemma countr_ext p n f g : (forall i, f i = g i) -> countr p n f = countr p n g.
Proof.
  intros H. unfold countr. f_equal. apply filter_ext. intros i. rewrite H. reflexivity.
Qed.

Lemma complete_fields t w r slow s :
  (forall r0, reqs (complete t w r slow s) r0 =
              updf (reqs s) r (mkReq (r_loop (reqs s r)) (r_kind (reqs s r)) WNull Finished) r0) /\
  lp (complete t w r slow s) =
    updf (lp s) (r_loop (reqs s r))
         (lset_pending (lset_wq (lp s (r_loop (reqs s r))) (l_wq (lp s (r_loop (reqs s r))) ++ [r])) true) /\
  nreq (complete t w r slow s) = nreq s /\ gmutex (complete t w r slow s) = gmutex s /\
  wq (complete t w r slow s) = wq s /\ running (complete t w r slow s) = running s /\
  wk (complete t w r slow s) = updf (wk s) w (WRelock slow).
Proof.
  unfold complete. cbn. repeat split; auto.
  intros r0. unfold updf. destruct (Nat.eqb_spec r0 r); subst; cbn; [|reflexivity].
  rewrite Nat.eqb_refl. reflexivity.
Qed.

Lemma loop_ok_wq_pending x q : loop_ok x -> loop_ok (lset_pending (lset_wq x q) true).
Proof.
  unfold loop_ok, cur_op. cbn. intros (K1 & K2 & K3 & K4 & K5).
  split; [exact K1 | split; [exact K2 | split; [exact K3 | split; [exact K4 | intros _; left; reflexivity]]]].
Qed.

Lemma InvC_wstep c s t w aux s' :
  InvA c s -> InvB c s -> InvC c s -> w < c_n c ->
  wstep c t w aux s = Some s' -> InvC c s'.
Proof.
  intros HA HB HC Hw Hstep.
  destruct (wk s w) as [slow | sg | r slow |] eqn:Epc.
  - destruct (wstep_prefix_C c s t w aux s') as (s2 & -> & E1 & E2 & E3 & E4 & E5 & E6); eauto.
    destruct (wloop_shape wloop_fuel c t w aux s2) as (F1 & F2 & F3 & K).
    apply (InvC_worker_result c s _ w HC Hw); try congruence.
    + destruct K as [(_ & _ & K) | [(r & b & _ & K2 & K3) | [(_ & K) | (_ & K)]]]; try (left; congruence).
      right. exists r. split; [| rewrite K3, E3; reflexivity].
      apply (a_queued c s HA). rewrite <- E1, <- E2.
      apply in_or_app. destruct K2 as [K2 | K2]; [left | right; exact K2].
      unfold wq_reqs. apply in_flat_map. exists (IWork r). split; [exact K2 | left; reflexivity].
    + intros Kp. destruct K as [(_ & K & _) | [(r & b & K & _) | [(K & _) | (K & _)]]]; congruence.
  - destruct (wstep_prefix_C c s t w aux s') as (s2 & -> & E1 & E2 & E3 & E4 & E5 & E6); eauto.
    destruct (wloop_shape wloop_fuel c t w aux s2) as (F1 & F2 & F3 & K).
    apply (InvC_worker_result c s _ w HC Hw); try congruence.
    + destruct K as [(_ & _ & K) | [(r & b & _ & K2 & K3) | [(_ & K) | (_ & K)]]]; try (left; congruence).
      right. exists r. split; [| rewrite K3, E3; reflexivity].
      apply (a_queued c s HA). rewrite <- E1, <- E2.
      apply in_or_app. destruct K2 as [K2 | K2]; [left | right; exact K2].
      unfold wq_reqs. apply in_flat_map. exists (IWork r). split; [exact K2 | left; reflexivity].
    + intros Kp. destruct K as [(_ & K & _) | [(r & b & K & _) | [(K & _) | (K & _)]]]; congruence.
  - (* complete *)
    unfold wstep in Hstep. rewrite Epc in Hstep. apply some_eq in Hstep. subst s'.
    assert (r_st (reqs s r) = Running w) as Hst by (apply (a_running c s HA); eauto).
    destruct (complete_fields t w r slow s) as (Er & El & En & Eg & Eq & Erun & Ewk).
    set (Q := mkReq (r_loop (reqs s r)) (r_kind (reqs s r)) WNull Finished) in *.
    assert (forall l, countr (unf l) (nreq s) (reqs (complete t w r slow s)) =
                      countr (unf l) (nreq s) (reqs s)) as Ec.
    { intros l. rewrite (countr_ext _ _ _ _ Er). apply countr_same.
      unfold unf, Q. cbn. rewrite Hst. reflexivity. }
    destruct HC. constructor.
    + intros l. rewrite El. unfold updf. destruct (Nat.eqb_spec l (r_loop (reqs s r))); [|apply c_loops_ok0].
      subst l. apply loop_ok_wq_pending. apply c_loops_ok0.
    + intros l. rewrite En, Ec, El. unfold updf.
      destruct (Nat.eqb_spec l (r_loop (reqs s r))); [subst l; cbn|]; apply c_active0.
    + intros l. rewrite Eg, El. intros K. destruct (c_gm0 l K) as [K1 [r0 K2]]. split; [exact K1|].
      exists r0. unfold updf. destruct (Nat.eqb_spec l (r_loop (reqs s r))); cbn; [subst l|]; exact K2.
    + intros _. exists w. split; [exact Hw|]. rewrite Ewk, updf_same. discriminate.
    + intros r0. rewrite Er. unfold updf.
      destruct (Nat.eqb_spec r0 r); subst; cbn; [|apply c_looplt0].
      intros _. apply c_looplt0. rewrite Hst. discriminate.
  - unfold wstep in Hstep. rewrite Epc in Hstep. discriminate.
Qed.

(* ================================================================== *)
(* loop threads *)

Definition p5 (c : config) (s : state) : Prop :=
  wait_pred c s = false -> exists w, w < c_n c /\ wk s w <> WWait false.

Record InvL (c : config) (s : state) : Prop := mkInvL {
  l_loops_ok : forall l, loop_ok (lp s l);
  l_act : actives_ok s;
  l_gm : forall l, gmutex s = Some l -> l < c_loops c /\ exists r, l_pc (lp s l) = LCancel2 r;
  l_looplt : forall r, r_st (reqs s r) <> RFree -> r_loop (reqs s r) < c_loops c
}.

Lemma InvC_split c s : InvC c s <-> InvL c s /\ p5 c s.
Proof.
  split.
  - intros []. split; [constructor; auto | exact c_p6].
  - intros [[] H]. constructor; auto.
Qed.

Lemma p5_sameB c s s' : sameB s s' -> p5 c s -> p5 c s'.
Proof.
  intros (E1 & E2 & E3 & E4 & E5 & E6 & E7) H. unfold p5, wait_pred in *. rewrite E1, E3, E6. exact H.
Qed.

Definition local_ok (l : nat) (s : state) : Prop :=
  NoDup (l_local (lp s l)) /\
  forall r, In r (l_local (lp s l)) ->
    r < nreq s /\ r_loop (reqs s r) = l /\ unf_st (r_st (reqs s r)) = true.

(* everything InvL says, except about the pc of loop l, which is being rewritten *)
Record InvLx (c : config) (l : nat) (s : state) : Prop := mkInvLx {
  x_act : actives_ok s;
  x_others : forall l', l' <> l -> loop_ok (lp s l');
  x_gm : forall l', gmutex s = Some l' ->
           l' <> l /\ l' < c_loops c /\ exists r, l_pc (lp s l') = LCancel2 r;
  x_looplt : forall r, r_st (reqs s r) <> RFree -> r_loop (reqs s r) < c_loops c;
  x_wqp : l_wq (lp s l) <> [] -> l_pending (lp s l) = true;
  x_local : local_ok l s
}.

Definition settle_pc (x : loopst) : lpc :=
  match l_prog x with
  | _ :: _ => LReady
  | [] => if Nat.eqb (l_active x) 0 then LEnd else LDrain
  end.

Lemma settle_eq l s : settle l s = set_loop s l (lset_pc (lp s l) (settle_pc (lp s l))).
Proof. unfold settle, settle_pc. destruct (l_prog (lp s l)); reflexivity. Qed.

(* InvL from InvLx plus what is known about the new record of loop l *)
Lemma InvL_set_loop c l s x :
  InvLx c l s -> loop_ok x -> l_active x = l_active (lp s l) ->
  InvL c (set_loop s l x).
Proof.
  intros [] Hok Ha. constructor; cbn.
  - intros l'. unfold updf. destruct (Nat.eqb_spec l' l); [exact Hok | apply x_others0; assumption].
  - intros l'. cbn. unfold updf. destruct (Nat.eqb_spec l' l); [subst; rewrite Ha|]; apply x_act0.
  - intros l' K. destruct (x_gm0 l' K) as (K1 & K2 & K3). split; [exact K2|].
    unfold updf. destruct (Nat.eqb_spec l' l); [contradiction | exact K3].
  - exact x_looplt0.
Qed.

Lemma InvL_settle c l s :
  InvLx c l s -> l_cb (lp s l) = [] -> l_in_done (lp s l) = false -> InvL c (settle l s).
Proof.
  intros H Hcb Hd. rewrite settle_eq. apply InvL_set_loop; auto.
  - destruct H. unfold loop_ok, settle_pc, cur_op. cbn. rewrite Hcb, Hd.
    destruct (l_prog (lp s l)) eqn:Ep; [destruct (l_active (lp s l) =? 0) eqn:Ea|].
    + repeat split; try discriminate; auto. intros _. apply Nat.eqb_eq. exact Ea.
    + repeat split; try discriminate; auto.
    + repeat split; try discriminate; auto; intros [K | [K | K]]; discriminate.
Qed.

(* one delivery: r becomes Done, active_reqs of its loop goes down *)
Lemma actives_deliver1 l s r st x :
  actives_ok s -> r < nreq s -> r_loop (reqs s r) = l -> unf_st (r_st (reqs s r)) = true ->
  l_active x = pred (l_active (lp s l)) ->
  actives_ok (set_loop (set_rst s r (Done st)) l x).
Proof.
  intros Ha Hr Hl Hu Hx l'.
  set (Q := mkReq (r_loop (reqs s r)) (r_kind (reqs s r)) (r_work (reqs s r)) (Done st)).
  change (l_active (updf (lp s) l x l') = countr (unf l') (nreq s) (updf (reqs s) r Q)).
  pose proof (countr_updf (unf l') (nreq s) (reqs s) r Q Hr) as K.
  assert (unf l' (reqs s r) = (l =? l')) as E1.
  { unfold unf. rewrite Hl, Hu, andb_true_r. reflexivity. }
  assert (unf l' Q = false) as E2.
  { unfold unf, Q. cbn. apply andb_false_r. }
  rewrite E1, E2 in K. cbn [b2n] in K.
  unfold updf at 1. destruct (Nat.eqb_spec l' l).
  - subst l'. rewrite Hx, (Ha l). rewrite Nat.eqb_refl in K. cbn in K. lia.
  - rewrite (Ha l'). assert ((l =? l') = false) as E by (apply Nat.eqb_neq; congruence).
    rewrite E in K. cbn in K. lia.
Qed.

Lemma InvLx_emit c l s e : InvLx c l s -> InvLx c l (emit s e).
Proof. intros []. constructor; auto. Qed.

Lemma InvLx_deliver1 c l s r rest st e :
  InvLx c l s -> l_local (lp s l) = r :: rest ->
  InvLx c l (emit (set_loop (set_rst s r (Done st)) l
                     (lset_active (lset_local (lp s l) rest) (pred (l_active (lp s l))))) e).
Proof.
  intros H Hloc. apply InvLx_emit. destruct H.
  destruct x_local0 as [Hnd Hin]. rewrite Hloc in Hnd, Hin.
  destruct (Hin r (or_introl eq_refl)) as (Hr1 & Hr2 & Hr3).
  inversion Hnd as [|? ? Hnotin Hnd']; subst.
  constructor.
  - apply actives_deliver1; auto.
  - intros l' Hl. cbn. rewrite updf_other by exact Hl. apply x_others0. exact Hl.
  - intros l' K. cbn in K. destruct (x_gm0 l' K) as (K1 & K2 & K3). split; [exact K1 | split; [exact K2|]].
    cbn. rewrite updf_other by exact K1. exact K3.
  - intros r0. cbn. unfold updf. destruct (Nat.eqb_spec r0 r); subst; cbn; [|apply x_looplt0].
    intros _. apply x_looplt0. destruct (r_st (reqs s r)); try discriminate.
  - cbn. rewrite updf_same. cbn. exact x_wqp0.
  - unfold local_ok. cbn. rewrite updf_same. cbn. split; [exact Hnd'|].
    intros r0 Hr0. assert (r0 <> r) by (intros ->; contradiction).
    rewrite updf_other by assumption. apply Hin. right. exact Hr0.
Qed.

Lemma InvL_deliver c l : forall loc s,
  InvLx c l s -> l_local (lp s l) = loc -> l_cb (lp s l) = [] -> l_in_done (lp s l) = true ->
  InvL c (deliver c l loc s).
Proof.
  induction loc as [|r rest IH]; intros s H Hloc Hcb Hd; cbn [deliver].
  - apply InvL_settle.
    + pose proof H as H'. destruct H'. constructor; cbn; auto.
      * intros l'. cbn. unfold updf. destruct (Nat.eqb_spec l' l); [subst; cbn|]; apply x_act0.
      * intros l' Hl. rewrite updf_other by exact Hl. apply x_others0. exact Hl.
      * intros l' K. destruct (x_gm0 l' K) as (K1 & K2 & K3). split; [exact K1 | split; [exact K2|]].
        rewrite updf_other by exact K1. exact K3.
      * rewrite updf_same. cbn. exact x_wqp0.
      * unfold local_ok. cbn. rewrite updf_same. cbn. split; [constructor | intros r0 []].
    + cbn. rewrite updf_same. cbn. exact Hcb.
    + cbn. rewrite updf_same. reflexivity.
  - set (st := match r_work (reqs s r) with WCancelled => UV_ECANCELED | _ => 0%Z end).
    pose proof (InvLx_deliver1 c l s r rest st (EDone r l st) H Hloc) as H1.
    destruct (c_beh c r) as [|o ops] eqn:Eb.
    + apply IH.
      * exact H1.
      * cbn. rewrite updf_same. reflexivity.
      * cbn. rewrite updf_same. cbn. exact Hcb.
      * cbn. rewrite updf_same. cbn. exact Hd.
    + apply InvL_set_loop.
      * exact H1.
      * unfold loop_ok, cur_op. cbn. rewrite updf_same. cbn.
        repeat split; try discriminate; auto.
        -- destruct H0 as [K | [K | K]]; discriminate.
        -- destruct H0 as [K | [K | K]]; discriminate.
        -- intros K. left. destruct H. apply x_wqp0. exact K.
      * cbn. rewrite updf_same. reflexivity.
Qed.

Lemma loop_ok_ready x :
  l_pc x = LReady -> cur_op x <> None -> (l_wq x <> [] -> l_pending x = true) -> loop_ok x.
Proof.
  intros E1 E2 E3. unfold loop_ok. rewrite E1.
  split; [intros _; exact E2|]. split; [intros _; left; reflexivity|].
  split; [intros [K | [K | K]]; discriminate|]. split; [discriminate|].
  intros K. left. apply E3. exact K.
Qed.

Lemma InvLx_keep c l s x :
  InvLx c l s ->
  l_wq x = l_wq (lp s l) -> l_pending x = l_pending (lp s l) ->
  l_active x = l_active (lp s l) -> l_local x = l_local (lp s l) ->
  InvLx c l (set_loop s l x).
Proof.
  intros [] E1 E2 E3 E4. constructor; cbn; auto.
  - intros l'. cbn. unfold updf. destruct (Nat.eqb_spec l' l); [subst; rewrite E3|]; apply x_act0.
  - intros l' Hl. rewrite updf_other by exact Hl. apply x_others0. exact Hl.
  - intros l' K. destruct (x_gm0 l' K) as (K1 & K2 & K3). split; [exact K1 | split; [exact K2|]].
    rewrite updf_other by exact K1. exact K3.
  - rewrite updf_same, E1, E2. exact x_wqp0.
  - unfold local_ok in *. cbn. rewrite updf_same, E4. exact x_local0.
Qed.

Lemma pop_op_fields x :
  l_wq (pop_op x) = l_wq x /\ l_pending (pop_op x) = l_pending x /\
  l_active (pop_op x) = l_active x /\ l_local (pop_op x) = l_local x /\
  l_in_done (pop_op x) = l_in_done x.
Proof. unfold pop_op. destruct (l_cb x); cbn; auto. Qed.

Lemma InvL_advance c l s : InvLx c l s -> InvL c (advance c l s).
Proof.
  intros H. unfold advance.
  destruct (pop_op_fields (lp s l)) as (E1 & E2 & E3 & E4 & E5).
  pose proof (InvLx_keep c l s (pop_op (lp s l)) H E1 E2 E3 E4) as H1.
  destruct (l_cb (pop_op (lp s l))) as [|o ops] eqn:Ecb.
  - destruct (l_in_done (pop_op (lp s l))) eqn:Ed.
    + apply InvL_deliver; auto; cbn; rewrite updf_same; auto.
    + apply InvL_settle; auto; cbn; rewrite updf_same; auto.
  - apply InvL_set_loop; auto.
    + apply loop_ok_ready; cbn.
      * reflexivity.
      * unfold cur_op. cbn. rewrite Ecb. discriminate.
      * intros K. destruct H. rewrite E2. apply x_wqp0. rewrite <- E1. exact K.
    + cbn. rewrite updf_same. reflexivity.
Qed.

(* InvLx only looks at lp, nreq, reqs and gmutex *)
Lemma InvLx_ext c l s s' :
  InvLx c l s -> lp s' = lp s -> nreq s' = nreq s -> reqs s' = reqs s -> gmutex s' = gmutex s ->
  InvLx c l s'.
Proof.
  intros [] E1 E2 E3 E4. unfold actives_ok, local_ok in *.
  constructor; unfold actives_ok, local_ok; rewrite ?E1, ?E2, ?E3, ?E4; auto.
Qed.

Lemma NoDup_app_r {A} (a b : list A) : NoDup (a ++ b) -> NoDup b.
Proof. induction a as [|x a IH]; cbn; [auto|]. intros H. inversion H; subst. auto. Qed.
Lemma NoDup_app_l {A} (a b : list A) : NoDup (a ++ b) -> NoDup a.
Proof.
  induction a as [|x a IH]; cbn; [constructor|]. intros H. inversion H as [|? ? Hn Hd]; subst.
  constructor; [|auto]. intros K. apply Hn. apply in_or_app. left. exact K.
Qed.

Lemma loopq_member_ok c s l r :
  InvA c s -> In r (l_wq (lp s l) ++ l_local (lp s l)) ->
  r < nreq s /\ r_loop (reqs s r) = l /\ unf_st (r_st (reqs s r)) = true.
Proof.
  intros HA Hin. apply (a_loopq c s HA) in Hin. destruct Hin as [Hl Hst].
  assert (unf_st (r_st (reqs s r)) = true) as Hu by (destruct Hst as [-> | ->]; reflexivity).
  split; [|split; assumption].
  destruct (Nat.lt_ge_cases r (nreq s)) as [K | K]; [exact K|].
  apply (a_free c s HA) in K. rewrite K in Hu. discriminate.
Qed.

Lemma InvLx_of c l s s' :
  InvL c s -> InvA c s -> l_pc (lp s l) <> LWorkDone ->
  lp s' = lp s -> nreq s' = nreq s -> reqs s' = reqs s ->
  (gmutex s' = gmutex s /\ gmutex s <> Some l) \/ gmutex s' = None ->
  InvLx c l s'.
Proof.
  intros [] HA Hpc E1 E2 E3 Eg. unfold actives_ok in *.
  constructor; unfold actives_ok, local_ok; rewrite ?E1, ?E2, ?E3; auto.
  - intros l' K. destruct Eg as [[Eg Hn] | Eg]; [|congruence].
    rewrite Eg in K. destruct (l_gm0 l' K) as [K1 K2]. split; [congruence | split; assumption].
  - intros K. destruct (l_loops_ok0 l) as (_ & _ & _ & _ & K5). destruct (K5 K); [assumption | contradiction].
  - split.
    + eapply NoDup_app_r. apply (a_nodup_l c s HA).
    + intros r Hr. apply (loopq_member_ok c s l r HA). apply in_or_app. right. exact Hr.
Qed.

Lemma post_frame c l aux r k s :
  lp (post c l aux r k s) = lp s /\ nreq (post c l aux r k s) = nreq s /\
  reqs (post c l aux r k s) = reqs s /\ gmutex (post c l aux r k s) = gmutex s.
Proof.
  unfold post.
  assert (forall s0, lp (signal_if_idle c l aux s0) = lp s0 /\ nreq (signal_if_idle c l aux s0) = nreq s0 /\
                     reqs (signal_if_idle c l aux s0) = reqs s0 /\ gmutex (signal_if_idle c l aux s0) = gmutex s0) as K.
  { intros s0. destruct (signal_if_idle_frame c l aux s0) as [F1 F2].
    destruct (signal_if_idle_rel c l aux s0) as (_ & _ & _ & _ & G5 & G6 & _). auto. }
  destruct k.
  - cbn. match goal with |- context [signal_if_idle c l aux ?x] => destruct (K x) as (A1 & A2 & A3 & A4) end.
    rewrite A1, A2, A3, A4. cbn. auto.
  - cbn. match goal with |- context [signal_if_idle c l aux ?x] => destruct (K x) as (A1 & A2 & A3 & A4) end.
    rewrite A1, A2, A3, A4. cbn. auto.
  - match goal with |- context [if ?b then _ else _] => destruct b end.
    + cbn. auto.
    + cbn. match goal with |- context [signal_if_idle c l aux ?x] => destruct (K x) as (A1 & A2 & A3 & A4) end.
      rewrite A1, A2, A3, A4. cbn. auto.
Qed.

Lemma InvLx_submit c l s k e :
  InvLx c l s -> gmutex s = None -> l < c_loops c ->
  InvLx c l (set_loop (set_req (set_nreq (emit s e) (S (nreq s))) (nreq s) (mkReq l k WFn Queued)) l
                      (lset_active (lp s l) (S (l_active (lp s l))))).
Proof.
  intros [] Hg Hl. set (Q := mkReq l k WFn Queued).
  constructor.
  - intros l'.
    change (l_active (updf (lp s) l (lset_active (lp s l) (S (l_active (lp s l)))) l') =
            countr (unf l') (S (nreq s)) (updf (reqs s) (nreq s) Q)).
    rewrite countr_S, countr_updf_out by lia. rewrite updf_same.
    unfold updf. destruct (Nat.eqb_spec l' l).
    + subst l'. cbn. rewrite (x_act0 l). unfold unf, Q. cbn. rewrite Nat.eqb_refl. cbn. lia.
    + rewrite (x_act0 l'). unfold unf, Q. cbn.
      assert ((l =? l') = false) as E by (apply Nat.eqb_neq; congruence). rewrite E. cbn. lia.
  - intros l' Hn. cbn. rewrite updf_other by exact Hn. apply x_others0. exact Hn.
  - intros l' K. cbn in K. congruence.
  - intros r. cbn. unfold updf. destruct (Nat.eqb_spec r (nreq s)); [cbn; intros _; exact Hl | apply x_looplt0].
  - cbn. rewrite updf_same. cbn. exact x_wqp0.
  - destruct x_local0 as [Hnd Hin]. unfold local_ok. cbn. rewrite updf_same. cbn. split; [exact Hnd|].
    intros r Hr. destruct (Hin r Hr) as (K1 & K2 & K3).
    rewrite updf_other by lia. repeat split; auto.
Qed.

(* p5 after post *)
Lemma waiters_nil_no_unsignalled n f :
  waiters n f = [] -> forall w, w < n -> f w <> WWait false.
Proof.
  unfold waiters. intros H w Hw K.
  assert (In w (filter (fun i => unsignalled (f i)) (seq 0 n))) as Hin.
  { apply filter_In. split; [apply in_seq; lia | rewrite K; reflexivity]. }
  rewrite H in Hin. destruct Hin.
Qed.

Lemma countw_zero_none p n f : countw p n f = 0 -> forall w, w < n -> p (f w) = false.
Proof.
  intros H w Hw. destruct (p (f w)) eqn:E; [|reflexivity].
  pose proof (countw_pos p n f w Hw E). lia.
Qed.

Lemma countw_pos_exists p n f : 1 <= countw p n f -> exists w, w < n /\ p (f w) = true.
Proof.
  unfold countw. intros H.
  destruct (filter (fun i => p (f i)) (seq 0 n)) as [|w rest] eqn:E; [cbn in H; lia|].
  assert (In w (filter (fun i => p (f i)) (seq 0 n))) as K by (rewrite E; left; reflexivity).
  apply filter_In in K. destruct K as [K1 K2]. apply in_seq in K1. exists w. split; [lia | exact K2].
Qed.

(* after signal_if_idle on a state satisfying InvB, some worker is not asleep unsignalled *)
Lemma signal_if_idle_awake c t aux s :
  InvB c s -> 1 <= c_n c ->
  exists w, w < c_n c /\ wk (signal_if_idle c t aux s) w <> WWait false.
Proof.
  intros HB Hn. unfold signal_if_idle. destruct (0 <? idle s) eqn:Ei.
  - apply Nat.ltb_lt in Ei. unfold signal. cbn [sync_ev emit wk].
    destruct (waiters (c_n c) (wk s)) as [|a ws] eqn:Ew.
    + destruct HB. rewrite b_idle in Ei. destruct (countw_pos_exists _ _ _ Ei) as (w & Hw & Hp).
      exists w. split; [exact Hw|]. cbn. apply (waiters_nil_no_unsignalled _ _ Ew w Hw).
    + set (i := nth (aux mod length (a :: ws)) (a :: ws) 0).
      assert (In i (waiters (c_n c) (wk s))) as Hi.
      { rewrite Ew. apply nth_In. apply Nat.mod_upper_bound. cbn [length]. lia. }
      unfold waiters in Hi. apply filter_In in Hi. destruct Hi as [Hs _]. apply in_seq in Hs.
      exists i. split; [lia|]. cbn. rewrite updf_same. discriminate.
  - apply Nat.ltb_ge in Ei. destruct HB. exists 0. split; [lia|].
    assert (idle s = 0) as E0 by lia. rewrite b_idle in E0.
    pose proof (countw_zero_none _ _ _ E0 0 Hn) as K. intros K2. rewrite K2 in K. discriminate.
Qed.

Lemma p5_post c s l aux k x :
  InvB c s -> p5 c s -> 1 <= c_n c ->
  p5 c (post c l aux (nreq s) k
          (set_loop (set_req (set_nreq (emit s (ESubmit (nreq s) l k)) (S (nreq s))) (nreq s)
                             (mkReq l k WFn Queued)) l x)).
Proof.
  intros HB HP Hn. unfold post. destruct k.
  - intros _.
    match goal with |- context [signal_if_idle c l aux ?y] => assert (InvB c y) as HY end.
    { eapply (InvB_enqueue c s l KCpu _ HB); cbn; auto. }
    destruct (signal_if_idle_awake c l aux _ HY Hn) as (w & Hw & K).
    exists w; split; [exact Hw | exact K].
  - intros _.
    match goal with |- context [signal_if_idle c l aux ?y] => assert (InvB c y) as HY end.
    { eapply (InvB_enqueue c s l KFast _ HB); cbn; auto. }
    destruct (signal_if_idle_awake c l aux _ HY Hn) as (w & Hw & K).
    exists w; split; [exact Hw | exact K].
  - cbn [sync_ev emit set_sp wq sp].
    match goal with |- context [has_marker ?q] => change q with (wq s) end.
    destruct (has_marker (wq s)) eqn:E.
    + unfold p5, wait_pred in *. cbn. exact HP.
    + intros _.
      match goal with |- context [signal_if_idle c l aux ?y] => assert (InvB c y) as HY end.
      { eapply (InvB_enqueue c s l KSlow _ HB); cbn; auto. rewrite E. auto. }
      destruct (signal_if_idle_awake c l aux _ HY Hn) as (w & Hw & K).
      exists w; split; [exact Hw | exact K].
Qed.

(* removing a request from the queues cannot make work appear *)
Lemma wait_pred_remw c s r q' sp' :
  q' = remw r (wq s) ->
  wait_pred c (set_sp (set_wq s q') sp') = false -> wait_pred c s = false.
Proof.
  intros ->. unfold wait_pred. cbn [set_sp set_wq wq running].
  destruct (wq s) as [|x [|y q]]; cbn.
  - auto.
  - destruct x as [r0| |]; cbn; auto.
  - destruct x; auto.
Qed.

Lemma p5_lstep c s l aux s' :
  InvB c s -> p5 c s -> 1 <= c_n c -> lstep c l aux s = Some s' -> p5 c s'.
Proof.
  intros HB HP Hn. unfold lstep.
  destruct (l_pc (lp s l)) as [| r | r | | |] eqn:Epc.
  - destruct (cur_op (lp s l)) as [[k | r | |]|]; [| | | |discriminate].
    4: { intros E; apply some_eq in E; subst s'. eapply p5_sameB; [|exact HP]. sBe. }
    + destruct (is_free (gmutex s)); [|discriminate].
      intros E; apply some_eq in E; subst s'.
      eapply p5_sameB; [apply sameB_advance|]. apply p5_post; assumption.
    + destruct (valid_cancel s l r).
      * destruct (is_free (gmutex s)); [|discriminate].
        intros E; apply some_eq in E; subst s'. eapply p5_sameB; [|exact HP]. sBe.
      * intros E; apply some_eq in E; subst s'. eapply p5_sameB; [|exact HP]. sBe.
    + destruct (l_cb (lp s l)).
      * destruct ((l_active (lp s l) =? 0) || l_stop (lp s l)); [| destruct (l_pending (lp s l))];
          intros E; apply some_eq in E; subst s'; (eapply p5_sameB; [|exact HP]); sBe.
      * intros E; apply some_eq in E; subst s'. eapply p5_sameB; [|exact HP]. sBe.
  - match goal with |- context [if ?b then _ else _] => destruct b eqn:Ec end;
      intros E; apply some_eq in E; subst s'.
    + eapply p5_sameB; [sBe|].
      intros K. apply (wait_pred_remw c (sync_ev s l (SLockQ l)) r _ _ eq_refl) in K.
      destruct (HP K) as (w & Hw & Hk). exists w. split; [exact Hw | exact Hk].
    + eapply p5_sameB; [|exact HP]. sBe.
  - intros E; apply some_eq in E; subst s'. eapply p5_sameB; [|exact HP]. sBe.
  - intros E; apply some_eq in E; subst s'. eapply p5_sameB; [|exact HP]. sBe.
  - destruct (l_pending (lp s l)); [|discriminate].
    intros E; apply some_eq in E; subst s'. eapply p5_sameB; [|exact HP]. sBe.
  - discriminate.
Qed.

Lemma InvLx_mk c l s s' x' :
  InvL c s ->
  (forall l', lp s' l' = updf (lp s) l x' l') -> l_active x' = l_active (lp s l) ->
  nreq s' = nreq s ->
  (forall l', countr (unf l') (nreq s) (reqs s') = countr (unf l') (nreq s) (reqs s)) ->
  (forall r, r_st (reqs s' r) <> RFree -> r_loop (reqs s' r) < c_loops c) ->
  (gmutex s' = gmutex s /\ gmutex s <> Some l) \/ gmutex s' = None ->
  (l_wq x' <> [] -> l_pending x' = true) ->
  (NoDup (l_local x') /\
   forall r, In r (l_local x') -> r < nreq s' /\ r_loop (reqs s' r) = l /\ unf_st (r_st (reqs s' r)) = true) ->
  InvLx c l s'.
Proof.
  intros [] El Ea En Ec Hlt Eg Hw Hloc. constructor.
  - intros l'. rewrite El, En, Ec. unfold updf. destruct (Nat.eqb_spec l' l); [subst; rewrite Ea|]; apply l_act0.
  - intros l' Hn. rewrite El, updf_other by exact Hn. apply l_loops_ok0.
  - intros l' K. destruct Eg as [[Eg Hn] | Eg]; [|congruence].
    rewrite Eg in K. destruct (l_gm0 l' K) as [K1 K2].
    assert (l' <> l) as Hne by congruence.
    split; [exact Hne | split; [exact K1|]]. rewrite El, updf_other by exact Hne. exact K2.
  - exact Hlt.
  - rewrite El, updf_same. exact Hw.
  - unfold local_ok. rewrite El, updf_same. exact Hloc.
Qed.

Lemma unf_upd_same l' (f : nat -> req) r wf st :
  unf_st (r_st (f r)) = unf_st st ->
  unf l' (mkReq (r_loop (f r)) (r_kind (f r)) wf st) = unf l' (f r).
Proof. intros E. unfold unf. cbn. rewrite E. reflexivity. Qed.

Lemma InvL_lstep c s l aux s' :
  InvA c s -> InvC c s -> l < c_loops c ->
  lstep c l aux s = Some s' -> InvL c s'.
Proof.
  intros HA HC Hl. apply InvC_split in HC. destruct HC as [HL _].
  pose proof HL as HL'. destruct HL' as [Hok Hact Hgm Hlt].
  destruct (Hok l) as (K1 & K2 & K3 & K4 & K5).
  unfold lstep. destruct (l_pc (lp s l)) as [| r | r | | |] eqn:Epc.
  - (* LReady *)
    assert (gmutex s <> Some l) as Hg.
    { intros K. destruct (Hgm l K) as [_ [r0 K']]. congruence. }
    assert (InvLx c l s) as HX.
    { apply (InvLx_of c l s s HL HA); auto. congruence. }
    destruct (cur_op (lp s l)) as [[k | r | |]|] eqn:Eop; [| | | |discriminate].
    4: { intros E; apply some_eq in E; subst s'. apply InvL_advance.
         apply InvLx_keep; try reflexivity. apply (InvLx_ext c l s); auto. }
    + destruct (gmutex s) eqn:Egm; [discriminate|]. cbn [is_free].
      intros E; apply some_eq in E; subst s'.
      apply InvL_advance.
      match goal with |- InvLx c l (post c l aux ?r ?k ?y) =>
        destruct (post_frame c l aux r k y) as (F1 & F2 & F3 & F4); apply (InvLx_ext c l y); auto end.
      apply InvLx_submit; auto.
    + destruct (valid_cancel s l r).
      * destruct (gmutex s) eqn:Egm; [discriminate|]. cbn [is_free].
        intros E; apply some_eq in E; subst s'.
        constructor.
        -- intros l'. cbn. unfold updf. destruct (Nat.eqb_spec l' l); [|apply Hok].
           unfold loop_ok, cur_op. cbn.
           split; [discriminate|]. split; [intros _; right; left; eauto|].
           split; [intros [K | [K | K]]; discriminate|]. split; [discriminate|].
           intros K. left. destruct (K5 K); [assumption | discriminate].
        -- intros l'. cbn. unfold updf. destruct (Nat.eqb_spec l' l); [subst; cbn|]; apply Hact.
        -- intros l' K. cbn in K. inversion K; subst l'. split; [exact Hl|]. exists r. cbn. rewrite updf_same. reflexivity.
        -- exact Hlt.
      * intros E; apply some_eq in E; subst s'. apply InvL_advance.
        apply (InvLx_ext c l s); auto.
    + destruct (l_cb (lp s l)) eqn:Ecb.
      * assert (l_in_done (lp s l) = false) as Hd.
        { unfold cur_op in Eop. rewrite Ecb in Eop. destruct (l_in_done (lp s l)); [discriminate | reflexivity]. }
        destruct ((l_active (lp s l) =? 0) || l_stop (lp s l)); [| destruct (l_pending (lp s l))];
          intros E; apply some_eq in E; subst s'.
        -- apply InvL_advance. apply InvLx_emit. apply InvLx_keep; try reflexivity.
           apply (InvLx_ext c l s); auto.
        -- apply InvL_set_loop.
           ++ apply (InvLx_ext c l s); auto.
           ++ unfold loop_ok, cur_op. cbn.
              split; [discriminate|]. split; [rewrite Hd; discriminate|].
              split; [intros _; split; assumption|]. split; [discriminate|].
              intros _. right. reflexivity.
           ++ reflexivity.
        -- apply InvL_advance. apply (InvLx_ext c l s); auto.
      * intros E; apply some_eq in E; subst s'. apply InvL_advance.
        apply (InvLx_ext c l s); auto.
  - (* LCancel2 r *)
    destruct (a_cancel2 c s HA l r Epc) as [Hrl Hrst].
    assert (unf_st (r_st (reqs s r)) = true) as Hunf.
    { destruct Hrst as [-> | [[w ->] | [-> | ->]]]; reflexivity. }
    match goal with |- context [if ?b then _ else _] => destruct b eqn:Ec end;
      intros E; apply some_eq in E; subst s'.
    + (* unlinked: Limbo, pc LCancel3 *)
      set (X2 := lset_local (lset_wq (lp s l) (rem r (l_wq (lp s l)))) (rem r (l_local (lp s l)))).
      set (Q := mkReq (r_loop (reqs s r)) (r_kind (reqs s r)) WCancelled Limbo).
      match goal with |- InvL c ?y => set (sf := y) end.
      assert (forall l', lp sf l' = updf (lp s) l (lset_pc X2 (LCancel3 r)) l') as El.
      { intros l'. unfold sf. cbn. unfold updf. destruct (Nat.eqb_spec l' l); [|reflexivity].
        subst l'. rewrite Nat.eqb_refl. reflexivity. }
      assert (forall r0, reqs sf r0 = updf (reqs s) r Q r0) as Er.
      { intros r0. unfold sf. cbn. unfold updf. destruct (Nat.eqb_spec r0 r); [|reflexivity].
        subst r0. rewrite Nat.eqb_refl. reflexivity. }
      constructor.
      * intros l'. rewrite El. unfold updf. destruct (Nat.eqb_spec l' l); [|apply Hok].
        unfold loop_ok, cur_op. cbn.
        split; [discriminate|]. split; [intros _; right; right; eauto|].
        split; [intros [K | [K | K]]; discriminate|]. split; [discriminate|].
        intros K. left. assert (l_wq (lp s l) <> []) as K'.
        { intros E0. rewrite E0 in K. apply K. reflexivity. }
        destruct (K5 K'); [assumption | discriminate].
      * intros l'. rewrite El. change (nreq sf) with (nreq s).
        rewrite (countr_ext _ _ _ _ Er). rewrite countr_same.
        -- unfold updf. destruct (Nat.eqb_spec l' l); [subst; cbn|]; apply Hact.
        -- symmetry. apply unf_upd_same. rewrite Hunf. reflexivity.
      * intros l' K. unfold sf in K. cbn in K. discriminate.
      * intros r0. rewrite Er. unfold updf. destruct (Nat.eqb_spec r0 r); [|apply Hlt].
        subst r0. cbn. intros _. apply Hlt. intros E0. rewrite E0 in Hunf. discriminate.
    + (* UV_EBUSY *)
      apply InvL_advance.
      match goal with |- InvLx c l (set_loop ?y l ?x) => apply (InvLx_keep c l y x) end; try reflexivity.
      apply (InvLx_of c l s _ HL HA); auto; try reflexivity. congruence.
  - (* LCancel3 r *)
    destruct (a_cancel3 c s HA l r Epc) as [Hrl Hrst].
    intros E; apply some_eq in E; subst s'.
    apply InvL_advance.
    set (X2 := lset_pc (lset_pending (lset_wq (lp s l) (l_wq (lp s l) ++ [r])) true) LReady).
    set (Q := mkReq (r_loop (reqs s r)) (r_kind (reqs s r)) (r_work (reqs s r)) Cancelled).
    assert (gmutex s <> Some l) as Hg.
    { intros K. destruct (Hgm l K) as [_ [r0 K']]. congruence. }
    match goal with |- InvLx c l ?y => set (sf := y) end.
    assert (forall r0, reqs sf r0 = updf (reqs s) r Q r0) as Er by (intros r0; reflexivity).
    apply (InvLx_mk c l s sf X2 HL); auto.
    + intros l'. rewrite (countr_ext _ _ _ _ Er). apply countr_same.
      symmetry. apply unf_upd_same. rewrite Hrst. reflexivity.
    + intros r0. rewrite Er. unfold updf. destruct (Nat.eqb_spec r0 r); [|apply Hlt].
      subst r0. cbn. intros _. apply Hlt. rewrite Hrst. discriminate.
    + split.
      * eapply NoDup_app_r. apply (a_nodup_l c s HA).
      * intros r0 Hr0.
        destruct (loopq_member_ok c s l r0 HA) as (M1 & M2 & M3); [apply in_or_app; right; exact Hr0|].
        change (nreq sf) with (nreq s). rewrite Er. unfold updf.
        destruct (Nat.eqb_spec r0 r); [subst r0; cbn; auto | auto].
  - (* LWorkDone *)
    destruct K3 as [Hd Hcb]; [left; reflexivity|].
    intros E; apply some_eq in E; subst s'.
    set (X2 := lset_pc (lset_in_done (lset_local (lset_wq (lp s l) []) (l_wq (lp s l))) true) LReady).
    assert (gmutex s <> Some l) as Hg.
    { intros K. destruct (Hgm l K) as [_ [r0 K']]. congruence. }
    apply InvL_deliver.
    + match goal with |- InvLx c l ?y => apply (InvLx_mk c l s y X2 HL) end; auto.
      cbn. split.
      * eapply NoDup_app_l. apply (a_nodup_l c s HA).
      * intros r0 Hr0. apply (loopq_member_ok c s l r0 HA). apply in_or_app. left. exact Hr0.
    + cbn. rewrite updf_same. reflexivity.
    + cbn. rewrite updf_same. cbn. exact Hcb.
    + cbn. rewrite updf_same. reflexivity.
  - (* LDrain *)
    destruct K3 as [Hd Hcb]; [right; left; reflexivity|].
    assert (gmutex s <> Some l) as Hg.
    { intros K. destruct (Hgm l K) as [_ [r0 K']]. congruence. }
    destruct (l_pending (lp s l)); [|discriminate].
    intros E; apply some_eq in E; subst s'.
    apply InvL_set_loop.
    + apply (InvLx_ext c l s); auto. apply (InvLx_of c l s s HL HA); auto. congruence.
    + unfold loop_ok, cur_op. cbn.
      split; [discriminate|]. split; [rewrite Hd; discriminate|].
      split; [intros _; split; assumption|]. split; [discriminate|].
      intros _. right. reflexivity.
    + reflexivity.
  - discriminate.
Qed.

From UV Require Import Proofs.ThreadPoolProofsA.

Lemma InvC_init c progs : InvC c (init c progs).
Proof.
  constructor; cbn.
  - intros l. unfold init_loop, loop_ok, cur_op. destruct (nth l progs []) as [|o p]; cbn.
    + repeat split; try discriminate; auto.
    + repeat split; try discriminate; auto; intros [K | [K | K]]; discriminate.
  - intros l. cbn. reflexivity.
  - discriminate.
  - discriminate.
  - intros r K. exfalso. apply K. reflexivity.
Qed.

Lemma InvC_step c s t aux s' :
  1 <= c_n c -> InvA c s -> InvB c s -> InvC c s -> step c s t aux = Some s' -> InvC c s'.
Proof.
  intros Hn HA HB HC. unfold step. destruct (t <? c_loops c) eqn:E1.
  - apply Nat.ltb_lt in E1. intros Hs. apply InvC_split. split.
    + eapply InvL_lstep; eauto.
    + apply InvC_split in HC. destruct HC as [_ HP]. eapply p5_lstep; eauto.
  - destruct (t - c_loops c <? c_n c) eqn:E2; [|discriminate].
    apply Nat.ltb_lt in E2. apply InvC_wstep; assumption.
Qed.

Theorem invC_reachable : forall c progs s, 1 <= c_n c -> reachable c progs s -> InvC c s.
Proof.
  intros c progs s Hn. apply reachable_ind.
  - apply InvC_init.
  - intros s0 t aux s1 Hr H E. eapply InvC_step; eauto.
    + eapply invA_reachable; eauto.
    + eapply invB_reachable; eauto.
Qed.

(* ---- no deadlock ---- *)
Lemma lstep_enabled c l s :
  gmutex s = None ->
  (l_pc (lp s l) = LReady /\ cur_op (lp s l) <> None) \/ (exists r, l_pc (lp s l) = LCancel2 r) \/
  (exists r, l_pc (lp s l) = LCancel3 r) \/ l_pc (lp s l) = LWorkDone \/
  (l_pc (lp s l) = LDrain /\ l_pending (lp s l) = true) ->
  lstep c l 0 s <> None.
Proof.
  intros Hg H. unfold lstep. rewrite Hg. cbn [is_free].
  destruct H as [[E K] | [[r E] | [[r E] | [E | [E K]]]]]; rewrite E.
  - destruct (cur_op (lp s l)) as [[k | r | |]|]; [| | | |contradiction].
    + discriminate.
    + destruct (valid_cancel s l r); discriminate.
    + destruct (l_cb (lp s l)); [|discriminate].
      destruct ((l_active (lp s l) =? 0) || l_stop (lp s l)); [discriminate|].
      destruct (l_pending (lp s l)); discriminate.
    + discriminate.
  - match goal with |- context [if ?b then _ else _] => destruct b end; discriminate.
  - discriminate.
  - discriminate.
  - rewrite K. discriminate.
Qed.

Lemma lstep_cancel2_enabled c l s r : l_pc (lp s l) = LCancel2 r -> lstep c l 0 s <> None.
Proof.
  intros E. unfold lstep. rewrite E.
  match goal with |- context [if ?b then _ else _] => destruct b end; discriminate.
Qed.

Lemma wstep_enabled c t w s :
  gmutex s = None -> wk s w <> WWait false -> wk s w <> WExited -> wstep c t w 0 s <> None.
Proof.
  intros Hg H1 H2. unfold wstep. rewrite Hg. cbn [is_free].
  destruct (wk s w) as [b | [] | r b |]; try discriminate; contradiction.
Qed.

Lemma step_loop c s l : l < c_loops c -> step c s l 0 = lstep c l 0 s.
Proof. intros H. unfold step. apply Nat.ltb_lt in H. rewrite H. reflexivity. Qed.

Lemma step_worker c s w : w < c_n c -> step c s (c_loops c + w) 0 = wstep c (c_loops c + w) w 0 s.
Proof.
  intros H. unfold step.
  assert (c_loops c + w <? c_loops c = false) as E1 by (apply Nat.ltb_ge; lia).
  rewrite E1. replace (c_loops c + w - c_loops c) with w by lia.
  apply Nat.ltb_lt in H. rewrite H. reflexivity.
Qed.

Theorem no_stuck :
  forall c progs s r,
    1 <= c_n c -> reachable c progs s ->
    unf_st (r_st (reqs s r)) = true ->
    exists t, step c s t 0 <> None.
Proof.
  intros c progs s r Hn Hr Hu.
  pose proof (invA_reachable c progs s Hr) as HA.
  pose proof (invB_reachable c progs s Hr) as HB.
  pose proof (invC_reachable c progs s Hn Hr) as HC.
  destruct HC as [Hok Hact Hgm Hp5 Hlt].
  destruct (gmutex s) as [l0|] eqn:Eg.
  { destruct (Hgm l0 eq_refl) as [Hl0 [r0 K]]. exists l0. rewrite step_loop by exact Hl0.
    eapply lstep_cancel2_enabled. exact K. }
  assert (forall w, w < c_n c -> wk s w <> WWait false -> exists t, step c s t 0 <> None) as Hworker.
  { intros w Hw K. exists (c_loops c + w). rewrite step_worker by exact Hw.
    apply wstep_enabled; auto. apply (b_noexited c s HB). }
  set (l := r_loop (reqs s r)).
  assert (l < c_loops c) as Hl.
  { apply Hlt. intros E. rewrite E in Hu. discriminate. }
  assert ((l_pc (lp s l) = LReady /\ cur_op (lp s l) <> None) \/ (exists r, l_pc (lp s l) = LCancel2 r) \/
             (exists r, l_pc (lp s l) = LCancel3 r) \/ l_pc (lp s l) = LWorkDone \/
             (l_pc (lp s l) = LDrain /\ l_pending (lp s l) = true) -> exists t, step c s t 0 <> None) as Hloop.
  { intros K. exists l. rewrite step_loop by exact Hl. apply lstep_enabled; assumption. }
  destruct (Hok l) as (K1 & K2 & K3 & K4 & K5).
  destruct (r_st (reqs s r)) as [| |w| | | |st] eqn:Est; try discriminate.
  - (* Queued *)
    assert (In r (wq_reqs (wq s) ++ sp s)) as Hin by (apply (a_queued c s HA); exact Est).
    destruct (wait_pred c s) eqn:Ewp.
    + (* only possible when the marker is alone and the slow cap is reached *)
      unfold wait_pred in Ewp. apply in_app_or in Hin.
      destruct (wq s) as [|x [|y q]] eqn:Eq.
      * destruct Hin as [[] | Hin].
        assert (sp s <> []) as Hsp by (intros E; rewrite E in Hin; destruct Hin).
        pose proof (b_sp_marker c s HB Hsp) as K. rewrite Eq in K. discriminate.
      * destruct x as [r0| |]; try discriminate.
        apply Nat.leb_le in Ewp.
        pose proof (threshold_pos (c_n c) Hn) as Hth.
        assert (1 <= countw slow_pc (c_n c) (wk s)) as Hc.
        { rewrite <- (b_running c s HB). lia. }
        destruct (countw_pos_exists _ _ _ Hc) as (w & Hw & Hsl).
        apply (Hworker w Hw). intros E. rewrite E in Hsl. discriminate.
      * destruct x; discriminate.
    + destruct (Hp5 eq_refl) as (w & Hw & K). apply (Hworker w Hw K).
  - (* Running w *)
    destruct (proj1 (a_running c s HA r w) Est) as [b Hwk].
    assert (w < c_n c) as Hw.
    { destruct (Nat.lt_ge_cases w (c_n c)) as [K | K]; [exact K|].
      rewrite (b_outside c s HB w K) in Hwk. discriminate. }
    apply (Hworker w Hw). rewrite Hwk. discriminate.
  - (* Finished *)
    assert (In r (l_wq (lp s l) ++ l_local (lp s l))) as Hin.
    { apply (a_loopq c s HA). split; [reflexivity | left; exact Est]. }
    apply Hloop.
    destruct (l_pc (lp s l)) as [| r0 | r0 | | |] eqn:Epc;
      [left; split; [reflexivity | apply K1; reflexivity] | right; left; eauto | right; right; left; eauto
      | right; right; right; left; reflexivity | | ].
    + right. right. right. right. split; [reflexivity|].
      destruct K3 as [Hd _]; [right; left; reflexivity|].
      apply in_app_or in Hin. rewrite (a_local c s HA l Hd) in Hin.
      destruct Hin as [Hin | []]. destruct K5 as [K | K]; [intros E; rewrite E in Hin; destruct Hin | exact K | discriminate].
    + exfalso. specialize (K4 eq_refl).
      assert (1 <= countr (unf l) (nreq s) (reqs s)) as Hc.
      { apply (countr_pos _ _ _ r).
        - destruct (Nat.lt_ge_cases r (nreq s)) as [K | K]; [exact K|].
          rewrite (a_free c s HA r K) in Est. discriminate.
        - unfold unf. fold l. rewrite Nat.eqb_refl, Est. reflexivity. }
      rewrite <- (Hact l) in Hc. lia.
  - (* Limbo *)
    apply Hloop. right. right. left. exists r. apply (a_limbo c s HA r Est).
  - (* Cancelled *)
    assert (In r (l_wq (lp s l) ++ l_local (lp s l))) as Hin.
    { apply (a_loopq c s HA). split; [reflexivity | right; exact Est]. }
    apply Hloop.
    destruct (l_pc (lp s l)) as [| r0 | r0 | | |] eqn:Epc;
      [left; split; [reflexivity | apply K1; reflexivity] | right; left; eauto | right; right; left; eauto
      | right; right; right; left; reflexivity | | ].
    + right. right. right. right. split; [reflexivity|].
      destruct K3 as [Hd _]; [right; left; reflexivity|].
      apply in_app_or in Hin. rewrite (a_local c s HA l Hd) in Hin.
      destruct Hin as [Hin | []]. destruct K5 as [K | K]; [intros E; rewrite E in Hin; destruct Hin | exact K | discriminate].
    + exfalso. specialize (K4 eq_refl).
      assert (1 <= countr (unf l) (nreq s) (reqs s)) as Hc.
      { apply (countr_pos _ _ _ r).
        - destruct (Nat.lt_ge_cases r (nreq s)) as [K | K]; [exact K|].
          rewrite (a_free c s HA r K) in Est. discriminate.
        - unfold unf. fold l. rewrite Nat.eqb_refl, Est. reflexivity. }
      rewrite <- (Hact l) in Hc. lia.
Qed.

Print Assumptions invC_reachable.
Print Assumptions no_stuck.
