(* C08, layer C: progress.  In every reachable state with an unfinished request some thread
   can take a step without any spurious wake-up (no deadlock, no lost wake-up). *)
From UV Require Import Lib.Base Model.ThreadPool Proofs.ThreadPoolDefs Proofs.ThreadPoolProofsB.

Arguments threshold : simpl never.

(* ---- counting requests ---- *)
Definition countr (p : req -> bool) (n : nat) (f : nat -> req) : nat :=
  length (filter (fun i => p (f i)) (seq 0 n)).

Lemma cntr_notin p (f : nat -> req) i v l :
  ~ In i l ->
  length (filter (fun j => p (updf f i v j)) l) = length (filter (fun j => p (f j)) l).
Proof.
  induction l as [|x l IH]; intros H; cbn [filter]; [reflexivity|].
  rewrite updf_other by (intros ->; apply H; left; reflexivity).
  destruct (p (f x)); cbn [length]; rewrite IH; auto; intros K; apply H; right; exact K.
Qed.

Lemma cntr_in p (f : nat -> req) i v l :
  NoDup l -> In i l ->
  length (filter (fun j => p (updf f i v j)) l) + b2n (p (f i)) =
  length (filter (fun j => p (f j)) l) + b2n (p v).
Proof.
  induction l as [|x l IH]; intros ND HI; [destruct HI|].
  inversion ND as [|? ? Hx ND']; subst.
  cbn [filter]. destruct HI as [->|HI].
  - rewrite updf_same. pose proof (cntr_notin p f i v l Hx) as K.
    destruct (p v), (p (f i)); cbn [length b2n]; lia.
  - assert (x <> i) by (intros ->; contradiction).
    rewrite updf_other by exact H.
    specialize (IH ND' HI).
    destruct (p (f x)); cbn [length]; lia.
Qed.

Lemma countr_updf p n f i v :
  i < n -> countr p n (updf f i v) + b2n (p (f i)) = countr p n f + b2n (p v).
Proof.
  intros H. unfold countr. apply cntr_in; [apply seq_NoDup | apply in_seq; lia].
Qed.

Lemma countr_updf_out p n f i v : n <= i -> countr p n (updf f i v) = countr p n f.
Proof. intros H. unfold countr. apply cntr_notin. rewrite in_seq. lia. Qed.

Lemma countr_S p n f : countr p (S n) f = countr p n f + b2n (p (f n)).
Proof.
  unfold countr. rewrite seq_S, filter_app, app_length. cbn [filter plus].
  destruct (p (f n)); reflexivity.
Qed.

Lemma countr_pos p n f i : i < n -> p (f i) = true -> 1 <= countr p n f.
Proof.
  intros H Hp. unfold countr.
  assert (In i (filter (fun j => p (f j)) (seq 0 n))) as K.
  { apply filter_In. split; [apply in_seq; lia | exact Hp]. }
  destruct (filter (fun j => p (f j)) (seq 0 n)); [destruct K | cbn [length]; lia].
Qed.

(* request q belongs to loop l and has not had its callback *)
Definition unf_st (st : rstate) : bool :=
  match st with RFree | Done _ => false | _ => true end.
Definition unf (l : nat) (q : req) : bool := Nat.eqb (r_loop q) l && unf_st (r_st q).

(* ---- the invariant ---- *)
Definition loop_ok (x : loopst) : Prop :=
  (l_pc x = LReady -> cur_op x <> None) /\
  (l_in_done x = true ->
     l_pc x = LReady \/ (exists r, l_pc x = LCancel2 r) \/ (exists r, l_pc x = LCancel3 r)) /\
  (l_pc x = LWorkDone \/ l_pc x = LDrain \/ l_pc x = LEnd -> l_in_done x = false /\ l_cb x = []) /\
  (l_pc x = LEnd -> l_active x = 0) /\
  (l_wq x <> [] -> l_pending x = true \/ l_pc x = LWorkDone).

Definition actives_ok (s : state) : Prop :=
  forall l, l_active (lp s l) = countr (unf l) (nreq s) (reqs s).

Record InvC (c : config) (s : state) : Prop := mkInvC {
  c_loops_ok : forall l, loop_ok (lp s l);
  c_active : actives_ok s;
  c_gm : forall l, gmutex s = Some l -> l < c_loops c /\ exists r, l_pc (lp s l) = LCancel2 r;
  c_p5 : wait_pred c s = false -> exists w, w < c_n c /\ wk s w <> WWait false;
  c_looplt : forall r, r_st (reqs s r) <> RFree -> r_loop (reqs s r) < c_loops c
}.

Lemma countr_same p n f i v : p (f i) = p v -> countr p n (updf f i v) = countr p n f.
Proof.
  intros E. destruct (Nat.lt_ge_cases i n) as [H | H].
  - pose proof (countr_updf p n f i v H) as K. rewrite E in K. lia.
  - apply countr_updf_out. exact H.
Qed.

(* ---- shape of the state a worker leaves behind ---- *)
Definition wl_result (c : config) (w : nat) (s s' : state) : Prop :=
  lp s' = lp s /\ gmutex s' = gmutex s /\ nreq s' = nreq s /\
  ((wk s' w = WWait false /\ wait_pred c s' = true /\ reqs s' = reqs s) \/
   (exists r b, wk s' w = WRun r b /\ (In (IWork r) (wq s) \/ In r (sp s)) /\
                reqs s' = updf (reqs s) r
                            (mkReq (r_loop (reqs s r)) (r_kind (reqs s r)) (r_work (reqs s r)) (Running w))) \/
   (wk s' w = WRelock false /\ reqs s' = reqs s) \/
   (wk s' w = WExited /\ reqs s' = reqs s)).

Lemma signal_if_idle_frame c t aux s :
  lp (signal_if_idle c t aux s) = lp s /\ gmutex (signal_if_idle c t aux s) = gmutex s.
Proof.
  unfold signal_if_idle. destruct (0 <? idle s); [|auto].
  unfold signal. cbn. destruct (waiters (c_n c) (wk s)); cbn; auto.
Qed.

Lemma signal_frame c t aux s :
  lp (signal c t aux s) = lp s /\ gmutex (signal c t aux s) = gmutex s /\
  nreq (signal c t aux s) = nreq s /\ reqs (signal c t aux s) = reqs s.
Proof. unfold signal. cbn. destruct (waiters (c_n c) (wk s)); cbn; auto. Qed.

Lemma wloop_shape fuel : forall c t w aux s, wl_result c w s (wloop fuel c t w aux s).
Proof.
  induction fuel as [|fuel IH]; intros c t w aux s; cbn [wloop].
  - destruct (wait_pred c s) eqn:Ew.
    + unfold wl_result. cbn. repeat split; auto. left. rewrite updf_same. repeat split; auto.
    + unfold wl_result. cbn. repeat split; auto. right. right. left. rewrite updf_same. auto.
  - destruct (wait_pred c s) eqn:Ew.
    + unfold wl_result. cbn. repeat split; auto. left. rewrite updf_same. repeat split; auto.
    + destruct (wq s) as [|[r| |] rest] eqn:Eq.
      * unfold wait_pred in Ew. rewrite Eq in Ew. discriminate.
      * unfold wl_result. cbn. repeat split; auto. right. left. exists r, false.
        rewrite updf_same. repeat split; auto. left. left. reflexivity.
      * destruct (threshold (c_n c) <=? running s).
        -- destruct (IH c t w aux (set_wq s (rest ++ [ISlowMsg]))) as (E1 & E2 & E3 & K).
           unfold wl_result. cbn in *. repeat split; auto.
           destruct K as [K | [(r & b & K1 & K2 & K3) | K]]; [left; exact K | | right; right; exact K].
           right. left. exists r, b. repeat split; auto.
           destruct K2 as [K2 | K2]; [|right; exact K2]. left.
           apply in_app_or in K2. destruct K2 as [K2 | [K2 | []]]; [right; exact K2 | discriminate].
        -- destruct (sp s) as [|r sp'] eqn:Esp.
           ++ destruct (IH c t w aux (set_wq s rest)) as (E1 & E2 & E3 & K).
              unfold wl_result. cbn in *. repeat split; auto.
              destruct K as [K | [(r & b & K1 & K2 & K3) | K]]; [left; exact K | | right; right; exact K].
              right. left. exists r, b. repeat split; auto.
              destruct K2 as [K2 | K2]; [left; right; exact K2 | rewrite Esp in K2; destruct K2].
           ++ unfold wl_result.
              destruct sp' as [|r2 sp''].
              ** cbn. repeat split; auto. right. left. exists r, true. rewrite updf_same.
                 repeat split; auto. right. left. reflexivity.
              ** match goal with |- context [signal_if_idle c t aux ?x] => set (s1 := x) end.
                 destruct (signal_if_idle_frame c t aux s1) as [F1 F2].
                 destruct (signal_if_idle_rel c t aux s1) as (G1 & G2 & G3 & G4 & G5 & G6 & G7).
                 cbn. rewrite F1, F2, G5, G6. cbn. repeat split; auto.
                 right. left. exists r, true. rewrite updf_same. repeat split; auto. right. left. reflexivity.
      * unfold wl_result. destruct (signal_frame c t aux s) as (F1 & F2 & F3 & F4).
        cbn. rewrite F1, F2, F3, F4. repeat split; auto. right. right. right. rewrite updf_same. auto.
Qed.
