(* C18 proofs, part 3: the round trip inet_pton6 (text of inet_ntop6 a) = a,
   case analysis over the position of the compressed zero run. *)
From UV Require Import Lib.Base Model.Inet Spec.InetSpec Proofs.InetProofs4 Proofs.InetProofs6.
Local Open Scope N_scope.

Arguments hex_u16 : simpl never.
Arguments fmt4 : simpl never.
Arguments dec_u8 : simpl never.
Arguments is_zero : simpl never.
Arguments nlen : simpl never.

Definition okc (c : N) : Prop := 46 <= c.

Definition hl (w a b : N) : Prop := (w / 256) mod 256 = a /\ w mod 256 = b.

Definition rt_goal (a : list N) : Prop :=
  nlen (text6 a) <= 45 /\ Forall okc (text6 a) /\ inet_pton6 (text6 a) = (0%Z, a).

Ltac len_tac :=
  unfold nlen; repeat first [rewrite app_length | progress simpl length];
  repeat match goal with |- context [length (hex_u16 ?w)] =>
           pose proof (hex_u16_len w); generalize dependent (length (hex_u16 w)); intros end;
  repeat match goal with |- context [length (fmt4 ?w)] =>
           let H := fresh in pose proof (fmt4_len w) as H; unfold nlen in H;
           generalize dependent (length (fmt4 w)); intros end;
  lia.

Lemma hex_ne w : hex_u16 w <> [].
Proof. pose proof (hex_u16_len w). destruct (hex_u16 w); simpl in *; [lia|discriminate]. Qed.

Ltac ne_tac := first [apply hex_app_ne | apply fmt4_ne | apply hex_ne | discriminate].

Ltac step :=
  first
  [ rewrite loop_hex by lia
  | rewrite loop_hex_end by lia
  | rewrite loop_colon_store by (first [apply nlen_hex_ne | ne_tac | (unfold nlen; simpl length; lia)]);
    cbn [app]
  | rewrite loop_colon_gap; cbn [length]
  | rewrite loop_v4tail by (first [assumption | (unfold nlen; simpl length; lia)]); cbn [app]
  | rewrite finish_store by (first [apply nlen_hex_ne | (unfold nlen; simpl length; lia)]); cbn [app] ].

Ltac ok_tac :=
  repeat first [ apply Forall_nil | (apply hex_ok; assumption) | apply fmt4_ok
               | (apply Forall_cons; [unfold okc; lia|]) | (apply Forall_app; split) ].

Ltac parse_tac :=
  rewrite <- ?app_assoc; cbn [app];
  first [rewrite pton6_start_gap | rewrite pton6_start_hex by assumption];
  repeat step; cbn [pton6_loop]; repeat step; rewrite ?finish_val;
  repeat match goal with H : hl _ _ _ |- _ => destruct H as [-> ->] end;
  vm_compute; repeat f_equal; lia.

Ltac eval_tac :=
  cbn [fmt6_pure fst snd negb andb orb Z.eqb Z.leb Z.ltb Z.compare Z.add Pos.compare Pos.compare_cont
       Pos.eqb Pos.add Pos.add_carry Pos.succ Z.pos_sub Z.succ_double Z.pred_double Z.double
       Pos.pred_double app].

Ltac case_tac :=
  eval_tac;
  repeat match goal with |- context [(?a <? ?b)%Z] =>
    let v := eval vm_compute in (a <? b)%Z in change (a <? b)%Z with v end;
  eval_tac;
  try match goal with |- context [?w =? 65535] => destruct (w =? 65535) eqn:? end;
  try match goal with |- context [?w =? 1] => destruct (w =? 1) eqn:? end;
  cbn [negb andb orb];
  rewrite ?app_nil_r;
  (split; [len_tac | split; [ok_tac | parse_tac]]).

Ltac zero_tac :=
  match goal with Hz : forallb _ _ = true |- _ => simpl in Hz end;
  repeat match goal with H : _ && _ = true |- _ => apply andb_true_iff in H; destruct H end;
  repeat match goal with Hz : is_zero ?w = true, Z : is_zero ?w = true -> _ |- _ =>
           specialize (Z Hz); destruct Z end.

Lemma rt_bytes a0 a1 a2 a3 a4 a5 a6 a7 a8 a9 a10 a11 a12 a13 a14 a15 :
  Forall (fun x => x < 256) [a0; a1; a2; a3; a4; a5; a6; a7; a8; a9; a10; a11; a12; a13; a14; a15] ->
  rt_goal [a0; a1; a2; a3; a4; a5; a6; a7; a8; a9; a10; a11; a12; a13; a14; a15].
Proof.
  intros HF.
  repeat match goal with H : Forall _ (_ :: _) |- _ => inversion H; clear H; subst end.
  match goal with H : Forall _ [] |- _ => clear H end.
  unfold rt_goal, text6. cbn [firstn words_of map nth skipn].
  pose proof (word_zero a0 a1) as Z0. pose proof (word_zero a2 a3) as Z1.
  pose proof (word_zero a4 a5) as Z2. pose proof (word_zero a6 a7) as Z3.
  pose proof (word_zero a8 a9) as Z4. pose proof (word_zero a10 a11) as Z5.
  pose proof (word_zero a12 a13) as Z6. pose proof (word_zero a14 a15) as Z7.
  assert (W0 : a0 * 256 + a1 < 65536) by lia. assert (W1 : a2 * 256 + a3 < 65536) by lia.
  assert (W2 : a4 * 256 + a5 < 65536) by lia. assert (W3 : a6 * 256 + a7 < 65536) by lia.
  assert (W4 : a8 * 256 + a9 < 65536) by lia. assert (W5 : a10 * 256 + a11 < 65536) by lia.
  assert (W6 : a12 * 256 + a13 < 65536) by lia. assert (W7 : a14 * 256 + a15 < 65536) by lia.
  remember (a0 * 256 + a1) as w0. remember (a2 * 256 + a3) as w1.
  remember (a4 * 256 + a5) as w2. remember (a6 * 256 + a7) as w3.
  remember (a8 * 256 + a9) as w4. remember (a10 * 256 + a11) as w5.
  remember (a12 * 256 + a13) as w6. remember (a14 * 256 + a15) as w7.
  assert (HL0 : hl w0 a0 a1) by (subst w0; apply hi_lo; assumption).
  assert (HL1 : hl w1 a2 a3) by (subst w1; apply hi_lo; assumption).
  assert (HL2 : hl w2 a4 a5) by (subst w2; apply hi_lo; assumption).
  assert (HL3 : hl w3 a6 a7) by (subst w3; apply hi_lo; assumption).
  assert (HL4 : hl w4 a8 a9) by (subst w4; apply hi_lo; assumption).
  assert (HL5 : hl w5 a10 a11) by (subst w5; apply hi_lo; assumption).
  assert (HL6 : hl w6 a12 a13) by (subst w6; apply hi_lo; assumption).
  assert (HL7 : hl w7 a14 a15) by (subst w7; apply hi_lo; assumption).
  pose proof (best_run_ok (is_zero w0) (is_zero w1) (is_zero w2) (is_zero w3)
                          (is_zero w4) (is_zero w5) (is_zero w6) (is_zero w7)) as Hok.
  destruct (best_run [is_zero w0; is_zero w1; is_zero w2; is_zero w3;
                      is_zero w4; is_zero w5; is_zero w6; is_zero w7]) as [bb bl] eqn:Hbest.
  clear Hbest. unfold run_ok in Hok.
  rewrite orb_true_iff in Hok. destruct Hok as [Hm1 | Hok].
  - apply Z.eqb_eq in Hm1. subst bb. case_tac.
  - rewrite !andb_true_iff in Hok. destruct Hok as [[[Hb0 Hb2] Hb8] Hz].
    apply Z.leb_le in Hb0, Hb2, Hb8.
    assert (Hbb : (bb = 0 \/ bb = 1 \/ bb = 2 \/ bb = 3 \/ bb = 4 \/ bb = 5 \/ bb = 6)%Z) by lia.
    assert (Hbl : (bl = 2 \/ bl = 3 \/ bl = 4 \/ bl = 5 \/ bl = 6 \/ bl = 7 \/ bl = 8)%Z) by lia.
    destruct Hbb as [->|[->|[->|[->|[->|[->| ->]]]]]];
      destruct Hbl as [->|[->|[->|[->|[->|[->| ->]]]]]]; try (exfalso; lia).
    all: zero_tac.
    all: case_tac.
Qed.

(* ------------------------------------------------------------------ *)
(* from sixteen named bytes to "any list of sixteen bytes"             *)
(* ------------------------------------------------------------------ *)
Definition bytes16 (a : list N) : Prop := length a = 16%nat /\ Forall (fun x => x < 256) a.

Lemma rt_all a : bytes16 a -> rt_goal a.
Proof.
  intros [Hl HF].
  do 16 (destruct a as [|? a]; [discriminate|]). destruct a; [|discriminate].
  apply rt_bytes. exact HF.
Qed.

Lemma strchr_none t c : ~ In c t -> strchr t c = None.
Proof.
  induction t as [|x t IH]; intros H; [reflexivity|]. simpl.
  destruct (x =? c) eqn:E.
  - apply N.eqb_eq in E. subst. exfalso. apply H. left; reflexivity.
  - rewrite IH; [reflexivity|]. intros Hi. apply H. right; exact Hi.
Qed.

Lemma okc_not_in t c : c < 46 -> Forall okc t -> ~ In c t.
Proof.
  intros Hc HF Hi. rewrite Forall_forall in HF. apply HF in Hi. unfold okc in Hi. lia.
Qed.

(* inet_ntop6 for every size *)
Theorem ntop6_spec a size :
  bytes16 a ->
  let text := text6 a in
  nlen text <= 45 /\
  (size < nlen text + 1 -> inet_ntop6 a size = (UV_ENOSPC, [])) /\
  (nlen text + 1 <= size -> inet_ntop6 a size = (0%Z, text ++ [0])).
Proof.
  intros Hb. destruct (rt_all a Hb) as (Hlen & _ & _). cbv zeta.
  split; [exact Hlen|]. unfold inet_ntop6. rewrite (ntop6_text_closed a Hlen).
  split; intros H.
  - apply N.ltb_lt in H. rewrite H. reflexivity.
  - assert (E : size <? nlen (text6 a) + 1 = false) by (apply N.ltb_ge; lia). rewrite E.
    rewrite strscpy_fits by (auto; simpl; lia). reflexivity.
Qed.

Theorem ntop6_bounded a size :
  bytes16 a ->
  let r := inet_ntop6 a size in
  nlen (snd r) <= size /\
  (fst r = UV_ENOSPC <-> size < nlen (text6 a) + 1) /\
  (fst r = 0%Z \/ fst r = UV_ENOSPC) /\
  (fst r <> 0%Z -> snd r = []) /\
  fst r <> UB_TMP_OVERFLOW.
Proof.
  intros Hb. cbv zeta. destruct (ntop6_spec a size Hb) as (Hlen & H1 & H2).
  destruct (N.lt_ge_cases size (nlen (text6 a) + 1)) as [H|H].
  - rewrite (H1 H). cbn [fst snd]. repeat split; auto; try lia.
    + change (nlen []) with 0. lia.
    + unfold UV_ENOSPC, UB_TMP_OVERFLOW. discriminate.
  - rewrite (H2 H). cbn [fst snd]. repeat split; auto; try lia.
    + rewrite nlen_app. change (nlen [0]) with 1. lia.
    + unfold UV_ENOSPC. discriminate.
    + unfold UB_TMP_OVERFLOW. discriminate.
Qed.

(* all 2^128 addresses: parsing what inet_ntop6 printed gives the address back *)
Theorem ntop6_pton6_roundtrip a size :
  bytes16 a -> 46 <= size ->
  exists t, uv_inet_ntop AF_INET6 a size = (0%Z, t ++ [0]) /\
            ~ In 0 t /\
            uv_inet_pton AF_INET6 (t ++ [0]) = (0%Z, a).
Proof.
  intros Hb Hs. destruct (rt_all a Hb) as (Hlen & Hok & Hp).
  exists (text6 a).
  assert (Hnz : ~ In 0 (text6 a)) by (apply okc_not_in; [lia|exact Hok]).
  split; [|split; [exact Hnz|]].
  - unfold uv_inet_ntop. cbn [Z.eqb AF_INET AF_INET6 Pos.eqb].
    apply ntop6_spec; [exact Hb|lia].
  - unfold uv_inet_pton. cbn [Z.eqb AF_INET AF_INET6 Pos.eqb].
    rewrite cstr_app_nul by exact Hnz.
    rewrite strchr_none by (apply okc_not_in; [lia|exact Hok]). exact Hp.
Qed.

