(* C18 proofs, part 3: the round trip inet_pton6 (text of inet_ntop6 a) = a,
   case analysis over the position of the compressed zero run. *)
From UV Require Import Lib.Base Model.Inet Spec.InetSpec Proofs.InetProofs4 Proofs.InetProofs6.
Local Open Scope N_scope.

Arguments hex_u16 : simpl never.
Arguments fmt4 : simpl never.
Arguments dec_u8 : simpl never.
Arguments is_zero : simpl never.
Arguments nlen : simpl never.

Definition okc (c : N) : Prop := 46 <= c.

Definition rt_goal (a : list N) : Prop :=
  nlen (text6 a) <= 45 /\ Forall okc (text6 a) /\ inet_pton6 (text6 a) = (0%Z, a).

Ltac len_tac :=
  unfold nlen; rewrite ?app_length; simpl length;
  repeat match goal with |- context [length (hex_u16 ?w)] =>
           pose proof (hex_u16_len w); generalize dependent (length (hex_u16 w)); intros end;
  repeat match goal with |- context [length (fmt4 ?w)] =>
           let H := fresh in pose proof (fmt4_len w) as H; unfold nlen in H;
           generalize dependent (length (fmt4 w)); intros end;
  lia.

Lemma hex_ne w : hex_u16 w <> [].
Proof. pose proof (hex_u16_len w). destruct (hex_u16 w); simpl in *; [lia|discriminate]. Qed.

Ltac ne_tac := first [apply hex_app_ne | apply fmt4_ne | apply hex_ne | discriminate].

Ltac step :=
  first
  [ rewrite loop_hex by lia
  | rewrite loop_hex_end by lia
  | rewrite loop_colon_store by (first [apply nlen_hex_ne | ne_tac | (unfold nlen; simpl length; lia)]);
    cbn [app]
  | rewrite loop_colon_gap; cbn [length]
  | rewrite loop_v4tail by (first [assumption | (unfold nlen; simpl length; lia)]); cbn [app]
  | rewrite finish_store by (first [apply nlen_hex_ne | (unfold nlen; simpl length; lia)]); cbn [app] ].

Lemma rt_test a0 a1 a2 a3 a4 a5 a6 a7 a8 a9 a10 a11 a12 a13 a14 a15 :
  Forall (fun x => x < 256) [a0; a1; a2; a3; a4; a5; a6; a7; a8; a9; a10; a11; a12; a13; a14; a15] ->
  rt_goal [a0; a1; a2; a3; a4; a5; a6; a7; a8; a9; a10; a11; a12; a13; a14; a15].
Proof.
  intros HF.
  repeat match goal with H : Forall _ (_ :: _) |- _ => inversion H; clear H; subst end.
  match goal with H : Forall _ [] |- _ => clear H end.
  unfold rt_goal, text6. cbn [firstn words_of map nth skipn].
  pose proof (hi_lo a0 a1) as [Hh0 Hl0]; try assumption.
  pose proof (hi_lo a2 a3) as [Hh1 Hl1]; try assumption.
  pose proof (hi_lo a4 a5) as [Hh2 Hl2]; try assumption.
  pose proof (hi_lo a6 a7) as [Hh3 Hl3]; try assumption.
  pose proof (hi_lo a8 a9) as [Hh4 Hl4]; try assumption.
  pose proof (hi_lo a10 a11) as [Hh5 Hl5]; try assumption.
  pose proof (hi_lo a12 a13) as [Hh6 Hl6]; try assumption.
  pose proof (hi_lo a14 a15) as [Hh7 Hl7]; try assumption.
  pose proof (word_zero a0 a1) as Z0. pose proof (word_zero a2 a3) as Z1.
  pose proof (word_zero a4 a5) as Z2. pose proof (word_zero a6 a7) as Z3.
  pose proof (word_zero a8 a9) as Z4. pose proof (word_zero a10 a11) as Z5.
  pose proof (word_zero a12 a13) as Z6. pose proof (word_zero a14 a15) as Z7.
  assert (W0 : a0 * 256 + a1 < 65536) by lia. assert (W1 : a2 * 256 + a3 < 65536) by lia.
  assert (W2 : a4 * 256 + a5 < 65536) by lia. assert (W3 : a6 * 256 + a7 < 65536) by lia.
  assert (W4 : a8 * 256 + a9 < 65536) by lia. assert (W5 : a10 * 256 + a11 < 65536) by lia.
  assert (W6 : a12 * 256 + a13 < 65536) by lia. assert (W7 : a14 * 256 + a15 < 65536) by lia.
  remember (a0 * 256 + a1) as w0. remember (a2 * 256 + a3) as w1.
  remember (a4 * 256 + a5) as w2. remember (a6 * 256 + a7) as w3.
  remember (a8 * 256 + a9) as w4. remember (a10 * 256 + a11) as w5.
  remember (a12 * 256 + a13) as w6. remember (a14 * 256 + a15) as w7.
  pose proof (best_run_ok (is_zero w0) (is_zero w1) (is_zero w2) (is_zero w3)
                          (is_zero w4) (is_zero w5) (is_zero w6) (is_zero w7)) as Hok.
  destruct (best_run [is_zero w0; is_zero w1; is_zero w2; is_zero w3;
                      is_zero w4; is_zero w5; is_zero w6; is_zero w7]) as [bb bl] eqn:Hbest.
  clear Hbest. unfold run_ok in Hok.
  rewrite orb_true_iff in Hok. destruct Hok as [Hm1 | Hok].
  - apply Z.eqb_eq in Hm1. subst bb.
    cbn [fmt6_pure fst snd negb andb orb Z.eqb Z.leb Z.ltb Z.compare Z.add Pos.compare Pos.compare_cont
         Pos.eqb Pos.add Pos.succ Z.pos_sub app].
    Show.
Abort.
