(* Proofs about Model/IoWatch.v (C14). *)
From UV Require Import Lib.Base Model.IoWatch.
Local Open Scope Z_scope.

(* ---- a generic induction principle over [run] ------------------------------
   [I] is preserved by every step the model makes outside the user's script
   and [E] holds of every event emitted there; then both hold of whole runs,
   whatever the script, the callback behaviours and the oracles are. *)
Section Generic.
  Variable I : state -> Prop.
  Variable E : event -> Prop.
  Variable fdo : nat -> Z.
  Variable pw : nat -> list (Z * mask).
  Variable beh : nat -> list op.

  Hypothesis H_api : forall s o, I s -> I (fst (api fdo s o)) /\ Forall E (snd (api fdo s o)).
  Hypothesis H_ncb : forall s n, I s -> I (set_ncb s n).
  Hypothesis H_disp : forall s e rest, I s -> batch s = e :: rest ->
    match dispatch_target (set_batch s rest) e with
    | TSkip => I (set_batch s rest)
    | TDel fd => I (fst (epoll_ctl (set_batch s rest) CDel fd m0))
    | TCall i ev orig rep =>
        I (fst (cb_pre (set_batch s rest) i ev orig rep)) /\
        E (snd (cb_pre (set_batch s rest) i ev orig rep))
    end.
  Hypothesis H_pend : forall s i rest, I s -> prun s = i :: rest ->
    I (fst (cb_pre (set_prun s rest) i ONLY_OUT (-1) m0)) /\
    E (snd (cb_pre (set_prun s rest) i ONLY_OUT (-1) m0)).
  Hypothesis H_round : forall s, I s -> I (set_pend (set_prun s (pend s)) []).
  Hypothesis H_round_end : forall s, I s -> I (set_prun s []).
  Hypothesis H_prepare : forall s ans, I s -> aborted (poll_prepare s) = false ->
    E (EPwait (poll_prepare s) ans) /\ I (poll_fetch (poll_prepare s) ans).
  Hypothesis H_prepare_ab : forall s, I s -> aborted (poll_prepare s) = true -> I (poll_prepare s).
  Hypothesis H_poll_end : forall s, I s -> I (set_batch s []).
  Hypothesis H_skip : E ESkip.
  Hypothesis H_abort : E EAbort.

  Lemma apis_gen : forall os s s' evs, I s -> apis fdo s os = (s', evs) -> I s' /\ Forall E evs.
  Proof.
    induction os as [|o r IH]; intros s s' evs Hi H; cbn [apis] in H.
    - inversion H; subst; auto.
    - destruct (api fdo s o) as [s1 e1] eqn:Ha.
      destruct (apis fdo s1 r) as [s2 e2] eqn:Hr. inversion H; subst.
      pose proof (H_api s o Hi) as [Hi1 He1]. rewrite Ha in Hi1, He1. cbn in Hi1, He1.
      destruct (IH _ _ _ Hi1 Hr) as [Hi2 He2]. split; auto. apply Forall_app; auto.
  Qed.

  Lemma user_cb_gen : forall s s' evs, I s -> user_cb fdo beh s = (s', evs) -> I s' /\ Forall E evs.
  Proof. intros s s' evs Hi H. unfold user_cb in H. eapply apis_gen; [|exact H]. apply H_ncb; auto. Qed.

  Lemma watcher_cb_gen : forall s i ev efd rep s' evs,
    I (fst (cb_pre s i ev efd rep)) -> E (snd (cb_pre s i ev efd rep)) ->
    watcher_cb fdo beh s i ev efd rep = (s', evs) -> I s' /\ Forall E evs.
  Proof.
    intros s i ev efd rep s' evs Hi He H. unfold watcher_cb in H.
    destruct (cb_pre s i ev efd rep) as [s1 e]. cbn in Hi, He.
    destruct (user_cb fdo beh s1) as [s2 e2] eqn:Hu. inversion H; subst.
    destruct (user_cb_gen _ _ _ Hi Hu). split; auto.
  Qed.

  Lemma dispatch_gen : forall fuel s s' evs, I s -> dispatch fuel fdo beh s = (s', evs) -> I s' /\ Forall E evs.
  Proof.
    induction fuel as [|f IH]; intros s s' evs Hi H; cbn [dispatch] in H.
    - inversion H; subst; auto.
    - destruct (aborted s). { inversion H; subst; auto. }
      destruct (batch s) as [|e rest] eqn:Hb. { inversion H; subst; auto. }
      destruct (dispatch_one fdo beh (set_batch s rest) e) as [s1 e1] eqn:Hd.
      destruct (dispatch f fdo beh s1) as [s2 e2] eqn:Hr. inversion H; subst.
      pose proof (H_disp s e rest Hi Hb) as Hx. unfold dispatch_one in Hd.
      assert (I s1 /\ Forall E e1) as [Hi1 He1].
      { destruct (dispatch_target (set_batch s rest) e) as [|fd|i ev orig rep].
        - inversion Hd; subst; auto.
        - inversion Hd; subst; auto.
        - destruct Hx as [Hx1 Hx2]. eapply watcher_cb_gen; eauto. }
      destruct (IH _ _ _ Hi1 Hr). split; auto. apply Forall_app; auto.
  Qed.

  Lemma run_pending_gen : forall fuel s s' evs, I s -> run_pending fuel fdo beh s = (s', evs) -> I s' /\ Forall E evs.
  Proof.
    induction fuel as [|f IH]; intros s s' evs Hi H; cbn [run_pending] in H.
    - inversion H; subst; auto.
    - destruct (aborted s). { inversion H; subst; auto. }
      destruct (prun s) as [|i rest] eqn:Hb. { inversion H; subst; auto. }
      destruct (watcher_cb fdo beh (set_prun s rest) i ONLY_OUT (-1) m0) as [s1 e1] eqn:Hd.
      destruct (run_pending f fdo beh s1) as [s2 e2] eqn:Hr. inversion H; subst.
      destruct (H_pend s i rest Hi Hb) as [Hx1 Hx2].
      destruct (watcher_cb_gen _ _ _ _ _ _ _ Hx1 Hx2 Hd) as [Hi1 He1].
      destruct (IH _ _ _ Hi1 Hr). split; auto. apply Forall_app; auto.
  Qed.

  Lemma pending_round_gen : forall s s' evs, I s -> pending_round fdo beh s = (s', evs) -> I s' /\ Forall E evs.
  Proof.
    intros s s' evs Hi H. unfold pending_round in H.
    destruct (run_pending _ fdo beh _) as [s1 e1] eqn:Hr. inversion H; subst.
    destruct (run_pending_gen _ _ _ _ (H_round s Hi) Hr). split; auto.
  Qed.

  Lemma pending_rounds_gen : forall n s s' evs, I s -> pending_rounds n fdo beh s = (s', evs) -> I s' /\ Forall E evs.
  Proof.
    induction n as [|n IH]; intros s s' evs Hi H; cbn [pending_rounds] in H.
    - inversion H; subst; auto.
    - destruct (pend s). { inversion H; subst; auto. }
      destruct (pending_round fdo beh s) as [s1 e1] eqn:Hp.
      destruct (pending_rounds n fdo beh s1) as [s2 e2] eqn:Hr. inversion H; subst.
      destruct (pending_round_gen _ _ _ Hi Hp) as [Hi1 He1].
      destruct (IH _ _ _ Hi1 Hr). split; auto. apply Forall_app; auto.
  Qed.

  Lemma io_poll_gen : forall s s' evs, I s -> io_poll fdo pw beh s = (s', evs) -> I s' /\ Forall E evs.
  Proof.
    intros s s' evs Hi H. unfold io_poll in H.
    destruct (aborted (poll_prepare s)) eqn:Ha.
    - inversion H; subst. split; auto.
    - destruct (dispatch _ fdo beh _) as [s4 e4] eqn:Hd. inversion H; subst.
      destruct (H_prepare s (pw (npw (poll_prepare s))) Hi Ha) as [He Hf].
      destruct (dispatch_gen _ _ _ _ Hf Hd). split; auto.
  Qed.

  Lemma uv_run_gen : forall s s' evs, I s -> uv_run fdo pw beh s = (s', evs) -> I s' /\ Forall E evs.
  Proof.
    intros s s' evs Hi H. unfold uv_run in H.
    destruct (aborted s). { inversion H; subst; auto. }
    destruct (pending_round fdo beh s) as [s1 e1] eqn:Hp.
    destruct (pending_round_gen _ _ _ Hi Hp) as [Hi1 He1].
    destruct (aborted s1). { inversion H; subst; auto. }
    destruct (io_poll fdo pw beh s1) as [s2 e2] eqn:Hq.
    destruct (io_poll_gen _ _ _ Hi1 Hq) as [Hi2 He2].
    destruct (pending_rounds 8 fdo beh s2) as [s3 e3] eqn:Hr.
    destruct (pending_rounds_gen _ _ _ _ Hi2 Hr) as [Hi3 He3].
    inversion H; subst. split; auto. repeat (apply Forall_app; split); auto.
  Qed.

  Theorem run_gen : forall os s s' evs, I s -> run fdo pw beh s os = (s', evs) -> I s' /\ Forall E evs.
  Proof.
    induction os as [|o r IH]; intros s s' evs Hi H; cbn [run] in H.
    - inversion H; subst; auto.
    - assert (Hstep : forall s1 e1 s2 e2, I s1 -> Forall E e1 -> run fdo pw beh s1 r = (s2, e2) ->
                      I s2 /\ Forall E (e1 ++ e2)).
      { intros s1 e1 s2 e2 Hi1 He1 Hr. destruct (IH _ _ _ Hi1 Hr). split; auto. apply Forall_app; auto. }
      destruct o;
        try (destruct (api fdo s _) as [s1 e1] eqn:Ha;
             destruct (run fdo pw beh s1 r) as [s2 e2] eqn:Hr; inversion H; subst;
             match type of Ha with api _ _ ?o = _ =>
               pose proof (H_api s o Hi) as [Hi1 He1]; rewrite Ha in Hi1, He1; cbn in Hi1, He1 end;
             eapply Hstep; eauto).
      destruct (uv_run fdo pw beh s) as [s1 e1] eqn:Ha.
      destruct (run fdo pw beh s1 r) as [s2 e2] eqn:Hr. inversion H; subst.
      destruct (uv_run_gen _ _ _ Hi Ha). eapply Hstep; eauto.
  Qed.
End Generic.

(* ---- masks ------------------------------------------------------------------- *)
Ltac mk_destruct m := destruct m as [? ? ? ? ? ?].
Ltac bools := repeat match goal with b : bool |- _ => destruct b end.

Lemma meqb_eq a b : meqb a b = true -> a = b.
Proof. mk_destruct a; mk_destruct b; unfold meqb; cbn. bools; cbn; intros; try discriminate; reflexivity. Qed.
Lemma meqb_refl a : meqb a a = true.
Proof. mk_destruct a; unfold meqb; cbn. bools; reflexivity. Qed.
Lemma meqb_neq a b : meqb a b = false -> a <> b.
Proof. intros H E. subst. rewrite meqb_refl in H. discriminate. Qed.
Lemma mzero_eq a : mzero a = true -> a = m0.
Proof. apply meqb_eq. Qed.
Lemma mzero_m0 : mzero m0 = true.
Proof. reflexivity. Qed.

Definition msub (a b : mask) : Prop := mand a b = a.

Lemma mor_m0_l a : mor m0 a = a.
Proof. mk_destruct a; reflexivity. Qed.
Lemma mand_idem_all a : mand (mand a ALLEV) ALLEV = mand a ALLEV.
Proof. mk_destruct a; unfold mand; cbn. bools; reflexivity. Qed.
Lemma mand_allev_errhup a : mand (mand a ALLEV) ERRHUP = m0.
Proof. mk_destruct a; unfold mand; cbn. bools; reflexivity. Qed.
Lemma mor_errhup a b : mand a ERRHUP = m0 -> mand b ERRHUP = m0 -> mand (mor a b) ERRHUP = m0.
Proof. mk_destruct a; mk_destruct b; unfold mand, mor; cbn. bools; cbn; intros; try discriminate; reflexivity. Qed.
Lemma mdiff_errhup a b : mand a ERRHUP = m0 -> mand (mdiff a b) ERRHUP = m0.
Proof. mk_destruct a; mk_destruct b; unfold mand, mdiff; cbn. bools; cbn; intros; try discriminate; reflexivity. Qed.
Lemma mdiff_all a : mand a ERRHUP = m0 -> mdiff a ALLEV = m0.
Proof. mk_destruct a; unfold mand, mdiff; cbn. bools; cbn; intros; try discriminate; reflexivity. Qed.
Lemma mor_nonzero a b : mzero b = false -> mzero (mor a b) = false.
Proof. mk_destruct a; mk_destruct b; unfold mzero, meqb, mor; cbn. bools; cbn; intros; try discriminate; reflexivity. Qed.

(* ---- lists of handles ---------------------------------------------------------- *)
Lemma nth_upd_same {A} (l : list A) i f d : (i < length l)%nat -> nth i (upd i f l) d = f (nth i l d).
Proof. revert i; induction l as [|x xs IH]; intros [|i] H; cbn in *; try lia; auto. apply IH; lia. Qed.
Lemma nth_upd_other {A} (l : list A) i j f d : i <> j -> nth j (upd i f l) d = nth j l d.
Proof. revert i j; induction l as [|x xs IH]; intros [|i] [|j] H; cbn; auto; try congruence. Qed.
Lemma upd_oob {A} (l : list A) i f : (length l <= i)%nat -> upd i f l = l.
Proof. revert i; induction l as [|x xs IH]; intros [|i] H; cbn in *; try lia; auto. f_equal. apply IH; lia. Qed.

Lemma hget_hupd_same s i f : (i < length (hs s))%nat -> hget (hupd s i f) i = f (hget s i).
Proof. intros. unfold hget, hupd. cbn. apply nth_upd_same; auto. Qed.
Lemma hget_hupd_other s i j f : i <> j -> hget (hupd s i f) j = hget s j.
Proof. intros. unfold hget, hupd. cbn. apply nth_upd_other; auto. Qed.
Lemma hupd_length s i f : length (hs (hupd s i f)) = length (hs s).
Proof. unfold hupd. cbn. apply upd_length. Qed.
Lemma hget_oob s i : (length (hs s) <= i)%nat -> hget s i = dflt_h.
Proof. intros. unfold hget. apply nth_overflow; auto. Qed.
Lemma hget_hupd s i j f :
  hget (hupd s i f) j = if Nat.eqb i j && Nat.ltb i (length (hs s)) then f (hget s j) else hget s j.
Proof.
  destruct (Nat.eqb_spec i j) as [->|Hn].
  - destruct (Nat.ltb j (length (hs s))) eqn:Hl; cbn [andb].
    + apply Nat.ltb_lt in Hl. apply hget_hupd_same; auto.
    + apply Nat.ltb_ge in Hl. unfold hget, hupd. cbn [hs set_hs]. rewrite upd_oob; auto.
  - cbn [andb]. apply hget_hupd_other; auto.
Qed.
Lemma hget_app_old s x i : (i < length (hs s))%nat -> nth i (hs s ++ [x]) dflt_h = hget s i.
Proof. intros. unfold hget. apply app_nth1; auto. Qed.

Lemma mem_In i l : mem i l = true <-> In i l.
Proof.
  unfold mem. rewrite existsb_exists. split.
  - intros [x [Hx He]]. apply Nat.eqb_eq in He. subst; auto.
  - intros H. exists i. split; auto. apply Nat.eqb_refl.
Qed.
Lemma In_remove_id i j l : In j (remove_id i l) <-> In j l /\ i <> j.
Proof.
  unfold remove_id. rewrite filter_In. split; intros [H1 H2]; split; auto.
  - intros ->. rewrite Nat.eqb_refl in H2. discriminate.
  - destruct (Nat.eqb_spec i j); auto; try contradiction.
Qed.

(* ---- what the core operations change ---------------------------------------------- *)
(* fields an operation on watchers leaves alone *)
Definition same_loop (s s' : state) : Prop :=
  batch s' = batch s /\ npw s' = npw s /\ pend s' = pend s /\ prun s' = prun s /\
  sq s' = sq s /\ ring s' = ring s /\ strict s' = strict s /\ aborted s' = aborted s.
Definition same_kernel (s s' : state) : Prop :=
  fdt s' = fdt s /\ ep s' = ep s /\ pairs s' = pairs s.

Ltac split_all := repeat match goal with |- _ /\ _ => split end.
Ltac case_all :=
  repeat match goal with
         | |- context [if ?c then _ else _] => destruct c
         | |- context [match ?x with _ => _ end] => destruct x
         end.

Lemma io_stop_same s i ev : same_loop s (io_stop s i ev) /\ same_kernel s (io_stop s i ev).
Proof. unfold io_stop, same_loop, same_kernel, hupd. case_all; cbn; split_all; reflexivity. Qed.

Lemma io_start_same s i ev : same_loop s (io_start s i ev) /\ same_kernel s (io_start s i ev).
Proof. unfold io_start, same_loop, same_kernel, hupd. case_all; cbn; split_all; reflexivity. Qed.

Lemma io_stop_length s i ev : length (hs (io_stop s i ev)) = length (hs s).
Proof. unfold io_stop. case_all; cbn; rewrite ?upd_length; auto. Qed.

Lemma io_start_length s i ev : length (hs (io_start s i ev)) = length (hs s).
Proof. unfold io_start. case_all; cbn; rewrite ?upd_length; auto. Qed.

Lemma io_stop_other s i ev j : i <> j -> hget (io_stop s i ev) j = hget s j.
Proof.
  intros Hn. unfold io_stop. case_all; unfold hget; cbn;
    rewrite ?nth_upd_other by auto; cbn; rewrite ?nth_upd_other by auto; reflexivity.
Qed.

Lemma io_start_other s i ev j : i <> j -> hget (io_start s i ev) j = hget s j.
Proof.
  intros Hn. unfold io_start. case_all; unfold hget; cbn; rewrite ?nth_upd_other by auto; reflexivity.
Qed.

(* the handle itself after uv__io_stop *)
Lemma io_stop_self s i ev : (i < length (hs s))%nat ->
  let h := hget s i in
  let p := mdiff (h_pev h) ev in
  hget (io_stop s i ev) i =
    if mzero p then h_set_ev (h_set_pev h p) m0 else h_set_pev h p.
Proof.
  intros Hl h p. unfold io_stop.
  rewrite hget_hupd_same by auto. cbn [h_pev h_set_pev]. fold h. fold p.
  destruct (mzero p).
  - assert (hget (hupd (set_wq (hupd s i (fun h0 => h_set_pev h0 (mdiff (h_pev h0) ev)))
                               (remove_id i (wq (hupd s i (fun h0 => h_set_pev h0 (mdiff (h_pev h0) ev))))))
                        i (fun h0 => h_set_ev h0 m0)) i = h_set_ev (h_set_pev h p) m0) as Hx.
    { rewrite hget_hupd_same by (cbn; rewrite upd_length; auto).
      unfold hget at 1. cbn [hs set_wq set_hs hupd]. rewrite nth_upd_same by auto. reflexivity. }
    case_all; exact Hx.
  - case_all; [|unfold hget; cbn]; rewrite ?hget_hupd_same by auto; try reflexivity.
    rewrite nth_upd_same by auto. reflexivity.
Qed.

(* the registry after uv__io_stop *)
Lemma io_stop_reg s i ev fd : (i < length (hs s))%nat ->
  let h := hget s i in
  reg (io_stop s i ev) fd =
    if mzero (mdiff (h_pev h) ev) && (fd =? h_fd h) &&
       match reg s (h_fd h) with Some j => Nat.eqb i j | None => false end
    then None else reg s fd.
Proof.
  intros Hl h. unfold io_stop.
  rewrite hget_hupd_same by auto. cbn [h_pev h_set_pev h_fd]. fold h.
  destruct (mzero (mdiff (h_pev h) ev)); cbn [andb].
  - cbn [reg hupd set_hs set_wq]. 
    replace (h_fd (hget (hupd (set_wq (hupd s i (fun h0 => h_set_pev h0 (mdiff (h_pev h0) ev)))
              (remove_id i (wq (hupd s i (fun h0 => h_set_pev h0 (mdiff (h_pev h0) ev))))))
              i (fun h0 => h_set_ev h0 m0)) i)) with (h_fd h).
    2:{ rewrite hget_hupd_same by (cbn; rewrite upd_length; auto).
        unfold hget at 1. cbn [hs set_wq set_hs hupd]. rewrite nth_upd_same by auto. reflexivity. }
    destruct (reg s (h_fd h)) as [j|] eqn:Hr.
    + destruct (Nat.eqb i j); cbn [reg set_reg hupd set_hs set_wq fn_set].
      * unfold fn_set. destruct (fd =? h_fd h); reflexivity.
      * rewrite Bool.andb_false_r. reflexivity.
    + rewrite Bool.andb_false_r. reflexivity.
  - case_all; reflexivity.
Qed.

Lemma io_stop_wq s i ev : (i < length (hs s))%nat ->
  wq (io_stop s i ev) =
    if mzero (mdiff (h_pev (hget s i)) ev) then remove_id i (wq s)
    else if mem i (wq s) then wq s else wq s ++ [i].
Proof.
  intros Hl. unfold io_stop. rewrite hget_hupd_same by auto. cbn [h_pev h_set_pev].
  destruct (mzero (mdiff (h_pev (hget s i)) ev)).
  - case_all; reflexivity.
  - cbn [wq hupd set_hs]. destruct (mem i (wq s)); reflexivity.
Qed.

Lemma io_start_self s i ev : (i < length (hs s))%nat ->
  hget (io_start s i ev) i = h_set_pev (hget s i) (mor (h_pev (hget s i)) ev).
Proof.
  intros Hl. unfold io_start.
  assert (hget (hupd s i (fun h => h_set_pev h (mor (h_pev h) ev))) i =
          h_set_pev (hget s i) (mor (h_pev (hget s i)) ev)) as Hx by (apply hget_hupd_same; auto).
  case_all; unfold hget in *; cbn in *; exact Hx.
Qed.

Lemma io_start_reg s i ev fd : (i < length (hs s))%nat ->
  let h := hget s i in
  reg (io_start s i ev) fd =
    if meqb (h_ev h) (mor (h_pev h) ev) then reg s fd
    else match reg s (h_fd h) with
         | None => if fd =? h_fd h then Some i else reg s fd
         | Some _ => reg s fd
         end.
Proof.
  intros Hl h. unfold io_start. rewrite hget_hupd_same by auto.
  cbn [h_ev h_pev h_fd h_set_pev]. fold h.
  destruct (meqb (h_ev h) (mor (h_pev h) ev)); [reflexivity|].
  destruct (mem i (wq (hupd s i (fun h0 => h_set_pev h0 (mor (h_pev h0) ev))))); cbn [reg hupd set_hs set_wq];
    destruct (reg s (h_fd h)); cbn [reg set_reg hupd set_hs set_wq]; unfold fn_set; reflexivity.
Qed.

Lemma io_start_wq s i ev : (i < length (hs s))%nat ->
  let h := hget s i in
  wq (io_start s i ev) =
    if meqb (h_ev h) (mor (h_pev h) ev) then wq s
    else if mem i (wq s) then wq s else wq s ++ [i].
Proof.
  intros Hl h. unfold io_start. rewrite hget_hupd_same by auto.
  cbn [h_ev h_pev h_fd h_set_pev]. fold h.
  destruct (meqb (h_ev h) (mor (h_pev h) ev)); [reflexivity|].
  cbn [wq hupd set_hs]. destruct (mem i (wq s)); cbn [reg wq hupd set_hs set_wq];
    destruct (reg s (h_fd h)); reflexivity.
Qed.

(* epoll_ctl touches nothing but the interest set *)
Lemma epoll_ctl_same s op fd m :
  let s' := fst (epoll_ctl s op fd m) in
  hs s' = hs s /\ reg s' = reg s /\ wq s' = wq s /\ same_loop s s' /\ fdt s' = fdt s /\ pairs s' = pairs s.
Proof. unfold epoll_ctl, same_loop. case_all; cbn; split_all; reflexivity. Qed.

Lemma epoll_ctl_ep s op fd m :
  ep (fst (epoll_ctl s op fd m)) =
    match fdt s fd with
    | None => ep s
    | Some o =>
      match op, ep s fd o with
      | CAdd, None | CMod, Some _ => ep_set (ep s) fd o (Some m)
      | CDel, Some _ => ep_set (ep s) fd o None
      | _, _ => ep s
      end
    end.
Proof. unfold epoll_ctl. case_all; reflexivity. Qed.

Lemma epoll_ctl_err s op fd m :
  snd (epoll_ctl s op fd m) =
    match fdt s fd with
    | None => EBADF
    | Some o =>
      match op, ep s fd o with
      | CAdd, None | CMod, Some _ | CDel, Some _ => 0
      | CAdd, Some _ => EEXIST
      | _, None => ENOENT
      end
    end.
Proof. unfold epoll_ctl. case_all; reflexivity. Qed.

Definition inv_batch (b : list (Z * Z * mask)) (fd : Z) : list (Z * Z * mask) :=
  map (fun e => match e with (f, orig, ev) => if f =? fd then (-1, orig, ev) else e end) b.

Lemma invalidate_same s fd :
  let s' := invalidate s fd in
  hs s' = hs s /\ reg s' = reg s /\ wq s' = wq s /\ batch s' = inv_batch (batch s) fd /\
  npw s' = npw s /\ pend s' = pend s /\ prun s' = prun s /\ sq s' = sq s /\ ring s' = ring s /\
  strict s' = strict s /\ aborted s' = aborted s /\ fdt s' = fdt s /\ pairs s' = pairs s.
Proof. unfold invalidate, epoll_ctl, inv_batch. case_all; cbn; split_all; reflexivity. Qed.

Lemma invalidate_ep s fd :
  ep (invalidate s fd) =
    match fdt s fd with
    | Some o => match ep s fd o with Some _ => ep_set (ep s) fd o None | None => ep s end
    | None => ep s
    end.
Proof. unfold invalidate. rewrite epoll_ctl_ep. cbn. case_all; reflexivity. Qed.

Lemma In_inv_batch b fd f orig rep :
  In (f, orig, rep) (inv_batch b fd) -> f = -1 \/ (f <> fd /\ In (f, orig, rep) b).
Proof.
  unfold inv_batch. rewrite in_map_iff. intros [[[f' o'] r'] [He Hi]].
  destruct (Z.eqb_spec f' fd).
  - inversion He; subst. auto.
  - inversion He; subst. right. auto.
Qed.

(* the conditional invalidation of the repaired uv__poll_stop / UV_EBADF stop *)
Lemma iuw_same s fd :
  let s' := invalidate_unless_watched s fd in
  hs s' = hs s /\ reg s' = reg s /\ wq s' = wq s /\
  npw s' = npw s /\ pend s' = pend s /\ prun s' = prun s /\ sq s' = sq s /\ ring s' = ring s /\
  strict s' = strict s /\ aborted s' = aborted s /\ fdt s' = fdt s /\ pairs s' = pairs s.
Proof.
  unfold invalidate_unless_watched. destruct (fd_exists s fd); cbv zeta; [split_all; reflexivity|].
  destruct (invalidate_same s fd) as [A [B [C [_ [D [E [F [G [H [I [J [K L]]]]]]]]]]]]. split_all; auto.
Qed.

Lemma iuw_cases s fd :
  (reg s fd <> None /\ invalidate_unless_watched s fd = s) \/
  (reg s fd = None /\ invalidate_unless_watched s fd = invalidate s fd).
Proof.
  unfold invalidate_unless_watched, fd_exists. destruct (reg s fd); [left; split; [discriminate|auto]|right; auto].
Qed.
