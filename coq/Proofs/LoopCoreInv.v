(* Shared invariant infrastructure for Model/LoopCore.v (used by the C01 and
   C03 proofs).

   [LInvG s pend wpend] is the accounting invariant of the loop core:
     - the timer invariant [TI (ts s)], the timer table parallel to the
       handle table, timer handles active exactly when their timer is,
       loop time never ahead of the clock;
     - [nact s] = number of handles that are active and referenced; every
       closing handle is inactive;
     - the closing list, together with the close batch [pend] that
       uv__run_closing_handles has detached and not yet finished, holds
       exactly the handles that are closing and not closed, once each;
     - [nreq s] = number of work records not yet delivered, and [wq s]
       together with the batch [wpend] that uv__work_done has detached holds
       exactly those records, once each.
   [LInv s pend := LInvG s pend []].

   Lemma naming: [LInvG_<function>] is preservation by <function>. *)
From UV Require Import Lib.Base Model.Heap Model.Timer Model.LoopCore
  Proofs.HeapProofs Proofs.TimerProofs.
Local Open Scope Z_scope.

(* ------------------------------------------------------------------ *)
(* lists                                                              *)
(* ------------------------------------------------------------------ *)
Definition b2z (b : bool) : Z := if b then 1 else 0.

Definition countZ {A} (p : A -> bool) (l : list A) : Z :=
  Z.of_nat (length (filter p l)).

Lemma countZ_nil {A} (p : A -> bool) : countZ p [] = 0.
Proof. reflexivity. Qed.

Lemma countZ_cons {A} (p : A -> bool) x l :
  countZ p (x :: l) = b2z (p x) + countZ p l.
Proof. unfold countZ; simpl. destruct (p x); simpl length; unfold b2z; lia. Qed.

Lemma countZ_app {A} (p : A -> bool) l1 l2 :
  countZ p (l1 ++ l2) = countZ p l1 + countZ p l2.
Proof. unfold countZ. rewrite filter_app, app_length. lia. Qed.

Lemma countZ_nonneg {A} (p : A -> bool) l : 0 <= countZ p l.
Proof. unfold countZ; lia. Qed.

Lemma countZ_upd {A} (p : A -> bool) i f l d :
  (i < length l)%nat ->
  countZ p (upd i f l) = countZ p l - b2z (p (nth i l d)) + b2z (p (f (nth i l d))).
Proof.
  revert i; induction l as [|x xs IH]; intros [|i] Hi; simpl in Hi; try lia.
  - simpl. rewrite !countZ_cons. lia.
  - simpl. rewrite !countZ_cons. rewrite IH by lia. lia.
Qed.

Lemma countZ_pos_iff {A} (p : A -> bool) l :
  0 < countZ p l <-> exists x, In x l /\ p x = true.
Proof.
  induction l as [|x xs IH].
  - rewrite countZ_nil. split; [lia|intros (x & [] & _)].
  - rewrite countZ_cons. pose proof (countZ_nonneg p xs). split.
    + intros H0. destruct (p x) eqn:E.
      * exists x; split; [left; reflexivity|exact E].
      * unfold b2z in H0. destruct IH as [IH _]. destruct IH as (y & Hy & Py); [lia|].
        exists y; split; [right; exact Hy|exact Py].
    + intros (y & [->|Hy] & Py).
      * rewrite Py. unfold b2z. lia.
      * destruct IH as [_ IH]. assert (0 < countZ p xs) by (apply IH; eauto).
        unfold b2z; destruct (p x); lia.
Qed.

Lemma upd_overflow {A} i (f : A -> A) l : (length l <= i)%nat -> upd i f l = l.
Proof.
  revert i; induction l as [|x xs IH]; intros [|i] Hi; simpl in *; auto; try lia.
  rewrite IH by lia. reflexivity.
Qed.

Lemma upd_ext_at {A} i (f g : A -> A) l d :
  ((i < length l)%nat -> f (nth i l d) = g (nth i l d)) -> upd i f l = upd i g l.
Proof.
  revert i; induction l as [|x xs IH]; intros [|i] H; simpl in *; auto.
  - rewrite H by lia. reflexivity.
  - rewrite (IH i); [reflexivity|]. intros Hi. apply H. lia.
Qed.

Lemma upd_same_id {A} i (l : list A) : upd i (fun x => x) l = l.
Proof. revert i; induction l as [|x xs IH]; intros [|i]; simpl; auto. rewrite IH; reflexivity. Qed.

Lemma upd_upd {A} i (f g : A -> A) l : upd i g (upd i f l) = upd i (fun x => g (f x)) l.
Proof. revert i; induction l as [|x xs IH]; intros [|i]; simpl; auto. rewrite IH; reflexivity. Qed.

Lemma nth_app_last {A} (l : list A) x d : nth (length l) (l ++ [x]) d = x.
Proof. rewrite app_nth2 by lia. rewrite Nat.sub_diag. reflexivity. Qed.

Lemma NoDup_app_comm_nil {A} (l : list A) : NoDup (l ++ []) <-> NoDup ([] ++ l).
Proof. rewrite app_nil_r. reflexivity. Qed.

(* ------------------------------------------------------------------ *)
(* handle table access                                                *)
(* ------------------------------------------------------------------ *)
Definition p_ar (h : hrec) : bool := h_active h && h_ref h.
Definition p_undeliv (w : wrec) : bool := negb (w_delivered w).
Definition dflt_w : wrec := mkW false false.
Definition is_timer (h : hrec) : bool := hkind_eqb (h_kind h) KTimer.

Lemma hget_upd_same s s' i f :
  hs s' = upd i f (hs s) -> (i < length (hs s))%nat -> hget s' i = f (hget s i).
Proof. intros E Hi. unfold hget. rewrite E. apply nth_upd_same. exact Hi. Qed.

Lemma hget_upd_other s s' i j f :
  hs s' = upd i f (hs s) -> i <> j -> hget s' j = hget s j.
Proof. intros E Hi. unfold hget. rewrite E. apply nth_upd_other. exact Hi. Qed.

Lemma hget_overflow s i : (length (hs s) <= i)%nat -> hget s i = dflt_h.
Proof. intros H. unfold hget. apply nth_overflow. exact H. Qed.

Lemma hget_closed_false_lt s i : h_closed (hget s i) = false -> (i < length (hs s))%nat.
Proof.
  intros H. destruct (Nat.lt_ge_cases i (length (hs s))) as [L|G]; [exact L|].
  rewrite hget_overflow in H by exact G. discriminate.
Qed.

Lemma hget_nth_error s i :
  (i < length (hs s))%nat -> nth_error (hs s) i = Some (hget s i).
Proof. intros H. unfold hget. apply nth_error_nth'. exact H. Qed.

Lemma nth_error_hget s i h : nth_error (hs s) i = Some h -> hget s i = h /\ (i < length (hs s))%nat.
Proof.
  intros H. split.
  - unfold hget. apply nth_error_nth. exact H.
  - apply nth_error_Some. congruence.
Qed.

(* ------------------------------------------------------------------ *)
(* the invariant                                                      *)
(* ------------------------------------------------------------------ *)
Definition hok (h : hrec) : Prop :=
  (h_closing h = true -> h_active h = false) /\ (h_closed h = true -> h_closing h = true).

Definition tsync1 (h : hrec) (t : timer) : Prop :=
  t_active t = is_timer h && h_active h /\
  (is_timer h = true -> h_closing h = true -> t_closing t = true) /\
  (t_closing t = true -> t_active t = false).

Record HInv (s : lstate) (pend : list nat) : Prop := {
  hi_ti : TI (ts s);
  hi_clock : now (ts s) <= clock s;
  hi_len : length (tms (ts s)) = length (hs s);
  hi_sync : forall i, (i < length (hs s))%nat -> tsync1 (hget s i) (get (ts s) i);
  hi_ready : forall i, In i (ready (ts s)) -> is_timer (hget s i) = true;
  hi_hok : forall i, (i < length (hs s))%nat -> hok (hget s i);
  hi_nact : nact s = countZ p_ar (hs s);
  hi_nodup : NoDup (closing s ++ pend);
  hi_cl : forall i, In i (closing s ++ pend) <->
          (i < length (hs s))%nat /\ h_closing (hget s i) = true /\ h_closed (hget s i) = false
}.

Record WInv (s : lstate) (wpend : list nat) : Prop := {
  wi_nreq : nreq s = countZ p_undeliv (works s);
  wi_nodup : NoDup (wq s ++ wpend);
  wi_wq : forall w, In w (wq s ++ wpend) <->
          (w < length (works s))%nat /\ w_delivered (nth w (works s) dflt_w) = false
}.

Definition LInvG (s : lstate) (pend wpend : list nat) : Prop := HInv s pend /\ WInv s wpend.
Definition LInv (s : lstate) (pend : list nat) : Prop := LInvG s pend [].

(* the fields the invariant reads *)
Definition hcore (s : lstate) :=
  (ts s, clock s, hs s, nact s, closing s, nreq s, works s, wq s).

Lemma hcore_eq s s' : hcore s' = hcore s ->
  ts s' = ts s /\ clock s' = clock s /\ hs s' = hs s /\ nact s' = nact s /\
  closing s' = closing s /\ nreq s' = nreq s /\ works s' = works s /\ wq s' = wq s.
Proof. unfold hcore. intros H. inversion H. repeat split; reflexivity || assumption. Qed.

Lemma HInv_fields s s' pend :
  ts s' = ts s -> clock s' = clock s -> hs s' = hs s -> nact s' = nact s -> closing s' = closing s ->
  HInv s pend -> HInv s' pend.
Proof.
  intros E1 E2 E3 E4 E5 [A B C D E F G H I].
  constructor; unfold hget in *; rewrite ?E1, ?E2, ?E3, ?E4, ?E5; assumption.
Qed.

Lemma WInv_fields s s' wpend :
  nreq s' = nreq s -> works s' = works s -> wq s' = wq s -> WInv s wpend -> WInv s' wpend.
Proof.
  intros E1 E2 E3 [A B C]. constructor; rewrite ?E1, ?E2, ?E3; assumption.
Qed.

Lemma LInvG_core s s' pend wpend : hcore s' = hcore s -> LInvG s pend wpend -> LInvG s' pend wpend.
Proof.
  intros H [HI WI]. apply hcore_eq in H. destruct H as (E1 & E2 & E3 & E4 & E5 & E6 & E7 & E8).
  split; [eapply HInv_fields; eauto | eapply WInv_fields; eauto].
Qed.

Lemma LInvG_init t0 m : LInvG (linit t0 m) [] [].
Proof.
  split; constructor; cbn.
  - apply TI_init.
  - lia.
  - reflexivity.
  - intros i H; lia.
  - intros i [].
  - intros i H; lia.
  - reflexivity.
  - constructor.
  - intros i; split; [intros []|intros (H & _); lia].
  - reflexivity.
  - constructor.
  - intros i; split; [intros []|intros (H & _); lia].
Qed.

(* reading the invariant *)
Lemma LInvG_closing_inactive s pend wpend i :
  LInvG s pend wpend -> h_closing (hget s i) = true -> h_active (hget s i) = false.
Proof.
  intros [H _] Hc. destruct (Nat.lt_ge_cases i (length (hs s))) as [L|G].
  - apply (hi_hok s pend H i L). exact Hc.
  - rewrite hget_overflow by exact G. reflexivity.
Qed.

Lemma hcore_wq_set s k v : hcore (wq_set s k v) = hcore s.
Proof. destruct k; reflexivity. Qed.

(* ------------------------------------------------------------------ *)
(* one handle changes: the general preservation lemma                  *)
(* ------------------------------------------------------------------ *)
Lemma HInv_step s s' pend pend' i f :
  HInv s pend -> (i < length (hs s))%nat ->
  hs s' = upd i f (hs s) ->
  nact s' = nact s - b2z (p_ar (hget s i)) + b2z (p_ar (f (hget s i))) ->
  now (ts s') <= clock s' ->
  TI (ts s') -> length (tms (ts s')) = length (tms (ts s)) ->
  (forall j, j <> i -> get (ts s') j = get (ts s) j) ->
  (forall j, In j (ready (ts s')) -> In j (ready (ts s))) ->
  h_kind (f (hget s i)) = h_kind (hget s i) ->
  tsync1 (f (hget s i)) (get (ts s') i) ->
  hok (f (hget s i)) ->
  NoDup (closing s' ++ pend') ->
  (forall j, In j (closing s' ++ pend') <->
             if Nat.eqb j i then h_closing (f (hget s i)) = true /\ h_closed (f (hget s i)) = false
             else In j (closing s ++ pend)) ->
  HInv s' pend'.
Proof.
  intros [A B C D E F G H I] Hi Ehs En Hclk HT Hlen Hfr Hrd Hk Hsy Hok Hnd Hcl.
  assert (Lhs : length (hs s') = length (hs s)) by (rewrite Ehs; apply upd_length).
  assert (Gi : hget s' i = f (hget s i)) by (apply hget_upd_same; assumption).
  assert (Gj : forall j, j <> i -> hget s' j = hget s j)
    by (intros j Hj; eapply hget_upd_other; [exact Ehs|congruence]).
  constructor.
  - exact HT.
  - exact Hclk.
  - congruence.
  - intros j Hj. rewrite Lhs in Hj. destruct (Nat.eq_dec j i) as [->|Hne].
    + rewrite Gi. exact Hsy.
    + rewrite Gj, Hfr by assumption. apply D; exact Hj.
  - intros j Hj. apply Hrd in Hj. destruct (Nat.eq_dec j i) as [->|Hne].
    + rewrite Gi. unfold is_timer. rewrite Hk. apply (E i Hj).
    + rewrite Gj by assumption. apply E; exact Hj.
  - intros j Hj. rewrite Lhs in Hj. destruct (Nat.eq_dec j i) as [->|Hne].
    + rewrite Gi. exact Hok.
    + rewrite Gj by assumption. apply F; exact Hj.
  - rewrite En, Ehs, G. rewrite (countZ_upd p_ar i f (hs s) dflt_h Hi). unfold hget. lia.
  - exact Hnd.
  - intros j. rewrite Hcl, Lhs. destruct (Nat.eqb_spec j i) as [->|Hne].
    + rewrite Gi. tauto.
    + rewrite Gj by assumption. apply I.
Qed.

(* Symbolic execution of a straight-line piece of code that touches handle
   [i] only: state [s] is reached from [s0] by applying [f] to handle [i],
   adjusting the counter accordingly, with timers [T], clock [K], closing
   list [C], and the request fields untouched. *)
Definition hstepG (s0 s : lstate) (i : nat) (f : hrec -> hrec)
           (T : tstate) (K : Z) (C : list nat) : Prop :=
  hs s = upd i f (hs s0) /\
  nact s = nact s0 - b2z (p_ar (hget s0 i)) + b2z (p_ar (f (hget s0 i))) /\
  ts s = T /\ clock s = K /\ closing s = C /\
  nreq s = nreq s0 /\ works s = works s0 /\ wq s = wq s0.

Lemma hstep_refl s i : hstepG s s i (fun h => h) (ts s) (clock s) (closing s).
Proof. unfold hstepG. rewrite upd_same_id. repeat split; auto. lia. Qed.

Lemma hstep_hget s0 s i f T K C :
  (i < length (hs s0))%nat -> hstepG s0 s i f T K C -> hget s i = f (hget s0 i).
Proof. intros Hi (E & _). apply hget_upd_same; assumption. Qed.

Lemma hstep_core s0 s s' i f T K C :
  hcore s' = hcore s -> hstepG s0 s i f T K C -> hstepG s0 s' i f T K C.
Proof.
  intros H (A1 & A2 & A3 & A4 & A5 & A6 & A7 & A8). apply hcore_eq in H.
  destruct H as (E1 & E2 & E3 & E4 & E5 & E6 & E7 & E8).
  unfold hstepG. repeat split; congruence.
Qed.

Lemma hstep_set_ts s0 s i f T K C v : hstepG s0 s i f T K C -> hstepG s0 (set_ts s v) i f v K C.
Proof. intros (A1 & A2 & A3 & A4 & A5 & A6 & A7 & A8). unfold hstepG; cbn. repeat split; auto. Qed.

Lemma hstep_set_clock s0 s i f T K C v : hstepG s0 s i f T K C -> hstepG s0 (set_clock s v) i f T v C.
Proof. intros (A1 & A2 & A3 & A4 & A5 & A6 & A7 & A8). unfold hstepG; cbn. repeat split; auto. Qed.

Lemma hstep_set_closing s0 s i f T K C v : hstepG s0 s i f T K C -> hstepG s0 (set_closing s v) i f T K v.
Proof. intros (A1 & A2 & A3 & A4 & A5 & A6 & A7 & A8). unfold hstepG; cbn. repeat split; auto. Qed.

Lemma hstep_upd_h s0 s i f g T K C :
  p_ar (g (f (hget s0 i))) = p_ar (f (hget s0 i)) ->
  hstepG s0 s i f T K C -> hstepG s0 (upd_h s i g) i (fun h => g (f h)) T K C.
Proof.
  intros Hp (A1 & A2 & A3 & A4 & A5 & A6 & A7 & A8). unfold hstepG; cbn.
  rewrite A1, upd_upd, Hp. repeat split; auto.
Qed.

Lemma with_active_same h b : h_active h = b -> with_active b h = h.
Proof. destruct h; cbn; intros <-; reflexivity. Qed.
Lemma with_ref_same h b : h_ref h = b -> with_ref b h = h.
Proof. destruct h; cbn; intros <-; reflexivity. Qed.

Ltac proj_cbn := cbn [ts clock hs nact nreq closing works wq set_nact set_hs upd_h set_ts set_clock set_closing].
Ltac flag_solve A2 := rewrite A2; unfold p_ar;
  cbn [with_active with_ref h_active h_ref h_closing h_closed h_kind];
  repeat match goal with E : _ = true |- _ => rewrite E | E : _ = false |- _ => rewrite E end;
  cbn [andb b2z]; lia.

Lemma hstep_handle_stop s0 s i f T K C :
  (i < length (hs s0))%nat -> hstepG s0 s i f T K C ->
  hstepG s0 (handle_stop s i) i (fun h => with_active false (f h)) T K C.
Proof.
  intros Hi Hst. pose proof (hstep_hget _ _ _ _ _ _ _ Hi Hst) as Hg.
  destruct Hst as (A1 & A2 & A3 & A4 & A5 & A6 & A7 & A8).
  unfold handle_stop. rewrite Hg. unfold hstepG.
  destruct (h_active (f (hget s0 i))) eqn:Ea.
  - destruct (h_ref (f (hget s0 i))) eqn:Er; proj_cbn; rewrite A1, upd_upd;
      (split; [reflexivity|]); (split; [|repeat split; assumption]); flag_solve A2.
  - split; [|split; [|repeat split; assumption]].
    + rewrite A1. apply upd_ext_at with (d := dflt_h). intros _.
      symmetry. apply with_active_same. exact Ea.
    + flag_solve A2.
Qed.

Lemma hstep_handle_start s0 s i f T K C :
  (i < length (hs s0))%nat -> hstepG s0 s i f T K C ->
  hstepG s0 (handle_start s i) i (fun h => with_active true (f h)) T K C.
Proof.
  intros Hi Hst. pose proof (hstep_hget _ _ _ _ _ _ _ Hi Hst) as Hg.
  destruct Hst as (A1 & A2 & A3 & A4 & A5 & A6 & A7 & A8).
  unfold handle_start. rewrite Hg. unfold hstepG.
  destruct (h_active (f (hget s0 i))) eqn:Ea.
  - split; [|split; [|repeat split; assumption]].
    + rewrite A1. apply upd_ext_at with (d := dflt_h). intros _.
      symmetry. apply with_active_same. exact Ea.
    + flag_solve A2.
  - destruct (h_ref (f (hget s0 i))) eqn:Er; proj_cbn; rewrite A1, upd_upd;
      (split; [reflexivity|]); (split; [|repeat split; assumption]); flag_solve A2.
Qed.

Lemma hstep_handle_ref s0 s i f T K C :
  (i < length (hs s0))%nat ->
  (h_closing (f (hget s0 i)) = true -> h_active (f (hget s0 i)) = false) ->
  hstepG s0 s i f T K C ->
  hstepG s0 (handle_ref s i) i (fun h => with_ref true (f h)) T K C.
Proof.
  intros Hi Hca Hst. pose proof (hstep_hget _ _ _ _ _ _ _ Hi Hst) as Hg.
  destruct Hst as (A1 & A2 & A3 & A4 & A5 & A6 & A7 & A8).
  unfold handle_ref. rewrite Hg. unfold hstepG.
  destruct (h_ref (f (hget s0 i))) eqn:Er.
  - split; [|split; [|repeat split; assumption]].
    + rewrite A1. apply upd_ext_at with (d := dflt_h). intros _.
      symmetry. apply with_ref_same. exact Er.
    + flag_solve A2.
  - destruct (h_closing (f (hget s0 i))) eqn:Ec;
      [pose proof (Hca eq_refl) as Ea|destruct (h_active (f (hget s0 i))) eqn:Ea];
      proj_cbn; rewrite A1, upd_upd;
      (split; [reflexivity|]); (split; [|repeat split; assumption]); flag_solve A2.
Qed.

Lemma hstep_handle_unref s0 s i f T K C :
  (i < length (hs s0))%nat ->
  (h_closing (f (hget s0 i)) = true -> h_active (f (hget s0 i)) = false) ->
  hstepG s0 s i f T K C ->
  hstepG s0 (handle_unref s i) i (fun h => with_ref false (f h)) T K C.
Proof.
  intros Hi Hca Hst. pose proof (hstep_hget _ _ _ _ _ _ _ Hi Hst) as Hg.
  destruct Hst as (A1 & A2 & A3 & A4 & A5 & A6 & A7 & A8).
  unfold handle_unref. rewrite Hg. unfold hstepG.
  destruct (h_ref (f (hget s0 i))) eqn:Er.
  - destruct (h_closing (f (hget s0 i))) eqn:Ec;
      [pose proof (Hca eq_refl) as Ea|destruct (h_active (f (hget s0 i))) eqn:Ea];
      proj_cbn; rewrite A1, upd_upd;
      (split; [reflexivity|]); (split; [|repeat split; assumption]); flag_solve A2.
  - split; [|split; [|repeat split; assumption]].
    + rewrite A1. apply upd_ext_at with (d := dflt_h). intros _.
      symmetry. apply with_ref_same. exact Er.
    + flag_solve A2.
Qed.

(* ------------------------------------------------------------------ *)
(* from a symbolic step to the invariant                               *)
(* ------------------------------------------------------------------ *)
Lemma WInv_hstep s0 s i f T K C wpend :
  hstepG s0 s i f T K C -> WInv s0 wpend -> WInv s wpend.
Proof.
  intros (A1 & A2 & A3 & A4 & A5 & A6 & A7 & A8). apply WInv_fields; assumption.
Qed.

(* the closing status of handle [i] does not change *)
Lemma LInvG_hstep s0 s pend wpend i f :
  LInvG s0 pend wpend -> (i < length (hs s0))%nat ->
  hstepG s0 s i f (ts s) (clock s) (closing s0) ->
  now (ts s) <= clock s ->
  TI (ts s) -> length (tms (ts s)) = length (tms (ts s0)) ->
  (forall j, j <> i -> get (ts s) j = get (ts s0) j) ->
  (forall j, In j (ready (ts s)) -> In j (ready (ts s0))) ->
  h_kind (f (hget s0 i)) = h_kind (hget s0 i) ->
  tsync1 (f (hget s0 i)) (get (ts s) i) ->
  hok (f (hget s0 i)) ->
  h_closing (f (hget s0 i)) = h_closing (hget s0 i) ->
  h_closed (f (hget s0 i)) = h_closed (hget s0 i) ->
  LInvG s pend wpend.
Proof.
  intros [HI WI] Hi Hst Hclk HT Hlen Hfr Hrd Hk Hsy Hok Hcg Hcd.
  split; [|eapply WInv_hstep; eauto].
  destruct Hst as (A1 & A2 & A3 & A4 & A5 & A6 & A7 & A8).
  eapply HInv_step with (s := s0) (i := i) (f := f) (pend := pend); eauto.
  - rewrite A5. apply (hi_nodup _ _ HI).
  - intros j. rewrite A5. destruct (Nat.eqb_spec j i) as [->|Hne]; [|reflexivity].
    rewrite Hcg, Hcd. rewrite (hi_cl _ _ HI i). tauto.
Qed.

(* neither timers nor clock change *)
Lemma LInvG_hstep_plain s0 s pend wpend i f :
  LInvG s0 pend wpend -> (i < length (hs s0))%nat ->
  hstepG s0 s i f (ts s0) (clock s0) (closing s0) ->
  h_kind (f (hget s0 i)) = h_kind (hget s0 i) ->
  (is_timer (hget s0 i) = true -> h_active (f (hget s0 i)) = h_active (hget s0 i)) ->
  hok (f (hget s0 i)) ->
  h_closing (f (hget s0 i)) = h_closing (hget s0 i) ->
  h_closed (f (hget s0 i)) = h_closed (hget s0 i) ->
  LInvG s pend wpend.
Proof.
  intros Hinv Hi Hst Hk Hact Hok Hcg Hcd.
  pose proof Hst as (A1 & A2 & A3 & A4 & A5 & A6 & A7 & A8).
  pose proof Hinv as [HI _].
  eapply LInvG_hstep; eauto; rewrite ?A3, ?A4; auto.
  - apply (hi_clock _ _ HI).
  - apply (hi_ti _ _ HI).
  - destruct (hi_sync _ _ HI i Hi) as (S1 & S2 & S3).
    unfold tsync1, is_timer in *. rewrite Hk, Hcg. split; [|split; auto].
    rewrite S1. destruct (hkind_eqb (h_kind (hget s0 i)) KTimer); [|reflexivity].
    rewrite Hact by reflexivity. reflexivity.
Qed.

(* uv_close: handle [i] becomes closing and is pushed on the closing list *)
Lemma LInvG_hstep_close s0 s pend wpend i f :
  LInvG s0 pend wpend -> (i < length (hs s0))%nat ->
  hstepG s0 s i f (ts s) (clock s) (i :: closing s0) ->
  now (ts s) <= clock s ->
  TI (ts s) -> length (tms (ts s)) = length (tms (ts s0)) ->
  (forall j, j <> i -> get (ts s) j = get (ts s0) j) ->
  (forall j, In j (ready (ts s)) -> In j (ready (ts s0))) ->
  h_kind (f (hget s0 i)) = h_kind (hget s0 i) ->
  tsync1 (f (hget s0 i)) (get (ts s) i) ->
  hok (f (hget s0 i)) ->
  h_closing (hget s0 i) = false ->
  h_closing (f (hget s0 i)) = true ->
  h_closed (f (hget s0 i)) = false ->
  LInvG s pend wpend.
Proof.
  intros [HI WI] Hi Hst Hclk HT Hlen Hfr Hrd Hk Hsy Hok Hc0 Hcg Hcd.
  split; [|eapply WInv_hstep; eauto].
  destruct Hst as (A1 & A2 & A3 & A4 & A5 & A6 & A7 & A8).
  assert (Hnin : ~ In i (closing s0 ++ pend)).
  { intros Hin. apply (hi_cl _ _ HI) in Hin. destruct Hin as (_ & Hin & _). congruence. }
  eapply HInv_step with (s := s0) (i := i) (f := f) (pend := pend); eauto.
  - rewrite A5. simpl. constructor; [exact Hnin|apply (hi_nodup _ _ HI)].
  - intros j. rewrite A5. simpl. destruct (Nat.eqb_spec j i) as [->|Hne].
    + split; auto.
    + split; [intros [E|Hin]; [congruence|exact Hin]|intros Hin; right; exact Hin].
Qed.

(* uv__finish_close: handle [i], head of the detached batch, becomes closed *)
Lemma LInvG_hstep_closed s0 s rest wpend i f :
  LInvG s0 (i :: rest) wpend ->
  hstepG s0 s i f (ts s0) (clock s0) (closing s0) ->
  h_kind (f (hget s0 i)) = h_kind (hget s0 i) ->
  h_active (f (hget s0 i)) = h_active (hget s0 i) ->
  h_closing (f (hget s0 i)) = true ->
  h_closed (f (hget s0 i)) = true ->
  LInvG s rest wpend.
Proof.
  intros [HI WI] Hst Hk Hact Hcg Hcd.
  split; [|eapply WInv_hstep; eauto].
  pose proof Hst as (A1 & A2 & A3 & A4 & A5 & A6 & A7 & A8).
  assert (Hin : In i (closing s0 ++ i :: rest)) by (apply in_or_app; right; left; reflexivity).
  apply (hi_cl _ _ HI) in Hin. destruct Hin as (Hi & Hc0 & Hd0).
  destruct (hi_hok _ _ HI i Hi) as (Hina & _). specialize (Hina Hc0).
  pose proof (hi_nodup _ _ HI) as Hnd.
  eapply HInv_step with (s := s0) (i := i) (f := f) (pend := i :: rest); eauto;
    rewrite ?A3, ?A4, ?A5; auto.
  - apply (hi_clock _ _ HI).
  - apply (hi_ti _ _ HI).
  - destruct (hi_sync _ _ HI i Hi) as (S1 & S2 & S3).
    unfold tsync1, is_timer in *. rewrite Hk, Hact, Hcg. split; [exact S1|split; auto].
  - split; [intros _; congruence|intros _; exact Hcg].
  - apply NoDup_remove_1 in Hnd. exact Hnd.
  - intros j. destruct (Nat.eqb_spec j i) as [->|Hne].
    + split; [|intros (_ & Hx); congruence].
      intros Hx. apply NoDup_remove_2 in Hnd. contradiction.
    + rewrite !in_app_iff. simpl. split; [tauto|]. intros [Hx|[Hx|Hx]]; auto. congruence.
Qed.

(* an update of handle [i] that keeps kind and the four flags, any [i] *)
Definition flags_same (f : hrec -> hrec) : Prop :=
  forall h, h_kind (f h) = h_kind h /\ h_active (f h) = h_active h /\ h_ref (f h) = h_ref h /\
            h_closing (f h) = h_closing h /\ h_closed (f h) = h_closed h.

Lemma LInvG_upd_h_inert s pend wpend i f :
  flags_same f -> LInvG s pend wpend -> LInvG (upd_h s i f) pend wpend.
Proof.
  intros Hf Hinv. destruct (Nat.lt_ge_cases i (length (hs s))) as [Hi|Hi].
  - destruct (Hf (hget s i)) as (F1 & F2 & F3 & F4 & F5).
    eapply LInvG_hstep_plain with (i := i) (f := fun h => f h); eauto.
    + apply (hstep_upd_h s s i (fun h => h) f); [|apply hstep_refl].
      unfold p_ar. rewrite F2, F3. reflexivity.
    + unfold hok. rewrite F2, F4, F5. destruct Hinv as [HI _]. apply (hi_hok _ _ HI i Hi).
  - eapply LInvG_core; [|exact Hinv]. unfold upd_h, hcore; cbn.
    rewrite upd_overflow by exact Hi. reflexivity.
Qed.

Lemma flags_same_hascb b : flags_same (with_hascb b).
Proof. intros h; cbn; auto. Qed.
Lemma flags_same_pending b : flags_same (with_pending b).
Proof. intros h; cbn; auto. Qed.

(* ------------------------------------------------------------------ *)
(* the four macros                                                    *)
(* ------------------------------------------------------------------ *)
Lemma LInvG_handle_ref s pend wpend i : LInvG s pend wpend -> LInvG (handle_ref s i) pend wpend.
Proof.
  intros Hinv. destruct (Nat.lt_ge_cases i (length (hs s))) as [Hi|Hi].
  - pose proof Hinv as [HI _]. destruct (hi_hok _ _ HI i Hi) as (K1 & K2).
    eapply LInvG_hstep_plain with (i := i) (f := fun h => with_ref true h); eauto.
    + apply (hstep_handle_ref s s i (fun h => h)); [exact Hi|exact K1|apply hstep_refl].
    + split; assumption.
  - eapply LInvG_core; [|exact Hinv]. unfold handle_ref. rewrite hget_overflow by exact Hi.
    unfold upd_h, hcore; cbn. rewrite upd_overflow by exact Hi. reflexivity.
Qed.

Lemma LInvG_handle_unref s pend wpend i : LInvG s pend wpend -> LInvG (handle_unref s i) pend wpend.
Proof.
  intros Hinv. destruct (Nat.lt_ge_cases i (length (hs s))) as [Hi|Hi].
  - pose proof Hinv as [HI _]. destruct (hi_hok _ _ HI i Hi) as (K1 & K2).
    eapply LInvG_hstep_plain with (i := i) (f := fun h => with_ref false h); eauto.
    + apply (hstep_handle_unref s s i (fun h => h)); [exact Hi|exact K1|apply hstep_refl].
    + split; assumption.
  - eapply LInvG_core; [|exact Hinv]. unfold handle_unref. rewrite hget_overflow by exact Hi.
    reflexivity.
Qed.

Lemma LInvG_handle_stop s pend wpend i :
  is_timer (hget s i) = false -> LInvG s pend wpend -> LInvG (handle_stop s i) pend wpend.
Proof.
  intros Hnt Hinv. destruct (Nat.lt_ge_cases i (length (hs s))) as [Hi|Hi].
  - pose proof Hinv as [HI _]. destruct (hi_hok _ _ HI i Hi) as (K1 & K2).
    eapply LInvG_hstep_plain with (i := i) (f := fun h => with_active false h); eauto.
    + apply (hstep_handle_stop s s i (fun h => h)); [exact Hi|apply hstep_refl].
    + congruence.
    + split; cbn; auto.
  - eapply LInvG_core; [|exact Hinv]. unfold handle_stop. rewrite hget_overflow by exact Hi.
    reflexivity.
Qed.

Lemma LInvG_handle_start s pend wpend i :
  is_timer (hget s i) = false -> h_closing (hget s i) = false ->
  LInvG s pend wpend -> LInvG (handle_start s i) pend wpend.
Proof.
  intros Hnt Hnc Hinv. destruct (Nat.lt_ge_cases i (length (hs s))) as [Hi|Hi].
  - pose proof Hinv as [HI _]. destruct (hi_hok _ _ HI i Hi) as (K1 & K2).
    eapply LInvG_hstep_plain with (i := i) (f := fun h => with_active true h); eauto.
    + apply (hstep_handle_start s s i (fun h => h)); [exact Hi|apply hstep_refl].
    + congruence.
    + split; cbn; [congruence|auto].
  - eapply LInvG_core; [|exact Hinv]. unfold handle_start. rewrite hget_overflow by exact Hi.
    unfold upd_h, hcore; cbn. rewrite upd_overflow by exact Hi. reflexivity.
Qed.

(* ------------------------------------------------------------------ *)
(* watchers, async                                                    *)
(* ------------------------------------------------------------------ *)
Lemma hstep_watcher_stop s0 s i f T K C :
  (i < length (hs s0))%nat -> hstepG s0 s i f T K C ->
  hstepG s0 (watcher_stop s i) i (fun h => with_active false (f h)) T K C.
Proof.
  intros Hi Hst. unfold watcher_stop.
  destruct (h_active (hget s i)) eqn:Ea.
  - apply hstep_handle_stop; [exact Hi|].
    eapply hstep_core; [|exact Hst]. cbn. apply hcore_wq_set.
  - assert (E : handle_stop s i = s) by (unfold handle_stop; rewrite Ea; reflexivity).
    rewrite <- E. apply hstep_handle_stop; assumption.
Qed.

Lemma is_timer_false_of_watcher s i : is_watcher s i = true -> is_timer (hget s i) = false.
Proof.
  unfold is_watcher, kind_is, is_timer. destruct (h_kind (hget s i)); cbn; auto; discriminate.
Qed.

Lemma LInvG_watcher_stop s pend wpend i :
  is_timer (hget s i) = false -> LInvG s pend wpend -> LInvG (watcher_stop s i) pend wpend.
Proof.
  intros Hnt Hinv. unfold watcher_stop. destruct (h_active (hget s i)) eqn:Ea; [|exact Hinv].
  set (s2 := set_lq _ _).
  assert (Hc : hcore s2 = hcore s) by (subst s2; cbn; apply hcore_wq_set).
  assert (Hg : hget s2 i = hget s i).
  { unfold hget. apply hcore_eq in Hc. destruct Hc as (_ & _ & -> & _). reflexivity. }
  apply LInvG_handle_stop; [rewrite Hg; exact Hnt|].
  eapply LInvG_core; [exact Hc|exact Hinv].
Qed.

Lemma LInvG_watcher_start s pend wpend i hascb :
  is_timer (hget s i) = false -> h_closing (hget s i) = false ->
  LInvG s pend wpend -> LInvG (fst (watcher_start s i hascb)) pend wpend.
Proof.
  intros Hnt Hnc Hinv. unfold watcher_start.
  destruct (h_active (hget s i)) eqn:Ea; [exact Hinv|].
  destruct hascb; cbn [negb fst]; [|exact Hinv].
  set (s1 := wq_set _ _ _).
  assert (Hc : hcore s1 = hcore s) by (subst s1; apply hcore_wq_set).
  assert (I1 : LInvG s1 pend wpend) by (eapply LInvG_core; [exact Hc|exact Hinv]).
  assert (Hg : hget s1 i = hget s i).
  { unfold hget. apply hcore_eq in Hc. destruct Hc as (_ & _ & -> & _). reflexivity. }
  assert (I2 : LInvG (upd_h s1 i (with_hascb true)) pend wpend)
    by (apply LInvG_upd_h_inert; [apply flags_same_hascb|exact I1]).
  destruct (Nat.lt_ge_cases i (length (hs s1))) as [Hi|Hi].
  - assert (Hg2 : hget (upd_h s1 i (with_hascb true)) i = with_hascb true (hget s1 i))
      by (apply hget_upd_same; [reflexivity|exact Hi]).
    apply LInvG_handle_start; [| |exact I2]; rewrite Hg2, Hg; cbn; assumption.
  - assert (Hg2 : hget (upd_h s1 i (with_hascb true)) i = hget s1 i).
    { unfold hget, upd_h; cbn. rewrite upd_overflow by exact Hi. reflexivity. }
    apply LInvG_handle_start; [| |exact I2]; rewrite Hg2, Hg; assumption.
Qed.

Lemma LInvG_async_send s pend wpend i : LInvG s pend wpend -> LInvG (async_send s i) pend wpend.
Proof.
  intros Hinv. unfold async_send. destruct (h_pending (hget s i)); [exact Hinv|].
  eapply LInvG_core with (s := upd_h s i (with_pending true)); [reflexivity|].
  apply LInvG_upd_h_inert; [apply flags_same_pending|exact Hinv].
Qed.

(* ------------------------------------------------------------------ *)
(* work requests                                                      *)
(* ------------------------------------------------------------------ *)
Lemma LInvG_work_submit s pend wpend a : LInvG s pend wpend -> LInvG (work_submit s a) pend wpend.
Proof.
  intros [HI [W1 W2 W3]]. unfold work_submit.
  set (s3 := set_wq _ _).
  assert (I3 : LInvG s3 pend wpend).
  { split.
    - eapply HInv_fields; [| | | | |exact HI]; reflexivity.
    - subst s3. constructor; cbn.
      + rewrite countZ_app, W1. rewrite countZ_cons, countZ_nil. cbn. lia.
      + rewrite <- app_assoc. simpl.
        assert (Hn : ~ In (length (works s)) (wq s ++ wpend)).
        { intros Hin. apply W3 in Hin. lia. }
        clear - W2 Hn. revert W2 Hn. generalize (length (works s)) as n.
        induction (wq s) as [|x l IH]; simpl; intros n W2 Hn.
        * constructor; assumption.
        * inversion W2; subst. constructor.
          -- intros Hin. apply in_app_or in Hin. destruct Hin as [Hin|[<-|Hin]].
             ++ apply H1. apply in_or_app; left; exact Hin.
             ++ apply Hn; left; reflexivity.
             ++ apply H1. apply in_or_app; right; exact Hin.
          -- apply IH; [assumption|]. intros Hin. apply Hn; right; exact Hin.
      + intros w. rewrite app_length; simpl length.
        rewrite <- app_assoc. simpl.
        assert (Hiff : In w (wq s ++ length (works s) :: wpend) <->
                       In w (wq s ++ wpend) \/ w = length (works s)).
        { rewrite !in_app_iff. simpl. intuition. }
        rewrite Hiff, W3. destruct (Nat.lt_ge_cases w (length (works s))) as [L|G].
        * rewrite app_nth1 by exact L. split; [intros [H|H]; [|lia]|intros H; left]; intuition lia.
        * destruct (Nat.eq_dec w (length (works s))) as [->|Hne].
          -- rewrite nth_app_last. cbn. split; [intros _; split; [lia|reflexivity]|auto].
          -- split; [intros [H|H]; lia|intros (H & _); lia]. }
  destruct (wq_pending s3); [exact I3|].
  eapply LInvG_core; [|exact I3]. reflexivity.
Qed.

(* ------------------------------------------------------------------ *)
(* timers                                                             *)
(* ------------------------------------------------------------------ *)
Definition tframe (t t' : tstate) (i : nat) : Prop :=
  now t' = now t /\ length (tms t') = length (tms t) /\
  (forall j, In j (ready t') -> In j (ready t)) /\
  (forall j, j <> i -> get t' j = get t j).

Definition tclose_ok (t t' : tstate) (i : nat) : Prop :=
  t_closing (get t' i) = t_closing (get t i) /\
  ((t_closing (get t i) = true -> t_active (get t i) = false) ->
   (t_closing (get t' i) = true -> t_active (get t' i) = false)).

Lemma tframe_refl t i : tframe t t i.
Proof. repeat split; auto. Qed.

Lemma tframe_trans a b c i : tframe a b i -> tframe b c i -> tframe a c i.
Proof.
  intros (A1 & A2 & A3 & A4) (B1 & B2 & B3 & B4). repeat split; try congruence.
  - intros j Hj. apply A3, B3, Hj.
  - intros j Hj. rewrite B4, A4 by exact Hj. reflexivity.
Qed.

Lemma tclose_refl t i : tclose_ok t t i.
Proof. split; auto. Qed.

Lemma tclose_trans a b c i : tclose_ok a b i -> tclose_ok b c i -> tclose_ok a c i.
Proof. intros (A1 & A2) (B1 & B2). split; [congruence|auto]. Qed.

Lemma tframe_stop t i : TI t -> (i < length (tms t))%nat ->
  tframe t (timer_stop t i) i /\ tclose_ok t (timer_stop t i) i /\
  t_active (get (timer_stop t i) i) = false.
Proof.
  intros T Hi.
  destruct (timer_stop_effect t i T Hi) as (Ea & Hnr & Hnow & Hctr & Hlen & Hrd & Hfld & Hoth).
  split; [repeat split; auto|]. split; [|exact Ea].
  split; [apply Hfld|]. intros _ _. exact Ea.
Qed.

Lemma tframe_start t i cb to r : TI t -> (i < length (tms t))%nat ->
  tframe t (fst (timer_start t i cb to r)) i /\ tclose_ok t (fst (timer_start t i cb to r)) i.
Proof.
  intros T Hi.
  destruct (timer_start_frame t i cb to r T Hi) as (A & B & C & D).
  split; [repeat split; auto|].
  unfold timer_start. destruct cb as [c|]; [|apply tclose_refl].
  destruct (t_closing (get t i)) eqn:Ec; [cbn [fst]; apply tclose_refl|].
  cbn [fst].
  destruct (timer_stop_effect t i T Hi) as (Ea & Hnr & Hnow & Hctr & Hlen & Hrd & Hfld & Hoth).
  assert (Hc : t_closing (get (timer_stop t i) i) = false) by (destruct (Hfld i) as (_&_&_&_&->&_); exact Ec).
  split.
  - rewrite get_set_same by (cbn [tms]; lia). cbn [t_closing]. unfold get in *; cbn [tms]. congruence.
  - intros _. rewrite get_set_same by (cbn [tms]; lia). cbn [t_closing]. unfold get in *; cbn [tms].
    congruence.
Qed.

Lemma tframe_again t i : TI t -> (i < length (tms t))%nat ->
  tframe t (fst (timer_again t i)) i /\ tclose_ok t (fst (timer_again t i)) i.
Proof.
  intros T Hi. unfold timer_again.
  destruct (t_cb (get t i)) as [c|]; [|split; [apply tframe_refl|apply tclose_refl]].
  destruct (t_repeat (get t i) =? 0); [split; [apply tframe_refl|apply tclose_refl]|].
  cbn [fst]. destruct (tframe_stop t i T Hi) as (F1 & C1 & _).
  pose proof (TI_timer_stop t i T Hi) as T1.
  assert (Hi1 : (i < length (tms (timer_stop t i)))%nat) by (destruct F1 as (_ & -> & _); exact Hi).
  destruct (tframe_start (timer_stop t i) i (Some c) (t_repeat (get t i)) (t_repeat (get t i)) T1 Hi1)
    as (F2 & C2).
  split; [eapply tframe_trans; eauto|eapply tclose_trans; eauto].
Qed.

Lemma tframe_close t i : TI t -> (i < length (tms t))%nat ->
  tframe t (timer_close t i) i /\
  t_closing (get (timer_close t i) i) = true /\ t_active (get (timer_close t i) i) = false.
Proof.
  intros T Hi. destruct (tframe_stop t i T Hi) as ((A1 & A2 & A3 & A4) & C1 & Ea).
  unfold timer_close. split; [|split].
  - unfold tframe. rewrite now_set, len_set, ready_set. repeat split; auto.
    intros j Hj. rewrite get_set_other by congruence. apply A4; exact Hj.
  - rewrite get_set_same by lia. reflexivity.
  - rewrite get_set_same by lia. cbn [t_active]. exact Ea.
Qed.

Lemma tframe_set_repeat t i r : (i < length (tms t))%nat ->
  tframe t (timer_set_repeat t i r) i /\
  t_closing (get (timer_set_repeat t i r) i) = t_closing (get t i) /\
  t_active (get (timer_set_repeat t i r) i) = t_active (get t i).
Proof.
  intros Hi. unfold timer_set_repeat. split; [|split].
  - unfold tframe. rewrite now_set, len_set, ready_set. repeat split; auto.
    intros j Hj. rewrite get_set_other by congruence. reflexivity.
  - rewrite get_set_same by lia. reflexivity.
  - rewrite get_set_same by lia. reflexivity.
Qed.

Lemma hstep_sync_timer_active s0 s i f T K C :
  (i < length (hs s0))%nat -> hstepG s0 s i f T K C ->
  hstepG s0 (sync_timer_active s i) i (fun h => with_active (t_active (get T i)) (f h)) T K C.
Proof.
  intros Hi Hst. unfold sync_timer_active.
  assert (E : ts s = T) by (destruct Hst as (_ & _ & E & _); exact E). rewrite E.
  destruct (t_active (get T i)).
  - apply hstep_handle_start; assumption.
  - apply hstep_handle_stop; assumption.
Qed.

(* the general shape of a timer call: the timer part moves from [ts s0] to
   [T], handle [i] ends up active exactly when its timer is *)
Lemma LInvG_timer_sync s0 s pend wpend i F T :
  LInvG s0 pend wpend -> (i < length (hs s0))%nat ->
  hstepG s0 s i F T (clock s0) (closing s0) ->
  TI T -> tframe (ts s0) T i -> tclose_ok (ts s0) T i ->
  (t_active (get T i) = true -> is_timer (hget s0 i) = true) ->
  h_kind (F (hget s0 i)) = h_kind (hget s0 i) ->
  h_active (F (hget s0 i)) = t_active (get T i) ->
  h_closing (F (hget s0 i)) = h_closing (hget s0 i) ->
  h_closed (F (hget s0 i)) = h_closed (hget s0 i) ->
  LInvG s pend wpend.
Proof.
  intros Hinv Hi Hst HT (F1 & F2 & F3 & F4) (C1 & C2) Hta Hk Ha Hcg Hcd.
  pose proof Hinv as [HI _].
  pose proof Hst as (A1 & A2 & A3 & A4 & A5 & A6 & A7 & A8).
  destruct (hi_sync _ _ HI i Hi) as (S1 & S2 & S3).
  destruct (hi_hok _ _ HI i Hi) as (K1 & K2).
  specialize (C2 S3).
  assert (Hcl_inact : h_closing (hget s0 i) = true -> t_active (get T i) = false).
  { intros Hc. destruct (t_active (get T i)) eqn:Eb; [|reflexivity].
    specialize (Hta eq_refl). specialize (S2 Hta Hc). rewrite <- C1 in S2.
    specialize (C2 S2). congruence. }
  eapply LInvG_hstep with (i := i) (f := F); eauto; rewrite ?A3, ?A4; auto.
  - rewrite F1. apply (hi_clock _ _ HI).
  - unfold tsync1, is_timer in *. rewrite Hk, Ha, Hcg. split; [|split].
    + destruct (t_active (get T i)) eqn:Eb; [|rewrite andb_false_r; reflexivity].
      rewrite (Hta eq_refl). reflexivity.
    + intros Ht Hc. rewrite C1. apply S2; assumption.
    + exact C2.
  - unfold hok. rewrite Ha, Hcg, Hcd. split; [exact Hcl_inact|exact K2].
Qed.

Lemma LInvG_l_timer_stop s pend wpend i :
  (i < length (hs s))%nat -> LInvG s pend wpend -> LInvG (l_timer_stop s i) pend wpend.
Proof.
  intros Hi Hinv. pose proof Hinv as [HI _].
  assert (Hit : (i < length (tms (ts s)))%nat) by (rewrite (hi_len _ _ HI); exact Hi).
  destruct (tframe_stop (ts s) i (hi_ti _ _ HI) Hit) as (F1 & C1 & Ea).
  unfold l_timer_stop.
  pose proof (hstep_sync_timer_active s _ i _ _ _ _ Hi
               (hstep_set_ts s s i _ _ _ _ (timer_stop (ts s) i) (hstep_refl s i))) as Hst.
  eapply LInvG_timer_sync with (i := i);
    [exact Hinv|exact Hi|exact Hst|apply TI_timer_stop; [apply (hi_ti _ _ HI)|exact Hit]
    |exact F1|exact C1| |reflexivity|reflexivity|reflexivity|reflexivity].
  rewrite Ea. discriminate.
Qed.

Lemma LInvG_timer_shape s pend wpend i ts' (b : bool) :
  (i < length (hs s))%nat -> is_timer (hget s i) = true ->
  LInvG s pend wpend ->
  TI ts' -> tframe (ts s) ts' i -> tclose_ok (ts s) ts' i ->
  LInvG (sync_timer_active (set_ts (if b then handle_stop s i else s) ts') i) pend wpend.
Proof.
  intros Hi Htm Hinv T1 F1 C1. destruct b.
  - pose proof (hstep_sync_timer_active s _ i _ _ _ _ Hi
                 (hstep_set_ts s _ i _ _ _ _ ts'
                    (hstep_handle_stop s s i _ _ _ _ Hi (hstep_refl s i)))) as Hst.
    eapply LInvG_timer_sync with (i := i);
      [exact Hinv|exact Hi|exact Hst|exact T1|exact F1|exact C1|intros _; exact Htm
      |reflexivity|reflexivity|reflexivity|reflexivity].
  - pose proof (hstep_sync_timer_active s _ i _ _ _ _ Hi
                 (hstep_set_ts s s i _ _ _ _ ts' (hstep_refl s i))) as Hst.
    eapply LInvG_timer_sync with (i := i);
      [exact Hinv|exact Hi|exact Hst|exact T1|exact F1|exact C1|intros _; exact Htm
      |reflexivity|reflexivity|reflexivity|reflexivity].
Qed.

Lemma LInvG_l_timer_start s pend wpend i cb t r :
  (i < length (hs s))%nat -> is_timer (hget s i) = true ->
  LInvG s pend wpend -> LInvG (fst (l_timer_start s i cb t r)) pend wpend.
Proof.
  intros Hi Htm Hinv. pose proof Hinv as [HI _].
  assert (Hit : (i < length (tms (ts s)))%nat) by (rewrite (hi_len _ _ HI); exact Hi).
  destruct (tframe_start (ts s) i cb t r (hi_ti _ _ HI) Hit) as (F1 & C1).
  pose proof (TI_timer_start (ts s) i cb t r (hi_ti _ _ HI) Hit) as T1.
  unfold l_timer_start. destruct (timer_start (ts s) i cb t r) as [ts' c] eqn:E.
  cbn [fst] in *. apply LInvG_timer_shape; assumption.
Qed.

Lemma LInvG_l_timer_again s pend wpend i :
  (i < length (hs s))%nat -> is_timer (hget s i) = true ->
  LInvG s pend wpend -> LInvG (fst (l_timer_again s i)) pend wpend.
Proof.
  intros Hi Htm Hinv. pose proof Hinv as [HI _].
  assert (Hit : (i < length (tms (ts s)))%nat) by (rewrite (hi_len _ _ HI); exact Hi).
  destruct (tframe_again (ts s) i (hi_ti _ _ HI) Hit) as (F1 & C1).
  pose proof (TI_timer_again (ts s) i (hi_ti _ _ HI) Hit) as T1.
  unfold l_timer_again. destruct (timer_again (ts s) i) as [ts' c] eqn:E.
  cbn [fst] in *. apply LInvG_timer_shape; assumption.
Qed.

Lemma LInvG_set_repeat s pend wpend i r :
  (i < length (hs s))%nat ->
  LInvG s pend wpend -> LInvG (set_ts s (timer_set_repeat (ts s) i r)) pend wpend.
Proof.
  intros Hi Hinv. pose proof Hinv as [HI _].
  assert (Hit : (i < length (tms (ts s)))%nat) by (rewrite (hi_len _ _ HI); exact Hi).
  destruct (tframe_set_repeat (ts s) i r Hit) as ((F1 & F2 & F3 & F4) & Ec & Ea).
  destruct (hi_sync _ _ HI i Hi) as (S1 & S2 & S3).
  apply (LInvG_hstep s (set_ts s (timer_set_repeat (ts s) i r)) pend wpend i (fun h => h));
    cbn [ts clock set_ts]; auto.
  - apply hstep_set_ts with (T := ts s). apply hstep_refl.
  - rewrite F1. apply (hi_clock _ _ HI).
  - apply TI_set_repeat; [apply (hi_ti _ _ HI)|exact Hit].
  - unfold tsync1. rewrite Ec, Ea. auto.
  - apply (hi_hok _ _ HI i Hi).
Qed.

(* ------------------------------------------------------------------ *)
(* uv_close                                                           *)
(* ------------------------------------------------------------------ *)
Lemma LInvG_hstep_closeTK s0 s pend wpend i f T K :
  LInvG s0 pend wpend -> (i < length (hs s0))%nat ->
  hstepG s0 s i f T K (i :: closing s0) ->
  now T <= K ->
  TI T -> length (tms T) = length (tms (ts s0)) ->
  (forall j, j <> i -> get T j = get (ts s0) j) ->
  (forall j, In j (ready T) -> In j (ready (ts s0))) ->
  h_kind (f (hget s0 i)) = h_kind (hget s0 i) ->
  tsync1 (f (hget s0 i)) (get T i) ->
  hok (f (hget s0 i)) ->
  h_closing (hget s0 i) = false ->
  h_closing (f (hget s0 i)) = true ->
  h_closed (f (hget s0 i)) = false ->
  LInvG s pend wpend.
Proof.
  intros Hinv Hi Hst. pose proof Hst as (_ & _ & E3 & E4 & _). subst T K.
  intros. eapply LInvG_hstep_close; eauto.
Qed.

Lemma LInvG_hstep_close_plain s0 s pend wpend i f :
  LInvG s0 pend wpend -> (i < length (hs s0))%nat ->
  hstepG s0 s i f (ts s0) (clock s0) (i :: closing s0) ->
  is_timer (hget s0 i) = false ->
  h_kind (f (hget s0 i)) = h_kind (hget s0 i) ->
  h_active (f (hget s0 i)) = false ->
  h_closing (hget s0 i) = false ->
  h_closing (f (hget s0 i)) = true ->
  h_closed (f (hget s0 i)) = false ->
  LInvG s pend wpend.
Proof.
  intros Hinv Hi Hst Hnt Hk Ha Hc0 Hcg Hcd. pose proof Hinv as [HI _].
  destruct (hi_sync _ _ HI i Hi) as (S1 & S2 & S3).
  eapply LInvG_hstep_closeTK; eauto.
  - apply (hi_clock _ _ HI).
  - apply (hi_ti _ _ HI).
  - unfold tsync1, is_timer in *. rewrite Hk, Hnt in *. cbn [andb] in *.
    split; [exact S1|split; [discriminate|exact S3]].
  - split; [intros _; exact Ha|congruence].
Qed.

Lemma p_ar_with_closing b h : p_ar (with_closing b h) = p_ar h. Proof. reflexivity. Qed.
Lemma p_ar_with_closed b h : p_ar (with_closed b h) = p_ar h. Proof. reflexivity. Qed.
Lemma p_ar_with_pending b h : p_ar (with_pending b h) = p_ar h. Proof. reflexivity. Qed.
Lemma p_ar_with_hascb b h : p_ar (with_hascb b h) = p_ar h. Proof. reflexivity. Qed.

Lemma LInvG_l_close s pend wpend i :
  (i < length (hs s))%nat -> h_closed (hget s i) = false ->
  LInvG s pend wpend -> LInvG (l_close s i) pend wpend.
Proof.
  intros Hi Hcd Hinv. pose proof Hinv as [HI _]. unfold l_close.
  destruct (h_closing (hget s i)) eqn:Ec; [exact Hinv|].
  pose proof (hstep_upd_h s s i (fun h => h) (with_closing true) _ _ _ (p_ar_with_closing _ _) (hstep_refl s i)) as H1.
  cbv beta in H1.
  destruct (h_kind (hget s i)) eqn:Ek.
  - (* timer *)
    assert (Hit : (i < length (tms (ts s)))%nat) by (rewrite (hi_len _ _ HI); exact Hi).
    destruct (tframe_close (ts s) i (hi_ti _ _ HI) Hit) as ((F1 & F2 & F3 & F4) & Tc & Ta).
    pose proof (hstep_handle_stop s _ i _ _ _ _ Hi
                 (hstep_set_ts s _ i _ _ _ _ (timer_close (ts s) i) H1)) as H2.
    pose proof (proj1 (proj2 (proj2 (proj2 (proj2 H2))))) as Ecl.
    cbn [ts upd_h set_hs]. rewrite Ecl.
    eapply LInvG_hstep_closeTK with (i := i);
      [exact Hinv|exact Hi|exact (hstep_set_closing _ _ _ _ _ _ _ _ H2)| | |exact F2|exact F4|exact F3
      |reflexivity| | |exact Ec|reflexivity|exact Hcd].
    + rewrite F1. apply (hi_clock _ _ HI).
    + apply TI_close; [apply (hi_ti _ _ HI)|exact Hit].
    + unfold tsync1. cbn. rewrite Ta, Tc, andb_false_r. auto.
    + split; cbn; auto.
  - (* idle *)
    pose proof (hstep_watcher_stop s _ i _ _ _ _ Hi H1) as H2.
    pose proof (proj1 (proj2 (proj2 (proj2 (proj2 H2))))) as Ecl. rewrite Ecl.
    eapply LInvG_hstep_close_plain with (i := i);
      [exact Hinv|exact Hi|exact (hstep_set_closing _ _ _ _ _ _ _ _ H2)|unfold is_timer; rewrite Ek; reflexivity
      |reflexivity|reflexivity|exact Ec|reflexivity|exact Hcd].
  - (* prepare *)
    pose proof (hstep_watcher_stop s _ i _ _ _ _ Hi H1) as H2.
    pose proof (proj1 (proj2 (proj2 (proj2 (proj2 H2))))) as Ecl. rewrite Ecl.
    eapply LInvG_hstep_close_plain with (i := i);
      [exact Hinv|exact Hi|exact (hstep_set_closing _ _ _ _ _ _ _ _ H2)|unfold is_timer; rewrite Ek; reflexivity
      |reflexivity|reflexivity|exact Ec|reflexivity|exact Hcd].
  - (* check *)
    pose proof (hstep_watcher_stop s _ i _ _ _ _ Hi H1) as H2.
    pose proof (proj1 (proj2 (proj2 (proj2 (proj2 H2))))) as Ecl. rewrite Ecl.
    eapply LInvG_hstep_close_plain with (i := i);
      [exact Hinv|exact Hi|exact (hstep_set_closing _ _ _ _ _ _ _ _ H2)|unfold is_timer; rewrite Ek; reflexivity
      |reflexivity|reflexivity|exact Ec|reflexivity|exact Hcd].
  - (* async *)
    pose proof (hstep_upd_h s _ i _ (with_pending true) _ _ _ (p_ar_with_pending _ _) H1) as H1'.
    cbv beta in H1'.
    set (s' := upd_h _ i (with_pending true)) in *.
    set (s'' := set_async s' _).
    set (s''' := set_alq s'' _).
    assert (H1'' : hstepG s s''' i (fun h => with_pending true (with_closing true h))
                          (ts s) (clock s) (closing s))
      by (eapply hstep_core; [|exact H1']; reflexivity).
    pose proof (hstep_handle_stop s _ i _ _ _ _ Hi H1'') as H2.
    pose proof (proj1 (proj2 (proj2 (proj2 (proj2 H2))))) as Ecl. rewrite Ecl.
    eapply LInvG_hstep_close_plain with (i := i);
      [exact Hinv|exact Hi|exact (hstep_set_closing _ _ _ _ _ _ _ _ H2)|unfold is_timer; rewrite Ek; reflexivity
      |reflexivity|reflexivity|exact Ec|reflexivity|exact Hcd].
Qed.

(* ------------------------------------------------------------------ *)
(* uv__handle_init                                                    *)
(* ------------------------------------------------------------------ *)
Lemma hget_init_old s k i : (i < length (hs s))%nat -> hget (handle_init s k) i = hget s i.
Proof. intros Hi. unfold hget, handle_init; cbn. apply app_nth1. exact Hi. Qed.

Lemma hget_init_new s k :
  hget (handle_init s k) (length (hs s)) = mkH k false true false false false false.
Proof. unfold hget, handle_init; cbn. apply nth_app_last. Qed.

Lemma get_timer_init_old t i : (i < length (tms t))%nat -> get (timer_init t) i = get t i.
Proof. intros Hi. unfold get, timer_init; cbn. apply app_nth1. exact Hi. Qed.

Lemma get_timer_init_new t : get (timer_init t) (length (tms t)) = dflt_timer.
Proof. unfold get, timer_init; cbn. apply nth_app_last. Qed.

Lemma LInvG_handle_init s pend wpend k :
  LInvG s pend wpend -> LInvG (handle_init s k) pend wpend.
Proof.
  intros [[A B C D E F G H I] WI]. split; [|eapply WInv_fields; [| | |exact WI]; reflexivity].
  assert (L : length (hs (handle_init s k)) = S (length (hs s)))
    by (unfold handle_init; cbn; rewrite app_length; simpl; lia).
  assert (Hlt : forall i, (i < length (hs (handle_init s k)))%nat ->
                          (i < length (hs s))%nat \/ i = length (hs s)) by (intros; lia).
  constructor.
  - unfold handle_init; cbn. apply TI_timer_init. exact A.
  - exact B.
  - unfold handle_init; cbn. rewrite !app_length. simpl. lia.
  - intros i Hi. destruct (Hlt i Hi) as [Lo| ->].
    + rewrite hget_init_old by exact Lo. unfold handle_init; cbn [ts set_ts set_hs].
      rewrite get_timer_init_old by lia. apply D; exact Lo.
    + rewrite hget_init_new. unfold handle_init; cbn [ts set_ts set_hs].
      rewrite <- C, get_timer_init_new. unfold tsync1; cbn. rewrite andb_false_r.
      split; [reflexivity|split; discriminate].
  - intros i Hi. unfold handle_init in Hi; cbn in Hi.
    destruct (ti_r _ A i Hi) as (Hr & _). rewrite hget_init_old by lia. apply E; exact Hi.
  - intros i Hi. destruct (Hlt i Hi) as [Lo| ->].
    + rewrite hget_init_old by exact Lo. apply F; exact Lo.
    + rewrite hget_init_new. split; cbn; discriminate.
  - unfold handle_init; cbn. rewrite countZ_app, countZ_cons, countZ_nil. cbn. lia.
  - exact H.
  - intros i. change (closing (handle_init s k)) with (closing s). rewrite I, L. split.
    + intros (Hi & Hc & Hd). rewrite hget_init_old by exact Hi. split; [lia|auto].
    + intros (Hi & Hc & Hd). destruct (Hlt i ltac:(lia)) as [Lo| ->].
      * rewrite hget_init_old in Hc, Hd by exact Lo. auto.
      * rewrite hget_init_new in Hc. discriminate.
Qed.

(* ------------------------------------------------------------------ *)
(* API calls, scripts of API calls, callbacks                          *)
(* ------------------------------------------------------------------ *)
Lemma usable_lt s i : usable s i = true -> (i < length (hs s))%nat /\ h_closed (hget s i) = false.
Proof.
  unfold usable, lvalid. intros H. apply andb_prop in H. destruct H as [H1 H2].
  apply Nat.ltb_lt in H1. apply negb_true_iff in H2. auto.
Qed.

Lemma LInvG_lapi s pend wpend o :
  LInvG s pend wpend -> LInvG (fst (lapi s o)) pend wpend.
Proof.
  intros Hinv. destruct o; cbn [lapi].
  - (* LInit *)
    pose proof (LInvG_handle_init s pend wpend k Hinv) as I1.
    destruct k; cbn [fst]; try exact I1.
    set (s1 := handle_init s KAsync) in *. set (i := length (hs s)).
    assert (Hi : (i < length (hs s1))%nat)
      by (subst s1 i; unfold handle_init; cbn; rewrite app_length; simpl; lia).
    set (s2 := upd_h s1 i (with_hascb hascb)).
    assert (I2 : LInvG s2 pend wpend) by (apply LInvG_upd_h_inert; [apply flags_same_hascb|exact I1]).
    set (s3 := set_async s2 _).
    assert (I3 : LInvG s3 pend wpend) by (eapply LInvG_core; [|exact I2]; reflexivity).
    assert (Hg : hget s3 i = with_hascb hascb (mkH KAsync false true false false false false)).
    { change (hget s3 i) with (hget s2 i). subst s2.
      rewrite (hget_upd_same s1 (upd_h s1 i (with_hascb hascb)) i (with_hascb hascb) eq_refl Hi).
      subst s1 i. rewrite hget_init_new. reflexivity. }
    apply LInvG_handle_start; [rewrite Hg; reflexivity|rewrite Hg; reflexivity|exact I3].
  - (* LTStart *)
    destruct (usable s i && kind_is s i KTimer) eqn:E; [|exact Hinv].
    apply andb_prop in E. destruct E as [E1 E2]. apply usable_lt in E1. destruct E1 as [Hi _].
    pose proof (LInvG_l_timer_start s pend wpend i cb t r Hi E2 Hinv) as I1.
    destruct (l_timer_start s i cb t r) as [s' c]. exact I1.
  - (* LTAgain *)
    destruct (usable s i && kind_is s i KTimer) eqn:E; [|exact Hinv].
    apply andb_prop in E. destruct E as [E1 E2]. apply usable_lt in E1. destruct E1 as [Hi _].
    pose proof (LInvG_l_timer_again s pend wpend i Hi E2 Hinv) as I1.
    destruct (l_timer_again s i) as [s' c]. exact I1.
  - (* LTSetRepeat *)
    destruct (usable s i && kind_is s i KTimer) eqn:E; [|exact Hinv].
    apply andb_prop in E. destruct E as [E1 E2]. apply usable_lt in E1. destruct E1 as [Hi _].
    cbn [fst]. apply LInvG_set_repeat; assumption.
  - (* LStart *)
    destruct (usable s i && is_watcher s i && negb (h_closing (hget s i))) eqn:E; [|exact Hinv].
    apply andb_prop in E. destruct E as [E E3]. apply andb_prop in E. destruct E as [E1 E2].
    apply negb_true_iff in E3. apply is_timer_false_of_watcher in E2.
    pose proof (LInvG_watcher_start s pend wpend i hascb E2 E3 Hinv) as I1.
    destruct (watcher_start s i hascb) as [s' c]. exact I1.
  - (* LStop *)
    destruct (usable s i) eqn:E1; [|exact Hinv]. apply usable_lt in E1. destruct E1 as [Hi _].
    destruct (kind_is s i KTimer) eqn:E2; cbn [fst].
    + apply LInvG_l_timer_stop; assumption.
    + destruct (is_watcher s i) eqn:E3; cbn [fst]; [|exact Hinv].
      apply LInvG_watcher_stop; [exact E2|exact Hinv].
  - (* LRef *)
    destruct (usable s i); cbn [fst]; [apply LInvG_handle_ref|]; exact Hinv.
  - (* LUnref *)
    destruct (usable s i); cbn [fst]; [apply LInvG_handle_unref|]; exact Hinv.
  - (* LClose *)
    destruct (usable s i && negb (h_closing (hget s i))) eqn:E; [|exact Hinv].
    apply andb_prop in E. destruct E as [E1 _]. apply usable_lt in E1. destruct E1 as [Hi Hc].
    cbn [fst]. apply LInvG_l_close; assumption.
  - (* LSend *)
    destruct (usable s i && kind_is s i KAsync); cbn [fst]; [apply LInvG_async_send|]; exact Hinv.
  - (* LWork *)
    cbn [fst]. apply LInvG_work_submit; exact Hinv.
  - (* LStopLoop *)
    cbn [fst]. eapply LInvG_core; [|exact Hinv]; reflexivity.
  - (* LAdv *)
    cbn [fst]. destruct Hinv as [HI WI]. split; [|eapply WInv_fields; [| | |exact WI]; reflexivity].
    destruct HI as [A B C D E F G H I]. constructor; auto. cbn. lia.
  - exact Hinv.
  - exact Hinv.
  - exact Hinv.
  - exact Hinv.
  - exact Hinv.
Qed.

Lemma LInvG_lapis os : forall s pend wpend,
  LInvG s pend wpend -> LInvG (fst (lapis s os)) pend wpend.
Proof.
  induction os as [|o os IH]; intros s pend wpend Hinv; cbn [lapis]; [exact Hinv|].
  pose proof (LInvG_lapi s pend wpend o Hinv) as I1.
  destruct (lapi s o) as [s1 e1]. cbn [fst] in I1.
  specialize (IH s1 pend wpend I1). destruct (lapis s1 os) as [s2 e2]. exact IH.
Qed.

Lemma LInvG_callback s pend wpend beh tag i :
  LInvG s pend wpend -> LInvG (fst (callback s beh tag i)) pend wpend.
Proof.
  intros Hinv. unfold callback.
  set (s1 := set_cbcount s _). set (ops := if Nat.eqb _ _ then _ else _).
  assert (I1 : LInvG s1 pend wpend) by (eapply LInvG_core; [|exact Hinv]; reflexivity).
  pose proof (LInvG_lapis ops s1 pend wpend I1) as I2.
  destruct (lapis s1 ops) as [s2 evs]. exact I2.
Qed.

(* ------------------------------------------------------------------ *)
(* the phases of uv_run                                               *)
(* ------------------------------------------------------------------ *)
Lemma LInvG_run_lq fuel : forall s pend wpend beh k tag,
  LInvG s pend wpend -> LInvG (fst (run_lq fuel s beh k tag)) pend wpend.
Proof.
  induction fuel as [|f IH]; intros s pend wpend beh k tag Hinv; cbn [run_lq]; [exact Hinv|].
  destruct (lq s) as [|i rest]; [exact Hinv|].
  set (s2 := wq_set _ _ _).
  assert (I2 : LInvG s2 pend wpend).
  { eapply LInvG_core; [|exact Hinv]. subst s2. rewrite hcore_wq_set. reflexivity. }
  pose proof (LInvG_callback s2 pend wpend beh tag i I2) as I3.
  destruct (callback s2 beh tag i) as [s3 e1]. cbn [fst] in I3.
  specialize (IH s3 pend wpend beh k tag I3).
  destruct (run_lq f s3 beh k tag) as [s4 e2]. exact IH.
Qed.

Lemma LInvG_run_watchers s pend wpend beh k tag :
  LInvG s pend wpend -> LInvG (fst (run_watchers s beh k tag)) pend wpend.
Proof.
  intros Hinv. unfold run_watchers. apply LInvG_run_lq.
  eapply LInvG_core; [|exact Hinv].
  change (hcore (set_lq (wq_set s k []) (wq_get s k))) with (hcore (wq_set s k [])).
  apply hcore_wq_set.
Qed.

Lemma LInvG_run_alq fuel : forall s pend wpend beh,
  LInvG s pend wpend -> LInvG (fst (run_alq fuel s beh)) pend wpend.
Proof.
  induction fuel as [|f IH]; intros s pend wpend beh Hinv; cbn [run_alq]; [exact Hinv|].
  destruct (alq s) as [|i rest]; [exact Hinv|].
  set (s2 := set_async _ _).
  assert (I2 : LInvG s2 pend wpend) by (eapply LInvG_core; [|exact Hinv]; reflexivity).
  assert (I4 : LInvG (fst (if h_pending (hget s2 i)
                           then let s3 := upd_h s2 i (with_pending false) in
                                if h_hascb (hget s2 i) then callback s3 beh 4 i else (s3, [])
                           else (s2, []))) pend wpend).
  { destruct (h_pending (hget s2 i)); [|exact I2]. cbv zeta.
    assert (I3 : LInvG (upd_h s2 i (with_pending false)) pend wpend)
      by (apply LInvG_upd_h_inert; [apply flags_same_pending|exact I2]).
    destruct (h_hascb (hget s2 i)); [apply LInvG_callback|]; exact I3. }
  destruct (if h_pending (hget s2 i) then _ else _) as [s4 e1]. cbn [fst] in I4.
  specialize (IH s4 pend wpend beh I4).
  destruct (run_alq f s4 beh) as [s5 e2]. exact IH.
Qed.

(* uv__work_done takes request [w], head of the detached batch *)
Lemma LInvG_wq_deliver s pend w tl :
  LInvG s pend (w :: tl) ->
  LInvG (set_works (set_nreq s (nreq s - 1))
                   (upd w (fun r => mkW (w_has_after r) true) (works (set_nreq s (nreq s - 1)))))
        pend tl.
Proof.
  intros [HI [W1 W2 W3]].
  split; [eapply HInv_fields; [| | | | |exact HI]; reflexivity|].
  assert (Hin : In w (wq s ++ w :: tl)) by (apply in_or_app; right; left; reflexivity).
  apply W3 in Hin. destruct Hin as (Hw & Hd).
  constructor; cbn.
  - rewrite (countZ_upd p_undeliv w _ (works s) dflt_w Hw). rewrite W1.
    assert (Hp : p_undeliv (nth w (works s) dflt_w) = true) by (unfold p_undeliv; rewrite Hd; reflexivity).
    rewrite Hp. unfold p_undeliv at 3. cbn [w_delivered negb b2z]. lia.
  - apply NoDup_remove_1 in W2. exact W2.
  - intros x. rewrite upd_length. destruct (Nat.eq_dec x w) as [->|Hne].
    + rewrite nth_upd_same by exact Hw. cbn. split; [|intros (_ & Hx); discriminate].
      intros Hx. apply NoDup_remove_2 in W2. contradiction.
    + rewrite nth_upd_other by congruence. rewrite <- W3.
      rewrite !in_app_iff. simpl. split; [tauto|].
      intros [Hx|[Hx|Hx]]; auto. congruence.
Qed.

Lemma LInvG_run_wq l : forall s pend wpend beh,
  LInvG s pend (l ++ wpend) -> LInvG (fst (run_wq l s beh)) pend wpend.
Proof.
  induction l as [|w rest IH]; intros s pend wpend beh Hinv; cbn [run_wq]; [exact Hinv|].
  pose proof (LInvG_wq_deliver s pend w (rest ++ wpend) Hinv) as I2.
  set (s2 := set_works _ _) in *.
  assert (I3 : LInvG (fst (if w_has_after (nth w (works s) (mkW false false))
                           then callback s2 beh 5 w else (s2, []))) pend (rest ++ wpend)).
  { destruct (w_has_after _); [apply LInvG_callback|]; exact I2. }
  destruct (if w_has_after _ then _ else _) as [s3 e1]. cbn [fst] in I3.
  specialize (IH s3 pend wpend beh I3).
  destruct (run_wq rest s3 beh) as [s4 e2]. exact IH.
Qed.

Lemma LInvG_update_time s pend wpend : LInvG s pend wpend -> LInvG (update_time s) pend wpend.
Proof.
  intros [HI WI]. split; [|eapply WInv_fields; [| | |exact WI]; reflexivity].
  destruct HI as [A B C D E F G H I].
  assert (Ea : ts (update_time s) = advance (ts s) (clock s - now (ts s))).
  { unfold update_time, advance; cbn. f_equal. lia. }
  constructor; try assumption.
  - rewrite Ea. apply TI_advance. exact A.
  - cbn. lia.
Qed.

Lemma LInvG_set_clock_fwd s pend wpend d :
  0 <= d -> LInvG s pend wpend -> LInvG (set_clock s (clock s + d)) pend wpend.
Proof.
  intros Hd [HI WI]. split; [|eapply WInv_fields; [| | |exact WI]; reflexivity].
  destruct HI as [A B C D E F G H I]. constructor; try assumption. cbn. lia.
Qed.

Lemma LInvG_detach_wq s pend :
  LInvG s pend [] -> LInvG (set_wq (set_wqp s false) []) pend (wq (set_wqp s false) ++ []).
Proof.
  intros [HI [W1 W2 W3]]. split; [eapply HInv_fields; [| | | | |exact HI]; reflexivity|].
  constructor; cbn [nreq works wq set_wq set_wqp]; auto.
Qed.

Lemma LInvG_poll_wakeup s pend wpend :
  LInvG s pend wpend -> LInvG (set_efd (update_time s) false) pend wpend.
Proof.
  intros Hinv. eapply LInvG_core with (s := update_time s); [reflexivity|].
  apply LInvG_update_time; exact Hinv.
Qed.

Lemma LInvG_io_poll s pend beh timeout :
  LInvG s pend [] -> LInvG (fst (io_poll s beh timeout)) pend [].
Proof.
  intros Hinv. unfold io_poll. destruct (efd s).
  - set (s1 := set_efd (update_time s) false).
    assert (I1 : LInvG s1 pend []).
    { eapply LInvG_core with (s := update_time s); [reflexivity|]. apply LInvG_update_time; exact Hinv. }
    assert (I2 : LInvG (fst (if wq_pending s1
                             then let s' := set_wqp s1 false in
                                  let l := wq s' in run_wq l (set_wq s' []) beh
                             else (s1, []))) pend []).
    { destruct (wq_pending s1); [|exact I1]. cbv zeta. apply LInvG_run_wq.
      destruct I1 as [HI [W1 W2 W3]]. split; [eapply HInv_fields; [| | | | |exact HI]; reflexivity|].
      constructor; cbn [nreq works wq set_wq set_wqp]; auto. }
    destruct (if wq_pending s1 then _ else _) as [s2 e1]. cbn [fst] in I2.
    set (s3 := set_alq _ _).
    assert (I3 : LInvG s3 pend []) by (eapply LInvG_core; [|exact I2]; reflexivity).
    pose proof (LInvG_run_alq (length (async_q s2)) s3 pend [] beh I3) as I4.
    destruct (run_alq (length (async_q s2)) s3 beh) as [s4 e2]. exact I4.
  - destruct (timeout =? 0); cbn [fst]; [apply LInvG_update_time; exact Hinv|].
    destruct (Z.ltb_spec timeout 0); cbn [fst].
    + eapply LInvG_core with (s := update_time s); [reflexivity|]. apply LInvG_update_time; exact Hinv.
    + destruct (metrics s).
      * destruct (Z.leb_spec (timeout - (clock s - now (ts s))) 0); cbn [fst].
        -- apply LInvG_update_time; exact Hinv.
        -- apply LInvG_update_time. apply LInvG_set_clock_fwd; [lia|exact Hinv].
      * cbn [fst]. apply LInvG_update_time. apply LInvG_set_clock_fwd; [lia|exact Hinv].
Qed.

(* uv__finish_close on the head [i] of the detached batch, up to the callback *)
Lemma LInvG_finish_close s i tl wpend :
  LInvG s (i :: tl) wpend -> LInvG (handle_unref (upd_h s i (with_closed true)) i) tl wpend.
Proof.
  intros Hinv. pose proof Hinv as [HI _].
  assert (Hin : In i (closing s ++ i :: tl)) by (apply in_or_app; right; left; reflexivity).
  apply (hi_cl _ _ HI) in Hin. destruct Hin as (Hi & Hc & Hd).
  destruct (hi_hok _ _ HI i Hi) as (Hina & _).
  pose proof (hstep_upd_h s s i (fun h => h) (with_closed true) _ _ _ (p_ar_with_closed _ _)
                (hstep_refl s i)) as H1. cbv beta in H1.
  assert (Hca : h_closing (with_closed true (hget s i)) = true ->
                h_active (with_closed true (hget s i)) = false) by (intros _; apply Hina; exact Hc).
  pose proof (hstep_handle_unref s _ i _ _ _ _ Hi Hca H1) as H2.
  eapply LInvG_hstep_closed with (i := i);
    [exact Hinv|exact H2|reflexivity|reflexivity|exact Hc|reflexivity].
Qed.

(* uv__run_closing_handles: the detached batch [l] is the pending batch *)
Lemma LInvG_run_closing l : forall s pend wpend beh,
  LInvG s (l ++ pend) wpend -> LInvG (fst (run_closing l s beh)) pend wpend.
Proof.
  induction l as [|i rest IH]; intros s pend wpend beh Hinv; cbn [run_closing]; [exact Hinv|].
  pose proof (LInvG_finish_close s i (rest ++ pend) wpend Hinv) as I2.
  pose proof (LInvG_callback _ (rest ++ pend) wpend beh 6 i I2) as I3.
  destruct (callback _ beh 6 i) as [s3 e1]. cbn [fst] in I3.
  specialize (IH s3 pend wpend beh I3).
  destruct (run_closing rest s3 beh) as [s4 e2]. exact IH.
Qed.

(* the ready queue of the timer pass *)
Lemma LInvG_push_ready s pend wpend i :
  LInvG s pend wpend -> (i < length (hs s))%nat ->
  t_active (get (ts s) i) = false -> ~ In i (ready (ts s)) ->
  t_timeout (get (ts s) i) <= now (ts s) -> is_timer (hget s i) = true ->
  LInvG (set_ts s (mkT (now (ts s)) (counter (ts s)) (hp (ts s)) (tms (ts s))
                       (ready (ts s) ++ [i]))) pend wpend.
Proof.
  intros [HI WI] Hi Ha Hn Ht Hk. split; [|eapply WInv_fields; [| | |exact WI]; reflexivity].
  destruct HI as [A B C D E F G H I]. constructor; try assumption.
  - cbn [ts set_ts]. apply TI_push_ready; auto. rewrite C. exact Hi.
  - intros j Hj. cbn [ts set_ts ready] in Hj. apply in_app_or in Hj.
    destruct Hj as [Hj|[<-|[]]]; [apply E; exact Hj|exact Hk].
Qed.

Lemma LInvG_pop_ready s pend wpend i rest :
  LInvG s pend wpend -> ready (ts s) = i :: rest ->
  LInvG (set_ts s (mkT (now (ts s)) (counter (ts s)) (hp (ts s)) (tms (ts s)) rest)) pend wpend.
Proof.
  intros [HI WI] Hr. split; [|eapply WInv_fields; [| | |exact WI]; reflexivity].
  destruct HI as [A B C D E F G H I]. constructor; try assumption.
  - cbn [ts set_ts]. eapply TI_pop; eauto.
  - intros j Hj. cbn [ts set_ts ready] in Hj. apply E. rewrite Hr. right; exact Hj.
Qed.

Lemma l_timer_stop_step s i : (i < length (hs s))%nat ->
  hstepG s (l_timer_stop s i) i
         (fun h => with_active (t_active (get (timer_stop (ts s) i) i)) h)
         (timer_stop (ts s) i) (clock s) (closing s).
Proof.
  intros Hi. unfold l_timer_stop.
  exact (hstep_sync_timer_active s _ i _ _ _ _ Hi
           (hstep_set_ts s s i _ _ _ _ (timer_stop (ts s) i) (hstep_refl s i))).
Qed.

Lemma LInvG_l_collect fuel : forall s pend wpend,
  LInvG s pend wpend -> LInvG (l_collect fuel s) pend wpend.
Proof.
  induction fuel as [|f IH]; intros s pend wpend Hinv; cbn [l_collect]; [exact Hinv|].
  destruct (heap_min (hp (ts s))) as [k|] eqn:Em; [|exact Hinv].
  destruct (Z.ltb_spec (now (ts s)) (k_timeout k)); [exact Hinv|].
  pose proof Hinv as [HI _]. pose proof (hi_ti _ _ HI) as T.
  assert (Hk : In k (els (ts s))).
  { unfold heap_min in Em. destruct (h_tree (hp (ts s))); simpl in *; [discriminate|].
    inversion Em; subst. left; reflexivity. }
  destruct (ti_e1 _ T k Hk) as (Hit & Ha & Hto & Hsid).
  assert (Hi : (k_id k < length (hs s))%nat) by (rewrite <- (hi_len _ _ HI); exact Hit).
  destruct (timer_stop_effect (ts s) (k_id k) T Hit) as (Ea & Hnr & Hnow & Hctr & Hlen & Hrd & Hfld & Hoth).
  pose proof (LInvG_l_timer_stop s pend wpend (k_id k) Hi Hinv) as I1.
  pose proof (l_timer_stop_step s (k_id k) Hi) as Hst.
  pose proof (hstep_hget _ _ _ _ _ _ _ Hi Hst) as Hg.
  pose proof Hst as (A1 & _ & A3 & _).
  set (s1 := l_timer_stop s (k_id k)) in *.
  assert (Hl1 : length (hs s1) = length (hs s)) by (rewrite A1; apply upd_length).
  apply IH. apply LInvG_push_ready; auto.
  - lia.
  - rewrite A3. exact Ea.
  - rewrite A3. exact Hnr.
  - rewrite A3. destruct (Hfld (k_id k)) as (B1 & _). rewrite B1, Hto, Hnow. lia.
  - rewrite Hg. unfold is_timer. cbn [h_kind with_active].
    destruct (hi_sync _ _ HI (k_id k) Hi) as (S1 & _). rewrite Ha in S1.
    symmetry in S1. apply andb_prop in S1. apply S1.
Qed.

(* second loop of uv__run_timers: pop the head, uv_timer_again *)
Lemma LInvG_fire_step s pend wpend i rest :
  LInvG s pend wpend -> ready (ts s) = i :: rest ->
  LInvG (fst (l_timer_again
                (set_ts s (mkT (now (ts s)) (counter (ts s)) (hp (ts s)) (tms (ts s)) rest)) i))
        pend wpend.
Proof.
  intros Hinv Er. pose proof Hinv as [HI _]. pose proof (hi_ti _ _ HI) as T.
  assert (Hin : In i (ready (ts s))) by (rewrite Er; left; reflexivity).
  destruct (ti_r _ T i Hin) as (Hit & _).
  assert (Hi : (i < length (hs s))%nat) by (rewrite <- (hi_len _ _ HI); exact Hit).
  pose proof (hi_ready _ _ HI i Hin) as Hk.
  pose proof (LInvG_pop_ready s pend wpend i rest Hinv Er) as I0.
  apply LInvG_l_timer_again; [exact Hi|exact Hk|exact I0].
Qed.

Lemma LInvG_l_fire fuel : forall s pend wpend beh,
  LInvG s pend wpend -> LInvG (fst (l_fire fuel s beh)) pend wpend.
Proof.
  induction fuel as [|f IH]; intros s pend wpend beh Hinv; cbn [l_fire]; [exact Hinv|].
  destruct (ready (ts s)) as [|i rest] eqn:Er; [exact Hinv|].
  pose proof (LInvG_fire_step s pend wpend i rest Hinv Er) as I1.
  set (s0 := set_ts s _) in *.
  pose proof (LInvG_callback _ pend wpend beh 0 i I1) as I2.
  destruct (callback (fst (l_timer_again s0 i)) beh 0 i) as [s2 e1]. cbn [fst] in I2.
  specialize (IH s2 pend wpend beh I2).
  destruct (l_fire f s2 beh) as [s3 e2]. exact IH.
Qed.

Lemma LInvG_l_run_timers s pend wpend beh :
  LInvG s pend wpend -> LInvG (fst (l_run_timers s beh)) pend wpend.
Proof. intros Hinv. unfold l_run_timers. apply LInvG_l_fire. apply LInvG_l_collect. exact Hinv. Qed.

Lemma LInvG_detach_closing s wpend :
  LInvG s [] wpend -> LInvG (set_closing s []) (closing s ++ []) wpend.
Proof.
  intros [HI WI]. split; [|eapply WInv_fields; [| | |exact WI]; reflexivity].
  destruct HI as [A B C D E F G H I]. constructor; try assumption.
Qed.

(* ------------------------------------------------------------------ *)
(* uv_run and whole scripts                                           *)
(* ------------------------------------------------------------------ *)
Lemma LInvG_iteration s beh mode : LInvG s [] [] -> LInvG (fst (iteration s beh mode)) [] [].
Proof.
  intros Hinv. unfold iteration.
  pose proof (LInvG_run_watchers s [] [] beh KIdle 1 Hinv) as I1.
  destruct (run_watchers s beh KIdle 1) as [s1 e1]. cbn [fst] in I1.
  pose proof (LInvG_run_watchers s1 [] [] beh KPrepare 2 I1) as I2.
  destruct (run_watchers s1 beh KPrepare 2) as [s2 e2]. cbn [fst] in I2.
  match goal with |- context [io_poll _ beh ?t] => set (timeout := t) end.
  assert (I2' : LInvG (set_dirty s2 false) [] []) by (eapply LInvG_core; [|exact I2]; reflexivity).
  pose proof (LInvG_io_poll _ [] beh timeout I2') as I3.
  destruct (io_poll (set_dirty s2 false) beh timeout) as [s3 e3]. cbn [fst] in I3.
  pose proof (LInvG_run_watchers s3 [] [] beh KCheck 3 I3) as I4.
  destruct (run_watchers s3 beh KCheck 3) as [s4 e4]. cbn [fst] in I4.
  pose proof (LInvG_run_closing (closing s4) (set_closing s4 []) [] [] beh (LInvG_detach_closing _ _ I4)) as I5.
  destruct (run_closing (closing s4) (set_closing s4 []) beh) as [s5 e5]. cbn [fst] in I5.
  pose proof (LInvG_l_run_timers _ [] [] beh (LInvG_update_time _ _ _ I5)) as I7.
  destruct (l_run_timers (update_time s5) beh) as [s7 e6]. exact I7.
Qed.

Lemma LInvG_run_loop fuel : forall s beh mode,
  LInvG s [] [] -> LInvG (fst (fst (run_loop fuel s beh mode))) [] [].
Proof.
  induction fuel as [|f IH]; intros s beh mode Hinv; cbn [run_loop]; [exact Hinv|].
  pose proof (LInvG_iteration s beh mode Hinv) as I1.
  destruct (iteration s beh mode) as [s1 e1]. cbn [fst] in I1.
  destruct (negb (Nat.eqb mode 0)); [exact I1|].
  destruct (loop_alive s1 && negb (stop_flag s1)); [|exact I1].
  specialize (IH s1 beh mode I1).
  destruct (run_loop f s1 beh mode) as [[s2 e2] r2]. exact IH.
Qed.

Lemma LInvG_uv_run fuel s beh mode :
  LInvG s [] [] -> LInvG (fst (uv_run fuel s beh mode)) [] [].
Proof.
  intros Hinv. unfold uv_run.
  set (s0 := if loop_alive s then s else update_time s).
  assert (I0 : LInvG s0 [] []) by (subst s0; destruct (loop_alive s); [|apply LInvG_update_time]; exact Hinv).
  assert (I1 : LInvG (fst (if Nat.eqb mode 0 && loop_alive s && negb (stop_flag s0)
                           then l_run_timers (update_time s0) beh else (s0, []))) [] []).
  { destruct (Nat.eqb mode 0 && loop_alive s && negb (stop_flag s0)); [|exact I0].
    apply LInvG_l_run_timers. apply LInvG_update_time. exact I0. }
  destruct (if Nat.eqb mode 0 && loop_alive s && negb (stop_flag s0) then _ else _) as [s1 e0].
  cbn [fst] in I1.
  set (r1 := if Nat.eqb mode 0 && loop_alive s && negb (stop_flag s0) && stop_flag s1
             then loop_alive s1 else loop_alive s).
  assert (I2 : LInvG (fst (fst (if r1 && negb (stop_flag s1)
                                then run_loop fuel s1 beh mode else (s1, [], r1)))) [] []).
  { destruct (r1 && negb (stop_flag s1)); [apply LInvG_run_loop|]; exact I1. }
  destruct (if r1 && negb (stop_flag s1) then _ else _) as [[s2 e1] r'].
  cbn [fst] in *. eapply LInvG_core; [|exact I2]. reflexivity.
Qed.

Lemma LInvG_lrun os : forall s beh, LInvG s [] [] -> LInvG (fst (lrun s os beh)) [] [].
Proof.
  induction os as [|o os IH]; intros s beh Hinv; [exact Hinv|].
  assert (Hgen : forall s1 e1, lapi s o = (s1, e1) ->
                 LInvG (fst (let '(s1, e1) := lapi s o in
                             let '(s2, e2) := lrun s1 os beh in (s2, e1 ++ e2))) [] []).
  { intros s1 e1 E. rewrite E. pose proof (LInvG_lapi s [] [] o Hinv) as I1. rewrite E in I1.
    specialize (IH s1 beh I1). destruct (lrun s1 os beh) as [s2 e2]. exact IH. }
  destruct o as [k hascb|i cb t r|i|i r|i hascb|i|i|i|i|i|a| |d| | | |m| ]; cbn [lrun];
    try (eapply Hgen; apply surjective_pairing).
  - pose proof (LInvG_uv_run run_fuel s beh m Hinv) as I1.
    destruct (uv_run run_fuel s beh m) as [s1 e1]. cbn [fst] in I1.
    specialize (IH s1 beh I1). destruct (lrun s1 os beh) as [s2 e2]. exact IH.
  - specialize (IH s beh Hinv). destruct (lrun s os beh) as [s2 e2]. exact IH.
Qed.

(* the two-argument form *)
Lemma LInv_init t0 m : LInv (linit t0 m) [].
Proof. apply LInvG_init. Qed.

Lemma LInv_lapi s pend o : LInv s pend -> LInv (fst (lapi s o)) pend.
Proof. apply LInvG_lapi. Qed.

Lemma LInv_lapis s pend os : LInv s pend -> LInv (fst (lapis s os)) pend.
Proof. apply LInvG_lapis. Qed.

Lemma LInv_callback s pend beh tag i : LInv s pend -> LInv (fst (callback s beh tag i)) pend.
Proof. apply LInvG_callback. Qed.

Lemma LInv_iteration s beh mode : LInv s [] -> LInv (fst (iteration s beh mode)) [].
Proof. apply LInvG_iteration. Qed.

Lemma LInv_uv_run fuel s beh mode : LInv s [] -> LInv (fst (uv_run fuel s beh mode)) [].
Proof. apply LInvG_uv_run. Qed.

Lemma LInv_lrun s os beh : LInv s [] -> LInv (fst (lrun s os beh)) [].
Proof. apply LInvG_lrun. Qed.

Theorem LInv_reachable t0 m os beh : LInv (fst (lrun (linit t0 m) os beh)) [].
Proof. apply LInv_lrun, LInv_init. Qed.

(* ------------------------------------------------------------------ *)
(* reading the invariant                                              *)
(* ------------------------------------------------------------------ *)
Lemma LInvG_counts_nonneg s pend wpend : LInvG s pend wpend -> 0 <= nact s /\ 0 <= nreq s.
Proof.
  intros [HI WI]. rewrite (hi_nact _ _ HI), (wi_nreq _ _ WI). split; apply countZ_nonneg.
Qed.

Lemma LInvG_in_hs_hok s pend wpend h : LInvG s pend wpend -> In h (hs s) -> hok h.
Proof.
  intros [HI _] Hin. apply In_nth_error in Hin. destruct Hin as (i & Hi).
  apply nth_error_hget in Hi. destruct Hi as (<- & Hi). apply (hi_hok _ _ HI i Hi).
Qed.

(* the counter is positive exactly when some handle is active, referenced and not closing *)
Lemma LInvG_nact_pos s pend wpend : LInvG s pend wpend ->
  (0 < nact s <-> exists i h, nth_error (hs s) i = Some h /\
                              h_active h = true /\ h_ref h = true /\ h_closing h = false).
Proof.
  intros Hinv. pose proof Hinv as [HI _]. rewrite (hi_nact _ _ HI), countZ_pos_iff. split.
  - intros (h & Hin & Hp). unfold p_ar in Hp. apply andb_prop in Hp. destruct Hp as [Ha Hr].
    destruct (LInvG_in_hs_hok s pend wpend h Hinv Hin) as (K1 & _).
    apply In_nth_error in Hin. destruct Hin as (i & Hi). exists i, h. repeat split; auto.
    destruct (h_closing h); [|reflexivity]. specialize (K1 eq_refl). congruence.
  - intros (i & h & Hi & Ha & Hr & _). exists h. split; [eapply nth_error_In; eauto|].
    unfold p_ar. rewrite Ha, Hr. reflexivity.
Qed.

Lemma LInvG_nact_existsb s pend wpend : LInvG s pend wpend ->
  (0 <? nact s) = existsb (fun h => h_active h && h_ref h && negb (h_closing h)) (hs s).
Proof.
  intros Hinv. apply eq_true_iff_eq. rewrite Z.ltb_lt, existsb_exists.
  rewrite (LInvG_nact_pos s pend wpend Hinv). split.
  - intros (i & h & Hi & Ha & Hr & Hc). exists h. split; [eapply nth_error_In; eauto|].
    rewrite Ha, Hr, Hc. reflexivity.
  - intros (h & Hin & Hp). apply andb_prop in Hp. destruct Hp as [Hp Hc].
    apply andb_prop in Hp. destruct Hp as [Ha Hr]. apply negb_true_iff in Hc.
    apply In_nth_error in Hin. destruct Hin as (i & Hi). exists i, h. auto.
Qed.

(* outside a close batch the closing list is non-empty exactly when some handle
   is closing and not closed *)
Lemma LInvG_closing_nonempty s wpend : LInvG s [] wpend ->
  (closing s <> [] <-> exists i h, nth_error (hs s) i = Some h /\
                                   h_closing h = true /\ h_closed h = false).
Proof.
  intros [HI _]. pose proof (hi_cl _ _ HI) as Hcl. split.
  - intros Hne. destruct (closing s) as [|i l] eqn:E; [congruence|].
    destruct (Hcl i) as [Hc _]. rewrite app_nil_r in Hc.
    destruct (Hc (or_introl eq_refl)) as (Hi & Hg & Hd).
    exists i, (hget s i). split; [apply hget_nth_error; exact Hi|auto].
  - intros (i & h & Hi & Hg & Hd) Hnil. apply nth_error_hget in Hi. destruct Hi as (<- & Hi).
    destruct (Hcl i) as [_ Hc]. rewrite Hnil in Hc. simpl in Hc. apply Hc. auto.
Qed.

Lemma LInvG_closing_existsb s wpend : LInvG s [] wpend ->
  negb (match closing s with [] => true | _ => false end) =
  existsb (fun h => h_closing h && negb (h_closed h)) (hs s).
Proof.
  intros Hinv. apply eq_true_iff_eq. rewrite existsb_exists.
  assert (Hne : negb (match closing s with [] => true | _ => false end) = true <-> closing s <> [])
    by (destruct (closing s); cbn; split; congruence).
  rewrite Hne, (LInvG_closing_nonempty s wpend Hinv). split.
  - intros (i & h & Hi & Hg & Hd). exists h. split; [eapply nth_error_In; eauto|].
    rewrite Hg, Hd. reflexivity.
  - intros (h & Hin & Hp). apply andb_prop in Hp. destruct Hp as [Hg Hd].
    apply negb_true_iff in Hd. apply In_nth_error in Hin. destruct Hin as (i & Hi). exists i, h. auto.
Qed.

Lemma LInvG_nreq_pos s pend wpend : LInvG s pend wpend ->
  (0 < nreq s <-> exists w r, nth_error (works s) w = Some r /\ w_delivered r = false).
Proof.
  intros [_ WI]. rewrite (wi_nreq _ _ WI), countZ_pos_iff. split.
  - intros (r & Hin & Hp). apply In_nth_error in Hin. destruct Hin as (w & Hw).
    exists w, r. split; [exact Hw|]. unfold p_undeliv in Hp. apply negb_true_iff in Hp. exact Hp.
  - intros (w & r & Hw & Hd). exists r. split; [eapply nth_error_In; eauto|].
    unfold p_undeliv. rewrite Hd. reflexivity.
Qed.
