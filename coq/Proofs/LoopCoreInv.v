(* Shared invariant infrastructure for Model/LoopCore.v (used by the C01 and
   C03 proofs).

   [LInvG s pend wpend] is the accounting invariant of the loop core:
     - the timer invariant [TI (ts s)], the timer table parallel to the
       handle table, timer handles active exactly when their timer is,
       loop time never ahead of the clock;
     - [nact s] = number of handles that are active and referenced; every
       closing handle is inactive;
     - the closing list, together with the close batch [pend] that
       uv__run_closing_handles has detached and not yet finished, holds
       exactly the handles that are closing and not closed, once each;
     - [nreq s] = number of work records not yet delivered, and [wq s]
       together with the batch [wpend] that uv__work_done has detached holds
       exactly those records, once each.
   [LInv s pend := LInvG s pend []].

   Lemma naming: [LInvG_<function>] is preservation by <function>. *)
From UV Require Import Lib.Base Model.Heap Model.Timer Model.LoopCore
  Proofs.HeapProofs Proofs.TimerProofs.
Local Open Scope Z_scope.

(* ------------------------------------------------------------------ *)
(* lists                                                              *)
(* ------------------------------------------------------------------ *)
Definition b2z (b : bool) : Z := if b then 1 else 0.

Definition countZ {A} (p : A -> bool) (l : list A) : Z :=
  Z.of_nat (length (filter p l)).

Lemma countZ_nil {A} (p : A -> bool) : countZ p [] = 0.
Proof. reflexivity. Qed.

Lemma countZ_cons {A} (p : A -> bool) x l :
  countZ p (x :: l) = b2z (p x) + countZ p l.
Proof. unfold countZ; simpl. destruct (p x); simpl length; unfold b2z; lia. Qed.

Lemma countZ_app {A} (p : A -> bool) l1 l2 :
  countZ p (l1 ++ l2) = countZ p l1 + countZ p l2.
Proof. unfold countZ. rewrite filter_app, app_length. lia. Qed.

Lemma countZ_nonneg {A} (p : A -> bool) l : 0 <= countZ p l.
Proof. unfold countZ; lia. Qed.

Lemma countZ_upd {A} (p : A -> bool) i f l d :
  (i < length l)%nat ->
  countZ p (upd i f l) = countZ p l - b2z (p (nth i l d)) + b2z (p (f (nth i l d))).
Proof.
  revert i; induction l as [|x xs IH]; intros [|i] Hi; simpl in Hi; try lia.
  - simpl. rewrite !countZ_cons. lia.
  - simpl. rewrite !countZ_cons. rewrite IH by lia. lia.
Qed.

Lemma countZ_pos_iff {A} (p : A -> bool) l :
  0 < countZ p l <-> exists x, In x l /\ p x = true.
Proof.
  induction l as [|x xs IH].
  - rewrite countZ_nil. split; [lia|intros (x & [] & _)].
  - rewrite countZ_cons. pose proof (countZ_nonneg p xs). split.
    + intros H0. destruct (p x) eqn:E.
      * exists x; split; [left; reflexivity|exact E].
      * unfold b2z in H0. destruct IH as [IH _]. destruct IH as (y & Hy & Py); [lia|].
        exists y; split; [right; exact Hy|exact Py].
    + intros (y & [->|Hy] & Py).
      * rewrite Py. unfold b2z. lia.
      * destruct IH as [_ IH]. assert (0 < countZ p xs) by (apply IH; eauto).
        unfold b2z; destruct (p x); lia.
Qed.

Lemma upd_overflow {A} i (f : A -> A) l : (length l <= i)%nat -> upd i f l = l.
Proof.
  revert i; induction l as [|x xs IH]; intros [|i] Hi; simpl in *; auto; try lia.
  rewrite IH by lia. reflexivity.
Qed.

Lemma upd_ext_at {A} i (f g : A -> A) l d :
  ((i < length l)%nat -> f (nth i l d) = g (nth i l d)) -> upd i f l = upd i g l.
Proof.
  revert i; induction l as [|x xs IH]; intros [|i] H; simpl in *; auto.
  - rewrite H by lia. reflexivity.
  - rewrite (IH i); [reflexivity|]. intros Hi. apply H. lia.
Qed.

Lemma upd_same_id {A} i (l : list A) : upd i (fun x => x) l = l.
Proof. revert i; induction l as [|x xs IH]; intros [|i]; simpl; auto. rewrite IH; reflexivity. Qed.

Lemma upd_upd {A} i (f g : A -> A) l : upd i g (upd i f l) = upd i (fun x => g (f x)) l.
Proof. revert i; induction l as [|x xs IH]; intros [|i]; simpl; auto. rewrite IH; reflexivity. Qed.

Lemma nth_app_last {A} (l : list A) x d : nth (length l) (l ++ [x]) d = x.
Proof. rewrite app_nth2 by lia. rewrite Nat.sub_diag. reflexivity. Qed.

Lemma NoDup_app_comm_nil {A} (l : list A) : NoDup (l ++ []) <-> NoDup ([] ++ l).
Proof. rewrite app_nil_r. reflexivity. Qed.

(* ------------------------------------------------------------------ *)
(* handle table access                                                *)
(* ------------------------------------------------------------------ *)
Definition p_ar (h : hrec) : bool := h_active h && h_ref h.
Definition p_undeliv (w : wrec) : bool := negb (w_delivered w).
Definition dflt_w : wrec := mkW false false.
Definition is_timer (h : hrec) : bool := hkind_eqb (h_kind h) KTimer.

Lemma hget_upd_same s s' i f :
  hs s' = upd i f (hs s) -> (i < length (hs s))%nat -> hget s' i = f (hget s i).
Proof. intros E Hi. unfold hget. rewrite E. apply nth_upd_same. exact Hi. Qed.

Lemma hget_upd_other s s' i j f :
  hs s' = upd i f (hs s) -> i <> j -> hget s' j = hget s j.
Proof. intros E Hi. unfold hget. rewrite E. apply nth_upd_other. exact Hi. Qed.

Lemma hget_overflow s i : (length (hs s) <= i)%nat -> hget s i = dflt_h.
Proof. intros H. unfold hget. apply nth_overflow. exact H. Qed.

Lemma hget_closed_false_lt s i : h_closed (hget s i) = false -> (i < length (hs s))%nat.
Proof.
  intros H. destruct (Nat.lt_ge_cases i (length (hs s))) as [L|G]; [exact L|].
  rewrite hget_overflow in H by exact G. discriminate.
Qed.

Lemma hget_nth_error s i :
  (i < length (hs s))%nat -> nth_error (hs s) i = Some (hget s i).
Proof. intros H. unfold hget. apply nth_error_nth'. exact H. Qed.

Lemma nth_error_hget s i h : nth_error (hs s) i = Some h -> hget s i = h /\ (i < length (hs s))%nat.
Proof.
  intros H. split.
  - unfold hget. apply nth_error_nth. exact H.
  - apply nth_error_Some. congruence.
Qed.

(* ------------------------------------------------------------------ *)
(* the invariant                                                      *)
(* ------------------------------------------------------------------ *)
Definition hok (h : hrec) : Prop :=
  (h_closing h = true -> h_active h = false) /\ (h_closed h = true -> h_closing h = true).

Definition tsync1 (h : hrec) (t : timer) : Prop :=
  t_active t = is_timer h && h_active h /\
  (is_timer h = true -> h_closing h = true -> t_closing t = true) /\
  (t_closing t = true -> t_active t = false).

Record HInv (s : lstate) (pend : list nat) : Prop := {
  hi_ti : TI (ts s);
  hi_clock : now (ts s) <= clock s;
  hi_len : length (tms (ts s)) = length (hs s);
  hi_sync : forall i, (i < length (hs s))%nat -> tsync1 (hget s i) (get (ts s) i);
  hi_ready : forall i, In i (ready (ts s)) -> is_timer (hget s i) = true;
  hi_hok : forall i, (i < length (hs s))%nat -> hok (hget s i);
  hi_nact : nact s = countZ p_ar (hs s);
  hi_nodup : NoDup (closing s ++ pend);
  hi_cl : forall i, In i (closing s ++ pend) <->
          (i < length (hs s))%nat /\ h_closing (hget s i) = true /\ h_closed (hget s i) = false
}.

Record WInv (s : lstate) (wpend : list nat) : Prop := {
  wi_nreq : nreq s = countZ p_undeliv (works s);
  wi_nodup : NoDup (wq s ++ wpend);
  wi_wq : forall w, In w (wq s ++ wpend) <->
          (w < length (works s))%nat /\ w_delivered (nth w (works s) dflt_w) = false
}.

Definition LInvG (s : lstate) (pend wpend : list nat) : Prop := HInv s pend /\ WInv s wpend.
Definition LInv (s : lstate) (pend : list nat) : Prop := LInvG s pend [].

(* the fields the invariant reads *)
Definition hcore (s : lstate) :=
  (ts s, clock s, hs s, nact s, closing s, nreq s, works s, wq s).

Lemma hcore_eq s s' : hcore s' = hcore s ->
  ts s' = ts s /\ clock s' = clock s /\ hs s' = hs s /\ nact s' = nact s /\
  closing s' = closing s /\ nreq s' = nreq s /\ works s' = works s /\ wq s' = wq s.
Proof. unfold hcore. intros H. inversion H. repeat split; reflexivity || assumption. Qed.

Lemma HInv_fields s s' pend :
  ts s' = ts s -> clock s' = clock s -> hs s' = hs s -> nact s' = nact s -> closing s' = closing s ->
  HInv s pend -> HInv s' pend.
Proof.
  intros E1 E2 E3 E4 E5 [A B C D E F G H I].
  constructor; unfold hget in *; rewrite ?E1, ?E2, ?E3, ?E4, ?E5; assumption.
Qed.

Lemma WInv_fields s s' wpend :
  nreq s' = nreq s -> works s' = works s -> wq s' = wq s -> WInv s wpend -> WInv s' wpend.
Proof.
  intros E1 E2 E3 [A B C]. constructor; rewrite ?E1, ?E2, ?E3; assumption.
Qed.

Lemma LInvG_core s s' pend wpend : hcore s' = hcore s -> LInvG s pend wpend -> LInvG s' pend wpend.
Proof.
  intros H [HI WI]. apply hcore_eq in H. destruct H as (E1 & E2 & E3 & E4 & E5 & E6 & E7 & E8).
  split; [eapply HInv_fields; eauto | eapply WInv_fields; eauto].
Qed.

Lemma LInvG_init t0 m : LInvG (linit t0 m) [] [].
Proof.
  split; constructor; cbn.
  - apply TI_init.
  - lia.
  - reflexivity.
  - intros i H; lia.
  - intros i [].
  - intros i H; lia.
  - reflexivity.
  - constructor.
  - intros i; split; [intros []|intros (H & _); lia].
  - reflexivity.
  - constructor.
  - intros i; split; [intros []|intros (H & _); lia].
Qed.

(* reading the invariant *)
Lemma LInvG_closing_inactive s pend wpend i :
  LInvG s pend wpend -> h_closing (hget s i) = true -> h_active (hget s i) = false.
Proof.
  intros [H _] Hc. destruct (Nat.lt_ge_cases i (length (hs s))) as [L|G].
  - apply (hi_hok s pend H i L). exact Hc.
  - rewrite hget_overflow by exact G. reflexivity.
Qed.

Lemma hcore_wq_set s k v : hcore (wq_set s k v) = hcore s.
Proof. destruct k; reflexivity. Qed.

(* ------------------------------------------------------------------ *)
(* one handle changes: the general preservation lemma                  *)
(* ------------------------------------------------------------------ *)
Lemma HInv_step s s' pend pend' i f :
  HInv s pend -> (i < length (hs s))%nat ->
  hs s' = upd i f (hs s) ->
  nact s' = nact s - b2z (p_ar (hget s i)) + b2z (p_ar (f (hget s i))) ->
  now (ts s') <= clock s' ->
  TI (ts s') -> length (tms (ts s')) = length (tms (ts s)) ->
  (forall j, j <> i -> get (ts s') j = get (ts s) j) ->
  (forall j, In j (ready (ts s')) -> In j (ready (ts s))) ->
  h_kind (f (hget s i)) = h_kind (hget s i) ->
  tsync1 (f (hget s i)) (get (ts s') i) ->
  hok (f (hget s i)) ->
  NoDup (closing s' ++ pend') ->
  (forall j, In j (closing s' ++ pend') <->
             if Nat.eqb j i then h_closing (f (hget s i)) = true /\ h_closed (f (hget s i)) = false
             else In j (closing s ++ pend)) ->
  HInv s' pend'.
Proof.
  intros [A B C D E F G H I] Hi Ehs En Hclk HT Hlen Hfr Hrd Hk Hsy Hok Hnd Hcl.
  assert (Lhs : length (hs s') = length (hs s)) by (rewrite Ehs; apply upd_length).
  assert (Gi : hget s' i = f (hget s i)) by (apply hget_upd_same; assumption).
  assert (Gj : forall j, j <> i -> hget s' j = hget s j)
    by (intros j Hj; eapply hget_upd_other; [exact Ehs|congruence]).
  constructor.
  - exact HT.
  - exact Hclk.
  - congruence.
  - intros j Hj. rewrite Lhs in Hj. destruct (Nat.eq_dec j i) as [->|Hne].
    + rewrite Gi. exact Hsy.
    + rewrite Gj, Hfr by assumption. apply D; exact Hj.
  - intros j Hj. apply Hrd in Hj. destruct (Nat.eq_dec j i) as [->|Hne].
    + rewrite Gi. unfold is_timer. rewrite Hk. apply (E i Hj).
    + rewrite Gj by assumption. apply E; exact Hj.
  - intros j Hj. rewrite Lhs in Hj. destruct (Nat.eq_dec j i) as [->|Hne].
    + rewrite Gi. exact Hok.
    + rewrite Gj by assumption. apply F; exact Hj.
  - rewrite En, Ehs, G. rewrite (countZ_upd p_ar i f (hs s) dflt_h Hi). unfold hget. lia.
  - exact Hnd.
  - intros j. rewrite Hcl, Lhs. destruct (Nat.eqb_spec j i) as [->|Hne].
    + rewrite Gi. tauto.
    + rewrite Gj by assumption. apply I.
Qed.

(* Symbolic execution of a straight-line piece of code that touches handle
   [i] only: state [s] is reached from [s0] by applying [f] to handle [i],
   adjusting the counter accordingly, with timers [T], clock [K], closing
   list [C], and the request fields untouched. *)
Definition hstepG (s0 s : lstate) (i : nat) (f : hrec -> hrec)
           (T : tstate) (K : Z) (C : list nat) : Prop :=
  hs s = upd i f (hs s0) /\
  nact s = nact s0 - b2z (p_ar (hget s0 i)) + b2z (p_ar (f (hget s0 i))) /\
  ts s = T /\ clock s = K /\ closing s = C /\
  nreq s = nreq s0 /\ works s = works s0 /\ wq s = wq s0.

Lemma hstep_refl s i : hstepG s s i (fun h => h) (ts s) (clock s) (closing s).
Proof. unfold hstepG. rewrite upd_same_id. repeat split; auto. lia. Qed.

Lemma hstep_hget s0 s i f T K C :
  (i < length (hs s0))%nat -> hstepG s0 s i f T K C -> hget s i = f (hget s0 i).
Proof. intros Hi (E & _). apply hget_upd_same; assumption. Qed.

Lemma hstep_core s0 s s' i f T K C :
  hcore s' = hcore s -> hstepG s0 s i f T K C -> hstepG s0 s' i f T K C.
Proof.
  intros H (A1 & A2 & A3 & A4 & A5 & A6 & A7 & A8). apply hcore_eq in H.
  destruct H as (E1 & E2 & E3 & E4 & E5 & E6 & E7 & E8).
  unfold hstepG. repeat split; congruence.
Qed.

Lemma hstep_set_ts s0 s i f T K C v : hstepG s0 s i f T K C -> hstepG s0 (set_ts s v) i f v K C.
Proof. intros (A1 & A2 & A3 & A4 & A5 & A6 & A7 & A8). unfold hstepG; cbn. repeat split; auto. Qed.

Lemma hstep_set_clock s0 s i f T K C v : hstepG s0 s i f T K C -> hstepG s0 (set_clock s v) i f T v C.
Proof. intros (A1 & A2 & A3 & A4 & A5 & A6 & A7 & A8). unfold hstepG; cbn. repeat split; auto. Qed.

Lemma hstep_set_closing s0 s i f T K C v : hstepG s0 s i f T K C -> hstepG s0 (set_closing s v) i f T K v.
Proof. intros (A1 & A2 & A3 & A4 & A5 & A6 & A7 & A8). unfold hstepG; cbn. repeat split; auto. Qed.

Lemma hstep_upd_h s0 s i f g T K C :
  p_ar (g (f (hget s0 i))) = p_ar (f (hget s0 i)) ->
  hstepG s0 s i f T K C -> hstepG s0 (upd_h s i g) i (fun h => g (f h)) T K C.
Proof.
  intros Hp (A1 & A2 & A3 & A4 & A5 & A6 & A7 & A8). unfold hstepG; cbn.
  rewrite A1, upd_upd, Hp. repeat split; auto.
Qed.

Lemma with_active_same h b : h_active h = b -> with_active b h = h.
Proof. destruct h; cbn; intros <-; reflexivity. Qed.
Lemma with_ref_same h b : h_ref h = b -> with_ref b h = h.
Proof. destruct h; cbn; intros <-; reflexivity. Qed.

Ltac proj_cbn := cbn [ts clock hs nact nreq closing works wq set_nact set_hs upd_h set_ts set_clock set_closing].
Ltac flag_solve A2 := rewrite A2; unfold p_ar;
  cbn [with_active with_ref h_active h_ref h_closing h_closed h_kind];
  repeat match goal with E : _ = true |- _ => rewrite E | E : _ = false |- _ => rewrite E end;
  cbn [andb b2z]; lia.

Lemma hstep_handle_stop s0 s i f T K C :
  (i < length (hs s0))%nat -> hstepG s0 s i f T K C ->
  hstepG s0 (handle_stop s i) i (fun h => with_active false (f h)) T K C.
Proof.
  intros Hi Hst. pose proof (hstep_hget _ _ _ _ _ _ _ Hi Hst) as Hg.
  destruct Hst as (A1 & A2 & A3 & A4 & A5 & A6 & A7 & A8).
  unfold handle_stop. rewrite Hg. unfold hstepG.
  destruct (h_active (f (hget s0 i))) eqn:Ea.
  - destruct (h_ref (f (hget s0 i))) eqn:Er; proj_cbn; rewrite A1, upd_upd;
      (split; [reflexivity|]); (split; [|repeat split; assumption]); flag_solve A2.
  - split; [|split; [|repeat split; assumption]].
    + rewrite A1. apply upd_ext_at with (d := dflt_h). intros _.
      symmetry. apply with_active_same. exact Ea.
    + flag_solve A2.
Qed.

Lemma hstep_handle_start s0 s i f T K C :
  (i < length (hs s0))%nat -> hstepG s0 s i f T K C ->
  hstepG s0 (handle_start s i) i (fun h => with_active true (f h)) T K C.
Proof.
  intros Hi Hst. pose proof (hstep_hget _ _ _ _ _ _ _ Hi Hst) as Hg.
  destruct Hst as (A1 & A2 & A3 & A4 & A5 & A6 & A7 & A8).
  unfold handle_start. rewrite Hg. unfold hstepG.
  destruct (h_active (f (hget s0 i))) eqn:Ea.
  - split; [|split; [|repeat split; assumption]].
    + rewrite A1. apply upd_ext_at with (d := dflt_h). intros _.
      symmetry. apply with_active_same. exact Ea.
    + flag_solve A2.
  - destruct (h_ref (f (hget s0 i))) eqn:Er; proj_cbn; rewrite A1, upd_upd;
      (split; [reflexivity|]); (split; [|repeat split; assumption]); flag_solve A2.
Qed.

Lemma hstep_handle_ref s0 s i f T K C :
  (i < length (hs s0))%nat ->
  (h_closing (f (hget s0 i)) = true -> h_active (f (hget s0 i)) = false) ->
  hstepG s0 s i f T K C ->
  hstepG s0 (handle_ref s i) i (fun h => with_ref true (f h)) T K C.
Proof.
  intros Hi Hca Hst. pose proof (hstep_hget _ _ _ _ _ _ _ Hi Hst) as Hg.
  destruct Hst as (A1 & A2 & A3 & A4 & A5 & A6 & A7 & A8).
  unfold handle_ref. rewrite Hg. unfold hstepG.
  destruct (h_ref (f (hget s0 i))) eqn:Er.
  - split; [|split; [|repeat split; assumption]].
    + rewrite A1. apply upd_ext_at with (d := dflt_h). intros _.
      symmetry. apply with_ref_same. exact Er.
    + flag_solve A2.
  - destruct (h_closing (f (hget s0 i))) eqn:Ec;
      [pose proof (Hca eq_refl) as Ea|destruct (h_active (f (hget s0 i))) eqn:Ea];
      proj_cbn; rewrite A1, upd_upd;
      (split; [reflexivity|]); (split; [|repeat split; assumption]); flag_solve A2.
Qed.

Lemma hstep_handle_unref s0 s i f T K C :
  (i < length (hs s0))%nat ->
  (h_closing (f (hget s0 i)) = true -> h_active (f (hget s0 i)) = false) ->
  hstepG s0 s i f T K C ->
  hstepG s0 (handle_unref s i) i (fun h => with_ref false (f h)) T K C.
Proof.
  intros Hi Hca Hst. pose proof (hstep_hget _ _ _ _ _ _ _ Hi Hst) as Hg.
  destruct Hst as (A1 & A2 & A3 & A4 & A5 & A6 & A7 & A8).
  unfold handle_unref. rewrite Hg. unfold hstepG.
  destruct (h_ref (f (hget s0 i))) eqn:Er.
  - destruct (h_closing (f (hget s0 i))) eqn:Ec;
      [pose proof (Hca eq_refl) as Ea|destruct (h_active (f (hget s0 i))) eqn:Ea];
      proj_cbn; rewrite A1, upd_upd;
      (split; [reflexivity|]); (split; [|repeat split; assumption]); flag_solve A2.
  - split; [|split; [|repeat split; assumption]].
    + rewrite A1. apply upd_ext_at with (d := dflt_h). intros _.
      symmetry. apply with_ref_same. exact Er.
    + flag_solve A2.
Qed.

(* ------------------------------------------------------------------ *)
(* from a symbolic step to the invariant                               *)
(* ------------------------------------------------------------------ *)
Lemma WInv_hstep s0 s i f T K C wpend :
  hstepG s0 s i f T K C -> WInv s0 wpend -> WInv s wpend.
Proof.
  intros (A1 & A2 & A3 & A4 & A5 & A6 & A7 & A8). apply WInv_fields; assumption.
Qed.

(* the closing status of handle [i] does not change *)
Lemma LInvG_hstep s0 s pend wpend i f :
  LInvG s0 pend wpend -> (i < length (hs s0))%nat ->
  hstepG s0 s i f (ts s) (clock s) (closing s0) ->
  now (ts s) <= clock s ->
  TI (ts s) -> length (tms (ts s)) = length (tms (ts s0)) ->
  (forall j, j <> i -> get (ts s) j = get (ts s0) j) ->
  (forall j, In j (ready (ts s)) -> In j (ready (ts s0))) ->
  h_kind (f (hget s0 i)) = h_kind (hget s0 i) ->
  tsync1 (f (hget s0 i)) (get (ts s) i) ->
  hok (f (hget s0 i)) ->
  h_closing (f (hget s0 i)) = h_closing (hget s0 i) ->
  h_closed (f (hget s0 i)) = h_closed (hget s0 i) ->
  LInvG s pend wpend.
Proof.
  intros [HI WI] Hi Hst Hclk HT Hlen Hfr Hrd Hk Hsy Hok Hcg Hcd.
  split; [|eapply WInv_hstep; eauto].
  destruct Hst as (A1 & A2 & A3 & A4 & A5 & A6 & A7 & A8).
  eapply HInv_step with (s := s0) (i := i) (f := f) (pend := pend); eauto.
  - rewrite A5. apply (hi_nodup _ _ HI).
  - intros j. rewrite A5. destruct (Nat.eqb_spec j i) as [->|Hne]; [|reflexivity].
    rewrite Hcg, Hcd. rewrite (hi_cl _ _ HI i). tauto.
Qed.

(* neither timers nor clock change *)
Lemma LInvG_hstep_plain s0 s pend wpend i f :
  LInvG s0 pend wpend -> (i < length (hs s0))%nat ->
  hstepG s0 s i f (ts s0) (clock s0) (closing s0) ->
  h_kind (f (hget s0 i)) = h_kind (hget s0 i) ->
  (is_timer (hget s0 i) = true -> h_active (f (hget s0 i)) = h_active (hget s0 i)) ->
  hok (f (hget s0 i)) ->
  h_closing (f (hget s0 i)) = h_closing (hget s0 i) ->
  h_closed (f (hget s0 i)) = h_closed (hget s0 i) ->
  LInvG s pend wpend.
Proof.
  intros Hinv Hi Hst Hk Hact Hok Hcg Hcd.
  pose proof Hst as (A1 & A2 & A3 & A4 & A5 & A6 & A7 & A8).
  pose proof Hinv as [HI _].
  eapply LInvG_hstep; eauto; rewrite ?A3, ?A4; auto.
  - apply (hi_clock _ _ HI).
  - apply (hi_ti _ _ HI).
  - destruct (hi_sync _ _ HI i Hi) as (S1 & S2 & S3).
    unfold tsync1, is_timer in *. rewrite Hk, Hcg. split; [|split; auto].
    rewrite S1. destruct (hkind_eqb (h_kind (hget s0 i)) KTimer); [|reflexivity].
    rewrite Hact by reflexivity. reflexivity.
Qed.

(* uv_close: handle [i] becomes closing and is pushed on the closing list *)
Lemma LInvG_hstep_close s0 s pend wpend i f :
  LInvG s0 pend wpend -> (i < length (hs s0))%nat ->
  hstepG s0 s i f (ts s) (clock s) (i :: closing s0) ->
  now (ts s) <= clock s ->
  TI (ts s) -> length (tms (ts s)) = length (tms (ts s0)) ->
  (forall j, j <> i -> get (ts s) j = get (ts s0) j) ->
  (forall j, In j (ready (ts s)) -> In j (ready (ts s0))) ->
  h_kind (f (hget s0 i)) = h_kind (hget s0 i) ->
  tsync1 (f (hget s0 i)) (get (ts s) i) ->
  hok (f (hget s0 i)) ->
  h_closing (hget s0 i) = false ->
  h_closing (f (hget s0 i)) = true ->
  h_closed (f (hget s0 i)) = false ->
  LInvG s pend wpend.
Proof.
  intros [HI WI] Hi Hst Hclk HT Hlen Hfr Hrd Hk Hsy Hok Hc0 Hcg Hcd.
  split; [|eapply WInv_hstep; eauto].
  destruct Hst as (A1 & A2 & A3 & A4 & A5 & A6 & A7 & A8).
  assert (Hnin : ~ In i (closing s0 ++ pend)).
  { intros Hin. apply (hi_cl _ _ HI) in Hin. destruct Hin as (_ & Hin & _). congruence. }
  eapply HInv_step with (s := s0) (i := i) (f := f) (pend := pend); eauto.
  - rewrite A5. simpl. constructor; [exact Hnin|apply (hi_nodup _ _ HI)].
  - intros j. rewrite A5. simpl. destruct (Nat.eqb_spec j i) as [->|Hne].
    + split; auto.
    + split; [intros [E|Hin]; [congruence|exact Hin]|intros Hin; right; exact Hin].
Qed.

(* uv__finish_close: handle [i], head of the detached batch, becomes closed *)
Lemma LInvG_hstep_closed s0 s rest wpend i f :
  LInvG s0 (i :: rest) wpend ->
  hstepG s0 s i f (ts s0) (clock s0) (closing s0) ->
  h_kind (f (hget s0 i)) = h_kind (hget s0 i) ->
  h_active (f (hget s0 i)) = h_active (hget s0 i) ->
  h_closing (f (hget s0 i)) = true ->
  h_closed (f (hget s0 i)) = true ->
  LInvG s rest wpend.
Proof.
  intros [HI WI] Hst Hk Hact Hcg Hcd.
  split; [|eapply WInv_hstep; eauto].
  pose proof Hst as (A1 & A2 & A3 & A4 & A5 & A6 & A7 & A8).
  assert (Hin : In i (closing s0 ++ i :: rest)) by (apply in_or_app; right; left; reflexivity).
  apply (hi_cl _ _ HI) in Hin. destruct Hin as (Hi & Hc0 & Hd0).
  destruct (hi_hok _ _ HI i Hi) as (Hina & _). specialize (Hina Hc0).
  pose proof (hi_nodup _ _ HI) as Hnd.
  eapply HInv_step with (s := s0) (i := i) (f := f) (pend := i :: rest); eauto;
    rewrite ?A3, ?A4, ?A5; auto.
  - apply (hi_clock _ _ HI).
  - apply (hi_ti _ _ HI).
  - destruct (hi_sync _ _ HI i Hi) as (S1 & S2 & S3).
    unfold tsync1, is_timer in *. rewrite Hk, Hact, Hcg. split; [exact S1|split; auto].
  - split; [intros _; congruence|intros _; exact Hcg].
  - apply NoDup_remove_1 in Hnd. exact Hnd.
  - intros j. destruct (Nat.eqb_spec j i) as [->|Hne].
    + split; [|intros (_ & Hx); congruence].
      intros Hx. apply NoDup_remove_2 in Hnd. contradiction.
    + rewrite !in_app_iff. simpl. split; [tauto|]. intros [Hx|[Hx|Hx]]; auto. congruence.
Qed.

(* an update of handle [i] that keeps kind and the four flags, any [i] *)
Definition flags_same (f : hrec -> hrec) : Prop :=
  forall h, h_kind (f h) = h_kind h /\ h_active (f h) = h_active h /\ h_ref (f h) = h_ref h /\
            h_closing (f h) = h_closing h /\ h_closed (f h) = h_closed h.

Lemma LInvG_upd_h_inert s pend wpend i f :
  flags_same f -> LInvG s pend wpend -> LInvG (upd_h s i f) pend wpend.
Proof.
  intros Hf Hinv. destruct (Nat.lt_ge_cases i (length (hs s))) as [Hi|Hi].
  - destruct (Hf (hget s i)) as (F1 & F2 & F3 & F4 & F5).
    eapply LInvG_hstep_plain with (i := i) (f := fun h => f h); eauto.
    + apply (hstep_upd_h s s i (fun h => h) f); [|apply hstep_refl].
      unfold p_ar. rewrite F2, F3. reflexivity.
    + unfold hok. rewrite F2, F4, F5. destruct Hinv as [HI _]. apply (hi_hok _ _ HI i Hi).
  - eapply LInvG_core; [|exact Hinv]. unfold upd_h, hcore; cbn.
    rewrite upd_overflow by exact Hi. reflexivity.
Qed.

Lemma flags_same_hascb b : flags_same (with_hascb b).
Proof. intros h; cbn; auto. Qed.
Lemma flags_same_pending b : flags_same (with_pending b).
Proof. intros h; cbn; auto. Qed.

(* ------------------------------------------------------------------ *)
(* the four macros                                                    *)
(* ------------------------------------------------------------------ *)
Lemma LInvG_handle_ref s pend wpend i : LInvG s pend wpend -> LInvG (handle_ref s i) pend wpend.
Proof.
  intros Hinv. destruct (Nat.lt_ge_cases i (length (hs s))) as [Hi|Hi].
  - pose proof Hinv as [HI _]. destruct (hi_hok _ _ HI i Hi) as (K1 & K2).
    eapply LInvG_hstep_plain with (i := i) (f := fun h => with_ref true h); eauto.
    + apply (hstep_handle_ref s s i (fun h => h)); [exact Hi|exact K1|apply hstep_refl].
    + split; assumption.
  - eapply LInvG_core; [|exact Hinv]. unfold handle_ref. rewrite hget_overflow by exact Hi.
    unfold upd_h, hcore; cbn. rewrite upd_overflow by exact Hi. reflexivity.
Qed.

Lemma LInvG_handle_unref s pend wpend i : LInvG s pend wpend -> LInvG (handle_unref s i) pend wpend.
Proof.
  intros Hinv. destruct (Nat.lt_ge_cases i (length (hs s))) as [Hi|Hi].
  - pose proof Hinv as [HI _]. destruct (hi_hok _ _ HI i Hi) as (K1 & K2).
    eapply LInvG_hstep_plain with (i := i) (f := fun h => with_ref false h); eauto.
    + apply (hstep_handle_unref s s i (fun h => h)); [exact Hi|exact K1|apply hstep_refl].
    + split; assumption.
  - eapply LInvG_core; [|exact Hinv]. unfold handle_unref. rewrite hget_overflow by exact Hi.
    reflexivity.
Qed.

Lemma LInvG_handle_stop s pend wpend i :
  is_timer (hget s i) = false -> LInvG s pend wpend -> LInvG (handle_stop s i) pend wpend.
Proof.
  intros Hnt Hinv. destruct (Nat.lt_ge_cases i (length (hs s))) as [Hi|Hi].
  - pose proof Hinv as [HI _]. destruct (hi_hok _ _ HI i Hi) as (K1 & K2).
    eapply LInvG_hstep_plain with (i := i) (f := fun h => with_active false h); eauto.
    + apply (hstep_handle_stop s s i (fun h => h)); [exact Hi|apply hstep_refl].
    + congruence.
    + split; cbn; auto.
  - eapply LInvG_core; [|exact Hinv]. unfold handle_stop. rewrite hget_overflow by exact Hi.
    reflexivity.
Qed.

Lemma LInvG_handle_start s pend wpend i :
  is_timer (hget s i) = false -> h_closing (hget s i) = false ->
  LInvG s pend wpend -> LInvG (handle_start s i) pend wpend.
Proof.
  intros Hnt Hnc Hinv. destruct (Nat.lt_ge_cases i (length (hs s))) as [Hi|Hi].
  - pose proof Hinv as [HI _]. destruct (hi_hok _ _ HI i Hi) as (K1 & K2).
    eapply LInvG_hstep_plain with (i := i) (f := fun h => with_active true h); eauto.
    + apply (hstep_handle_start s s i (fun h => h)); [exact Hi|apply hstep_refl].
    + congruence.
    + split; cbn; [congruence|auto].
  - eapply LInvG_core; [|exact Hinv]. unfold handle_start. rewrite hget_overflow by exact Hi.
    unfold upd_h, hcore; cbn. rewrite upd_overflow by exact Hi. reflexivity.
Qed.

(* ------------------------------------------------------------------ *)
(* watchers, async                                                    *)
(* ------------------------------------------------------------------ *)
Lemma hstep_watcher_stop s0 s i f T K C :
  (i < length (hs s0))%nat -> hstepG s0 s i f T K C ->
  hstepG s0 (watcher_stop s i) i (fun h => with_active false (f h)) T K C.
Proof.
  intros Hi Hst. unfold watcher_stop.
  destruct (h_active (hget s i)) eqn:Ea.
  - apply hstep_handle_stop; [exact Hi|].
    eapply hstep_core; [|exact Hst]. cbn. apply hcore_wq_set.
  - assert (E : handle_stop s i = s) by (unfold handle_stop; rewrite Ea; reflexivity).
    rewrite <- E. apply hstep_handle_stop; assumption.
Qed.

Lemma is_timer_false_of_watcher s i : is_watcher s i = true -> is_timer (hget s i) = false.
Proof.
  unfold is_watcher, kind_is, is_timer. destruct (h_kind (hget s i)); cbn; auto; discriminate.
Qed.

Lemma LInvG_watcher_stop s pend wpend i :
  is_timer (hget s i) = false -> LInvG s pend wpend -> LInvG (watcher_stop s i) pend wpend.
Proof.
  intros Hnt Hinv. unfold watcher_stop. destruct (h_active (hget s i)) eqn:Ea; [|exact Hinv].
  set (s2 := set_lq _ _).
  assert (Hc : hcore s2 = hcore s) by (subst s2; cbn; apply hcore_wq_set).
  assert (Hg : hget s2 i = hget s i).
  { unfold hget. apply hcore_eq in Hc. destruct Hc as (_ & _ & -> & _). reflexivity. }
  apply LInvG_handle_stop; [rewrite Hg; exact Hnt|].
  eapply LInvG_core; [exact Hc|exact Hinv].
Qed.

Lemma LInvG_watcher_start s pend wpend i hascb :
  is_timer (hget s i) = false -> h_closing (hget s i) = false ->
  LInvG s pend wpend -> LInvG (fst (watcher_start s i hascb)) pend wpend.
Proof.
  intros Hnt Hnc Hinv. unfold watcher_start.
  destruct (h_active (hget s i)) eqn:Ea; [exact Hinv|].
  destruct hascb; cbn [negb fst]; [|exact Hinv].
  set (s1 := wq_set _ _ _).
  assert (Hc : hcore s1 = hcore s) by (subst s1; apply hcore_wq_set).
  assert (I1 : LInvG s1 pend wpend) by (eapply LInvG_core; [exact Hc|exact Hinv]).
  assert (Hg : hget s1 i = hget s i).
  { unfold hget. apply hcore_eq in Hc. destruct Hc as (_ & _ & -> & _). reflexivity. }
  assert (I2 : LInvG (upd_h s1 i (with_hascb true)) pend wpend)
    by (apply LInvG_upd_h_inert; [apply flags_same_hascb|exact I1]).
  destruct (Nat.lt_ge_cases i (length (hs s1))) as [Hi|Hi].
  - assert (Hg2 : hget (upd_h s1 i (with_hascb true)) i = with_hascb true (hget s1 i))
      by (apply hget_upd_same; [reflexivity|exact Hi]).
    apply LInvG_handle_start; [| |exact I2]; rewrite Hg2, Hg; cbn; assumption.
  - assert (Hg2 : hget (upd_h s1 i (with_hascb true)) i = hget s1 i).
    { unfold hget, upd_h; cbn. rewrite upd_overflow by exact Hi. reflexivity. }
    apply LInvG_handle_start; [| |exact I2]; rewrite Hg2, Hg; assumption.
Qed.

Lemma LInvG_async_send s pend wpend i : LInvG s pend wpend -> LInvG (async_send s i) pend wpend.
Proof.
  intros Hinv. unfold async_send. destruct (h_pending (hget s i)); [exact Hinv|].
  eapply LInvG_core with (s := upd_h s i (with_pending true)); [reflexivity|].
  apply LInvG_upd_h_inert; [apply flags_same_pending|exact Hinv].
Qed.

(* ------------------------------------------------------------------ *)
(* work requests                                                      *)
(* ------------------------------------------------------------------ *)
Lemma LInvG_work_submit s pend wpend a : LInvG s pend wpend -> LInvG (work_submit s a) pend wpend.
Proof.
  intros [HI [W1 W2 W3]]. unfold work_submit.
  set (s3 := set_wq _ _).
  assert (I3 : LInvG s3 pend wpend).
  { split.
    - eapply HInv_fields; [| | | | |exact HI]; reflexivity.
    - subst s3. constructor; cbn.
      + rewrite countZ_app, W1. rewrite countZ_cons, countZ_nil. cbn. lia.
      + rewrite <- app_assoc. simpl.
        assert (Hn : ~ In (length (works s)) (wq s ++ wpend)).
        { intros Hin. apply W3 in Hin. lia. }
        clear - W2 Hn. revert W2 Hn. generalize (length (works s)) as n.
        induction (wq s) as [|x l IH]; simpl; intros n W2 Hn.
        * constructor; assumption.
        * inversion W2; subst. constructor.
          -- intros Hin. apply in_app_or in Hin. destruct Hin as [Hin|[<-|Hin]].
             ++ apply H1. apply in_or_app; left; exact Hin.
             ++ apply Hn; left; reflexivity.
             ++ apply H1. apply in_or_app; right; exact Hin.
          -- apply IH; [assumption|]. intros Hin. apply Hn; right; exact Hin.
      + intros w. rewrite app_length; simpl length.
        rewrite <- app_assoc. simpl.
        assert (Hiff : In w (wq s ++ length (works s) :: wpend) <->
                       In w (wq s ++ wpend) \/ w = length (works s)).
        { rewrite !in_app_iff. simpl. intuition. }
        rewrite Hiff, W3. destruct (Nat.lt_ge_cases w (length (works s))) as [L|G].
        * rewrite app_nth1 by exact L. split; [intros [H|H]; [|lia]|intros H; left]; intuition lia.
        * destruct (Nat.eq_dec w (length (works s))) as [->|Hne].
          -- rewrite nth_app_last. cbn. split; [intros _; split; [lia|reflexivity]|auto].
          -- split; [intros [H|H]; lia|intros (H & _); lia]. }
  destruct (wq_pending s3); [exact I3|].
  eapply LInvG_core; [|exact I3]. reflexivity.
Qed.

(* ------------------------------------------------------------------ *)
(* timers                                                             *)
(* ------------------------------------------------------------------ *)
Definition tframe (t t' : tstate) (i : nat) : Prop :=
  now t' = now t /\ length (tms t') = length (tms t) /\
  (forall j, In j (ready t') -> In j (ready t)) /\
  (forall j, j <> i -> get t' j = get t j).

Definition tclose_ok (t t' : tstate) (i : nat) : Prop :=
  t_closing (get t' i) = t_closing (get t i) /\
  ((t_closing (get t i) = true -> t_active (get t i) = false) ->
   (t_closing (get t' i) = true -> t_active (get t' i) = false)).

Lemma tframe_refl t i : tframe t t i.
Proof. repeat split; auto. Qed.

Lemma tframe_trans a b c i : tframe a b i -> tframe b c i -> tframe a c i.
Proof.
  intros (A1 & A2 & A3 & A4) (B1 & B2 & B3 & B4). repeat split; try congruence.
  - intros j Hj. apply A3, B3, Hj.
  - intros j Hj. rewrite B4, A4 by exact Hj. reflexivity.
Qed.

Lemma tclose_refl t i : tclose_ok t t i.
Proof. split; auto. Qed.

Lemma tclose_trans a b c i : tclose_ok a b i -> tclose_ok b c i -> tclose_ok a c i.
Proof. intros (A1 & A2) (B1 & B2). split; [congruence|auto]. Qed.

Lemma tframe_stop t i : TI t -> (i < length (tms t))%nat ->
  tframe t (timer_stop t i) i /\ tclose_ok t (timer_stop t i) i /\
  t_active (get (timer_stop t i) i) = false.
Proof.
  intros T Hi.
  destruct (timer_stop_effect t i T Hi) as (Ea & Hnr & Hnow & Hctr & Hlen & Hrd & Hfld & Hoth).
  split; [repeat split; auto|]. split; [|exact Ea].
  split; [apply Hfld|]. intros _ _. exact Ea.
Qed.

Lemma tframe_start t i cb to r : TI t -> (i < length (tms t))%nat ->
  tframe t (fst (timer_start t i cb to r)) i /\ tclose_ok t (fst (timer_start t i cb to r)) i.
Proof.
  intros T Hi.
  destruct (timer_start_frame t i cb to r T Hi) as (A & B & C & D).
  split; [repeat split; auto|].
  unfold timer_start. destruct cb as [c|]; [|apply tclose_refl].
  destruct (t_closing (get t i)) eqn:Ec; [cbn [fst]; apply tclose_refl|].
  cbn [fst].
  destruct (timer_stop_effect t i T Hi) as (Ea & Hnr & Hnow & Hctr & Hlen & Hrd & Hfld & Hoth).
  assert (Hc : t_closing (get (timer_stop t i) i) = false) by (destruct (Hfld i) as (_&_&_&_&->&_); exact Ec).
  split.
  - rewrite get_set_same by (cbn [tms]; lia). cbn [t_closing]. unfold get in *; cbn [tms]. congruence.
  - intros _. rewrite get_set_same by (cbn [tms]; lia). cbn [t_closing]. unfold get in *; cbn [tms].
    congruence.
Qed.

Lemma tframe_again t i : TI t -> (i < length (tms t))%nat ->
  tframe t (fst (timer_again t i)) i /\ tclose_ok t (fst (timer_again t i)) i.
Proof.
  intros T Hi. unfold timer_again.
  destruct (t_cb (get t i)) as [c|]; [|split; [apply tframe_refl|apply tclose_refl]].
  destruct (t_repeat (get t i) =? 0); [split; [apply tframe_refl|apply tclose_refl]|].
  cbn [fst]. destruct (tframe_stop t i T Hi) as (F1 & C1 & _).
  pose proof (TI_timer_stop t i T Hi) as T1.
  assert (Hi1 : (i < length (tms (timer_stop t i)))%nat) by (destruct F1 as (_ & -> & _); exact Hi).
  destruct (tframe_start (timer_stop t i) i (Some c) (t_repeat (get t i)) (t_repeat (get t i)) T1 Hi1)
    as (F2 & C2).
  split; [eapply tframe_trans; eauto|eapply tclose_trans; eauto].
Qed.

Lemma tframe_close t i : TI t -> (i < length (tms t))%nat ->
  tframe t (timer_close t i) i /\
  t_closing (get (timer_close t i) i) = true /\ t_active (get (timer_close t i) i) = false.
Proof.
  intros T Hi. destruct (tframe_stop t i T Hi) as ((A1 & A2 & A3 & A4) & C1 & Ea).
  unfold timer_close. split; [|split].
  - unfold tframe. rewrite now_set, len_set, ready_set. repeat split; auto.
    intros j Hj. rewrite get_set_other by congruence. apply A4; exact Hj.
  - rewrite get_set_same by lia. reflexivity.
  - rewrite get_set_same by lia. cbn [t_active]. exact Ea.
Qed.

Lemma tframe_set_repeat t i r : (i < length (tms t))%nat ->
  tframe t (timer_set_repeat t i r) i /\
  t_closing (get (timer_set_repeat t i r) i) = t_closing (get t i) /\
  t_active (get (timer_set_repeat t i r) i) = t_active (get t i).
Proof.
  intros Hi. unfold timer_set_repeat. split; [|split].
  - unfold tframe. rewrite now_set, len_set, ready_set. repeat split; auto.
    intros j Hj. rewrite get_set_other by congruence. reflexivity.
  - rewrite get_set_same by lia. reflexivity.
  - rewrite get_set_same by lia. reflexivity.
Qed.

Lemma hstep_sync_timer_active s0 s i f T K C :
  (i < length (hs s0))%nat -> hstepG s0 s i f T K C ->
  hstepG s0 (sync_timer_active s i) i (fun h => with_active (t_active (get T i)) (f h)) T K C.
Proof.
  intros Hi Hst. unfold sync_timer_active.
  assert (E : ts s = T) by (destruct Hst as (_ & _ & E & _); exact E). rewrite E.
  destruct (t_active (get T i)).
  - apply hstep_handle_start; assumption.
  - apply hstep_handle_stop; assumption.
Qed.

(* the general shape of a timer call: the timer part moves from [ts s0] to
   [T], handle [i] ends up active exactly when its timer is *)
Lemma LInvG_timer_sync s0 s pend wpend i F T :
  LInvG s0 pend wpend -> (i < length (hs s0))%nat ->
  hstepG s0 s i F T (clock s0) (closing s0) ->
  TI T -> tframe (ts s0) T i -> tclose_ok (ts s0) T i ->
  (t_active (get T i) = true -> is_timer (hget s0 i) = true) ->
  h_kind (F (hget s0 i)) = h_kind (hget s0 i) ->
  h_active (F (hget s0 i)) = t_active (get T i) ->
  h_closing (F (hget s0 i)) = h_closing (hget s0 i) ->
  h_closed (F (hget s0 i)) = h_closed (hget s0 i) ->
  LInvG s pend wpend.
Proof.
  intros Hinv Hi Hst HT (F1 & F2 & F3 & F4) (C1 & C2) Hta Hk Ha Hcg Hcd.
  pose proof Hinv as [HI _].
  pose proof Hst as (A1 & A2 & A3 & A4 & A5 & A6 & A7 & A8).
  destruct (hi_sync _ _ HI i Hi) as (S1 & S2 & S3).
  destruct (hi_hok _ _ HI i Hi) as (K1 & K2).
  specialize (C2 S3).
  assert (Hcl_inact : h_closing (hget s0 i) = true -> t_active (get T i) = false).
  { intros Hc. destruct (t_active (get T i)) eqn:Eb; [|reflexivity].
    specialize (Hta eq_refl). specialize (S2 Hta Hc). rewrite <- C1 in S2.
    specialize (C2 S2). congruence. }
  eapply LInvG_hstep with (i := i) (f := F); eauto; rewrite ?A3, ?A4; auto.
  - rewrite F1. apply (hi_clock _ _ HI).
  - unfold tsync1, is_timer in *. rewrite Hk, Ha, Hcg. split; [|split].
    + destruct (t_active (get T i)) eqn:Eb; [|rewrite andb_false_r; reflexivity].
      rewrite (Hta eq_refl). reflexivity.
    + intros Ht Hc. rewrite C1. apply S2; assumption.
    + exact C2.
  - unfold hok. rewrite Ha, Hcg, Hcd. split; [exact Hcl_inact|exact K2].
Qed.

Lemma LInvG_l_timer_stop s pend wpend i :
  (i < length (hs s))%nat -> LInvG s pend wpend -> LInvG (l_timer_stop s i) pend wpend.
Proof.
  intros Hi Hinv. pose proof Hinv as [HI _].
  assert (Hit : (i < length (tms (ts s)))%nat) by (rewrite (hi_len _ _ HI); exact Hi).
  destruct (tframe_stop (ts s) i (hi_ti _ _ HI) Hit) as (F1 & C1 & Ea).
  unfold l_timer_stop.
  eapply LInvG_timer_sync with (i := i) (T := timer_stop (ts s) i); eauto.
  - apply hstep_sync_timer_active; [exact Hi|]. apply hstep_set_ts with (T := ts s). apply hstep_refl.
  - apply TI_timer_stop; [apply (hi_ti _ _ HI)|exact Hit].
  - rewrite Ea. discriminate.
Qed.

Lemma LInvG_l_timer_start s pend wpend i cb t r :
  (i < length (hs s))%nat -> is_timer (hget s i) = true ->
  LInvG s pend wpend -> LInvG (fst (l_timer_start s i cb t r)) pend wpend.
Proof.
  intros Hi Htm Hinv. pose proof Hinv as [HI _].
  assert (Hit : (i < length (tms (ts s)))%nat) by (rewrite (hi_len _ _ HI); exact Hi).
  destruct (tframe_start (ts s) i cb t r (hi_ti _ _ HI) Hit) as (F1 & C1).
  pose proof (TI_timer_start (ts s) i cb t r (hi_ti _ _ HI) Hit) as T1.
  unfold l_timer_start. destruct (timer_start (ts s) i cb t r) as [ts' c] eqn:E.
  cbn [fst] in *.
  destruct (c =? 0).
  - eapply LInvG_timer_sync with (i := i) (T := ts'); eauto.
    + apply hstep_sync_timer_active; [exact Hi|]. apply hstep_set_ts with (T := ts s).
      apply hstep_handle_stop; [exact Hi|apply hstep_refl].
    + reflexivity.
    + reflexivity.
  - eapply LInvG_timer_sync with (i := i) (T := ts'); eauto.
    + apply hstep_sync_timer_active; [exact Hi|]. apply hstep_set_ts with (T := ts s).
      apply hstep_refl.
    + reflexivity.
Qed.

Lemma LInvG_l_timer_again s pend wpend i :
  (i < length (hs s))%nat -> is_timer (hget s i) = true ->
  LInvG s pend wpend -> LInvG (fst (l_timer_again s i)) pend wpend.
Proof.
  intros Hi Htm Hinv. pose proof Hinv as [HI _].
  assert (Hit : (i < length (tms (ts s)))%nat) by (rewrite (hi_len _ _ HI); exact Hi).
  destruct (tframe_again (ts s) i (hi_ti _ _ HI) Hit) as (F1 & C1).
  pose proof (TI_timer_again (ts s) i (hi_ti _ _ HI) Hit) as T1.
  unfold l_timer_again. destruct (timer_again (ts s) i) as [ts' c] eqn:E.
  cbn [fst] in *.
  destruct ((c =? 0) && negb (t_repeat (get (ts s) i) =? 0)).
  - eapply LInvG_timer_sync with (i := i) (T := ts'); eauto.
    + apply hstep_sync_timer_active; [exact Hi|]. apply hstep_set_ts with (T := ts s).
      apply hstep_handle_stop; [exact Hi|apply hstep_refl].
    + reflexivity.
    + reflexivity.
  - eapply LInvG_timer_sync with (i := i) (T := ts'); eauto.
    + apply hstep_sync_timer_active; [exact Hi|]. apply hstep_set_ts with (T := ts s).
      apply hstep_refl.
    + reflexivity.
Qed.

Lemma LInvG_set_repeat s pend wpend i r :
  (i < length (hs s))%nat ->
  LInvG s pend wpend -> LInvG (set_ts s (timer_set_repeat (ts s) i r)) pend wpend.
Proof.
  intros Hi Hinv. pose proof Hinv as [HI _].
  assert (Hit : (i < length (tms (ts s)))%nat) by (rewrite (hi_len _ _ HI); exact Hi).
  destruct (tframe_set_repeat (ts s) i r Hit) as ((F1 & F2 & F3 & F4) & Ec & Ea).
  destruct (hi_sync _ _ HI i Hi) as (S1 & S2 & S3).
  eapply LInvG_hstep with (i := i) (f := fun h => h); eauto.
  - apply hstep_set_ts with (T := ts s). apply hstep_refl.
  - cbn [ts clock set_ts]. rewrite F1. apply (hi_clock _ _ HI).
  - cbn [ts set_ts]. apply TI_set_repeat; [apply (hi_ti _ _ HI)|exact Hit].
  - cbn [ts set_ts]. unfold tsync1. rewrite Ec, Ea. auto.
  - apply (hi_hok _ _ HI i Hi).
Qed.
