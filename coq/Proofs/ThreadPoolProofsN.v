(* C08: every request id below nreq has been submitted: its state is never RFree again. *)
From UV Require Import Lib.Base Model.ThreadPool Proofs.ThreadPoolDefs Proofs.ThreadPoolProofsB
  Proofs.ThreadPoolProofsC.

Definition keepsN (s s' : state) : Prop :=
  nreq s' = nreq s /\ forall r, r_st (reqs s r) <> RFree -> r_st (reqs s' r) <> RFree.

Lemma kN_refl s : keepsN s s.
Proof. split; auto. Qed.
Lemma kN_trans a b c : keepsN a b -> keepsN b c -> keepsN a c.
Proof. intros [A1 A2] [B1 B2]. split; [congruence | auto]. Qed.
Lemma kN_same s s' : nreq s' = nreq s -> reqs s' = reqs s -> keepsN s s'.
Proof. intros E1 E2. split; [exact E1 | rewrite E2; auto]. Qed.
Lemma kN_set_rst s r st : st <> RFree -> keepsN s (set_rst s r st).
Proof.
  intros H. split; [reflexivity|]. intros r0. cbn. unfold updf.
  destruct (Nat.eqb_spec r0 r); subst; cbn; auto.
Qed.
Lemma kN_set_rwork s r wf : keepsN s (set_rwork s r wf).
Proof.
  split; [reflexivity|]. intros r0. cbn. unfold updf.
  destruct (Nat.eqb_spec r0 r); subst; cbn; auto.
Qed.

Lemma kN_pt s s' :
  nreq s' = nreq s ->
  (forall r, reqs s' r = reqs s r \/ r_st (reqs s' r) <> RFree) -> keepsN s s'.
Proof.
  intros E H. split; [exact E|]. intros r K. destruct (H r) as [-> | K']; assumption.
Qed.

(* a state obtained from s by setters, where every request update sets a non-free state *)
Ltac kpt :=
  apply kN_pt; [reflexivity |
    let r0 := fresh "r0" in
    intros r0; cbn; unfold updf;
    repeat match goal with |- context [Nat.eqb r0 ?r] => destruct (Nat.eqb r0 r) end;
    cbn; first [left; reflexivity | right; discriminate]].

Lemma kN_settle l s : keepsN s (settle l s).
Proof. rewrite settle_eq. kpt. Qed.

Lemma kN_deliver c l : forall loc s, keepsN s (deliver c l loc s).
Proof.
  induction loc as [|r rest IH]; intros s; cbn [deliver].
  - eapply kN_trans; [| apply kN_settle]. kpt.
  - destruct (c_beh c r).
    + eapply kN_trans; [| apply IH]. kpt.
    + kpt.
Qed.

Lemma kN_advance c l s : keepsN s (advance c l s).
Proof.
  unfold advance. destruct (l_cb (pop_op (lp s l))).
  - destruct (l_in_done (pop_op (lp s l))).
    + eapply kN_trans; [| apply kN_deliver]. kpt.
    + eapply kN_trans; [| apply kN_settle]. kpt.
  - kpt.
Qed.

Lemma kN_signal_if_idle c t aux s : keepsN s (signal_if_idle c t aux s).
Proof.
  destruct (signal_if_idle_rel c t aux s) as (_ & _ & _ & _ & E5 & E6 & _). apply kN_same; assumption.
Qed.
Lemma kN_signal c t aux s : keepsN s (signal c t aux s).
Proof. destruct (signal_frame c t aux s) as (_ & _ & E3 & E4). apply kN_same; assumption. Qed.

Lemma kN_start_work t w r b s : keepsN s (start_work t w r b s).
Proof. unfold start_work. kpt. Qed.

Lemma kN_wloop fuel : forall c t w aux s, keepsN s (wloop fuel c t w aux s).
Proof.
  induction fuel as [|fuel IH]; intros c t w aux s; cbn [wloop].
  - destruct (wait_pred c s); kpt.
  - destruct (wait_pred c s); [kpt|].
    destruct (wq s) as [|[r| |] rest]; [apply kN_refl | | |].
    + eapply kN_trans; [| apply kN_start_work]. kpt.
    + destruct (threshold (c_n c) <=? running s).
      * eapply kN_trans; [| apply IH]. kpt.
      * destruct (sp s) as [|r sp'].
        -- eapply kN_trans; [| apply IH]. kpt.
        -- eapply kN_trans; [| apply kN_start_work].
           destruct sp'; [kpt|].
           eapply kN_trans; [| apply kN_signal_if_idle]. kpt.
    + match goal with |- keepsN s (set_worker (sync_ev ?y _ _) _ _) =>
        apply (kN_trans s y); [apply kN_signal | kpt] end.
Qed.

Lemma kN_wstep c t w aux s s' : wstep c t w aux s = Some s' -> keepsN s s'.
Proof.
  unfold wstep. destruct (wk s w) as [slow | sg | r slow |].
  - destruct (is_free (gmutex s)); [|discriminate]. intros E; apply some_eq in E; subst s'.
    eapply kN_trans; [| apply kN_wloop]. destruct slow; kpt.
  - destruct ((sg || (aux =? 1)) && is_free (gmutex s)); [|discriminate].
    intros E; apply some_eq in E; subst s'.
    eapply kN_trans; [| apply kN_wloop]. kpt.
  - intros E; apply some_eq in E; subst s'. unfold complete. kpt.
  - discriminate.
Qed.

Definition allsub (s : state) : Prop := forall r, r < nreq s -> r_st (reqs s r) <> RFree.

Lemma allsub_keeps s s' : allsub s -> keepsN s s' -> allsub s'.
Proof. intros H [E1 E2] r Hr. apply E2. apply H. lia. Qed.

Lemma allsub_lstep c s l aux s' : allsub s -> lstep c l aux s = Some s' -> allsub s'.
Proof.
  intros H. unfold lstep.
  destruct (l_pc (lp s l)) as [| r | r | | |] eqn:Epc.
  - destruct (cur_op (lp s l)) as [[k | r | |]|]; [| | | |discriminate].
    4: { intros E; apply some_eq in E; subst s'. eapply allsub_keeps; [exact H|].
         eapply kN_trans; [| apply kN_advance]. kpt. }
    + destruct (is_free (gmutex s)); [|discriminate].
      intros E; apply some_eq in E; subst s'.
      eapply allsub_keeps; [| apply kN_advance].
      match goal with |- allsub (post c l aux ?r ?k ?y) =>
        destruct (post_frame c l aux r k y) as (_ & F2 & F3 & _) end.
      intros r Hr. rewrite F2 in Hr. rewrite F3. cbn in *. unfold updf.
      destruct (Nat.eqb_spec r (nreq s)); [cbn; discriminate | apply H; lia].
    + destruct (valid_cancel s l r).
      * destruct (is_free (gmutex s)); [|discriminate].
        intros E; apply some_eq in E; subst s'. eapply allsub_keeps; [exact H | kpt].
      * intros E; apply some_eq in E; subst s'. eapply allsub_keeps; [exact H|].
        eapply kN_trans; [| apply kN_advance]. kpt.
    + destruct (l_cb (lp s l)).
      * destruct ((l_active (lp s l) =? 0) || l_stop (lp s l)); [| destruct (l_pending (lp s l))];
          intros E; apply some_eq in E; subst s'; (eapply allsub_keeps; [exact H|]).
        -- eapply kN_trans; [| apply kN_advance]. kpt.
        -- kpt.
        -- eapply kN_trans; [| apply kN_advance]. kpt.
      * intros E; apply some_eq in E; subst s'. eapply allsub_keeps; [exact H|].
        eapply kN_trans; [| apply kN_advance]. kpt.
  - match goal with |- context [if ?b then _ else _] => destruct b eqn:Ec end;
      intros E; apply some_eq in E; subst s'; (eapply allsub_keeps; [exact H|]).
    + kpt.
    + eapply kN_trans; [| apply kN_advance]. kpt.
  - intros E; apply some_eq in E; subst s'. eapply allsub_keeps; [exact H|].
    eapply kN_trans; [| apply kN_advance]. kpt.
  - intros E; apply some_eq in E; subst s'. eapply allsub_keeps; [exact H|].
    eapply kN_trans; [| apply kN_deliver]. kpt.
  - destruct (l_pending (lp s l)); [|discriminate].
    intros E; apply some_eq in E; subst s'. eapply allsub_keeps; [exact H | kpt].
  - discriminate.
Qed.

Theorem allsub_reachable : forall c progs s, reachable c progs s -> allsub s.
Proof.
  intros c progs. apply reachable_ind.
  - intros r Hr. cbn in Hr. lia.
  - intros s t aux s' _ H. unfold step. destruct (t <? c_loops c).
    + apply allsub_lstep. exact H.
    + destruct (t - c_loops c <? c_n c); [|discriminate].
      intros E. eapply allsub_keeps; [exact H | eapply kN_wstep; exact E].
Qed.


(* ---- the fuel of wloop is never exhausted: with the marker occurring at most once and no
        exit message, two iterations of the for(;;) loop of worker() always reach a decision ---- *)
Lemma wloop_head_decides c t w aux s f1 f2 :
  (wait_pred c s = true \/ exists r rest, wq s = IWork r :: rest) ->
  wloop (S f1) c t w aux s = wloop (S f2) c t w aux s.
Proof.
  intros H. cbn [wloop]. destruct (wait_pred c s) eqn:E; [reflexivity|].
  destruct H as [H | (r & rest & H)]; [discriminate|]. rewrite H. reflexivity.
Qed.

Lemma wloop_marker_step f c t w aux s rest :
  wait_pred c s = false -> wq s = ISlowMsg :: rest ->
  wloop (S f) c t w aux s =
  if Nat.leb (threshold (c_n c)) (running s) then wloop f c t w aux (set_wq s (rest ++ [ISlowMsg]))
  else match sp s with
       | [] => wloop f c t w aux (set_wq s rest)
       | _ :: _ => wloop 1 c t w aux s
       end.
Proof.
  intros Ew Eq. cbn [wloop]. rewrite Ew, Eq.
  destruct (threshold (c_n c) <=? running s); [reflexivity|].
  destruct (sp s); reflexivity.
Qed.

Lemma wloop_fuel_enough c t w aux s k :
  InvB c s -> wloop (2 + k) c t w aux s = wloop 2 c t w aux s.
Proof.
  intros HB. change (2 + k) with (S (S k)).
  destruct (wait_pred c s) eqn:Ew.
  { apply wloop_head_decides. left. exact Ew. }
  destruct (wq s) as [|[r| |] rest] eqn:Eq.
  - apply wloop_head_decides. unfold wait_pred in Ew. rewrite Eq in Ew. discriminate.
  - apply wloop_head_decides. right. eauto.
  - pose proof (b_marker c s HB) as Hm. rewrite Eq in Hm. apply marker_head_rest in Hm.
    assert (~ In IExit rest) as Hx.
    { intros K. apply (b_noexit c s HB). rewrite Eq. right. exact K. }
    assert (rest = [] \/ exists r0 rest', rest = IWork r0 :: rest') as Hrest.
    { destruct rest as [|[r0| |] rest']; [left; reflexivity | right; eauto | cbn in Hm; discriminate |].
      exfalso. apply Hx. left. reflexivity. }
    rewrite (wloop_marker_step (S k) c t w aux s rest Ew Eq).
    rewrite (wloop_marker_step 1 c t w aux s rest Ew Eq).
    destruct (threshold (c_n c) <=? running s) eqn:Eth.
    + apply wloop_head_decides. destruct Hrest as [-> | (r0 & rest' & ->)].
      * left. unfold wait_pred. cbn. exact Eth.
      * right. cbn. eauto.
    + destruct (sp s) as [|r sp'] eqn:Esp; [|reflexivity].
      apply wloop_head_decides. destruct Hrest as [-> | (r0 & rest' & ->)].
      * left. unfold wait_pred. cbn. reflexivity.
      * right. cbn. eauto.
  - exfalso. apply (b_noexit c s HB). rewrite Eq. left. reflexivity.
Qed.

Print Assumptions allsub_reachable.
Print Assumptions wloop_fuel_enough.
