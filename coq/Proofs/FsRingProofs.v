(* Proofs about Model/Fs.v (C11), part E: room in the 64-entry submission ring. *)
From UV Require Import Lib.Base Model.Fs.
Local Open Scope Z_scope.

Definition SQMASK : Z := 63.     (* uv__iou_init(loop->backend_fd, iou, 64, UV__IORING_SETUP_SQPOLL) *)

Lemma land63 x : Z.land x 63 = x mod 64.
Proof. change 63 with (Z.ones 6). rewrite Z.land_ones by lia. reflexivity. Qed.

Definition sq_inv (r : sqring) : Prop :=
  0 <= sq_head r < two32 /\ 0 <= sq_tail r < two32 /\ sq_outstanding r <= SQMASK.

(* the unconsumed entries occupy the slots (head + i) mod 64, i < outstanding *)
Definition occupied (r : sqring) (slot : Z) : Prop :=
  exists i, 0 <= i < sq_outstanding r /\ slot = (sq_head r + i) mod 64.

(* A granted slot never holds an entry the kernel has not consumed yet, and
   at most 63 entries are ever outstanding (the code keeps one slot free). *)
Theorem sq_grant_safe :
  forall r slot r', sq_inv r -> sq_submit SQMASK r = (Some slot, r') ->
  ~ occupied r slot /\ sq_inv r' /\ sq_outstanding r' = sq_outstanding r + 1 /\
  slot = sq_tail r mod 64 /\ sq_head r' = sq_head r.
Proof.
  intros [h t] slot r' (Hh & Ht & Ho) H. unfold sq_submit, sq_full, SQMASK in *.
  cbn [sq_head sq_tail] in *. rewrite !land63 in H.
  unfold sq_outstanding, wrap32, two32 in *. cbn [sq_head sq_tail] in *.
  destruct (h mod 64 =? (t + 1) mod 4294967296 mod 64) eqn:E; [discriminate|].
  apply Z.eqb_neq in E. inversion H; subst; clear H.
  cbn [sq_head sq_tail]. unfold sq_inv, sq_outstanding, wrap32, two32, SQMASK. cbn [sq_head sq_tail].
  repeat split; try lia.
  intros (i & Hi & Hs). unfold sq_outstanding, wrap32, two32 in Hi. cbn [sq_head sq_tail] in *. lia.
Qed.

(* refusal happens exactly when 63 entries are outstanding *)
Theorem sq_refusal :
  forall r, sq_inv r ->
  (fst (sq_submit SQMASK r) = None <-> sq_outstanding r = SQMASK).
Proof.
  intros [h t] (Hh & Ht & Ho). unfold sq_submit, sq_full, SQMASK in *.
  cbn [sq_head sq_tail] in *. rewrite !land63.
  unfold sq_outstanding, wrap32, two32 in *. cbn [sq_head sq_tail] in *.
  destruct (h mod 64 =? (t + 1) mod 4294967296 mod 64) eqn:E; cbn [fst].
  - apply Z.eqb_eq in E. split; [intros _; lia | reflexivity].
  - apply Z.eqb_neq in E. split; [discriminate | intros; lia].
Qed.

Lemma sq_consume_inv n r : 0 <= n -> sq_inv r -> sq_inv (sq_consume n r).
Proof.
  destruct r as [h t]. intros Hn (Hh & Ht & Ho).
  unfold sq_consume, sq_inv, sq_outstanding, wrap32, two32, SQMASK in *. cbn [sq_head sq_tail] in *.
  destruct (n <? (t - h) mod 4294967296) eqn:E; cbn [sq_head sq_tail];
    [apply Z.ltb_lt in E | apply Z.ltb_ge in E]; repeat split; try lia.
Qed.

(* whatever the interleaving of submissions and kernel progress *)
Theorem sq_run_inv :
  forall ops r, Forall (fun o => match o with SqConsume n => 0 <= n | SqSubmit => True end) ops ->
  sq_inv r -> sq_inv (snd (sq_run SQMASK ops r)).
Proof.
  induction ops as [|o ops IH]; intros r Hf Hi; [exact Hi|].
  inversion Hf; subst. destruct o as [|n]; cbn [sq_run].
  - destruct (sq_submit SQMASK r) as [g r1] eqn:E.
    assert (Hi1 : sq_inv r1).
    { destruct g as [slot|].
      - exact (proj1 (proj2 (sq_grant_safe r slot r1 Hi E))).
      - unfold sq_submit in E. destruct (sq_full SQMASK r); inversion E; subst; exact Hi. }
    specialize (IH r1 H2 Hi1). destruct (sq_run SQMASK ops r1). exact IH.
  - apply IH; auto. now apply sq_consume_inv.
Qed.
