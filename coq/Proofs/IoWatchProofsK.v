(* C14: the kernel's interest set is in sync with libuv's registry whenever
   epoll_pwait is called (invariant KI), under the strict usage discipline:
   one live handle per descriptor number, a descriptor is closed only after
   the handles on it.  Counter-examples without the discipline are at the end. *)
From UV Require Import Lib.Base Model.IoWatch Proofs.IoWatchProofs.
Local Open Scope Z_scope.

Definition livei (s : state) (i : nat) : Prop :=
  (i < length (hs s))%nat /\ h_closed (hget s i) = false.

Definition synced (s : state) (fd : Z) (i : nat) : Prop :=
  h_ev (hget s i) = h_pev (hget s i) /\
  exists o, fdt s fd = Some o /\ ep s fd o = Some (h_pev (hget s i)).

Record KI (s : state) : Prop := mkKI {
  k_strict : strict s = true;
  k_abort : aborted s = false;
  k_sq : sq s = [];
  k_pev : forall i, mand (h_pev (hget s i)) ERRHUP = m0;
  k_reg : forall fd i, reg s fd = Some i ->
            livei s i /\ h_fd (hget s i) = fd /\ mzero (h_pev (hget s i)) = false;
  k_sync : forall fd i, reg s fd = Some i -> In i (wq s) \/ synced s fd i;
  k_wqnd : NoDup (wq s);
  k_wq : forall i, In i (wq s) -> reg s (h_fd (hget s i)) = Some i;
  k_ev : forall fd i, reg s fd = Some i -> mzero (h_ev (hget s i)) = false ->
            exists o, fdt s fd = Some o /\ ep s fd o <> None;
  k_unreg : forall i, reg s (h_fd (hget s i)) <> Some i ->
            h_pev (hget s i) = m0 /\ h_ev (hget s i) = m0;
  k_uniq : forall i j, livei s i -> livei s j -> h_fd (hget s i) = h_fd (hget s j) -> i = j;
  k_open : forall i, livei s i -> fdt s (h_fd (hget s i)) <> None;
  k_ep : forall fd o m, ep s fd o = Some m ->
            fdt s fd = Some o /\ exists i, livei s i /\ h_fd (hget s i) = fd;
  k_pairs : forall fd o, fdt s fd = Some o -> In (fd, o) (pairs s)
}.

(* what must hold when epoll_pwait is called *)
Definition SYNC (s : state) : Prop :=
  (forall fd i, reg s fd = Some i ->
     exists o, fdt s fd = Some o /\ ep s fd o = Some (h_pev (hget s i))) /\
  (forall fd o m, ep s fd o = Some m ->
     fdt s fd = Some o /\ exists i, livei s i /\ h_fd (hget s i) = fd).

Definition kview (h : handle) := (h_fd h, h_pev h, h_ev h, h_closed h).

Lemma KI_ext s s' :
  length (hs s') = length (hs s) -> (forall i, kview (hget s' i) = kview (hget s i)) ->
  reg s' = reg s -> wq s' = wq s -> fdt s' = fdt s -> ep s' = ep s -> pairs s' = pairs s ->
  sq s' = sq s -> strict s' = strict s -> aborted s' = aborted s -> KI s -> KI s'.
Proof.
  intros Hl Hv Hr Hw Hf He Hp Hq Hs Ha K.
  assert (Vf : forall i, h_fd (hget s' i) = h_fd (hget s i)) by (intro i; pose proof (Hv i) as X; unfold kview in X; congruence).
  assert (Vp : forall i, h_pev (hget s' i) = h_pev (hget s i)) by (intro i; pose proof (Hv i) as X; unfold kview in X; congruence).
  assert (Ve : forall i, h_ev (hget s' i) = h_ev (hget s i)) by (intro i; pose proof (Hv i) as X; unfold kview in X; congruence).
  assert (Vc : forall i, h_closed (hget s' i) = h_closed (hget s i)) by (intro i; pose proof (Hv i) as X; unfold kview in X; congruence).
  assert (Vl : forall i, livei s' i <-> livei s i) by (intro i; unfold livei; rewrite Hl, Vc; tauto).
  destruct K. constructor; try congruence.
  - intros fd i H. rewrite Hr in H. rewrite Vl, Vf, Vp. auto.
  - intros fd i H. rewrite Hr in H. rewrite Hw. unfold synced. rewrite Ve, Vp, Hf, He. apply k_sync0; auto.
  - intros i H. rewrite Hw in H. rewrite Hr, Vf. auto.
  - intros fd i H H2. rewrite Hr in H. rewrite Ve in H2. rewrite Hf, He. eauto.
  - intros i H. rewrite Hr, Vf in H. rewrite Vp, Ve. auto.
  - intros i j Hi Hj. rewrite !Vl in *. rewrite !Vf. auto.
  - intros i Hi. rewrite Vl in Hi. rewrite Hf, Vf. auto.
  - intros fd o m H. rewrite He in H. rewrite Hf. destruct (k_ep0 _ _ _ H) as [X [i [Y Z]]]. split; auto.
    exists i. rewrite Vl, Vf. auto.
  - intros fd o H. rewrite Hf in H. rewrite Hp. auto.
Qed.

Lemma KI_same s s' :
  hs s' = hs s -> reg s' = reg s -> wq s' = wq s -> fdt s' = fdt s -> ep s' = ep s -> pairs s' = pairs s ->
  sq s' = sq s -> strict s' = strict s -> aborted s' = aborted s -> KI s -> KI s'.
Proof.
  intros Hh. intros. eapply KI_ext; eauto.
  - rewrite Hh; auto.
  - intro i. unfold hget. rewrite Hh. auto.
Qed.

Lemma KI_init r : KI (sinit r true).
Proof.
  constructor; cbn; auto; intros; try discriminate; try contradiction.
  - unfold hget; cbn. destruct i; reflexivity.
  - constructor.
  - unfold hget; cbn. destruct i; auto.
  - destruct H as [H _]. cbn in H. lia.
  - destruct H as [H _]. cbn in H. lia.
Qed.

Lemma KI_SYNC s : KI s -> wq s = [] -> SYNC s.
Proof.
  intros K Hw. split.
  - intros fd i H. destruct (k_sync s K _ _ H) as [Hin|[_ Hs]]; auto. rewrite Hw in Hin. contradiction.
  - apply (k_ep s K).
Qed.
