(* C14: the kernel's interest set is in sync with libuv's registry whenever
   epoll_pwait is called (invariant KI), for every script the guards of the script
   language accept (the documented rules of uv_poll: a descriptor is not closed while
   an active poll handle - or a stream-like watcher that has not been closed - uses
   it; a handle is started only on an open descriptor; stream-like watchers own
   their descriptor number exclusively). *)
From UV Require Import Lib.Base Model.IoWatch Proofs.IoWatchProofs Proofs.IoWatchProofsN.
Local Open Scope Z_scope.

Definition livei (s : state) (i : nat) : Prop :=
  (i < length (hs s))%nat /\ h_closed (hget s i) = false.
Definition rawi (s : state) (i : nat) : Prop := h_kind (hget s i) = KRaw.

Definition synced (s : state) (fd : Z) (i : nat) : Prop :=
  h_ev (hget s i) = h_pev (hget s i) /\
  exists o, fdt s fd = Some o /\ ep s fd o = Some (h_pev (hget s i)).

(* who accounts for a kernel registration under descriptor number fd: the watcher
   registered there, or a stream-like watcher that stopped all events (it keeps its
   descriptor until it is closed), or - transiently, between uv__io_stop and the
   invalidation in uv__poll_stop - the number [xf] *)
Definition just (xf : option Z) (s : state) (fd : Z) : Prop :=
  reg s fd <> None \/ (exists i, livei s i /\ rawi s i /\ h_fd (hget s i) = fd) \/ xf = Some fd.

Record KIx (xf : option Z) (s : state) : Prop := mkKI {
  k_abort : aborted s = false;
  k_sq : sq s = [];
  k_pev : forall i, mand (h_pev (hget s i)) ERRHUP = m0;
  k_reg : forall fd i, reg s fd = Some i ->
            livei s i /\ h_fd (hget s i) = fd /\ mzero (h_pev (hget s i)) = false;
  k_sync : forall fd i, reg s fd = Some i -> In i (wq s) \/ synced s fd i;
  k_wqnd : NoDup (wq s);
  k_wq : forall i, In i (wq s) -> reg s (h_fd (hget s i)) = Some i;
  k_ev : forall fd i, reg s fd = Some i -> mzero (h_ev (hget s i)) = false ->
            exists o, fdt s fd = Some o /\ ep s fd o <> None;
  k_unreg : forall i, reg s (h_fd (hget s i)) <> Some i ->
            h_pev (hget s i) = m0 /\ h_ev (hget s i) = m0;
  k_rawx : forall i j, livei s i -> livei s j -> rawi s i ->
            h_fd (hget s i) = h_fd (hget s j) -> i = j;
  k_regopen : forall fd i, reg s fd = Some i -> fdt s fd <> None;
  k_ep : forall fd o m, ep s fd o = Some m -> fdt s fd = Some o /\ just xf s fd;
  k_pairs : forall fd o, fdt s fd = Some o -> In (fd, o) (pairs s)
}.
Notation KI := (KIx None).

(* what must hold when epoll_pwait is called *)
Definition SYNC (s : state) : Prop :=
  (forall fd i, reg s fd = Some i ->
     exists o, fdt s fd = Some o /\ ep s fd o = Some (h_pev (hget s i))) /\
  (forall fd o m, ep s fd o = Some m ->
     fdt s fd = Some o /\ exists i, livei s i /\ h_fd (hget s i) = fd).

Definition kview (h : handle) := (h_kind h, h_fd h, h_pev h, h_ev h, h_closed h).

Lemma KI_ext xf s s' :
  length (hs s') = length (hs s) -> (forall i, kview (hget s' i) = kview (hget s i)) ->
  reg s' = reg s -> wq s' = wq s -> fdt s' = fdt s -> (forall x y, ep s' x y = ep s x y) -> pairs s' = pairs s ->
  sq s' = sq s -> aborted s' = aborted s -> KIx xf s -> KIx xf s'.
Proof.
  intros Hl Hv Hr Hw Hf He Hp Hq Ha K.
  assert (Vk : forall i, h_kind (hget s' i) = h_kind (hget s i)) by (intro i; pose proof (Hv i) as X; unfold kview in X; congruence).
  assert (Vf : forall i, h_fd (hget s' i) = h_fd (hget s i)) by (intro i; pose proof (Hv i) as X; unfold kview in X; congruence).
  assert (Vp : forall i, h_pev (hget s' i) = h_pev (hget s i)) by (intro i; pose proof (Hv i) as X; unfold kview in X; congruence).
  assert (Ve : forall i, h_ev (hget s' i) = h_ev (hget s i)) by (intro i; pose proof (Hv i) as X; unfold kview in X; congruence).
  assert (Vc : forall i, h_closed (hget s' i) = h_closed (hget s i)) by (intro i; pose proof (Hv i) as X; unfold kview in X; congruence).
  assert (Vl : forall i, livei s' i <-> livei s i) by (intro i; unfold livei; rewrite Hl, Vc; tauto).
  assert (Vr : forall i, rawi s' i <-> rawi s i) by (intro i; unfold rawi; rewrite Vk; tauto).
  destruct K. constructor.
  - congruence.
  - congruence.
  - intro i. rewrite Vp. auto.
  - intros fd i H. rewrite Hr in H. rewrite Vl, Vf, Vp. auto.
  - intros fd i H. rewrite Hr in H. rewrite Hw. unfold synced. rewrite Ve, Vp, Hf. setoid_rewrite He. apply k_sync0; auto.
  - congruence.
  - intros i H. rewrite Hw in H. rewrite Hr, Vf. auto.
  - intros fd i H H2. rewrite Hr in H. rewrite Ve in H2. rewrite Hf. setoid_rewrite He. eauto.
  - intros i H. rewrite Hr, Vf in H. rewrite Vp, Ve. auto.
  - intros i j Hi Hj Hk. rewrite !Vl in *. rewrite Vr in Hk. rewrite !Vf. auto.
  - intros fd i H. rewrite Hr in H. rewrite Hf. eauto.
  - intros fd o m H. rewrite He in H. rewrite Hf. destruct (k_ep0 _ _ _ H) as [X Y]. split; auto.
    unfold just in *. rewrite Hr. destruct Y as [Y|[[i [Y1 [Y2 Y3]]]|Y]]; auto.
    right. left. exists i. rewrite Vl, Vr, Vf. auto.
  - intros fd o H. rewrite Hf in H. rewrite Hp. auto.
Qed.

Lemma KI_same xf s s' :
  hs s' = hs s -> reg s' = reg s -> wq s' = wq s -> fdt s' = fdt s -> ep s' = ep s -> pairs s' = pairs s ->
  sq s' = sq s -> aborted s' = aborted s -> KIx xf s -> KIx xf s'.
Proof.
  intros Hh.
  assert (A1 : length (hs s') = length (hs s)) by (rewrite Hh; auto).
  assert (A2 : forall i, kview (hget s' i) = kview (hget s i)) by (intro i; unfold hget; rewrite Hh; auto).
  intros Hr Hw Hf He. intros. apply (KI_ext xf s s'); auto. intros; rewrite He; auto.
Qed.

Lemma KI_init r st : KI (sinit r st).
Proof.
  constructor; cbn; auto; intros; try discriminate; try contradiction.
  - unfold hget; cbn. destruct i; reflexivity.
  - constructor.
  - unfold hget; cbn. destruct i; auto.
  - destruct H as [H _]. cbn in H. lia.
Qed.

Lemma KIx_weaken xf s : KI s -> KIx xf s.
Proof.
  intros K. destruct K. constructor; auto. intros fd o m H. destruct (k_ep0 _ _ _ H) as [X Y]. split; auto.
  unfold just in *. destruct Y as [Y|[Y|Y]]; auto. discriminate.
Qed.

Lemma KIx_of_reg fd s : KIx (Some fd) s -> reg s fd <> None -> KI s.
Proof.
  intros K Hr. destruct K. constructor; auto. intros fd' o m H. destruct (k_ep0 _ _ _ H) as [X Y]. split; auto.
  unfold just in *. destruct Y as [Y|[Y|Y]]; auto. inversion Y; subst. auto.
Qed.

Lemma KI_SYNC s : KI s -> wq s = [] -> SYNC s.
Proof.
  intros K Hw. split.
  - intros fd i H. destruct (k_sync _ s K _ _ H) as [Hin|[_ Hs]]; auto. rewrite Hw in Hin. contradiction.
  - intros fd o m H. destruct (k_ep _ s K _ _ _ H) as [X Y]. split; auto.
    destruct Y as [Y|[[i [Y1 [_ Y3]]]|Y]]; [|eauto|discriminate].
    destruct (reg s fd) as [i|] eqn:Hr; [|congruence]. destruct (k_reg _ s K _ _ Hr) as [A [B _]]. eauto.
Qed.

Lemma livei_same s s' i :
  length (hs s') = length (hs s) -> h_closed (hget s' i) = h_closed (hget s i) -> (livei s' i <-> livei s i).
Proof. intros Hl Hc. unfold livei. rewrite Hl, Hc. tauto. Qed.

Lemma NoDup_app_one {A} (l : list A) x : NoDup l -> ~ In x l -> NoDup (l ++ [x]).
Proof.
  intros Hn Hx. induction Hn as [|y l Hy Hn IH]; cbn.
  - constructor; auto. constructor.
  - constructor.
    + intro Hc. apply in_app_or in Hc. destruct Hc as [|[->|[]]]; auto. apply Hx. left; auto.
    + apply IH. intro Hc. apply Hx. right; auto.
Qed.

Lemma reg_dec s fd i : {reg s fd = Some i} + {reg s fd <> Some i}.
Proof. destruct (reg s fd) as [j|]; [destruct (Nat.eq_dec j i); [left|right]; congruence|right; discriminate]. Qed.

Definition xraw (s : state) (i : nat) : option Z :=
  match h_kind (hget s i) with KRaw => None | KPoll => Some (h_fd (hget s i)) end.

(* uv__io_stop keeps the invariant; a stream-like watcher may leave a stale kernel
   entry behind (it is live and owns the descriptor); for a poll handle the number is
   exempted until uv__poll_stop has invalidated it *)
Lemma KI_io_stop s i ev : KI s -> livei s i -> KIx (xraw s i) (io_stop s i ev).
Proof.
  intros K Hli. destruct Hli as [Hl Hc0].
  destruct (io_stop_same s i ev) as [[_ [_ [_ [_ [Sq [_ [Ss Sa]]]]]]] [Sf [Se Sp]]].
  assert (Hself := io_stop_self s i ev Hl). cbv zeta in Hself.
  assert (Hreg := fun fd => io_stop_reg s i ev fd Hl). cbv zeta in Hreg.
  assert (Hwq := io_stop_wq s i ev Hl).
  assert (Hoth : forall j, j <> i -> hget (io_stop s i ev) j = hget s j) by (intros; apply io_stop_other; auto).
  assert (Hlen := io_stop_length s i ev).
  set (s' := io_stop s i ev) in *. set (p := mdiff (h_pev (hget s i)) ev) in *.
  assert (Hfd : forall j, h_fd (hget s' j) = h_fd (hget s j)).
  { intro j. destruct (Nat.eq_dec j i) as [->|]; [|rewrite Hoth; auto]. rewrite Hself. destruct (mzero p); reflexivity. }
  assert (Hcl : forall j, h_closed (hget s' j) = h_closed (hget s j)).
  { intro j. destruct (Nat.eq_dec j i) as [->|]; [|rewrite Hoth; auto]. rewrite Hself. destruct (mzero p); reflexivity. }
  assert (Hkd : forall j, h_kind (hget s' j) = h_kind (hget s j)).
  { intro j. destruct (Nat.eq_dec j i) as [->|]; [|rewrite Hoth; auto]. rewrite Hself. destruct (mzero p); reflexivity. }
  assert (Hlv : forall j, livei s' j <-> livei s j) by (intro j; apply livei_same; auto).
  assert (Hrw : forall j, rawi s' j <-> rawi s j) by (intro j; unfold rawi; rewrite Hkd; tauto).
  assert (Hsub : forall fd j, reg s' fd = Some j -> reg s fd = Some j).
  { intros fd j Hc. rewrite Hreg in Hc. destruct (_ && _ && _); [discriminate|auto]. }
  assert (Hjust : forall fd, just None s fd -> just (xraw s i) s' fd).
  { intros fd [Y|[[j [Y1 [Y2 Y3]]]|Y]]; [|right; left; exists j; rewrite Hlv, Hrw, Hfd; auto|discriminate].
    destruct (reg s' fd) as [j|] eqn:Hr'; [left; congruence|].
    destruct (reg s fd) as [j|] eqn:Hr; [|congruence].
    assert (fd = h_fd (hget s i) /\ j = i) as [-> ->].
    { rewrite Hreg, Hr in Hr'. destruct (mzero p); cbn [andb] in Hr'; [|discriminate].
      destruct (Z.eqb_spec fd (h_fd (hget s i))) as [E|E]; cbn [andb] in Hr'; [|discriminate]. subst fd.
      rewrite Hr in Hr'. destruct (Nat.eqb_spec i j); [auto|discriminate]. }
    unfold xraw. destruct (h_kind (hget s i)) eqn:Hk; [right; right; auto|].
    right. left. exists i. rewrite Hlv, Hrw, Hfd. split_all; auto. split; auto. }
  destruct K.
  destruct (mzero p) eqn:Hz.
  - assert (Hp0 : p = m0) by (apply mzero_eq; auto).
    assert (Hnot : forall fd, reg s' fd <> Some i).
    { intros fd Hc. pose proof (Hsub _ _ Hc) as Hcz. destruct (k_reg0 _ _ Hcz) as [_ [Hf _]]. subst fd.
      rewrite Hreg, Hcz, Z.eqb_refl, Nat.eqb_refl in Hc. discriminate. }
    assert (Hkeep : forall fd j, j <> i -> reg s fd = Some j -> reg s' fd = Some j).
    { intros fd j Hn Hc. rewrite Hreg. destruct (_ && _ && _) eqn:Hb; auto. exfalso.
      apply andb_prop in Hb. destruct Hb as [Hb Hb2]. apply andb_prop in Hb. destruct Hb as [_ Hb].
      apply Z.eqb_eq in Hb. subst fd. rewrite Hc in Hb2. apply Nat.eqb_eq in Hb2. congruence. }
    constructor.
    + congruence.
    + congruence.
    + intro j. destruct (Nat.eq_dec j i) as [->|]; [|rewrite Hoth; auto]. rewrite Hself. cbn. rewrite Hp0. reflexivity.
    + intros fd j Hc. assert (j <> i) by (intros ->; eapply Hnot; eauto). rewrite Hlv, Hoth by auto. apply k_reg0. auto.
    + intros fd j Hc. assert (j <> i) by (intros ->; eapply Hnot; eauto). apply Hsub in Hc.
      destruct (k_sync0 _ _ Hc) as [Hin|Hs].
      * left. rewrite Hwq. apply In_remove_id. auto.
      * right. unfold synced in *. rewrite Hoth, Sf, Se by auto. auto.
    + rewrite Hwq. unfold remove_id. apply NoDup_filter. auto.
    + intros j Hin. rewrite Hwq in Hin. apply In_remove_id in Hin. destruct Hin as [Hin Hn].
      rewrite Hfd. apply Hkeep; auto.
    + intros fd j Hc Hev. assert (j <> i) by (intros ->; eapply Hnot; eauto). rewrite Hoth in Hev by auto.
      rewrite Sf, Se. eapply k_ev0; eauto.
    + intros j Hc. destruct (Nat.eq_dec j i) as [->|Hn].
      * rewrite Hself. cbn. rewrite Hp0. auto.
      * rewrite Hoth by auto. apply k_unreg0. rewrite Hfd in Hc. intro Hcz. apply Hc. apply Hkeep; auto.
    + intros a b Ha Hb Hk. rewrite !Hlv in *. rewrite Hrw in Hk. rewrite !Hfd. auto.
    + intros fd j Hc. rewrite Sf. apply Hsub in Hc. eauto.
    + intros fd o m Hm. rewrite Se in Hm. rewrite Sf. destruct (k_ep0 _ _ _ Hm) as [X Y]. split; auto.
    + intros fd o Hf. rewrite Sf in Hf. rewrite Sp. auto.
  - assert (Hregs : forall fd, reg s' fd = reg s fd) by (intro fd; rewrite Hreg; reflexivity).
    assert (Hri : reg s (h_fd (hget s i)) = Some i).
    { destruct (reg_dec s (h_fd (hget s i)) i) as [|Hn]; auto. destruct (k_unreg0 _ Hn) as [Hp _].
      unfold p in Hz. rewrite Hp in Hz. mk_destruct ev. discriminate. }
    assert (Hin' : forall j, In j (wq s) \/ j = i -> In j (wq s')).
    { intros j Hj. rewrite Hwq. destruct (mem i (wq s)) eqn:Hm.
      - destruct Hj as [Hj|Hj]; auto. subst j. apply mem_In; auto.
      - apply in_or_app. destruct Hj as [Hj|Hj]; auto. subst j. right. left. auto. }
    constructor.
    + congruence.
    + congruence.
    + intro j. destruct (Nat.eq_dec j i) as [->|]; [|rewrite Hoth; auto]. rewrite Hself. cbn. apply mdiff_errhup. auto.
    + intros fd j Hc. rewrite Hregs in Hc. rewrite Hlv, Hfd. destruct (k_reg0 _ _ Hc) as [X [Y Z]]. split_all; auto.
      destruct (Nat.eq_dec j i) as [->|]; [|rewrite Hoth; auto]. rewrite Hself. cbn. auto.
    + intros fd j Hc. rewrite Hregs in Hc. destruct (Nat.eq_dec j i) as [->|Hn]; [left; apply Hin'; auto|].
      destruct (k_sync0 _ _ Hc) as [Hin|Hs]; [left; apply Hin'; auto|].
      right. unfold synced in *. rewrite Hoth, Sf, Se by auto. auto.
    + rewrite Hwq. destruct (mem i (wq s)) eqn:Hm; auto. apply NoDup_app_one; auto.
      intro Hc. apply mem_In in Hc. congruence.
    + intros j Hin. rewrite Hregs, Hfd. rewrite Hwq in Hin. destruct (mem i (wq s)); auto.
      apply in_app_or in Hin. destruct Hin as [|[<-|[]]]; auto.
    + intros fd j Hc Hev. rewrite Hregs in Hc. rewrite Sf, Se. apply (k_ev0 fd j); auto.
      destruct (Nat.eq_dec j i) as [->|Hn]; [|rewrite Hoth in Hev; auto]. rewrite Hself in Hev. exact Hev.
    + intros j Hc. rewrite Hregs, Hfd in Hc. destruct (Nat.eq_dec j i) as [->|Hn]; [contradiction|].
      rewrite Hoth by auto. auto.
    + intros a b Ha Hb Hk. rewrite !Hlv in *. rewrite Hrw in Hk. rewrite !Hfd. auto.
    + intros fd j Hc. rewrite Hregs in Hc. rewrite Sf. eauto.
    + intros fd o m Hm. rewrite Se in Hm. rewrite Sf. destruct (k_ep0 _ _ _ Hm) as [X Y]. split; auto.
    + intros fd o Hf. rewrite Sf in Hf. rewrite Sp. auto.
Qed.

Lemma ep_set_other e fd o v fd' o' : fd' <> fd -> ep_set e fd o v fd' o' = e fd' o'.
Proof. intros H. unfold ep_set. destruct (Z.eqb_spec fd' fd); [contradiction|reflexivity]. Qed.
Lemma ep_set_same e fd o v : ep_set e fd o v fd o = v.
Proof. unfold ep_set. rewrite Z.eqb_refl, Nat.eqb_refl. reflexivity. Qed.

(* EPOLL_CTL_DEL of a descriptor number nobody is registered on; afterwards nothing
   is left under that number, so its exemption is no longer needed *)
Lemma KI_del xf s fd : KIx xf s -> reg s fd = None -> xf = None \/ xf = Some fd ->
  KI (fst (epoll_ctl s CDel fd m0)) /\ forall o, ep (fst (epoll_ctl s CDel fd m0)) fd o = None.
Proof.
  intros K Hr Hxf.
  pose proof (epoll_ctl_same s CDel fd m0) as X. cbv zeta in X.
  destruct X as [Sh [Sr [Sw [[_ [_ [_ [_ [Sq [_ [Ss Sa]]]]]]] [Sf Sp]]]]].
  pose proof (epoll_ctl_ep s CDel fd m0) as Se.
  set (s' := fst (epoll_ctl s CDel fd m0)) in *.
  assert (Hg : forall j, hget s' j = hget s j) by (intro j; unfold hget; rewrite Sh; auto).
  assert (Hlv : forall j, livei s' j <-> livei s j) by (intro j; unfold livei; rewrite Sh, Hg; tauto).
  assert (Hrw : forall j, rawi s' j <-> rawi s j) by (intro j; unfold rawi; rewrite Hg; tauto).
  assert (Hoth : forall fd' o', fd' <> fd -> ep s' fd' o' = ep s fd' o').
  { intros fd' o' Hn. rewrite Se. destruct (fdt s fd) as [o|]; auto. destruct (ep s fd o); auto.
    apply ep_set_other; auto. }
  assert (Hsub : forall fd' o' m, ep s' fd' o' = Some m -> ep s fd' o' = Some m).
  { intros fd' o' m. rewrite Se. destruct (fdt s fd) as [o|]; auto. destruct (ep s fd o); auto.
    unfold ep_set. destruct (_ && _); [discriminate|auto]. }
  assert (Hgone : forall o, ep s' fd o = None).
  { intro o. destruct (ep s' fd o) as [m|] eqn:Hm; auto. exfalso. pose proof (Hsub _ _ _ Hm) as Hm0.
    destruct (k_ep _ s K _ _ _ Hm0) as [Hf _]. rewrite Se, Hf, Hm0, ep_set_same in Hm. discriminate. }
  split; auto. destruct K. constructor.
  - congruence.
  - congruence.
  - intro j. rewrite Hg. auto.
  - intros fd' j Hc. rewrite Sr in Hc. rewrite Hlv, Hg. auto.
  - intros fd' j Hc. rewrite Sr in Hc. assert (fd' <> fd) by congruence.
    destruct (k_sync0 _ _ Hc) as [|[E [o [F G]]]]; [left; congruence|]. right. unfold synced.
    rewrite Hg, Sf. split; auto. exists o. rewrite Hoth; auto.
  - congruence.
  - intros j Hin. rewrite Sw in Hin. rewrite Sr, Hg. auto.
  - intros fd' j Hc Hev. rewrite Sr in Hc. rewrite Hg in Hev. assert (fd' <> fd) by congruence.
    destruct (k_ev0 _ _ Hc Hev) as [o [F G]]. exists o. rewrite Sf, Hoth; auto.
  - intros j Hc. rewrite Sr, Hg in Hc. rewrite Hg. auto.
  - intros a b Ha Hb Hk. rewrite !Hlv in *. rewrite Hrw in Hk. rewrite !Hg. auto.
  - intros fd' j Hc. rewrite Sr in Hc. rewrite Sf. eauto.
  - intros fd' o m Hm. assert (fd' <> fd) by (intros ->; rewrite Hgone in Hm; discriminate).
    apply Hsub in Hm. rewrite Sf. destruct (k_ep0 _ _ _ Hm) as [X Y]. split; auto.
    unfold just in *. rewrite Sr. destruct Y as [Y|[[j [Y1 [Y2 Y3]]]|Y]]; auto.
    + right. left. exists j. rewrite Hlv, Hrw, Hg. auto.
    + exfalso. destruct Hxf; congruence.
  - intros fd' o Hf. rewrite Sf in Hf. rewrite Sp. auto.
Qed.

Lemma KI_set_batch xf s b : KIx xf s -> KIx xf (set_batch s b).
Proof. apply KI_same; reflexivity. Qed.

Lemma KI_invalidate xf s fd : KIx xf s -> reg s fd = None -> xf = None \/ xf = Some fd ->
  KI (invalidate s fd) /\ forall o, ep (invalidate s fd) fd o = None.
Proof. intros K Hr Hx. unfold invalidate. apply (KI_del xf); auto. apply KI_set_batch; auto. Qed.

Lemma KI_hupd_kview xf s i f : (forall h, kview (f h) = kview h) -> KIx xf s -> KIx xf (hupd s i f).
Proof.
  intros Hf. apply KI_ext; try reflexivity.
  - apply hupd_length.
  - intro j. rewrite hget_hupd. destruct (_ && _); auto.
Qed.

(* uv_close / uv__io_close has returned: the handle is out of the registry; for a
   stream-like watcher nothing is registered in the kernel under its number *)
Lemma KI_close_flag s i : KI s -> (forall fd, reg s fd <> Some i) ->
  (rawi s i -> forall o, ep s (h_fd (hget s i)) o = None) ->
  KI (hupd s i (fun h => h_set_closed h true)).
Proof.
  intros K Hu He. set (s' := hupd s i (fun h => h_set_closed h true)).
  assert (Hl : length (hs s') = length (hs s)) by apply hupd_length.
  assert (Hfd : forall j, h_fd (hget s' j) = h_fd (hget s j)).
  { intro j. unfold s'. rewrite hget_hupd. destruct (_ && _); reflexivity. }
  assert (Hpe : forall j, h_pev (hget s' j) = h_pev (hget s j)).
  { intro j. unfold s'. rewrite hget_hupd. destruct (_ && _); reflexivity. }
  assert (Hev : forall j, h_ev (hget s' j) = h_ev (hget s j)).
  { intro j. unfold s'. rewrite hget_hupd. destruct (_ && _); reflexivity. }
  assert (Hkd : forall j, h_kind (hget s' j) = h_kind (hget s j)).
  { intro j. unfold s'. rewrite hget_hupd. destruct (_ && _); reflexivity. }
  assert (Hrw : forall j, rawi s' j <-> rawi s j) by (intro j; unfold rawi; rewrite Hkd; tauto).
  assert (Hlv : forall j, livei s' j -> livei s j).
  { intros j [A B]. split; [lia|]. unfold s' in B. rewrite hget_hupd in B. destruct (_ && _); auto. discriminate. }
  assert (Hlv2 : forall j, j <> i -> livei s j -> livei s' j).
  { intros j Hn [A B]. split; [lia|]. unfold s'. rewrite hget_hupd_other; auto. }
  destruct K. constructor; auto.
  - intro j. rewrite Hpe. auto.
  - intros fd j Hc. change (reg s' fd) with (reg s fd) in Hc. assert (j <> i) by (intros ->; eapply Hu; eauto).
    rewrite Hfd, Hpe. destruct (k_reg0 _ _ Hc) as [X [Y Z]]. split_all; auto.
  - intros fd j Hc. change (reg s' fd) with (reg s fd) in Hc. change (wq s') with (wq s).
    unfold synced. rewrite Hev, Hpe. apply k_sync0; auto.
  - intros j Hin. change (wq s') with (wq s) in Hin. change (reg s' (h_fd (hget s' j))) with (reg s (h_fd (hget s' j))).
    rewrite Hfd. auto.
  - intros fd j Hc Hm. rewrite Hev in Hm. apply (k_ev0 fd j); auto.
  - intros j Hc. change (reg s' (h_fd (hget s' j))) with (reg s (h_fd (hget s' j))) in Hc. rewrite Hfd in Hc.
    rewrite Hpe, Hev. auto.
  - intros a b Ha Hb Hk. rewrite Hrw in Hk. rewrite !Hfd. apply Hlv in Ha. apply Hlv in Hb. auto.
  - intros fd o m Hm. change (ep s' fd o) with (ep s fd o) in Hm. destruct (k_ep0 _ _ _ Hm) as [X Y].
    split; auto. unfold just in *. change (reg s' fd) with (reg s fd).
    destruct Y as [Y|[[j [Y1 [Y2 Y3]]]|Y]]; auto. right. left. exists j. rewrite Hrw, Hfd. split_all; auto.
    apply Hlv2; auto. intros ->. rewrite <- Y3, He in Hm; auto. discriminate.
Qed.

(* uv__io_start on a live handle whose descriptor is open and on whose number no other
   watcher is registered *)
Lemma KI_io_start s i ev : KI s -> livei s i -> mzero ev = false -> mand ev ERRHUP = m0 ->
  fdt s (h_fd (hget s i)) <> None -> (forall j, reg s (h_fd (hget s i)) = Some j -> j = i) ->
  KI (io_start s i ev).
Proof.
  intros K Hli Hz He Hopen Honly. destruct Hli as [Hl Hc0].
  destruct (io_start_same s i ev) as [[_ [_ [_ [_ [Sq [_ [Ss Sa]]]]]]] [Sf [Se Sp]]].
  assert (Hself := io_start_self s i ev Hl).
  assert (Hreg := fun fd => io_start_reg s i ev fd Hl). cbv zeta in Hreg.
  assert (Hwq := io_start_wq s i ev Hl). cbv zeta in Hwq.
  assert (Hoth : forall j, j <> i -> hget (io_start s i ev) j = hget s j) by (intros; apply io_start_other; auto).
  assert (Hlen := io_start_length s i ev).
  set (s' := io_start s i ev) in *. set (P := mor (h_pev (hget s i)) ev) in *.
  assert (HP : mzero P = false) by (apply mor_nonzero; auto).
  assert (Hfd : forall j, h_fd (hget s' j) = h_fd (hget s j)).
  { intro j. destruct (Nat.eq_dec j i) as [->|]; [|rewrite Hoth; auto]. rewrite Hself. reflexivity. }
  assert (Hcl : forall j, h_closed (hget s' j) = h_closed (hget s j)).
  { intro j. destruct (Nat.eq_dec j i) as [->|]; [|rewrite Hoth; auto]. rewrite Hself. reflexivity. }
  assert (Hkd : forall j, h_kind (hget s' j) = h_kind (hget s j)).
  { intro j. destruct (Nat.eq_dec j i) as [->|]; [|rewrite Hoth; auto]. rewrite Hself. reflexivity. }
  assert (Hevs : forall j, h_ev (hget s' j) = h_ev (hget s j)).
  { intro j. destruct (Nat.eq_dec j i) as [->|]; [|rewrite Hoth; auto]. rewrite Hself. reflexivity. }
  assert (Hlv : forall j, livei s' j <-> livei s j) by (intro j; apply livei_same; auto).
  assert (Hrw : forall j, rawi s' j <-> rawi s j) by (intro j; unfold rawi; rewrite Hkd; tauto).
  assert (Hpi : h_pev (hget s' i) = P) by (rewrite Hself; reflexivity).
  destruct K.
  assert (Hjust : forall fd, (forall fd' j, reg s fd' = Some j -> reg s' fd' = Some j) -> just None s fd -> just None s' fd).
  { intros fd Hsup [Y|[[j [Y1 [Y2 Y3]]]|Y]]; [|right; left; exists j; rewrite Hlv, Hrw, Hfd; auto|discriminate].
    left. destruct (reg s fd) as [j|] eqn:Hr; [|congruence]. rewrite (Hsup _ _ Hr). discriminate. }
  destruct (meqb (h_ev (hget s i)) P) eqn:Hm.
  - apply meqb_eq in Hm.
    assert (Hri : reg s (h_fd (hget s i)) = Some i).
    { destruct (reg_dec s (h_fd (hget s i)) i) as [|Hn]; auto. destruct (k_unreg0 _ Hn) as [_ Hp].
      rewrite Hp in Hm. rewrite <- Hm in HP. discriminate. }
    assert (Hregs : forall fd, reg s' fd = reg s fd) by (intro fd; rewrite Hreg; reflexivity).
    constructor.
    + congruence.
    + congruence.
    + intro j. destruct (Nat.eq_dec j i) as [->|]; [|rewrite Hoth; auto]. rewrite Hpi. apply mor_errhup; auto.
    + intros fd j Hc. rewrite Hregs in Hc. rewrite Hlv, Hfd. destruct (k_reg0 _ _ Hc) as [X [Y Z]]. split_all; auto.
      destruct (Nat.eq_dec j i) as [->|]; [|rewrite Hoth; auto]. rewrite Hpi; auto.
    + intros fd j Hc. rewrite Hregs in Hc. rewrite Hwq. destruct (k_sync0 _ _ Hc) as [|[E [o [F G]]]]; auto.
      right. unfold synced. rewrite Hevs, Sf, Se. destruct (Nat.eq_dec j i) as [->|]; [|rewrite Hoth; eauto].
      rewrite Hpi. split; auto. exists o. split; auto. rewrite G. congruence.
    + congruence.
    + intros j Hin. rewrite Hwq in Hin. rewrite Hregs, Hfd. auto.
    + intros fd j Hc Hev. rewrite Hregs in Hc. rewrite Hevs in Hev. rewrite Sf, Se. eauto.
    + intros j Hc. rewrite Hregs, Hfd in Hc. destruct (Nat.eq_dec j i) as [->|]; [contradiction|]. rewrite Hoth; auto.
    + intros a b Ha Hb Hk. rewrite !Hlv in *. rewrite Hrw in Hk. rewrite !Hfd. auto.
    + intros fd j Hc. rewrite Hregs in Hc. rewrite Sf. eauto.
    + intros fd o m Hx. rewrite Se in Hx. rewrite Sf. destruct (k_ep0 _ _ _ Hx) as [X Y]. split; auto.
      apply Hjust; auto. intros fd' j Hc. rewrite Hregs. auto.
    + intros fd o Hf. rewrite Sf in Hf. rewrite Sp. auto.
  - assert (Hri : reg s' (h_fd (hget s i)) = Some i).
    { rewrite Hreg. destruct (reg s (h_fd (hget s i))) as [j|] eqn:Hr.
      - f_equal. apply Honly; auto.
      - rewrite Z.eqb_refl. auto. }
    assert (Hsup : forall fd j, reg s fd = Some j -> reg s' fd = Some j).
    { intros fd j Hc. rewrite Hreg. destruct (reg s (h_fd (hget s i))) as [j0|] eqn:Hr; auto.
      destruct (Z.eqb_spec fd (h_fd (hget s i))); auto. congruence. }
    assert (Hsub : forall fd j, reg s' fd = Some j -> reg s fd = Some j \/ (j = i /\ fd = h_fd (hget s i))).
    { intros fd j Hc. rewrite Hreg in Hc. destruct (reg s (h_fd (hget s i))) as [j0|] eqn:Hr; auto.
      revert Hc. destruct (Z.eqb_spec fd (h_fd (hget s i))); intro Hc; auto. inversion Hc; subst. right; auto. }
    assert (Hin' : forall j, In j (wq s) \/ j = i -> In j (wq s')).
    { intros j Hj. rewrite Hwq. destruct (mem i (wq s)) eqn:Hmm.
      - destruct Hj as [Hj|Hj]; auto. subst j. apply mem_In; auto.
      - apply in_or_app. destruct Hj as [Hj|Hj]; auto. subst j. right. left. auto. }
    constructor.
    + congruence.
    + congruence.
    + intro j. destruct (Nat.eq_dec j i) as [->|]; [|rewrite Hoth; auto]. rewrite Hpi. apply mor_errhup; auto.
    + intros fd j Hc. rewrite Hlv, Hfd. destruct (Nat.eq_dec j i) as [->|Hn].
      * rewrite Hpi. destruct (Hsub _ _ Hc) as [Hc'|[_ ->]]; [destruct (k_reg0 _ _ Hc') as [X [Y _]]|]; split_all; auto; split; auto.
      * rewrite Hoth by auto. destruct (Hsub _ _ Hc) as [Hc'|[? _]]; [|contradiction]. auto.
    + intros fd j Hc. destruct (Nat.eq_dec j i) as [->|Hn]; [left; apply Hin'; auto|].
      destruct (Hsub _ _ Hc) as [Hc'|[? _]]; [|contradiction].
      destruct (k_sync0 _ _ Hc') as [|Hs]; [left; apply Hin'; auto|]. right. unfold synced in *.
      rewrite Hoth, Sf, Se by auto. auto.
    + rewrite Hwq. destruct (mem i (wq s)) eqn:Hmm; auto. apply NoDup_app_one; auto.
      intro Hc. apply mem_In in Hc. congruence.
    + intros j Hin. rewrite Hfd. rewrite Hwq in Hin. destruct (mem i (wq s)) eqn:Hmm.
      * apply Hsup; auto.
      * apply in_app_or in Hin. destruct Hin as [Hin|[<-|[]]]; auto.
    + intros fd j Hc Hev. rewrite Hevs in Hev. rewrite Sf, Se. destruct (Hsub _ _ Hc) as [Hc'|[-> ->]]; eauto.
      apply (k_ev0 _ i); auto. destruct (reg_dec s (h_fd (hget s i)) i) as [|Hn]; auto.
      destruct (k_unreg0 _ Hn) as [_ Hp]. rewrite Hp in Hev. discriminate.
    + intros j Hc. rewrite Hfd in Hc. destruct (Nat.eq_dec j i) as [->|Hn]; [contradiction|].
      rewrite Hoth by auto. apply k_unreg0. intro Hx. apply Hc. apply Hsup; auto.
    + intros a b Ha Hb Hk. rewrite !Hlv in *. rewrite Hrw in Hk. rewrite !Hfd. auto.
    + intros fd j Hc. rewrite Sf. destruct (Hsub _ _ Hc) as [Hc'|[_ ->]]; eauto.
    + intros fd o m Hx. rewrite Se in Hx. rewrite Sf. destruct (k_ep0 _ _ _ Hx) as [X Y]. split; auto.
    + intros fd o Hf. rewrite Sf in Hf. rewrite Sp. auto.
Qed.

(* a new handle (or, for a failed uv_poll_init, an unusable one) *)
Lemma KI_append s x : KI s -> h_pev x = m0 -> h_ev x = m0 ->
  (h_closed x = true \/
   ((forall j, livei s j -> rawi s j -> h_fd (hget s j) <> h_fd x) /\
    (h_kind x = KRaw -> forall j, livei s j -> h_fd (hget s j) <> h_fd x))) ->
  KI (set_hs s (hs s ++ [x])).
Proof.
  intros K Hp He Hx. set (s' := set_hs s (hs s ++ [x])).
  assert (Hold : forall j, (j < length (hs s))%nat -> hget s' j = hget s j).
  { intros j Hj. unfold hget. cbn. apply app_nth1; auto. }
  assert (Hnew : hget s' (length (hs s)) = x).
  { unfold hget. cbn. rewrite app_nth2 by lia. rewrite Nat.sub_diag. reflexivity. }
  assert (Hbig : forall j, (length (hs s) < j)%nat -> hget s' j = dflt_h).
  { intros j Hj. unfold hget. cbn. apply nth_overflow. rewrite app_length. cbn. lia. }
  assert (Hlen : length (hs s') = S (length (hs s))) by (cbn; rewrite app_length; cbn; lia).
  assert (Hlv : forall j, livei s' j -> livei s j \/ (j = length (hs s) /\ h_closed x = false)).
  { intros j [A B]. rewrite Hlen in A. destruct (Nat.eq_dec j (length (hs s))) as [->|Hn].
    - right. rewrite Hnew in B. auto.
    - left. rewrite Hold in B by lia. split; auto. lia. }
  assert (Hlv2 : forall j, livei s j -> livei s' j).
  { intros j [A B]. split; [lia|]. rewrite Hold; auto. }
  assert (Hcases : forall j, (j < length (hs s))%nat \/ j = length (hs s) \/ (length (hs s) < j)%nat) by (intro; lia).
  destruct K. constructor; auto.
  - intro j. destruct (Hcases j) as [Hj|[->|Hj]]; [rewrite Hold; auto|rewrite Hnew, Hp; reflexivity|rewrite Hbig; auto].
  - intros fd j Hc. change (reg s' fd) with (reg s fd) in Hc. destruct (k_reg0 _ _ Hc) as [X [Y Z]].
    rewrite Hold by apply X. split_all; auto.
  - intros fd j Hc. change (reg s' fd) with (reg s fd) in Hc. destruct (k_reg0 _ _ Hc) as [X _].
    unfold synced. rewrite Hold by apply X. apply k_sync0; auto.
  - intros j Hin. change (wq s') with (wq s) in Hin. pose proof (k_wq0 _ Hin) as Hc.
    assert (Hj : (j < length (hs s))%nat).
    { destruct (Nat.lt_ge_cases j (length (hs s))); auto. exfalso. destruct (k_reg0 _ _ Hc) as [[X _] _]. lia. }
    rewrite Hold by auto. auto.
  - intros fd j Hc Hev. change (reg s' fd) with (reg s fd) in Hc. destruct (k_reg0 _ _ Hc) as [X _].
    rewrite Hold in Hev by apply X. apply (k_ev0 fd j); auto.
  - intros j Hc. change (reg s' (h_fd (hget s' j))) with (reg s (h_fd (hget s' j))) in Hc.
    destruct (Hcases j) as [Hj|[->|Hj]].
    + rewrite Hold in * by auto. auto.
    + rewrite Hnew. auto.
    + rewrite Hbig by auto. auto.
  - intros a b Ha Hb Hk Hf. unfold rawi in Hk.
    destruct (Hlv _ Ha) as [Ha'|[Ea Hca]]; destruct (Hlv _ Hb) as [Hb'|[Eb Hcb]].
    + rewrite (Hold a) in Hf, Hk by apply Ha'. rewrite (Hold b) in Hf by apply Hb'. auto.
    + subst b. rewrite (Hold a) in Hf, Hk by apply Ha'. rewrite Hnew in Hf. destruct Hx as [Hx|[Hx _]]; [congruence|].
      exfalso. eapply Hx; eauto.
    + subst a. rewrite (Hold b) in Hf by apply Hb'. rewrite Hnew in Hf, Hk. destruct Hx as [Hx|[_ Hx]]; [congruence|].
      exfalso. eapply (Hx Hk); eauto.
    + congruence.
  - intros fd o m Hm. change (ep s' fd o) with (ep s fd o) in Hm. destruct (k_ep0 _ _ _ Hm) as [X Y].
    split; auto. unfold just in *. change (reg s' fd) with (reg s fd).
    destruct Y as [Y|[[j [Y1 [Y2 Y3]]]|Y]]; auto. right. left. exists j. unfold rawi in *.
    rewrite Hold by apply Y1. auto.
Qed.

(* open / dup / close in the kernel *)
Lemma KI_k_open s fd : KI s -> fdt s fd = None -> KI (k_open s fd).
Proof.
  intros K Hf. unfold k_open. set (o := next_ofd s).
  assert (Hft : forall fd' o', fdt s fd' = Some o' -> fn_set (fdt s) fd (Some o) fd' = Some o').
  { intros fd' o' H. unfold fn_set. destruct (Z.eqb_spec fd' fd); auto. subst. congruence. }
  destruct K. constructor; auto.
  - intros fd' j Hc. destruct (k_sync0 _ _ Hc) as [|[E [o' [F G]]]]; auto. right. split; auto. exists o'. cbn. auto.
  - intros fd' j Hc Hev. destruct (k_ev0 _ _ Hc Hev) as [o' [F G]]. exists o'. cbn. auto.
  - intros fd' j Hc. cbn. unfold fn_set. destruct (_ =? _); [discriminate|]. eapply k_regopen0; eauto.
  - intros fd' o' m Hm. cbn in Hm. destruct (k_ep0 _ _ _ Hm) as [X Y]. split; auto. cbn. auto.
  - intros fd' o' H. cbn in *. unfold fn_set in H. destruct (Z.eqb_spec fd' fd).
    + inversion H; subst. left; auto.
    + right. auto.
Qed.

Lemma KI_k_dup s src fd : KI s -> fdt s fd = None -> KI (k_dup s src fd).
Proof.
  intros K Hf. unfold k_dup. destruct (fdt s src) as [o|] eqn:Hs; auto.
  assert (Hft : forall fd' o', fdt s fd' = Some o' -> fn_set (fdt s) fd (Some o) fd' = Some o').
  { intros fd' o' H. unfold fn_set. destruct (Z.eqb_spec fd' fd); auto. subst. congruence. }
  destruct K. constructor; auto.
  - intros fd' j Hc. destruct (k_sync0 _ _ Hc) as [|[E [o' [F G]]]]; auto. right. split; auto. exists o'. cbn. auto.
  - intros fd' j Hc Hev. destruct (k_ev0 _ _ Hc Hev) as [o' [F G]]. exists o'. cbn. auto.
  - intros fd' j Hc. cbn. unfold fn_set. destruct (_ =? _); [discriminate|]. eapply k_regopen0; eauto.
  - intros fd' o' m Hm. cbn in Hm. destruct (k_ep0 _ _ _ Hm) as [X Y]. split; auto. cbn. auto.
  - intros fd' o' H. cbn in *. unfold fn_set in H. destruct (Z.eqb_spec fd' fd).
    + inversion H; subst. left; auto.
    + right. auto.
Qed.

(* close(fd) when no watcher is registered under fd and no stream-like watcher owns it *)
Lemma KI_k_close s fd : KI s -> reg s fd = None ->
  (forall j, livei s j -> rawi s j -> h_fd (hget s j) <> fd) -> KI (k_close s fd).
Proof.
  intros K Hrn Hno. unfold k_close. destruct (fdt s fd) as [o|] eqn:Hf; auto.
  set (t := fn_set (fdt s) fd None).
  assert (Ht : forall fd', fd' <> fd -> t fd' = fdt s fd').
  { intros fd' Hn. unfold t, fn_set. destruct (Z.eqb_spec fd' fd); [contradiction|auto]. }
  set (still := existsb _ (pairs s)).
  assert (Hstill : still = false -> forall fd' o', fd' <> fd -> fdt s fd' = Some o' -> o' <> o).
  { intros Hs fd' o' Hn Hf' ->. unfold still in Hs.
    assert (existsb (fun p => Nat.eqb (snd p) o && match t (fst p) with Some o' => Nat.eqb o' o | None => false end)
                    (pairs s) = true) as Hx.
    { apply existsb_exists. exists (fd', o). split; [apply (k_pairs _ s K); auto|]. cbn.
      rewrite Ht, Hf', Nat.eqb_refl by auto. reflexivity. }
    congruence. }
  assert (Hreg : forall fd' j, reg s fd' = Some j -> fd' <> fd) by (intros fd' j Hc ->; congruence).
  assert (Hepfd : forall fd' o' m, ep s fd' o' = Some m -> fd' <> fd).
  { intros fd' o' m Hm ->. destruct (k_ep _ s K _ _ _ Hm) as [_ [Y|[[j [Y1 [Y2 Y3]]]|Y]]]; [congruence| |discriminate].
    eapply Hno; eauto. }
  set (ep' := if still then ep s else fun x y => if Nat.eqb y o then None else ep s x y).
  assert (Hep1 : forall fd' o' m, ep' fd' o' = Some m -> ep s fd' o' = Some m).
  { intros fd' o' m. unfold ep'. destruct still; auto. destruct (Nat.eqb o' o); [discriminate|auto]. }
  assert (Hep2 : forall fd' o', fd' <> fd -> fdt s fd' = Some o' -> ep' fd' o' = ep s fd' o').
  { intros fd' o' Hn Hf'. unfold ep'. destruct still eqn:Hs; auto.
    destruct (Nat.eqb_spec o' o); auto. exfalso. eapply Hstill; eauto. }
  assert (KI (set_ep (set_fdt s t) ep')) as Hgoal.
  { destruct K. constructor; auto.
    - intros fd' j Hc. change (reg (set_ep (set_fdt s t) ep') fd') with (reg s fd') in Hc.
      destruct (k_sync0 _ _ Hc) as [|[E [o' [F G]]]]; auto. right. split; auto. exists o'. cbn.
      rewrite Ht by eauto. split; auto. rewrite Hep2; eauto.
    - intros fd' j Hc Hev. change (reg (set_ep (set_fdt s t) ep') fd') with (reg s fd') in Hc.
      destruct (k_ev0 _ _ Hc Hev) as [o' [F G]]. exists o'. cbn. rewrite Ht by eauto. split; auto. rewrite Hep2; eauto.
    - intros fd' j Hc. cbn [reg fdt set_ep set_fdt] in *. rewrite Ht by eauto. eauto.
    - intros fd' o' m Hm. cbn in Hm. apply Hep1 in Hm. destruct (k_ep0 _ _ _ Hm) as [X Y]. split; auto.
      cbn. rewrite Ht; eauto.
    - intros fd' o' H. cbn in *. unfold t, fn_set in H. destruct (fd' =? fd); [discriminate|auto]. }
  unfold ep' in Hgoal. destruct still; auto.
Qed.

Lemma any_on_false s fd p : any_on s fd p = false ->
  forall j, (j < length (hs s))%nat -> h_fd (hget s j) = fd -> p (hget s j) = false.
Proof.
  intros H j Hj Hf. unfold any_on in H.
  pose proof (existsb_nth (fun h => (h_fd h =? fd) && p h) (hs s) dflt_h Hj H) as X. cbn in X.
  fold (hget s j) in X. rewrite Hf, Z.eqb_refl in X. exact X.
Qed.

Lemma no_live_on s fd : any_on s fd live = false -> forall j, livei s j -> h_fd (hget s j) <> fd.
Proof.
  intros H j [Hj Hc] Hf. pose proof (any_on_false s fd live H j Hj Hf) as X. unfold live in X.
  rewrite Hc in X. discriminate.
Qed.

Lemma no_live_raw_on s fd : any_on s fd (fun h => live h && is_raw h) = false ->
  forall j, livei s j -> rawi s j -> h_fd (hget s j) <> fd.
Proof.
  intros H j [Hj Hc] Hr Hf. pose proof (any_on_false s fd _ H j Hj Hf) as X. cbn in X. unfold live, is_raw in X.
  unfold rawi in Hr. rewrite Hc, Hr in X. discriminate.
Qed.

Lemma no_busy_on s fd : KI s -> any_on s fd busy = false ->
  reg s fd = None /\ forall j, livei s j -> rawi s j -> h_fd (hget s j) <> fd.
Proof.
  intros K H. split.
  - destruct (reg s fd) as [i|] eqn:Hr; auto. exfalso. destruct (k_reg _ s K _ _ Hr) as [[A B] [C D]].
    pose proof (any_on_false s fd busy H i A C) as X. unfold busy in X. rewrite B, D in X. cbn in X.
    rewrite Bool.orb_true_r in X. discriminate.
  - intros j [Hj Hc] Hr Hf. pose proof (any_on_false s fd busy H j Hj Hf) as X. unfold busy, is_raw in X.
    unfold rawi in Hr. rewrite Hc, Hr in X. cbn in X. rewrite Bool.orb_true_r in X. discriminate.
Qed.

(* uv__io_check_fd on a number without a registered watcher or a stream-like owner *)
Lemma KI_check_fd s fd : KI s -> reg s fd = None ->
  (forall j, livei s j -> rawi s j -> h_fd (hget s j) <> fd) ->
  KI (fst (io_check_fd s fd)) /\ (snd (io_check_fd s fd) = 0 -> fdt s fd <> None).
Proof.
  intros K Hrn Hno.
  assert (Hnone : forall o, ep s fd o = None).
  { intro o. destruct (ep s fd o) eqn:Hm; auto. exfalso.
    destruct (k_ep _ s K _ _ _ Hm) as [_ [Y|[[j [Y1 [Y2 Y3]]]|Y]]]; [congruence| |discriminate]. eapply Hno; eauto. }
  unfold io_check_fd, epoll_ctl. destruct (fdt s fd) as [o|] eqn:Hf.
  - rewrite Hnone. cbn. rewrite Hf. cbn. rewrite ep_set_same. cbn. split; [|discriminate].
    eapply KI_ext; [..|exact K]; try reflexivity.
    intros x y. cbn. unfold ep_set. destruct ((x =? fd) && (y =? o)%nat) eqn:Hb; auto.
    apply andb_prop in Hb. destruct Hb as [H1 H2]. apply Z.eqb_eq in H1. apply Nat.eqb_eq in H2. subst. rewrite Hnone. auto.
  - cbn. split; auto. discriminate.
Qed.

(* the stop sequence of uv__poll_stop and of the UV_EBADF branch of uv__poll_io:
   uv__io_stop(all); uv__handle_stop; invalidate unless another watcher is registered *)
Definition stop_seq (s : state) (i : nat) (fd : Z) : state :=
  invalidate_unless_watched
    (hupd (io_stop s i ALLEV) i (fun h => h_set_ghost (h_set_active h false) (g_req h) None)) fd.

Lemma KI_stop_seq s i : KI s -> livei s i -> h_kind (hget s i) = KPoll ->
  let s' := stop_seq s i (h_fd (hget s i)) in
  KI s' /\ (forall fd, reg s' fd <> Some i) /\
  (forall fd j, reg s' fd = Some j -> reg s fd = Some j) /\
  livei s' i /\ h_fd (hget s' i) = h_fd (hget s i) /\ length (hs s') = length (hs s) /\
  h_kind (hget s' i) = h_kind (hget s i) /\ fdt s' = fdt s.
Proof.
  intros K Hli Hk. destruct Hli as [Hl Hc]. cbv zeta. unfold stop_seq.
  pose proof (KI_io_stop s i ALLEV K (conj Hl Hc)) as K1. unfold xraw in K1. rewrite Hk in K1.
  assert (Hself : hget (io_stop s i ALLEV) i = h_set_ev (h_set_pev (hget s i) m0) m0).
  { rewrite io_stop_self by auto. cbv zeta. rewrite mdiff_all by apply (k_pev _ s K). reflexivity. }
  assert (Hl1 : length (hs (io_stop s i ALLEV)) = length (hs s)) by apply io_stop_length.
  destruct (io_stop_same s i ALLEV) as [_ [Sf1 _]].
  set (s1 := io_stop s i ALLEV) in *.
  assert (Hun1 : forall fd, reg s1 fd <> Some i).
  { intros fd Hr. destruct (k_reg _ s1 K1 _ _ Hr) as [_ [_ Hz]]. rewrite Hself in Hz. discriminate. }
  assert (Hsub1 : forall fd j, reg s1 fd = Some j -> reg s fd = Some j).
  { intros fd j Hr. unfold s1 in Hr. rewrite io_stop_reg in Hr by auto. cbv zeta in Hr.
    destruct (_ && _ && _); [discriminate|auto]. }
  set (s2 := hupd s1 i (fun h => h_set_ghost (h_set_active h false) (g_req h) None)).
  assert (K2 : KIx (Some (h_fd (hget s i))) s2) by (apply KI_hupd_kview; auto; intros; reflexivity).
  assert (Hs2 : hget s2 i = h_set_ghost (h_set_active (hget s1 i) false) (g_req (hget s1 i)) None).
  { unfold s2. rewrite hget_hupd_same by lia. reflexivity. }
  destruct (iuw_same s2 (h_fd (hget s i))) as [Sh [Sr [_ [_ [_ [_ [_ [_ [_ [_ [Sf _]]]]]]]]]]]. cbv zeta in *.
  assert (Hg : forall j, hget (invalidate_unless_watched s2 (h_fd (hget s i))) j = hget s2 j)
    by (intro j; unfold hget at 1; rewrite Sh; reflexivity).
  assert (K3 : KI (invalidate_unless_watched s2 (h_fd (hget s i)))).
  { destruct (iuw_cases s2 (h_fd (hget s i))) as [[Hr ->]|[Hr ->]].
    - eapply KIx_of_reg; eauto.
    - eapply KI_invalidate; eauto. }
  split_all; auto.
  - intros fd. rewrite Sr. unfold s2. cbn [reg hupd set_hs]. apply Hun1.
  - intros fd j. rewrite Sr. unfold s2. cbn [reg hupd set_hs]. apply Hsub1.
  - split; [rewrite Sh; unfold s2; rewrite hupd_length; lia|]. rewrite Hg, Hs2, Hself. auto.
  - rewrite Hg, Hs2, Hself. reflexivity.
  - rewrite Sh. unfold s2. rewrite hupd_length. auto.
  - rewrite Hg, Hs2, Hself. reflexivity.
  - rewrite Sf. unfold s2. cbn [fdt hupd set_hs]. apply Sf1.
Qed.

Lemma poll_stop_seq s i : (i < length (hs s))%nat -> poll_stop s i = stop_seq s i (h_fd (hget s i)).
Proof.
  intros Hl. unfold poll_stop, stop_seq. f_equal.
  rewrite hget_hupd_same by (rewrite io_stop_length; auto). cbn.
  rewrite io_stop_self by auto. cbv zeta. destruct (mzero _); reflexivity.
Qed.

Lemma KI_poll_start s i m : KI s -> livei s i -> h_kind (hget s i) = KPoll ->
  fdt s (h_fd (hget s i)) <> None -> mand m ALLEV = m -> KI (fst (poll_start s i m)).
Proof.
  intros K Hli Hk Hopen Hm. unfold poll_start.
  destruct (match reg s (h_fd (hget s i)) with Some j => negb (Nat.eqb i j) | None => false end) eqn:Ho; auto.
  rewrite poll_stop_seq by apply Hli.
  destruct (KI_stop_seq s i K Hli Hk) as [K1 [Hun [Hsub [Hli1 [Hfd [Hlen [_ Hf]]]]]]]. cbv zeta in *.
  set (s1 := stop_seq s i (h_fd (hget s i))) in *.
  destruct (mzero m) eqn:Hz; auto. cbn [fst].
  apply KI_hupd_kview; [intros; reflexivity|]. apply KI_io_start; auto.
  - rewrite Hm. auto.
  - apply mand_allev_errhup.
  - rewrite Hf, Hfd. auto.
  - intros j Hr. rewrite Hfd in Hr. apply Hsub in Hr. rewrite Hr in Ho.
    destruct (Nat.eqb_spec i j); [auto|discriminate].
Qed.

Lemma KI_io_close s i : KI s -> livei s i -> rawi s i ->
  KI (io_close s i) /\ (forall fd, reg (io_close s i) fd <> Some i) /\
  (forall o, ep (io_close s i) (h_fd (hget (io_close s i) i)) o = None) /\ rawi (io_close s i) i.
Proof.
  intros K [Hl Hc] Hraw. unfold io_close.
  pose proof (KI_io_stop s i ALLEV K (conj Hl Hc)) as K1. unfold xraw in K1. unfold rawi in Hraw. rewrite Hraw in K1.
  assert (Hself : hget (io_stop s i ALLEV) i = h_set_ev (h_set_pev (hget s i) m0) m0).
  { rewrite io_stop_self by auto. cbv zeta. rewrite mdiff_all by apply (k_pev _ s K). reflexivity. }
  assert (Hl1 : length (hs (io_stop s i ALLEV)) = length (hs s)) by apply io_stop_length.
  set (s1 := io_stop s i ALLEV) in *.
  assert (Hun1 : forall fd, reg s1 fd <> Some i).
  { intros fd Hr. destruct (k_reg _ s1 K1 _ _ Hr) as [_ [_ Hz]]. rewrite Hself in Hz. discriminate. }
  set (s2 := set_prun (set_pend s1 (remove_id i (pend s1))) (remove_id i (prun s1))).
  assert (K2 : KI s2) by (eapply KI_same; [..|exact K1]; reflexivity).
  change (hget s2 i) with (hget s1 i).
  assert (Hli2 : livei s2 i) by (split; [cbn; lia|change (hget s2 i) with (hget s1 i); rewrite Hself; auto]).
  assert (Hrw2 : rawi s2 i) by (unfold rawi; change (hget s2 i) with (hget s1 i); rewrite Hself; auto).
  assert (Hnone : reg s2 (h_fd (hget s1 i)) = None).
  { destruct (reg s2 (h_fd (hget s1 i))) as [j|] eqn:Hr; auto. exfalso.
    destruct (k_reg _ s2 K2 _ _ Hr) as [X [Y _]]. assert (i = j) by (apply (k_rawx _ s2 K2); auto). subst j.
    eapply Hun1; eauto. }
  destruct (KI_invalidate None s2 _ K2 Hnone (or_introl eq_refl)) as [K3 Hgone].
  destruct (invalidate_same s2 (h_fd (hget s1 i))) as [Sh [Sr _]]. cbv zeta in *.
  assert (Hg : forall j, hget (invalidate s2 (h_fd (hget s1 i))) j = hget s2 j) by (intro j; unfold hget at 1; rewrite Sh; reflexivity).
  split_all; auto.
  - intros fd. rewrite Sr. apply Hun1.
  - intro o. rewrite Hg. apply Hgone.
  - unfold rawi. rewrite Hg. exact Hrw2.
Qed.

Definition EK (e : event) : Prop :=
  match e with EPwait s _ => SYNC s | _ => True end.

Lemma valid_livei s i : valid s i = true -> livei s i.
Proof.
  unfold valid. intros H. apply andb_prop in H. destruct H as [H1 H2]. split.
  - apply Nat.ltb_lt; auto.
  - destruct (h_closed (hget s i)); auto; try discriminate.
Qed.

Lemma KI_api fdo s o : KI s -> KI (fst (api fdo s o)) /\ Forall EK (snd (api fdo s o)).
Proof.
  intros K. unfold api. rewrite (k_abort _ s K).
  destruct o.
  - (* OOpen *)
    destruct (slots s sl =? -1); [|split; [auto|repeat constructor]].
    set (s1 := set_nopen s (S (nopen s))).
    assert (K1 : KI s1) by (eapply KI_same; [..|exact K]; reflexivity).
    destruct (0 <=? fdo (nopen s)); cbn [andb]; [|split; [auto|repeat constructor]].
    destruct (fdt s1 (fdo (nopen s))) eqn:Hf; cbn [fst snd]; (split; [|repeat constructor]); auto.
    eapply KI_same; [..|apply (KI_k_open s1 _ K1 Hf)]; reflexivity.
  - (* ODup *)
    destruct (_ && _); [|split; [auto|repeat constructor]].
    set (s1 := set_nopen s (S (nopen s))).
    assert (K1 : KI s1) by (eapply KI_same; [..|exact K]; reflexivity).
    destruct (0 <=? fdo (nopen s)); cbn [andb]; [|split; [auto|repeat constructor]].
    destruct (fdt s1 (fdo (nopen s))) eqn:Hf; cbn [fst snd]; (split; [|repeat constructor]); auto.
    eapply KI_same; [..|apply (KI_k_dup s1 (slots s1 src) _ K1 Hf)]; reflexivity.
  - (* OCloseFd *)
    destruct (slots s sl =? -1); cbn [orb]; [split; [auto|repeat constructor]|].
    destruct (any_on s (slots s sl) busy) eqn:Hb; cbn [orb]; [split; [auto|repeat constructor]|].
    destruct (strict s && any_on s (slots s sl) live); [split; [auto|repeat constructor]|].
    cbn [fst snd]. split; [|repeat constructor]. destruct (no_busy_on s _ K Hb) as [B1 B2].
    eapply KI_same; [..|apply (KI_k_close s (slots s sl) K B1 B2)]; reflexivity.
  - split; [auto|constructor].
  - (* OInit *)
    destruct (slots s sl =? -1); cbn [orb]; [split; [auto|repeat constructor]|].
    unfold poll_init, fd_exists. destruct (reg s (slots s sl)) eqn:Hrn; cbn [negb andb orb].
    + destruct (strict s && any_on s (slots s sl) live); [split; [auto|repeat constructor]|].
      cbn [fst snd]. split; [|repeat constructor]. apply KI_append; auto.
    + destruct (any_on s (slots s sl) (fun h => live h && is_raw h)) eqn:Har; cbn [orb]; [split; [auto|repeat constructor]|].
      destruct (strict s && any_on s (slots s sl) live); [split; [auto|repeat constructor]|].
      pose proof (no_live_raw_on _ _ Har) as Hno.
      destruct (KI_check_fd s (slots s sl) K Hrn Hno) as [K1 Hrc].
      pose proof (io_check_fd_same s (slots s sl)) as X. cbv zeta in X.
      destruct (io_check_fd s (slots s sl)) as [s1 rc]. cbn [fst snd] in *.
      destruct X as [Xh [_ [_ [_ [_ [_ [_ [_ [_ [_ [Xf _]]]]]]]]]]].
      destruct (Z.eqb_spec rc 0); cbn [fst snd]; (split; [|repeat constructor]); apply KI_append; auto.
      right. cbn. split; [|discriminate]. intros j Hj Hr.
      assert (Hg : hget s1 j = hget s j) by (unfold hget; rewrite Xh; auto).
      rewrite Hg. apply Hno; [destruct Hj as [A B]; rewrite Hg in B; rewrite Xh in A; split; auto|].
      unfold rawi in *. rewrite Hg in Hr. auto.
  - (* ORawInit *)
    destruct (slots s sl =? -1); cbn [orb]; [split; [auto|repeat constructor]|].
    destruct (fdt s (slots s sl)) eqn:Hf; cbn [orb]; [|split; [auto|repeat constructor]].
    destruct (any_on s (slots s sl) live) eqn:Ha; [split; [auto|repeat constructor]|].
    cbn [fst snd]. split; [|repeat constructor]. unfold raw_init. apply KI_append; auto.
    right. cbn. split; [intros j Hj _|intros _]; apply no_live_on; auto.
  - (* OStart *)
    destruct (valid s h && _) eqn:Hv; [|split; [auto|repeat constructor]].
    apply andb_prop in Hv. destruct Hv as [Hv Hop]. apply valid_livei in Hv.
    assert (Hopen : fdt s (h_fd (hget s h)) <> None) by (destruct (fdt s (h_fd (hget s h))); [discriminate|discriminate]).
    destruct (h_kind (hget s h)) eqn:Hk.
    + pose proof (KI_poll_start s h (mand m ALLEV) K Hv Hk Hopen (mand_idem_all m)) as X.
      destruct (poll_start s h (mand m ALLEV)) as [s1 rc]. cbn [fst snd] in *. split; [auto|repeat constructor].
    + destruct (mzero (mand m ALLEV)) eqn:Hz; cbn [fst snd]; (split; [|repeat constructor]); auto.
      apply KI_io_start; auto. apply mand_allev_errhup.
      intros j Hr. destruct (k_reg _ s K _ _ Hr) as [X [Y _]]. symmetry. apply (k_rawx _ s K); auto.
  - (* OStop *)
    destruct (valid s h) eqn:Hv; [|split; [auto|repeat constructor]]. apply valid_livei in Hv.
    destruct (h_kind (hget s h)) eqn:Hk.
    + cbn [fst snd]. split; [|repeat constructor]. rewrite poll_stop_seq by apply Hv. apply (KI_stop_seq s h K Hv Hk).
    + destruct (mzero (mand m ALLEV)); cbn [fst snd]; (split; [|repeat constructor]); auto.
      pose proof (KI_io_stop s h (mand m ALLEV) K Hv) as X. unfold xraw in X. rewrite Hk in X. exact X.
  - (* OClose *)
    destruct (valid s h) eqn:Hv; [|split; [auto|repeat constructor]]. apply valid_livei in Hv.
    destruct (h_kind (hget s h)) eqn:Hk; cbn [fst snd]; (split; [|repeat constructor]).
    + rewrite poll_stop_seq by apply Hv.
      destruct (KI_stop_seq s h K Hv Hk) as [K1 [Hun [_ [_ [_ [_ [Hkd _]]]]]]]. cbv zeta in *.
      apply KI_close_flag; auto. unfold rawi. rewrite Hkd, Hk. discriminate.
    + destruct (KI_io_close s h K Hv Hk) as [K1 [Hun [Hgone _]]]. apply KI_close_flag; auto.
  - (* OFeed *)
    destruct (valid s h && is_raw (hget s h)); [|split; [auto|repeat constructor]].
    cbn [fst snd]. split; [|repeat constructor]. unfold io_feed. destruct (_ || _); auto.
    eapply KI_same; [..|exact K]; reflexivity.
  - (* OActive *)
    case_all; cbn [fst snd]; (split; [auto|repeat constructor]).
  - (* OForeign *)
    destruct (_ =? _); cbn [fst snd]; (split; [auto|repeat constructor]).
  - split; [auto|constructor].
Qed.
(* ---- the registration loop ------------------------------------------------------------
   [ideal_step s i]: what processing watcher i of the queue must achieve: the kernel has
   its descriptor with exactly the requested mask and w->events = w->pevents.  While
   the queue is being worked off, the invariant holds of the state with the rest of the
   queue put back ([set_wq _ r]). *)
Definition ideal_ep (s : state) (fd : Z) (m : mask) : Z -> nat -> option mask :=
  match fdt s fd with Some o => ep_set (ep s) fd o (Some m) | None => ep s end.

Definition ideal_step (s : state) (i : nat) : state :=
  set_ep (hupd s i (fun h => h_set_ev h (h_pev h)))
         (ideal_ep s (h_fd (hget s i)) (h_pev (hget s i))).

Lemma KI_ideal_step s i r s' :
  KI (set_wq s (i :: r)) ->
  length (hs s') = length (hs s) ->
  (forall j, kview (hget s' j) = kview (hget (hupd s i (fun h => h_set_ev h (h_pev h))) j)) ->
  reg s' = reg s -> fdt s' = fdt s -> pairs s' = pairs s -> sq s' = sq s ->
  aborted s' = aborted s ->
  (forall x y, ep s' x y = ideal_ep s (h_fd (hget s i)) (h_pev (hget s i)) x y) ->
  KI (set_wq s' r).
Proof.
  intros K Hlen Hv Hr Hf Hp Hq Ha He.
  destruct K. cbn [wq set_wq reg hs sq aborted fdt ep pairs] in *.
  assert (Hri : reg s (h_fd (hget s i)) = Some i) by (apply k_wq0; left; auto).
  destruct (k_reg0 _ _ Hri) as [Hli [_ Hpz]].
  assert (Hl : (i < length (hs s))%nat) by apply Hli.
  destruct (fdt s (h_fd (hget s i))) as [o|] eqn:Hfo; [|exfalso; apply (k_regopen0 _ _ Hri); auto].
  unfold ideal_ep in He. rewrite Hfo in He.
  assert (Hfd : forall j, h_fd (hget s' j) = h_fd (hget s j)).
  { intro j. pose proof (Hv j) as X. unfold kview in X. rewrite hget_hupd in X. destruct (_ && _); cbn in X; congruence. }
  assert (Hpv : forall j, h_pev (hget s' j) = h_pev (hget s j)).
  { intro j. pose proof (Hv j) as X. unfold kview in X. rewrite hget_hupd in X. destruct (_ && _); cbn in X; congruence. }
  assert (Hcl : forall j, h_closed (hget s' j) = h_closed (hget s j)).
  { intro j. pose proof (Hv j) as X. unfold kview in X. rewrite hget_hupd in X. destruct (_ && _); cbn in X; congruence. }
  assert (Hkd : forall j, h_kind (hget s' j) = h_kind (hget s j)).
  { intro j. pose proof (Hv j) as X. unfold kview in X. rewrite hget_hupd in X. destruct (_ && _); cbn in X; congruence. }
  assert (Hevo : forall j, j <> i -> h_ev (hget s' j) = h_ev (hget s j)).
  { intros j Hn. pose proof (Hv j) as X. unfold kview in X. rewrite hget_hupd_other in X by auto. congruence. }
  assert (Hevi : h_ev (hget s' i) = h_pev (hget s i)).
  { pose proof (Hv i) as X. unfold kview in X. rewrite hget_hupd_same in X by auto. cbn in X. congruence. }
  assert (Hlv : forall j, livei (set_wq s' r) j <-> livei (set_wq s (i :: r)) j).
  { intro j. unfold livei. cbn [hs set_wq]. change (hget (set_wq s' r) j) with (hget s' j).
    change (hget (set_wq s (i :: r)) j) with (hget s j). rewrite Hlen, Hcl. tauto. }
  assert (Hrw : forall j, rawi (set_wq s' r) j <-> rawi (set_wq s (i :: r)) j).
  { intro j. unfold rawi. change (hget (set_wq s' r) j) with (hget s' j).
    change (hget (set_wq s (i :: r)) j) with (hget s j). rewrite Hkd. tauto. }
  assert (Hother : forall fd j, reg s fd = Some j -> j <> i -> fd <> h_fd (hget s i)).
  { intros fd j Hc Hn ->. congruence. }
  inversion k_wqnd0 as [|? ? Hnotin Hnd]; subst.
  constructor; cbn [wq set_wq reg hs sq aborted fdt ep pairs].
  - congruence.
  - congruence.
  - intro j. change (hget (set_wq s' r) j) with (hget s' j). rewrite Hpv. apply k_pev0.
  - intros fd j Hc. rewrite Hr in Hc. rewrite Hlv. change (hget (set_wq s' r) j) with (hget s' j).
    rewrite Hfd, Hpv. apply k_reg0; auto.
  - intros fd j Hc. rewrite Hr in Hc. unfold synced. change (hget (set_wq s' r) j) with (hget s' j).
    cbn [fdt ep set_wq]. rewrite Hf. destruct (Nat.eq_dec j i) as [->|Hn].
    + right. destruct (k_reg0 _ _ Hc) as [_ [Hfi _]]. subst fd. rewrite Hevi, Hpv. split; auto.
      exists o. split; auto. rewrite He. apply ep_set_same.
    + destruct (k_sync0 _ _ Hc) as [[Hin|Hin]|[E [o' [F G]]]]; [congruence|left; auto|].
      right. rewrite Hevo, Hpv by auto. split; auto. exists o'. split; auto. rewrite He.
      rewrite ep_set_other; auto. eapply Hother; eauto.
  - exact Hnd.
  - intros j Hin. change (hget (set_wq s' r) j) with (hget s' j). rewrite Hr, Hfd. apply k_wq0. right; auto.
  - intros fd j Hc Hev. rewrite Hr in Hc. change (hget (set_wq s' r) j) with (hget s' j) in Hev. rewrite Hf.
    destruct (Nat.eq_dec j i) as [->|Hn].
    + destruct (k_reg0 _ _ Hc) as [_ [Hfi _]]. subst fd. exists o. split; auto. rewrite He, ep_set_same. discriminate.
    + rewrite Hevo in Hev by auto. destruct (k_ev0 _ _ Hc Hev) as [o' [F G]]. exists o'. split; auto.
      rewrite He, ep_set_other; auto. eapply Hother; eauto.
  - intros j Hc. change (hget (set_wq s' r) j) with (hget s' j) in *. rewrite Hr, Hfd in Hc. rewrite Hpv.
    destruct (Nat.eq_dec j i) as [->|Hn]; [contradiction|]. rewrite Hevo by auto. apply k_unreg0; auto.
  - intros a b Ha' Hb' Hk. rewrite !Hlv in *. rewrite Hrw in Hk. change (hget (set_wq s' r) a) with (hget s' a).
    change (hget (set_wq s' r) b) with (hget s' b). rewrite !Hfd. apply k_rawx0; auto.
  - intros fd j Hc. rewrite Hr in Hc. rewrite Hf. eauto.
  - intros fd o' m Hm. rewrite He in Hm. rewrite Hf. unfold ep_set in Hm.
    assert (Hjust : forall x, just None (set_wq s (i :: r)) x -> just None (set_wq s' r) x).
    { intros x [Y|[[j [Y1 [Y2 Y3]]]|Y]]; [left; cbn [reg set_wq] in *; congruence| |discriminate].
      right. left. exists j. rewrite Hlv, Hrw. change (hget (set_wq s' r) j) with (hget s' j). rewrite Hfd. auto. }
    destruct ((fd =? h_fd (hget s i)) && (o' =? o)%nat) eqn:Hb.
    + apply andb_prop in Hb. destruct Hb as [H1 H2]. apply Z.eqb_eq in H1. apply Nat.eqb_eq in H2. subst.
      split; auto. left. cbn [reg set_wq]. congruence.
    + destruct (k_ep0 _ _ _ Hm) as [X Y]. split; auto.
  - intros fd o' Hx. rewrite Hf in Hx. rewrite Hp. auto.
Qed.

Lemma EEXIST_nz : (EEXIST =? 0) = false. Proof. reflexivity. Qed.

(* without the control ring: epoll_ctl per watcher, ADD falling back to MOD *)
Lemma KI_reg_loop_noring q : forall s, ring s = false -> KI (set_wq s q) -> KI (set_wq (reg_loop s q) []).
Proof.
  induction q as [|i r IH]; intros s Hring K; cbn [reg_loop]; auto.
  set (s1 := hupd s i (fun h => h_set_ev h (h_pev h))).
  change (ring s1) with (ring s). rewrite Hring.
  set (fd := h_fd (hget s i)). set (m := h_pev (hget s i)).
  assert (Hri : reg s fd = Some i) by (apply (k_wq _ _ K); left; auto).
  destruct (k_reg _ _ K _ _ Hri) as [Hli _].
  pose proof (k_regopen _ _ K _ _ Hri) as Hfo. cbn [fdt set_wq] in Hfo.
  destruct (fdt s fd) as [o|] eqn:Hf; [|congruence].
  assert (Hstep : forall s', hs s' = hs s1 -> reg s' = reg s -> fdt s' = fdt s -> pairs s' = pairs s ->
                  sq s' = sq s -> aborted s' = aborted s -> ring s' = ring s ->
                  ep s' = ep_set (ep s) fd o (Some m) -> KI (set_wq (reg_loop s' r) [])).
  { intros s' H1 H2 H3 H4 H5 H7 H8 H9. apply IH; [congruence|].
    eapply (KI_ideal_step s i r s'); eauto.
    - rewrite H1. apply hupd_length.
    - intro j. unfold hget. rewrite H1. reflexivity.
    - intros x y. unfold ideal_ep. fold fd. rewrite Hf, H9. reflexivity. }
  assert (Hmod : ep s fd o <> None -> KI (set_wq (reg_loop (fst (epoll_ctl s1 CMod fd m)) r) [])).
  { intros Hx. apply Hstep; unfold epoll_ctl; change (fdt s1 fd) with (fdt s fd); rewrite Hf;
      change (ep s1 fd o) with (ep s fd o); destruct (ep s fd o); try congruence; reflexivity. }
  assert (Hmode : ep s fd o <> None -> snd (epoll_ctl s1 CMod fd m) = 0).
  { intros Hx. unfold epoll_ctl; change (fdt s1 fd) with (fdt s fd); rewrite Hf;
      change (ep s1 fd o) with (ep s fd o); destruct (ep s fd o); try congruence; reflexivity. }
  destruct (mzero (h_ev (hget s i))) eqn:Hz.
  - (* ADD *)
    destruct (ep s fd o) as [m'|] eqn:He.
    + assert (Hx : epoll_ctl s1 CAdd fd m = (s1, EEXIST)).
      { unfold epoll_ctl. change (fdt s1 fd) with (fdt s fd). rewrite Hf. change (ep s1 fd o) with (ep s fd o). rewrite He. reflexivity. }
      rewrite Hx, EEXIST_nz.
      assert (Hne : Some m' <> None) by discriminate.
      pose proof (Hmod Hne) as Y. pose proof (Hmode Hne) as Z.
      destruct (epoll_ctl s1 CMod fd m) as [s3 e2]. cbn [fst snd] in *. subst e2. cbn. exact Y.
    + assert (Hx : epoll_ctl s1 CAdd fd m = (set_ep s1 (ep_set (ep s1) fd o (Some m)), 0)).
      { unfold epoll_ctl. change (fdt s1 fd) with (fdt s fd). rewrite Hf. change (ep s1 fd o) with (ep s fd o). rewrite He. reflexivity. }
      rewrite Hx. cbn. apply Hstep; reflexivity.
  - (* MOD *)
    assert (Hne : ep s fd o <> None).
    { destruct (k_ev _ _ K fd i Hri Hz) as [o' [F G]]. cbn [fdt ep set_wq] in F, G. congruence. }
    pose proof (Hmod Hne) as Y. pose proof (Hmode Hne) as Z.
    destruct (epoll_ctl s1 CMod fd m) as [s3 e2]. cbn [fst snd] in *. subst e2. cbn. exact Y.
Qed.

(* ---- with the control ring ---------------------------------------------------------------
   [vexec]: what an ADD/MOD entry of the ring must achieve once flushed (possibly through
   the EEXIST -> MOD retry); [virt_ep]: the interest set after all prepared entries. *)
Notation entry := (ctlop * Z * mask)%type (only parsing).
Definition efd (e : entry) : Z := snd (fst e).
Definition vexec (t : Z -> option nat) (e : Z -> nat -> option mask) (ent : entry) :=
  match t (efd ent) with Some o => ep_set e (efd ent) o (Some (snd ent)) | None => e end.
Definition vfold (t : Z -> option nat) (l : list entry) (e : Z -> nat -> option mask) :=
  fold_left (vexec t) l e.

Lemma vexec_at t e ent x y :
  vexec t e ent x y =
    match t (efd ent) with
    | Some o => if (x =? efd ent) && Nat.eqb y o then Some (snd ent) else e x y
    | None => e x y
    end.
Proof. unfold vexec. destruct (t (efd ent)); reflexivity. Qed.

Lemma vfold_local t l : forall e1 e2 x y, e1 x y = e2 x y -> vfold t l e1 x y = vfold t l e2 x y.
Proof.
  induction l as [|ent r IH]; intros e1 e2 x y H; cbn; auto.
  apply IH. rewrite !vexec_at. destruct (t (efd ent)); auto. destruct (_ && _); auto.
Qed.

Lemma vfold_other t l : forall e x y, ~ In x (map efd l) -> vfold t l e x y = e x y.
Proof.
  induction l as [|ent r IH]; intros e x y H; cbn; auto.
  cbn in H. unfold vfold in IH. rewrite IH by tauto. rewrite vexec_at. destruct (t (efd ent)); auto.
  destruct (Z.eqb_spec x (efd ent)); auto. exfalso. apply H. left. auto.
Qed.

Lemma vfold_commute t l ent e x y : ~ In (efd ent) (map efd l) ->
  vfold t (l ++ [ent]) e x y = vfold t (ent :: l) e x y.
Proof.
  intros H. unfold vfold. rewrite fold_left_app. cbn. fold (vfold t l e). fold (vfold t l (vexec t e ent)).
  rewrite vexec_at. destruct (t (efd ent)) as [o|] eqn:Ht.
  - destruct ((x =? efd ent) && Nat.eqb y o) eqn:Hb.
    + apply andb_prop in Hb. destruct Hb as [H1 H2]. apply Z.eqb_eq in H1. apply Nat.eqb_eq in H2. subst.
      rewrite vfold_other by auto. rewrite vexec_at, Ht, Z.eqb_refl, Nat.eqb_refl. reflexivity.
    + apply vfold_local. rewrite vexec_at, Ht, Hb. reflexivity.
  - apply vfold_local. rewrite vexec_at, Ht. reflexivity.
Qed.

Definition okent (s : state) (ent : entry) : Prop :=
  fst (fst ent) <> CDel /\
  exists o, fdt s (efd ent) = Some o /\ (fst (fst ent) = CMod -> ep s (efd ent) o <> None).

Definition kframe (s s' : state) : Prop :=
  hs s' = hs s /\ reg s' = reg s /\ wq s' = wq s /\ fdt s' = fdt s /\ pairs s' = pairs s /\
  strict s' = strict s /\ ring s' = ring s.

Lemma kframe_refl s : kframe s s.
Proof. unfold kframe. split_all; reflexivity. Qed.
Lemma kframe_trans a b c : kframe a b -> kframe b c -> kframe a c.
Proof. unfold kframe. intros [A1 [A2 [A3 [A4 [A5 [A6 A7]]]]]] [B1 [B2 [B3 [B4 [B5 [B6 B7]]]]]]. split_all; congruence. Qed.

Lemma NoDup_move {A} (x : A) l : NoDup (x :: l) -> NoDup (l ++ [x]).
Proof. intros H. inversion H; subst. apply NoDup_app_one; auto. Qed.

Lemma okent_other s ent fd o v : okent s ent -> efd ent <> fd ->
  okent (set_ep s (ep_set (ep s) fd o v)) ent.
Proof.
  intros [A [o' [B C]]] Hn. split; auto. exists o'. cbn. split; auto. intros Hm. rewrite ep_set_other; auto.
Qed.

(* one round of uv__epoll_ctl_flush over the submitted entries *)
Lemma flush_entries_spec l : forall s retry,
  aborted s = false -> NoDup (map efd (l ++ retry)) -> (forall ent, In ent (l ++ retry) -> okent s ent) ->
  let s' := fst (flush_entries s l retry) in
  let retry' := snd (flush_entries s l retry) in
  aborted s' = false /\ kframe s s' /\ NoDup (map efd retry') /\
  (forall ent, In ent retry' -> okent s' ent) /\
  (forall ent, In ent retry' -> In ent retry \/ fst (fst ent) = CMod) /\
  (forall x y, vfold (fdt s) retry' (ep s') x y = vfold (fdt s) (l ++ retry) (ep s) x y).
Proof.
  induction l as [|[[op fd] m] r IH]; intros s retry Ha Hnd Hok; cbv zeta.
  - cbn. split_all; auto. apply kframe_refl.
  - cbn [flush_entries].
    assert (Hent : okent s (op, fd, m)) by (apply Hok; left; auto).
    destruct Hent as [Hop [o [Hf Hmod]]]. cbn in Hop, Hf, Hmod.
    cbn [app map] in Hnd. change (efd (op, fd, m)) with fd in Hnd.
    assert (Hsucc : forall s1, s1 = set_ep s (ep_set (ep s) fd o (Some m)) ->
      let s' := fst (flush_entries s1 r retry) in
      let retry' := snd (flush_entries s1 r retry) in
      aborted s' = false /\ kframe s s' /\ NoDup (map efd retry') /\
      (forall ent, In ent retry' -> okent s' ent) /\
      (forall ent, In ent retry' -> In ent retry \/ fst (fst ent) = CMod) /\
      (forall x y, vfold (fdt s) retry' (ep s') x y = vfold (fdt s) (((op, fd, m) :: r) ++ retry) (ep s) x y)).
    { intros s1 ->. inversion Hnd as [|? ? Hnotin Hnd']; subst.
      destruct (IH (set_ep s (ep_set (ep s) fd o (Some m))) retry) as [I1 [I2 [I3 [I4 [I5 I6]]]]]; auto.
      - intros ent Hin. apply okent_other; [apply Hok; right; auto|].
        intros Hx. apply Hnotin. rewrite <- Hx. apply in_map. auto.
      - cbv zeta. split_all; auto.
        intros x y. cbn [fdt set_ep] in I6. rewrite I6. cbn. unfold vfold. cbn.
        apply vfold_local. unfold vexec. change (efd (op, fd, m)) with fd. rewrite Hf. reflexivity. }
    unfold epoll_ctl. rewrite Hf.
    destruct op; [| |congruence].
    + destruct (ep s fd o) as [m'|] eqn:He; [|apply Hsucc; reflexivity].
      cbn [fst snd]. rewrite EEXIST_nz. cbn. 
      inversion Hnd as [|? ? Hnotin Hnd']; subst.
      destruct (IH s (retry ++ [(CMod, fd, m)])) as [I1 [I2 [I3 [I4 [I5 I6]]]]]; auto.
      * rewrite app_assoc, map_app. cbn. apply NoDup_app_one; auto. 
      * intros ent Hin. rewrite app_assoc in Hin. apply in_app_or in Hin. destruct Hin as [Hin|[<-|[]]].
        -- apply Hok. right. auto.
        -- split; [discriminate|]. exists o. cbn. split; auto. intros _. congruence.
      * cbv zeta. split_all; auto.
        -- intros ent Hin. destruct (I5 _ Hin) as [Hx|Hx]; auto. apply in_app_or in Hx. destruct Hx as [|[<-|[]]]; auto.
        -- intros x y. rewrite I6. rewrite app_assoc. rewrite vfold_commute.
           ++ unfold vfold. cbn. reflexivity.
           ++ exact Hnotin.
    + destruct (ep s fd o) as [m'|] eqn:He; [apply Hsucc; reflexivity|]. exfalso. apply Hmod; auto.
Qed.

(* the retried entries are MODs of registrations that exist: the second round leaves nothing *)
Lemma flush_mod_only l : forall s retry,
  (forall ent, In ent l -> fst (fst ent) = CMod) -> NoDup (map efd l) ->
  (forall ent, In ent l -> okent s ent) -> snd (flush_entries s l retry) = retry.
Proof.
  induction l as [|[[op fd] m] r IH]; intros s retry Hm Hnd Hok; cbn [flush_entries]; auto.
  assert (op = CMod) by (apply (Hm (op, fd, m)); left; auto). subst op.
  destruct (Hok (CMod, fd, m)) as [_ [o [Hf Hx]]]; [left; auto|]. cbn in Hf, Hx.
  unfold epoll_ctl. rewrite Hf. destruct (ep s fd o) as [m'|] eqn:He; [|exfalso; apply Hx; auto].
  cbn. inversion Hnd as [|? ? Hnotin Hnd']; subst. apply IH; auto.
  - intros ent Hin. apply Hm. right; auto.
  - intros ent Hin. apply okent_other; [apply Hok; right; auto|]. intros Hx'. apply Hnotin.
    change (efd (CMod, fd, m)) with fd. rewrite <- Hx'. apply in_map. auto.
Qed.

(* while (sqhead != sqtail) uv__epoll_ctl_flush() *)
Lemma ctl_flush_all_spec s :
  aborted s = false -> NoDup (map efd (sq s)) -> (forall ent, In ent (sq s) -> okent s ent) ->
  let s' := ctl_flush_all s in
  aborted s' = false /\ kframe s s' /\ sq s' = [] /\
  (forall x y, ep s' x y = vfold (fdt s) (sq s) (ep s) x y).
Proof.
  intros Ha Hnd Hok. cbv zeta. unfold ctl_flush_all.
  assert (Hcf : forall z, ctl_flush z = set_sq (fst (flush_entries (set_sq z []) (sq z) []))
                                               (snd (flush_entries (set_sq z []) (sq z) []))).
  { intro z. unfold ctl_flush. destruct (flush_entries _ _ _); reflexivity. }
  destruct (sq s) as [|e0 l0] eqn:Hsq.
  - split_all; auto. apply kframe_refl.
  - rewrite <- Hsq in *. clear Hsq e0 l0.
    destruct (flush_entries_spec (sq s) (set_sq s []) []) as [I1 [I2 [I3 [I4 [I5 I6]]]]];
      try rewrite app_nil_r; auto.
    cbv zeta in *. rewrite app_nil_r in I6. cbn [fdt ep set_sq] in I6.
    rewrite !Hcf.
    remember (fst (flush_entries (set_sq s []) (sq s) [])) as s1 eqn:Hs1.
    remember (snd (flush_entries (set_sq s []) (sq s) [])) as retry eqn:Hrt.
    cbn [sq set_sq].
    assert (Hmods : forall ent, In ent retry -> fst (fst ent) = CMod).
    { intros ent Hin. destruct (I5 _ Hin) as [[]|]; auto. }
    assert (Hfr1 : kframe s s1).
    { eapply kframe_trans; [|exact I2]. unfold kframe. split_all; reflexivity. }
    destruct retry as [|e1 l1] eqn:Hr.
    + split_all; auto;
        try (destruct Hfr1 as [A1 [A2 [A3 [A4 [A5 [A6 A7]]]]]]; unfold kframe; split_all; auto; fail);
        try (intros x y; rewrite <- I6; reflexivity).
    + rewrite <- Hr in *. clear Hr e1 l1.
      pose proof (flush_mod_only retry (set_sq (set_sq s1 retry) []) [] Hmods I3) as Hret.
      destruct (flush_entries_spec retry (set_sq (set_sq s1 retry) []) []) as [J1 [J2 [J3 [J4 [J5 J6]]]]];
        try rewrite app_nil_r; auto.
      cbv zeta in *. rewrite app_nil_r in J6. cbn [fdt ep set_sq] in J6.
      remember (fst (flush_entries (set_sq (set_sq s1 retry) []) retry [])) as s2 eqn:Hs2.
      rewrite Hret in * by auto.
      assert (Hfr2 : kframe s s2).
      { eapply kframe_trans; [exact Hfr1|]. eapply kframe_trans; [|exact J2]. unfold kframe. split_all; reflexivity. }
      split_all; auto;
        try (destruct Hfr2 as [A1 [A2 [A3 [A4 [A5 [A6 A7]]]]]]; unfold kframe; split_all; auto; fail).
      intros x y. cbn [ep set_sq]. specialize (J6 x y). unfold vfold in J6 at 1. cbn [fold_left] in J6. rewrite J6.
      destruct Hfr1 as [_ [_ [_ [A4 _]]]]. rewrite A4. apply I6.
Qed.

(* the state the prepared ring entries stand for *)
Definition virt (s : state) : state := set_sq (set_ep s (vfold (fdt s) (sq s) (ep s))) [].

Definition ringW (s : state) (r : list nat) : Prop :=
  NoDup (map efd (sq s)) /\
  (forall ent, In ent (sq s) -> okent s ent) /\
  (forall ent, In ent (sq s) -> exists j, reg s (efd ent) = Some j /\ ~ In j r).

Lemma KI_reg_loop_ring q : forall s, ring s = true -> KI (set_wq (virt s) q) -> ringW s q ->
  KI (set_wq (virt (reg_loop s q)) []) /\ ringW (reg_loop s q) [] /\
  ring (reg_loop s q) = true /\ wq (reg_loop s q) = wq s.
Proof.
  induction q as [|i r IH]; intros s Hring K W; cbn [reg_loop]; auto.
  set (s1 := hupd s i (fun h => h_set_ev h (h_pev h))).
  change (ring s1) with (ring s). rewrite Hring.
  set (fd := h_fd (hget s i)). set (m := h_pev (hget s i)).
  set (op := if mzero (h_ev (hget s i)) then CAdd else CMod).
  set (s' := set_sq s1 (sq s1 ++ [(op, fd, m)])).
  assert (Hri : reg s fd = Some i) by (apply (k_wq _ _ K i); left; auto).
  destruct (k_reg _ _ K _ _ Hri) as [Hli _].
  pose proof (k_regopen _ _ K _ _ Hri) as Hfo. cbn [fdt set_wq virt set_sq set_ep] in Hfo.
  destruct (fdt s fd) as [o|] eqn:Hf; [|congruence].
  destruct W as [W1 [W2 W3]].
  assert (Hnotin : ~ In fd (map efd (sq s))).
  { intros Hin. apply in_map_iff in Hin. destruct Hin as [ent [He Hin]]. destruct (W3 _ Hin) as [j [Hj Hn]].
    rewrite He, Hri in Hj. inversion Hj; subst. apply Hn. left; auto. }
  pose proof (k_wqnd _ _ K) as Hnd. cbn [wq set_wq] in Hnd. inversion Hnd as [|? ? Hir Hndr]; subst.
  assert (K' : KI (set_wq (virt s') r)).
  { eapply (KI_ideal_step (virt s) i r (virt s')); eauto.
    - cbn. apply upd_length.
    - intros x y. cbn [ep virt set_sq set_ep sq fdt]. unfold s'. cbn [sq set_sq fdt ep]. change (sq s1) with (sq s).
      change (fdt s1) with (fdt s). change (ep s1) with (ep s). unfold vfold. rewrite fold_left_app. cbn [fold_left].
      unfold ideal_ep, vexec. change (hget (virt s) i) with (hget s i). fold fd. fold m.
      change (efd (op, fd, m)) with fd. cbn [fdt virt set_sq set_ep ep snd]. reflexivity. }
  assert (W' : ringW s' r).
  { unfold ringW, s'. cbn [sq set_sq]. change (sq s1) with (sq s). split_all.
    - rewrite map_app. cbn. apply NoDup_app_one; auto.
    - intros ent Hin. apply in_app_or in Hin. destruct Hin as [Hin|[<-|[]]].
      + destruct (W2 _ Hin) as [A [o' [B C]]]. split; auto. exists o'. split; auto.
      + split; [unfold op; destruct (mzero _); discriminate|]. exists o. split; [exact Hf|].
        cbn [fst snd]. intros Hop. unfold op in Hop. destruct (mzero (h_ev (hget s i))) eqn:Hz; [discriminate|].
        destruct (k_ev _ _ K fd i Hri Hz) as [o' [F G]]. cbn [fdt ep set_wq virt set_sq set_ep] in F, G.
        rewrite vfold_other in G by auto.
        change (ep s fd o <> None). congruence.
    - intros ent Hin. apply in_app_or in Hin. destruct Hin as [Hin|[<-|[]]].
      + destruct (W3 _ Hin) as [j [A B]]. exists j. split; auto. intros Hx. apply B. right; auto.
      + exists i. split; auto. }
  destruct (IH s' Hring K' W') as [R1 [R2 [R3 R4]]]. split_all; auto.
Qed.

Lemma reg_loop_ring_wq q : forall z, ring (reg_loop z q) = ring z /\ wq (reg_loop z q) = wq z.
Proof.
  induction q as [|i r IH]; intro z; cbn [reg_loop]; auto.
  set (z1 := hupd z i (fun h => h_set_ev h (h_pev h))).
  assert (Hr1 : ring z1 = ring z) by reflexivity. assert (Hw1 : wq z1 = wq z) by reflexivity.
  destruct (ring z1) eqn:Hz.
  - destruct (IH (set_sq z1 (sq z1 ++ [(if mzero (h_ev (hget z i)) then CAdd else CMod, h_fd (hget z i), h_pev (hget z i))]))) as [A B].
    rewrite A, B. auto.
  - pose proof (epoll_ctl_same z1 (if mzero (h_ev (hget z i)) then CAdd else CMod) (h_fd (hget z i)) (h_pev (hget z i))) as X.
    cbv zeta in X. destruct (epoll_ctl z1 _ _ _) as [z2 e]. cbn [fst] in X.
    destruct X as [_ [_ [X1 [[_ [_ [_ [_ [_ [X2 _]]]]]] _]]]].
    destruct (e =? 0).
    + destruct (IH z2) as [A B]. rewrite A, B. split; congruence.
    + pose proof (epoll_ctl_same z2 CMod (h_fd (hget z i)) (h_pev (hget z i))) as Y.
      cbv zeta in Y. destruct (epoll_ctl z2 CMod _ _) as [z3 e2]. cbn [fst] in Y.
      destruct Y as [_ [_ [Y1 [[_ [_ [_ [_ [_ [Y2 _]]]]]] _]]]].
      destruct (e2 =? 0).
      * destruct (IH z3) as [A B]. rewrite A, B. split; congruence.
      * destruct (IH (set_aborted z3 true)) as [A B]. rewrite A, B. cbn. split; congruence.
Qed.

Lemma KI_poll_prepare s : KI s -> KI (poll_prepare s) /\ wq (poll_prepare s) = [].
Proof.
  intros K. unfold poll_prepare.
  destruct (reg_loop_ring_wq (wq s) (set_wq s [])) as [Hrl Hwl]. cbn [ring wq set_wq] in Hrl, Hwl.
  rewrite Hrl. destruct (ring s) eqn:Hring.
  - assert (K0 : KI (set_wq (virt (set_wq s [])) (wq s))).
    { eapply KI_ext; [..|exact K]; try reflexivity; intros; cbn; rewrite (k_sq _ s K); reflexivity. }
    assert (W0 : ringW (set_wq s []) (wq s)).
    { unfold ringW. cbn [sq set_wq]. rewrite (k_sq _ s K). split_all; [constructor|intros ? []|intros ? []]. }
    destruct (KI_reg_loop_ring (wq s) (set_wq s []) Hring K0 W0) as [R1 [[W1 [W2 _]] [R3 R4]]].
    set (s1 := reg_loop (set_wq s []) (wq s)) in *.
    assert (Ha1 : aborted s1 = false) by apply (k_abort _ _ R1).
    destruct (ctl_flush_all_spec s1 Ha1 W1 W2) as [F1 [F2 [F3 F4]]]. cbv zeta in *.
    destruct F2 as [A1 [A2 [A3 [A4 [A5 [A6 A7]]]]]].
    split; [|rewrite A3; exact Hwl].
    eapply KI_ext; [..|exact R1]; cbn [hs reg wq fdt ep pairs sq strict aborted set_wq virt set_sq set_ep]; auto.
    + rewrite A1; auto.
    + intro j. unfold hget. cbn [hs set_wq virt set_sq set_ep]. rewrite A1. reflexivity.
    + rewrite A3. exact Hwl.
    + congruence.
  - assert (K0 : KI (set_wq (set_wq s []) (wq s))) by (eapply KI_same; [..|exact K]; reflexivity).
    pose proof (KI_reg_loop_noring (wq s) (set_wq s []) Hring K0) as X.
    split; auto. eapply KI_same; [..|exact X]; auto.
Qed.

Lemma dispatch_target_del s e fd : dispatch_target s e = TDel fd -> reg s fd = None.
Proof.
  destruct e as [[f orig] rep]. unfold dispatch_target. destruct (f =? -1); [discriminate|].
  destruct (reg s f) as [j|] eqn:Hr.
  - destruct (mzero _); discriminate.
  - intros H. inversion H; subst. auto.
Qed.

Lemma KI_cb_pre s i ev efd rep : KI s -> livei s i -> KI (fst (cb_pre s i ev efd rep)).
Proof.
  intros K Hl. unfold cb_pre. destruct (h_kind (hget s i)) eqn:Hk; [|auto].
  destruct (m_err ev && negb (m_pri ev)); [|auto]. cbn [fst].
  apply (KI_stop_seq s i K Hl Hk).
Qed.

Lemma EK_cb_pre s i ev efd rep : EK (snd (cb_pre s i ev efd rep)).
Proof. unfold cb_pre. case_all; exact Logic.I. Qed.

Theorem run_KI : forall fdo pw beh os s s' evs,
  KI s -> run fdo pw beh s os = (s', evs) -> KI s' /\ Forall EK evs.
Proof.
  intros fdo pw beh. apply (run_gen KI EK fdo pw beh).
  - intros; apply KI_api; auto.
  - intros s n. apply KI_same; reflexivity.
  - intros s e rest K Hb.
    assert (K0 : KI (set_batch s rest)) by (apply KI_set_batch; auto).
    destruct (dispatch_target (set_batch s rest) e) as [|fd|i ev o2 r2] eqn:Ht; auto.
    + apply dispatch_target_del in Ht. apply (KI_del None); auto.
    + destruct e as [[fd orig] rep]. apply dispatch_target_call in Ht. destruct Ht as [_ [Hr _]].
      destruct (k_reg _ _ K0 _ _ Hr) as [Hl _]. split; [apply KI_cb_pre; auto|apply EK_cb_pre].
  - intros s i rest K Hb.
    assert (K0 : KI (set_prun s rest)) by (eapply KI_same; [..|exact K]; reflexivity).
    split; [|apply EK_cb_pre]. unfold cb_pre. destruct (h_kind _); cbn; auto.
  - intros s K. eapply KI_same; [..|exact K]; reflexivity.
  - intros s K. eapply KI_same; [..|exact K]; reflexivity.
  - intros s ans K _. destruct (KI_poll_prepare s K) as [K1 Hw]. split.
    + cbn. apply KI_SYNC; auto.
    + eapply KI_same; [..|exact K1]; reflexivity.
  - intros s K _. apply KI_poll_prepare; auto.
  - intros s K. apply KI_set_batch; auto.
  - exact Logic.I.
  - exact Logic.I.
Qed.

(* C14_kernel_in_sync_at_block: every script the guards accept, both disciplines *)
Theorem kernel_in_sync : forall fdo pw beh os rng strct,
  Forall EK (snd (run fdo pw beh (sinit rng strct) os)).
Proof.
  intros. destruct (run fdo pw beh (sinit rng strct) os) as [s' evs] eqn:H.
  eapply run_KI in H; [|apply KI_init]. apply H.
Qed.
