(* Proofs about Model/Fs.v (C11), part C: ownership ledger and uv_fs_req_cleanup. *)
From UV Require Import Lib.Base Model.Fs.
Local Open Scope Z_scope.

(* the heap a request starts from: readdir/closedir work on a uv_dir_t that
   an earlier opendir handed to the caller *)
Definition h0_of (k : fskind) : heap :=
  match k with KReaddir | KClosedir => mkHeap [BkDir] false | _ => mkHeap [] false end.

Definition ring_kind (k : fskind) : bool :=
  match k with KPath1 | KPath2 | KFd | KStat | KFstat | KRead | KWrite => true | _ => false end.

(* which (kind, callback?, state) combinations the library can reach *)
Definition valid (k : fskind) (cb : bool) (stt : lstate) : bool :=
  match stt with
  | LEarly => true
  | LCancelled => cb
  | LDonePool _ _ => true
  | LDoneRing _ _ _ => cb && ring_kind k
  | LIterated n j => (match k with KScandir => true | _ => false end) && (j <=? n + 1)%nat
  end.

(* uv__iou_fs_statx parked its struct statx in req->ptr, the completion said
   -EOPNOTSUPP, uv__fs_post ran uv__fs_work, which succeeded and overwrote
   req->ptr with &req->statbuf *)
Definition statx_fallback_ok (k : fskind) (stt : lstate) : bool :=
  match k, stt with
  | (KStat | KFstat), LDoneRing true true _ => true
  | _, _ => false
  end.

Definition has_entries (k : fskind) : bool :=
  match k with KScandir | KReaddir => true | _ => false end.

(* what may legitimately be live afterwards: only the caller's uv_dir_t *)
Definition expected_live (k : fskind) (stt : lstate) : list block :=
  match k, stt with
  | KOpendir, LDonePool true _ => [BkDir]
  | KReaddir, _ => [BkDir]
  | KClosedir, LEarly => [BkDir]
  | _, _ => []
  end.

Definition null_req (q : lreq) : Prop :=
  q_path q = PNone /\ q_newpath q = PNone /\ q_bufs q = BNull /\ q_ptr q = QNull.

Definition cleaned (k : fskind) (cb big : bool) (stt : lstate) : Prop :=
  let '(q, h) := reach k cb big stt (h0_of k) in
  let '(q1, h1) := req_cleanup q h in
  bad_free h1 = false /\ live h1 = expected_live k stt /\ null_req q1.

(* Every operation without entry lists, every reachable result state: after
   uv_fs_req_cleanup nothing the request allocated is live, nothing was freed
   twice or freed without being owned, and all four pointers are NULL. *)
Theorem cleanup_releases_all :
  forall k cb big stt,
  has_entries k = false -> valid k cb stt = true -> statx_fallback_ok k stt = false ->
  cleaned k cb big stt.
Proof.
  intros k cb big stt He Hv Hs. unfold cleaned, null_req.
  destruct k; try discriminate He;
    destruct cb; destruct big;
    destruct stt as [| |ok n|ok uns n|n j]; try destruct ok; try destruct uns;
    simpl in Hv, Hs; try discriminate;
    cbn; repeat split; reflexivity.
Qed.

(* The excluded state leaks the struct statx. *)
Theorem cleanup_statx_fallback_leaks :
  forall n,
  let '(q, h) := reach KStat true false (LDoneRing true true n) (h0_of KStat) in
  let '(q1, h1) := req_cleanup q h in
  live h1 = [BkStatx].
Proof. intros n. reflexivity. Qed.

(* scandir / readdir: states without live entries, any n *)
Theorem cleanup_entries_failed :
  forall k cb big stt,
  has_entries k = true -> valid k cb stt = true ->
  match stt with LEarly | LCancelled | LDonePool false _ => True | _ => False end ->
  cleaned k cb big stt.
Proof.
  intros k cb big stt He Hv Hst. unfold cleaned, null_req.
  destruct k; try discriminate He;
    destruct cb; destruct big;
    destruct stt as [| |ok n|ok uns n|n j]; try destruct ok; try contradiction;
    simpl in Hv; try discriminate; cbn; repeat split; reflexivity.
Qed.

(* scandir / readdir with n entries, scandir iterated j times: checked for
   every n <= 6 and every j <= n + 1 (a finite sweep; the bound is part of
   the statement). *)
Definition cleaned_b (k : fskind) (cb big : bool) (stt : lstate) : bool :=
  let '(q, h) := reach k cb big stt (h0_of k) in
  let '(q1, h1) := req_cleanup q h in
  negb (bad_free h1) &&
  (length (live h1) =? length (expected_live k stt))%nat &&
  forallb (fun b => match b with BkDir => true | _ => false end) (live h1) &&
  match q_path q1, q_newpath q1, q_bufs q1, q_ptr q1 with
  | PNone, PNone, BNull, QNull => true
  | _, _, _, _ => false
  end.

Definition entry_states (n : nat) : list (fskind * lstate) :=
  (KReaddir, LDonePool true n) :: (KScandir, LDonePool true n) ::
  map (fun j => (KScandir, LIterated n j)) (seq 0 (n + 2)).

Theorem cleanup_entries_bounded :
  forall n cb big k stt, In n (seq 0 7) -> In (k, stt) (entry_states n) ->
  cleaned_b k cb big stt = true.
Proof.
  intros n cb big k stt Hn Hin.
  assert (H : forallb (fun n => forallb (fun ks =>
              cleaned_b (fst ks) true true (snd ks) && cleaned_b (fst ks) true false (snd ks) &&
              cleaned_b (fst ks) false true (snd ks) && cleaned_b (fst ks) false false (snd ks))
              (entry_states n)) (seq 0 7) = true) by (vm_compute; reflexivity).
  rewrite forallb_forall in H. specialize (H n Hn).
  rewrite forallb_forall in H. specialize (H (k, stt) Hin). simpl in H.
  repeat (apply andb_prop in H; destruct H as [H ?]).
  destruct cb, big; assumption.
Qed.

(* uv_fs_req_cleanup may be called again: on a cleaned request it does nothing *)
Theorem cleanup_idempotent :
  forall q h, let '(q1, h1) := req_cleanup q h in req_cleanup q1 h1 = (q1, h1).
Proof.
  intros q h. unfold req_cleanup at 1.
  destruct (match q_kind q, q_ptr q with
            | KReaddir, QReaddir n => _ | KScandir, QScandir n next => _ | _, p => _ end) as [pt h2].
  unfold req_cleanup. cbn [q_path q_newpath q_bufs q_ptr q_kind q_cb q_result].
  destruct (q_kind q); destruct h2 as [l b]; reflexivity.
Qed.

(* ... and it is safe in any state whatsoever in the sense that a second call
   never frees anything: the heap is untouched *)
Corollary cleanup_twice_same_heap :
  forall q h, snd (req_cleanup (fst (req_cleanup q h)) (snd (req_cleanup q h))) = snd (req_cleanup q h).
Proof.
  intros q h. pose proof (cleanup_idempotent q h) as H.
  destruct (req_cleanup q h) as [q1 h1]. simpl. now rewrite H.
Qed.
