(* Proofs about Model/Fs.v (C11), part C: ownership ledger and uv_fs_req_cleanup. *)
From UV Require Import Lib.Base Model.Fs.
Local Open Scope Z_scope.

(* the heap a request starts from: readdir/closedir work on a uv_dir_t that
   an earlier opendir handed to the caller *)
Definition h0_of (k : fskind) : heap :=
  match k with KReaddir | KClosedir => mkHeap [BkDir] false | _ => mkHeap [] false end.

Definition ring_kind (k : fskind) : bool :=
  match k with KPath1 | KPath2 | KFd | KStat | KFstat | KRead | KWrite => true | _ => false end.

(* which (kind, callback?, state) combinations the library can reach *)
Definition valid (k : fskind) (cb : bool) (stt : lstate) : bool :=
  match stt with
  | LEarly => true
  | LCancelled => cb
  | LDonePool _ _ => true
  | LDoneRing _ _ _ => cb && ring_kind k
  | LIterated n j => (match k with KScandir => true | _ => false end) && (j <=? n + 1)%nat
  end.

Definition has_entries (k : fskind) : bool :=
  match k with KScandir | KReaddir => true | _ => false end.

(* what may legitimately be live afterwards: only the caller's uv_dir_t *)
Definition expected_live (k : fskind) (stt : lstate) : list block :=
  match k, stt with
  | KOpendir, LDonePool true _ => [BkDir]
  | KReaddir, _ => [BkDir]
  | KClosedir, LEarly => [BkDir]
  | _, _ => []
  end.

Definition null_req (q : lreq) : Prop :=
  q_path q = PNone /\ q_newpath q = PNone /\ q_bufs q = BNull /\ q_ptr q = QNull.

Definition cleaned (k : fskind) (cb big : bool) (stt : lstate) : Prop :=
  let '(q, h) := reach k cb big stt (h0_of k) in
  let '(q1, h1) := req_cleanup q h in
  bad_free h1 = false /\ live h1 = expected_live k stt /\ null_req q1.

(* Every operation without entry lists, every reachable result state: after
   uv_fs_req_cleanup nothing the request allocated is live, nothing was freed
   twice or freed without being owned, and all four pointers are NULL. *)
Theorem cleanup_releases_all :
  forall k cb big stt,
  has_entries k = false -> valid k cb stt = true ->
  cleaned k cb big stt.
Proof.
  intros k cb big stt He Hv. unfold cleaned, null_req.
  destruct k; try discriminate He;
    destruct cb; destruct big;
    destruct stt as [| |ok n|ok uns n|n j]; try destruct ok; try destruct uns;
    simpl in Hv; try discriminate;
    cbn; repeat split; reflexivity.
Qed.

(* History (before e5b94ea): the -EOPNOTSUPP re-post went straight to
   uv__fs_work, which overwrote req->ptr on success: the struct statx leaked. *)
Definition old_ring_finish_unsupported (q : lreq) (ok : bool) (n : nat) (h : heap) :=
  work_effect q ok n h.

Theorem old_statx_fallback_leaked :
  forall n,
  let '(q, h) := req_init KStat true false (h0_of KStat) in
  let '(q1, h1) := ring_submit q h in
  let '(q2, h2) := old_ring_finish_unsupported q1 true n h1 in
  let '(q3, h3) := req_cleanup q2 h2 in
  live h3 = [BkStatx].
Proof. intros n. reflexivity. Qed.

(* scandir / readdir: states without live entries, any n *)
Theorem cleanup_entries_failed :
  forall k cb big stt,
  has_entries k = true -> valid k cb stt = true ->
  match stt with LEarly | LCancelled | LDonePool false _ => True | _ => False end ->
  cleaned k cb big stt.
Proof.
  intros k cb big stt He Hv Hst. unfold cleaned, null_req.
  destruct k; try discriminate He;
    destruct cb; destruct big;
    destruct stt as [| |ok n|ok uns n|n j]; try destruct ok; try contradiction;
    simpl in Hv; try discriminate; cbn; repeat split; reflexivity.
Qed.

(* ------------------------------------------------------------------ *)
(* scandir / readdir with live entries: any number n of entries, any number
   j of uv_fs_scandir_next calls (induction over the entry list).          *)
Lemma block_eqb_refl b : block_eqb b b = true.
Proof. destruct b; simpl; auto; apply Nat.eqb_refl. Qed.

Lemma block_eqb_true a b : block_eqb a b = true -> a = b.
Proof. destruct a, b; simpl; try discriminate; auto; intros H; apply Nat.eqb_eq in H; now subst. Qed.

Lemma remove1_skip b pre rest :
  ~ In b pre -> remove1 b (pre ++ b :: rest) = Some (pre ++ rest).
Proof.
  induction pre as [|x pre IH]; intros Hn; simpl.
  - now rewrite block_eqb_refl.
  - destruct (block_eqb b x) eqn:E.
    + apply block_eqb_true in E. subst. exfalso. apply Hn. now left.
    + rewrite IH; auto. intros Hi. apply Hn. now right.
Qed.

Lemma release_skip b pre rest bf :
  ~ In b pre -> release b (mkHeap (pre ++ b :: rest) bf) = mkHeap (pre ++ rest) bf.
Proof. intros H. unfold release. cbn [live bad_free]. now rewrite remove1_skip. Qed.

(* entries i .. n-1 of a scandir result, highest first (the order of alloc_dents) *)
Fixpoint drange (i n : nat) : list block :=
  match n with
  | O => []
  | S m => if (i <=? m)%nat then BkDent m :: drange i m else []
  end.
Fixpoint nrange (n : nat) : list block :=
  match n with O => [] | S m => BkName m :: nrange m end.

Lemma drange_in i n x : In x (drange i n) -> exists m, x = BkDent m /\ (i <= m < n)%nat.
Proof.
  induction n as [|m IH]; simpl; [tauto|].
  destruct (i <=? m)%nat eqn:E; [|simpl; tauto]. apply Nat.leb_le in E.
  intros [H|H]; [exists m; split; auto; lia|].
  destruct (IH H) as (k & Hk & Hr). exists k. split; auto. lia.
Qed.

Lemma nrange_in n x : In x (nrange n) -> exists m, x = BkName m /\ (m < n)%nat.
Proof.
  induction n as [|m IH]; simpl; [tauto|].
  intros [H|H]; [exists m; split; auto|].
  destruct (IH H) as (k & Hk & Hr). exists k. split; auto.
Qed.

Lemma drange_nil i n : (n <= i)%nat -> drange i n = [].
Proof.
  destruct n as [|m]; simpl; auto. intros H.
  destruct (i <=? m)%nat eqn:E; auto. apply Nat.leb_le in E. lia.
Qed.

Lemma alloc_dents_live n h : alloc_dents n h = mkHeap (drange 0 n ++ live h) (bad_free h).
Proof.
  induction n as [|m IH]; simpl; [destruct h; reflexivity|].
  rewrite IH. reflexivity.
Qed.

Lemma alloc_names_live n h : alloc_names n h = mkHeap (nrange n ++ live h) (bad_free h).
Proof.
  induction n as [|m IH]; simpl; [destruct h; reflexivity|].
  rewrite IH. reflexivity.
Qed.

(* for (; i < n; i++) free(dents[i]) releases exactly the entries i .. n-1 *)
Lemma release_dents_range n : forall i pre rest bf,
  (forall k, (k < n)%nat -> ~ In (BkDent k) pre) ->
  release_dents i n (mkHeap (pre ++ drange i n ++ rest) bf) = mkHeap (pre ++ rest) bf.
Proof.
  induction n as [|m IH]; intros i pre rest bf Hp; simpl; [reflexivity|].
  destruct (i <=? m)%nat eqn:E; [|reflexivity].
  change (pre ++ (BkDent m :: drange i m) ++ rest)
    with (pre ++ [BkDent m] ++ drange i m ++ rest).
  rewrite app_assoc.
  rewrite IH.
  - rewrite <- app_assoc. apply release_skip. apply Hp. lia.
  - intros k Hk Hi. apply in_app_or in Hi as [Hi|[Hi|[]]].
    + revert Hi. apply Hp. lia.
    + inversion Hi. lia.
Qed.

Lemma release_dents_range0 n i rest bf :
  release_dents i n (mkHeap (drange i n ++ rest) bf) = mkHeap rest bf.
Proof. apply (release_dents_range n i [] rest bf). intros; simpl; tauto. Qed.

Lemma release_names_range n : forall pre rest bf,
  (forall k, (k < n)%nat -> ~ In (BkName k) pre) ->
  release_names n (mkHeap (pre ++ nrange n ++ rest) bf) = mkHeap (pre ++ rest) bf.
Proof.
  induction n as [|m IH]; intros pre rest bf Hp; simpl; [reflexivity|].
  replace (pre ++ BkName m :: nrange m ++ rest)
    with ((pre ++ [BkName m]) ++ nrange m ++ rest) by (rewrite <- app_assoc; reflexivity).
  rewrite IH.
  - rewrite <- app_assoc. apply release_skip. apply Hp. lia.
  - intros k Hk Hi. apply in_app_or in Hi as [Hi|[Hi|[]]].
    + revert Hi. apply Hp. lia.
    + inversion Hi. lia.
Qed.

Lemma release_names_range0 n rest bf :
  release_names n (mkHeap (nrange n ++ rest) bf) = mkHeap rest bf.
Proof. apply (release_names_range n [] rest bf). intros; simpl; tauto. Qed.

(* uv_fs_scandir_next frees the entry handed out before: the lowest live one *)
Lemma remove_lowest p n rest :
  (p < n)%nat -> remove1 (BkDent p) (drange p n ++ rest) = Some (drange (S p) n ++ rest).
Proof.
  induction n as [|m IH]; intros Hp; [lia|]. cbn [drange].
  replace (p <=? m)%nat with true by (symmetry; apply Nat.leb_le; lia).
  destruct (Nat.eq_dec p m) as [->|Hne].
  - replace (S m <=? m)%nat with false by (symmetry; apply Nat.leb_gt; lia).
    rewrite (drange_nil m m) by lia.
    cbn [app remove1 block_eqb]. rewrite Nat.eqb_refl. reflexivity.
  - cbn [app remove1 block_eqb].
    replace (p =? m)%nat with false by (symmetry; apply Nat.eqb_neq; exact Hne).
    rewrite IH by lia.
    replace (S p <=? m)%nat with true by (symmetry; apply Nat.leb_le; lia). reflexivity.
Qed.

Lemma release_lowest p n rest bf :
  (p < n)%nat ->
  release (BkDent p) (mkHeap (drange p n ++ rest) bf) = mkHeap (drange (S p) n ++ rest) bf.
Proof. intros H. unfold release. cbn [live bad_free]. now rewrite remove_lowest. Qed.

(* the request and heap after j calls of uv_fs_scandir_next on n > 0 entries *)
Definition sc_req (cb : bool) (pr : pathref) (pt : ptrref) (n : nat) : lreq :=
  mkReq KScandir cb pr PNone BNull pt (Z.of_nat n).
Definition sc_state (cb : bool) (pr : pathref) (base : list block) (n j : nat) : lreq * heap :=
  if (j <=? n)%nat
  then (sc_req cb pr (QScandir n j) n, mkHeap (drange (pred j) n ++ BkDents :: base) false)
  else (sc_req cb pr QNull n, mkHeap base false).

Lemma sc_next cb pr base n j :
  (0 < n)%nat ->
  scandir_next (fst (sc_state cb pr base n j)) (snd (sc_state cb pr base n j)) =
  sc_state cb pr base n (S j).
Proof.
  intros Hn. unfold sc_state.
  destruct (j <=? n)%nat eqn:Ej; cbn [fst snd].
  2:{ apply Nat.leb_gt in Ej.
      replace (S j <=? n)%nat with false by (symmetry; apply Nat.leb_gt; lia). reflexivity. }
  apply Nat.leb_le in Ej.
  unfold scandir_next, sc_req. cbn [q_ptr q_result q_bufs set_ptr q_kind q_cb q_path q_newpath].
  destruct j as [|p].
  - replace (0 =? n)%nat with false by (symmetry; apply Nat.eqb_neq; lia).
    replace (1 <=? n)%nat with true by (symmetry; apply Nat.leb_le; lia). reflexivity.
  - cbn [pred]. rewrite release_lowest by lia.
    destruct (S p =? n)%nat eqn:En.
    + apply Nat.eqb_eq in En.
      replace (S (S p) <=? n)%nat with false by (symmetry; apply Nat.leb_gt; lia).
      rewrite (drange_nil (S p) n) by lia. cbn [app].
      unfold release. cbn [live bad_free remove1 block_eqb]. reflexivity.
    + apply Nat.eqb_neq in En.
      replace (S (S p) <=? n)%nat with true by (symmetry; apply Nat.leb_le; lia). reflexivity.
Qed.

Lemma sc_iter cb pr base n : (0 < n)%nat -> forall k j,
  iter_next k (fst (sc_state cb pr base n j)) (snd (sc_state cb pr base n j)) =
  sc_state cb pr base n (j + k).
Proof.
  intros Hn. induction k as [|k IH]; intros j; simpl.
  - rewrite Nat.add_0_r. now destruct (sc_state cb pr base n j).
  - rewrite (sc_next cb pr base n j Hn).
    pose proof (IH (S j)) as H.
    destruct (sc_state cb pr base n (S j)) as [q' h']. cbn [fst snd] in H.
    rewrite H. f_equal. lia.
Qed.

Lemma iter_next_null k q h : q_ptr q = QNull -> iter_next k q h = (q, h).
Proof.
  revert q h; induction k as [|k IH]; intros q h Hq; simpl; auto.
  unfold scandir_next. rewrite Hq. apply IH. exact Hq.
Qed.

Lemma not_in_drange_path i n : ~ In BkPath (drange i n ++ [BkDents]).
Proof.
  intros H. apply in_app_or in H as [H|[H|[]]]; [|discriminate].
  destruct (drange_in _ _ _ H) as (m & Hm & _). discriminate.
Qed.

(* cleanup in any iteration state *)
Lemma sc_cleanup (cb : bool) n j :
  (0 < n)%nat ->
  let pr := if cb then PHeap else PUser in
  let base := if cb then [BkPath] else [] in
  let '(q1, h1) := req_cleanup (fst (sc_state cb pr base n j)) (snd (sc_state cb pr base n j)) in
  bad_free h1 = false /\ live h1 = [] /\ null_req q1.
Proof.
  intros Hn pr base. unfold sc_state.
  destruct (j <=? n)%nat eqn:Ej; cbn [fst snd].
  - unfold req_cleanup, sc_req.
    cbn [q_path q_cb q_kind q_ptr q_bufs q_result q_newpath is_temp orb].
    replace (0 <=? Z.of_nat n) with true by (symmetry; apply Z.leb_le; lia).
    rewrite Nat2Z.id.
    replace (match j with O => O | S p => p end) with (pred j) by (destruct j; reflexivity).
    destruct cb; subst pr base; cbn [orb].
    + change (drange (pred j) n ++ [BkDents; BkPath]) with (drange (pred j) n ++ BkDents :: [BkPath]).
      replace (drange (pred j) n ++ BkDents :: [BkPath])
        with ((drange (pred j) n ++ [BkDents]) ++ BkPath :: []) by (rewrite <- app_assoc; reflexivity).
      rewrite release_skip by apply not_in_drange_path.
      rewrite app_nil_r.
      rewrite release_dents_range0.
      cbn. unfold null_req. cbn. repeat split; reflexivity.
    + rewrite release_dents_range0.
      cbn. unfold null_req. cbn. repeat split; reflexivity.
  - destruct cb; subst pr base; cbn; unfold null_req; cbn; repeat split; reflexivity.
Qed.

(* scandir with n entries after any number j of uv_fs_scandir_next calls *)
Theorem cleanup_scandir_iterated :
  forall n j cb big, cleaned KScandir cb big (LIterated n j).
Proof.
  intros n j cb big. unfold cleaned, reach.
  destruct n as [|m].
  - (* no entries: ptr = NULL from the start *)
    destruct cb; cbn [req_init has_path h0_of work_effect q_kind set_ptr q_bufs q_cb q_path q_newpath q_ptr];
      rewrite iter_next_null by reflexivity; cbn; unfold null_req; cbn; repeat split; reflexivity.
  - set (n := S m).
    assert (Hn : (0 < n)%nat) by (unfold n; lia).
    pose proof (sc_cleanup cb n j Hn) as Hc. cbv zeta in Hc.
    pose proof (sc_iter cb (if cb then PHeap else PUser) (if cb then [BkPath] else []) n Hn j 0) as Hi.
    rewrite Nat.add_0_l in Hi.
    assert (Hreach :
      (let '(q, h1) := req_init KScandir cb big (h0_of KScandir) in
       let '(q2, h2) := work_effect q true n h1 in iter_next j q2 h2) =
      sc_state cb (if cb then PHeap else PUser) (if cb then [BkPath] else []) n j).
    { rewrite <- Hi. unfold sc_state at 1 2. cbn [Nat.leb fst snd pred].
      destruct cb; cbn [req_init has_path h0_of alloc live bad_free];
        unfold work_effect; cbn [q_kind set_ptr q_bufs q_cb q_path q_newpath q_ptr];
        unfold n at 1; cbv iota; fold n;
        rewrite alloc_dents_live; reflexivity. }
    rewrite Hreach.
    destruct (sc_state cb _ _ n j) as [q h]. cbn [fst snd] in Hc.
    destruct (req_cleanup q h) as [q1 h1]. exact Hc.
Qed.

Theorem cleanup_scandir_done :
  forall n cb big, cleaned KScandir cb big (LDonePool true n).
Proof.
  intros n cb big. pose proof (cleanup_scandir_iterated n 0 cb big) as H.
  unfold cleaned, reach in *. cbn [iter_next] in H.
  destruct (req_init KScandir cb big (h0_of KScandir)) as [q h1].
  destruct (work_effect q true n h1) as [q2 h2]. exact H.
Qed.

(* readdir that returned n names *)
Theorem cleanup_readdir_done :
  forall n cb big, cleaned KReaddir cb big (LDonePool true n).
Proof.
  intros n cb big. unfold cleaned, reach.
  destruct cb; cbn [req_init has_path h0_of]; unfold work_effect, set_ptr;
    cbn [q_kind q_bufs q_cb q_path q_newpath q_ptr];
    rewrite alloc_names_live; unfold req_cleanup;
    cbn [q_path q_cb q_kind q_ptr q_bufs q_result q_newpath is_temp orb live bad_free];
    (replace (0 <=? Z.of_nat n) with true by (symmetry; apply Z.leb_le; lia));
    rewrite Nat2Z.id;
    rewrite release_names_range0;
    cbn; unfold null_req; cbn; repeat split; reflexivity.
Qed.

(* uv_fs_req_cleanup may be called again: on a cleaned request it does nothing *)
Theorem cleanup_idempotent :
  forall q h, let '(q1, h1) := req_cleanup q h in req_cleanup q1 h1 = (q1, h1).
Proof.
  intros q h. unfold req_cleanup at 1.
  destruct (match q_kind q, q_ptr q with
            | KReaddir, QReaddir n => _ | KScandir, QScandir n next => _ | _, p => _ end) as [pt h2].
  unfold req_cleanup. cbn [q_path q_newpath q_bufs q_ptr q_kind q_cb q_result].
  destruct (q_kind q); destruct h2 as [l b]; reflexivity.
Qed.

(* ... and it is safe in any state whatsoever in the sense that a second call
   never frees anything: the heap is untouched *)
Corollary cleanup_twice_same_heap :
  forall q h, snd (req_cleanup (fst (req_cleanup q h)) (snd (req_cleanup q h))) = snd (req_cleanup q h).
Proof.
  intros q h. pose proof (cleanup_idempotent q h) as H.
  destruct (req_cleanup q h) as [q1 h1]. simpl. now rewrite H.
Qed.
