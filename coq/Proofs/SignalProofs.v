(* Proofs about Model/Signal.v (C13). *)
From UV Require Import Lib.Base Model.Signal.
From Coq Require Import Sorting.Sorted.

Local Open Scope nat_scope.
Opaque batch_size.

(* ------------------------------------------------------------------ *)
(* 0. list helpers                                                      *)
(* ------------------------------------------------------------------ *)
Lemma nth_upd_same {A} n (f : A -> A) l d :
  n < length l -> nth n (upd n f l) d = f (nth n l d).
Proof.
  revert n; induction l as [|x xs IH]; intros [|n] H; simpl in *; try lia; auto.
  apply IH; lia.
Qed.

Lemma nth_upd_other {A} n m (f : A -> A) l d :
  n <> m -> nth m (upd n f l) d = nth m l d.
Proof.
  revert n m; induction l as [|x xs IH]; intros [|n] [|m] H; simpl; auto; congruence.
Qed.

Lemma upd_oob {A} n (f : A -> A) l : length l <= n -> upd n f l = l.
Proof.
  revert n; induction l as [|x xs IH]; intros [|n] H; simpl in *; auto; try lia.
  f_equal; apply IH; lia.
Qed.

(* ------------------------------------------------------------------ *)
(* 1. frame facts: what each operation does to the handle records       *)
(* ------------------------------------------------------------------ *)
Ltac ssimpl :=
  cbn [hs tree disp_of pipe_of batch clq_of cap cbcount race tr
       lost with_lost stopf with_stopf set_stopf with_hs with_tree with_disp with_pipes with_batch with_clqs with_cbcount with_race with_tr
       upd_h set_disp set_pipe set_clq log snap] in *.


Lemma get_wtr s v h : get (with_tr s v) h = get s h. Proof. reflexivity. Qed.
Lemma get_wtree s v h : get (with_tree s v) h = get s h. Proof. reflexivity. Qed.
Lemma get_wdisp s v h : get (with_disp s v) h = get s h. Proof. reflexivity. Qed.
Lemma get_wpipes s v h : get (with_pipes s v) h = get s h. Proof. reflexivity. Qed.
Lemma get_wbatch s v h : get (with_batch s v) h = get s h. Proof. reflexivity. Qed.
Lemma get_wclqs s v h : get (with_clqs s v) h = get s h. Proof. reflexivity. Qed.
Lemma get_wcb s v h : get (with_cbcount s v) h = get s h. Proof. reflexivity. Qed.
Lemma get_wrace s v h : get (with_race s v) h = get s h. Proof. reflexivity. Qed.
Lemma get_wlost s v h : get (with_lost s v) h = get s h. Proof. reflexivity. Qed.
Lemma get_wstopf s v h : get (with_stopf s v) h = get s h. Proof. reflexivity. Qed.
Lemma get_sstopf s l b h : get (set_stopf s l b) h = get s h. Proof. reflexivity. Qed.
Lemma get_log s e h : get (log s e) h = get s h. Proof. reflexivity. Qed.
Lemma get_spipe s l p h : get (set_pipe s l p) h = get s h. Proof. reflexivity. Qed.
Lemma get_sdisp s l p h : get (set_disp s l p) h = get s h. Proof. reflexivity. Qed.
Lemma get_sclq s l p h : get (set_clq s l p) h = get s h. Proof. reflexivity. Qed.
Ltac gs_in H := repeat first [rewrite get_wtr in H | rewrite get_wtree in H | rewrite get_wdisp in H | rewrite get_wpipes in H | rewrite get_log in H | rewrite get_spipe in H | rewrite get_sdisp in H | rewrite get_sclq in H | rewrite get_wbatch in H | rewrite get_wclqs in H | rewrite get_wcb in H | rewrite get_wrace in H | rewrite get_wlost in H | rewrite get_wstopf in H | rewrite get_sstopf in H].
Ltac gs := repeat first [rewrite get_wtr | rewrite get_wtree | rewrite get_wdisp | rewrite get_wpipes
                        | rewrite get_log | rewrite get_spipe | rewrite get_sdisp | rewrite get_sclq | rewrite get_wbatch | rewrite get_wclqs | rewrite get_wcb | rewrite get_wrace | rewrite get_wlost | rewrite get_wstopf | rewrite get_sstopf].

Lemma get_upd_same s h f : h < length (hs s) -> get (upd_h s h f) h = f (get s h).
Proof. intros; unfold get; ssimpl; apply nth_upd_same; auto. Qed.

Lemma get_upd_other s h h' f : h <> h' -> get (upd_h s h f) h' = get s h'.
Proof. intros; unfold get; ssimpl; apply nth_upd_other; auto. Qed.

Lemma upd_h_oob s h f : length (hs s) <= h -> upd_h s h f = s.
Proof. intros; unfold upd_h; rewrite upd_oob by auto; destruct s; reflexivity. Qed.

Lemma get_oob s h : length (hs s) <= h -> get s h = dflt_h.
Proof. intros; unfold get; apply nth_overflow; auto. Qed.

Lemma len_upd_h s h f : length (hs (upd_h s h f)) = length (hs s).
Proof. ssimpl; apply upd_length. Qed.

Lemma signum_valid s h : h_signum (get s h) <> 0 -> h < length (hs s).
Proof.
  intros H; destruct (Nat.lt_ge_cases h (length (hs s))); auto.
  rewrite get_oob in H by auto; simpl in H; congruence.
Qed.

(* get is insensitive to every field but hs *)
Lemma get_hs_eq s s' h : hs s' = hs s -> get s' h = get s h.
Proof. unfold get; intros ->; reflexivity. Qed.

(* --- sig_stop --- *)
Lemma stop_noop s h : h_signum (get s h) = 0 -> sig_stop s h = s.
Proof. intros H; unfold sig_stop; rewrite H; reflexivity. Qed.

Lemma stop_hs s h : h_signum (get s h) <> 0 ->
  hs (sig_stop s h) = upd h h_set_stopped (hs s).
Proof.
  intros H; unfold sig_stop. destruct (Nat.eqb_spec (h_signum (get s h)) 0); [congruence|].
  ssimpl. destruct (first_handle _ _); [destruct (_ && _)|]; reflexivity.
Qed.

Lemma stop_get_same s h : h_signum (get s h) <> 0 -> get (sig_stop s h) h = h_set_stopped (get s h).
Proof.
  intros H; unfold get at 1; rewrite stop_hs by auto. apply nth_upd_same, signum_valid; auto.
Qed.

Lemma stop_get_other s h h' : h <> h' -> get (sig_stop s h) h' = get s h'.
Proof.
  intros Hn; destruct (Nat.eq_dec (h_signum (get s h)) 0) as [E|E].
  - rewrite stop_noop; auto.
  - unfold get at 1; rewrite stop_hs by auto. apply nth_upd_other; auto.
Qed.

Lemma stop_len s h : length (hs (sig_stop s h)) = length (hs s).
Proof.
  destruct (Nat.eq_dec (h_signum (get s h)) 0) as [E|E].
  - rewrite stop_noop; auto.
  - rewrite stop_hs by auto. apply upd_length.
Qed.

Lemma stop_signum s h : h_signum (get (sig_stop s h) h) = 0.
Proof.
  destruct (Nat.eq_dec (h_signum (get s h)) 0) as [E|E].
  - rewrite stop_noop; auto.
  - rewrite stop_get_same by auto; reflexivity.
Qed.

Lemma stop_fields s h :
  let x := get s h in let y := get (sig_stop s h) h in
  h_loop y = h_loop x /\ h_oneshot y = h_oneshot x /\ h_caught y = h_caught x /\
  h_dispatched y = h_dispatched x /\ h_closing y = h_closing x /\ h_closed y = h_closed x /\
  g_fired y = g_fired x /\ h_active y = (if h_signum x =? 0 then h_active x else false).
Proof.
  cbv zeta. destruct (Nat.eqb_spec (h_signum (get s h)) 0) as [E|E].
  - rewrite stop_noop by auto; repeat split; reflexivity.
  - rewrite stop_get_same by auto; repeat split; reflexivity.
Qed.

Lemma stop_loop s h x : h_loop (get (sig_stop s h) x) = h_loop (get s x).
Proof.
  destruct (Nat.eq_dec h x) as [<-|Hn]; [|rewrite stop_get_other; auto].
  destruct (stop_fields s h) as (a&_). exact a.
Qed.

Lemma stop_batch s h : batch (sig_stop s h) = batch s.
Proof.
  unfold sig_stop. destruct (_ =? 0); auto. ssimpl.
  destruct (first_handle _ _); [destruct (_ && _)|]; reflexivity.
Qed.

Lemma stop_tr s h : tr (sig_stop s h) = tr s.
Proof.
  unfold sig_stop. destruct (_ =? 0); auto. ssimpl.
  destruct (first_handle _ _); [destruct (_ && _)|]; reflexivity.
Qed.

Lemma stop_pipe s h : pipe_of (sig_stop s h) = pipe_of s.
Proof.
  unfold sig_stop. destruct (_ =? 0); auto. ssimpl.
  destruct (first_handle _ _); [destruct (_ && _)|]; reflexivity.
Qed.

Lemma stop_cap s h : cap (sig_stop s h) = cap s.
Proof.
  unfold sig_stop. destruct (_ =? 0); auto. ssimpl.
  destruct (first_handle _ _); [destruct (_ && _)|]; reflexivity.
Qed.

Lemma stop_race s h : race (sig_stop s h) = race s.
Proof.
  unfold sig_stop. destruct (_ =? 0); auto. ssimpl.
  destruct (first_handle _ _); [destruct (_ && _)|]; reflexivity.
Qed.

Lemma stop_tree s h : h_signum (get s h) <> 0 -> tree (sig_stop s h) = tree_remove h (tree s).
Proof.
  intros H; unfold sig_stop. destruct (Nat.eqb_spec (h_signum (get s h)) 0); [congruence|].
  ssimpl. destruct (first_handle _ _); [destruct (_ && _)|]; reflexivity.
Qed.

(* --- handler / deliver: only g_fired and h_caught move --- *)
Definition same_core (x y : handle) : Prop :=
  h_loop y = h_loop x /\ h_signum y = h_signum x /\ h_oneshot y = h_oneshot x /\
  h_dispatched y = h_dispatched x /\ h_active y = h_active x /\ h_closing y = h_closing x /\
  h_closed y = h_closed x.

Lemma same_core_refl x : same_core x x.
Proof. repeat split. Qed.

Lemma same_core_trans x y z : same_core x y -> same_core y z -> same_core x z.
Proof. unfold same_core; intuition congruence. Qed.

Lemma write_msg_core sig s y h : same_core (get s h) (get (write_msg sig s y) h).
Proof.
  unfold write_msg.
  assert (A : same_core (get s h) (get (upd_h s y h_set_fired) h)).
  { destruct (Nat.eq_dec y h) as [->|N].
    - destruct (Nat.lt_ge_cases h (length (hs s))).
      + rewrite get_upd_same by auto. repeat split.
      + rewrite upd_h_oob by auto. apply same_core_refl.
    - rewrite get_upd_other by auto. apply same_core_refl. }
  destruct (_ <? _); auto.
  eapply same_core_trans; [exact A|].
  set (s1 := set_pipe (upd_h s y h_set_fired) _ _).
  assert (E : get s1 h = get (upd_h s y h_set_fired) h) by (apply get_hs_eq; reflexivity).
  rewrite <- E.
  destruct (Nat.eq_dec y h) as [->|N].
  - destruct (Nat.lt_ge_cases h (length (hs s1))).
    + rewrite get_upd_same by auto. repeat split.
    + rewrite upd_h_oob by auto. apply same_core_refl.
  - rewrite get_upd_other by auto. apply same_core_refl.
Qed.

Lemma write_msg_len sig s y : length (hs (write_msg sig s y)) = length (hs s).
Proof.
  unfold write_msg. destruct (_ <? _); ssimpl; rewrite ?upd_length; auto.
Qed.

Lemma write_msg_misc sig s y :
  batch (write_msg sig s y) = batch s /\ tr (write_msg sig s y) = tr s /\
  tree (write_msg sig s y) = tree s /\ disp_of (write_msg sig s y) = disp_of s /\
  cap (write_msg sig s y) = cap s /\ race (write_msg sig s y) = race s /\
  cbcount (write_msg sig s y) = cbcount s.
Proof. unfold write_msg. destruct (_ <? _); ssimpl; repeat split. Qed.

Lemma fold_write_core sig ys : forall s h, same_core (get s h) (get (fold_left (write_msg sig) ys s) h).
Proof.
  induction ys as [|y ys IH]; intros; simpl. apply same_core_refl.
  eapply same_core_trans; [apply write_msg_core | apply IH].
Qed.

Lemma fold_write_len sig ys : forall s, length (hs (fold_left (write_msg sig) ys s)) = length (hs s).
Proof. induction ys; intros; simpl; auto. rewrite IHys. apply write_msg_len. Qed.

Lemma fold_write_misc sig ys : forall s,
  let s' := fold_left (write_msg sig) ys s in
  batch s' = batch s /\ tr s' = tr s /\ tree s' = tree s /\ disp_of s' = disp_of s /\
  cap s' = cap s /\ race s' = race s /\ cbcount s' = cbcount s.
Proof.
  induction ys as [|y ys IH]; intros s; cbv zeta; simpl. repeat split.
  specialize (IH (write_msg sig s y)). cbv zeta in IH.
  destruct (write_msg_misc sig s y) as (a&b&c&d&e&f&g).
  destruct IH as (a'&b'&c'&d'&e'&f'&g').
  repeat split; congruence.
Qed.

Lemma deliver_core s sig h : same_core (get s h) (get (fst (deliver s sig)) h).
Proof.
  unfold deliver. destruct (disp_of s sig) as [|rh]; simpl. apply same_core_refl.
  unfold handler.
  set (s1 := if rh then set_disp s sig Default else s).
  assert (E : get s1 h = get s h) by (apply get_hs_eq; unfold s1; destruct rh; reflexivity).
  rewrite <- E. apply fold_write_core.
Qed.

Lemma deliver_len s sig : length (hs (fst (deliver s sig))) = length (hs s).
Proof.
  unfold deliver. destruct (disp_of s sig) as [|rh]; simpl; auto.
  unfold handler. rewrite fold_write_len. destruct rh; reflexivity.
Qed.

Lemma deliver_misc s sig :
  let s' := fst (deliver s sig) in
  batch s' = batch s /\ tr s' = tr s /\ tree s' = tree s /\ cap s' = cap s /\ race s' = race s /\
  cbcount s' = cbcount s.
Proof.
  unfold deliver. destruct (disp_of s sig) as [|rh]; simpl. repeat split.
  unfold handler.
  destruct (fold_write_misc sig (targets (if rh then set_disp s sig Default else s) sig)
              (if rh then set_disp s sig Default else s)) as (a&b&c&d&e&f&g).
  destruct rh; ssimpl; repeat split; auto.
Qed.

(* --- sig_start --- *)
Inductive start_out (s : state) (h sig : nat) (os : bool) (fx : bool) (s' : state) (r : Z) : Prop :=
| so_einval0 : sig = 0 -> s' = s -> r = UV_EINVAL -> start_out s h sig os fx s' r
| so_short : sig <> 0 -> sig = h_signum (get s h) -> s' = s -> r = 0%Z -> start_out s h sig os fx s' r
| so_fail : sig <> 0 -> sig <> h_signum (get s h) -> s' = sig_stop s h -> r = UV_EINVAL ->
            sigok sig = false -> start_out s h sig os fx s' r
| so_ok : sig <> 0 -> sig <> h_signum (get s h) -> r = 0%Z ->
          (forall h', h' <> h -> get s' h' = get s h') ->
          length (hs s') = length (hs s) ->
          (h < length (hs s) ->
           get s' h = h_set_started sig (if fx then os else h_oneshot (get s h) || os) (get s h)) ->
          batch s' = batch s -> tr s' = tr s -> pipe_of s' = pipe_of s -> cap s' = cap s ->
          start_out s h sig os fx s' r.

Lemma stop_if s h : (if h_signum (get s h) =? 0 then s else sig_stop s h) = sig_stop s h.
Proof. destruct (Nat.eqb_spec (h_signum (get s h)) 0); auto. rewrite stop_noop; auto. Qed.

Lemma start_spec fx s h sig os :
  start_out s h sig os fx (fst (sig_start fx s h sig os)) (snd (sig_start fx s h sig os)).
Proof.
  unfold sig_start.
  destruct (Nat.eqb_spec sig 0) as [E0|E0]; [apply so_einval0; auto|].
  destruct (Nat.eqb_spec sig (h_signum (get s h))) as [E1|E1]; [apply so_short; auto|].
  rewrite stop_if.
  set (s1 := sig_stop s h).
  set (need := match first_handle s1 sig with None => true | Some f => negb os && h_oneshot (get s1 f) end).
  destruct (need && negb (sigok sig)) eqn:Ef.
  - apply so_fail; auto. apply andb_true_iff in Ef. destruct Ef as [_ Ef].
    apply negb_true_iff in Ef; auto.
  - set (s2 := if need then set_disp s1 sig (Handler os) else s1).
    set (s3 := if fired_oneshot_on s2 sig then with_race s2 true else s2).
    assert (Hs3 : hs s3 = hs s1) by (unfold s3, s2; destruct (fired_oneshot_on _ _), need; reflexivity).
    assert (G3 : forall x, get s3 x = get s1 x) by (intros; apply get_hs_eq; auto).
    cbn [fst snd]. apply so_ok; auto.
    + intros h' N. unfold get at 1. ssimpl. rewrite nth_upd_other by auto.
      fold (get s3 h'). rewrite G3. apply stop_get_other; auto.
    + ssimpl. rewrite upd_length, Hs3. apply stop_len.
    + intros Hl. unfold get at 1. ssimpl. rewrite nth_upd_same by (rewrite Hs3; unfold s1; rewrite stop_len; auto).
      fold (get s3 h). rewrite !G3.
      destruct (stop_fields s h) as (a&b&c&d&e&f&g&i). cbv zeta in *.
      unfold h_set_started. fold s1 in a, b, c, d, e, f, g, i. rewrite a, b, c, d, e, f. reflexivity.
    + ssimpl. unfold s3, s2. destruct (fired_oneshot_on _ _), need; ssimpl; apply stop_batch.
    + ssimpl. unfold s3, s2. destruct (fired_oneshot_on _ _), need; ssimpl; apply stop_tr.
    + ssimpl. unfold s3, s2. destruct (fired_oneshot_on _ _), need; ssimpl; apply stop_pipe.
    + ssimpl. unfold s3, s2. destruct (fired_oneshot_on _ _), need; ssimpl; apply stop_cap.
Qed.

(* --- sig_close --- *)
Lemma close_get_other s h h' : h <> h' -> get (sig_close s h) h' = get s h'.
Proof.
  intros N. unfold sig_close. rewrite (get_hs_eq (sig_stop (upd_h s h h_set_closing) h)) by reflexivity.
  rewrite stop_get_other by auto. apply get_upd_other; auto.
Qed.

Lemma close_len s h : length (hs (sig_close s h)) = length (hs s).
Proof. unfold sig_close. ssimpl. rewrite stop_len. apply len_upd_h. Qed.

Lemma close_get_same s h : h < length (hs s) ->
  let y := get (sig_close s h) h in let x := get s h in
  h_signum y = 0 /\ h_closing y = true /\ h_active y = (if h_signum x =? 0 then h_active x else false) /\
  h_loop y = h_loop x /\ h_oneshot y = h_oneshot x /\ h_caught y = h_caught x /\
  h_dispatched y = h_dispatched x /\ h_closed y = h_closed x /\ g_fired y = g_fired x.
Proof.
  intros Hl. cbv zeta. unfold sig_close.
  rewrite (get_hs_eq (sig_stop (upd_h s h h_set_closing) h)) by reflexivity.
  set (s1 := upd_h s h h_set_closing).
  assert (E : get s1 h = h_set_closing (get s h)) by (apply get_upd_same; auto).
  destruct (stop_fields s1 h) as (a&b&c&d&e&f&g&i). cbv zeta in *.
  rewrite stop_signum. rewrite a, b, c, d, e, f, g, i, E. repeat split.
Qed.

Lemma close_misc s h :
  batch (sig_close s h) = batch s /\ tr (sig_close s h) = tr s /\ pipe_of (sig_close s h) = pipe_of s /\
  cap (sig_close s h) = cap s.
Proof.
  unfold sig_close. ssimpl. rewrite stop_batch, stop_tr, stop_pipe, stop_cap. repeat split.
Qed.

(* ------------------------------------------------------------------ *)
(* 2. the invariant rule: one induction over the whole run structure    *)
(* ------------------------------------------------------------------ *)
Inductive ctx := CTop | CMid | CCb (h sig : nat).

Lemma api_batch fx s o : batch (api fx s o) = batch s.
Proof.
  destruct o; simpl; try reflexivity.
  - destruct (usable s h); [|reflexivity].
    destruct (sig_start fx s h sig false) as [s1 r] eqn:E. ssimpl.
    pose proof (start_spec fx s h sig false) as S. rewrite E in S. simpl in S.
    destruct S; subst; auto using stop_batch.
  - destruct (usable s h); [|reflexivity].
    destruct (sig_start fx s h sig true) as [s1 r] eqn:E. ssimpl.
    pose proof (start_spec fx s h sig true) as S. rewrite E in S. simpl in S.
    destruct S; subst; auto using stop_batch.
  - destruct (usable s h); ssimpl; auto using stop_batch.
  - destruct (usable s h); ssimpl; auto. apply close_misc.
  - destruct (sig =? 0); [reflexivity|].
    destruct (deliver s sig) as [s1 r] eqn:E. ssimpl.
    pose proof (deliver_misc s sig) as D. rewrite E in D. apply D.
  - destruct (_ && _); ssimpl; auto using stop_batch.
Qed.

Lemma script_batch fx os : forall s, batch (script fx s os) = batch s.
Proof.
  induction os as [|o os IH]; intros; simpl; auto.
  rewrite IH. unfold api_snap. ssimpl. apply api_batch.
Qed.

Lemma msg_finish_batch s h r : batch (msg_finish s h r) = r.
Proof. unfold msg_finish. destruct (h_oneshot _); [rewrite stop_batch|]; reflexivity. Qed.

Lemma msg_after_cb_batch fr s h sig r : batch (msg_after_cb fr s h sig r) = r.
Proof.
  unfold msg_after_cb. destruct fr; [|apply msg_finish_batch].
  destruct (_ && _); [rewrite stop_batch|]; reflexivity.
Qed.

Lemma msg_skip_batch fs s h sig r : batch (msg_skip fs s h sig r) = r.
Proof. unfold msg_skip. destruct fs; [reflexivity | apply msg_finish_batch]. Qed.

Section Rule.
  Variables (fx fs fr : bool) (beh : nat -> list op).
  Variable P : ctx -> state -> Prop.
  Hypothesis H_api : forall c s o, c <> CMid -> P c s -> P c (api_snap fx s o).
  Hypothesis H_begin : forall s l, P CTop s -> P CMid (log s (ERunBegin l)).
  Hypothesis H_take : forall s l, P CMid s -> batch s = [] -> P CMid (take_batch s l).
  Hypothesis H_enter : forall s h sig r, P CMid s -> batch s = (h, sig) :: r ->
    sig = h_signum (get s h) -> P (CCb h sig) (cb_enter s h sig).
  Hypothesis H_exit : forall s h sig r, P (CCb h sig) s -> batch s = (h, sig) :: r ->
    P CMid (msg_after_cb fr (log s (ECbEnd h)) h sig r).
  Hypothesis H_skip : forall s h sig r, P CMid s -> batch s = (h, sig) :: r ->
    sig <> h_signum (get s h) -> P CMid (msg_skip fs s h sig r).
  (* [Rq s h]: what is known about a handle taken from the closing queue *)
  Variable Rq : state -> nat -> Prop.
  Hypothesis H_q0 : forall s l h, P CMid s -> In h (clq_of s l) -> Rq s h.
  Hypothesis H_q_clq : forall s l q h, Rq s h -> Rq (set_clq s l q) h.
  Hypothesis H_q_closed : forall s h' h, Rq s h -> Rq (log (upd_h s h' h_set_closed) (ECloseCb h')) h.
  Hypothesis H_clq_nil : forall s l, P CMid s -> P CMid (set_clq s l []).
  Hypothesis H_requeue : forall s l h, P CMid s -> Rq s h -> P CMid (set_clq s l (h :: clq_of s l)).
  Hypothesis H_closed : forall s h, P CMid s -> Rq s h ->
    (h_dispatched (get s h) <? h_caught (get s h)) = false ->
    P CMid (log (upd_h s h h_set_closed) (ECloseCb h)).
  Hypothesis H_end : forall s l, P CMid s -> P CTop (snap (log s (ERunEnd l))).
  Hypothesis H_stopf : forall s l b, P CMid s -> P CMid (set_stopf s l b).
  Hypothesis H_fork : forall s l, P CTop s -> batch s = [] -> P CTop (snap (loop_fork s l)).

  Lemma rule_script c os : c <> CMid -> forall s, P c s -> P c (script fx s os).
  Proof. intros Hc; induction os; intros; simpl; auto. Qed.

  Lemma rule_msg s m r : P CMid s -> batch s = m :: r ->
    P CMid (process_msg fx fs fr beh s m r) /\ batch (process_msg fx fs fr beh s m r) = r.
  Proof.
    intros HP Hb. destruct m as [h sig]. unfold process_msg. cbn [fst snd].
    destruct (Nat.eqb_spec sig (h_signum (get s h))) as [E|E].
    - split; [|apply msg_after_cb_batch].
      eapply H_exit with (sig := sig).
      + apply rule_script; [discriminate|]. eapply H_enter; eauto.
      + rewrite script_batch. exact Hb.
    - split; [|apply msg_skip_batch]. eapply H_skip; eauto.
  Qed.

  Lemma rule_msgs b : forall s, P CMid s -> batch s = b ->
    P CMid (process_msgs fx fs fr beh s b) /\ batch (process_msgs fx fs fr beh s b) = [].
  Proof.
    induction b as [|m r IH]; intros s HP Hb; simpl; auto.
    destruct (rule_msg s m r HP Hb) as [A B]. apply IH; auto.
  Qed.

  Lemma rule_event fuel l : forall s, P CMid s -> batch s = [] ->
    P CMid (signal_event fx fs fr beh fuel s l) /\ batch (signal_event fx fs fr beh fuel s l) = [].
  Proof.
    induction fuel as [|f IH]; intros s HP Hb; cbn [signal_event]; auto.
    destruct (pipe_of s l) eqn:Ep; auto.
    destruct (rule_msgs (batch (take_batch s l)) (take_batch s l)) as [A B]; auto.
    destruct (_ =? _); auto.
  Qed.

  Lemma rule_finish_all l q : forall s, P CMid s -> batch s = [] -> (forall h, In h q -> Rq s h) ->
    P CMid (finish_all s l q) /\ batch (finish_all s l q) = [].
  Proof.
    induction q as [|h q IH]; intros s HP Hb HR; simpl; auto.
    apply IH; unfold finish_close; destruct (_ <? _) eqn:E; auto.
    - apply H_requeue; auto. apply HR; simpl; auto.
    - apply H_closed; auto. apply HR; simpl; auto.
    - intros h' Hh'. apply H_q_clq. apply HR; simpl; auto.
    - intros h' Hh'. apply H_q_closed. apply HR; simpl; auto.
  Qed.

  Lemma rule_dispatch fuel l s : P CTop s -> batch s = [] ->
    P CTop (dispatch fx fs fr beh fuel s l) /\ batch (dispatch fx fs fr beh fuel s l) = [].
  Proof.
    intros HP Hb. unfold dispatch.
    destruct (stopf (log s (ERunBegin l)) l).
    { split; [apply H_end, H_stopf; auto | exact Hb]. }
    destruct (rule_event fuel l (log s (ERunBegin l))) as [A B]; auto.
    destruct (rule_finish_all l (clq_of (signal_event fx fs fr beh fuel (log s (ERunBegin l)) l) l)
                (set_clq (signal_event fx fs fr beh fuel (log s (ERunBegin l)) l) l [])) as [C D];
      [auto | auto | intros h Hh; apply H_q_clq; eapply H_q0; eauto |].
    split; [apply H_end, H_stopf; exact C | exact D].
  Qed.

  Lemma rule_top fuel s o : P CTop s -> batch s = [] ->
    P CTop (top fx fs fr beh fuel s o) /\ batch (top fx fs fr beh fuel s o) = [].
  Proof.
    intros HP Hb.
    assert (G : P CTop (api_snap fx s o) /\ batch (api_snap fx s o) = []).
    { split; [apply H_api; auto; discriminate|]. unfold api_snap. ssimpl. rewrite api_batch; auto. }
    destruct o; auto.
    - simpl. apply rule_dispatch; auto.
    - simpl. split; [apply H_fork; auto | exact Hb].
  Qed.

  Theorem rule_run fuel os : forall s, P CTop s -> batch s = [] ->
    P CTop (run fx fs fr beh fuel s os) /\ batch (run fx fs fr beh fuel s os) = [].
  Proof.
    induction os as [|o os IH]; intros s HP Hb; simpl; auto.
    destruct (rule_top fuel s o HP Hb). apply IH; auto.
  Qed.
End Rule.

(* ------------------------------------------------------------------ *)
(* 3. trace monitors (API-level: calls, callbacks, snapshots)           *)
(* ------------------------------------------------------------------ *)
(* What an observer of the API knows about handle h after the events [t]
   (newest first): stopped, watching persistently, watching one-shot (and
   whether the one callback has been entered). *)
Inductive mode := MIdle | MPers (sig : nat) | MOne (sig : nat) (fired : bool).

Definition mode_start (m : mode) (sig : nat) (r : Z) (new : mode) : mode :=
  if sig =? 0 then m else
  if negb (r =? 0)%Z then MIdle else
  match m with
  | MIdle => new
  | MPers s' => if s' =? sig then m else new
  | MOne s' _ => if s' =? sig then m else new
  end.

Definition mode_step (e : event) (h : nat) (m : mode) : mode :=
  match e with
  | EOp (OStart h' sig) r => if h' =? h then mode_start m sig r (MPers sig) else m
  | EOp (OStartOneshot h' sig) r => if h' =? h then mode_start m sig r (MOne sig false) else m
  | EOp (OStop h') _ => if h' =? h then MIdle else m
  | EOp (OClose h') _ => if h' =? h then MIdle else m
  | EOp (OReinit h') _ => if h' =? h then MIdle else m
  | ECb h' _ => if h' =? h then match m with MOne s false => MOne s true | _ => m end else m
  | ECbEnd h' => if h' =? h then match m with MOne _ true => MIdle | _ => m end else m
  | ESnap _ a => if nth h a true then m else MIdle
  | _ => m
  end.

Fixpoint mode_of (t : list event) (h : nat) : mode :=
  match t with
  | [] => MIdle
  | e :: t' => mode_step e h (mode_of t' h)
  end.

(* a signal callback only on a handle that is watching exactly that signal *)
Definition cb_allowed (m : mode) (sig : nat) : bool :=
  match m with MIdle => false | MPers s => s =? sig | MOne s _ => s =? sig end.

Fixpoint nas_ok (t : list event) : bool :=
  match t with
  | [] => true
  | e :: t' => nas_ok t' && match e with ECb h sig => cb_allowed (mode_of t' h) sig | _ => true end
  end.

(* no second callback in a one-shot session *)
Fixpoint one_ok (t : list event) : bool :=
  match t with
  | [] => true
  | e :: t' => one_ok t' &&
      match e with
      | ECb h _ => match mode_of t' h with MOne _ true => false | _ => true end
      | _ => true
      end
  end.

Definition link (c : ctx) (h : nat) (m : mode) (x : handle) : Prop :=
  match m with
  | MIdle => h_signum x = 0
  | MPers sg => h_signum x = sg \/ (h_signum x = 0 /\ c = CMid)
  | MOne sg k => h_oneshot x = true /\ (h_signum x = sg \/ (h_signum x = 0 /\ c = CMid)) /\
                 (k = true -> c = CCb h sg)
  end.

Record TInv (c : ctx) (s : state) : Prop := {
  t_act : forall h, h_active (get s h) = negb (h_signum (get s h) =? 0);
  t_m0p : forall l m, In m (pipe_of s l) -> snd m <> 0;
  t_m0b : forall m, In m (batch s) -> snd m <> 0;
  t_nas : nas_ok (tr s) = true;
  t_one : one_ok (tr s) = true;
  t_oob : forall h, length (hs s) <= h -> mode_of (tr s) h = MIdle;
  t_link : forall h, link c h (mode_of (tr s) h) (get s h)
}.

Lemma nth_active s h : nth h (map h_active (hs s)) true = if h <? length (hs s) then h_active (get s h) else true.
Proof.
  destruct (Nat.ltb_spec h (length (hs s))).
  - unfold get. rewrite (nth_indep _ true (h_active dflt_h)) by (rewrite map_length; auto). apply map_nth.
  - apply nth_overflow. rewrite map_length; auto.
Qed.

(* [link] with the two uses of the context separated *)
Definition link2 (cs ck : ctx) (h : nat) (m : mode) (x : handle) : Prop :=
  match m with
  | MIdle => h_signum x = 0
  | MPers sg => h_signum x = sg \/ (h_signum x = 0 /\ cs = CMid)
  | MOne sg k => h_oneshot x = true /\ (h_signum x = sg \/ (h_signum x = 0 /\ cs = CMid)) /\
                 (k = true -> ck = CCb h sg)
  end.

Lemma link_link2 c h m x : link c h m x <-> link2 c c h m x.
Proof. destruct m; simpl; tauto. Qed.

(* a snapshot re-synchronises the observer: afterwards nothing is pending *)
Lemma tinv_snap_gen cs ck c' s :
  (forall h g, ck = CCb h g -> c' = CCb h g) ->
  (forall h, h_active (get s h) = negb (h_signum (get s h) =? 0)) ->
  (forall l m, In m (pipe_of s l) -> snd m <> 0) ->
  (forall m, In m (batch s) -> snd m <> 0) ->
  nas_ok (tr s) = true -> one_ok (tr s) = true ->
  (forall h, length (hs s) <= h -> mode_of (tr s) h = MIdle) ->
  (forall h, link2 cs ck h (mode_of (tr s) h) (get s h)) ->
  TInv c' (snap s).
Proof.
  intros Hc A Mp Mb N O B L. split; ssimpl; auto.
  - simpl. rewrite N; reflexivity.
  - simpl. rewrite O; reflexivity.
  - intros h Hh. simpl. rewrite B by auto. destruct (nth _ _ _); reflexivity.
  - intros h. change (get (snap s) h) with (get s h). simpl. rewrite nth_active.
    specialize (L h). specialize (A h).
    destruct (Nat.ltb_spec h (length (hs s))) as [Hl|Hl].
    + destruct (h_active (get s h)) eqn:Ea.
      * assert (h_signum (get s h) <> 0) by (destruct (Nat.eqb_spec (h_signum (get s h)) 0); simpl in A; congruence).
        destruct (mode_of (tr s) h) as [|sg|sg k]; simpl in *; auto.
        -- destruct L as [|[]]; auto; congruence.
        -- destruct L as (a&[|[]]&d); try congruence. repeat split; auto.
      * simpl. destruct (Nat.eqb_spec (h_signum (get s h)) 0); simpl in A; congruence.
    + rewrite B by auto. simpl. rewrite get_oob; auto.
Qed.

Lemma tinv_snap c c' s :
  (forall h g, c = CCb h g -> c' = CCb h g) ->
  TInv c s -> TInv c' (snap s).
Proof.
  intros Hc [A Mp Mb N O B L]. eapply tinv_snap_gen with (cs := c) (ck := c); eauto.
Qed.

Lemma link_same_core c h m x y : same_core x y -> link c h m x -> link c h m y.
Proof.
  intros (a&b&d&_) L. destruct m; simpl in *; rewrite ?b, ?d; auto.
Qed.

Lemma mode_start_idle m sig r new : sig <> 0 -> r <> 0%Z -> mode_start m sig r new = MIdle.
Proof.
  intros. unfold mode_start. destruct (Nat.eqb_spec sig 0); [congruence|].
  destruct (Z.eqb_spec r 0); [congruence|]. reflexivity.
Qed.

Lemma get_app_old s x h : h < length (hs s) -> get (with_hs s (hs s ++ [x])) h = get s h.
Proof. intros; unfold get; ssimpl; apply app_nth1; auto. Qed.

Lemma get_app_new s x : get (with_hs s (hs s ++ [x])) (length (hs s)) = x.
Proof. unfold get; ssimpl. rewrite app_nth2, Nat.sub_diag by auto. reflexivity. Qed.

Lemma get_app_oob s x h : length (hs s) < h -> get (with_hs s (hs s ++ [x])) h = dflt_h.
Proof. intros; unfold get; ssimpl. apply nth_overflow. rewrite app_length; simpl; lia. Qed.

Lemma usable_spec s h : usable s h = true -> h < length (hs s) /\ h_closing (get s h) = false.
Proof.
  unfold usable. rewrite andb_true_iff, negb_true_iff, Nat.ltb_lt. auto.
Qed.

(* pipes after a delivery: old messages, or messages of this signal *)
Lemma write_msg_pipe sig s y l m :
  In m (pipe_of (write_msg sig s y) l) -> In m (pipe_of s l) \/ m = (y, sig).
Proof.
  unfold write_msg. destruct (_ <? _); ssimpl; auto.
  unfold fupd. destruct (Nat.eqb_spec l (h_loop (get s y))) as [->|]; auto.
  rewrite in_app_iff. simpl. ssimpl. intuition.
Qed.

Lemma fold_write_pipe sig ys : forall s l m,
  In m (pipe_of (fold_left (write_msg sig) ys s) l) -> In m (pipe_of s l) \/ (snd m = sig /\ In (fst m) ys).
Proof.
  induction ys as [|y ys IH]; intros s l m H; simpl in *; auto.
  apply IH in H. destruct H as [H|[H1 H2]]; auto.
  apply write_msg_pipe in H. destruct H as [H|H]; auto. subst m; simpl; auto.
Qed.

Lemma deliver_pipe s sig l m :
  In m (pipe_of (fst (deliver s sig)) l) -> In m (pipe_of s l) \/ snd m = sig.
Proof.
  unfold deliver. destruct (disp_of s sig) as [|rh]; simpl; auto.
  unfold handler. intros H. apply fold_write_pipe in H. destruct H as [H|[H _]]; auto.
  left. destruct rh; exact H.
Qed.

Lemma stop_act s h :
  (forall x, h_active (get s x) = negb (h_signum (get s x) =? 0)) ->
  forall x, h_active (get (sig_stop s h) x) = negb (h_signum (get (sig_stop s h) x) =? 0).
Proof.
  intros A x. destruct (Nat.eq_dec h x) as [<-|Hn].
  - rewrite stop_signum. destruct (stop_fields s h) as (_&_&_&_&_&_&_&i). cbv zeta in i.
    rewrite i. specialize (A h). destruct (h_signum (get s h) =? 0) eqn:E0.
    + rewrite A. reflexivity.
    + reflexivity.
  - rewrite stop_get_other by auto. apply A.
Qed.

Lemma tinv_api_pre fx c s o : c <> CMid -> TInv c s -> TInv c (api fx s o).
Proof.
  intros Hc T.
  destruct T as [A Mp Mb N O B L].
  (* in a synchronised context a non-idle mode means really watching *)
  assert (Sy : forall h sg, (mode_of (tr s) h = MPers sg \/ exists k, mode_of (tr s) h = MOne sg k) ->
               h_signum (get s h) = sg).
  { intros h sg [E|[k E]]; specialize (L h); rewrite E in L; simpl in L.
    - destruct L as [|[]]; congruence.
    - destruct L as (_&[|[]]&_); congruence. }
  destruct o; simpl.
  - (* OInit *)
    split; ssimpl; auto.
    + intros h. gs. destruct (Nat.lt_trichotomy h (length (hs s))) as [H|[H|H]].
      * rewrite get_app_old by auto. apply A.
      * subst h. rewrite get_app_new. reflexivity.
      * rewrite get_app_oob by auto. reflexivity.
    + simpl. rewrite N. reflexivity.
    + simpl. rewrite O. reflexivity.
    + intros h Hh. rewrite app_length in Hh. simpl in *. apply B. lia.
    + intros h. gs. simpl. destruct (Nat.lt_trichotomy h (length (hs s))) as [H|[H|H]].
      * rewrite get_app_old by auto. apply L.
      * subst h. rewrite get_app_new. rewrite B by auto. reflexivity.
      * rewrite get_app_oob by auto. rewrite B by lia. reflexivity.
  - (* OStart *)
    destruct (usable s h) eqn:U.
    2:{ split; ssimpl; auto; simpl; rewrite ?N, ?O; auto. }
    apply usable_spec in U. destruct U as [Ul Uc].
    destruct (sig_start fx s h sig false) as [s1 r] eqn:E.
    pose proof (start_spec fx s h sig false) as S. rewrite E in S. simpl in S.
    destruct S as [S0 S1 S2|S0 S1 S2 S3|S0 S1 S2 S3 S4|S0 S1 S2 S3 S4 S5 S6 S7 S8 S9]; subst.
    + split; ssimpl; auto; simpl; rewrite ?N, ?O; auto.
      * intros h' Hh. rewrite B by auto. destruct (Nat.eqb_spec h h'); [lia|reflexivity].
      * intros h'. gs. destruct (h =? h'); auto. apply L.
    + split; ssimpl; auto; simpl; rewrite ?N, ?O; auto.
      * intros h' Hh. rewrite B by auto. destruct (Nat.eqb_spec h h'); [lia|reflexivity].
      * intros h'. gs. destruct (Nat.eqb_spec h h') as [<-|]; [|apply L].
        unfold mode_start. destruct (Nat.eqb_spec (h_signum (get s h)) 0); [congruence|]. simpl.
        specialize (L h). destruct (mode_of (tr s) h) as [|sg|sg k] eqn:Em.
        -- simpl in L. congruence.
        -- assert (X : h_signum (get s h) = sg) by (apply Sy; auto).
           rewrite X, Nat.eqb_refl. exact L.
        -- assert (X : h_signum (get s h) = sg) by (apply Sy; eauto).
           rewrite X, Nat.eqb_refl. exact L.
    + split; ssimpl; rewrite ?stop_tr, ?stop_pipe, ?stop_batch; auto; simpl; rewrite ?N, ?O; auto.
      * intros h'. gs. apply stop_act; auto.
      * intros h' Hh. rewrite stop_len in Hh. rewrite B by auto. destruct (h =? h'); auto.
        rewrite mode_start_idle; auto. discriminate.
      * intros h'. gs. destruct (Nat.eqb_spec h h') as [<-|Hn].
        -- rewrite mode_start_idle by (auto; discriminate). simpl. apply stop_signum.
        -- rewrite stop_get_other by auto. apply L.
    + split; ssimpl; rewrite ?S6, ?S7, ?S8; auto; simpl; rewrite ?N, ?O; auto.
      * intros h'. gs. destruct (Nat.eq_dec h h') as [<-|Hn].
        -- rewrite S5 by auto. simpl. destruct (Nat.eqb_spec sig 0); [congruence|]. reflexivity.
        -- rewrite S3 by auto. apply A.
      * intros h' Hh. rewrite S4 in Hh. rewrite B by auto. destruct (Nat.eqb_spec h h'); auto. lia.
      * intros h'. gs. destruct (Nat.eqb_spec h h') as [<-|Hn].
        -- rewrite S5 by auto. unfold mode_start.
           destruct (Nat.eqb_spec sig 0); [congruence|]. simpl.
           destruct (mode_of (tr s) h) as [|sg|sg k] eqn:Em; simpl; auto.
           ++ destruct (Nat.eqb_spec sg sig);
                [exfalso; apply S1; subst sg; symmetry; apply Sy; auto | simpl; auto].
           ++ destruct (Nat.eqb_spec sg sig);
                [exfalso; apply S1; subst sg; symmetry; apply Sy; eauto | simpl; auto].
        -- rewrite S3 by auto. apply L.
  - (* OStartOneshot *)
    destruct (usable s h) eqn:U.
    2:{ split; ssimpl; auto; simpl; rewrite ?N, ?O; auto. }
    apply usable_spec in U. destruct U as [Ul Uc].
    destruct (sig_start fx s h sig true) as [s1 r] eqn:E.
    pose proof (start_spec fx s h sig true) as S. rewrite E in S. simpl in S.
    destruct S as [S0 S1 S2|S0 S1 S2 S3|S0 S1 S2 S3 S4|S0 S1 S2 S3 S4 S5 S6 S7 S8 S9]; subst.
    + split; ssimpl; auto; simpl; rewrite ?N, ?O; auto.
      * intros h' Hh. rewrite B by auto. destruct (Nat.eqb_spec h h'); [lia|reflexivity].
      * intros h'. gs. destruct (h =? h'); auto. apply L.
    + split; ssimpl; auto; simpl; rewrite ?N, ?O; auto.
      * intros h' Hh. rewrite B by auto. destruct (Nat.eqb_spec h h'); [lia|reflexivity].
      * intros h'. gs. destruct (Nat.eqb_spec h h') as [<-|]; [|apply L].
        unfold mode_start. destruct (Nat.eqb_spec (h_signum (get s h)) 0); [congruence|]. simpl.
        specialize (L h). destruct (mode_of (tr s) h) as [|sg|sg k] eqn:Em.
        -- simpl in L. congruence.
        -- assert (X : h_signum (get s h) = sg) by (apply Sy; auto).
           rewrite X, Nat.eqb_refl. exact L.
        -- assert (X : h_signum (get s h) = sg) by (apply Sy; eauto).
           rewrite X, Nat.eqb_refl. exact L.
    + split; ssimpl; rewrite ?stop_tr, ?stop_pipe, ?stop_batch; auto; simpl; rewrite ?N, ?O; auto.
      * intros h'. gs. apply stop_act; auto.
      * intros h' Hh. rewrite stop_len in Hh. rewrite B by auto. destruct (h =? h'); auto.
        rewrite mode_start_idle; auto. discriminate.
      * intros h'. gs. destruct (Nat.eqb_spec h h') as [<-|Hn].
        -- rewrite mode_start_idle by (auto; discriminate). simpl. apply stop_signum.
        -- rewrite stop_get_other by auto. apply L.
    + split; ssimpl; rewrite ?S6, ?S7, ?S8; auto; simpl; rewrite ?N, ?O; auto.
      * intros h'. gs. destruct (Nat.eq_dec h h') as [<-|Hn].
        -- rewrite S5 by auto. simpl. destruct (Nat.eqb_spec sig 0); [congruence|]. reflexivity.
        -- rewrite S3 by auto. apply A.
      * intros h' Hh. rewrite S4 in Hh. rewrite B by auto. destruct (Nat.eqb_spec h h'); auto. lia.
      * intros h'. gs. destruct (Nat.eqb_spec h h') as [<-|Hn].
        -- rewrite S5 by auto. unfold mode_start.
           destruct (Nat.eqb_spec sig 0); [congruence|]. simpl.
           assert (F : h_oneshot (h_set_started sig (if fx then true else h_oneshot (get s h) || true) (get s h)) = true).
           { simpl. destruct fx; auto. apply orb_true_r. }
           destruct (mode_of (tr s) h) as [|sg|sg k] eqn:Em; simpl.
           ++ repeat split; auto. discriminate.
           ++ destruct (Nat.eqb_spec sg sig); simpl.
              ** exfalso. apply S1. subst sg. symmetry. apply Sy; auto.
              ** repeat split; auto. discriminate.
           ++ destruct (Nat.eqb_spec sg sig); simpl.
              ** exfalso. apply S1. subst sg. symmetry. apply Sy; eauto.
              ** repeat split; auto. discriminate.
        -- rewrite S3 by auto. apply L.
  - (* OStop *)
    destruct (usable s h) eqn:U.
    2:{ split; ssimpl; auto; simpl; rewrite ?N, ?O; auto. }
    split; ssimpl; rewrite ?stop_tr, ?stop_pipe, ?stop_batch; auto; simpl; rewrite ?N, ?O; auto.
    + intros h'. gs. apply stop_act; auto.
    + intros h' Hh. rewrite stop_len in Hh. rewrite B by auto. destruct (h =? h'); auto.
    + intros h'. gs. destruct (Nat.eqb_spec h h') as [<-|Hn].
      * simpl. apply stop_signum.
      * rewrite stop_get_other by auto. apply L.
  - (* OClose *)
    destruct (usable s h) eqn:U.
    2:{ split; ssimpl; auto; simpl; rewrite ?N, ?O; auto. }
    apply usable_spec in U. destruct U as [Ul Uc].
    destruct (close_misc s h) as (c1&c2&c3&c4).
    destruct (close_get_same s h Ul) as (g1&g2&g3&_). cbv zeta in *.
    split; ssimpl; rewrite ?c1, ?c2, ?c3; auto; simpl; rewrite ?N, ?O; auto.
    + intros h'. gs. destruct (Nat.eq_dec h h') as [<-|Hn].
      * rewrite g1, g3. specialize (A h). destruct (h_signum (get s h) =? 0) eqn:E0.
        -- rewrite A. reflexivity.
        -- reflexivity.
      * rewrite close_get_other by auto. apply A.
    + intros h' Hh. rewrite ?close_len, ?stop_len, ?len_upd_h in Hh. rewrite B by auto. destruct (h =? h'); auto.
    + intros h'. gs. destruct (Nat.eqb_spec h h') as [<-|Hn].
      * simpl. exact g1.
      * rewrite close_get_other by auto. apply L.
  - (* ORaise *)
    destruct (Nat.eqb_spec sig 0) as [E0|E0].
    { split; ssimpl; auto; simpl; rewrite ?N, ?O; auto. }
    destruct (deliver s sig) as [s1 r] eqn:E.
    pose proof (deliver_misc s sig) as D. rewrite E in D. cbv zeta in D. simpl in D.
    destruct D as (d1&d2&d3&d4&d5&d6).
    assert (Co : forall h, same_core (get s h) (get s1 h)).
    { intros h. gs. pose proof (deliver_core s sig h) as X. rewrite E in X. exact X. }
    split; ssimpl; rewrite ?d1, ?d2; auto; simpl; rewrite ?N, ?O; auto.
    + intros h. gs. destruct (Co h) as (_&b&_&_&a&_). rewrite a, b. apply A.
    + intros l m Hm. pose proof (deliver_pipe s sig l m) as X. rewrite E in X. simpl in X.
      destruct (X Hm) as [Y|Y]; eauto. congruence.
    + intros h Hh. apply B. pose proof (deliver_len s sig) as X. rewrite E in X. simpl in X. lia.
    + intros h. gs. eapply link_same_core; [apply Co | apply L].
  - (* ORun inside: skipped *)
    split; ssimpl; auto; simpl; rewrite ?N, ?O; auto.
  - (* OFork inside: skipped *)
    split; ssimpl; auto; simpl; rewrite ?N, ?O; auto.
  - (* OUvStop *)
    split; ssimpl; auto; simpl; rewrite ?N, ?O; auto.
  - (* OReinit *)
    destruct ((h <? length (hs s)) && h_closed (get s h)) eqn:G.
    2:{ split; ssimpl; auto; simpl; rewrite ?N, ?O; auto. }
    apply andb_true_iff in G. destruct G as [Gl _]. apply Nat.ltb_lt in Gl.
    set (s2 := with_clqs (sig_stop s h) (fun l => filter (fun x => negb (x =? h)) (clq_of (sig_stop s h) l))).
    assert (G2 : forall x, get s2 x = get (sig_stop s h) x) by reflexivity.
    assert (L2 : h < length (hs s2)) by (unfold s2; ssimpl; rewrite stop_len; auto).
    assert (Gh : get (upd_h s2 h (fun x => new_handle (h_loop x))) h = new_handle (h_loop (get s2 h)))
      by (apply get_upd_same; auto).
    assert (Go : forall x, x <> h -> get (upd_h s2 h (fun x => new_handle (h_loop x))) x = get s x).
    { intros x Hx. rewrite get_upd_other by auto. rewrite G2. apply stop_get_other; auto. }
    split.
    + intros x. gs. destruct (Nat.eq_dec x h) as [->|Hx]; [rewrite Gh; reflexivity | rewrite Go by auto; apply A].
    + intros l m Hm. change (In m (pipe_of (sig_stop s h) l)) in Hm. rewrite stop_pipe in Hm. eauto.
    + intros m Hm. change (In m (batch (sig_stop s h))) in Hm. rewrite stop_batch in Hm. eauto.
    + change (nas_ok (EOp (OReinit h) 0%Z :: tr (sig_stop s h)) = true). rewrite stop_tr. simpl. rewrite N. reflexivity.
    + change (one_ok (EOp (OReinit h) 0%Z :: tr (sig_stop s h)) = true). rewrite stop_tr. simpl. rewrite O. reflexivity.
    + intros x Hx. change (mode_of (EOp (OReinit h) 0%Z :: tr (sig_stop s h)) x = MIdle). rewrite stop_tr. simpl.
      change (length (hs (upd_h s2 h (fun x => new_handle (h_loop x)))) <= x) in Hx.
      rewrite len_upd_h in Hx. unfold s2 in Hx. ssimpl. rewrite stop_len in Hx.
      rewrite B by auto. destruct (h =? x); reflexivity.
    + intros x. gs. change (mode_of (tr (log (upd_h s2 h (fun x => new_handle (h_loop x))) (EOp (OReinit h) 0%Z))) x)
        with (mode_of (EOp (OReinit h) 0%Z :: tr (sig_stop s h)) x). rewrite stop_tr. simpl.
      destruct (Nat.eqb_spec h x) as [<-|Hx].
      * rewrite Gh. reflexivity.
      * rewrite Go by auto. apply L.
Qed.

Lemma tinv_api fx c s o : c <> CMid -> TInv c s -> TInv c (api_snap fx s o).
Proof.
  intros Hc T. unfold api_snap. apply tinv_snap with (c := c); auto. apply tinv_api_pre; auto.
Qed.


Lemma get_inc_disp s h h' :
  same_core (get s h') (get (upd_h s h h_inc_dispatched) h') \/ h = h'.
Proof.
  destruct (Nat.eq_dec h h'); auto. left. rewrite get_upd_other by auto. apply same_core_refl.
Qed.

Lemma inc_disp_fields s h r :
  let y := get (upd_h (with_batch s r) h h_inc_dispatched) h in let x := get s h in
  h_loop y = h_loop x /\ h_signum y = h_signum x /\ h_oneshot y = h_oneshot x /\
  h_active y = h_active x /\ h_closing y = h_closing x /\ h_closed y = h_closed x /\
  h_caught y = h_caught x /\ g_fired y = g_fired x.
Proof.
  cbv zeta. destruct (Nat.lt_ge_cases h (length (hs s))).
  - rewrite get_upd_same by auto. gs. repeat split.
  - rewrite upd_h_oob by auto. gs. repeat split.
Qed.

Lemma finish_spec s h r :
  let s' := msg_finish s h r in
  (forall h', h <> h' -> get s' h' = get s h') /\
  h_oneshot (get s' h) = h_oneshot (get s h) /\
  (h_oneshot (get s h) = true -> h_signum (get s' h) = 0) /\
  (h_oneshot (get s h) = false -> h_signum (get s' h) = h_signum (get s h)) /\
  tr s' = tr s /\ pipe_of s' = pipe_of s /\ length (hs s') = length (hs s) /\
  ((forall x, h_active (get s x) = negb (h_signum (get s x) =? 0)) ->
   forall x, h_active (get s' x) = negb (h_signum (get s' x) =? 0)).
Proof.
  cbv zeta. unfold msg_finish.
  set (s2 := upd_h (with_batch s r) h h_inc_dispatched).
  destruct (inc_disp_fields s h r) as (a&b&c&d&e&f&g&i). cbv zeta in *. fold s2 in a, b, c, d, e, f, g, i.
  assert (O2 : forall h', h <> h' -> get s2 h' = get s h').
  { intros. unfold s2. rewrite get_upd_other by auto. reflexivity. }
  assert (A2 : (forall x, h_active (get s x) = negb (h_signum (get s x) =? 0)) ->
               forall x, h_active (get s2 x) = negb (h_signum (get s2 x) =? 0)).
  { intros A x. destruct (Nat.eq_dec h x) as [<-|N]; [rewrite d, b; apply A | rewrite O2 by auto; apply A]. }
  rewrite c. destruct (h_oneshot (get s h)) eqn:Ef.
  - repeat split; try discriminate.
    + intros. rewrite stop_get_other by auto. auto.
    + destruct (stop_fields s2 h) as (_&x&_). cbv zeta in x. rewrite x. auto.
    + intros _. apply stop_signum.
    + rewrite stop_tr. reflexivity.
    + rewrite stop_pipe. reflexivity.
    + rewrite stop_len. unfold s2. rewrite len_upd_h. reflexivity.
    + intros A. apply stop_act. auto.
  - repeat split; try discriminate; auto.
    unfold s2. rewrite len_upd_h. reflexivity.
Qed.

Lemma after_cb_spec fr s h sig r :
  let s' := msg_after_cb fr s h sig r in
  (forall h', h <> h' -> get s' h' = get s h') /\
  h_oneshot (get s' h) = h_oneshot (get s h) /\
  (h_oneshot (get s h) = true -> (fr = false \/ h_signum (get s h) = sig) -> h_signum (get s' h) = 0) /\
  ((h_oneshot (get s h) = false \/ (fr = true /\ h_signum (get s h) <> sig)) ->
   h_signum (get s' h) = h_signum (get s h)) /\
  tr s' = tr s /\ pipe_of s' = pipe_of s /\ length (hs s') = length (hs s) /\
  ((forall x, h_active (get s x) = negb (h_signum (get s x) =? 0)) ->
   forall x, h_active (get s' x) = negb (h_signum (get s' x) =? 0)).
Proof.
  cbv zeta. unfold msg_after_cb. destruct fr.
  2:{ destruct (finish_spec s h r) as (f1&f2&f3&f4&f5&f6&f7&f8). cbv zeta in *.
      repeat split; auto.
      - intros [X|[X _]]; [auto|discriminate]. }
  set (s2 := upd_h (with_batch s r) h h_inc_dispatched).
  destruct (inc_disp_fields s h r) as (a&b&c&d&e&f&g&i). cbv zeta in *. fold s2 in a, b, c, d, e, f, g, i.
  assert (O2 : forall h', h <> h' -> get s2 h' = get s h').
  { intros. unfold s2. rewrite get_upd_other by auto. reflexivity. }
  assert (A2 : (forall x, h_active (get s x) = negb (h_signum (get s x) =? 0)) ->
               forall x, h_active (get s2 x) = negb (h_signum (get s2 x) =? 0)).
  { intros A x. destruct (Nat.eq_dec h x) as [<-|N]; [rewrite d, b; apply A | rewrite O2 by auto; apply A]. }
  rewrite c, b. destruct (h_oneshot (get s h)) eqn:Ef; simpl.
  - destruct (Nat.eqb_spec (h_signum (get s h)) sig) as [Es|Es].
    + repeat split.
      * intros. rewrite stop_get_other by auto. auto.
      * destruct (stop_fields s2 h) as (_&x&_). cbv zeta in x. rewrite x. auto.
      * intros _ _. apply stop_signum.
      * intros [X|[_ X]]; [discriminate|contradiction].
      * rewrite stop_tr. reflexivity.
      * rewrite stop_pipe. reflexivity.
      * rewrite stop_len. unfold s2. rewrite len_upd_h. reflexivity.
      * intros A. apply stop_act. auto.
    + repeat split; auto.
      * intros _ [X|X]; [discriminate|contradiction].
      * unfold s2. rewrite len_upd_h. reflexivity.
  - repeat split; auto; try discriminate.
    apply upd_length.
Qed.

Lemma link_finish c h m x y :
  h_oneshot y = h_oneshot x -> (h_signum y = h_signum x \/ h_signum y = 0) ->
  (forall k sg, m = MOne sg k -> k = true -> False) ->
  link c h m x -> link CMid h m y.
Proof.
  intros F S K L. destruct m as [|sg|sg k]; simpl in *.
  - destruct S; congruence.
  - destruct S as [S|S]; rewrite S; auto. destruct L as [|[]]; auto.
  - destruct L as (a&b&d). rewrite F. repeat split; auto.
    + destruct S as [S|S]; rewrite S; auto. destruct b as [|[]]; auto.
    + intros; exfalso; eauto.
Qed.

Lemma tinv_begin s l : TInv CTop s -> TInv CMid (log s (ERunBegin l)).
Proof.
  intros [A Mp Mb N O B L]. split; ssimpl; auto; simpl; rewrite ?N, ?O; auto.
  intros h. gs. specialize (L h). destruct (mode_of (tr s) h) as [|sg|sg k]; simpl in *; auto.
  - destruct L as [|[]]; auto.
  - destruct L as (a&b&d). repeat split; auto. destruct b as [|[]]; auto. intros K; apply d in K; discriminate.
Qed.

Lemma In_firstn {A} n (l : list A) x : In x (firstn n l) -> In x l.
Proof. revert l; induction n; intros [|y l]; simpl; intuition. Qed.
Lemma In_skipn {A} n (l : list A) x : In x (skipn n l) -> In x l.
Proof. revert l; induction n; intros [|y l]; simpl; intuition. Qed.

Lemma tinv_take s l : TInv CMid s -> batch s = [] -> TInv CMid (take_batch s l).
Proof.
  intros [A Mp Mb N O B L] _. unfold take_batch. split; ssimpl; auto.
  - intros l' m. unfold fupd. destruct (l' =? l); eauto using In_skipn.
  - intros m H. eapply Mp. eapply In_firstn; eauto.
Qed.

Lemma tinv_enter s h sig r : TInv CMid s -> batch s = (h, sig) :: r -> sig = h_signum (get s h) ->
  TInv (CCb h sig) (cb_enter s h sig).
Proof.
  intros [A Mp Mb N O B L] Hb Hs. unfold cb_enter.
  assert (S0 : sig <> 0) by (apply (Mb (h, sig)); rewrite Hb; simpl; auto).
  pose proof (L h) as Lh.
  assert (T1 : TInv (CCb h sig) (snap (log s (ECb h sig)))).
  { eapply tinv_snap_gen with (cs := CMid) (ck := CCb h sig); ssimpl; auto.
    - simpl. rewrite N. simpl.
      destruct (mode_of (tr s) h) as [|sg|sg k]; simpl in *.
      + congruence.
      + destruct Lh as [|[]]; try congruence. apply Nat.eqb_eq. congruence.
      + destruct Lh as (_&[|[]]&_); try congruence. apply Nat.eqb_eq. congruence.
    - simpl. rewrite O. simpl.
      destruct (mode_of (tr s) h) as [|sg|sg [|]]; simpl in *; auto.
      destruct Lh as (_&_&d). specialize (d eq_refl). discriminate.
    - intros h' Hh. simpl. rewrite B by auto. destruct (h =? h'); reflexivity.
    - intros h'. gs. simpl. specialize (L h').
      destruct (Nat.eqb_spec h h') as [<-|Hn].
      + destruct (mode_of (tr s) h) as [|sg|sg [|]]; simpl in *; auto.
        * destruct L as (_&_&d). specialize (d eq_refl). discriminate.
        * destruct L as (a&b&_). repeat split; auto. intros _.
          destruct b as [b|[b _]]; congruence.
      + destruct (mode_of (tr s) h') as [|sg|sg k]; simpl in *; auto.
        destruct L as (a&b&d). repeat split; auto. intros K; apply d in K; discriminate. }
  destruct T1 as [A1 Mp1 Mb1 N1 O1 B1 L1]. split; auto.
Qed.

Lemma tinv_skip s h sig r : TInv CMid s -> batch s = (h, sig) :: r -> sig <> h_signum (get s h) ->
  TInv CMid (msg_finish s h r).
Proof.
  intros [A Mp Mb N O B L] Hb _.
  destruct (finish_spec s h r) as (f1&f2&f3&f4&f5&f6&f7&f8). cbv zeta in *.
  split; rewrite ?f5, ?f6, ?msg_finish_batch; auto.
  - intros m Hm. apply Mb. rewrite Hb. simpl; auto.
  - intros h' Hh. apply B. lia.
  - intros h'. destruct (Nat.eq_dec h h') as [<-|Hn].
    + eapply link_finish; [exact f2| |..].
      * destruct (h_oneshot (get s h)); [right; auto | left; auto].
      * intros k sg Em Ek. subst k. specialize (L h). rewrite Em in L. simpl in L.
        destruct L as (_&_&d). specialize (d eq_refl). discriminate.
      * apply L.
    + rewrite f1 by auto. apply L.
Qed.

Lemma inc_disp_same s h r x :
  let y := get (upd_h (with_batch s r) h h_inc_dispatched) x in
  h_signum y = h_signum (get s x) /\ h_oneshot y = h_oneshot (get s x) /\ h_active y = h_active (get s x).
Proof.
  cbv zeta. destruct (Nat.eq_dec h x) as [<-|N].
  - destruct (inc_disp_fields s h r) as (a&b&c&d&_). cbv zeta in *. auto.
  - rewrite get_upd_other by auto. gs. auto.
Qed.

Lemma link_fields c h m x y : h_signum y = h_signum x -> h_oneshot y = h_oneshot x ->
  link c h m x -> link c h m y.
Proof. intros a b L. destruct m; simpl in *; rewrite ?a, ?b; auto. Qed.

Lemma tinv_log_drop c s h sig : TInv c s -> TInv c (log s (EDrop h sig)).
Proof.
  intros [A Mp Mb N O B L]. split; auto; ssimpl; simpl; rewrite ?N, ?O; auto.
Qed.

Lemma tinv_skip_fs fs s h sig r : TInv CMid s -> batch s = (h, sig) :: r -> sig <> h_signum (get s h) ->
  TInv CMid (msg_skip fs s h sig r).
Proof.
  intros T Hb Hn. unfold msg_skip. apply (tinv_log_drop CMid s h sig) in T.
  set (s0 := log s (EDrop h sig)) in *.
  assert (Hb0 : batch s0 = (h, sig) :: r) by exact Hb.
  destruct fs; [|eapply tinv_skip; eauto].
  destruct T as [A Mp Mb N O B L].
  split; auto.
  - intros x. destruct (inc_disp_same s0 h r x) as (a&_&b). cbv zeta in *. rewrite a, b. apply A.
  - intros m Hm. apply Mb. rewrite Hb0. simpl; auto.
  - intros x Hx. rewrite len_upd_h in Hx. apply B. exact Hx.
  - intros x. destruct (inc_disp_same s0 h r x) as (a&b&_). eapply link_fields; eauto.
Qed.

Lemma after_cb_signum fr s h sig r :
  h_signum (get (msg_after_cb fr s h sig r) h) = h_signum (get s h) \/
  h_signum (get (msg_after_cb fr s h sig r) h) = 0.
Proof.
  destruct (after_cb_spec fr s h sig r) as (_&_&a3&a4&_). cbv zeta in *.
  destruct (h_oneshot (get s h)) eqn:Ef; [|left; apply a4; auto].
  destruct fr; [|right; apply a3; auto].
  destruct (Nat.eq_dec (h_signum (get s h)) sig); [right; apply a3; auto | left; apply a4; auto].
Qed.

Lemma tinv_exit fr s h sig r : TInv (CCb h sig) s -> batch s = (h, sig) :: r ->
  TInv CMid (msg_after_cb fr (log s (ECbEnd h)) h sig r).
Proof.
  intros [A Mp Mb N O B L] Hb.
  destruct (after_cb_spec fr (log s (ECbEnd h)) h sig r) as (f1&f2&f3&f4&f5&f6&f7&f8). cbv zeta in *.
  pose proof (after_cb_signum fr (log s (ECbEnd h)) h sig r) as R.
  split; rewrite ?f5, ?f6, ?msg_after_cb_batch; auto.
  - intros m Hm. apply Mb. rewrite Hb. simpl; auto.
  - simpl. rewrite N; reflexivity.
  - simpl. rewrite O; reflexivity.
  - intros h' Hh. simpl. rewrite B by (ssimpl; lia). destruct (h =? h'); reflexivity.
  - intros h'. simpl. specialize (L h'). destruct (Nat.eqb_spec h h') as [<-|Hn].
    + revert f2 f3 f4 R. gs. intros f2 f3 f4 R.
      destruct (mode_of (tr s) h) as [|sg|sg [|]] eqn:Em; simpl in *.
      * destruct R; congruence.
      * destruct L as [L|[_ L]]; [|discriminate]. destruct R as [R|R]; rewrite R; auto.
      * destruct L as (a&[b|[_ b]]&d); [|discriminate]. specialize (d eq_refl).
        inversion d; subst. apply f3; auto.
      * destruct L as (a&[b|[_ b]]&d); [|discriminate]. rewrite f2. repeat split; auto.
        -- destruct R as [R|R]; rewrite R; auto.
        -- discriminate.
    + rewrite f1 by auto. gs.
      destruct (mode_of (tr s) h') as [|sg|sg k]; simpl in *; auto.
      * destruct L as [|[]]; auto.
      * destruct L as (a&b&d). repeat split; auto.
        -- destruct b as [|[]]; auto.
        -- intros K. apply d in K. congruence.
Qed.

Lemma tinv_clq s l q : TInv CMid s -> TInv CMid (set_clq s l q).
Proof. intros [A Mp Mb N O B L]. split; auto. Qed.

Lemma tinv_closed s h : TInv CMid s ->
  (h_dispatched (get s h) <? h_caught (get s h)) = false ->
  TInv CMid (log (upd_h s h h_set_closed) (ECloseCb h)).
Proof.
  intros [A Mp Mb N O B L] _.
  assert (Co : forall x, same_core (get s x) (get (upd_h s h h_set_closed) x) \/
                         (h = x /\ h_signum (get (upd_h s h h_set_closed) x) = h_signum (get s x) /\
                          h_active (get (upd_h s h h_set_closed) x) = h_active (get s x) /\
                          h_oneshot (get (upd_h s h h_set_closed) x) = h_oneshot (get s x))).
  { intros x. destruct (Nat.eq_dec h x) as [<-|Hn].
    - right. split; auto. destruct (Nat.lt_ge_cases h (length (hs s))).
      + rewrite get_upd_same by auto. repeat split.
      + rewrite upd_h_oob by auto. repeat split.
    - left. rewrite get_upd_other by auto. apply same_core_refl. }
  split; ssimpl; auto; simpl; rewrite ?N, ?O; auto.
  - intros x. gs. destruct (Co x) as [(_&b&_&_&a&_)|(_&b&a&_)]; fold (upd_h s h h_set_closed); rewrite a, b; apply A.
  - intros x Hx. rewrite upd_length in Hx. auto.
  - intros x. gs. fold (upd_h s h h_set_closed). specialize (L x).
    destruct (Co x) as [C|(_&b&a&f)].
    + eapply link_same_core; eauto.
    + destruct (mode_of (tr s) x); simpl in *; rewrite ?b, ?f; auto.
Qed.

Lemma tinv_end s l : TInv CMid s -> TInv CTop (snap (log s (ERunEnd l))).
Proof.
  intros [A Mp Mb N O B L]. apply tinv_snap with (c := CMid); [discriminate|].
  split; ssimpl; auto; simpl; rewrite ?N, ?O; auto.
Qed.

Lemma tinv_init c : TInv CTop (init c).
Proof.
  split; simpl; auto; try contradiction.
  - intros h. unfold get. simpl. destruct h; reflexivity.
  - intros h. unfold get. simpl. destruct h; reflexivity.
Qed.

(* --- uv_loop_fork in the child of a fork --- *)
Lemma nth_map_fix {A} (f : A -> A) d n l : f d = d -> nth n (map f l) d = f (nth n l d).
Proof. intros H. rewrite <- H at 1. apply map_nth. Qed.

Lemma fork_get s l x :
  get (loop_fork s l) x = if h_loop (get s x) =? l then h_reset_counters (get s x) else get s x.
Proof.
  unfold get, loop_fork. ssimpl.
  apply (nth_map_fix (fun y => if h_loop y =? l then h_reset_counters y else y)).
  simpl. destruct l; reflexivity.
Qed.

Lemma fork_fields s l x :
  let y := get (loop_fork s l) x in let z := get s x in
  h_loop y = h_loop z /\ h_signum y = h_signum z /\ h_oneshot y = h_oneshot z /\ h_active y = h_active z /\
  h_closing y = h_closing z /\ h_closed y = h_closed z /\ g_fired y = g_fired z /\
  (h_loop z <> l -> h_caught y = h_caught z /\ h_dispatched y = h_dispatched z) /\
  (h_loop z = l -> h_caught y = 0 /\ h_dispatched y = 0).
Proof.
  cbv zeta. rewrite fork_get. destruct (Nat.eqb_spec (h_loop (get s x)) l); repeat split; auto; try congruence;
    intros; contradiction.
Qed.

Lemma fork_len s l : length (hs (loop_fork s l)) = length (hs s).
Proof. unfold loop_fork. ssimpl. apply map_length. Qed.

Lemma fork_pipe s l l' : pipe_of (loop_fork s l) l' = if l' =? l then [] else pipe_of s l'.
Proof. reflexivity. Qed.

Lemma tinv_stopf c s l b : TInv c s -> TInv c (set_stopf s l b).
Proof. intros [A Mp Mb N O B L]. split; auto. Qed.

Lemma tinv_fork s l : TInv CTop s -> TInv CTop (snap (loop_fork s l)).
Proof.
  intros [A Mp Mb N O B L]. apply tinv_snap with (c := CTop); auto.
  split.
  - intros x. destruct (fork_fields s l x) as (_&a&_&b&_). cbv zeta in *. rewrite a, b. apply A.
  - intros l' m. rewrite fork_pipe. destruct (l' =? l); [contradiction | apply Mp].
  - exact Mb.
  - change (nas_ok (EFork l (filter (fun h => h_loop (get s h) =? l) (seq 0 (length (hs s)))) :: tr s) = true).
    simpl. rewrite N. reflexivity.
  - change (one_ok (EFork l (filter (fun h => h_loop (get s h) =? l) (seq 0 (length (hs s)))) :: tr s) = true).
    simpl. rewrite O. reflexivity.
  - intros x Hx. rewrite fork_len in Hx. change (mode_of (tr s) x = MIdle). auto.
  - intros x. change (mode_of (tr (loop_fork s l)) x) with (mode_of (tr s) x).
    destruct (fork_fields s l x) as (_&a&b&_). cbv zeta in *. eapply link_fields; eauto.
Qed.

Theorem tinv_run fx fs fr beh fuel c ops : TInv CTop (run fx fs fr beh fuel (init c) ops).
Proof.
  apply (rule_run fx fs fr beh TInv) with (Rq := fun _ _ => True);
    auto using tinv_api, tinv_begin, tinv_take, tinv_clq, tinv_closed, tinv_end, tinv_init, tinv_stopf, tinv_fork.
  - intros; eapply tinv_enter; eauto.
  - intros; eapply tinv_exit; eauto.
  - intros; eapply tinv_skip_fs; eauto.
Qed.

(* ------------------------------------------------------------------ *)
(* 4. the trace theorems in explicit form                               *)
(* ------------------------------------------------------------------ *)
Definition is_start_of (h : nat) (e : event) : Prop :=
  match e with
  | EOp (OStart h' _) _ => h' = h
  | EOp (OStartOneshot h' _) _ => h' = h
  | _ => False
  end.

Definition is_api_on (h : nat) (e : event) : Prop :=
  match e with
  | EOp (OStart h' _) _ => h' = h
  | EOp (OStartOneshot h' _) _ => h' = h
  | EOp (OStop h') _ => h' = h
  | EOp (OClose h') _ => h' = h
  | EOp (OReinit h') _ => h' = h
  | _ => False
  end.

Lemma nas_ok_app t2 t : nas_ok (t2 ++ t) = true -> nas_ok t = true.
Proof.
  induction t2; simpl; auto. rewrite andb_true_iff. intros [H _]; auto.
Qed.

Lemma one_ok_app t2 t : one_ok (t2 ++ t) = true -> one_ok t = true.
Proof.
  induction t2; simpl; auto. rewrite andb_true_iff. intros [H _]; auto.
Qed.

Lemma mode_step_idle e h : ~ is_start_of h e -> mode_step e h MIdle = MIdle.
Proof.
  destruct e as [o r|o|h' sg|h'|h'|l|l|d a|dh ds|fl fi]; simpl; auto.
  - destruct o; simpl; auto.
    + intros N. destruct (Nat.eqb_spec h0 h); auto. congruence.
    + intros N. destruct (Nat.eqb_spec h0 h); auto. congruence.
    + destruct (h0 =? h); auto.
    + destruct (h0 =? h); auto.
    + destruct (h0 =? h); auto.
  - destruct (h' =? h); auto.
  - destruct (h' =? h); auto.
  - destruct (nth h a true); auto.
Qed.

Lemma mode_idle_persist t1 t h :
  mode_of t h = MIdle -> (forall e, In e t1 -> ~ is_start_of h e) -> mode_of (t1 ++ t) h = MIdle.
Proof.
  intros Hm. induction t1 as [|e t1 IH]; intros Hn; simpl; auto.
  rewrite IH by (intros; apply Hn; simpl; auto). apply mode_step_idle. apply Hn; simpl; auto.
Qed.

Theorem none_after_stop fx fs fr beh fuel c ops t2 t1 t0 h sig o r :
  tr (run fx fs fr beh fuel (init c) ops) = t2 ++ ECb h sig :: t1 ++ EOp o r :: t0 ->
  o = OStop h \/ o = OClose h ->
  (forall e, In e t1 -> ~ is_start_of h e) ->
  False.
Proof.
  intros Ht Ho Hn.
  pose proof (t_nas _ _ (tinv_run fx fs fr beh fuel c ops)) as N. rewrite Ht in N.
  apply nas_ok_app in N. simpl in N. apply andb_true_iff in N. destruct N as [_ N].
  rewrite mode_idle_persist in N; auto; try discriminate.
  simpl. destruct Ho; subst o; simpl; rewrite Nat.eqb_refl; reflexivity.
Qed.

(* a callback is only ever made for the signal the handle is watching *)
Theorem callback_matches_watch fx fs fr beh fuel c ops t2 t0 h sig :
  tr (run fx fs fr beh fuel (init c) ops) = t2 ++ ECb h sig :: t0 ->
  cb_allowed (mode_of t0 h) sig = true.
Proof.
  intros Ht.
  pose proof (t_nas _ _ (tinv_run fx fs fr beh fuel c ops)) as N. rewrite Ht in N.
  apply nas_ok_app in N. simpl in N. apply andb_true_iff in N. apply N.
Qed.

Fixpoint count_cb (h : nat) (t : list event) : nat :=
  match t with
  | [] => 0
  | ECb h' _ :: t' => (if h' =? h then 1 else 0) + count_cb h t'
  | _ :: t' => count_cb h t'
  end.

Lemma oneshot_session_count seg : forall t h sig,
  nas_ok (seg ++ t) = true -> one_ok (seg ++ t) = true ->
  mode_of t h = MOne sig false ->
  (forall e, In e seg -> ~ is_api_on h e) ->
  (mode_of (seg ++ t) h = MOne sig false /\ count_cb h seg = 0) \/
  (mode_of (seg ++ t) h = MOne sig true /\ count_cb h seg = 1) \/
  (mode_of (seg ++ t) h = MIdle /\ count_cb h seg <= 1).
Proof.
  induction seg as [|e seg IH]; intros t h sig N O Hm Hn.
  - left. auto.
  - simpl in N, O. apply andb_true_iff in N. apply andb_true_iff in O.
    destruct N as [N Ne], O as [O Oe].
    specialize (IH t h sig N O Hm (fun e' H => Hn e' (or_intror H))).
    assert (He : ~ is_api_on h e) by (apply Hn; simpl; auto).
    cbn [app mode_of].
    destruct e as [o r|o|h' sg|h'|h'|l|l|d a|dh ds|fl fi]; cbn [mode_step count_cb]; auto.
    + destruct o; simpl in He; cbn [mode_step]; auto.
      * destruct (Nat.eqb_spec h0 h); [contradiction|auto].
      * destruct (Nat.eqb_spec h0 h); [contradiction|auto].
      * destruct (Nat.eqb_spec h0 h); [contradiction|auto].
      * destruct (Nat.eqb_spec h0 h); [contradiction|auto].
      * destruct (Nat.eqb_spec h0 h); [contradiction|auto].
    + destruct (Nat.eqb_spec h' h) as [->|]; [|simpl; auto].
      destruct IH as [[E C]|[[E C]|[E C]]]; rewrite E in *; simpl in *.
      * right; left. split; auto; lia.
      * discriminate Oe.
      * discriminate Ne.
    + destruct (Nat.eqb_spec h' h) as [->|]; auto.
      destruct IH as [[E C]|[[E C]|[E C]]]; rewrite E; [left; auto | right; right; split; auto; lia | right; right; split; auto].
    + destruct (nth h a true); auto.
      destruct IH as [[E C]|[[E C]|[E C]]]; right; right; split; auto; lia.
Qed.

Theorem oneshot_at_most_one fx fs fr beh fuel c ops seg t0 h sig :
  tr (run fx fs fr beh fuel (init c) ops) = seg ++ EOp (OStartOneshot h sig) 0%Z :: t0 ->
  sig <> 0 -> mode_of t0 h = MIdle ->
  (forall e, In e seg -> ~ is_api_on h e) ->
  count_cb h seg <= 1.
Proof.
  intros Ht Hs Hm Hn.
  pose proof (tinv_run fx fs fr beh fuel c ops) as T.
  pose proof (t_nas _ _ T) as N. pose proof (t_one _ _ T) as O. rewrite Ht in N, O.
  destruct (oneshot_session_count seg (EOp (OStartOneshot h sig) 0%Z :: t0) h sig N O) as [[_ C]|[[_ C]|[_ C]]]; auto; try lia.
  simpl. rewrite Nat.eqb_refl, Hm. unfold mode_start.
  destruct (Nat.eqb_spec sig 0); [congruence|]. reflexivity.
Qed.

Theorem idle_means_stopped fx fs fr beh fuel c ops h :
  let s := run fx fs fr beh fuel (init c) ops in
  mode_of (tr s) h = MIdle -> h_signum (get s h) = 0 /\ h_active (get s h) = false.
Proof.
  cbv zeta. intros Hm. pose proof (tinv_run fx fs fr beh fuel c ops) as T.
  pose proof (t_link _ _ T h) as L. rewrite Hm in L. simpl in L.
  split; auto. rewrite (t_act _ _ T h), L. reflexivity.
Qed.

(* ... and is then stopped: once the callback of a one-shot session has returned the
   handle is stopped (until the program starts it again) *)
Theorem oneshot_then_stopped fx fs fr beh fuel c ops seg t0 h sg :
  let s := run fx fs fr beh fuel (init c) ops in
  tr s = seg ++ ECbEnd h :: t0 ->
  mode_of t0 h = MOne sg true ->
  (forall e, In e seg -> ~ is_start_of h e) ->
  h_signum (get s h) = 0 /\ h_active (get s h) = false.
Proof.
  cbv zeta. intros Ht Hm Hn. apply idle_means_stopped. rewrite Ht.
  apply mode_idle_persist; auto. simpl. rewrite Nat.eqb_refl, Hm. reflexivity.
Qed.

(* ------------------------------------------------------------------ *)
(* 5. the tree: order, insertion, removal, lookups                      *)
(* ------------------------------------------------------------------ *)
Definition n2 (x : handle) : nat := if h_oneshot x then 1 else 0.

Definition lexlt (a : handle) (ia : nat) (b : handle) (ib : nat) : Prop :=
  h_signum a < h_signum b \/
  (h_signum a = h_signum b /\
   (n2 a < n2 b \/ (n2 a = n2 b /\ (h_loop a < h_loop b \/ (h_loop a = h_loop b /\ ia < ib))))).

Ltac cmp_tac :=
  unfold sig_compare, lexlt, n2;
  repeat match goal with
         | |- context [?x <? ?y] => destruct (Nat.ltb_spec x y)
         | |- context [h_oneshot ?x] => destruct (h_oneshot x)
         end; split; intros; try reflexivity; try discriminate; try lia.

Lemma cmp_lt a ia b ib : sig_compare a ia b ib = Lt <-> lexlt a ia b ib.
Proof. cmp_tac. Qed.
Lemma cmp_gt a ia b ib : sig_compare a ia b ib = Gt <-> lexlt b ib a ia.
Proof. cmp_tac. Qed.
Lemma cmp_eq a ia b ib : sig_compare a ia b ib = Eq -> ia = ib.
Proof.
  unfold sig_compare;
  repeat match goal with
         | |- context [?x <? ?y] => destruct (Nat.ltb_spec x y)
         | |- context [h_oneshot ?x] => destruct (h_oneshot x)
         end; intros; try discriminate; lia.
Qed.

Definition klt (s : state) (a b : nat) : Prop := lexlt (get s a) a (get s b) b.

Lemma klt_trans s a b c : klt s a b -> klt s b c -> klt s a c.
Proof. unfold klt, lexlt. lia. Qed.

Definition same_key (x y : handle) : Prop :=
  h_signum y = h_signum x /\ h_oneshot y = h_oneshot x /\ h_loop y = h_loop x.

Lemma klt_ext s s' a b : same_key (get s a) (get s' a) -> same_key (get s b) (get s' b) ->
  klt s a b -> klt s' a b.
Proof.
  unfold klt, lexlt, n2, same_key. intros (a1&a2&a3) (b1&b2&b3). rewrite a1, a2, a3, b1, b2, b3. auto.
Qed.

Lemma sorted_ext s s' t : (forall y, In y t -> same_key (get s y) (get s' y)) ->
  StronglySorted (klt s) t -> StronglySorted (klt s') t.
Proof.
  intros K H. induction H as [|y t H IH F]; constructor.
  - apply IH. intros; apply K; simpl; auto.
  - rewrite Forall_forall in *. intros z Hz. eapply klt_ext; [| |apply F; auto]; apply K; simpl; auto.
Qed.

Lemma sorted_filter {A} (R : A -> A -> Prop) f t : StronglySorted R t -> StronglySorted R (filter f t).
Proof.
  induction 1 as [|y t H IH F]; simpl. constructor.
  destruct (f y); auto. constructor; auto.
  rewrite Forall_forall in *. intros z Hz. apply filter_In in Hz. apply F. tauto.
Qed.

Lemma sorted_nodup s t : StronglySorted (klt s) t -> NoDup t.
Proof.
  induction 1 as [|y t H IH F]; constructor; auto.
  intros Hy. rewrite Forall_forall in F. specialize (F y Hy). unfold klt, lexlt in F. lia.
Qed.

Lemma remove_in x y t : In y (tree_remove x t) <-> In y t /\ y <> x.
Proof.
  unfold tree_remove. rewrite filter_In. rewrite negb_true_iff, Nat.eqb_neq. tauto.
Qed.

Lemma insert_in s x t : ~ In x t -> forall y, In y (tree_insert (hs s) x t) <-> y = x \/ In y t.
Proof.
  induction t as [|z t IH]; intros Hx y; simpl.
  - intuition.
  - fold (get s x). fold (get s z).
    destruct (sig_compare (get s x) x (get s z) z) eqn:E; simpl.
    + apply cmp_eq in E. exfalso. apply Hx. simpl; auto.
    + intuition.
    + rewrite IH by (intros H; apply Hx; simpl; auto). intuition.
Qed.

Lemma insert_sorted s x t : ~ In x t -> StronglySorted (klt s) t ->
  StronglySorted (klt s) (tree_insert (hs s) x t).
Proof.
  intros Hx H. induction H as [|z t H IH F]; simpl.
  - repeat constructor.
  - fold (get s x). fold (get s z).
    destruct (sig_compare (get s x) x (get s z) z) eqn:E.
    + constructor; auto.
    + apply cmp_lt in E. constructor. constructor; auto.
      constructor; auto. rewrite Forall_forall in *. intros w Hw. eapply klt_trans; eauto.
    + apply cmp_gt in E. constructor.
      * apply IH. intros Hi; apply Hx; simpl; auto.
      * rewrite Forall_forall in *. intros w Hw.
        apply insert_in in Hw; [|intros Hi; apply Hx; simpl; auto].
        destruct Hw as [->|Hw]; auto.
Qed.

(* lookups in a sorted tree *)
Definition sigs_ge (s : state) (n : nat) (t : list nat) : Prop := forall y, In y t -> n <= h_signum (get s y).

Lemma sorted_tail_ge s y t : StronglySorted (klt s) (y :: t) -> sigs_ge s (h_signum (get s y)) t.
Proof.
  intros H z Hz. inversion H as [|? ? _ F]; subst. rewrite Forall_forall in F.
  specialize (F z Hz). unfold klt, lexlt in F. lia.
Qed.

Lemma find_first_spec s sig t : StronglySorted (klt s) t ->
  match find (fun y => sig <=? h_signum (get s y)) t with
  | Some f => In f t /\ sig <= h_signum (get s f) /\
              (forall y, In y t -> h_signum (get s y) = sig ->
                         h_signum (get s f) = sig /\ n2 (get s f) <= n2 (get s y))
  | None => forall y, In y t -> h_signum (get s y) < sig
  end.
Proof.
  induction 1 as [|z t H IH F]; simpl. contradiction.
  destruct (Nat.leb_spec sig (h_signum (get s z))) as [L|L].
  - split; auto. split; auto. intros y [<-|Hy] Es; [lia|].
    rewrite Forall_forall in F. specialize (F y Hy). unfold klt, lexlt in F. lia.
  - destruct (find _ t) as [f|].
    + destruct IH as (a&b&c). split; auto. split; auto.
      intros y [<-|Hy] Es; [lia|auto].
    + intros y [<-|Hy]; auto.
Qed.

Lemma first_handle_none s sig : StronglySorted (klt s) (tree s) ->
  first_handle s sig = None -> forall y, In y (tree s) -> h_signum (get s y) <> sig.
Proof.
  intros S. unfold first_handle. pose proof (find_first_spec s sig (tree s) S) as P.
  destruct (find _ (tree s)) as [f|].
  - destruct P as (a&b&c). destruct (Nat.eqb_spec (h_signum (get s f)) sig); [discriminate|].
    intros _ y Hy Es. destruct (c y Hy Es). congruence.
  - intros _ y Hy. specialize (P y Hy). lia.
Qed.

Lemma first_handle_some s sig f : StronglySorted (klt s) (tree s) ->
  first_handle s sig = Some f ->
  In f (tree s) /\ h_signum (get s f) = sig /\
  (forall y, In y (tree s) -> h_signum (get s y) = sig -> h_oneshot (get s f) = true -> h_oneshot (get s y) = true).
Proof.
  intros S. unfold first_handle. pose proof (find_first_spec s sig (tree s) S) as P.
  destruct (find _ (tree s)) as [f'|]; [|discriminate].
  destruct P as (a&b&c). destruct (Nat.eqb_spec (h_signum (get s f')) sig); [|discriminate].
  intros E; inversion E; subst f'. split; auto. split; auto.
  intros y Hy Es Ff. destruct (c y Hy Es) as [_ Le]. unfold n2 in Le. rewrite Ff in Le.
  destruct (h_oneshot (get s y)); auto; lia.
Qed.

Lemma walk_in s sig t y : In y (walk s sig t) -> In y t /\ h_signum (get s y) = sig.
Proof.
  induction t as [|z t IH]; simpl; [contradiction|].
  destruct (Nat.eqb_spec (h_signum (get s z)) sig); simpl; [|contradiction].
  intros [<-|H]; auto. apply IH in H. tauto.
Qed.

Lemma drop_below_in s sig t y : In y (drop_below s sig t) -> In y t.
Proof.
  induction t as [|z t IH]; simpl; auto. destruct (_ <? _); auto.
Qed.

Lemma targets_in s sig y : In y (targets s sig) -> In y (tree s) /\ h_signum (get s y) = sig.
Proof.
  unfold targets. intros H. apply walk_in in H. destruct H. split; auto. eapply drop_below_in; eauto.
Qed.

Lemma walk_complete s sig t : StronglySorted (klt s) t -> sigs_ge s sig t ->
  forall y, In y t -> h_signum (get s y) = sig -> In y (walk s sig t).
Proof.
  induction 1 as [|z t H IH F]; intros G y Hy Es; simpl in *. contradiction.
  destruct (Nat.eqb_spec (h_signum (get s z)) sig) as [E|E].
  - destruct Hy as [<-|Hy]; simpl; auto. right. apply IH; auto. intros w Hw. apply G; simpl; auto.
  - exfalso. destruct Hy as [<-|Hy]; [congruence|].
    assert (sig <= h_signum (get s z)) by (apply G; simpl; auto).
    rewrite Forall_forall in F. specialize (F y Hy). unfold klt, lexlt in F. lia.
Qed.

Lemma targets_complete s sig : StronglySorted (klt s) (tree s) ->
  forall y, In y (tree s) -> h_signum (get s y) = sig -> In y (targets s sig).
Proof.
  unfold targets. generalize (tree s). induction 1 as [|z t H IH F]; intros y Hy Es. contradiction.
  cbn [drop_below]. destruct (Nat.ltb_spec (h_signum (get s z)) sig) as [L|L].
  - destruct Hy as [<-|Hy]; [lia|]. apply IH; auto.
  - apply walk_complete; auto. constructor; auto.
    intros w [<-|Hw]; auto.
    rewrite Forall_forall in F. specialize (F w Hw). unfold klt, lexlt in F. lia.
Qed.

Lemma sorted_sub_nodup s sig : StronglySorted (klt s) (tree s) -> NoDup (targets s sig).
Proof.
  intros S. unfold targets.
  assert (G : forall t, NoDup t -> NoDup (walk s sig (drop_below s sig t))).
  { induction t as [|z t IH]; intros N; simpl. constructor.
    inversion N; subst. destruct (_ <? _); auto.
    clear IH. revert N. generalize (z :: t). induction l as [|w l IH]; intros N; simpl. constructor.
    inversion N; subst. destruct (_ =? _); constructor; auto.
    intros Hw. apply walk_in in Hw. tauto. }
  apply G. eapply sorted_nodup; eauto.
Qed.

(* ------------------------------------------------------------------ *)
(* 6. state invariants S1-S3                                            *)
(* ------------------------------------------------------------------ *)
Fixpoint cnt (h : nat) (l : list msg) : nat :=
  match l with
  | [] => 0
  | m :: r => (if fst m =? h then 1 else 0) + cnt h r
  end.

(* messages caught for h and not yet handled: in its loop's pipe or in the buffer *)
Definition pending (s : state) (h : nat) : nat :=
  cnt h (pipe_of s (h_loop (get s h))) + cnt h (batch s).

Record SCore (s : state) : Prop := {
  s_tree : forall h, In h (tree s) <-> h_signum (get s h) <> 0;
  s_sorted : StronglySorted (klt s) (tree s);
  s_closed : forall h, h_closed (get s h) = true -> h_closing (get s h) = true;
  s_clq : forall l h, In h (clq_of s l) -> h_closing (get s h) = true;
  s_pipe : forall l m, In m (pipe_of s l) -> h_loop (get s (fst m)) = l /\ fst m < length (hs s);
  s_batchv : forall m, In m (batch s) -> fst m < length (hs s);
  s_count : forall h, h < length (hs s) -> h_caught (get s h) = h_dispatched (get s h) + pending s h;
  s_closed0 : forall h, h_closed (get s h) = true -> pending s h = 0
}.

Definition SClosing (s : state) : Prop :=
  forall h, h_closing (get s h) = true -> h_signum (get s h) = 0.

Definition SInv (s : state) : Prop := SCore s /\ SClosing s.

Lemma cnt_app h a b : cnt h (a ++ b) = cnt h a + cnt h b.
Proof. induction a; simpl; auto. rewrite IHa. lia. Qed.

Lemma cnt_zero h l : (forall m, In m l -> fst m <> h) -> cnt h l = 0.
Proof.
  induction l as [|m l IH]; simpl; auto. intros H.
  destruct (Nat.eqb_spec (fst m) h) as [E|E]; [exfalso; eapply H; eauto|].
  apply IH. intros; apply H; auto.
Qed.

(* what may change in a handle without touching the invariants *)
Definition same_acc (x y : handle) : Prop :=
  h_signum y = h_signum x /\ h_oneshot y = h_oneshot x /\ h_loop y = h_loop x /\
  h_caught y = h_caught x /\ h_dispatched y = h_dispatched x /\
  (h_closing x = true -> h_closing y = true) /\ h_closed y = h_closed x.

Lemma same_acc_refl x : same_acc x x.
Proof. repeat split; auto. Qed.

Lemma same_acc_key x y : same_acc x y -> same_key x y.
Proof. intros (a&b&c&_). repeat split; auto. Qed.

Lemma pending_frame s s' h :
  pipe_of s' = pipe_of s -> batch s' = batch s -> h_loop (get s' h) = h_loop (get s h) ->
  pending s' h = pending s h.
Proof. unfold pending. intros -> -> ->. reflexivity. Qed.

Lemma score_frame s s' :
  tree s' = tree s -> pipe_of s' = pipe_of s -> batch s' = batch s -> clq_of s' = clq_of s ->
  length (hs s') = length (hs s) -> (forall x, same_acc (get s x) (get s' x)) ->
  SCore s -> SCore s'.
Proof.
  intros Et Ep Eb Eq El Ac [T So C Q P B N Z].
  split; rewrite ?Et, ?Ep, ?Eb, ?Eq, ?El.
  - intros h. destruct (Ac h) as (a&_). rewrite a. apply T.
  - eapply sorted_ext; [|exact So]. intros; apply same_acc_key; auto.
  - intros h. destruct (Ac h) as (_&_&_&_&_&c&d). rewrite d. auto.
  - intros l h Hh. destruct (Ac h) as (_&_&_&_&_&c&_). eauto.
  - intros l m Hm. destruct (Ac (fst m)) as (_&_&c&_). rewrite c. auto.
  - auto.
  - intros h Hh. destruct (Ac h) as (_&_&c&d&e&_). rewrite d, e.
    rewrite (pending_frame s s') by auto. auto.
  - intros h Hh. destruct (Ac h) as (_&_&c&_&_&_&d). rewrite d in Hh.
    rewrite (pending_frame s s') by auto. auto.
Qed.

Lemma acc_of_upd s h f :
  (forall x, same_acc x (f x)) -> forall x, same_acc (get s x) (get (upd_h s h f) x).
Proof.
  intros F x. destruct (Nat.eq_dec h x) as [<-|N].
  - destruct (Nat.lt_ge_cases h (length (hs s))).
    + rewrite get_upd_same by auto. apply F.
    + rewrite upd_h_oob by auto. apply same_acc_refl.
  - rewrite get_upd_other by auto. apply same_acc_refl.
Qed.

Lemma score_upd_acc s h f : (forall x, same_acc x (f x)) -> SCore s -> SCore (upd_h s h f).
Proof.
  intros F. apply score_frame; try reflexivity.
  - apply len_upd_h.
  - apply acc_of_upd; auto.
Qed.

(* --- uv__signal_stop --- *)
Lemma stop_clq s h : clq_of (sig_stop s h) = clq_of s.
Proof.
  unfold sig_stop. destruct (_ =? 0); auto. ssimpl.
  destruct (first_handle _ _); [destruct (_ && _)|]; reflexivity.
Qed.

Lemma score_stop s h : SCore s -> SCore (sig_stop s h).
Proof.
  intros C. destruct (Nat.eq_dec (h_signum (get s h)) 0) as [E|E].
  { rewrite stop_noop; auto. }
  destruct C as [T So C Q P B N Z].
  assert (Hl : h < length (hs s)) by (apply signum_valid; auto).
  assert (G : get (sig_stop s h) h = h_set_stopped (get s h)) by (apply stop_get_same; auto).
  assert (Lp : forall x, h_loop (get (sig_stop s h) x) = h_loop (get s x)).
  { intros x. destruct (Nat.eq_dec h x) as [<-|]; [rewrite G; reflexivity | rewrite stop_get_other; auto]. }
  assert (Pe : forall x, pending (sig_stop s h) x = pending s x).
  { intros x. apply pending_frame; auto using stop_pipe, stop_batch. }
  split; rewrite ?stop_tree, ?stop_pipe, ?stop_batch, ?stop_clq, ?stop_len by auto.
  - intros x. rewrite remove_in. destruct (Nat.eq_dec h x) as [<-|Hn].
    + rewrite stop_signum. intuition.
    + rewrite stop_get_other by auto. rewrite T. intuition.
  - eapply sorted_ext; [|apply sorted_filter; exact So].
    intros y Hy. apply remove_in in Hy. destruct Hy as [_ Hy].
    rewrite stop_get_other by auto. repeat split.
  - intros x. destruct (Nat.eq_dec h x) as [<-|Hn]; [rewrite G; simpl; auto | rewrite stop_get_other; auto].
  - intros l x Hx. destruct (Nat.eq_dec h x) as [<-|Hn]; [rewrite G; simpl; eauto | rewrite stop_get_other; eauto].
  - intros l m Hm. rewrite Lp. auto.
  - auto.
  - intros x Hx. rewrite Pe. destruct (Nat.eq_dec h x) as [<-|Hn]; [rewrite G; simpl; auto | rewrite stop_get_other; auto].
  - intros x Hx. rewrite Pe. apply Z. destruct (Nat.eq_dec h x) as [<-|Hn]; [rewrite G in Hx; auto | rewrite stop_get_other in Hx; auto].
Qed.

Lemma sclosing_stop s h :
  (forall x, x <> h -> h_closing (get s x) = true -> h_signum (get s x) = 0) -> SClosing (sig_stop s h).
Proof.
  intros H x Hx. destruct (Nat.eq_dec h x) as [<-|Hn].
  - apply stop_signum.
  - rewrite stop_get_other in * by auto. auto.
Qed.

(* --- insertion at the end of uv__signal_start --- *)
Lemma score_insert s h sig flag :
  SCore s -> h_signum (get s h) = 0 -> h < length (hs s) -> sig <> 0 ->
  let s4 := upd_h s h (h_set_started sig flag) in
  SCore (with_tree s4 (tree_insert (hs s4) h (tree s4))).
Proof.
  intros [T So C Q P B N Z] E0 Hl Hs. cbv zeta.
  set (s4 := upd_h s h (h_set_started sig flag)).
  assert (G : get s4 h = h_set_started sig flag (get s h)) by (apply get_upd_same; auto).
  assert (Go : forall x, x <> h -> get s4 x = get s x) by (intros; apply get_upd_other; auto).
  assert (Ni : ~ In h (tree s)) by (rewrite T; intuition).
  assert (Lp : forall x, h_loop (get s4 x) = h_loop (get s x)).
  { intros x. destruct (Nat.eq_dec x h) as [->|]; [rewrite G; reflexivity | rewrite Go; auto]. }
  assert (Pe : forall x, pending (with_tree s4 (tree_insert (hs s4) h (tree s4))) x = pending s x).
  { intros x. apply pending_frame; auto. apply Lp. }
  assert (So4 : StronglySorted (klt s4) (tree s)).
  { eapply sorted_ext; [|exact So]. intros y Hy. rewrite Go by congruence. repeat split. }
  assert (E1 : tree s4 = tree s) by reflexivity.
  assert (E2 : pipe_of s4 = pipe_of s) by reflexivity.
  assert (E3 : batch s4 = batch s) by reflexivity.
  assert (E4 : clq_of s4 = clq_of s) by reflexivity.
  assert (E5 : length (hs s4) = length (hs s)) by apply len_upd_h.
  split; ssimpl; rewrite ?E1, ?E2, ?E3, ?E4, ?E5.
  - intros x. gs.
    rewrite (insert_in s4) by exact Ni. destruct (Nat.eq_dec x h) as [->|Hn].
    + rewrite G. simpl. intuition.
    + rewrite Go by auto. rewrite T. intuition.
  - eapply sorted_ext; [|apply (insert_sorted s4); eauto]. intros; repeat split.
  - intros x. gs. destruct (Nat.eq_dec x h) as [->|Hn]; [rewrite G; simpl; auto | rewrite Go; auto].
  - intros l x Hx. gs. destruct (Nat.eq_dec x h) as [->|Hn]; [rewrite G; simpl; eauto | rewrite Go; eauto].
  - intros l m Hm. gs. rewrite Lp. auto.
  - auto.
  - intros x Hx. rewrite Pe. gs.
    destruct (Nat.eq_dec x h) as [->|Hn]; [rewrite G; simpl; auto | rewrite Go; auto].
  - intros x Hx. rewrite Pe. apply Z. gs_in Hx.
    destruct (Nat.eq_dec x h) as [->|Hn]; [rewrite G in Hx; auto | rewrite Go in Hx; auto].
Qed.

Lemma start_shape fx s h sig os : sig <> 0 -> sig <> h_signum (get s h) ->
  let s1 := sig_stop s h in
  let r := sig_start fx s h sig os in
  (fst r = s1 /\ snd r = UV_EINVAL) \/
  (exists s3 flag, snd r = 0%Z /\ hs s3 = hs s1 /\ tree s3 = tree s1 /\ pipe_of s3 = pipe_of s1 /\
     batch s3 = batch s1 /\ clq_of s3 = clq_of s1 /\
     fst r = with_tree (upd_h s3 h (h_set_started sig flag))
               (tree_insert (hs (upd_h s3 h (h_set_started sig flag))) h (tree (upd_h s3 h (h_set_started sig flag))))).
Proof.
  intros E0 E1. cbv zeta. unfold sig_start.
  destruct (Nat.eqb_spec sig 0); [congruence|].
  destruct (Nat.eqb_spec sig (h_signum (get s h))); [congruence|].
  rewrite stop_if.
  set (s1 := sig_stop s h).
  set (need := match first_handle s1 sig with None => true | Some f => negb os && h_oneshot (get s1 f) end).
  destruct (need && negb (sigok sig)); [left; auto|].
  right.
  set (s2 := if need then set_disp s1 sig (Handler os) else s1).
  set (s3 := if fired_oneshot_on s2 sig then with_race s2 true else s2).
  exists s3, (if fx then os else h_oneshot (get s3 h) || os). cbn [fst snd].
  repeat split; unfold s3, s2; destruct (fired_oneshot_on _ _), need; reflexivity.
Qed.

Lemma sinv_start fx s h sig os : usable s h = true -> SInv s -> SInv (fst (sig_start fx s h sig os)).
Proof.
  intros U [C K]. apply usable_spec in U. destruct U as [Ul Uc].
  pose proof (start_spec fx s h sig os) as S.
  destruct S as [S0 S1 S2|S0 S1 S2 S3|S0 S1 S2 S3 S4|S0 S1 S2 S3 S4 S5 S6 S7 S8 S9].
  - rewrite S1. split; auto.
  - rewrite S2. split; auto.
  - rewrite S2. split; [apply score_stop; auto | apply sclosing_stop; auto].
  - split.
    + destruct (start_shape fx s h sig os S0 S1) as [[_ X]|(s3&flag&_&e1&e2&e3&e4&e5&e6)].
      { rewrite S2 in X. discriminate. }
      rewrite e6.
      assert (C3 : SCore s3).
      { eapply score_frame with (s := sig_stop s h); auto; try congruence.
        - intros x. rewrite (get_hs_eq (sig_stop s h) s3) by auto. apply same_acc_refl.
        - apply score_stop; auto. }
      apply score_insert; auto.
      * rewrite (get_hs_eq (sig_stop s h) s3) by auto. apply stop_signum.
      * rewrite e1, stop_len. auto.
    + intros x Hx. destruct (Nat.eq_dec x h) as [->|Hn].
      * rewrite S5 in Hx by auto. simpl in Hx. congruence.
      * rewrite S3 in * by auto. auto.
Qed.

Lemma score_write_msg sig s y : sig <> 0 -> SCore s -> In y (tree s) -> h_closed (get s y) = false ->
  SCore (write_msg sig s y).
Proof.
  intros Hs C Hy Hc. unfold write_msg.
  assert (Hl : y < length (hs s)).
  { apply signum_valid. apply (s_tree _ C). auto. }
  set (s1 := upd_h s y h_set_fired).
  assert (C1 : SCore s1) by (apply score_upd_acc; auto; intros; repeat split; auto).
  assert (G1 : get s1 y = h_set_fired (get s y)) by (apply get_upd_same; auto).
  assert (L1 : length (hs s1) = length (hs s)) by apply len_upd_h.
  change (h_loop (get s y)) with (h_loop (h_set_fired (get s y))). rewrite <- G1.
  destruct (_ <? _).
  2:{ eapply score_frame with (s := s1); auto; try reflexivity. intros; apply same_acc_refl. }
  set (l := h_loop (get s1 y)).
  set (s2 := set_pipe s1 l (pipe_of s1 l ++ [(y, sig)])).
  destruct C1 as [T So C' Q P B N Z].
  assert (G2 : forall x, get s2 x = get s1 x) by reflexivity.
  assert (G3 : get (upd_h s2 y h_inc_caught) y = h_inc_caught (get s1 y)).
  { rewrite get_upd_same; [rewrite G2; auto | change (hs s2) with (hs s1); lia]. }
  assert (Go : forall x, x <> y -> get (upd_h s2 y h_inc_caught) x = get s1 x).
  { intros. rewrite get_upd_other by auto. apply G2. }
  assert (Ac : forall x, same_key (get s1 x) (get (upd_h s2 y h_inc_caught) x) /\
                         h_closing (get (upd_h s2 y h_inc_caught) x) = h_closing (get s1 x) /\
                         h_closed (get (upd_h s2 y h_inc_caught) x) = h_closed (get s1 x) /\
                         h_dispatched (get (upd_h s2 y h_inc_caught) x) = h_dispatched (get s1 x)).
  { intros x. destruct (Nat.eq_dec x y) as [->|Hn]; [rewrite G3 | rewrite Go by auto]; repeat split. }
  assert (Pe : forall x, pending (upd_h s2 y h_inc_caught) x = pending s1 x + (if x =? y then 1 else 0)).
  { intros x. unfold pending. destruct (Ac x) as ((_&_&lp)&_). rewrite lp.
    change (batch (upd_h s2 y h_inc_caught)) with (batch s1).
    change (pipe_of (upd_h s2 y h_inc_caught)) with (fupd (pipe_of s1) l (pipe_of s1 l ++ [(y, sig)])).
    unfold fupd. destruct (Nat.eqb_spec (h_loop (get s1 x)) l) as [El|El].
    - rewrite El, cnt_app. simpl. rewrite (Nat.eqb_sym y x). lia.
    - destruct (Nat.eqb_spec x y) as [->|]; [exfalso; apply El; reflexivity | lia]. }
  split.
  - intros x. destruct (Ac x) as ((a&_)&_). rewrite a. apply T.
  - eapply sorted_ext; [|exact So]. intros x _. apply Ac.
  - intros x. destruct (Ac x) as (_&a&b&_). rewrite a, b. auto.
  - intros l' x Hx. destruct (Ac x) as (_&a&_). rewrite a. eauto.
  - intros l' m Hm. destruct (Ac (fst m)) as ((_&_&a)&_). rewrite a.
    rewrite len_upd_h. change (length (hs s2)) with (length (hs s1)).
    change (pipe_of (upd_h s2 y h_inc_caught)) with (fupd (pipe_of s1) l (pipe_of s1 l ++ [(y, sig)])) in Hm.
    unfold fupd in Hm. destruct (Nat.eqb_spec l' l) as [->|]; auto.
    apply in_app_iff in Hm. destruct Hm as [Hm|[<-|[]]]; auto. cbn [fst]. split; [reflexivity|rewrite L1; exact Hl].
  - intros m Hm. rewrite len_upd_h. apply B. exact Hm.
  - intros x Hx. rewrite len_upd_h in Hx. change (length (hs s2)) with (length (hs s1)) in Hx.
    rewrite Pe. destruct (Ac x) as (_&_&_&d). rewrite d.
    destruct (Nat.eqb_spec x y) as [->|Hn].
    + rewrite G3. simpl. rewrite N by auto. lia.
    + rewrite Go by auto. rewrite N by auto. lia.
  - intros x Hx. rewrite Pe. destruct (Ac x) as (_&_&b&_). rewrite b in Hx.
    destruct (Nat.eqb_spec x y) as [->|Hn].
    + rewrite G1 in Hx. simpl in Hx. congruence.
    + rewrite Z by auto. reflexivity.
Qed.

Lemma score_fold_write sig ys : sig <> 0 -> forall s, SCore s ->
  (forall y, In y ys -> In y (tree s) /\ h_closed (get s y) = false) ->
  SCore (fold_left (write_msg sig) ys s).
Proof.
  intros Hs. induction ys as [|y ys IH]; intros s C H; simpl; auto.
  apply IH.
  - apply score_write_msg; auto; apply H; simpl; auto.
  - intros z Hz. destruct (H z) as [a b]; [simpl; auto|].
    destruct (write_msg_misc sig s y) as (_&_&t&_). rewrite t. split; auto.
    destruct (write_msg_core sig s y z) as (_&_&_&_&_&_&c). rewrite c. auto.
Qed.

Lemma sinv_deliver s sig : sig <> 0 -> SInv s -> SInv (fst (deliver s sig)).
Proof.
  intros Hs [C K]. split.
  - unfold deliver. destruct (disp_of s sig) as [|rh]; simpl; auto.
    unfold handler.
    set (s1 := if rh then set_disp s sig Default else s).
    assert (E : forall x, get s1 x = get s x) by (intros; unfold s1; destruct rh; reflexivity).
    assert (C1 : SCore s1).
    { eapply score_frame with (s := s); auto; unfold s1; destruct rh; try reflexivity;
        intros; apply same_acc_refl. }
    apply score_fold_write; auto.
    intros y Hy. apply targets_in in Hy. destruct Hy as [a b]. split; auto.
    destruct (h_closed (get s1 y)) eqn:Ec; auto.
    rewrite E in *. apply (s_closed _ C) in Ec. apply K in Ec. congruence.
  - intros x Hx. destruct (deliver_core s sig x) as (_&b&_&_&_&c&_). rewrite b. rewrite c in Hx. auto.
Qed.

Lemma sinv_close s h : usable s h = true -> SInv s -> SInv (sig_close s h).
Proof.
  intros U [C K]. apply usable_spec in U. destruct U as [Ul Uc].
  unfold sig_close.
  set (s1 := upd_h s h h_set_closing).
  set (s2 := sig_stop s1 h).
  assert (C2 : SCore s2).
  { apply score_stop. apply score_upd_acc; auto. intros; repeat split; auto. }
  assert (Hc : h_closing (get s2 h) = true).
  { destruct (stop_fields s1 h) as (_&_&_&_&e&_). cbv zeta in e. unfold s2. rewrite e.
    unfold s1. rewrite get_upd_same by auto. reflexivity. }
  split.
  - destruct C2 as [T So C' Q P B N Z]. split; auto.
    intros l x Hx. gs. ssimpl. unfold fupd in Hx.
    destruct (l =? _); eauto. destruct Hx as [<-|Hx]; eauto.
  - intros x. gs. unfold s2. apply sclosing_stop.
    intros y Hn Hy. unfold s1 in *. rewrite get_upd_other in * by auto. auto.
Qed.

Lemma sinv_pop s h sig r : SInv s -> batch s = (h, sig) :: r ->
  SInv (upd_h (with_batch s r) h h_inc_dispatched).
Proof.
  intros [C K] Hb.
  set (s2 := upd_h (with_batch s r) h h_inc_dispatched).
  assert (Hl : h < length (hs s)) by (apply (s_batchv _ C (h, sig)); rewrite Hb; simpl; auto).
  assert (G : get s2 h = h_inc_dispatched (get s h)) by (unfold s2; rewrite get_upd_same by auto; reflexivity).
  assert (Go : forall x, x <> h -> get s2 x = get s x) by (intros; unfold s2; rewrite get_upd_other by auto; reflexivity).
  assert (Ac : forall x, same_key (get s x) (get s2 x) /\ h_closing (get s2 x) = h_closing (get s x) /\
                         h_closed (get s2 x) = h_closed (get s x) /\ h_caught (get s2 x) = h_caught (get s x)).
  { intros x. destruct (Nat.eq_dec x h) as [->|Hn]; [rewrite G | rewrite Go by auto]; repeat split. }
  assert (Pe : forall x, pending s x = pending s2 x + (if x =? h then 1 else 0)).
  { intros x. unfold pending. destruct (Ac x) as ((_&_&lp)&_). rewrite lp.
    change (pipe_of s2) with (pipe_of s). change (batch s2) with r. rewrite Hb. simpl.
    rewrite (Nat.eqb_sym h x). lia. }
  assert (C2 : SCore s2).
  { destruct C as [T So C' Q P B N Z]. split.
    - intros x. destruct (Ac x) as ((a&_)&_). rewrite a. apply T.
    - eapply sorted_ext; [|exact So]. intros x _. apply Ac.
    - intros x. destruct (Ac x) as (_&a&b&_). rewrite a, b. auto.
    - intros l x Hx. destruct (Ac x) as (_&a&_). rewrite a. eauto.
    - intros l m Hm. destruct (Ac (fst m)) as ((_&_&a)&_). rewrite a. unfold s2. rewrite len_upd_h. auto.
    - intros m Hm. unfold s2. rewrite len_upd_h. apply B. rewrite Hb. simpl; auto.
    - intros x Hx. unfold s2 in Hx. rewrite len_upd_h in Hx. change (length (hs (with_batch s r))) with (length (hs s)) in Hx.
      specialize (N x Hx). rewrite Pe in N. destruct (Ac x) as (_&_&_&d). rewrite d.
      destruct (Nat.eqb_spec x h) as [->|Hn].
      + rewrite G. simpl. lia.
      + rewrite Go by auto. lia.
    - intros x Hx. destruct (Ac x) as (_&_&b&_). rewrite b in Hx. specialize (Z x Hx).
      rewrite Pe in Z. lia. }
  assert (K2 : SClosing s2).
  { intros x Hx. destruct (Ac x) as ((a&_)&b&_). rewrite a. rewrite b in Hx. auto. }
  split; auto.
Qed.

Lemma sinv_finish s h sig r : SInv s -> batch s = (h, sig) :: r -> SInv (msg_finish s h r).
Proof.
  intros I Hb. unfold msg_finish. pose proof (sinv_pop s h sig r I Hb) as [C2 K2].
  destruct (h_oneshot _); [|split; auto].
  split; [apply score_stop; auto | apply sclosing_stop; auto].
Qed.

Lemma sinv_after_cb fr s h sig r : SInv s -> batch s = (h, sig) :: r -> SInv (msg_after_cb fr s h sig r).
Proof.
  intros I Hb. unfold msg_after_cb. destruct fr; [|eapply sinv_finish; eauto].
  pose proof (sinv_pop s h sig r I Hb) as [C2 K2].
  destruct (_ && _); [|split; auto].
  split; [apply score_stop; auto | apply sclosing_stop; auto].
Qed.

Lemma sinv_take s l : SInv s -> batch s = [] -> SInv (take_batch s l).
Proof.
  intros [C K] Hb. split; [|exact K].
  destruct C as [T So C' Q P B N Z]. unfold take_batch.
  assert (Pe : forall x, pending (with_batch (set_pipe s l (skipn batch_size (pipe_of s l))) (firstn batch_size (pipe_of s l))) x = pending s x).
  { intros x. unfold pending. gs. ssimpl. rewrite Hb. simpl. unfold fupd.
    destruct (Nat.eqb_spec (h_loop (get s x)) l) as [->|Hn].
    - rewrite <- (firstn_skipn batch_size (pipe_of s l)) at 3. rewrite cnt_app. lia.
    - rewrite (cnt_zero x (firstn _ _)); [lia|].
      intros m Hm E. apply In_firstn in Hm. apply P in Hm. destruct Hm as [a _]. congruence. }
  split; auto.
  - intros l' m Hm. gs. ssimpl. unfold fupd in Hm. destruct (l' =? l) eqn:E; auto.
    apply Nat.eqb_eq in E. subst l'. apply In_skipn in Hm. auto.
  - intros m Hm. ssimpl. apply In_firstn in Hm. apply P in Hm. tauto.
  - intros x Hx. rewrite Pe. gs. apply N. exact Hx.
  - intros x Hx. rewrite Pe. apply Z. exact Hx.
Qed.

Lemma sinv_init s l : SInv s -> SInv (with_hs s (hs s ++ [new_handle l])).
Proof.
  intros [C K].
  set (s' := with_hs s (hs s ++ [new_handle l])).
  assert (G : forall x, get s' x = get s x \/
                        (x = length (hs s) /\ get s' x = new_handle l /\ get s x = dflt_h)).
  { intros x. destruct (Nat.lt_trichotomy x (length (hs s))) as [H|[H|H]].
    - left. apply get_app_old; auto.
    - right. subst. split; auto. split; [apply get_app_new | apply get_oob; lia].
    - left. unfold s'. rewrite get_app_oob by auto. symmetry. apply get_oob; lia. }
  assert (F : forall x, h_signum (get s' x) = h_signum (get s x) /\ h_oneshot (get s' x) = h_oneshot (get s x) /\
                        h_caught (get s' x) = h_caught (get s x) /\ h_dispatched (get s' x) = h_dispatched (get s x) /\
                        h_closing (get s' x) = h_closing (get s x) /\ h_closed (get s' x) = h_closed (get s x)).
  { intros x. destruct (G x) as [->|(_&->&->)]; repeat split. }
  assert (Pv : forall x, x < length (hs s) -> pending s' x = pending s x).
  { intros x Hx. apply pending_frame; try reflexivity. destruct (G x) as [->|(E&_)]; auto. lia. }
  destruct C as [T So C' Q P B N Z].
  assert (Pn : pending s' (length (hs s)) = 0).
  { unfold pending. change (pipe_of s') with (pipe_of s). change (batch s') with (batch s).
    rewrite !cnt_zero; auto.
    - intros m Hm E. apply B in Hm. lia.
    - intros m Hm E. apply P in Hm. lia. }
  assert (L' : length (hs s') = S (length (hs s))).
  { unfold s'. ssimpl. rewrite app_length. simpl. lia. }
  split.
  - split; change (tree s') with (tree s); change (clq_of s') with (clq_of s);
      change (pipe_of s') with (pipe_of s); change (batch s') with (batch s); rewrite ?L'.
    + intros x. destruct (F x) as (a&_). rewrite a. apply T.
    + eapply sorted_ext; [|exact So]. intros x Hx.
      destruct (G x) as [->|(_&_&E)]; [repeat split|].
      apply T in Hx. rewrite E in Hx. simpl in Hx. congruence.
    + intros x. destruct (F x) as (_&_&_&_&a&b). rewrite a, b. auto.
    + intros l' x Hx. destruct (F x) as (_&_&_&_&a&_). rewrite a. eauto.
    + intros l' m Hm. destruct (P l' m Hm) as [a b]. split; [|lia].
      destruct (G (fst m)) as [->|(E&_)]; auto. lia.
    + intros m Hm. apply B in Hm. lia.
    + intros x Hx. destruct (F x) as (_&_&a&b&_). rewrite a, b.
      destruct (Nat.eq_dec x (length (hs s))) as [->|Hn].
      * rewrite Pn. rewrite get_oob by lia. reflexivity.
      * rewrite Pv by lia. apply N. lia.
    + intros x Hx. destruct (F x) as (_&_&_&_&_&b). rewrite b in Hx.
      destruct (Nat.lt_ge_cases x (length (hs s))).
      * rewrite Pv by auto. auto.
      * rewrite get_oob in Hx by auto. discriminate.
  - intros x Hx. destruct (F x) as (a&_&_&_&b&_). rewrite a. rewrite b in Hx. auto.
Qed.

Lemma sinv_ext s s' :
  hs s' = hs s -> tree s' = tree s -> pipe_of s' = pipe_of s -> batch s' = batch s -> clq_of s' = clq_of s ->
  SInv s -> SInv s'.
Proof.
  intros Eh Et Ep Eb Eq [C K]. split.
  - eapply score_frame with (s := s); auto; try congruence.
    intros x. rewrite (get_hs_eq s s') by auto. apply same_acc_refl.
  - intros x. rewrite (get_hs_eq s s') by auto. apply K.
Qed.

Lemma sinv_log s e : SInv s -> SInv (log s e).
Proof. apply sinv_ext; reflexivity. Qed.
Lemma sinv_snap s : SInv s -> SInv (snap s).
Proof. apply sinv_ext; reflexivity. Qed.

Lemma sinv_stop s h : SInv s -> SInv (sig_stop s h).
Proof. intros [C K]. split; [apply score_stop; auto | apply sclosing_stop; auto]. Qed.

(* the state of OReinit before the event is logged *)
Definition reinit_state (s : state) (h : nat) : state :=
  upd_h (with_clqs (sig_stop s h) (fun l => filter (fun x => negb (x =? h)) (clq_of (sig_stop s h) l)))
        h (fun x => new_handle (h_loop x)).

Lemma reinit_get_same s h : h < length (hs s) ->
  get (reinit_state s h) h = new_handle (h_loop (get s h)).
Proof.
  intros Hl. unfold reinit_state. rewrite get_upd_same by (ssimpl; rewrite stop_len; auto). gs.
  destruct (stop_fields s h) as (a&_). cbv zeta in a. rewrite a. reflexivity.
Qed.

Lemma reinit_get_other s h x : x <> h -> get (reinit_state s h) x = get s x.
Proof. intros Hx. unfold reinit_state. rewrite get_upd_other by auto. gs. apply stop_get_other; auto. Qed.

Lemma reinit_misc s h :
  tree (reinit_state s h) = tree (sig_stop s h) /\ pipe_of (reinit_state s h) = pipe_of s /\
  batch (reinit_state s h) = batch s /\ tr (reinit_state s h) = tr s /\
  length (hs (reinit_state s h)) = length (hs s) /\ disp_of (reinit_state s h) = disp_of (sig_stop s h) /\
  race (reinit_state s h) = race s /\ lost (reinit_state s h) = lost (sig_stop s h).
Proof.
  unfold reinit_state. ssimpl. rewrite stop_pipe, stop_batch, stop_tr, upd_length, stop_len, stop_race. repeat split.
Qed.

Lemma sinv_reinit s h : SInv s -> h < length (hs s) -> h_closed (get s h) = true -> SInv (reinit_state s h).
Proof.
  intros I Hl Hc. pose proof (sinv_stop s h I) as [C1 K1].
  destruct (reinit_misc s h) as (mt&mp&mb&_&ml&_).
  assert (Gh := reinit_get_same s h Hl). assert (Go := reinit_get_other s h).
  assert (G1 : forall x, x <> h -> get (sig_stop s h) x = get s x) by (intros; apply stop_get_other; auto).
  assert (Z1 : h_signum (get (sig_stop s h) h) = 0) by apply stop_signum.
  assert (Hc1 : h_closed (get (sig_stop s h) h) = true).
  { destruct (stop_fields s h) as (_&_&_&_&_&f&_). cbv zeta in f. rewrite f. exact Hc. }
  assert (Ni : ~ In h (tree (sig_stop s h))) by (rewrite (s_tree _ C1); intuition).
  assert (Lp : forall x, h_loop (get (reinit_state s h) x) = h_loop (get (sig_stop s h) x)).
  { intros x. destruct (Nat.eq_dec x h) as [->|Hx]; [rewrite Gh, stop_loop; reflexivity | rewrite Go, G1; auto]. }
  assert (Pe : forall x, pending (reinit_state s h) x = pending (sig_stop s h) x).
  { intros x. apply pending_frame; [rewrite mp, stop_pipe | rewrite mb, stop_batch | apply Lp]; reflexivity. }
  destruct C1 as [T So C' Q P B N Z]. split.
  - split; rewrite ?mt, ?ml.
    + intros x. destruct (Nat.eq_dec x h) as [->|Hx].
      * rewrite Gh. simpl. intuition.
      * rewrite Go, <- G1 by auto. apply T.
    + eapply sorted_ext; [|exact So]. intros y Hy.
      assert (y <> h) by (intros ->; contradiction). rewrite Go, <- G1 by auto. repeat split.
    + intros x. destruct (Nat.eq_dec x h) as [->|Hx]; [rewrite Gh; discriminate | rewrite Go, <- G1 by auto; apply C'].
    + intros l x Hx. unfold reinit_state in Hx. ssimpl. apply filter_In in Hx. destruct Hx as [Hx Hn].
      apply negb_true_iff, Nat.eqb_neq in Hn. rewrite Go, <- G1 by auto. eapply Q; eauto.
    + intros l m Hm. rewrite mp, <- (stop_pipe s h) in Hm. destruct (P l m Hm) as [a b].
      rewrite Lp. rewrite stop_len in b. auto.
    + intros m Hm. rewrite mb, <- (stop_batch s h) in Hm. apply B in Hm. rewrite stop_len in Hm. exact Hm.
    + intros x Hx. rewrite Pe. destruct (Nat.eq_dec x h) as [->|Hn].
      * rewrite Gh. simpl. symmetry. apply Z. exact Hc1.
      * rewrite Go, <- G1 by auto. apply N. rewrite stop_len. exact Hx.
    + intros x Hx. rewrite Pe. destruct (Nat.eq_dec x h) as [->|Hn].
      * rewrite Gh in Hx. discriminate.
      * rewrite Go, <- G1 in Hx by auto. auto.
  - intros x Hx. destruct (Nat.eq_dec x h) as [->|Hn].
    + rewrite Gh in Hx. discriminate.
    + rewrite Go, <- G1 in * by auto. apply K1. exact Hx.
Qed.

Lemma sinv_stopf s l b : SInv s -> SInv (set_stopf s l b).
Proof. apply sinv_ext; reflexivity. Qed.

Lemma sinv_api fx s o : SInv s -> SInv (api_snap fx s o).
Proof.
  intros I. unfold api_snap. apply sinv_snap. destruct o; simpl.
  - apply sinv_log. apply sinv_init; auto.
  - destruct (usable s h) eqn:U; [|apply sinv_log; auto].
    pose proof (sinv_start fx s h sig false U I) as X.
    destruct (sig_start fx s h sig false). apply sinv_log; auto.
  - destruct (usable s h) eqn:U; [|apply sinv_log; auto].
    pose proof (sinv_start fx s h sig true U I) as X.
    destruct (sig_start fx s h sig true). apply sinv_log; auto.
  - destruct (usable s h); apply sinv_log; auto using sinv_stop.
  - destruct (usable s h) eqn:U; apply sinv_log; auto using sinv_close.
  - destruct (Nat.eqb_spec sig 0); [apply sinv_log; auto|].
    pose proof (sinv_deliver s sig n I) as X.
    destruct (deliver s sig). apply sinv_log; auto.
  - apply sinv_log; auto.
  - apply sinv_log; auto.
  - apply sinv_log, sinv_stopf; auto.
  - destruct ((h <? length (hs s)) && h_closed (get s h)) eqn:G; [|apply sinv_log; auto].
    apply andb_true_iff in G. destruct G as [Gl Gc]. apply Nat.ltb_lt in Gl.
    apply sinv_log. apply (sinv_reinit s h); auto.
Qed.

Lemma sinv_closed s h : SInv s -> h_closing (get s h) = true ->
  (h_dispatched (get s h) <? h_caught (get s h)) = false ->
  SInv (log (upd_h s h h_set_closed) (ECloseCb h)).
Proof.
  intros [C K] Hc Hd. apply sinv_log.
  assert (Hl : h < length (hs s)).
  { destruct (Nat.lt_ge_cases h (length (hs s))); auto. rewrite get_oob in Hc by auto. discriminate. }
  apply Nat.ltb_ge in Hd.
  assert (G : get (upd_h s h h_set_closed) h = h_set_closed (get s h)) by (apply get_upd_same; auto).
  assert (Go : forall x, x <> h -> get (upd_h s h h_set_closed) x = get s x) by (intros; apply get_upd_other; auto).
  assert (F : forall x, same_key (get s x) (get (upd_h s h h_set_closed) x) /\
                        h_closing (get (upd_h s h h_set_closed) x) = h_closing (get s x) /\
                        h_caught (get (upd_h s h h_set_closed) x) = h_caught (get s x) /\
                        h_dispatched (get (upd_h s h h_set_closed) x) = h_dispatched (get s x)).
  { intros x. destruct (Nat.eq_dec x h) as [->|]; [rewrite G | rewrite Go by auto]; repeat split. }
  assert (Pe : forall x, pending (upd_h s h h_set_closed) x = pending s x).
  { intros x. apply pending_frame; try reflexivity. apply F. }
  destruct C as [T So C' Q P B N Z]. split.
  - split; change (tree (upd_h s h h_set_closed)) with (tree s);
      change (pipe_of (upd_h s h h_set_closed)) with (pipe_of s);
      change (batch (upd_h s h h_set_closed)) with (batch s);
      change (clq_of (upd_h s h h_set_closed)) with (clq_of s); rewrite ?len_upd_h.
    + intros x. destruct (F x) as ((a&_)&_). rewrite a. apply T.
    + eapply sorted_ext; [|exact So]. intros; apply F.
    + intros x Hx. destruct (F x) as (_&a&_). rewrite a.
      destruct (Nat.eq_dec x h) as [->|Hn]; auto. rewrite Go in Hx by auto. auto.
    + intros l x Hx. destruct (F x) as (_&a&_). rewrite a. eauto.
    + intros l m Hm. destruct (F (fst m)) as ((_&_&a)&_). rewrite a. auto.
    + auto.
    + intros x Hx. rewrite Pe. destruct (F x) as (_&_&a&b). rewrite a, b. auto.
    + intros x Hx. rewrite Pe. destruct (Nat.eq_dec x h) as [->|Hn].
      * specialize (N h Hl). lia.
      * rewrite Go in Hx by auto. auto.
  - intros x Hx. destruct (F x) as ((a&_)&b&_). rewrite a. rewrite b in Hx. auto.
Qed.

Lemma sinv_requeue s l h : SInv s -> h_closing (get s h) = true -> SInv (set_clq s l (h :: clq_of s l)).
Proof.
  intros [C K] Hc. split; [|exact K].
  destruct C as [T So C' Q P B N Z]. split; auto.
  intros l' x Hx. gs. ssimpl. unfold fupd in Hx. destruct (l' =? l); eauto.
  destruct Hx as [<-|Hx]; eauto.
Qed.

Lemma sinv_clq_nil s l : SInv s -> SInv (set_clq s l []).
Proof.
  intros [C K]. split; [|exact K].
  destruct C as [T So C' Q P B N Z]. split; auto.
  intros l' x Hx. gs. ssimpl. unfold fupd in Hx. destruct (l' =? l); eauto; contradiction.
Qed.

Lemma sinv_cb_enter s h sig : SInv s -> SInv (cb_enter s h sig).
Proof. apply sinv_ext; reflexivity. Qed.

Lemma sinv_init0 c : SInv (init c).
Proof.
  assert (G : forall h, get (init c) h = dflt_h) by (intros h; unfold get; simpl; destruct h; reflexivity).
  split.
  - split.
    + intros h. rewrite G. simpl. intuition.
    + apply SSorted_nil.
    + intros h. rewrite G. discriminate.
    + intros l h. simpl. contradiction.
    + intros l m. simpl. contradiction.
    + intros m. simpl. contradiction.
    + intros h. simpl. lia.
    + intros h. rewrite G. discriminate.
  - intros h. rewrite G. reflexivity.
Qed.

Lemma fork_pending s l x : batch s = [] ->
  pending (loop_fork s l) x = if h_loop (get s x) =? l then 0 else pending s x.
Proof.
  intros Hb. unfold pending. destruct (fork_fields s l x) as (a&_). cbv zeta in a. rewrite a.
  change (batch (loop_fork s l)) with (batch s). rewrite Hb, fork_pipe. simpl.
  destruct (h_loop (get s x) =? l); reflexivity.
Qed.

Lemma sinv_fork s l : SInv s -> batch s = [] -> SInv (snap (loop_fork s l)).
Proof.
  intros [C K] Hb. apply sinv_snap. destruct C as [T So C' Q P B N Z]. split.
  - split; change (tree (loop_fork s l)) with (tree s); change (clq_of (loop_fork s l)) with (clq_of s);
      change (batch (loop_fork s l)) with (batch s); rewrite ?fork_len.
    + intros x. destruct (fork_fields s l x) as (_&a&_). cbv zeta in a. rewrite a. apply T.
    + eapply sorted_ext; [|exact So]. intros y _. destruct (fork_fields s l y) as (a&b&c&_). repeat split; auto.
    + intros x. destruct (fork_fields s l x) as (_&_&_&_&a&b&_). cbv zeta in *. rewrite a, b. apply C'.
    + intros l' x Hx. destruct (fork_fields s l x) as (_&_&_&_&a&_). cbv zeta in *. rewrite a. eauto.
    + intros l' m. rewrite fork_pipe. destruct (l' =? l); [contradiction|]. intros Hm.
      destruct (fork_fields s l (fst m)) as (a&_). cbv zeta in a. rewrite a. auto.
    + exact B.
    + intros x Hx. rewrite fork_pending by auto.
      destruct (fork_fields s l x) as (_&_&_&_&_&_&_&a&b). cbv zeta in *.
      destruct (Nat.eqb_spec (h_loop (get s x)) l) as [E|E].
      * destruct (b E) as [b1 b2]. rewrite b1, b2. reflexivity.
      * destruct (a E) as [a1 a2]. rewrite a1, a2. auto.
    + intros x Hx. rewrite fork_pending by auto.
      destruct (fork_fields s l x) as (_&_&_&_&_&a&_). cbv zeta in *. rewrite a in Hx.
      destruct (h_loop (get s x) =? l); auto.
  - intros x Hx. destruct (fork_fields s l x) as (_&a&_&_&b&_). cbv zeta in *. rewrite a. rewrite b in Hx. auto.
Qed.

Theorem sinv_run fx fs fr beh fuel c ops : SInv (run fx fs fr beh fuel (init c) ops).
Proof.
  apply (rule_run fx fs fr beh (fun _ => SInv)) with (Rq := fun s h => h_closing (get s h) = true);
    auto using sinv_api, sinv_log, sinv_take, sinv_clq_nil, sinv_requeue, sinv_closed, sinv_init0, sinv_stopf, sinv_fork.
  - intros; apply sinv_cb_enter; auto.
  - intros; eapply sinv_after_cb; eauto. apply sinv_log; auto.
  - intros s h sig r I Hb _. unfold msg_skip. apply (sinv_log s (EDrop h sig)) in I.
    destruct fs; [eapply sinv_pop | eapply sinv_finish]; eauto.
  - intros s l h [C K] Hh. eapply (s_clq _ C); eauto.
  - intros s h' h Hc. gs. destruct (Nat.eq_dec h' h) as [->|Hn].
    + destruct (Nat.lt_ge_cases h (length (hs s))).
      * rewrite get_upd_same by auto. auto.
      * rewrite upd_h_oob by auto. auto.
    + rewrite get_upd_other by auto. auto.
  - intros. apply sinv_snap, sinv_log; auto.
Qed.

(* invariants S1 (sorted, duplicate-free), S2, S3 for every reachable state *)
Theorem tree_sorted_nodup fx fs fr beh fuel c ops :
  let s := run fx fs fr beh fuel (init c) ops in
  StronglySorted (fun a b => sig_compare (get s a) a (get s b) b = Lt) (tree s) /\ NoDup (tree s).
Proof.
  cbv zeta. destruct (sinv_run fx fs fr beh fuel c ops) as [C _]. split.
  - pose proof (s_sorted _ C) as S. clear C. induction S as [|y t H IH F]; constructor; auto.
    rewrite Forall_forall in *. intros z Hz. apply cmp_lt. apply F; auto.
  - eapply sorted_nodup. apply (s_sorted _ C).
Qed.

Theorem tree_iff_started fx fs fr beh fuel c ops h :
  let s := run fx fs fr beh fuel (init c) ops in
  In h (tree s) <-> h_signum (get s h) <> 0.
Proof. cbv zeta. destruct (sinv_run fx fs fr beh fuel c ops) as [C _]. apply (s_tree _ C). Qed.

Theorem caught_minus_dispatched fx fs fr beh fuel c ops h :
  let s := run fx fs fr beh fuel (init c) ops in
  h < length (hs s) ->
  h_caught (get s h) = h_dispatched (get s h) + pending s h.
Proof. cbv zeta. destruct (sinv_run fx fs fr beh fuel c ops) as [C _]. apply (s_count _ C). Qed.

(* close_cb only after every signal caught for the handle has left the pipe *)
Theorem closed_nothing_pending fx fs fr beh fuel c ops h :
  let s := run fx fs fr beh fuel (init c) ops in
  h_closed (get s h) = true ->
  pending s h = 0 /\ h_closing (get s h) = true /\ h_signum (get s h) = 0 /\ ~ In h (tree s).
Proof.
  cbv zeta. intros Hc. destruct (sinv_run fx fs fr beh fuel c ops) as [C K].
  pose proof (s_closed _ C h Hc) as Hcl.
  repeat split; auto. apply (s_closed0 _ C); auto.
  rewrite (s_tree _ C). intros N. apply N. auto.
Qed.

(* ------------------------------------------------------------------ *)
(* 7. the kernel disposition (S4)                                       *)
(* ------------------------------------------------------------------ *)
Definition entry (s : state) (sig y : nat) : Prop := In y (tree s) /\ h_signum (get s y) = sig.

Record DSig (s : state) (sig : nat) : Prop := {
  d_none : (forall y, ~ entry s sig y) -> disp_of s sig = Default;
  d_pers : forall y, entry s sig y -> h_oneshot (get s y) = false -> disp_of s sig = Handler false;
  d_dflt : disp_of s sig = Default -> race s = false -> forall y, entry s sig y -> g_fired (get s y) = true
}.

Definition DInv (s : state) : Prop := forall sig, sig <> 0 -> DSig s sig.

(* nothing the disposition invariant looks at gets worse *)
Lemma dsig_frame s s' sig :
  tree s' = tree s -> disp_of s' sig = disp_of s sig -> (race s' = false -> race s = false) ->
  (forall y, In y (tree s) -> h_signum (get s' y) = h_signum (get s y) /\
                               h_oneshot (get s' y) = h_oneshot (get s y) /\
                               (g_fired (get s y) = true -> g_fired (get s' y) = true)) ->
  DSig s sig -> DSig s' sig.
Proof.
  intros Et Ed Er F [A B C].
  assert (En : forall y, entry s' sig y <-> entry s sig y).
  { intros y. unfold entry. rewrite Et. split; intros [a b]; split; auto; destruct (F y a) as (c&_); congruence. }
  split; rewrite Ed.
  - intros H. apply A. intros y Hy. apply (H y). apply En; auto.
  - intros y Hy Hf. apply En in Hy. apply (B y Hy). destruct Hy as [a _]. destruct (F y a) as (_&c&_). congruence.
  - intros Hd Hr y Hy. apply En in Hy. destruct Hy as [a b]. destruct (F y a) as (_&_&c). apply c.
    apply C; auto. split; auto.
Qed.

Lemma dinv_frame s s' :
  tree s' = tree s -> disp_of s' = disp_of s -> (race s' = false -> race s = false) ->
  (forall y, In y (tree s) -> h_signum (get s' y) = h_signum (get s y) /\
                               h_oneshot (get s' y) = h_oneshot (get s y) /\
                               (g_fired (get s y) = true -> g_fired (get s' y) = true)) ->
  DInv s -> DInv s'.
Proof.
  intros Et Ed Er F D sig Hs. eapply dsig_frame; eauto. rewrite Ed. reflexivity.
Qed.

Lemma dinv_stop s h : SCore s -> DInv s -> DInv (sig_stop s h).
Proof.
  intros C D. destruct (Nat.eq_dec (h_signum (get s h)) 0) as [E0|E0].
  { rewrite stop_noop; auto. }
  set (sg := h_signum (get s h)) in *.
  pose proof (stop_tree s h E0) as Tr.
  assert (Go : forall y, y <> h -> get (sig_stop s h) y = get s y) by (intros; apply stop_get_other; auto).
  set (s1 := with_tree s (tree_remove h (tree s))).
  assert (So1 : StronglySorted (klt s1) (tree s1)).
  { eapply sorted_ext; [|apply sorted_filter; apply (s_sorted _ C)]. intros; repeat split. }
  assert (En : forall sig y, entry (sig_stop s h) sig y <-> entry s sig y /\ y <> h).
  { intros sig y. unfold entry. rewrite Tr, remove_in. split.
    - intros [[a b] c]. rewrite Go in c by auto. tauto.
    - intros [[a b] c]. rewrite Go by auto. tauto. }
  assert (Rc : race (sig_stop s h) = race s) by apply stop_race.
  (* the disposition after the stop *)
  assert (Dp : forall sig, disp_of (sig_stop s h) sig =
           if sig =? sg then
             match first_handle s1 sg with
             | None => Default
             | Some f => if h_oneshot (get s1 f) && negb (h_oneshot (get s h)) then Handler true else disp_of s sg
             end
           else disp_of s sig).
  { intros sig. unfold sig_stop. fold sg. destruct (Nat.eqb_spec sg 0); [congruence|]. fold s1.
    destruct (first_handle s1 sg) as [f|]; [destruct (_ && _)|]; ssimpl; unfold fupd;
      destruct (Nat.eqb_spec sig sg); subst; auto. }
  intros sig Hs. specialize (D sig Hs). destruct D as [A B Cc].
  destruct (Nat.eqb_spec sig sg) as [->|Hn].
  2:{ (* another signal: nothing changes *)
    assert (Ed : disp_of (sig_stop s h) sig = disp_of s sig).
    { rewrite Dp. destruct (Nat.eqb_spec sig sg); [contradiction|reflexivity]. }
    assert (En' : forall y, entry (sig_stop s h) sig y <-> entry s sig y).
    { intros y. rewrite En. split; [tauto|]. intros [a b]. split; [split; auto|]. intros ->. fold sg in b. congruence. }
    split; rewrite Ed.
    - intros H. apply A. intros y Hy. apply (H y). apply En'; auto.
    - intros y Hy Hf. apply En' in Hy. apply (B y Hy). destruct Hy as [a b].
      rewrite Go in Hf; auto. intros ->. fold sg in b. congruence.
    - intros Hd Hr y Hy. apply En' in Hy. rewrite Rc in Hr. specialize (Cc Hd Hr y Hy).
      rewrite Go; auto. intros ->. destruct Hy as [a b]. fold sg in b. congruence. }
  specialize (Dp sg). rewrite Nat.eqb_refl in Dp.
  destruct (first_handle s1 sg) as [f|] eqn:Ef.
  - apply first_handle_some in Ef; auto. destruct Ef as (f1&f2&f3).
    change (get s1 f) with (get s f) in *. change (tree s1) with (tree_remove h (tree s)) in *.
    apply remove_in in f1. destruct f1 as [f1 f1'].
    assert (Ent : entry (sig_stop s h) sg f) by (apply En; split; [split|]; auto).
    destruct (h_oneshot (get s f) && negb (h_oneshot (get s h))) eqn:Eb.
    + apply andb_true_iff in Eb. destruct Eb as [Eb1 Eb2].
      split; rewrite Dp; try discriminate.
      * intros H. exfalso. apply (H f Ent).
      * intros y Hy Hf. exfalso. apply En in Hy. destruct Hy as [[a b] c]. rewrite Go in Hf by auto.
        assert (h_oneshot (get s y) = true); [|congruence].
        apply (f3 y); auto. apply remove_in. auto.
    + split; rewrite Dp.
      * intros H. exfalso. apply (H f Ent).
      * intros y Hy Hf. apply En in Hy. destruct Hy as [Hy c]. rewrite Go in Hf by auto. eauto.
      * intros Hd Hr y Hy. apply En in Hy. destruct Hy as [Hy c]. rewrite Go by auto. rewrite Rc in Hr. eauto.
  - pose proof (first_handle_none s1 sg So1 Ef) as Nn.
    assert (Ne : forall y, ~ entry (sig_stop s h) sg y).
    { intros y Hy. apply En in Hy. destruct Hy as [[a b] c]. apply (Nn y); auto.
      change (tree s1) with (tree_remove h (tree s)). apply remove_in. auto. }
    split; rewrite Dp; auto.
    + intros y Hy. exfalso. apply (Ne y Hy).
    + intros _ _ y Hy. exfalso. apply (Ne y Hy).
Qed.

Lemma fired_on_spec s sig :
  fired_oneshot_on s sig = true <->
  exists y, entry s sig y /\ h_oneshot (get s y) = true /\ g_fired (get s y) = true.
Proof.
  unfold fired_oneshot_on, entry. rewrite existsb_exists. split.
  - intros (y&a&b). apply andb_true_iff in b. destruct b as [b c]. apply andb_true_iff in b. destruct b as [b d].
    apply Nat.eqb_eq in b. exists y. auto.
  - intros (y&[a b]&c&d). exists y. split; auto. rewrite c, d, b, Nat.eqb_refl. reflexivity.
Qed.

Lemma dinv_start fx s h sig os : usable s h = true -> SCore s -> DInv s ->
  DInv (fst (sig_start fx s h sig os)).
Proof.
  intros U C D. apply usable_spec in U. destruct U as [Ul Uc].
  unfold sig_start.
  destruct (Nat.eqb_spec sig 0) as [E0|E0]; [exact D|].
  destruct (Nat.eqb_spec sig (h_signum (get s h))) as [E1|E1]; [exact D|].
  rewrite stop_if.
  set (s1 := sig_stop s h).
  assert (C1 : SCore s1) by (apply score_stop; auto).
  assert (D1 : DInv s1) by (apply dinv_stop; auto).
  assert (Z1 : h_signum (get s1 h) = 0) by apply stop_signum.
  assert (Ni : ~ In h (tree s1)) by (rewrite (s_tree _ C1); intuition).
  set (need := match first_handle s1 sig with None => true | Some f => negb os && h_oneshot (get s1 f) end).
  destruct (need && negb (sigok sig)); [exact D1|].
  set (s2 := if need then set_disp s1 sig (Handler os) else s1).
  set (s3 := if fired_oneshot_on s2 sig then with_race s2 true else s2).
  set (flag := if fx then os else h_oneshot (get s3 h) || os).
  cbn [fst].
  set (s4 := upd_h s3 h (h_set_started sig flag)).
  set (sF := with_tree s4 (tree_insert (hs s4) h (tree s4))).
  assert (H31 : hs s3 = hs s1) by (unfold s3, s2; destruct (fired_oneshot_on _ _), need; reflexivity).
  assert (T31 : tree s3 = tree s1) by (unfold s3, s2; destruct (fired_oneshot_on _ _), need; reflexivity).
  assert (L1 : h < length (hs s3)) by (rewrite H31; unfold s1; rewrite stop_len; auto).
  assert (Gh : get sF h = h_set_started sig flag (get s3 h)) by (unfold sF; gs; apply get_upd_same; auto).
  assert (Go : forall y, y <> h -> get sF y = get s1 y).
  { intros y Hy. unfold sF. gs. unfold s4. rewrite get_upd_other by auto. apply get_hs_eq; auto. }
  assert (TF : forall y, In y (tree sF) <-> y = h \/ In y (tree s1)).
  { intros y. unfold sF. ssimpl. change (upd h (h_set_started sig flag) (hs s3)) with (hs s4).
    change (tree s4) with (tree s3). rewrite T31. apply insert_in; auto. }
  assert (Of : os = true -> flag = true) by (intros ->; unfold flag; destruct fx; auto using orb_true_r).
  assert (Ff : flag = false -> os = false).
  { destruct os; auto. intros X. rewrite Of in X; auto. }
  assert (DF : disp_of sF = disp_of s2) by (unfold sF, s4, s3; destruct (fired_oneshot_on _ _); reflexivity).
  assert (RF : race sF = false -> race s1 = false /\ fired_oneshot_on s2 sig = false).
  { unfold sF, s4, s3. destruct (fired_oneshot_on s2 sig); ssimpl; [discriminate|].
    unfold s2. destruct need; auto. }
  assert (F2 : fired_oneshot_on s2 sig = false ->
               forall y, entry s1 sig y -> h_oneshot (get s1 y) = true -> g_fired (get s1 y) = true -> False).
  { intros X y Hy a b. assert (fired_oneshot_on s2 sig = true); [|congruence].
    apply fired_on_spec. exists y. unfold s2. destruct need; auto. }
  intros sig' Hs'. destruct (D1 sig' Hs') as [A B Cc].
  destruct (Nat.eq_dec sig' sig) as [->|Hn].
  2:{ assert (En : forall y, entry sF sig' y <-> entry s1 sig' y).
      { intros y. unfold entry. rewrite TF. split.
        - intros [[->|a] b]; [rewrite Gh in b; simpl in b; congruence|].
          rewrite Go in b by congruence. auto.
        - intros [a b]. split; auto. rewrite Go; auto. congruence. }
      assert (Ed : disp_of sF sig' = disp_of s1 sig').
      { rewrite DF. unfold s2. destruct need; auto. ssimpl. unfold fupd.
        destruct (Nat.eqb_spec sig' sig); [contradiction|reflexivity]. }
      split; rewrite Ed.
      - intros H. apply A. intros y Hy. apply (H y). apply En; auto.
      - intros y Hy Hf. apply En in Hy. apply (B y Hy). rewrite Go in Hf; auto.
        destruct Hy; congruence.
      - intros Hd Hr y Hy. apply En in Hy. apply RF in Hr. destruct Hr as [Hr _].
        rewrite Go by (destruct Hy; congruence). eauto. }
  assert (Eh : entry sF sig h) by (split; [apply TF; auto | rewrite Gh; reflexivity]).
  assert (En : forall y, entry sF sig y <-> y = h \/ entry s1 sig y).
  { intros y. unfold entry. rewrite TF. split.
    - intros [[->|a] b]; auto. right. split; auto. rewrite Go in b; auto. congruence.
    - intros [->|[a b]]; [split; [auto | apply (proj2 Eh)]|]. split; auto. rewrite Go; auto. congruence. }
  destruct (first_handle s1 sig) as [f|] eqn:Ef.
  - apply first_handle_some in Ef; [|apply (s_sorted _ C1)]. destruct Ef as (f1&f2&f3).
    assert (Ef1 : entry s1 sig f) by (split; auto).
    unfold need in *. destruct (negb os && h_oneshot (get s1 f)) eqn:Eb.
    + (* a persistent watcher arrives, only one-shot ones so far: re-register *)
      assert (Ed : disp_of sF sig = Handler os).
      { rewrite DF. unfold s2. ssimpl. unfold fupd. rewrite Nat.eqb_refl. reflexivity. }
      apply andb_true_iff in Eb. destruct Eb as [Eb _]. apply negb_true_iff in Eb. subst os.
      split; rewrite Ed; auto; try discriminate.
      intros H. exfalso. apply (H h Eh).
    + assert (Ed : disp_of sF sig = disp_of s1 sig) by (rewrite DF; reflexivity).
      split; rewrite Ed.
      * intros H. exfalso. apply (H h Eh).
      * intros y Hy Hf. apply En in Hy. destruct Hy as [->|Hy].
        -- rewrite Gh in Hf. simpl in Hf. apply Ff in Hf. subst os. simpl in Eb.
           apply (B f); auto.
        -- rewrite Go in Hf by (destruct Hy; congruence). eauto.
      * intros Hd Hr y Hy. apply RF in Hr. destruct Hr as [Hr Hq]. exfalso.
        (* the first entry is then a fired one-shot watcher: the race flag would be set *)
        assert (Fo : h_oneshot (get s1 f) = true).
        { destruct (h_oneshot (get s1 f)) eqn:X; auto. rewrite (B f Ef1 X) in Hd. discriminate. }
        apply (F2 Hq f); auto.
  - pose proof (first_handle_none s1 sig (s_sorted _ C1) Ef) as Nn.
    assert (Ed : disp_of sF sig = Handler os).
    { rewrite DF. unfold s2, need. ssimpl. unfold fupd. rewrite Nat.eqb_refl. reflexivity. }
    split; rewrite Ed; try discriminate.
    + intros H. exfalso. apply (H h Eh).
    + intros y Hy Hf. apply En in Hy. destruct Hy as [->|[a b]]; [|exfalso; eapply Nn; eauto].
      rewrite Gh in Hf. simpl in Hf. apply Ff in Hf. congruence.
Qed.

Lemma fold_write_fired_mono sig ys : forall s y,
  g_fired (get s y) = true -> g_fired (get (fold_left (write_msg sig) ys s) y) = true.
Proof.
  induction ys as [|z ys IH]; intros s y H; simpl; auto. apply IH.
  unfold write_msg. set (s1 := upd_h s z h_set_fired).
  assert (A : g_fired (get s1 y) = true).
  { unfold s1. destruct (Nat.eq_dec z y) as [->|].
    - destruct (Nat.lt_ge_cases y (length (hs s))); [rewrite get_upd_same by auto; reflexivity | rewrite upd_h_oob by auto; auto].
    - rewrite get_upd_other by auto; auto. }
  destruct (_ <? _); auto.
  destruct (Nat.eq_dec z y) as [->|].
  - destruct (Nat.lt_ge_cases y (length (hs s1))).
    + rewrite get_upd_same by (ssimpl; auto). gs. simpl. exact A.
    + rewrite upd_h_oob by (ssimpl; auto). gs. exact A.
  - rewrite get_upd_other by auto. gs. exact A.
Qed.

Lemma fold_write_fired sig ys : forall s y, In y ys -> y < length (hs s) ->
  g_fired (get (fold_left (write_msg sig) ys s) y) = true.
Proof.
  induction ys as [|z ys IH]; intros s y Hy Hl; simpl in *; [contradiction|].
  destruct Hy as [->|Hy].
  - apply fold_write_fired_mono. unfold write_msg. set (s1 := upd_h s y h_set_fired).
    assert (A : g_fired (get s1 y) = true) by (unfold s1; rewrite get_upd_same by auto; reflexivity).
    destruct (_ <? _); auto.
    rewrite get_upd_same by (change (length (hs s1) > y); unfold s1; rewrite len_upd_h; auto). gs. simpl. exact A.
  - apply IH; auto. rewrite write_msg_len. auto.
Qed.

Lemma dinv_deliver s sig : sig <> 0 -> SCore s -> DInv s -> DInv (fst (deliver s sig)).
Proof.
  intros Hs C D. unfold deliver. destruct (disp_of s sig) as [|rh] eqn:Ed; [exact D|]. cbn [fst].
  unfold handler.
  set (s1 := if rh then set_disp s sig Default else s).
  assert (G1 : forall y, get s1 y = get s y) by (intros; unfold s1; destruct rh; reflexivity).
  assert (T1 : tree s1 = tree s) by (unfold s1; destruct rh; reflexivity).
  set (sF := fold_left (write_msg sig) (targets s1 sig) s1).
  destruct (fold_write_misc sig (targets s1 sig) s1) as (_&_&tF&dF&_&rF&_). fold sF in tF, dF, rF.
  assert (Co : forall y, same_core (get s y) (get sF y)).
  { intros y. rewrite <- G1. apply fold_write_core. }
  assert (En : forall sg y, entry sF sg y <-> entry s sg y).
  { intros sg y. unfold entry. rewrite tF, T1. destruct (Co y) as (_&b&_). rewrite b. tauto. }
  assert (Fl : forall y, h_oneshot (get sF y) = h_oneshot (get s y)) by (intros y; apply (Co y)).
  assert (Fm : forall y, g_fired (get s y) = true -> g_fired (get sF y) = true).
  { intros y H. apply fold_write_fired_mono. rewrite G1. auto. }
  assert (Rc : race sF = race s) by (rewrite rF; unfold s1; destruct rh; reflexivity).
  intros sig' Hs'. destruct (D sig' Hs') as [A B Cc].
  destruct (Nat.eq_dec sig' sig) as [->|Hn].
  - destruct rh.
    + (* SA_RESETHAND: back to the default, every entry has been marked *)
      assert (EdF : disp_of sF sig = Default).
      { rewrite dF. unfold s1. ssimpl. unfold fupd. rewrite Nat.eqb_refl. reflexivity. }
      split; rewrite EdF; auto.
      * intros y Hy Hf. exfalso. apply En in Hy. rewrite Fl in Hf. rewrite (B y Hy Hf) in Ed. discriminate.
      * intros _ _ y Hy. apply En in Hy. destruct Hy as [a b].
        apply fold_write_fired.
        -- apply targets_complete.
           ++ eapply sorted_ext; [|apply (s_sorted _ C)]. intros; rewrite G1; repeat split.
           ++ rewrite T1; auto.
           ++ rewrite G1; auto.
        -- change (y < length (hs s)). apply signum_valid; congruence.
    + assert (EdF : disp_of sF sig = Handler false) by (rewrite dF; unfold s1; auto).
      split; rewrite EdF; auto; try discriminate.
      intros H. exfalso. rewrite A in Ed; [discriminate|]. intros y Hy. apply (H y). apply En; auto.
  - assert (EdF : disp_of sF sig' = disp_of s sig').
    { rewrite dF. unfold s1. destruct rh; auto. ssimpl. unfold fupd.
      destruct (Nat.eqb_spec sig' sig); [contradiction|reflexivity]. }
    split; rewrite EdF.
    + intros H. apply A. intros y Hy. apply (H y). apply En; auto.
    + intros y Hy Hf. apply En in Hy. rewrite Fl in Hf. eauto.
    + intros Hd Hr y Hy. apply En in Hy. rewrite Rc in Hr. apply Fm. eauto.
Qed.

Definition PD (_ : ctx) (s : state) : Prop := SInv s /\ DInv s.

Lemma dinv_same s s' :
  tree s' = tree s -> disp_of s' = disp_of s -> race s' = race s ->
  (forall y, In y (tree s) -> h_signum (get s' y) = h_signum (get s y) /\
                               h_oneshot (get s' y) = h_oneshot (get s y) /\
                               g_fired (get s' y) = g_fired (get s y)) ->
  DInv s -> DInv s'.
Proof.
  intros Et Ed Er F. apply dinv_frame; auto; try congruence.
  intros y Hy. destruct (F y Hy) as (a&b&c). rewrite c. auto.
Qed.

Lemma dinv_hs_eq s s' : hs s' = hs s -> tree s' = tree s -> disp_of s' = disp_of s -> race s' = race s ->
  DInv s -> DInv s'.
Proof.
  intros Eh Et Ed Er. apply dinv_same; auto. intros y _. rewrite (get_hs_eq s s') by auto. auto.
Qed.

Lemma dinv_upd s h f :
  (forall x, h_signum (f x) = h_signum x /\ h_oneshot (f x) = h_oneshot x /\ g_fired (f x) = g_fired x) ->
  DInv s -> DInv (upd_h s h f).
Proof.
  intros F. apply dinv_same; try reflexivity. intros y _.
  destruct (Nat.eq_dec h y) as [->|].
  - destruct (Nat.lt_ge_cases y (length (hs s))); [rewrite get_upd_same by auto; apply F | rewrite upd_h_oob by auto; auto].
  - rewrite get_upd_other by auto; auto.
Qed.

Lemma dinv_log s e : DInv s -> DInv (log s e).
Proof. apply dinv_hs_eq; reflexivity. Qed.

Ltac deq D := (eapply dinv_hs_eq; [| | | |exact D]; reflexivity).

Lemma pd_api fx c s o : PD c s -> PD c (api_snap fx s o).
Proof.
  intros [I D]. split; [apply sinv_api; auto|].
  unfold api_snap. eapply dinv_hs_eq with (s := api fx s o); try reflexivity.
  destruct I as [C K]. destruct o; simpl.
  - apply dinv_log. eapply dinv_same with (s := s); try reflexivity; auto.
    intros y Hy. gs. rewrite get_app_old; auto. apply signum_valid. apply (s_tree _ C). auto.
  - destruct (usable s h) eqn:U; [|apply dinv_log; auto].
    pose proof (dinv_start fx s h sig false U C D) as X.
    destruct (sig_start fx s h sig false). apply dinv_log; auto.
  - destruct (usable s h) eqn:U; [|apply dinv_log; auto].
    pose proof (dinv_start fx s h sig true U C D) as X.
    destruct (sig_start fx s h sig true). apply dinv_log; auto.
  - destruct (usable s h); apply dinv_log; auto using dinv_stop.
  - destruct (usable s h); apply dinv_log; auto.
    unfold sig_close. eapply dinv_hs_eq with (s := sig_stop (upd_h s h h_set_closing) h); try reflexivity.
    apply dinv_stop.
    + apply score_upd_acc; auto. intros; repeat split; auto.
    + apply dinv_upd; auto.
  - destruct (Nat.eqb_spec sig 0); [apply dinv_log; auto|].
    pose proof (dinv_deliver s sig n C D) as X.
    destruct (deliver s sig). apply dinv_log; auto.
  - apply dinv_log; auto.
  - apply dinv_log; auto.
  - apply dinv_log. deq D.
  - destruct ((h <? length (hs s)) && h_closed (get s h)) eqn:G; [|apply dinv_log; auto].
    apply andb_true_iff in G. destruct G as [Gl Gc]. apply Nat.ltb_lt in Gl.
    apply dinv_log. fold (reinit_state s h).
    assert (C1 : SCore (sig_stop s h)) by (apply score_stop; auto).
    assert (D1 : DInv (sig_stop s h)) by (apply dinv_stop; auto).
    assert (Ni : ~ In h (tree (sig_stop s h))).
    { rewrite (s_tree _ C1). rewrite stop_signum. intuition. }
    destruct (reinit_misc s h) as (mt&_&_&_&_&md&mr&_).
    eapply dinv_same with (s := sig_stop s h); auto.
    intros y Hy. assert (y <> h) by (intros ->; contradiction).
    rewrite reinit_get_other, <- (stop_get_other s h y) by auto. auto.
Qed.

Lemma pd_finish c s h sig r : PD c s -> batch s = (h, sig) :: r -> PD c (msg_finish s h r).
Proof.
  intros [I D] Hb. split; [eapply sinv_finish; eauto|].
  unfold msg_finish. pose proof (sinv_pop s h sig r I Hb) as [C2 K2].
  assert (D2 : DInv (upd_h (with_batch s r) h h_inc_dispatched)).
  { apply dinv_upd; [intros; repeat split|]. deq D. }
  destruct (h_oneshot _); auto. apply dinv_stop; auto.
Qed.

Lemma pd_after_cb fr c s h sig r : PD c s -> batch s = (h, sig) :: r -> PD c (msg_after_cb fr s h sig r).
Proof.
  intros P Hb. unfold msg_after_cb. destruct fr; [|eapply pd_finish; eauto].
  destruct P as [I D]. split; [apply (sinv_after_cb true s h sig r I Hb)|].
  pose proof (sinv_pop s h sig r I Hb) as [C2 K2].
  assert (D2 : DInv (upd_h (with_batch s r) h h_inc_dispatched)).
  { apply dinv_upd; [intros; repeat split|]. deq D. }
  destruct (_ && _); auto. apply dinv_stop; auto.
Qed.

Theorem pd_run fx fs fr beh fuel c ops : PD CTop (run fx fs fr beh fuel (init c) ops).
Proof.
  apply (rule_run fx fs fr beh PD) with (Rq := fun s h => h_closing (get s h) = true).
  - intros; apply pd_api; auto.
  - intros s l [I D]. split; [apply sinv_log; auto | apply dinv_log; auto].
  - intros s l [I D] Hb. split; [apply sinv_take; auto | deq D].
  - intros s h sig r [I D] _ _. split; [apply sinv_cb_enter; auto | deq D].
  - intros s h sig r [I D] Hb. eapply pd_after_cb with (c := CMid); [|exact Hb].
    split; [apply sinv_log; auto | apply dinv_log; auto].
  - intros s h sig r [I D] Hb _. unfold msg_skip.
    assert (P0 : PD CMid (log s (EDrop h sig))) by (split; [apply sinv_log; auto | apply dinv_log; auto]).
    destruct fs; [|eapply pd_finish; eauto].
    destruct P0 as [I0 D0]. split; [eapply sinv_pop; eauto|].
    apply dinv_upd; [intros; repeat split|]. deq D0.
  - intros s l h [[C K] D] Hh. eapply (s_clq _ C); eauto.
  - auto.
  - intros s h' h Hc. gs. destruct (Nat.eq_dec h' h) as [->|Hn].
    + destruct (Nat.lt_ge_cases h (length (hs s))).
      * rewrite get_upd_same by auto. auto.
      * rewrite upd_h_oob by auto. auto.
    + rewrite get_upd_other by auto. auto.
  - intros s l [I D]. split; [apply sinv_clq_nil; auto | deq D].
  - intros s l h [I D] R. split; [apply sinv_requeue; auto | deq D].
  - intros s h [I D] R Hd. split; [apply sinv_closed; auto|].
    apply dinv_log. apply dinv_upd; auto.
  - intros s l [I D]. split; [apply sinv_snap, sinv_log; auto | deq D].
  - intros s l b [I D]. split; [apply sinv_stopf; auto | deq D].
  - intros s l [I D] Hb. split; [apply sinv_fork; auto|].
    eapply dinv_same with (s := s); try reflexivity; auto.
    intros y _. gs. destruct (fork_fields s l y) as (_&a&b&_&_&_&g&_). auto.
  - split; [apply sinv_init0|]. intros sig _. split; simpl; auto.
    + intros y [[] _].
    + intros _ _ y [[] _].
  - reflexivity.
Qed.

(* ------------------------------------------------------------------ *)
(* 8. disposition theorems                                              *)
(* ------------------------------------------------------------------ *)
Definition is_handler (d : disp) : bool := match d with Handler _ => true | Default => false end.

(* "watches": in the tree for that signal and not a one-shot watcher whose
   signal the kernel has already seen (DESIGN.md, C13) *)
Definition watches (s : state) (h sig : nat) : Prop :=
  entry s sig h /\ ~ (h_oneshot (get s h) = true /\ g_fired (get s h) = true).

Theorem disposition_partial fx fs fr beh fuel c ops sig :
  sig <> 0 ->
  let s := run fx fs fr beh fuel (init c) ops in
  ((forall h, ~ entry s sig h) -> disp_of s sig = Default) /\
  (forall h, entry s sig h -> h_oneshot (get s h) = false -> disp_of s sig = Handler false) /\
  (is_handler (disp_of s sig) = true -> exists h, entry s sig h) /\
  (race s = false -> (exists h, watches s h sig) -> is_handler (disp_of s sig) = true).
Proof.
  intros Hs. cbv zeta. destruct (pd_run fx fs fr beh fuel c ops) as [_ D].
  destruct (D sig Hs) as [A B C]. repeat split; auto.
  - intros Hh.
    destruct (existsb (fun y => h_signum (get (run fx fs fr beh fuel (init c) ops) y) =? sig)
                (tree (run fx fs fr beh fuel (init c) ops))) eqn:E.
    + apply existsb_exists in E. destruct E as (y&a&b). apply Nat.eqb_eq in b. exists y. split; auto.
    + rewrite A in Hh; [discriminate|]. intros y [a b].
      assert (X : existsb (fun y => h_signum (get (run fx fs fr beh fuel (init c) ops) y) =? sig)
                    (tree (run fx fs fr beh fuel (init c) ops)) = true); [|congruence].
      apply existsb_exists. exists y. split; auto. apply Nat.eqb_eq; auto.
  - intros Hr (h&He&Hn).
    destruct (h_oneshot (get (run fx fs fr beh fuel (init c) ops) h)) eqn:Ef.
    + destruct (disp_of (run fx fs fr beh fuel (init c) ops) sig) eqn:Ed; [|reflexivity].
      exfalso. apply Hn. split; auto.
    + rewrite (B h He Ef). reflexivity.
Qed.

(* the full clause, as the property states it, does not hold: the SA_RESETHAND window *)
Definition disposition_iff_watched_statement (fx fs fr : bool) : Prop :=
  forall beh fuel c ops sig, sig <> 0 ->
  let s := run fx fs fr beh fuel (init c) ops in
  is_handler (disp_of s sig) = true <-> exists h, watches s h sig.

Definition race_ops : list op :=
  [OInit 0; OInit 0; OStartOneshot 0 10; ORaise 10; OStartOneshot 1 10].

Theorem resethand_race_refuted : forall fx fs fr, ~ disposition_iff_watched_statement fx fs fr.
Proof.
  intros fx fs fr H. specialize (H (fun _ => []) 0 16 race_ops 10).
  assert (N : 10 <> 0) by discriminate. specialize (H N). cbv zeta in H.
  destruct H as [_ H].
  assert (W : exists h, watches (run fx fs fr (fun _ => []) 0 (init 16) race_ops) h 10).
  { exists 1. destruct fx; split; vm_compute; intuition; try discriminate. }
  specialize (H W). destruct fx; vm_compute in H; discriminate.
Qed.

(* ------------------------------------------------------------------ *)
(* 9. restarting a handle                                               *)
(* ------------------------------------------------------------------ *)
Definition fresh_like (x : handle) (sig : nat) (os : bool) : Prop :=
  h_signum x = sig /\ h_oneshot x = os /\ h_caught x = h_dispatched x /\ h_active x = true.

(* "starting it again behaves like a fresh handle": what a start on a freshly
   initialised handle gives, it gives on any stopped handle *)
Definition restart_fresh_statement (fx fs fr : bool) : Prop :=
  forall beh fuel c ops h sig os,
  let s := run fx fs fr beh fuel (init c) ops in
  usable s h = true -> h_signum (get s h) = 0 -> sig <> 0 -> sigok sig = true ->
  fresh_like (get (fst (sig_start fx s h sig os)) h) sig os.

Lemma start_fresh_handle fx s l sig os : sig <> 0 -> sigok sig = true ->
  let s0 := with_hs s (hs s ++ [new_handle l]) in
  fresh_like (get (fst (sig_start fx s0 (length (hs s)) sig os)) (length (hs s))) sig os.
Proof.
  intros Hs Ho. cbv zeta.
  set (s0 := with_hs s (hs s ++ [new_handle l])). set (h := length (hs s)).
  assert (G : get s0 h = new_handle l) by apply get_app_new.
  assert (Hl : h < length (hs s0)) by (unfold s0, h; ssimpl; rewrite app_length; simpl; lia).
  destruct (start_spec fx s0 h sig os) as [S0 S1 S2|S0 S1 S2 S3|S0 S1 S2 S3 S4|S0 S1 S2 S3 S4 S5 S6 S7 S8 S9].
  - congruence.
  - rewrite G in S1. simpl in S1. congruence.
  - congruence.
  - rewrite S5 by auto. rewrite G. unfold fresh_like. simpl. destruct fx, os; auto.
Qed.

Theorem restart_fresh_partial fx s h sig os :
  usable s h = true -> sig <> 0 -> sig <> h_signum (get s h) -> sigok sig = true ->
  let x := get s h in
  let y := get (fst (sig_start fx s h sig os)) h in
  snd (sig_start fx s h sig os) = 0%Z /\
  h_signum y = sig /\ h_active y = true /\ h_caught y = h_caught x /\ h_dispatched y = h_dispatched x /\
  h_oneshot y = (if fx then os else h_oneshot x || os) /\
  ((fx = true \/ h_oneshot x = false \/ os = true) -> h_caught x = h_dispatched x -> fresh_like y sig os).
Proof.
  intros U Hs Hn Ho. cbv zeta. apply usable_spec in U. destruct U as [Ul Uc].
  destruct (start_spec fx s h sig os) as [S0 S1 S2|S0 S1 S2 S3|S0 S1 S2 S3 S4|S0 S1 S2 S3 S4 S5 S6 S7 S8 S9];
    try congruence.
  rewrite S5 by auto. rewrite S2. simpl. do 6 (split; [reflexivity|]).
  intros Hf He. unfold fresh_like. simpl. split; [reflexivity|]. split; [|split; [exact He|reflexivity]].
  destruct Hf as [-> | [Hf | ->]]; auto.
  - rewrite Hf. destruct fx; reflexivity.
  - destruct fx; auto. apply orb_true_r.
Qed.

(* with notes/C13_fix_oneshot_flag.diff applied the clause holds for every stopped
   handle that has no earlier signal waiting in the pipe *)
Theorem restart_fresh_fixed s h sig os :
  usable s h = true -> h_signum (get s h) = 0 -> sig <> 0 -> sigok sig = true ->
  h_caught (get s h) = h_dispatched (get s h) ->
  fresh_like (get (fst (sig_start true s h sig os)) h) sig os.
Proof.
  intros U E0 Hs Ho He.
  destruct (restart_fresh_partial true s h sig os U Hs) as (_&_&_&_&_&_&F); auto. congruence.
Qed.

Definition sticky_ops : list op :=
  [OInit 0; OStartOneshot 0 10; ORaise 10; ORun 0].

(* item 3: one-shot use, then uv_signal_start: the stale flag stays *)
Theorem oneshot_flag_sticks_refuted : forall fs fr, ~ restart_fresh_statement false fs fr.
Proof.
  intros fs fr H. specialize (H (fun _ => []) 8 16 sticky_ops 0 10 false). cbv zeta in H.
  assert (F : fresh_like (get (fst (sig_start false (run false fs fr (fun _ => []) 8 (init 16) sticky_ops) 0 10 false)) 0) 10 false).
  { apply H; destruct fs, fr; vm_compute; auto; discriminate. }
  destruct F as (_&F&_). destruct fs, fr; vm_compute in F; discriminate.
Qed.

(* ... and what that means for the program: started persistently, never stopped by the
   program, yet after one signal the handle is inactive and the disposition is the default *)
Theorem oneshot_flag_sticks_behaviour :
  let s := run false false false (fun _ => []) 8 (init 16)
             (sticky_ops ++ [OStart 0 10; ORaise 10; ORun 0]) in
  h_active (get s 0) = false /\ disp_of s 10 = Default /\
  count_cb 0 (tr s) = 2 /\ mode_of (tr s) 0 = MIdle.
Proof. vm_compute. repeat split. Qed.

(* the repaired variant keeps watching *)
Theorem oneshot_flag_fixed_behaviour :
  let s := run true false false (fun _ => []) 8 (init 16)
             (sticky_ops ++ [OStart 0 10; ORaise 10; ORun 0]) in
  h_active (get s 0) = true /\ disp_of s 10 = Handler false /\ h_oneshot (get s 0) = false.
Proof. vm_compute. repeat split. Qed.

(* item 14 and its one-shot variant: a signal caught before stop + start is still in the
   pipe, so the restarted handle is not fresh (both variants) *)
Theorem stale_signal_refuted : forall fx fs fr, ~ restart_fresh_statement fx fs fr.
Proof.
  intros fx fs fr H. specialize (H (fun _ => []) 8 16 [OInit 0; OStart 0 10; ORaise 10; OStop 0] 0 10 false).
  cbv zeta in H.
  assert (F : fresh_like (get (fst (sig_start fx (run fx fs fr (fun _ => []) 8 (init 16) [OInit 0; OStart 0 10; ORaise 10; OStop 0]) 0 10 false)) 0) 10 false).
  { apply H; destruct fx; vm_compute; auto; discriminate. }
  destruct F as (_&_&F&_). destruct fx; vm_compute in F; discriminate.
Qed.

(* a one-shot handle restarted on another signal while an earlier signal is still in the
   pipe is stopped by that message without ever getting a callback *)
Theorem oneshot_stopped_without_callback :
  forall fx,
  let s := run fx false false (fun _ => []) 8 (init 16)
             [OInit 0; OStartOneshot 0 10; ORaise 10; OStartOneshot 0 12; ORun 0] in
  h_active (get s 0) = false /\ count_cb 0 (tr s) = 0 /\ disp_of s 12 = Default.
Proof. intros fx; destruct fx; vm_compute; repeat split. Qed.

(* ------------------------------------------------------------------ *)
(* 10. every watcher once: delivery and dispatch, step by step          *)
(* ------------------------------------------------------------------ *)
Lemma write_msg_pending sig s y : y < length (hs s) ->
  length (pipe_of s (h_loop (get s y))) < cap s ->
  forall x, pending (write_msg sig s y) x = pending s x + (if x =? y then 1 else 0).
Proof.
  intros Hl Hc x. unfold write_msg.
  set (s1 := upd_h s y h_set_fired).
  assert (G1 : forall z, h_loop (get s1 z) = h_loop (get s z)).
  { intros z. unfold s1. destruct (Nat.eq_dec y z) as [->|]; [rewrite get_upd_same by auto; reflexivity | rewrite get_upd_other by auto; reflexivity]. }
  change (h_loop (get s y)) with (h_loop (h_set_fired (get s y))).
  replace (h_set_fired (get s y)) with (get s1 y) by (unfold s1; apply get_upd_same; auto).
  change (pipe_of s1) with (pipe_of s). change (cap s1) with (cap s). rewrite G1.
  apply Nat.ltb_lt in Hc. rewrite Hc.
  set (l := h_loop (get s y)).
  set (s2 := set_pipe s1 l (pipe_of s l ++ [(y, sig)])).
  assert (G2 : forall z, h_loop (get (upd_h s2 y h_inc_caught) z) = h_loop (get s z)).
  { intros z. rewrite <- G1. destruct (Nat.eq_dec y z) as [->|].
    - rewrite get_upd_same by (change (hs s2) with (hs s1); unfold s1; rewrite len_upd_h; auto). reflexivity.
    - rewrite get_upd_other by auto. reflexivity. }
  unfold pending. rewrite G2.
  change (batch (upd_h s2 y h_inc_caught)) with (batch s).
  change (pipe_of (upd_h s2 y h_inc_caught)) with (fupd (pipe_of s) l (pipe_of s l ++ [(y, sig)])).
  unfold fupd. destruct (Nat.eqb_spec (h_loop (get s x)) l) as [El|El].
  - rewrite El, cnt_app. simpl. rewrite (Nat.eqb_sym y x). lia.
  - destruct (Nat.eqb_spec x y) as [->|]; [exfalso; apply El; reflexivity | lia].
Qed.

Lemma write_msg_pipe_len sig s y l :
  length (pipe_of (write_msg sig s y) l) <= S (length (pipe_of s l)).
Proof.
  unfold write_msg. destruct (_ <? _); ssimpl; auto. unfold fupd.
  destruct (l =? _) eqn:E; auto. apply Nat.eqb_eq in E. subst. rewrite app_length. simpl. gs. lia.
Qed.

Lemma fold_write_pending sig ys : forall s, NoDup ys -> (forall y, In y ys -> y < length (hs s)) ->
  (forall l, length (pipe_of s l) + length ys <= cap s) ->
  forall x, pending (fold_left (write_msg sig) ys s) x = pending s x + (if existsb (Nat.eqb x) ys then 1 else 0).
Proof.
  induction ys as [|y ys IH]; intros s Nd Hv Hc x; simpl; [lia|].
  inversion Nd as [|? ? Ny Nd']; subst.
  rewrite IH; auto.
  - rewrite write_msg_pending.
    + destruct (Nat.eqb_spec x y) as [->|Hn]; simpl; [|lia].
      destruct (existsb (Nat.eqb y) ys) eqn:E; [|lia].
      apply existsb_exists in E. destruct E as (z&a&b). apply Nat.eqb_eq in b. subst. contradiction.
    + apply Hv; simpl; auto.
    + specialize (Hc (h_loop (get s y))). simpl in Hc. lia.
  - intros z Hz. rewrite write_msg_len. apply Hv; simpl; auto.
  - intros l. destruct (write_msg_misc sig s y) as (_&_&_&_&c&_). rewrite c.
    pose proof (write_msg_pipe_len sig s y l). specialize (Hc l). simpl in Hc. lia.
Qed.

Lemma targets_hs_eq s s' sig : hs s' = hs s -> tree s' = tree s -> targets s' sig = targets s sig.
Proof.
  intros Eh Et. unfold targets. rewrite Et.
  assert (G : forall y, get s' y = get s y) by (intros; apply get_hs_eq; auto).
  assert (W : forall t, walk s' sig t = walk s sig t).
  { induction t as [|y t IH]; simpl; auto. rewrite G, IH. reflexivity. }
  assert (D : forall t, drop_below s' sig t = drop_below s sig t).
  { induction t as [|y t IH]; simpl; auto. rewrite G, IH. reflexivity. }
  rewrite D, W. reflexivity.
Qed.

(* one delivery while the handler is installed: exactly one message for every handle that
   is in the tree for that signal, none for any other handle (pipe capacity as hypothesis) *)
Theorem deliver_one_message_each fx fs fr beh fuel c ops sig rh :
  let s := run fx fs fr beh fuel (init c) ops in
  sig <> 0 -> disp_of s sig = Handler rh ->
  (forall l, length (pipe_of s l) + length (targets s sig) <= cap s) ->
  forall h, pending (fst (deliver s sig)) h =
            pending s h + (if existsb (Nat.eqb h) (filter (fun y => h_signum (get s y) =? sig) (tree s)) then 1 else 0).
Proof.
  cbv zeta. intros Hs Hd Hc h. destruct (sinv_run fx fs fr beh fuel c ops) as [C K].
  set (s := run fx fs fr beh fuel (init c) ops) in *.
  unfold deliver. rewrite Hd. cbn [fst]. unfold handler.
  set (s1 := if rh then set_disp s sig Default else s).
  assert (E1 : targets s1 sig = targets s sig) by (apply targets_hs_eq; unfold s1; destruct rh; reflexivity).
  assert (P1 : pending s1 h = pending s h) by (unfold s1; destruct rh; reflexivity).
  rewrite E1. rewrite fold_write_pending.
  - rewrite P1. f_equal.
    assert (X : existsb (Nat.eqb h) (targets s sig) = existsb (Nat.eqb h) (filter (fun y => h_signum (get s y) =? sig) (tree s))); [|rewrite X; reflexivity].
    apply eq_true_iff_eq. rewrite !existsb_exists. split; intros (y&a&b); exists y; split; auto.
    + apply targets_in in a. apply filter_In. destruct a as [a1 a2]. rewrite a2, Nat.eqb_refl. auto.
    + apply filter_In in a. destruct a as [a1 a2]. apply Nat.eqb_eq in a2.
      apply targets_complete; auto. apply (s_sorted _ C).
  - apply sorted_sub_nodup. apply (s_sorted _ C).
  - intros y Hy. apply targets_in in Hy. destruct Hy as [a b].
    assert (y < length (hs s)) by (apply signum_valid; congruence).
    unfold s1. destruct rh; auto.
  - intros l. specialize (Hc l). unfold s1. destruct rh; auto.
Qed.

(* nothing but uv__signal_event makes a signal callback *)
Lemma api_tr fx s o : exists e, tr (api fx s o) = e :: tr s /\ forall h sg, e <> ECb h sg.
Proof.
  destruct o; cbn [api].
  - eexists; split; [reflexivity|discriminate].
  - destruct (usable s h); [|eexists; split; [reflexivity|discriminate]].
    pose proof (start_spec fx s h sig false) as S. destruct (sig_start fx s h sig false) as [s1 r].
    simpl in S. exists (EOp (OStart h sig) r). split; [|discriminate]. cbn [log tr with_tr]. f_equal.
    destruct S; subst; rewrite ?stop_tr; auto.
  - destruct (usable s h); [|eexists; split; [reflexivity|discriminate]].
    pose proof (start_spec fx s h sig true) as S. destruct (sig_start fx s h sig true) as [s1 r].
    simpl in S. exists (EOp (OStartOneshot h sig) r). split; [|discriminate]. cbn [log tr with_tr]. f_equal.
    destruct S; subst; rewrite ?stop_tr; auto.
  - destruct (usable s h); [exists (EOp (OStop h) 0%Z) | exists (ESkip (OStop h))];
      (split; [|discriminate]); cbn [log tr with_tr]; rewrite ?stop_tr; reflexivity.
  - destruct (usable s h); [exists (EOp (OClose h) 0%Z) | exists (ESkip (OClose h))];
      (split; [|discriminate]); cbn [log tr with_tr]; [|reflexivity].
    destruct (close_misc s h) as (_&e&_). rewrite e. reflexivity.
  - destruct (sig =? 0); [eexists; split; [reflexivity|discriminate]|].
    pose proof (deliver_misc s sig) as D. destruct (deliver s sig) as [s1 r]. simpl in D.
    destruct D as (_&e&_). exists (EOp (ORaise sig) r). split; [|discriminate]. cbn [log tr with_tr]. rewrite e. reflexivity.
  - eexists; split; [reflexivity|discriminate].
  - eexists; split; [reflexivity|discriminate].
  - eexists; split; [reflexivity|discriminate].
  - destruct (_ && _); [exists (EOp (OReinit h) 0%Z) | exists (ESkip (OReinit h))];
      (split; [|discriminate]); cbn [log tr with_tr]; [|reflexivity].
    fold (reinit_state s h). destruct (reinit_misc s h) as (_&_&_&e&_). rewrite e. reflexivity.
Qed.

Lemma api_tr2 fx s o : exists e, tr (api fx s o) = e :: tr s /\ forall h sg, e <> ESnap h sg.
Proof.
  destruct o; cbn [api].
  - eexists; split; [reflexivity|discriminate].
  - destruct (usable s h); [|eexists; split; [reflexivity|discriminate]].
    pose proof (start_spec fx s h sig false) as S. destruct (sig_start fx s h sig false) as [s1 r].
    simpl in S. exists (EOp (OStart h sig) r). split; [|discriminate]. cbn [log tr with_tr]. f_equal.
    destruct S; subst; rewrite ?stop_tr; auto.
  - destruct (usable s h); [|eexists; split; [reflexivity|discriminate]].
    pose proof (start_spec fx s h sig true) as S. destruct (sig_start fx s h sig true) as [s1 r].
    simpl in S. exists (EOp (OStartOneshot h sig) r). split; [|discriminate]. cbn [log tr with_tr]. f_equal.
    destruct S; subst; rewrite ?stop_tr; auto.
  - destruct (usable s h); [exists (EOp (OStop h) 0%Z) | exists (ESkip (OStop h))];
      (split; [|discriminate]); cbn [log tr with_tr]; rewrite ?stop_tr; reflexivity.
  - destruct (usable s h); [exists (EOp (OClose h) 0%Z) | exists (ESkip (OClose h))];
      (split; [|discriminate]); cbn [log tr with_tr]; [|reflexivity].
    destruct (close_misc s h) as (_&e&_). rewrite e. reflexivity.
  - destruct (sig =? 0); [eexists; split; [reflexivity|discriminate]|].
    pose proof (deliver_misc s sig) as D. destruct (deliver s sig) as [s1 r]. simpl in D.
    destruct D as (_&e&_). exists (EOp (ORaise sig) r). split; [|discriminate]. cbn [log tr with_tr]. rewrite e. reflexivity.
  - eexists; split; [reflexivity|discriminate].
  - eexists; split; [reflexivity|discriminate].
  - eexists; split; [reflexivity|discriminate].
  - destruct (_ && _); [exists (EOp (OReinit h) 0%Z) | exists (ESkip (OReinit h))];
      (split; [|discriminate]); cbn [log tr with_tr]; [|reflexivity].
    fold (reinit_state s h). destruct (reinit_misc s h) as (_&_&_&e&_). rewrite e. reflexivity.
Qed.

Lemma api_no_cb fx s o h : count_cb h (tr (api_snap fx s o)) = count_cb h (tr s).
Proof.
  unfold api_snap. destruct (api_tr fx s o) as (e&E&N).
  cbn [snap log tr with_tr]. rewrite E. cbn [count_cb].
  destruct e; try reflexivity. exfalso. eapply N. reflexivity.
Qed.

Lemma script_no_cb fx os : forall s h, count_cb h (tr (script fx s os)) = count_cb h (tr s).
Proof.
  induction os as [|o os IH]; intros; simpl; auto. rewrite IH. apply api_no_cb.
Qed.

(* handling one message: exactly one callback, on that handle, iff the handle still watches the
   message's signal (i.e. was not stopped before the dispatch); the message is consumed *)
Theorem dispatch_one_callback fx fs fr beh s h sig r h' :
  count_cb h' (tr (process_msg fx fs fr beh s (h, sig) r)) =
  count_cb h' (tr s) + (if (sig =? h_signum (get s h)) && (h =? h') then 1 else 0) /\
  batch (process_msg fx fs fr beh s (h, sig) r) = r.
Proof.
  unfold process_msg. cbn [fst snd].
  destruct (sig =? h_signum (get s h)).
  - split; [|apply msg_after_cb_batch].
    destruct (after_cb_spec fr (log (script fx (cb_enter s h sig) (beh (cbcount s))) (ECbEnd h)) h sig r) as (_&_&_&_&e&_).
    cbv zeta in e. rewrite e. simpl. rewrite script_no_cb. unfold cb_enter. ssimpl. simpl.
    destruct (h =? h'); lia.
  - split; [|apply msg_skip_batch]. unfold msg_skip. destruct fs; [simpl; lia|].
    destruct (finish_spec (log s (EDrop h sig)) h r) as (_&_&_&_&e&_). cbv zeta in e. rewrite e. simpl. lia.
Qed.

(* ------------------------------------------------------------------ *)
(* 11. the repaired one-shot stops:                                     *)
(*     fs = true  (notes/C13_fix_oneshot_stale_stop.diff, /repo c39ecc3) *)
(*     fr = true  (notes/C13_fix_oneshot_restart_in_cb.diff)            *)
(* ------------------------------------------------------------------ *)
(* fs: a message for a signal the handle no longer watches changes nothing but dispatched_signals *)
Theorem stale_message_keeps_handle fx fr beh s h sig r :
  sig <> h_signum (get s h) ->
  let s' := process_msg fx true fr beh s (h, sig) r in
  (forall x, h_signum (get s' x) = h_signum (get s x) /\ h_oneshot (get s' x) = h_oneshot (get s x) /\
             h_active (get s' x) = h_active (get s x)) /\
  tree s' = tree s /\ disp_of s' = disp_of s /\ tr s' = EDrop h sig :: tr s.
Proof.
  intros Hn. cbv zeta. unfold process_msg. cbn [fst snd].
  destruct (Nat.eqb_spec sig (h_signum (get s h))); [contradiction|].
  unfold msg_skip. split; [|repeat split]. intros x.
  destruct (inc_disp_same (log s (EDrop h sig)) h r x) as (a&b&c). cbv zeta in *.
  gs_in a. gs_in b. gs_in c. auto.
Qed.

(* fr: a handle that its own callback has started on another signal keeps that watch when the
   callback returns *)
Theorem restart_in_callback_kept fx fs beh s h sig r :
  sig = h_signum (get s h) ->
  let s1 := script fx (cb_enter s h sig) (beh (cbcount s)) in
  h_signum (get s1 h) <> sig ->
  let s' := process_msg fx fs true beh s (h, sig) r in
  (forall x, h_signum (get s' x) = h_signum (get s1 x) /\ h_oneshot (get s' x) = h_oneshot (get s1 x) /\
             h_active (get s' x) = h_active (get s1 x)) /\
  tree s' = tree s1 /\ disp_of s' = disp_of s1.
Proof.
  intros Hs. cbv zeta. intros Hn. unfold process_msg. cbn [fst snd].
  destruct (Nat.eqb_spec sig (h_signum (get s h))); [|contradiction].
  unfold msg_after_cb.
  set (s1 := script fx (cb_enter s h sig) (beh (cbcount s))) in *.
  destruct (inc_disp_same (log s1 (ECbEnd h)) h r h) as (a&b&_). cbv zeta in a. rewrite a. gs.
  destruct (Nat.eqb_spec (h_signum (get s1 h)) sig); [contradiction|]. rewrite andb_false_r.
  split; [|split; reflexivity]. intros x.
  destruct (inc_disp_same (log s1 (ECbEnd h)) h r x) as (a'&b'&c'). cbv zeta in *. gs_in a'. gs_in b'. gs_in c'. auto.
Qed.

(* the callback (handle, signal) the trace is inside of *)
Fixpoint incb (t : list event) : option (nat * nat) :=
  match t with
  | [] => None
  | ECb h sig :: _ => Some (h, sig)
  | ECbEnd _ :: _ => None
  | _ :: t' => incb t'
  end.

Definition is_one_false (m : mode) (sig : nat) : bool :=
  match m with MOne s false => s =? sig | _ => false end.

(* the program never re-arms a handle one-shot on signal S from inside that handle's callback
   for S (after stopping it there): libuv cannot tell that from "still the first watch" *)
Fixpoint alias_ok (t : list event) : bool :=
  match t with
  | [] => true
  | e :: t' =>
      alias_ok t' &&
      match incb (e :: t') with
      | Some (h, sig) => negb (is_one_false (mode_of (e :: t') h) sig)
      | None => true
      end
  end.

(* a handle started one-shot that has not had its callback yet is still watching: no snapshot
   (uv_is_active after an operation, at callback entry, after a run) ever finds it inactive *)
Definition OLive (s : state) : Prop :=
  forall h sg, mode_of (tr s) h = MOne sg false -> h_signum (get s h) = sg.

Fixpoint live_tr (t : list event) : Prop :=
  match t with
  | [] => True
  | e :: t' =>
      live_tr t' /\
      match e with
      | ESnap _ a => forall h sg, mode_of t' h = MOne sg false -> nth h a true = true
      | _ => True
      end
  end.

Definition oneshot_live_statement (fx fs fr : bool) : Prop :=
  forall beh fuel c ops t2 d a t0 h sg,
  tr (run fx fs fr beh fuel (init c) ops) = t2 ++ ESnap d a :: t0 ->
  alias_ok (tr (run fx fs fr beh fuel (init c) ops)) = true ->
  mode_of t0 h = MOne sg false -> nth h a true = true.

Lemma mode_sig_nonzero t x :
  mode_of t x <> MOne 0 false /\ mode_of t x <> MOne 0 true /\ mode_of t x <> MPers 0.
Proof.
  induction t as [|e t IH]; simpl; [repeat split; discriminate|].
  destruct IH as (a&b&d).
  destruct e as [o r|o|h' s'|h'|h'|l|l|dd aa|dh ds|fl fi]; simpl; auto.
  - destruct o; simpl; auto.
    + destruct (h =? x); auto. unfold mode_start. destruct (Nat.eqb_spec sig 0); auto.
      destruct (negb _); [repeat split; discriminate|].
      destruct (mode_of t x) as [|q|q k]; [repeat split; try discriminate; congruence| |];
        destruct (q =? sig); auto; repeat split; try discriminate; congruence.
    + destruct (h =? x); auto. unfold mode_start. destruct (Nat.eqb_spec sig 0); auto.
      destruct (negb _); [repeat split; discriminate|].
      destruct (mode_of t x) as [|q|q k]; [repeat split; try discriminate; congruence| |];
        destruct (q =? sig); auto; repeat split; try discriminate; congruence.
    + destruct (h =? x); auto. repeat split; discriminate.
    + destruct (h =? x); auto. repeat split; discriminate.
    + destruct (h =? x); auto. repeat split; discriminate.
  - destruct (h' =? x); auto. destruct (mode_of t x) as [|q|q [|]]; auto.
    repeat split; try discriminate; congruence.
  - destruct (h' =? x); auto. destruct (mode_of t x) as [|q|q [|]]; auto. repeat split; discriminate.
  - destruct (nth x aa true); auto. repeat split; discriminate.
Qed.

Lemma olive_of_link c s : c <> CMid -> TInv c s -> OLive s.
Proof.
  intros Hc T h sg Hm. pose proof (t_link _ _ T h) as L. rewrite Hm in L. simpl in L.
  destruct L as (_&[|[_ ?]]&_); auto. contradiction.
Qed.

Lemma live_snap s :
  (forall h, h_active (get s h) = negb (h_signum (get s h) =? 0)) -> OLive s -> live_tr (tr s) ->
  live_tr (tr (snap s)).
Proof.
  intros A O Lv. simpl. split; auto. intros h sg Hm. rewrite nth_active.
  destruct (h <? length (hs s)); auto. rewrite A, (O h sg Hm).
  destruct (Nat.eqb_spec sg 0) as [->|]; auto.
  exfalso. destruct (mode_sig_nonzero (tr s) h) as (a&_). contradiction.
Qed.

Lemma incb_snap d a t : incb (ESnap d a :: t) = incb t.
Proof. reflexivity. Qed.

Definition ctx_incb (c : ctx) (t : list event) : Prop :=
  match c with CCb h sig => incb t = Some (h, sig) | _ => incb t = None end.

Definition PO (c : ctx) (s : state) : Prop :=
  TInv c s /\ ctx_incb c (tr s) /\ (alias_ok (tr s) = true -> OLive s /\ live_tr (tr s)).

Lemma api_tr_kind fx s o : exists e, tr (api fx s o) = e :: tr s /\
  incb (e :: tr s) = incb (tr s) /\ (live_tr (tr s) -> live_tr (e :: tr s)).
Proof.
  destruct (api_tr fx s o) as (e&E&N1). destruct (api_tr2 fx s o) as (e'&E'&N2).
  rewrite E in E'. inversion E'; subst e'. exists e. split; auto.
  assert (K : (exists o r, e = EOp o r) \/ (exists o, e = ESkip o)).
  { clear N1 N2 E'. revert E. destruct o; cbn [api];
      repeat match goal with
             | |- context [if ?b then _ else _] => destruct b
             | |- context [let '(_, _) := ?p in _] => destruct p
             end; cbn [log tr with_tr]; intros E; inversion E; eauto. }
  destruct K as [(o'&r&->)|(o'&->)]; simpl; auto.
Qed.

Lemma alias_ok_tail e t : alias_ok (e :: t) = true -> alias_ok t = true.
Proof. simpl. rewrite andb_true_iff. tauto. Qed.

Lemma alias_ok_head t h sig : alias_ok t = true -> incb t = Some (h, sig) -> mode_of t h <> MOne sig false.
Proof.
  destruct t as [|e t]; [discriminate|]. intros A I. cbn [alias_ok] in A.
  apply andb_true_iff in A. destruct A as [_ A]. rewrite I in A.
  intros M. rewrite M in A. simpl in A. rewrite Nat.eqb_refl in A. discriminate.
Qed.

Theorem po_run fx beh fuel c ops : PO CTop (run fx true true beh fuel (init c) ops).
Proof.
  apply (rule_run fx true true beh PO) with (Rq := fun _ _ => True); auto.
  - intros c0 s o Hc (T&I&OL).
    assert (T1 := tinv_api_pre fx c0 s o Hc T).
    assert (T' := tinv_api fx c0 s o Hc T).
    destruct (api_tr_kind fx s o) as (e&E&Ie&Le).
    split; auto. unfold api_snap. split.
    + cbn [snap log tr with_tr]. rewrite E.
      destruct c0; unfold ctx_incb in *; rewrite incb_snap, Ie; auto.
    + intros Al. split; [eapply olive_of_link; eauto|].
      apply live_snap; [apply (t_act _ _ T1) | eapply olive_of_link; eauto|].
      rewrite E. apply Le. apply OL.
      cbn [snap log tr with_tr] in Al. rewrite E in Al. apply alias_ok_tail, alias_ok_tail in Al. exact Al.
  - intros s l (T&I&OL). split; [apply tinv_begin; auto|]. split; [simpl in *; auto|].
    intros Al. apply alias_ok_tail in Al. destruct (OL Al) as [O Lv]. split; [|simpl; auto].
    intros h sg Hm. simpl in Hm. gs. auto.
  - intros s l (T&I&OL) Hb. split; [apply tinv_take; auto|]. split; auto.
  - intros s h sig r (T&I&OL) Hb Hs.
    assert (T' : TInv (CCb h sig) (cb_enter s h sig)) by (eapply tinv_enter; eauto).
    split; auto. split; [reflexivity|].
    intros Al. split; [eapply olive_of_link; eauto; discriminate|].
    unfold cb_enter.
    change (tr (with_cbcount (snap (log s (ECb h sig))) (S (cbcount (snap (log s (ECb h sig)))))))
      with (tr (snap (log s (ECb h sig)))).
    change (alias_ok (tr (cb_enter s h sig))) with (alias_ok (tr (snap (log s (ECb h sig))))) in Al.
    cbn [snap log tr with_tr] in Al. apply alias_ok_tail, alias_ok_tail in Al.
    destruct (OL Al) as [O Lv].
    apply live_snap.
    + intros x. gs. apply (t_act _ _ T).
    + intros x sg Hm. simpl in Hm. gs. destruct (Nat.eqb_spec h x) as [<-|].
      * destruct (mode_of (tr s) h) as [|q|q [|]]; try discriminate.
      * auto.
    + simpl. auto.
  - intros s h sig r (T&I&OL) Hb.
    assert (T' : TInv CMid (msg_after_cb true (log s (ECbEnd h)) h sig r)) by (eapply tinv_exit; eauto).
    split; auto.
    destruct (after_cb_spec true (log s (ECbEnd h)) h sig r) as (f1&f2&f3&f4&f5&_). cbv zeta in *.
    split; [rewrite f5; reflexivity|].
    unfold OLive. rewrite f5. intros Al. cbn [log tr with_tr] in Al.
    pose proof (alias_ok_tail _ _ Al) as Al0. destruct (OL Al0) as [O Lv].
    split; [|simpl; auto].
    intros x sg Hm. cbn [log tr with_tr] in Hm. simpl in Hm.
    destruct (Nat.eqb_spec h x) as [<-|Hn].
    + destruct (mode_of (tr s) h) as [|q|q [|]] eqn:Em; try discriminate. inversion Hm; subst.
      revert f4. gs. intros f4.
      assert (Lk : h_signum (get s h) = sg).
      { apply (olive_of_link (CCb h sig) s ltac:(discriminate) T h sg Em). }
      rewrite f4; auto. right. split; auto. rewrite Lk. intros ->.
      simpl in I. apply (alias_ok_head (tr s) h sig Al0 I). exact Em.
    + rewrite f1 by auto. gs. apply (olive_of_link (CCb h sig) s ltac:(discriminate) T x sg Hm).
  - intros s h sig r (T&I&OL) Hb Hs. split; [eapply tinv_skip_fs; eauto|].
    unfold msg_skip. split; [simpl in *; auto|].
    intros Al. change (alias_ok (EDrop h sig :: tr s) = true) in Al. apply alias_ok_tail in Al.
    destruct (OL Al) as [O Lv]. split; [|simpl; auto].
    intros x sg Hm. change (mode_of (tr s) x = MOne sg false) in Hm.
    destruct (inc_disp_same (log s (EDrop h sig)) h r x) as (a&_). cbv zeta in a. rewrite a. gs. auto.
  - intros s l (T&I&OL). split; [apply tinv_clq; auto|]. split; auto.
  - intros s l h (T&I&OL) _. split; [apply tinv_clq; auto|]. split; auto.
  - intros s h (T&I&OL) _ Hd. split; [apply tinv_closed; auto|]. split; [simpl in *; auto|].
    intros Al. apply alias_ok_tail in Al. destruct (OL Al) as [O Lv]. split; [|simpl; auto].
    intros x sg Hm. simpl in Hm. gs.
    assert (E : h_signum (get (upd_h s h h_set_closed) x) = h_signum (get s x)).
    { destruct (Nat.eq_dec h x) as [<-|].
      - destruct (Nat.lt_ge_cases h (length (hs s))); [rewrite get_upd_same by auto | rewrite upd_h_oob by auto]; reflexivity.
      - rewrite get_upd_other by auto. reflexivity. }
    rewrite E. auto.
  - intros s l (T&I&OL). assert (T' := tinv_end s l T). split; auto. split; [simpl in *; auto|].
    intros Al. cbn [snap log tr with_tr] in Al. apply alias_ok_tail, alias_ok_tail in Al.
    destruct (OL Al) as [O Lv].
    split; [eapply olive_of_link; eauto; discriminate|].
    apply live_snap; [intros x; gs; apply (t_act _ _ T) | intros x sg Hm; simpl in Hm; gs; auto | simpl; auto].
  - intros s l b (T&I&OL). split; [apply tinv_stopf; auto|]. split; auto.
  - intros s l (T&I&OL) Hb. assert (T' := tinv_fork s l T). split; auto. split; [simpl in *; auto|].
    intros Al. cbn [snap log tr with_tr] in Al. apply alias_ok_tail in Al.
    change (tr (loop_fork s l)) with (EFork l (filter (fun h => h_loop (get s h) =? l) (seq 0 (length (hs s)))) :: tr s) in Al.
    apply alias_ok_tail in Al. destruct (OL Al) as [O Lv].
    split; [eapply olive_of_link; eauto; discriminate|].
    apply live_snap.
    + intros x. destruct (fork_fields s l x) as (_&a&_&b&_). cbv zeta in *. rewrite a, b. apply (t_act _ _ T).
    + intros x sg Hm. change (mode_of (tr s) x = MOne sg false) in Hm.
      destruct (fork_fields s l x) as (_&a&_). cbv zeta in a. rewrite a. auto.
    + change (live_tr (tr s) /\ True). auto.
  - split; [apply tinv_init|]. split; [reflexivity|]. intros _. split; [|simpl; auto].
    intros h sg Hm. simpl in Hm. discriminate.
Qed.

Lemma live_tr_app t2 t : live_tr (t2 ++ t) -> live_tr t.
Proof. induction t2; simpl; auto. intros [H _]; auto. Qed.

Theorem oneshot_live_until_callback : forall fx, oneshot_live_statement fx true true.
Proof.
  intros fx beh fuel c ops t2 d a t0 h sg Ht Al Hm.
  destruct (po_run fx beh fuel c ops) as (_&_&OL). destruct (OL Al) as [_ Lv]. rewrite Ht in Lv.
  apply live_tr_app in Lv. simpl in Lv. destruct Lv as [_ Lv]. eauto.
Qed.

(* refuted before commit c39ecc3 (fs = false): a stale message stops the handle *)
Theorem oneshot_stale_stop_refuted : forall fx fr, ~ oneshot_live_statement fx false fr.
Proof.
  intros fx fr H.
  assert (X : exists d t0,
    tr (run fx false fr (fun _ => []) 8 (init 16)
          [OInit 0; OStartOneshot 0 10; ORaise 10; OStartOneshot 0 12; ORun 0]) = [] ++ ESnap d [false] :: t0 /\
    alias_ok (tr (run fx false fr (fun _ => []) 8 (init 16)
          [OInit 0; OStartOneshot 0 10; ORaise 10; OStartOneshot 0 12; ORun 0])) = true /\
    mode_of t0 0 = MOne 12 false).
  { destruct fx, fr; vm_compute; eexists; eexists; repeat split; reflexivity. }
  destruct X as (d&t0&E&Al&M).
  specialize (H _ _ _ _ _ _ _ _ _ _ E Al M). simpl in H. discriminate.
Qed.

Definition restart_in_cb_beh : nat -> list op :=
  fun k => match k with 0 => [OStartOneshot 0 12] | _ => [] end.

(* refuted on the code as it is (fr = false): a handle that its own one-shot callback restarts
   one-shot on another signal is stopped when that callback returns *)
Theorem oneshot_restart_in_cb_refuted : forall fx fs, ~ oneshot_live_statement fx fs false.
Proof.
  intros fx fs H.
  assert (X : exists d t0,
    tr (run fx fs false restart_in_cb_beh 8 (init 16)
          [OInit 0; OStartOneshot 0 10; ORaise 10; ORun 0]) = [] ++ ESnap d [false] :: t0 /\
    alias_ok (tr (run fx fs false restart_in_cb_beh 8 (init 16)
          [OInit 0; OStartOneshot 0 10; ORaise 10; ORun 0])) = true /\
    mode_of t0 0 = MOne 12 false).
  { destruct fx, fs; vm_compute; eexists; eexists; repeat split; reflexivity. }
  destruct X as (d&t0&E&Al&M).
  specialize (H _ _ _ _ _ _ _ _ _ _ E Al M). simpl in H. discriminate.
Qed.

(* the witness runs with the repairs *)
Theorem oneshot_stale_stop_fixed_behaviour :
  forall fx fr,
  let ops := [OInit 0; OStartOneshot 0 10; ORaise 10; OStartOneshot 0 12; ORun 0] in
  let s := run fx true fr (fun _ => []) 8 (init 16) ops in
  let s2 := run fx true fr (fun _ => []) 8 (init 16) (ops ++ [ORaise 12; ORun 0; ORaise 12]) in
  (h_active (get s 0) = true /\ h_signum (get s 0) = 12 /\ count_cb 0 (tr s) = 0 /\
   disp_of s 12 = Handler true) /\
  (count_cb 0 (tr s2) = 1 /\ In (ECb 0 12) (tr s2) /\ h_active (get s2 0) = false /\
   disp_of s2 12 = Default).
Proof. intros fx fr; destruct fx, fr; vm_compute; intuition. Qed.

Theorem oneshot_restart_in_cb_fixed_behaviour :
  forall fx fs,
  let ops := [OInit 0; OStartOneshot 0 10; ORaise 10; ORun 0] in
  let s := run fx fs true restart_in_cb_beh 8 (init 16) ops in
  let s2 := run fx fs true restart_in_cb_beh 8 (init 16) (ops ++ [ORaise 12; ORun 0; ORaise 12]) in
  (h_active (get s 0) = true /\ h_signum (get s 0) = 12 /\ count_cb 0 (tr s) = 1 /\
   disp_of s 12 = Handler true /\ fresh_like (get s 0) 12 true) /\
  (count_cb 0 (tr s2) = 2 /\ In (ECb 0 12) (tr s2) /\ h_active (get s2 0) = false /\
   disp_of s2 12 = Default).
Proof. intros fx fs; destruct fx, fs; vm_compute; intuition. Qed.

(* the code as it is: the restarted watch is stopped without a callback, SIGUSR2 back to default *)
Theorem oneshot_restart_in_cb_stopped :
  forall fx fs,
  let s := run fx fs false restart_in_cb_beh 8 (init 16) [OInit 0; OStartOneshot 0 10; ORaise 10; ORun 0] in
  h_active (get s 0) = false /\ count_cb 0 (tr s) = 1 /\ disp_of s 12 = Default.
Proof. intros fx fs; destruct fx, fs; vm_compute; intuition. Qed.

(* not repaired by fr (and the reason for the [alias_ok] hypothesis): re-arming one-shot on the
   SAME signal from inside the callback - by the short circuit start or by stop + start - leaves
   the handle stopped when the callback returns, in every variant *)
Theorem oneshot_rearm_same_signal_in_cb :
  forall fx fs fr (short : bool),
  let beh := fun k => match k with
                      | 0 => if short then [OStartOneshot 0 10] else [OStop 0; OStartOneshot 0 10]
                      | _ => [] end in
  let s := run fx fs fr beh 8 (init 16) [OInit 0; OStartOneshot 0 10; ORaise 10; ORun 0] in
  h_active (get s 0) = false /\ count_cb 0 (tr s) = 1 /\ disp_of s 10 = Default /\
  alias_ok (tr s) = short.
Proof. intros fx fs fr short; destruct fx, fs, fr, short; vm_compute; intuition. Qed.

(* ------------------------------------------------------------------ *)
(* 12. every watcher once, on whole traces                              *)
(* ------------------------------------------------------------------ *)
(* signals delivered to handle h (newest first): the kernel ran the handler for sig while the
   observer knew h to be watching sig (deliveries happen between API calls, where the observer's
   view is exact) *)
Fixpoint delivered (t : list event) (h : nat) : list nat :=
  match t with
  | [] => []
  | EOp (ORaise sig) r :: t' =>
      if (r =? 0)%Z && cb_allowed (mode_of t' h) sig then sig :: delivered t' h else delivered t' h
  | EFork _ ids :: t' =>
      (* the child of a fork starts afresh: what the handles of the loop had caught before stays with
         the parent's pipe *)
      if existsb (Nat.eqb h) ids then [] else delivered t' h
  | _ :: t' => delivered t' h
  end.

(* messages of h consumed by its loop (newest first): with a callback (ECb) or without (EDrop) *)
Fixpoint consumed (t : list event) (h : nat) : list nat :=
  match t with
  | [] => []
  | ECb h' sig :: t' => if h' =? h then sig :: consumed t' h else consumed t' h
  | EDrop h' sig :: t' => if h' =? h then sig :: consumed t' h else consumed t' h
  | EFork _ ids :: t' => if existsb (Nat.eqb h) ids then [] else consumed t' h
  | _ :: t' => consumed t' h
  end.

(* the signals of h's messages still in flight, oldest first *)
Definition psig (s : state) (h : nat) : list nat :=
  map snd (filter (fun m => fst m =? h) (batch s ++ pipe_of s (h_loop (get s h)))).

Definition inflight (c : ctx) (h : nat) : nat :=
  match c with CCb h' _ => if h' =? h then 1 else 0 | _ => 0 end.

Definition QE (c : ctx) (s : state) : Prop :=
  lost s = 0 -> forall h, delivered (tr s) h = rev (skipn (inflight c h) (psig s h)) ++ consumed (tr s) h.

Definition CB (c : ctx) (s : state) : Prop :=
  match c with CCb h sig => exists r, batch s = (h, sig) :: r | _ => True end.

Definition PE (c : ctx) (s : state) : Prop := TInv c s /\ SInv s /\ CB c s /\ QE c s.

Lemma psig_frame s s' h :
  pipe_of s' = pipe_of s -> batch s' = batch s -> h_loop (get s' h) = h_loop (get s h) ->
  psig s' h = psig s h.
Proof. unfold psig. intros -> -> ->. reflexivity. Qed.

(* --- the ghost counter only moves in the handler --- *)
Lemma stop_lost s h : lost (sig_stop s h) = lost s.
Proof.
  unfold sig_stop. destruct (_ =? 0); auto. ssimpl.
  destruct (first_handle _ _); [destruct (_ && _)|]; reflexivity.
Qed.

Lemma start_lost fx s h sig os : lost (fst (sig_start fx s h sig os)) = lost s.
Proof.
  unfold sig_start. destruct (sig =? 0); auto. destruct (sig =? _); auto. rewrite stop_if.
  destruct (_ && negb _); cbn [fst]; [apply stop_lost|].
  ssimpl. destruct (fired_oneshot_on _ _); ssimpl;
    (destruct (first_handle (sig_stop s h) sig) as [f|]; [destruct (negb os && _)|]); ssimpl; apply stop_lost.
Qed.

Lemma close_lost s h : lost (sig_close s h) = lost s.
Proof. unfold sig_close. ssimpl. rewrite stop_lost. reflexivity. Qed.

Lemma finish_lost s h r : lost (msg_finish s h r) = lost s.
Proof. unfold msg_finish. destruct (h_oneshot _); [rewrite stop_lost|]; reflexivity. Qed.

Lemma after_cb_lost fr s h sig r : lost (msg_after_cb fr s h sig r) = lost s.
Proof.
  unfold msg_after_cb. destruct fr; [|apply finish_lost]. destruct (_ && _); [rewrite stop_lost|]; reflexivity.
Qed.

Lemma skip_lost fs s h sig r : lost (msg_skip fs s h sig r) = lost s.
Proof. unfold msg_skip. destruct fs; [reflexivity | rewrite finish_lost; reflexivity]. Qed.

Lemma write_msg_lost_mono sig s y : lost s <= lost (write_msg sig s y).
Proof. unfold write_msg. destruct (_ <? _); ssimpl; lia. Qed.

Lemma fold_write_lost_mono sig ys : forall s, lost s <= lost (fold_left (write_msg sig) ys s).
Proof.
  induction ys as [|y ys IH]; intros; simpl; auto. etransitivity; [apply write_msg_lost_mono | apply IH].
Qed.

Lemma filter_app_snd h (a b : list msg) :
  map snd (filter (fun m => fst m =? h) (a ++ b)) =
  map snd (filter (fun m => fst m =? h) a) ++ map snd (filter (fun m => fst m =? h) b).
Proof. rewrite filter_app, map_app. reflexivity. Qed.

(* a write that found room: the message goes to the tail of the pipe of y's loop *)
Lemma write_msg_psig sig s y : y < length (hs s) -> lost (write_msg sig s y) = lost s ->
  forall x, psig (write_msg sig s y) x = psig s x ++ (if x =? y then [sig] else []).
Proof.
  intros Hl Hlost x. unfold write_msg in *.
  set (s1 := upd_h s y h_set_fired) in *.
  assert (G1 : forall z, h_loop (get s1 z) = h_loop (get s z)).
  { intros z. unfold s1. destruct (Nat.eq_dec y z) as [->|]; [rewrite get_upd_same by auto; reflexivity | rewrite get_upd_other by auto; reflexivity]. }
  assert (Ey : h_loop (get s y) = h_loop (get s1 y)) by (symmetry; apply G1).
  change (pipe_of s1) with (pipe_of s) in *. change (cap s1) with (cap s) in *.
  destruct (length (pipe_of s (h_loop (get s y))) <? cap s).
  2:{ exfalso. unfold s1 in Hlost. cbn in Hlost. lia. }
  set (l := h_loop (get s y)) in *.
  set (s2 := set_pipe s1 l (pipe_of s l ++ [(y, sig)])).
  assert (G2 : forall z, h_loop (get (upd_h s2 y h_inc_caught) z) = h_loop (get s z)).
  { intros z. rewrite <- G1. destruct (Nat.eq_dec y z) as [->|].
    - rewrite get_upd_same by (change (hs s2) with (hs s1); unfold s1; rewrite len_upd_h; auto). reflexivity.
    - rewrite get_upd_other by auto. reflexivity. }
  unfold psig. rewrite G2.
  change (batch (upd_h s2 y h_inc_caught)) with (batch s).
  change (pipe_of (upd_h s2 y h_inc_caught)) with (fupd (pipe_of s) l (pipe_of s l ++ [(y, sig)])).
  unfold fupd. destruct (Nat.eqb_spec (h_loop (get s x)) l) as [El|El].
  - rewrite El. rewrite !filter_app_snd. rewrite <- app_assoc. f_equal. f_equal. simpl.
    rewrite (Nat.eqb_sym y x). destruct (x =? y); reflexivity.
  - destruct (Nat.eqb_spec x y) as [->|]; [exfalso; apply El; reflexivity | rewrite app_nil_r; reflexivity].
Qed.

Lemma fold_write_psig sig ys : forall s, NoDup ys -> (forall y, In y ys -> y < length (hs s)) ->
  lost (fold_left (write_msg sig) ys s) = lost s ->
  forall x, psig (fold_left (write_msg sig) ys s) x = psig s x ++ (if existsb (Nat.eqb x) ys then [sig] else []).
Proof.
  induction ys as [|y ys IH]; intros s Nd Hv Hl x; simpl; [rewrite app_nil_r; reflexivity|].
  inversion Nd as [|? ? Ny Nd']; subst.
  assert (L1 : lost (write_msg sig s y) = lost s).
  { pose proof (write_msg_lost_mono sig s y). pose proof (fold_write_lost_mono sig ys (write_msg sig s y)).
    simpl in Hl. lia. }
  rewrite IH; auto.
  - rewrite write_msg_psig by (auto; apply Hv; simpl; auto). rewrite <- app_assoc. f_equal.
    destruct (Nat.eqb_spec x y) as [->|Hn]; simpl; auto.
    destruct (existsb (Nat.eqb y) ys) eqn:E; auto.
    apply existsb_exists in E. destruct E as (z&a&b). apply Nat.eqb_eq in b. subst. contradiction.
  - intros z Hz. rewrite write_msg_len. apply Hv; simpl; auto.
  - simpl in Hl. congruence.
Qed.

(* in a synchronised context the observer's "watching sig" is membership in the tree for sig *)
Lemma watching_iff_entry c s h sig : c <> CMid -> sig <> 0 -> TInv c s -> SInv s ->
  cb_allowed (mode_of (tr s) h) sig = true <-> (In h (tree s) /\ h_signum (get s h) = sig).
Proof.
  intros Hc Hs T [C K]. pose proof (t_link _ _ T h) as L. rewrite (s_tree _ C).
  destruct (mode_of (tr s) h) as [|sg|sg k]; simpl in *.
  - split; [discriminate|]. intros [a b]. congruence.
  - destruct L as [L|[_ L]]; [|contradiction]. rewrite Nat.eqb_eq. split.
    + intros E. split; congruence.
    + intros [_ E]. congruence.
  - destruct L as (_&[L|[_ L]]&_); [|contradiction]. rewrite Nat.eqb_eq. split.
    + intros E. split; congruence.
    + intros [_ E]. congruence.
Qed.

Lemma rev_skipn_snoc {A} k (p : list A) x : k <= length p ->
  rev (skipn k (p ++ [x])) = x :: rev (skipn k p).
Proof.
  intros H. rewrite skipn_app. replace (k - length p) with 0 by lia. simpl.
  rewrite rev_app_distr. reflexivity.
Qed.

Lemma delivered_snap d a t h : delivered (ESnap d a :: t) h = delivered t h.
Proof. reflexivity. Qed.
Lemma consumed_snap d a t h : consumed (ESnap d a :: t) h = consumed t h.
Proof. reflexivity. Qed.

(* psig of a handle inside its own callback starts with the message being handled *)
Lemma psig_head s h sig r : batch s = (h, sig) :: r ->
  psig s h = sig :: map snd (filter (fun m => fst m =? h) (r ++ pipe_of s (h_loop (get s h)))).
Proof. intros Hb. unfold psig. rewrite Hb. simpl. rewrite Nat.eqb_refl. reflexivity. Qed.

Lemma psig_pop_other s h sig r x : batch s = (h, sig) :: r -> x <> h ->
  psig s x = map snd (filter (fun m => fst m =? x) (r ++ pipe_of s (h_loop (get s x)))).
Proof.
  intros Hb Hn. unfold psig. rewrite Hb. simpl. destruct (Nat.eqb_spec h x); [congruence|reflexivity].
Qed.

Lemma filter_none {A} (f : A -> bool) (l : list A) : (forall x, In x l -> f x = false) -> filter f l = [].
Proof.
  induction l as [|x l IH]; intros H; simpl; auto. rewrite (H x) by (simpl; auto). apply IH. intros; apply H; simpl; auto.
Qed.

(* no message mentions a handle that does not exist *)
Lemma psig_nil_oob s st h : SCore s -> length (hs s) <= h -> pipe_of st = pipe_of s -> batch st = batch s ->
  psig st h = [].
Proof.
  intros C Hh Ep Eb. unfold psig. rewrite Ep, Eb. rewrite filter_none; auto.
  intros m Hm. apply Nat.eqb_neq. intros E. apply in_app_iff in Hm. destruct Hm as [Hm|Hm].
  - apply (s_batchv _ C) in Hm. lia.
  - apply (s_pipe _ C) in Hm. lia.
Qed.

Lemma psig_same s s1 : pipe_of s1 = pipe_of s -> batch s1 = batch s ->
  (forall x, h_loop (get s1 x) = h_loop (get s x)) -> forall h, psig s1 h = psig s h.
Proof. intros Ep Eb El h. apply psig_frame; auto. Qed.

Lemma existsb_eqb_in x l : existsb (Nat.eqb x) l = true <-> In x l.
Proof.
  rewrite existsb_exists. split.
  - intros (y&a&b). apply Nat.eqb_eq in b. subst; auto.
  - intros H. exists x. split; auto. apply Nat.eqb_refl.
Qed.

Lemma pe_api fx c s o : c <> CMid -> PE c s -> PE c (api_snap fx s o).
Proof.
  intros Hc (T&I&B&Q).
  split; [apply tinv_api; auto|]. split; [apply sinv_api; auto|].
  split.
  { destruct c; simpl in *; auto. unfold api_snap. ssimpl. rewrite api_batch. exact B. }
  unfold api_snap.
  (* the snapshot changes nothing *)
  assert (Hsn : forall s1, QE c s1 -> QE c (snap s1)).
  { intros s1 Q1 Hl h. change (lost (snap s1)) with (lost s1) in Hl. specialize (Q1 Hl h).
    cbn [snap log tr with_tr]. rewrite delivered_snap, consumed_snap.
    rewrite (psig_frame s1 (snap s1)) by reflexivity. exact Q1. }
  apply Hsn.
  (* every operation but a delivery: an event that neither delivers nor consumes, same messages *)
  assert (Hframe : forall s1 e, lost s1 = lost s ->
            (forall h, delivered (e :: tr s1) h = delivered (tr s) h) ->
            (forall h, consumed (e :: tr s1) h = consumed (tr s) h) ->
            (forall h, psig s1 h = psig s h) -> QE c (log s1 e)).
  { intros s1 e El Ed Ec Ep Hl h. change (lost (log s1 e)) with (lost s1) in Hl.
    cbn [log tr with_tr]. rewrite Ed, Ec. rewrite (psig_frame s1 (log s1 e)) by reflexivity. rewrite Ep.
    apply Q. congruence. }
  destruct I as [C K].
  destruct o; cbn [api].
  - (* OInit *)
    apply Hframe; try reflexivity. intros h.
    set (s' := with_hs s (hs s ++ [new_handle l])).
    destruct (Nat.lt_ge_cases h (length (hs s))) as [Hv|Hv].
    + apply psig_frame; try reflexivity. unfold s'. rewrite get_app_old; auto.
    + rewrite (psig_nil_oob s s' h), (psig_nil_oob s s h); auto.
  - (* OStart *)
    destruct (usable s h) eqn:U; [|apply Hframe; reflexivity].
    apply usable_spec in U. destruct U as [Ul Uc].
    pose proof (start_spec fx s h sig false) as S. pose proof (start_lost fx s h sig false) as Lo.
    destruct (sig_start fx s h sig false) as [s1 r]. cbn [fst snd] in *.
    destruct S as [S0 S1 S2|S0 S1 S2 S3|S0 S1 S2 S3 S4|S0 S1 S2 S3 S4 S5 S6 S7 S8 S9]; subst;
      apply Hframe; auto; rewrite ?stop_tr, ?S7; try reflexivity.
    + apply psig_same; auto using stop_pipe, stop_batch. intros; apply stop_loop.
    + apply psig_same; auto. intros x. destruct (Nat.eq_dec x h) as [->|Hn]; [rewrite S5 by auto; reflexivity | rewrite S3; auto].
  - (* OStartOneshot *)
    destruct (usable s h) eqn:U; [|apply Hframe; reflexivity].
    apply usable_spec in U. destruct U as [Ul Uc].
    pose proof (start_spec fx s h sig true) as S. pose proof (start_lost fx s h sig true) as Lo.
    destruct (sig_start fx s h sig true) as [s1 r]. cbn [fst snd] in *.
    destruct S as [S0 S1 S2|S0 S1 S2 S3|S0 S1 S2 S3 S4|S0 S1 S2 S3 S4 S5 S6 S7 S8 S9]; subst;
      apply Hframe; auto; rewrite ?stop_tr, ?S7; try reflexivity.
    + apply psig_same; auto using stop_pipe, stop_batch. intros; apply stop_loop.
    + apply psig_same; auto. intros x. destruct (Nat.eq_dec x h) as [->|Hn]; [rewrite S5 by auto; reflexivity | rewrite S3; auto].
  - (* OStop *)
    destruct (usable s h); apply Hframe; rewrite ?stop_tr; try reflexivity.
    + apply stop_lost.
    + apply psig_same; auto using stop_pipe, stop_batch. intros; apply stop_loop.
  - (* OClose *)
    destruct (usable s h) eqn:U; [|apply Hframe; reflexivity].
    apply usable_spec in U. destruct U as [Ul Uc].
    destruct (close_misc s h) as (c1&c2&c3&c4).
    apply Hframe; rewrite ?c2; try reflexivity.
    + apply close_lost.
    + apply psig_same; auto. intros x. destruct (Nat.eq_dec h x) as [<-|Hn].
      * destruct (close_get_same s h Ul) as (_&_&_&a&_). exact a.
      * rewrite close_get_other; auto.
  - (* ORaise *)
    destruct (Nat.eqb_spec sig 0) as [E0|E0]; [apply Hframe; reflexivity|].
    pose proof (deliver_misc s sig) as D. cbv zeta in D. destruct D as (d1&d2&d3&d4&d5&d6).
    unfold deliver in *. destruct (disp_of s sig) as [|rh] eqn:Ed; cbn [fst snd] in *.
    { apply Hframe; reflexivity. }
    intros Hl h. change (lost (log (handler (if rh then set_disp s sig Default else s) sig) (EOp (ORaise sig) 0%Z)))
      with (lost (handler (if rh then set_disp s sig Default else s) sig)) in Hl.
    cbn [log tr with_tr]. rewrite d2.
    rewrite (psig_frame (handler (if rh then set_disp s sig Default else s) sig) (log _ _)) by reflexivity.
    cbn [delivered consumed]. change ((0 =? 0)%Z) with true. cbn [andb].
    unfold handler in *.
    set (s0 := if rh then set_disp s sig Default else s) in *.
    assert (G0 : forall x, get s0 x = get s x) by (intros; unfold s0; destruct rh; reflexivity).
    assert (P0 : forall x, psig s0 x = psig s x) by (intros; unfold s0; destruct rh; reflexivity).
    assert (L0 : lost s0 = lost s) by (unfold s0; destruct rh; reflexivity).
    assert (T0 : targets s0 sig = targets s sig) by (apply targets_hs_eq; unfold s0; destruct rh; reflexivity).
    assert (Ls : lost s = 0) by (pose proof (fold_write_lost_mono sig (targets s0 sig) s0); lia).
    rewrite T0 in *.
    rewrite fold_write_psig.
    2:{ apply sorted_sub_nodup. apply (s_sorted _ C). }
    2:{ intros y Hy. apply targets_in in Hy. destruct Hy as [_ Hy].
        assert (y < length (hs s)) by (apply signum_valid; congruence). unfold s0; destruct rh; auto. }
    2:{ lia. }
    rewrite P0. specialize (Q Ls h).
    assert (W : cb_allowed (mode_of (tr s) h) sig = existsb (Nat.eqb h) (targets s sig)).
    { apply eq_true_iff_eq. rewrite existsb_eqb_in.
      rewrite (watching_iff_entry c s h sig Hc E0 T (conj C K)). split.
      - intros [a b]. apply targets_complete; auto. apply (s_sorted _ C).
      - apply targets_in. }
    rewrite W. destruct (existsb (Nat.eqb h) (targets s sig)).
    + rewrite rev_skipn_snoc; [simpl; rewrite Q; reflexivity|].
      unfold inflight. destruct c as [| |h0 g0]; try lia. destruct (Nat.eqb_spec h0 h) as [->|]; [|lia].
      simpl in B. destruct B as (r&Hb). rewrite (psig_head s h g0 r Hb). simpl. lia.
    + rewrite app_nil_r. exact Q.
  - (* ORun inside a callback: refused *)
    apply Hframe; reflexivity.
  - apply Hframe; reflexivity.
  - apply Hframe; reflexivity.
  - (* OReinit *)
    destruct ((h <? length (hs s)) && h_closed (get s h)) eqn:G; [|apply Hframe; reflexivity].
    apply andb_true_iff in G. destruct G as [Gl Gc]. apply Nat.ltb_lt in Gl.
    fold (reinit_state s h). destruct (reinit_misc s h) as (_&mp&mb&mt&_&_&_&ml).
    apply Hframe; rewrite ?mt; try reflexivity.
    + rewrite ml. apply stop_lost.
    + apply psig_same; auto. intros x. destruct (Nat.eq_dec x h) as [->|Hx].
      * rewrite reinit_get_same by auto. reflexivity.
      * rewrite reinit_get_other by auto. reflexivity.
Qed.

Lemma qe_same_trace c c' s s' :
  tr s' = tr s -> lost s' = lost s -> (forall h, inflight c' h = inflight c h) ->
  (forall h, psig s' h = psig s h) -> QE c s -> QE c' s'.
Proof. intros Et El Ei Ep Q Hl h. rewrite Et, Ei, Ep. apply Q. congruence. Qed.

(* logging an event that neither delivers nor consumes *)
Lemma qe_log c c' s e :
  (forall h, delivered (e :: tr s) h = delivered (tr s) h) ->
  (forall h, consumed (e :: tr s) h = consumed (tr s) h) ->
  (forall h, inflight c' h = inflight c h) -> QE c s -> QE c' (log s e).
Proof.
  intros Ed Ec Ei Q Hl h. cbn [log tr with_tr]. rewrite Ed, Ec, Ei.
  rewrite (psig_frame s (log s e)) by reflexivity. apply Q. exact Hl.
Qed.

Lemma after_cb_loop fr s h sig r x : h_loop (get (msg_after_cb fr s h sig r) x) = h_loop (get s x).
Proof.
  unfold msg_after_cb, msg_finish.
  assert (E : h_loop (get (upd_h (with_batch s r) h h_inc_dispatched) x) = h_loop (get s x)).
  { destruct (Nat.eq_dec h x) as [<-|Hn]; [|rewrite get_upd_other by auto; reflexivity].
    destruct (inc_disp_fields s h r) as (a&_). exact a. }
  destruct fr; [destruct (_ && _) | destruct (h_oneshot _)]; rewrite ?stop_loop; exact E.
Qed.

Lemma after_cb_pipe fr s h sig r : pipe_of (msg_after_cb fr s h sig r) = pipe_of s.
Proof. destruct (after_cb_spec fr s h sig r) as (_&_&_&_&_&e&_). exact e. Qed.

Lemma finish_loop s h r x : h_loop (get (msg_finish s h r) x) = h_loop (get s x).
Proof. apply (after_cb_loop false s h 0 r x). Qed.

Lemma fork_ids_spec s l x :
  existsb (Nat.eqb x) (filter (fun h => h_loop (get s h) =? l) (seq 0 (length (hs s)))) =
  (x <? length (hs s)) && (h_loop (get s x) =? l).
Proof.
  apply eq_true_iff_eq. rewrite existsb_eqb_in, filter_In, in_seq, andb_true_iff, Nat.ltb_lt. simpl. intuition.
Qed.

Lemma psig_fork s l x : SCore s -> batch s = [] ->
  psig (loop_fork s l) x = if (x <? length (hs s)) && (h_loop (get s x) =? l) then [] else psig s x.
Proof.
  intros C Hb. unfold psig at 1. destruct (fork_fields s l x) as (a&_). cbv zeta in a. rewrite a.
  change (batch (loop_fork s l)) with (batch s). rewrite Hb, fork_pipe. simpl.
  destruct (Nat.eqb_spec (h_loop (get s x)) l) as [E|E].
  - simpl. destruct (Nat.ltb_spec x (length (hs s))); simpl; auto.
    symmetry. apply (psig_nil_oob s s x); auto.
  - rewrite andb_false_r. unfold psig. rewrite Hb. reflexivity.
Qed.

Theorem pe_run fx fs fr beh fuel c ops : PE CTop (run fx fs fr beh fuel (init c) ops).
Proof.
  apply (rule_run fx fs fr beh PE) with (Rq := fun s h => h_closing (get s h) = true).
  - intros; apply pe_api; auto.
  - (* begin *)
    intros s l (T&I&B&Q). split; [apply tinv_begin; auto|]. split; [apply sinv_log; auto|]. split; [exact Logic.I|].
    apply qe_log with (c := CTop); auto.
  - (* take a batch *)
    intros s l (T&I&B&Q) Hb. split; [apply tinv_take; auto|]. split; [apply sinv_take; auto|]. split; [exact Logic.I|].
    destruct I as [C K]. eapply qe_same_trace with (s := s) (c := CMid); try reflexivity; auto.
    intros h. unfold take_batch, psig. gs. ssimpl. rewrite Hb. simpl. unfold fupd.
    destruct (Nat.eqb_spec (h_loop (get s h)) l) as [->|Hn].
    + rewrite firstn_skipn. reflexivity.
    + rewrite filter_app_snd. rewrite (filter_none _ (firstn batch_size (pipe_of s l))); auto.
      intros m Hm. apply Nat.eqb_neq. intros E. apply In_firstn in Hm. apply (s_pipe _ C) in Hm.
      destruct Hm as [a _]. congruence.
  - (* a callback is entered *)
    intros s h sig r (T&I&B&Q) Hb Hs. split; [eapply tinv_enter; eauto|]. split; [apply sinv_cb_enter; auto|].
    split; [exists r; exact Hb|].
    intros Hl x. change (lost (cb_enter s h sig)) with (lost s) in Hl. specialize (Q Hl x).
    change (tr (cb_enter s h sig)) with (ESnap (map (disp_of s) watch_sigs) (map h_active (hs s)) :: ECb h sig :: tr s).
    rewrite delivered_snap, consumed_snap.
    rewrite (psig_frame s (cb_enter s h sig)) by reflexivity.
    cbn [delivered consumed inflight]. simpl in Q.
    destruct (Nat.eqb_spec h x) as [Ex|Hn]; [subst x|exact Q].
    rewrite (psig_head s h sig r Hb) in *. simpl. simpl in Q. rewrite Q.
    rewrite <- app_assoc. reflexivity.
  - (* the callback returns *)
    intros s h sig r (T&I&B&Q) Hb.
    split; [eapply tinv_exit; eauto|]. split; [eapply sinv_after_cb; eauto; apply sinv_log; auto|]. split; [exact Logic.I|].
    intros Hl x. rewrite after_cb_lost in Hl. change (lost (log s (ECbEnd h))) with (lost s) in Hl.
    specialize (Q Hl x).
    destruct (after_cb_spec fr (log s (ECbEnd h)) h sig r) as (_&_&_&_&f5&_). cbv zeta in f5. rewrite f5.
    cbn [log tr with_tr delivered consumed inflight].
    assert (Ps : psig (msg_after_cb fr (log s (ECbEnd h)) h sig r) x =
                 map snd (filter (fun m => fst m =? x) (r ++ pipe_of s (h_loop (get s x))))).
    { unfold psig. rewrite after_cb_loop, after_cb_pipe, msg_after_cb_batch. gs. reflexivity. }
    rewrite Ps. simpl in Q. destruct (Nat.eqb_spec h x) as [Ex|Hn]; [subst x|].
    + rewrite (psig_head s h sig r Hb) in Q. simpl in Q. exact Q.
    + rewrite (psig_pop_other s h sig r x Hb) in Q by auto. exact Q.
  - (* a message without callback *)
    intros s h sig r (T&I&B&Q) Hb Hs.
    split; [eapply tinv_skip_fs; eauto|]. split.
    { unfold msg_skip. apply (sinv_log s (EDrop h sig)) in I. destruct fs; [eapply sinv_pop | eapply sinv_finish]; eauto. }
    split; [exact Logic.I|].
    intros Hl x. rewrite skip_lost in Hl. specialize (Q Hl x).
    assert (Et : tr (msg_skip fs s h sig r) = EDrop h sig :: tr s).
    { unfold msg_skip. destruct fs; [reflexivity|].
      destruct (finish_spec (log s (EDrop h sig)) h r) as (_&_&_&_&f5&_). exact f5. }
    assert (Ps : psig (msg_skip fs s h sig r) x =
                 map snd (filter (fun m => fst m =? x) (r ++ pipe_of s (h_loop (get s x))))).
    { unfold msg_skip, psig. destruct fs.
      - destruct (Nat.eq_dec h x) as [<-|Hn].
        + destruct (inc_disp_fields (log s (EDrop h sig)) h r) as (a&_). cbv zeta in a. rewrite a. reflexivity.
        + rewrite get_upd_other by auto. reflexivity.
      - rewrite finish_loop, msg_finish_batch.
        destruct (finish_spec (log s (EDrop h sig)) h r) as (_&_&_&_&_&f6&_). cbv zeta in f6. rewrite f6. reflexivity. }
    rewrite Et, Ps. cbn [delivered consumed inflight]. simpl in Q.
    destruct (Nat.eqb_spec h x) as [Ex|Hn]; [subst x|].
    + rewrite (psig_head s h sig r Hb) in Q. simpl in Q. rewrite Q. rewrite <- app_assoc. reflexivity.
    + rewrite (psig_pop_other s h sig r x Hb) in Q by auto. exact Q.
  - intros s l h (_&[C K]&_) Hh. eapply (s_clq _ C); eauto.
  - auto.
  - intros s h' h Hc. gs. destruct (Nat.eq_dec h' h) as [->|Hn].
    + destruct (Nat.lt_ge_cases h (length (hs s))).
      * rewrite get_upd_same by auto. auto.
      * rewrite upd_h_oob by auto. auto.
    + rewrite get_upd_other by auto. auto.
  - intros s l (T&I&B&Q). split; [apply tinv_clq; auto|]. split; [apply sinv_clq_nil; auto|]. split; [exact Logic.I|].
    eapply qe_same_trace with (s := s) (c := CMid); try reflexivity; auto.
  - intros s l h (T&I&B&Q) R. split; [apply tinv_clq; auto|]. split; [apply sinv_requeue; auto|]. split; [exact Logic.I|].
    eapply qe_same_trace with (s := s) (c := CMid); try reflexivity; auto.
  - intros s h (T&I&B&Q) R Hd. split; [apply tinv_closed; auto|]. split; [apply sinv_closed; auto|]. split; [exact Logic.I|].
    apply qe_log with (c := CMid); auto.
    eapply qe_same_trace with (s := s) (c := CMid); try reflexivity; auto.
    intros x. apply psig_frame; try reflexivity.
    destruct (Nat.eq_dec h x) as [<-|Hn]; [|rewrite get_upd_other by auto; reflexivity].
    destruct (Nat.lt_ge_cases h (length (hs s))); [rewrite get_upd_same by auto | rewrite upd_h_oob by auto]; reflexivity.
  - intros s l (T&I&B&Q). split; [apply tinv_end; auto|]. split; [apply sinv_snap, sinv_log; auto|]. split; [exact Logic.I|].
    intros Hl x. change (lost (snap (log s (ERunEnd l)))) with (lost s) in Hl. specialize (Q Hl x).
    cbn [snap log tr with_tr]. rewrite delivered_snap, consumed_snap.
    rewrite (psig_frame s (snap (log s (ERunEnd l)))) by reflexivity. exact Q.
  - intros s l b (T&I&B&Q). split; [apply tinv_stopf; auto|]. split; [apply sinv_stopf; auto|]. split; [exact Logic.I|].
    eapply qe_same_trace with (s := s) (c := CMid); try reflexivity; auto.
  - intros s l (T&I&B&Q) Hb. split; [apply tinv_fork; auto|]. split; [apply sinv_fork; auto|]. split; [exact Logic.I|].
    intros Hl x. change (lost (snap (loop_fork s l))) with (lost s) in Hl. specialize (Q Hl x).
    change (tr (snap (loop_fork s l))) with
      (ESnap (map (disp_of (loop_fork s l)) watch_sigs) (map h_active (hs (loop_fork s l))) ::
       EFork l (filter (fun h => h_loop (get s h) =? l) (seq 0 (length (hs s)))) :: tr s).
    rewrite delivered_snap, consumed_snap.
    rewrite (psig_frame (loop_fork s l) (snap (loop_fork s l))) by reflexivity.
    cbn [delivered consumed inflight]. rewrite fork_ids_spec. rewrite psig_fork by (auto; apply I).
    simpl in Q. destruct ((x <? length (hs s)) && (h_loop (get s x) =? l)); [reflexivity | exact Q].
  - split; [apply tinv_init|]. split; [apply sinv_init0|]. split; [exact Logic.I|]. intros _ h. reflexivity.
  - reflexivity.
Qed.

(* C13_every_watcher_once on whole traces.  For every script whose run never found a pipe full:
   the signals delivered to h (in order) are exactly the signals of the messages its loop has
   consumed (in order) followed by the signals of its messages still in flight (in order):
   the k-th delivery is paired with the k-th consumption, every delivery is consumed at most
   once, nothing is consumed that was not delivered. *)
Theorem every_watcher_once_trace fx fs fr beh fuel c ops h :
  let s := run fx fs fr beh fuel (init c) ops in
  lost s = 0 ->
  rev (delivered (tr s) h) = rev (consumed (tr s) h) ++ psig s h.
Proof.
  cbv zeta. intros Hl. destruct (pe_run fx fs fr beh fuel c ops) as (_&_&_&Q).
  rewrite (Q Hl h). simpl. rewrite rev_app_distr, rev_involutive. reflexivity.
Qed.

(* ... and a consumption is a callback exactly when the handle still watches the signal of the
   message at that moment (dispatch_one_callback); the callbacks on h are the ECb part of
   [consumed], so there is no callback without a delivery *)
(* callbacks on h since the process last became the child of a fork (all of them when it never did) *)
Fixpoint cbs_since_fork (t : list event) (h : nat) : nat :=
  match t with
  | [] => 0
  | ECb h' _ :: t' => (if h' =? h then 1 else 0) + cbs_since_fork t' h
  | EFork _ ids :: t' => if existsb (Nat.eqb h) ids then 0 else cbs_since_fork t' h
  | _ :: t' => cbs_since_fork t' h
  end.

Lemma cbs_since_fork_count t h : (forall l ids, ~ In (EFork l ids) t) -> cbs_since_fork t h = count_cb h t.
Proof.
  induction t as [|e t IH]; intros N; simpl; auto.
  assert (N' : forall l ids, ~ In (EFork l ids) t) by (intros l ids H; apply (N l ids); simpl; auto).
  destruct e; simpl; auto. exfalso. eapply N. simpl; eauto.
Qed.

Theorem callbacks_among_deliveries fx fs fr beh fuel c ops h :
  let s := run fx fs fr beh fuel (init c) ops in
  lost s = 0 ->
  cbs_since_fork (tr s) h <= length (consumed (tr s) h) /\
  length (consumed (tr s) h) + length (psig s h) = length (delivered (tr s) h).
Proof.
  cbv zeta. intros Hl. split.
  - generalize (tr (run fx fs fr beh fuel (init c) ops)). induction l as [|e l IH]; simpl; auto.
    destruct e; simpl; auto.
    + destruct (_ =? h); simpl; lia.
    + destruct (_ =? h); simpl; lia.
    + destruct (existsb _ _); simpl; lia.
  - pose proof (every_watcher_once_trace fx fs fr beh fuel c ops h Hl) as E. cbv zeta in E.
    apply (f_equal (@length nat)) in E. rewrite app_length, !rev_length in E. lia.
Qed.

(* a message is dropped (consumed without callback) only when its handle does not watch the
   signal of the message at that moment *)
Theorem drop_only_when_not_watching fx fs fr beh s h sig r :
  In (EDrop h sig) (tr (process_msg fx fs fr beh s (h, sig) r)) -> ~ In (EDrop h sig) (tr s) ->
  sig <> h_signum (get s h).
Proof.
  unfold process_msg. cbn [fst snd]. destruct (Nat.eqb_spec sig (h_signum (get s h))) as [E|E]; auto.
  intros Hin Hn. exfalso. apply Hn.
  destruct (after_cb_spec fr (log (script fx (cb_enter s h sig) (beh (cbcount s))) (ECbEnd h)) h sig r) as (_&_&_&_&f5&_).
  cbv zeta in f5. rewrite f5 in Hin. cbn [log tr with_tr] in Hin. destruct Hin as [X|Hin]; [discriminate|].
  revert Hin. generalize (beh (cbcount s)).
  assert (G : forall os st, In (EDrop h sig) (tr (script fx st os)) -> In (EDrop h sig) (tr st)).
  { induction os as [|o os IH]; intros st; simpl; auto. intros H. apply IH in H.
    unfold api_snap in H. cbn [snap log tr with_tr] in H. destruct H as [X|H]; [discriminate|].
    destruct (api_tr_kind fx st o) as (e&Ee&_). destruct (api_tr fx st o) as (e'&Ee'&_).
    rewrite Ee in H. destruct H as [X|H]; auto.
    exfalso. subst e. clear Ee'. revert Ee. destruct o; cbn [api];
      repeat match goal with
             | |- context [if ?b then _ else _] => destruct b
             | |- context [let '(_, _) := ?p in _] => destruct p
             end; cbn [log tr with_tr]; intros Ee; inversion Ee. }
  intros os Hin. apply G in Hin. unfold cb_enter in Hin. cbn [snap log tr with_tr with_cbcount] in Hin.
  destruct Hin as [X|[X|Hin]]; try discriminate. exact Hin.
Qed.

(* ------------------------------------------------------------------ *)
(* 13. fork() + uv_loop_fork(), uv_stop(), re-use of a closed handle     *)
(* ------------------------------------------------------------------ *)
Lemma run_app fx fs fr beh fuel a : forall s b,
  run fx fs fr beh fuel s (a ++ b) = run fx fs fr beh fuel (run fx fs fr beh fuel s a) b.
Proof. induction a as [|o a IH]; intros; simpl; auto. Qed.

(* what uv_loop_fork does in the child: a new, empty signal pipe for the loop, the counters of
   the loop's handles zeroed; the tree, the dispositions, what every handle watches and the other
   loops' pipes are inherited unchanged *)
Theorem fork_fresh_pipe fx fs fr beh fuel s l :
  let s' := top fx fs fr beh fuel s (OFork l) in
  pipe_of s' l = [] /\
  (forall l', l' <> l -> pipe_of s' l' = pipe_of s l') /\
  tree s' = tree s /\ disp_of s' = disp_of s /\ length (hs s') = length (hs s) /\
  (forall h, h_signum (get s' h) = h_signum (get s h) /\ h_oneshot (get s' h) = h_oneshot (get s h) /\
             h_active (get s' h) = h_active (get s h) /\ h_loop (get s' h) = h_loop (get s h) /\
             h_closing (get s' h) = h_closing (get s h) /\ h_closed (get s' h) = h_closed (get s h)) /\
  (forall h, h_loop (get s h) = l -> h_caught (get s' h) = 0 /\ h_dispatched (get s' h) = 0) /\
  (forall h, h_loop (get s h) <> l ->
             h_caught (get s' h) = h_caught (get s h) /\ h_dispatched (get s' h) = h_dispatched (get s h)).
Proof.
  cbv zeta. cbn [top].
  assert (G : forall h, get (snap (loop_fork s l)) h = get (loop_fork s l) h) by reflexivity.
  split; [change (pipe_of (loop_fork s l) l = []); rewrite fork_pipe, Nat.eqb_refl; reflexivity|].
  split.
  { intros l' Hn. change (pipe_of (loop_fork s l) l' = pipe_of s l'). rewrite fork_pipe.
    destruct (Nat.eqb_spec l' l); [contradiction|reflexivity]. }
  split; [reflexivity|]. split; [reflexivity|].
  split; [change (length (hs (loop_fork s l)) = length (hs s)); apply fork_len|].
  split; [|split].
  - intros h. rewrite G. destruct (fork_fields s l h) as (a&b&c&d&e&f&_). cbv zeta in *. repeat split; auto.
  - intros h E. rewrite G. destruct (fork_fields s l h) as (_&_&_&_&_&_&_&_&b). apply b; auto.
  - intros h E. rewrite G. destruct (fork_fields s l h) as (_&_&_&_&_&_&_&a&_). apply a; auto.
Qed.

(* ... so in the child every handle of the loop starts afresh: nothing delivered, nothing consumed,
   nothing in flight; from here on C13_every_watcher_once pairs the child's own deliveries with the
   child's own callbacks (its statement covers runs that contain OFork) *)
Theorem fork_child_starts_afresh fx fs fr beh fuel c ops l h :
  let s := run fx fs fr beh fuel (init c) ops in
  let s' := top fx fs fr beh fuel s (OFork l) in
  h < length (hs s) -> h_loop (get s h) = l ->
  delivered (tr s') h = [] /\ consumed (tr s') h = [] /\ psig s' h = [] /\ pending s' h = 0.
Proof.
  cbv zeta. intros Hl El.
  destruct (sinv_run fx fs fr beh fuel c ops) as [C K].
  assert (Hb : batch (run fx fs fr beh fuel (init c) ops) = []).
  { apply (rule_run fx fs fr beh (fun _ _ => True)) with (Rq := fun _ _ => True); auto. }
  set (s := run fx fs fr beh fuel (init c) ops) in *.
  cbn [top].
  change (tr (snap (loop_fork s l))) with
    (ESnap (map (disp_of (loop_fork s l)) watch_sigs) (map h_active (hs (loop_fork s l))) ::
     EFork l (filter (fun h => h_loop (get s h) =? l) (seq 0 (length (hs s)))) :: tr s).
  rewrite delivered_snap, consumed_snap. cbn [delivered consumed]. rewrite fork_ids_spec.
  apply Nat.ltb_lt in Hl. rewrite Hl, El, Nat.eqb_refl. simpl.
  split; [reflexivity|]. split; [reflexivity|].
  split.
  - rewrite (psig_frame (loop_fork s l) (snap (loop_fork s l))) by reflexivity.
    rewrite psig_fork by auto. rewrite Hl, El, Nat.eqb_refl. reflexivity.
  - change (pending (snap (loop_fork s l)) h) with (pending (loop_fork s l) h).
    rewrite fork_pending by auto. rewrite El, Nat.eqb_refl. reflexivity.
Qed.

(* the memory of a closed handle may be used again: nothing that names it is left anywhere, so
   the new handle can get no callback for a signal raised before it was started *)
Lemma cnt_zero_filter h (l : list msg) : cnt h l = 0 -> @filter msg (fun m : nat * nat => fst m =? h) l = [].
Proof.
  induction l as [|m l IH]; simpl; auto. destruct (fst m =? h); simpl; [discriminate|auto].
Qed.

Theorem closed_handle_unreferenced fx fs fr beh fuel c ops h :
  let s := run fx fs fr beh fuel (init c) ops in
  h_closed (get s h) = true ->
  psig s h = [] /\ (forall l m, In m (pipe_of s l) -> fst m <> h) /\ (forall m, In m (batch s) -> fst m <> h) /\
  ~ In h (tree s).
Proof.
  cbv zeta. intros Hc. destruct (sinv_run fx fs fr beh fuel c ops) as [C K].
  set (s := run fx fs fr beh fuel (init c) ops) in *.
  pose proof (s_closed0 _ C h Hc) as P0. unfold pending in P0.
  assert (Pp : cnt h (pipe_of s (h_loop (get s h))) = 0) by lia.
  assert (Pb : cnt h (batch s) = 0) by lia.
  assert (Nz : forall q m, cnt h q = 0 -> In m q -> fst m <> h).
  { induction q as [|x q IH]; simpl; [contradiction|]. intros m Hz [<-|Hm].
    - destruct (Nat.eqb_spec (fst x) h); [lia|auto].
    - apply IH; auto. destruct (fst x =? h); lia. }
  split; [|split; [|split]].
  - unfold psig. rewrite filter_app.
    rewrite (cnt_zero_filter h (batch s) Pb), (cnt_zero_filter h (pipe_of s (h_loop (get s h))) Pp). reflexivity || (simpl; reflexivity).
  - intros l m Hm E. destruct (s_pipe _ C l m Hm) as [a _]. rewrite E in a. subst l.
    exact (Nz _ m Pp Hm E).
  - intros m Hm. exact (Nz _ m Pb Hm).
  - rewrite (s_tree _ C). pose proof (s_closed _ C h Hc) as Hcl. rewrite (K h Hcl). intuition.
Qed.

(* uv_stop() has no influence on when close_cb runs: C13_close_cb_after_dispatch holds for every
   run, with uv_stop() anywhere (the model of the code as it is does not consult stop_flag in
   uv__finish_close; a tree that does is caught by the correspondence check).  Witness run: close +
   uv_stop in the iteration that caught a signal for the handle -> the close is deferred, the
   re-init is refused until close_cb has run, the new watcher gets no stale callback *)
Theorem close_stop_reuse_behaviour :
  let beh := fun k => match k with 0 => [ORaise 10; OClose 0; OUvStop 0] | _ => [] end in
  let s1 := run true true true beh 8 (init 16)
              [OInit 0; OInit 0; OStart 0 10; OStart 1 12; ORaise 12; ORun 0] in
  let s2 := run true true true beh 8 (init 16)
              [OInit 0; OInit 0; OStart 0 10; OStart 1 12; ORaise 12; ORun 0; ORun 0; OReinit 0; OStart 0 10; ORun 0] in
  (h_closed (get s1 0) = false /\ pending s1 0 = 1 /\ stopf s1 0 = false) /\
  (count_cb 0 (tr s2) = 0 /\ h_signum (get s2 0) = 10 /\ h_active (get s2 0) = true /\ pending s2 0 = 0 /\
   In (ECloseCb 0) (tr s2)).
Proof. vm_compute. intuition. Qed.

(* ------------------------------------------------------------------ *)
(* 14. the critical sections: block, then lock                          *)
(* ------------------------------------------------------------------ *)
Definition tk (b : bool) : nat := if b then 1 else 0.

Fixpoint holders (l : list cthread) : nat :=
  match l with
  | [] => 0
  | x :: r => tk (c_holds x) + holders r
  end.

(* per thread, for the code as it is: where the thread is tells whether it blocks signals and
   whether it holds the token; the handler only ever interrupts a thread between two calls *)
Definition cwf (x : cthread) : Prop :=
  match c_pc x with
  | CIdle => c_blocked x = false /\ c_holds x = false
  | CEntry1 => c_blocked x = true /\ c_holds x = false
  | CIn => c_blocked x = true /\ c_holds x = true
  | CBodyDone => c_blocked x = true /\ c_holds x = true
  | CUnlocked => c_blocked x = true /\ c_holds x = false
  | CH1 => c_blocked x = true /\ c_holds x = false /\ c_saved x = CIdle
  | CH2 => c_blocked x = true /\ c_holds x = true /\ c_saved x = CIdle
  | CH3 => c_blocked x = true /\ c_holds x = false /\ c_saved x = CIdle
  end.

Definition CInv (st : csys) : Prop :=
  holders (c_thr st) + tk (c_token st) = 1 /\ Forall cwf (c_thr st).

Lemma holders_upd t f l : t < length l ->
  holders (upd t f l) + tk (c_holds (nth t l ct_dflt)) = holders l + tk (c_holds (f (nth t l ct_dflt))).
Proof.
  revert t; induction l as [|x l IH]; intros [|t] H; simpl in *; try lia.
  specialize (IH t ltac:(lia)). lia.
Qed.

Lemma holders_ge t l : t < length l -> tk (c_holds (nth t l ct_dflt)) <= holders l.
Proof.
  revert t; induction l as [|x l IH]; intros [|t] H; simpl in *; try lia.
  specialize (IH t ltac:(lia)). lia.
Qed.

Lemma Forall_upd {A} (P : A -> Prop) t f l d : Forall P l -> (t < length l -> P (f (nth t l d))) -> Forall P (upd t f l).
Proof.
  revert t; induction l as [|x l IH]; intros [|t] H Hf; simpl; auto.
  - inversion H; subst. constructor; auto. apply Hf. simpl. lia.
  - inversion H; subst. constructor; auto. apply IH; auto. intros. apply Hf. simpl. lia.
Qed.

Lemma Forall_nth_d {A} (P : A -> Prop) t l d : Forall P l -> t < length l -> P (nth t l d).
Proof. intros H Hl. rewrite Forall_forall in H. apply H. apply nth_In. auto. Qed.

Lemma cstep_thread_ok tok x :
  cwf x -> (c_holds x = true -> tok = false) ->
  let r := cstep_thread true tok x in
  cwf (snd r) /\ tk (fst r) + tk (c_holds (snd r)) = tk tok + tk (c_holds x).
Proof.
  intros W Ht. cbv zeta. unfold cstep_thread, cwf in *.
  destruct (c_pc x) eqn:Ep; simpl.
  - destruct (c_calls x); simpl; rewrite ?Ep; auto. destruct W as [a b]. rewrite b. auto.
  - destruct W as [a b]. destruct tok; simpl; rewrite ?Ep; auto. rewrite b. simpl. auto.
  - destruct W as [a b]. auto.
  - destruct W as [a b]. rewrite (Ht b), b. simpl. auto.
  - destruct W as [a b]. rewrite b. auto.
  - destruct W as (a&b&c). destruct tok; simpl; rewrite ?Ep; auto. rewrite b. simpl. auto.
  - destruct W as (a&b&c). rewrite (Ht b), b. simpl. auto.
  - destruct W as (a&b&c). rewrite c, b. simpl. auto.
Qed.

Lemma cinv_step st c : CInv st -> CInv (cstep true st c).
Proof.
  intros [Hs Hw]. destruct c as [t|t]; simpl.
  - destruct (Nat.ltb_spec t (length (c_thr st))) as [Hl|Hl]; [|split; auto].
    pose proof (Forall_nth_d cwf t _ ct_dflt Hw Hl) as Wx.
    pose proof (holders_ge t _ Hl) as Hg.
    assert (Ht : c_holds (nth t (c_thr st) ct_dflt) = true -> c_token st = false).
    { intros E. rewrite E in Hg. simpl in Hg. destruct (c_token st); simpl in Hs; auto. lia. }
    destruct (cstep_thread_ok (c_token st) _ Wx Ht) as [W' E'].
    destruct (cstep_thread true (c_token st) (nth t (c_thr st) ct_dflt)) as [tok x'] eqn:Es. simpl in *.
    split.
    + pose proof (holders_upd t (fun _ => x') (c_thr st) Hl). simpl in *. lia.
    + apply Forall_upd with (d := ct_dflt); auto.
  - split.
    + simpl. destruct (Nat.ltb_spec t (length (c_thr st))) as [Hl|Hl].
      * pose proof (holders_upd t csignal_thread (c_thr st) Hl) as U.
        assert (c_holds (csignal_thread (nth t (c_thr st) ct_dflt)) = c_holds (nth t (c_thr st) ct_dflt)).
        { unfold csignal_thread. destruct (c_blocked _); reflexivity. }
        rewrite H in U. lia.
      * rewrite upd_oob by auto. auto.
    + apply Forall_upd with (d := ct_dflt); auto. intros Hl.
      pose proof (Forall_nth_d cwf t _ ct_dflt Hw Hl) as Wx.
      unfold csignal_thread. destruct (c_blocked (nth t (c_thr st) ct_dflt)) eqn:Eb; auto.
      (* not blocked: the thread is between two calls and holds nothing *)
      unfold cwf in *. destruct (c_pc (nth t (c_thr st) ct_dflt)) eqn:Ep; simpl;
        try (destruct Wx as [a _]; congruence); try (destruct Wx as (a&_); congruence).
      destruct Wx as [a b]. auto.
Qed.

Lemma cinv_init n calls : CInv (cinit n calls).
Proof.
  unfold cinit, CInv. simpl. split.
  - assert (Z : holders (repeat (mkCT CIdle CIdle false false calls) n) = 0) by (induction n; simpl; auto).
    rewrite Z. reflexivity.
  - apply Forall_forall. intros x Hx. apply repeat_spec in Hx. subst. unfold cwf. simpl. auto.
Qed.

Theorem cinv_run n calls cs : CInv (crun true (cinit n calls) cs).
Proof.
  generalize (cinv_init n calls). generalize (cinit n calls).
  induction cs as [|c cs IH]; intros st H; simpl; auto. apply IH. apply cinv_step; auto.
Qed.

(* block, then lock: for any number of threads, API calls, signals and any schedule -
   (1) the lock is held by at most one thread, (2) only with every signal blocked in that thread,
   (3) so a handler never starts in a thread that holds the lock: when it asks for the lock
       (CH1) its thread holds nothing and was interrupted between two calls *)
Theorem handler_never_in_lock_holder n calls cs :
  let st := crun true (cinit n calls) cs in
  holders (c_thr st) <= 1 /\
  (forall x, In x (c_thr st) -> c_holds x = true -> c_blocked x = true) /\
  (forall x, In x (c_thr st) -> c_pc x = CH1 -> c_holds x = false /\ c_saved x = CIdle).
Proof.
  cbv zeta. destruct (cinv_run n calls cs) as [Hs Hw]. rewrite Forall_forall in Hw. split; [lia|]. split.
  - intros x Hx Hh. specialize (Hw x Hx). unfold cwf in Hw.
    destruct (c_pc x); intuition congruence.
  - intros x Hx Hp. specialize (Hw x Hx). unfold cwf in Hw. rewrite Hp in Hw. tauto.
Qed.

(* lock, then block: one thread, one call, one signal in the window: the handler waits for the
   token that its own thread holds - no step changes the state any more *)
Theorem lock_before_block_deadlocks :
  let st := crun false (cinit 1 1) [CRun 0; CSignal 0] in
  c_token st = false /\
  (exists x, c_thr st = [x] /\ c_pc x = CH1 /\ c_holds x = true /\ c_calls x = 1) /\
  (forall c, cstep false st c = st).
Proof.
  cbv zeta. vm_compute. split; [reflexivity|]. split.
  - eexists. repeat split.
  - intros [[|t]|[|t]]; try reflexivity; destruct t; reflexivity.
Qed.
