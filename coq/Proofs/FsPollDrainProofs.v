(* C17, fs_poll: close / free / uv_loop_close at trace level for the code as it is
   (fx = true): the invariant R of every reachable state, and the argument that
   after closing every handle two loop iterations finish everything. *)
From UV Require Import Lib.Base Model.FsPoll Proofs.FsPollProofs.

Local Open Scope Z_scope.

Definition live (s : st) (c : nat) : Prop := (c < length (cs s))%nat /\ c_freed (getc s c) = false.

(* where a context that is not freed is waiting: a stat queued or completed, a detached
   completion list [ext], the closing list or its detached part [extc], an armed timer, or it
   is the context whose poll_cb is running ([hole]) *)
Definition J (ext : list nat) (extc : list citem) (hole : option nat) (s : st) (c : nat) : Prop :=
  In c (inflight s) \/ In c (map fst (done s)) \/ In c ext \/
  In (CTimer c) (closingq s) \/ In (CTimer c) extc \/ armed s c \/ hole = Some c.

Definition I8 ext extc hole s := forall c, live s c -> J ext extc hole s c.
Definition NDC (s : st) := forall h, NoDup (h_chain (geth s h)).
Definition CL (s : st) := forall h c, In c (h_chain (geth s h)) -> c_freed (getc s c) = false.
Definition pend (s : st) (h : nat) : Prop :=
  (h < length (hs s))%nat /\ h_closing (geth s h) = true /\ h_closed (geth s h) = false /\
  h_chain (geth s h) = [].
Definition G2 (extc : list citem) (s : st) :=
  forall h, pend s h -> In (CHandle h) (closingq s) \/ In (CHandle h) extc.

Definition R4 ext extc hole s := NDC s /\ CL s /\ I8 ext extc hole s /\ G2 extc s.
Definition R ext extc hole s := SI s /\ R4 ext extc hole s.

Lemma R4_same ext extc hole s s' :
  hs s' = hs s -> cs s' = cs s -> inflight s' = inflight s -> done s' = done s ->
  closingq s' = closingq s -> R4 ext extc hole s -> R4 ext extc hole s'.
Proof.
  intros Eh Ec Ei Ed Eq (N & C & I & G).
  unfold R4, NDC, CL, I8, G2, live, J, pend, armed, getc, geth in *.
  rewrite Eh, Ec, Ei, Ed, Eq. auto.
Qed.

(* a context update that touches neither freed nor armed-ness *)
Lemma R4_upd_c_inert ext extc hole s c f :
  (forall x, c_freed (f x) = c_freed x) ->
  (forall x, timer_active (c_timer (f x)) = timer_active (c_timer x)) ->
  R4 ext extc hole s -> R4 ext extc hole (upd_c s c f).
Proof.
  intros Ff Ft (N & C & I & G).
  assert (Gf : forall c', c_freed (getc (upd_c s c f) c') = c_freed (getc s c')).
  { intros c'. rewrite getc_upd_c. destruct (Nat.eqb c c' && Nat.ltb c (length (cs s))); auto. }
  assert (Ga : forall c', armed (upd_c s c f) c' <-> armed s c').
  { intros c'. unfold armed. rewrite getc_upd_c.
    destruct (Nat.eqb c c' && Nat.ltb c (length (cs s))); [rewrite Ft|]; tauto. }
  split; [exact N|]. split.
  - intros h c' I'. rewrite Gf. apply (C h c' I').
  - split; [|exact G].
    intros c' [L F]. rewrite len_cs_upd_c in L. rewrite Gf in F.
    destruct (I c' (conj L F)) as [X|[X|[X|[X|[X|[X|X]]]]]]; unfold J; auto 10.
    right; right; right; right; right; left. apply Ga; auto.
Qed.

Lemma freed_close_timer s c c' : c_freed (getc (close_timer s c) c') = c_freed (getc s c').
Proof.
  change (getc (close_timer s c) c') with (getc (upd_c s c (c_set_timer TClosing)) c').
  rewrite getc_upd_c. destruct (Nat.eqb c c' && Nat.ltb c (length (cs s))); auto.
Qed.

Lemma R4_close_timer ext extc hole s c :
  R4 ext extc hole s ->
  R4 ext extc (match hole with Some c' => if Nat.eqb c c' then None else hole | None => None end)
     (close_timer s c).
Proof.
  intros (N & C & I & G).
  split; [exact N|]. split.
  - intros h c' I'. rewrite freed_close_timer. apply (C h c' I').
  - split.
    + intros c' [L F]. rewrite close_timer_len in L. rewrite freed_close_timer in F.
      unfold J. cbn [close_timer closingq set_closingq inflight done].
      destruct (Nat.eq_dec c c') as [->|Ne]; [right; right; right; left; left; reflexivity|].
      destruct (I c' (conj L F)) as [X|[X|[X|[X|[X|[X|X]]]]]]; auto 10.
      * right; right; right; left. right. exact X.
      * right; right; right; right; right; left. unfold armed in *.
        change (getc (close_timer s c) c') with (getc (upd_c s c (c_set_timer TClosing)) c').
        rewrite getc_upd_c. destruct (Nat.eqb_spec c c'); [congruence|]. exact X.
      * right; right; right; right; right; right. subst hole.
        destruct (Nat.eqb_spec c c'); [congruence|reflexivity].
    + intros h P. destruct (G h P) as [X|X]; [left; right; exact X|right; exact X].
Qed.

Lemma R4_close_timer_nohole ext extc s c : R4 ext extc None s -> R4 ext extc None (close_timer s c).
Proof. intros H. exact (R4_close_timer ext extc None s c H). Qed.

Lemma R4_close_timer_hole ext extc s c : R4 ext extc (Some c) s -> R4 ext extc None (close_timer s c).
Proof.
  intros H. pose proof (R4_close_timer ext extc (Some c) s c H) as X.
  cbv beta iota in X. rewrite Nat.eqb_refl in X. exact X.
Qed.

(* forgetting the hole is sound when the context is waiting somewhere anyway; here: it gets armed *)
Lemma R4_arm ext extc s c due seq v :
  R4 ext extc (Some c) s -> R4 ext extc None (set_tctr (upd_c s c (c_set_timer (TArmed due seq))) v).
Proof.
  intros (N & C & I & G).
  set (s' := set_tctr (upd_c s c (c_set_timer (TArmed due seq))) v).
  assert (Gc : forall c', getc s' c' = if Nat.eqb c c' && Nat.ltb c (length (cs s))
                                       then c_set_timer (TArmed due seq) (getc s c') else getc s c').
  { intros c'. change (getc s' c') with (getc (upd_c s c (c_set_timer (TArmed due seq))) c').
    apply getc_upd_c. }
  assert (Gf : forall c', c_freed (getc s' c') = c_freed (getc s c')).
  { intros c'. rewrite Gc. destruct (Nat.eqb c c' && Nat.ltb c (length (cs s))); auto. }
  split; [exact N|]. split.
  - intros h c' I'. rewrite Gf. apply (C h c' I').
  - split; [|exact G].
    intros c' [L F]. change (length (cs s')) with (length (cs (upd_c s c (c_set_timer (TArmed due seq))))) in L.
    rewrite len_cs_upd_c in L. rewrite Gf in F.
    unfold J. change (inflight s') with (inflight s). change (done s') with (done s).
    change (closingq s') with (closingq s).
    destruct (Nat.eq_dec c c') as [->|Ne].
    + right; right; right; right; right; left. unfold armed. rewrite Gc, Nat.eqb_refl.
      destruct (Nat.ltb_spec c' (length (cs s))); [reflexivity|lia].
    + destruct (I c' (conj L F)) as [X|[X|[X|[X|[X|[X|X]]]]]]; auto 10.
      * right; right; right; right; right; left. unfold armed in *. rewrite Gc.
        destruct (Nat.eqb_spec c c'); [congruence|]. exact X.
      * congruence.
Qed.

(* a handle update that keeps chain, closing, closed *)
Lemma R4_upd_h_flags ext extc hole s h f :
  (forall x, h_chain (f x) = h_chain x /\ h_closing (f x) = h_closing x /\ h_closed (f x) = h_closed x) ->
  R4 ext extc hole s -> R4 ext extc hole (upd_h s h f).
Proof.
  intros F (N & C & I & G).
  assert (E : forall h', h_chain (geth (upd_h s h f) h') = h_chain (geth s h') /\
                         h_closing (geth (upd_h s h f) h') = h_closing (geth s h') /\
                         h_closed (geth (upd_h s h f) h') = h_closed (geth s h')).
  { intros h'. rewrite geth_upd_h. destruct (Nat.eqb h h' && Nat.ltb h (length (hs s))); auto. }
  split; [|split; [|split]].
  - intros h'. destruct (E h') as (E1 & _). rewrite E1. apply N.
  - intros h' c I'. destruct (E h') as (E1 & _). rewrite E1 in I'. apply (C h' c I').
  - exact I.
  - intros h' (L & P1 & P2 & P3). rewrite len_hs_upd_h in L.
    destruct (E h') as (E1 & E2 & E3). rewrite E1 in P3. rewrite E2 in P1. rewrite E3 in P2.
    apply (G h'). repeat split; auto.
Qed.

Lemma R4_push_chandle ext extc hole s h :
  R4 ext extc hole s -> R4 ext extc hole (set_closingq s (CHandle h :: closingq s)).
Proof.
  intros (N & C & I & G). split; [exact N|]. split; [exact C|]. split.
  - intros c L. destruct (I c L) as [X|[X|[X|[X|[X|[X|X]]]]]]; unfold J; cbn [closingq set_closingq]; auto 10.
    right; right; right; left; right; exact X.
  - intros h' P. destruct (G h' P) as [X|X]; [left; right; exact X|right; exact X].
Qed.

Lemma R4_hole_weak ext extc hole hole' s :
  hole' = None \/ hole' = hole -> R4 ext extc hole' s -> R4 ext extc hole s.
Proof.
  intros E (N & C & I & G). split; [exact N|]. split; [exact C|]. split; [|exact G].
  intros c L. destruct (I c L) as [X|[X|[X|[X|[X|[X|X]]]]]]; unfold J; auto 10.
  destruct E as [E|E]; [congruence|]. subst. auto 10.
Qed.

Lemma R4_drop_extc ext extc hole s h :
  (pend s h -> In (CHandle h) (closingq s) \/ In (CHandle h) extc) ->
  R4 ext (CHandle h :: extc) hole s -> R4 ext extc hole s.
Proof.
  intros P (N & C & I & G). split; [exact N|]. split; [exact C|]. split.
  - intros c L. destruct (I c L) as [X|[X|[X|[X|[X|[X|X]]]]]]; unfold J; auto 10.
    destruct X as [X|X]; [discriminate|auto 10].
  - intros h' P'. destruct (G h' P') as [X|[X|X]]; auto.
    injection X as <-. auto.
Qed.

Lemma R4_set_closing ext extc hole s h :
  R4 ext extc hole s -> R4 ext (CHandle h :: extc) hole (upd_h s h h_set_closing).
Proof.
  intros (N & C & I & G).
  assert (E : forall h', h_chain (geth (upd_h s h h_set_closing) h') = h_chain (geth s h') /\
                         h_closed (geth (upd_h s h h_set_closing) h') = h_closed (geth s h') /\
                         (h' <> h -> h_closing (geth (upd_h s h h_set_closing) h') = h_closing (geth s h'))).
  { intros h'. rewrite geth_upd_h. destruct (Nat.eqb_spec h h') as [->|Ne]; cbn [andb].
    - destruct (Nat.ltb h' (length (hs s))); repeat split; auto; congruence.
    - repeat split; auto. }
  split; [|split; [|split]].
  - intros h'. destruct (E h') as (E1 & _). rewrite E1. apply N.
  - intros h' c I'. destruct (E h') as (E1 & _). rewrite E1 in I'. apply (C h' c I').
  - intros c L. destruct (I c L) as [X|[X|[X|[X|[X|[X|X]]]]]]; unfold J; auto 10.
    right; right; right; right; left. right. exact X.
  - intros h' (L & P1 & P2 & P3). rewrite len_hs_upd_h in L.
    destruct (Nat.eq_dec h' h) as [->|Ne]; [right; left; reflexivity|].
    destruct (E h') as (E1 & E2 & E3). rewrite E1 in P3. rewrite E2 in P2. rewrite (E3 Ne) in P1.
    destruct (G h') as [X|X]; [repeat split; auto|left; exact X|right; right; exact X].
Qed.

Lemma R4_do_stop ext extc hole s h : R4 ext extc hole s -> R4 ext extc hole (do_stop s h).
Proof.
  intros H. unfold do_stop. destruct (negb (h_active (geth s h))); auto.
  apply R4_upd_h_flags; [intros x; repeat split; reflexivity|].
  destruct (h_chain (geth s h)) as [|c0 l]; auto.
  destruct (timer_active (c_timer (getc s c0))); auto.
  eapply R4_hole_weak; [|apply R4_close_timer; exact H].
  destruct hole as [c'|]; auto. destruct (Nat.eqb c0 c'); auto.
Qed.

Lemma R4_do_close ext extc hole s h : R4 ext extc hole s -> R4 ext extc hole (do_close s h).
Proof.
  intros H. unfold do_close.
  pose proof (R4_do_stop ext (CHandle h :: extc) hole _ h (R4_set_closing ext extc hole s h H)) as H1.
  set (s1 := do_stop (upd_h s h h_set_closing) h) in *.
  destruct (h_chain (geth s1 h)) eqn:Ch.
  - apply (R4_drop_extc _ _ _ _ h).
    + intros _. left. left. reflexivity.
    + apply R4_push_chandle. exact H1.
  - apply (R4_drop_extc _ _ _ _ h); [|exact H1].
    intros (_ & _ & _ & P). congruence.
Qed.

Lemma R4_init_handle ext extc hole s :
  R4 ext extc hole s -> R4 ext extc hole (set_hs s (hs s ++ [mkH false false false []])).
Proof.
  intros (N & C & I & G).
  set (s' := set_hs s (hs s ++ [mkH false false false []])).
  assert (E : forall h', geth s' h' = geth s h' \/
                         (h_chain (geth s' h') = [] /\ h_closing (geth s' h') = false)).
  { intros h'. unfold geth, s', set_hs. cbn [hs].
    destruct (Nat.lt_ge_cases h' (length (hs s))) as [L|L].
    - left. apply app_nth1; auto.
    - right. destruct (Nat.eq_dec h' (length (hs s))) as [->|Ne].
      + rewrite nth_middle. auto.
      + rewrite nth_overflow by (rewrite app_length; cbn; lia). auto. }
  split; [|split; [|split]].
  - intros h'. destruct (E h') as [E1|[E1 _]]; rewrite E1; [apply N|constructor].
  - intros h' c I'. destruct (E h') as [E1|[E1 _]]; rewrite E1 in I'; [apply (C h' c I')|destruct I'].
  - exact I.
  - intros h' (L & P1 & P2 & P3). destruct (E h') as [E1|[_ E2]]; [|congruence].
    rewrite E1 in *. apply (G h'). repeat split; auto.
    unfold geth in P1. destruct (Nat.lt_ge_cases h' (length (hs s))); auto.
    rewrite nth_overflow in P1 by auto. discriminate.
Qed.

Lemma R4_start_ok ext extc hole s h nc l1 :
  ChainOK s -> c_freed nc = false -> R4 ext extc hole s ->
  R4 ext extc hole
     (upd_h (set_inflight (set_hq (set_cs s (cs s ++ [nc])) l1) (inflight s ++ [length (cs s)])) h
            (fun x => h_set_active true (h_set_chain (length (cs s) :: h_chain x) x))).
Proof.
  intros CO Fn (N & C & I & G).
  set (c := length (cs s)).
  set (s' := upd_h _ h _).
  assert (Gc : forall c', (c' < c)%nat -> getc s' c' = getc s c').
  { intros c' L. unfold getc, s'. cbn [cs upd_h set_hs set_inflight set_hq set_cs]. apply app_nth1; auto. }
  assert (Gn : getc s' c = nc).
  { unfold getc, s'. cbn [cs upd_h set_hs set_inflight set_hq set_cs]. apply nth_middle. }
  assert (Gh : forall h', geth s' h' = if Nat.eqb h h' && Nat.ltb h (length (hs s))
                          then h_set_active true (h_set_chain (c :: h_chain (geth s h')) (geth s h'))
                          else geth s h').
  { intros h'. unfold s'. rewrite geth_upd_h. reflexivity. }
  split; [|split; [|split]].
  - intros h'. rewrite Gh. destruct (Nat.eqb h h' && Nat.ltb h (length (hs s))); [|apply N].
    cbn [h_set_active h_set_chain h_chain]. constructor; [|apply N].
    intros I'. destruct (CO h' c I') as [L _]. unfold c in L. lia.
  - intros h' c' I'. rewrite Gh in I'.
    assert (Old : In c' (h_chain (geth s h')) -> c_freed (getc s' c') = false).
    { intros I2. destruct (CO h' c' I2) as [L _]. rewrite Gc by exact L. apply (C h' c' I2). }
    destruct (Nat.eqb h h' && Nat.ltb h (length (hs s))); auto.
    cbn [h_set_active h_set_chain h_chain] in I'. destruct I' as [<-|I']; auto. rewrite Gn. exact Fn.
  - intros c' [L F]. unfold s' in L. cbn [cs upd_h set_hs set_inflight set_hq set_cs] in L.
    rewrite app_length in L. cbn in L. unfold J.
    change (inflight s') with (inflight s ++ [c]). change (done s') with (done s).
    change (closingq s') with (closingq s).
    destruct (Nat.eq_dec c' c) as [->|Ne]; [left; apply in_app_iff; right; left; reflexivity|].
    assert (L' : (c' < c)%nat) by (unfold c; lia).
    rewrite Gc in F by auto.
    destruct (I c' (conj L' F)) as [X|[X|[X|[X|[X|[X|X]]]]]]; auto 10.
    + left. apply in_app_iff. auto.
    + right; right; right; right; right; left. unfold armed. rewrite Gc by auto. exact X.
  - intros h' (L & P1 & P2 & P3). rewrite Gh in P1, P2, P3.
    unfold s' in L. rewrite len_hs_upd_h in L. change (closingq s') with (closingq s).
    destruct (Nat.eqb h h' && Nat.ltb h (length (hs s))); [cbn in P3; discriminate|].
    apply (G h'). repeat split; auto.
Qed.

Lemma R4_start_fail ext extc hole s nc :
  ChainOK s -> c_freed nc = true -> R4 ext extc hole s -> R4 ext extc hole (set_cs s (cs s ++ [nc])).
Proof.
  intros CO Fn (N & C & I & G).
  set (s' := set_cs s (cs s ++ [nc])).
  assert (Gc : forall c', (c' < length (cs s))%nat -> getc s' c' = getc s c').
  { intros c' L. apply getc_app; auto. }
  split; [exact N|]. split; [|split; [|exact G]].
  - intros h' c' I'. change (geth s' h') with (geth s h') in I'.
    destruct (CO h' c' I') as [L _]. rewrite Gc by auto. apply (C h' c' I').
  - intros c' [L F]. unfold s' in L. cbn [cs set_cs] in L. rewrite app_length in L. cbn in L.
    destruct (Nat.eq_dec c' (length (cs s))) as [->|Ne].
    + unfold getc, s', set_cs in F. cbn [cs] in F. rewrite nth_middle in F. congruence.
    + assert (L' : (c' < length (cs s))%nat) by lia. rewrite Gc in F by auto.
      destruct (I c' (conj L' F)) as [X|[X|[X|[X|[X|[X|X]]]]]]; unfold J; auto 10.
      right; right; right; right; right; left. unfold armed. rewrite Gc by auto. exact X.
Qed.

Lemma R4_do_start ext extc hole s h cb p iv fl :
  ChainOK s -> R4 ext extc hole s -> R4 ext extc hole (fst (do_start s h cb p iv fl)).
Proof.
  intros CO H. unfold do_start. destruct (h_active (geth s h)); [exact H|].
  destruct fl as [|[|[|[|fl]]]]; cbn [fst].
  - exact (R4_start_ok ext extc hole s h
             (c_set_inflight true (mkCtx h 0 (if iv =? 0 then 1 else iv) (now s) cb p zero_sb TIdle false false))
             (hq s ++ [length (cs s)]) CO eq_refl H).
  - exact H.
  - apply R4_start_fail; auto.
  - eapply R4_same; [| | | | |apply (R4_start_fail ext extc hole s); eauto]; reflexivity.
  - exact (R4_start_ok ext extc hole s h
             (c_set_inflight true (mkCtx h 0 (if iv =? 0 then 1 else iv) (now s) cb p zero_sb TIdle false false))
             (hq s ++ [length (cs s)]) CO eq_refl H).
Qed.

Lemma R_api ext extc hole s o : R ext extc hole s -> R ext extc hole (fst (api s o)).
Proof.
  intros [S H]. split; [apply SI_api; exact S|].
  destruct o; cbn [api fst]; auto.
  - apply R4_init_handle; auto.
  - destruct (valid s h && negb (h_closing (geth s h))); auto.
    pose proof (R4_do_start ext extc hole s h cb path interval fail (proj2 S) H) as X.
    destruct (do_start s h cb path interval fail); auto.
  - destruct (valid s h && negb (h_closed (geth s h))); cbn [fst]; auto. apply R4_do_stop; auto.
  - destruct (valid s h && negb (h_closing (geth s h))); cbn [fst]; auto. apply R4_do_close; auto.
  - cbn [fst]. apply (do_walk_inv (R4 ext extc hole)).
    + intros s0 h0 _ H0. apply R4_do_close; auto.
    + intros s0 l H0. eapply R4_same; [| | | | |exact H0]; reflexivity.
    + exact H.
Qed.

Lemma R_apis ext extc hole os : forall s, R ext extc hole s -> R ext extc hole (fst (apis s os)).
Proof.
  induction os as [|o os IH]; intros s H; cbn [apis]; auto.
  pose proof (R_api ext extc hole s o H) as X. destruct (api s o) as [s1 e1]. cbn [fst] in X.
  pose proof (IH s1 X) as Y. destruct (apis s1 os) as [s2 e2]. exact Y.
Qed.

Lemma R_user_cb ext extc hole s ev beh cnt :
  R ext extc hole s -> R ext extc hole (fst (fst (user_cb s ev beh cnt))).
Proof.
  intros H. unfold user_cb. pose proof (R_apis ext extc hole (beh cnt) s H) as X.
  destruct (apis s (beh cnt)); exact X.
Qed.

(* ---------------- poll_cb ---------------- *)
Lemma R4_ext_to_hole ext extc s c : R4 (c :: ext) extc None s -> R4 ext extc (Some c) s.
Proof.
  intros (N & C & I & G). split; [exact N|]. split; [exact C|]. split; [|exact G].
  intros c' L. destruct (I c' L) as [X|[X|[X|[X|[X|[X|X]]]]]]; unfold J; auto 10; [|discriminate].
  destruct X as [<-|X]; auto 10.
Qed.

Lemma R_mid ext extc hole s0 c res beh cnt :
  R ext extc hole s0 -> R ext extc hole (fst (fst (mid true s0 c res beh cnt))).
Proof.
  intros H. split; [apply SI_mid; apply H|].
  unfold mid.
  destruct (gone true s0 (c_parent (getc s0 c)) c); [apply H|].
  destruct res as [r sb].
  destruct (negb (r =? 0)).
  - destruct (negb (c_busy (getc s0 c) =? r)); [|apply H].
    pose proof (R_user_cb ext extc hole s0 (EPoll (c_parent (getc s0 c)) (c_cb (getc s0 c)) (c_path (getc s0 c)) r
                                     (c_sb (getc s0 c)) zero_sb) beh cnt H) as X.
    destruct (user_cb s0 _ beh cnt) as [[s' e] n]. cbn [fst] in *.
    apply R4_upd_c_inert; auto. apply X.
  - destruct (negb (c_busy (getc s0 c) =? 0) && _).
    + pose proof (R_user_cb ext extc hole s0 (EPoll (c_parent (getc s0 c)) (c_cb (getc s0 c)) (c_path (getc s0 c)) 0
                                       (c_sb (getc s0 c)) sb) beh cnt H) as X.
      destruct (user_cb s0 _ beh cnt) as [[s' e] n]. cbn [fst] in *.
      apply R4_upd_c_inert; auto. apply X.
    + cbn [fst]. apply R4_upd_c_inert; auto. apply H.
Qed.

Lemma R_poll_cb ext extc s c res beh cnt :
  R (c :: ext) extc None s -> R ext extc None (fst (fst (poll_cb true s c res beh cnt))).
Proof.
  intros [S H]. split; [apply SI_poll_cb; exact S|].
  rewrite poll_cb_split. cbv zeta.
  set (s0 := upd_c s c (c_set_inflight false)).
  assert (H0 : R ext extc (Some c) s0).
  { split; [apply SI_upd_c; auto|]. apply R4_ext_to_hole. apply R4_upd_c_inert; auto. }
  pose proof (R_mid ext extc (Some c) s0 c res beh cnt H0) as [_ X].
  destruct (mid true s0 c res beh cnt) as [[s1 ev] n]. cbn [fst] in *.
  unfold out_part. destruct (gone true s1 (c_parent (getc s0 c)) c).
  - apply R4_close_timer_hole. exact X.
  - apply R4_arm. exact X.
Qed.

Lemma R_work_done extc l : forall s beh cnt,
  R (map fst l) extc None s -> R [] extc None (fst (fst (work_done true l s beh cnt))).
Proof.
  induction l as [|[c r] l IH]; intros s beh cnt H; cbn [work_done]; auto.
  cbn [map fst] in H.
  pose proof (R_poll_cb (map fst l) extc s c r beh cnt H) as X.
  destruct (poll_cb true s c r beh cnt) as [[s1 e1] n1]. cbn [fst] in X.
  pose proof (IH s1 beh n1 X) as Y.
  destruct (work_done true l s1 beh n1) as [[s2 e2] n2]. exact Y.
Qed.

(* ---------------- timer_close_cb ---------------- *)
Lemma R4_free_generic ext q hole s X c :
  cs X = cs s -> inflight X = inflight s -> done X = done s -> length (hs X) = length (hs s) ->
  (forall x, In x (closingq s) -> In x (closingq X)) ->
  (forall h', NoDup (h_chain (geth X h')) /\ incl (h_chain (geth X h')) (h_chain (geth s h')) /\
              ~ In c (h_chain (geth X h')) /\
              h_closing (geth X h') = h_closing (geth s h') /\
              h_closed (geth X h') = h_closed (geth s h') /\
              (h_chain (geth X h') = [] ->
               h_chain (geth s h') = [] \/ (h_closing (geth s h') = true -> In (CHandle h') (closingq X)))) ->
  R4 ext (CTimer c :: q) hole s -> R4 ext q hole (upd_c X c c_set_freed).
Proof.
  intros Ec Ei Ed El Eq HX (N & C & I & G).
  set (s' := upd_c X c c_set_freed).
  assert (Gc : forall c', c' <> c -> getc s' c' = getc s c').
  { intros c' Ne. unfold s'. rewrite getc_upd_c. destruct (Nat.eqb_spec c c'); [congruence|].
    cbn [andb]. unfold getc. rewrite Ec. reflexivity. }
  split; [|split; [|split]].
  - intros h'. apply (HX h').
  - intros h' c' I'. change (geth s' h') with (geth X h') in I'.
    destruct (HX h') as (_ & Inc & Nin & _).
    assert (Ne : c' <> c) by (intros ->; auto).
    rewrite Gc by auto. apply (C h' c' (Inc c' I')).
  - intros c' [L F]. unfold s' in L. rewrite len_cs_upd_c, Ec in L.
    assert (Ne : c' <> c).
    { intros ->. unfold s' in F. rewrite getc_upd_c, Nat.eqb_refl, Ec in F.
      destruct (Nat.ltb_spec c (length (cs s))); [cbn in F; discriminate|lia]. }
    rewrite Gc in F by auto.
    unfold J. change (inflight s') with (inflight X). change (done s') with (done X).
    change (closingq s') with (closingq X). rewrite Ei, Ed.
    destruct (I c' (conj L F)) as [Y|[Y|[Y|[Y|[Y|[Y|Y]]]]]]; auto 10.
    + destruct Y as [Y|Y]; [congruence|auto 10].
    + right; right; right; right; right; left. unfold armed. rewrite Gc by auto. exact Y.
  - intros h' (L & P1 & P2 & P3).
    change (geth s' h') with (geth X h') in *. change (closingq s') with (closingq X).
    change (hs s') with (hs X) in L. rewrite El in L.
    destruct (HX h') as (_ & _ & _ & Hc & Hd & He). rewrite Hc in P1. rewrite Hd in P2.
    destruct (He P3) as [E|E].
    + destruct (G h') as [Y|[Y|Y]]; [repeat split; auto|left; auto|discriminate|right; exact Y].
    + left. auto.
Qed.

Lemma NoDup_remove_nat c l : NoDup l -> NoDup (remove_nat c l).
Proof. intros N. unfold remove_nat. apply NoDup_filter. exact N. Qed.

Lemma not_in_remove_nat c l : ~ In c (remove_nat c l).
Proof.
  unfold remove_nat. intros I. apply filter_In in I. destruct I as [_ E].
  rewrite Nat.eqb_refl in E. discriminate.
Qed.

Lemma R4_timer_close_cb ext q hole s c :
  ChainOK s -> R4 ext (CTimer c :: q) hole s -> R4 ext q hole (timer_close_cb s c).
Proof.
  intros CO H. pose proof H as (N & C & I & G). unfold timer_close_cb.
  set (h := c_parent (getc s c)).
  set (s0 := set_hq s (remove_nat c (hq s))).
  change (geth s0 h) with (geth s h).
  (* handles other than h: c is not in their chain *)
  assert (Other : forall h', h' <> h -> ~ In c (h_chain (geth s h'))).
  { intros h' Ne I'. destruct (CO h' c I') as [_ P]. unfold h in Ne. congruence. }
  assert (Keep : forall (Q : Prop) h', ~ In c (h_chain (geth s h')) ->
            NoDup (h_chain (geth s h')) /\ incl (h_chain (geth s h')) (h_chain (geth s h')) /\
            ~ In c (h_chain (geth s h')) /\ h_closing (geth s h') = h_closing (geth s h') /\
            h_closed (geth s h') = h_closed (geth s h') /\
            (h_chain (geth s h') = [] -> h_chain (geth s h') = [] \/ Q)).
  { intros Q h' Ni. split; [apply N|]. split; [apply incl_refl|]. repeat split; auto. }
  destruct (h_chain (geth s h)) as [|c0 rest] eqn:Ch.
  - apply (R4_free_generic ext q hole s); auto.
    intros h'. destruct (Nat.eq_dec h' h) as [->|Ne]; [|apply Keep; apply Other; auto].
    apply Keep. rewrite Ch. intros [].
  - assert (Lh : (h < length (hs s))%nat).
    { unfold geth in Ch. destruct (Nat.lt_ge_cases h (length (hs s))); auto.
      rewrite nth_overflow in Ch by auto. discriminate. }
    assert (NDh : NoDup (c0 :: rest)) by (rewrite <- Ch; apply N).
    assert (Gh : forall f h', geth (upd_h s0 h f) h' = if Nat.eqb h h' then f (geth s h') else geth s h').
    { intros f h'. rewrite geth_upd_h. change (hs s0) with (hs s). change (geth s0 h') with (geth s h').
      destruct (Nat.eqb h h'); auto. cbn [andb].
      destruct (Nat.ltb_spec h (length (hs s))); [reflexivity|lia]. }
    destruct (Nat.eqb_spec c0 c) as [E|E].
    + subst c0. inversion NDh as [|a b Hn Hd]; subst.
      assert (HX : forall (X : st), cs X = cs s -> (forall h', geth X h' = geth (upd_h s0 h (h_set_chain rest)) h') ->
                   (rest = [] -> h_closing (geth s h) = true -> In (CHandle h) (closingq X)) ->
                   forall h', NoDup (h_chain (geth X h')) /\ incl (h_chain (geth X h')) (h_chain (geth s h')) /\
                     ~ In c (h_chain (geth X h')) /\ h_closing (geth X h') = h_closing (geth s h') /\
                     h_closed (geth X h') = h_closed (geth s h') /\
                     (h_chain (geth X h') = [] -> h_chain (geth s h') = [] \/
                        (h_closing (geth s h') = true -> In (CHandle h') (closingq X)))).
      { intros X _ EX Push h'. rewrite EX, Gh.
        destruct (Nat.eqb_spec h h') as [<-|Ne].
        - cbn [h_set_chain h_chain h_closing h_closed]. rewrite Ch.
          split; [exact Hd|]. split; [apply incl_tl, incl_refl|]. split; [exact Hn|].
          split; [reflexivity|]. split; [reflexivity|].
          intros E0. right. apply Push; auto.
        - apply Keep. apply Other. congruence. }
      destruct rest as [|r1 rest'].
      * destruct (h_closing (geth (upd_h s0 h (h_set_chain [])) h)) eqn:Cl.
        -- apply (R4_free_generic ext q hole s); auto.
           ++ cbn [upd_h set_hs hs set_closingq]. rewrite upd_length. reflexivity.
           ++ intros x Ix. right. exact Ix.
           ++ apply HX; auto. intros _ _. left. reflexivity.
        -- apply (R4_free_generic ext q hole s); auto.
           ++ cbn [upd_h set_hs hs]. rewrite upd_length. reflexivity.
           ++ apply HX; auto. intros _ Cl'. rewrite Gh, Nat.eqb_refl in Cl. cbn in Cl. congruence.
      * apply (R4_free_generic ext q hole s); auto.
        -- cbn [upd_h set_hs hs]. rewrite upd_length. reflexivity.
        -- apply HX; auto. discriminate.
    + apply (R4_free_generic ext q hole s); auto.
      * cbn [upd_h set_hs hs]. rewrite upd_length. reflexivity.
      * intros h'. rewrite Gh. destruct (Nat.eqb_spec h h') as [<-|Ne]; [|apply Keep; apply Other; congruence].
        cbn [h_set_chain h_chain h_closing h_closed]. rewrite Ch.
        inversion NDh as [|a b Hn Hd]; subst.
        split; [|split; [|split; [|split; [reflexivity|split; [reflexivity|discriminate]]]]].
        -- constructor; [|apply NoDup_remove_nat; auto].
           intros I'. apply Hn. eapply incl_remove_nat; eauto.
        -- intros x [<-|I']; [left; auto|right; eapply incl_remove_nat; eauto].
        -- intros [E0|I']; [congruence|]. eapply not_in_remove_nat; eauto.
Qed.

(* ---------------- closing phase, timers, release ---------------- *)
Lemma R4_set_closed ext q hole s h :
  R4 ext (CHandle h :: q) hole s -> R4 ext q hole (upd_h s h h_set_closed).
Proof.
  intros (N & C & I & G).
  assert (E : forall h', h_chain (geth (upd_h s h h_set_closed) h') = h_chain (geth s h') /\
                         h_closing (geth (upd_h s h h_set_closed) h') = h_closing (geth s h') /\
                         (h' <> h -> h_closed (geth (upd_h s h h_set_closed) h') = h_closed (geth s h')) /\
                         (h' = h -> (h < length (hs s))%nat -> h_closed (geth (upd_h s h h_set_closed) h') = true)).
  { intros h'. rewrite geth_upd_h. destruct (Nat.eqb_spec h h') as [->|Ne]; cbn [andb].
    - destruct (Nat.ltb_spec h' (length (hs s))); repeat split; auto; try congruence; lia.
    - repeat split; auto; congruence. }
  split; [|split; [|split]].
  - intros h'. destruct (E h') as (E1 & _). rewrite E1. apply N.
  - intros h' c I'. destruct (E h') as (E1 & _). rewrite E1 in I'. apply (C h' c I').
  - intros c L. destruct (I c L) as [X|[X|[X|[X|[X|[X|X]]]]]]; unfold J; auto 10.
    destruct X as [X|X]; [discriminate|auto 10].
  - intros h' (L & P1 & P2 & P3). rewrite len_hs_upd_h in L.
    destruct (E h') as (E1 & E2 & E3 & E4). rewrite E1 in P3. rewrite E2 in P1.
    destruct (Nat.eq_dec h' h) as [->|Ne]; [rewrite (E4 eq_refl L) in P2; discriminate|].
    rewrite (E3 Ne) in P2.
    destruct (G h') as [X|[X|X]]; [repeat split; auto|left; exact X|congruence|right; exact X].
Qed.

Lemma R_run_closing ext q : forall s beh cnt,
  R ext q None s -> R ext [] None (fst (fst (run_closing q s beh cnt))).
Proof.
  induction q as [|[c|h] q IH]; intros s beh cnt H; cbn [run_closing]; auto.
  - apply IH. destruct H as [S H]. split; [apply SI_timer_close_cb; auto|].
    apply R4_timer_close_cb; auto. apply S.
  - assert (H1 : R ext q None (upd_h s h h_set_closed)).
    { destruct H as [S H]. split; [apply SI_upd_h_keep; auto|]. apply R4_set_closed; auto. }
    pose proof (R_user_cb ext q None _ (EClosed h (live_of s h)) beh cnt H1) as X.
    destruct (user_cb (upd_h s h h_set_closed) (EClosed h (live_of s h)) beh cnt) as [[s1 e1] n1]. cbn [fst] in X.
    pose proof (IH s1 beh n1 X) as Y.
    destruct (run_closing q s1 beh n1) as [[s2 e2] n2]. exact Y.
Qed.

Lemma R4_close_timer_ext ext extc hole s c :
  R4 (c :: ext) extc hole s -> R4 ext extc hole (close_timer s c).
Proof.
  intros (N & C & I & G).
  split; [exact N|]. split.
  - intros h c' I'. rewrite freed_close_timer. apply (C h c' I').
  - split.
    + intros c' [L F]. rewrite close_timer_len in L. rewrite freed_close_timer in F.
      unfold J. cbn [close_timer closingq set_closingq inflight done].
      destruct (Nat.eq_dec c c') as [->|Ne]; [right; right; right; left; left; reflexivity|].
      destruct (I c' (conj L F)) as [X|[X|[X|[X|[X|[X|X]]]]]]; auto 10.
      * destruct X as [X|X]; [congruence|auto 10].
      * right; right; right; left. right. exact X.
      * right; right; right; right; right; left. unfold armed in *.
        change (getc (close_timer s c) c') with (getc (upd_c s c (c_set_timer TClosing)) c').
        rewrite getc_upd_c. destruct (Nat.eqb_spec c c'); [congruence|]. exact X.
    + intros h P. destruct (G h P) as [X|X]; [left; right; exact X|right; exact X].
Qed.

Lemma R4_timer_fire fx ext extc hole s c : R4 (c :: ext) extc hole s -> R4 ext extc hole (timer_fire fx s c).
Proof.
  intros H. unfold timer_fire.
  destruct (fx && _); [apply R4_close_timer_ext; exact H|].
  destruct H as (N & C & I & G).
  set (f := fun x => c_set_inflight true (c_set_start (now s) (c_set_timer TIdle x))).
  set (s1 := upd_c s c f).
  assert (Gf : forall c', c_freed (getc s1 c') = c_freed (getc s c')).
  { intros c'. unfold s1. rewrite getc_upd_c. destruct (Nat.eqb c c' && Nat.ltb c (length (cs s))); auto. }
  split; [exact N|]. split; [|split; [|exact G]].
  - intros h c' I'. change (getc (set_inflight s1 (inflight s1 ++ [c])) c') with (getc s1 c').
    rewrite Gf. apply (C h c' I').
  - intros c' [L F]. change (getc (set_inflight s1 (inflight s1 ++ [c])) c') with (getc s1 c') in F.
    change (length (cs (set_inflight s1 (inflight s1 ++ [c])))) with (length (cs s1)) in L.
    unfold s1 in L. rewrite len_cs_upd_c in L. rewrite Gf in F.
    unfold J. cbn [inflight set_inflight done closingq]. change (inflight s1) with (inflight s).
    change (done s1) with (done s). change (closingq s1) with (closingq s).
    destruct (Nat.eq_dec c c') as [->|Ne]; [left; apply in_app_iff; right; left; reflexivity|].
    destruct (I c' (conj L F)) as [X|[X|[X|[X|[X|[X|X]]]]]]; auto 10.
    + left. apply in_app_iff; auto.
    + destruct X as [X|X]; [congruence|auto 10].
    + right; right; right; right; right; left. unfold armed in *.
      change (getc (set_inflight s1 (inflight s ++ [c])) c') with (getc s1 c'). unfold s1.
      rewrite getc_upd_c. destruct (Nat.eqb_spec c c'); [congruence|]. exact X.
Qed.

Lemma R4_ext_incl ext ext' extc hole s :
  (forall c, In c ext -> In c ext') -> R4 ext extc hole s -> R4 ext' extc hole s.
Proof.
  intros Inc (N & C & I & G). split; [exact N|]. split; [exact C|]. split; [|exact G].
  intros c L. destruct (I c L) as [X|[X|[X|[X|[X|[X|X]]]]]]; unfold J; auto 10.
Qed.

(* the interval timer goes from the heap to the ready queue of the running pass *)
Lemma R4_ready ext extc hole s c :
  R4 ext extc hole s -> R4 (c :: ext) extc hole (upd_c s c (c_set_timer TReady)).
Proof.
  intros (N & C & I & G).
  assert (Gf : forall c', c_freed (getc (upd_c s c (c_set_timer TReady)) c') = c_freed (getc s c')).
  { intros c'. rewrite getc_upd_c. destruct (Nat.eqb c c' && Nat.ltb c (length (cs s))); auto. }
  split; [exact N|]. split; [|split; [|exact G]].
  - intros h c' I'. rewrite Gf. apply (C h c' I').
  - intros c' [L F]. rewrite len_cs_upd_c in L. rewrite Gf in F. unfold J.
    destruct (Nat.eq_dec c c') as [->|Ne]; [right; right; left; left; reflexivity|].
    destruct (I c' (conj L F)) as [X|[X|[X|[X|[X|[X|X]]]]]]; auto 10.
    + right; right; left. right. exact X.
    + right; right; right; right; right; left. unfold armed in *. rewrite getc_upd_c.
      destruct (Nat.eqb_spec c c'); [congruence|]. exact X.
Qed.

Definition ctxs_of (l : list ritem) : list nat :=
  flat_map (fun it => match it with RCtx c => [c] | RUser _ => [] end) l.

Lemma R_collect s items : R [] [] None s -> R (ctxs_of items) [] None (collect s items).
Proof.
  intros [S H]. split.
  - assert (P1 : forall s0 c, SI s0 -> SI (upd_c s0 c (c_set_timer TReady))).
    { intros s0 c H0. apply SI_upd_c; auto. cbn. discriminate. }
    exact (collect_inv SI P1 items s S).
  - unfold collect.
    assert (X : forall l s0 ext, R4 ext [] None s0 ->
              R4 (rev (ctxs_of l) ++ ext) [] None
                 (fold_left (fun s it => match it with
                                          | RCtx c => upd_c s c (c_set_timer TReady)
                                          | RUser _ => s end) l s0)).
    { induction l as [|[c|id] l IH]; intros s0 ext H0; cbn [fold_left ctxs_of flat_map rev app]; auto.
      pose proof (IH _ _ (R4_ready ext [] None s0 c H0)) as Y.
      eapply R4_ext_incl; [|exact Y]. intros c' I.
      rewrite <- app_assoc. exact I. }
    pose proof (X items s [] H) as Y. rewrite app_nil_r in Y.
    assert (Z : R4 (ctxs_of items) [] None
                   (fold_left (fun s it => match it with
                                          | RCtx c => upd_c s c (c_set_timer TReady)
                                          | RUser _ => s end) items s)).
    { eapply R4_ext_incl; [|exact Y]. intros c I. apply in_rev in I. exact I. }
    exact Z.
Qed.

Lemma R_fire beh l : forall s cnt,
  R (ctxs_of l) [] None s -> R [] [] None (fst (fst (fire_ready true beh l s cnt))).
Proof.
  induction l as [|[c|id] l IH]; intros s cnt H; cbn [fire_ready]; auto.
  - apply IH. destruct H as [S H]. split; [apply SI_timer_fire; auto|].
    apply R4_timer_fire. exact H.
  - cbn [ctxs_of flat_map app] in H. fold (ctxs_of l) in H.
    destruct (ut_has s id); [|apply IH; exact H].
    assert (H0 : R (ctxs_of l) [] None (ut_remove s id)).
    { destruct H as [S H]. split; [eapply SI_same; [| |exact S]; reflexivity|].
      eapply R4_same; [| | | | |exact H]; reflexivity. }
    pose proof (R_apis (ctxs_of l) [] None (beh cnt) _ H0) as X.
    destruct (apis (ut_remove s id) (beh cnt)) as [s1 e1]. cbn [fst] in X.
    pose proof (IH s1 (S cnt) X) as Y. destruct (fire_ready true beh l s1 (S cnt)) as [[s2 e2] n2]. exact Y.
Qed.

Lemma R_run_timers beh s cnt : R [] [] None s -> R [] [] None (fst (fst (run_timers true beh s cnt))).
Proof.
  intros H. unfold run_timers. apply R_fire. apply R_collect. exact H.
Qed.

Lemma R_release s res : R [] [] None s -> R [] [] None (fst (release s res)).
Proof.
  intros [S (N & C & I & G)]. unfold release. cbn [fst].
  split; [eapply SI_same; [| |exact S]; reflexivity|].
  split; [exact N|]. split; [exact C|]. split; [|exact G].
  intros c L. destruct (I c L) as [X|[X|[X|[X|[X|[X|X]]]]]]; unfold J; cbn [inflight done set_inflight set_done closingq]; auto 10.
  - right; left. rewrite map_app. apply in_app_iff. right. rewrite map_map. cbn [fst].
    rewrite map_id. exact X.
  - right; left. rewrite map_app. apply in_app_iff. auto.
Qed.

Lemma R_iteration s beh cnt : R [] [] None s -> R [] [] None (fst (fst (iteration true s beh cnt))).
Proof.
  intros H. unfold iteration. cbv zeta.
  set (s0 := set_now s (clock s)).
  assert (H0 : R (map fst (done s0)) [] None (set_done s0 [])).
  { destruct H as [S (N & C & I & G)]. split; [eapply SI_same; [| |exact S]; reflexivity|].
    split; [exact N|]. split; [exact C|]. split; [|exact G].
    intros c L. destruct (I c L) as [X|[X|[X|[X|[X|[X|X]]]]]]; unfold J; auto 10. }
  pose proof (R_work_done [] (done s0) _ beh cnt H0) as X.
  destruct (work_done true (done s0) (set_done s0 []) beh cnt) as [[s1 e1] n1]. cbn [fst] in X.
  assert (H1 : R [] (closingq s1) None (set_closingq s1 [])).
  { destruct X as [S (N & C & I & G)]. split; [eapply SI_same; [| |exact S]; reflexivity|].
    split; [exact N|]. split; [exact C|]. split.
    - intros c L. destruct (I c L) as [Y|[Y|[Y|[Y|[Y|[Y|Y]]]]]]; unfold J; auto 10.
    - intros h P. destruct (G h P) as [Y|Y]; auto. }
  pose proof (R_run_closing [] (closingq s1) _ beh n1 H1) as Y.
  destruct (run_closing (closingq s1) (set_closingq s1 []) beh n1) as [[s2 e2] n2]. cbn [fst] in *.
  assert (H2 : R [] [] None (set_now s2 (clock s2))).
  { destruct Y as [S Y]. split; [eapply SI_same; [| |exact S]; reflexivity|].
    eapply R4_same; [| | | | |exact Y]; reflexivity. }
  pose proof (R_run_timers beh _ n2 H2) as Z.
  destruct (run_timers true beh (set_now s2 (clock s2)) n2) as [[s3 e3] n3]. exact Z.
Qed.

Lemma R_drain fuel : forall s res beh cnt,
  R [] [] None s -> R [] [] None (fst (fst (drain true fuel s res beh cnt))).
Proof.
  induction fuel as [|f IH]; intros s res beh cnt H; cbn [drain]; auto.
  pose proof (R_release s res H) as X. destruct (release s res) as [s1 e1]. cbn [fst] in X.
  pose proof (R_iteration s1 beh cnt X) as Y.
  destruct (iteration true s1 beh cnt) as [[s2 e2] n2]. cbn [fst] in Y.
  destruct (alive s2); auto.
  pose proof (IH s2 res beh n2 Y) as Z.
  destruct (drain true f s2 res beh n2) as [[s3 e3] n3]. exact Z.
Qed.

Lemma R_init t0 : R [] [] None (init t0).
Proof.
  split; [apply SI_init|]. split; [|split; [|split]].
  - intros h. unfold geth. cbn. destruct h; constructor.
  - intros h c I. unfold geth in I. cbn in I. destruct h; destruct I.
  - intros c [L _]. cbn in L. lia.
  - intros h (L & _). cbn in L. lia.
Qed.

Theorem R_run os : forall s beh cnt, R [] [] None s -> R [] [] None (fst (run true s os beh cnt)).
Proof.
  induction os as [|o os IH]; intros s beh cnt H; [exact H|].
  destruct o; cbn [run].
  all: try (match goal with
            | Hs : R [] [] None ?s0, IHx : forall s beh cnt, R [] [] None s -> _ |- context [api ?s0 ?o] =>
                let X := fresh "X" in let Y := fresh "Y" in
                pose proof (R_api [] [] None s0 o Hs) as X;
                destruct (api s0 o) as [s1 e1]; cbn [fst] in X;
                pose proof (IHx s1 beh cnt X) as Y; destruct (run true s1 os beh cnt); exact Y
            end).
  - pose proof (R_release s res H) as X. destruct (release s res) as [s1 e1]. cbn [fst] in X.
    pose proof (IH s1 beh cnt X) as Y. destruct (run true s1 os beh cnt); exact Y.
  - apply IH. destruct H as [S H]. split; [eapply SI_same; [| |exact S]; reflexivity|].
    eapply R4_same; [| | | | |exact H]; reflexivity.
  - pose proof (R_iteration s beh cnt H) as X.
    destruct (iteration true s beh cnt) as [[s1 e1] n1]. cbn [fst] in X.
    pose proof (IH s1 beh n1 X) as Y. destruct (run true s1 os beh n1); exact Y.
  - apply IH. destruct H as [S H]. split; [eapply SI_same; [| |exact S]; reflexivity|].
    eapply R4_same; [| | | | |exact H]; reflexivity.
  - assert (H' : R [] [] None (set_ut s [])).
    { destruct H as [S H]. split; [eapply SI_same; [| |exact S]; reflexivity|].
      eapply R4_same; [| | | | |exact H]; reflexivity. }
    pose proof (R_drain drain_fuel _ res beh cnt H') as X.
    destruct (drain true drain_fuel (set_ut s []) res beh cnt) as [[s1 e1] n1]. cbn [fst] in X.
    pose proof (IH s1 beh n1 X) as Y. destruct (run true s1 os beh n1); exact Y.
Qed.

(* ------------------------------------------------------------------ *)
(* every handle has been closed: two iterations finish everything      *)
(* ------------------------------------------------------------------ *)
Definition noinit (o : op) : Prop := match o with OInit => False | _ => True end.

(* every handle is closing and (hence) stopped *)
Definition AC (s : st) : Prop :=
  forall h, (h < length (hs s))%nat -> h_closing (geth s h) = true /\ h_active (geth s h) = false.

Lemma AC_inactive s h : AC s -> h_active (geth s h) = false.
Proof.
  intros A. destruct (Nat.lt_ge_cases h (length (hs s))) as [L|L]; [apply (A h L)|].
  unfold geth. rewrite nth_overflow by auto. reflexivity.
Qed.

Lemma walk_noop s : AC s -> ut s = [] -> do_walk s = s.
Proof.
  intros A U. unfold do_walk.
  assert (X : forall l, Forall (fun h => (h < length (hs s))%nat) l ->
              fold_left (fun s h => if h_closing (geth s h) then s else do_close s h) l s = s).
  { induction l as [|h l IH]; intros F; cbn [fold_left]; auto.
    inversion F as [|a b Fh Fl]; subst. destruct (A h Fh) as [Cl _]. rewrite Cl. auto. }
  rewrite X; [rewrite U; reflexivity|].
  apply Forall_forall. intros h I. apply walk_targets_lt; auto.
Qed.

Lemma api_noop s o : AC s -> ut s = [] -> noinit o -> fst (api s o) = s.
Proof.
  intros A U Ni. destruct o; cbn [api fst]; auto; try contradiction; try (apply walk_noop; auto).
  - unfold valid. destruct (Nat.ltb_spec h (length (hs s))) as [L|L]; cbn [andb]; auto.
    destruct (A h L) as [Cl _]. rewrite Cl. reflexivity.
  - destruct (valid s h && negb (h_closed (geth s h))); cbn [fst]; auto.
    unfold do_stop. rewrite (AC_inactive s h A). reflexivity.
  - unfold valid. destruct (Nat.ltb_spec h (length (hs s))) as [L|L]; cbn [andb]; auto.
    destruct (A h L) as [Cl _]. rewrite Cl. reflexivity.
Qed.

Lemma apis_noop os : forall s, AC s -> ut s = [] -> Forall noinit os -> fst (apis s os) = s.
Proof.
  induction os as [|o os IH]; intros s A U F; cbn [apis]; auto.
  inversion F as [|a b Fo Fr]; subst.
  pose proof (api_noop s o A U Fo) as X. destruct (api s o) as [s1 e1]. cbn [fst] in X. subst s1.
  pose proof (IH s A U Fr) as Y. destruct (apis s os) as [s2 e2]. exact Y.
Qed.

Lemma user_cb_noop s ev beh cnt :
  AC s -> ut s = [] -> Forall noinit (beh cnt) -> fst (fst (user_cb s ev beh cnt)) = s.
Proof.
  intros A U F. unfold user_cb. pose proof (apis_noop (beh cnt) s A U F) as X.
  destruct (apis s (beh cnt)); exact X.
Qed.

(* what a step of the drain leaves alone *)
Definition Fr (s s' : st) : Prop :=
  (forall h, h_closing (geth s' h) = h_closing (geth s h) /\ h_active (geth s' h) = h_active (geth s h)) /\
  length (hs s') = length (hs s) /\ length (cs s') = length (cs s) /\
  (forall c, c_freed (getc s c) = true -> c_freed (getc s' c) = true) /\
  inflight s' = inflight s /\ done s' = done s /\ ut s' = ut s.

Lemma Fr_refl s : Fr s s.
Proof. repeat split; auto. Qed.

Lemma Fr_trans a b c : Fr a b -> Fr b c -> Fr a c.
Proof.
  intros (A1 & A2 & A3 & A4 & A5 & A6 & A7) (B1 & B2 & B3 & B4 & B5 & B6 & B7).
  split; [|repeat split; try congruence; auto].
  intros h. destruct (A1 h), (B1 h). split; congruence.
Qed.

Lemma AC_Fr s s' : AC s -> Fr s s' -> AC s'.
Proof.
  intros A (F1 & F2 & _) h L. rewrite F2 in L. destruct (A h L), (F1 h). split; congruence.
Qed.

Lemma Fr_close_clear s c : Fr s (close_timer (upd_c s c (c_set_inflight false)) c).
Proof.
  split; [intros h; split; reflexivity|]. split; [reflexivity|].
  split; [rewrite close_timer_len, len_cs_upd_c; reflexivity|].
  split; [|repeat split; reflexivity].
  intros c' F. rewrite freed_close_timer, getc_upd_c.
  destruct (Nat.eqb c c' && Nat.ltb c (length (cs s))); auto.
Qed.

Lemma poll_cb_AC s c res beh cnt :
  AC s -> fst (fst (poll_cb true s c res beh cnt)) = close_timer (upd_c s c (c_set_inflight false)) c.
Proof.
  intros A. rewrite (old_ctx_no_callback_fixed s c res beh cnt); [reflexivity|].
  right; left. apply AC_inactive; auto.
Qed.

Lemma work_done_AC l : forall s beh cnt, AC s ->
  let s' := fst (fst (work_done true l s beh cnt)) in
  Fr s s' /\ (forall x, In x (closingq s) -> In x (closingq s')) /\
  (forall c, In c (map fst l) -> In (CTimer c) (closingq s')).
Proof.
  induction l as [|[c r] l IH]; intros s beh cnt A; cbn [work_done].
  - cbn. split; [apply Fr_refl|]. split; auto. intros c [].
  - pose proof (poll_cb_AC s c r beh cnt A) as E.
    destruct (poll_cb true s c r beh cnt) as [[s1 e1] n1]. cbn [fst] in E. subst s1.
    set (s1 := close_timer (upd_c s c (c_set_inflight false)) c).
    assert (F1 : Fr s s1) by apply Fr_close_clear.
    pose proof (IH s1 beh n1 (AC_Fr _ _ A F1)) as X.
    destruct (work_done true l s1 beh n1) as [[s2 e2] n2]. cbn [fst] in *.
    destruct X as (X1 & X2 & X3).
    split; [eapply Fr_trans; eauto|]. split.
    + intros x I. apply X2. right. exact I.
    + intros c' [<-|I]; [apply X2; left; reflexivity|apply X3; exact I].
Qed.

Lemma timer_close_cb_Fr s c :
  Fr s (timer_close_cb s c) /\
  ((c < length (cs s))%nat -> c_freed (getc (timer_close_cb s c) c) = true).
Proof.
  unfold timer_close_cb.
  set (h := c_parent (getc s c)). set (s0 := set_hq s (remove_nat c (hq s))).
  assert (K : forall X : st,
     ut X = ut s -> cs X = cs s -> inflight X = inflight s -> done X = done s -> length (hs X) = length (hs s) ->
     (forall h', h_closing (geth X h') = h_closing (geth s h') /\ h_active (geth X h') = h_active (geth s h')) ->
     Fr s (upd_c X c c_set_freed) /\
     ((c < length (cs s))%nat -> c_freed (getc (upd_c X c c_set_freed) c) = true)).
  { intros X Eu Ec Ei Ed El Eh. split.
    - split; [exact Eh|]. split; [exact El|]. split; [rewrite len_cs_upd_c, Ec; reflexivity|].
      split; [|repeat split; auto].
      intros c' F. rewrite getc_upd_c. destruct (Nat.eqb c c' && Nat.ltb c (length (cs X))); auto.
      unfold getc. rewrite Ec. exact F.
    - intros L. rewrite getc_upd_c, Nat.eqb_refl, Ec.
      destruct (Nat.ltb_spec c (length (cs s))); [reflexivity|lia]. }
  assert (Uh : forall f, (forall x, h_closing (f x) = h_closing x /\ h_active (f x) = h_active x) ->
               forall h', h_closing (geth (upd_h s0 h f) h') = h_closing (geth s h') /\
                          h_active (geth (upd_h s0 h f) h') = h_active (geth s h')).
  { intros f Ff h'. rewrite geth_upd_h. change (geth s0 h') with (geth s h').
    destruct (Nat.eqb h h' && Nat.ltb h (length (hs s0))); auto. }
  change (geth s0 h) with (geth s h).
  assert (U0 : forall h', h_closing (geth s0 h') = h_closing (geth s h') /\
                          h_active (geth s0 h') = h_active (geth s h')) by (intros; split; reflexivity).
  destruct (h_chain (geth s h)) as [|c0 rest].
  - apply K; [reflexivity|reflexivity|reflexivity|reflexivity|reflexivity|exact U0].
  - destruct (Nat.eqb c0 c).
    + destruct rest as [|r1 rest'].
      * destruct (h_closing (geth (upd_h s0 h (h_set_chain [])) h)).
        -- apply K; [reflexivity|reflexivity|reflexivity|reflexivity| |].
           ++ cbn [hs set_closingq upd_h set_hs]. rewrite upd_length. reflexivity.
           ++ apply (Uh (h_set_chain [])). intros x; split; reflexivity.
        -- apply K; [reflexivity|reflexivity|reflexivity|reflexivity| |].
           ++ cbn [hs upd_h set_hs]. rewrite upd_length. reflexivity.
           ++ apply (Uh (h_set_chain [])). intros x; split; reflexivity.
      * apply K; [reflexivity|reflexivity|reflexivity|reflexivity| |].
        -- cbn [hs upd_h set_hs]. rewrite upd_length. reflexivity.
        -- apply (Uh (h_set_chain (r1 :: rest'))). intros x; split; reflexivity.
    + apply K; [reflexivity|reflexivity|reflexivity|reflexivity| |].
      * cbn [hs upd_h set_hs]. rewrite upd_length. reflexivity.
      * apply (Uh (h_set_chain (c0 :: remove_nat c rest))). intros x; split; reflexivity.
Qed.

Lemma Fr_ut s s' : Fr s s' -> ut s = [] -> ut s' = [].
Proof. intros (_ & _ & _ & _ & _ & _ & E) U. congruence. Qed.

Lemma run_closing_AC q : forall s beh cnt, AC s -> ut s = [] -> (forall k, Forall noinit (beh k)) ->
  let s' := fst (fst (run_closing q s beh cnt)) in
  Fr s s' /\ (forall c, In (CTimer c) q -> (c < length (cs s))%nat -> c_freed (getc s' c) = true).
Proof.
  induction q as [|[c|h] q IH]; intros s beh cnt A U B; cbn [run_closing].
  - cbn. split; [apply Fr_refl|]. intros c [].
  - destruct (timer_close_cb_Fr s c) as [F1 F2].
    pose proof (IH (timer_close_cb s c) beh cnt (AC_Fr _ _ A F1) (Fr_ut _ _ F1 U) B) as X.
    destruct (run_closing q (timer_close_cb s c) beh cnt) as [[s2 e2] n2]. cbn [fst] in *.
    destruct X as [X1 X2]. split; [eapply Fr_trans; eauto|].
    intros c' [E|I] L.
    + injection E as <-. destruct X1 as (_ & _ & _ & Mono & _). apply Mono. apply F2; auto.
    + apply X2; auto. destruct F1 as (_ & _ & El & _). rewrite El. exact L.
  - set (s0 := upd_h s h h_set_closed).
    assert (F0 : Fr s s0).
    { split; [|repeat split; auto; apply len_hs_upd_h].
      intros h'. unfold s0. rewrite geth_upd_h. destruct (Nat.eqb h h' && Nat.ltb h (length (hs s))); auto. }
    pose proof (user_cb_noop s0 (EClosed h (live_of s h)) beh cnt (AC_Fr _ _ A F0) U (B cnt)) as E.
    destruct (user_cb s0 (EClosed h (live_of s h)) beh cnt) as [[s1 e1] n1]. cbn [fst] in E. subst s1.
    pose proof (IH s0 beh n1 (AC_Fr _ _ A F0) U B) as X.
    destruct (run_closing q s0 beh n1) as [[s2 e2] n2]. cbn [fst] in *.
    destruct X as [X1 X2]. split; [eapply Fr_trans; eauto|].
    intros c' [E|I] L; [discriminate|]. apply X2; auto.
Qed.

(* no timer is armed when every handle is stopped *)
Lemma no_armed s : SI s -> AC s -> forall c, ~ armed s c.
Proof.
  intros [S _] A c Ar. destruct (S c Ar) as (_ & Act & _). rewrite AC_inactive in Act; auto. discriminate.
Qed.

Lemma due_from_none l : forall i nw,
  Forall (fun x => timer_active (c_timer x) = false) l -> due_from i l nw = [].
Proof.
  induction l as [|x l IH]; intros i nw F; cbn [due_from]; auto.
  inversion F as [|a b Fx Fl]; subst. rewrite (IH (S i) nw Fl).
  destruct (c_timer x); try reflexivity. cbn in Fx. discriminate.
Qed.

Lemma run_timers_none fx beh s cnt :
  (forall c, ~ armed s c) -> ut s = [] -> run_timers fx beh s cnt = (s, [], cnt).
Proof.
  intros NA U. unfold run_timers, due_items. rewrite U. cbn [fold_right].
  rewrite due_from_none; [reflexivity|].
  apply Forall_forall. intros x I. destruct (In_nth _ _ dflt_ctx I) as (n & L & E).
  specialize (NA n). unfold armed, getc in NA. rewrite E in NA.
  destruct (timer_active (c_timer x)); auto. exfalso; auto.
Qed.

Definition allfreed (s : st) : Prop := forall c, (c < length (cs s))%nat -> c_freed (getc s c) = true.

(* one iteration after every handle has been closed frees every context *)
Lemma round_AC s res beh cnt :
  R [] [] None s -> AC s -> (forall k, Forall noinit (beh k)) -> ut s = [] ->
  let s2 := fst (fst (iteration true (fst (release s res)) beh cnt)) in
  R [] [] None s2 /\ AC s2 /\ allfreed s2 /\ inflight s2 = [] /\ done s2 = [] /\ ut s2 = [].
Proof.
  intros H A B U.
  pose proof (R_release s res H) as H1.
  assert (A1 : AC (fst (release s res))) by exact A.
  assert (I1 : inflight (fst (release s res)) = []) by reflexivity.
  assert (U1 : ut (fst (release s res)) = []) by exact U.
  set (s1 := fst (release s res)) in *. clearbody s1.
  unfold iteration. cbv zeta.
  set (s0 := set_now s1 (clock s1)).
  set (sa := set_done s0 []).
  assert (H0 : R (map fst (done s0)) [] None sa).
  { destruct H1 as [S (N & C & I & G)]. split; [eapply SI_same; [| |exact S]; reflexivity|].
    split; [exact N|]. split; [exact C|]. split; [|exact G].
    intros c L. destruct (I c L) as [X|[X|[X|[X|[X|[X|X]]]]]]; unfold J; auto 10. }
  assert (Aa : AC sa) by exact A1.
  pose proof (R_work_done [] (done s0) sa beh cnt H0) as W1.
  pose proof (work_done_AC (done s0) sa beh cnt Aa) as W2. cbv zeta in W2.
  destruct (work_done true (done s0) sa beh cnt) as [[sb e1] n1]. cbn [fst] in W1, W2.
  destruct W2 as (F1 & Q1 & Q2).
  assert (Ab : AC sb) by (eapply AC_Fr; eauto).
  (* every live context is in the closing list now *)
  assert (LC : forall c, (c < length (cs sb))%nat -> c_freed (getc sb c) = false -> In (CTimer c) (closingq sb)).
  { intros c L F. destruct F1 as (_ & _ & El & Mono & _).
    assert (La : live sa c).
    { split; [rewrite <- El; exact L|]. destruct (c_freed (getc sa c)) eqn:E; auto.
      rewrite (Mono c E) in F. discriminate. }
    destruct H0 as [S0 (_ & _ & I0 & _)].
    destruct (I0 c La) as [X|[X|[X|[X|[X|[X|X]]]]]].
    - change (inflight sa) with (inflight s1) in X. rewrite I1 in X. destruct X.
    - destruct X.
    - apply Q2; auto.
    - apply Q1; auto.
    - destruct X.
    - exfalso. eapply no_armed; eauto.
    - discriminate. }
  set (sc := set_closingq sb []).
  assert (Hc : R [] (closingq sb) None sc).
  { destruct W1 as [S (N & C & I & G)]. split; [eapply SI_same; [| |exact S]; reflexivity|].
    split; [exact N|]. split; [exact C|]. split.
    - intros c L. destruct (I c L) as [Y|[Y|[Y|[Y|[Y|[Y|Y]]]]]]; unfold J; auto 10.
    - intros h P. destruct (G h P) as [Y|Y]; auto. }
  assert (Ac : AC sc) by exact Ab.
  pose proof (R_run_closing [] (closingq sb) sc beh n1 Hc) as C1.
  assert (Uc : ut sc = []) by (change (ut sc) with (ut sb); eapply Fr_ut; [exact F1|exact U1]).
  pose proof (run_closing_AC (closingq sb) sc beh n1 Ac Uc B) as C2. cbv zeta in C2.
  destruct (run_closing (closingq sb) sc beh n1) as [[sd e2] n2]. cbn [fst] in *.
  destruct C2 as (F2 & Fz).
  assert (Ad : AC sd) by (eapply AC_Fr; eauto).
  assert (AF : allfreed sd).
  { intros c L. destruct F2 as (_ & _ & El & Mono & _).
    assert (L' : (c < length (cs sb))%nat) by (rewrite El in L; exact L).
    destruct (c_freed (getc sb c)) eqn:E.
    - apply Mono. exact E.
    - apply Fz; auto. }
  set (se := set_now sd (clock sd)).
  assert (He : R [] [] None se).
  { destruct C1 as [S X]. split; [eapply SI_same; [| |exact S]; reflexivity|].
    eapply R4_same; [| | | | |exact X]; reflexivity. }
  assert (Ae : AC se) by exact Ad.
  destruct F1 as (_ & _ & _ & _ & Fi1 & Fd1 & Fu1). destruct F2 as (_ & _ & _ & _ & Fi2 & Fd2 & Fu2).
  assert (Ue : ut se = []).
  { change (ut se) with (ut sd). rewrite Fu2. change (ut sc) with (ut sb). rewrite Fu1. exact U1. }
  rewrite (run_timers_none true beh se n2 (no_armed se (proj1 He) Ae) Ue). cbn [fst].
  split; [exact He|]. split; [exact Ae|]. split; [exact AF|].
  split; [|split; [|exact Ue]].
  - change (inflight se) with (inflight sd). rewrite Fi2. change (inflight sc) with (inflight sb).
    rewrite Fi1. exact I1.
  - change (done se) with (done sd). rewrite Fd2. change (done sc) with (done sb). rewrite Fd1. reflexivity.
Qed.

Definition allempty (s : st) : Prop := forall h, h_chain (geth s h) = [].

Lemma allfreed_allempty s : R [] [] None s -> allfreed s -> allempty s.
Proof.
  intros [[_ CO] (_ & C & _)] AF h. destruct (h_chain (geth s h)) as [|c l] eqn:E; auto.
  assert (I : In c (h_chain (geth s h))) by (rewrite E; left; reflexivity).
  destruct (CO h c I) as [L _]. pose proof (C h c I) as X. rewrite (AF c L) in X. discriminate.
Qed.

Lemma timer_close_cb_empty s c :
  allempty s -> closingq (timer_close_cb s c) = closingq s /\ allempty (timer_close_cb s c).
Proof.
  intros E. unfold timer_close_cb.
  change (geth (set_hq s (remove_nat c (hq s))) (c_parent (getc s c))) with (geth s (c_parent (getc s c))).
  rewrite E. split; [reflexivity|]. intros h. apply E.
Qed.

Lemma run_closing_empty q : forall s beh cnt, AC s -> ut s = [] -> allempty s -> (forall k, Forall noinit (beh k)) ->
  closingq (fst (fst (run_closing q s beh cnt))) = closingq s.
Proof.
  induction q as [|[c|h] q IH]; intros s beh cnt A U E B; cbn [run_closing]; auto.
  - destruct (timer_close_cb_empty s c E) as [Q E'].
    destruct (timer_close_cb_Fr s c) as [F1 _].
    rewrite <- Q. apply IH; auto; [eapply AC_Fr; eauto|eapply Fr_ut; eauto].
  - set (s0 := upd_h s h h_set_closed).
    assert (F0 : Fr s s0).
    { split; [|repeat split; auto; apply len_hs_upd_h].
      intros h'. unfold s0. rewrite geth_upd_h. destruct (Nat.eqb h h' && Nat.ltb h (length (hs s))); auto. }
    assert (E0 : allempty s0).
    { intros h'. unfold s0. rewrite geth_upd_h. destruct (Nat.eqb h h' && Nat.ltb h (length (hs s))); apply E. }
    pose proof (user_cb_noop s0 (EClosed h (live_of s h)) beh cnt (AC_Fr _ _ A F0) U (B cnt)) as X.
    destruct (user_cb s0 (EClosed h (live_of s h)) beh cnt) as [[s1 e1] n1]. cbn [fst] in X. subst s1.
    pose proof (IH s0 beh n1 (AC_Fr _ _ A F0) U E0 B) as Y.
    destruct (run_closing q s0 beh n1) as [[s2 e2] n2]. cbn [fst] in *. exact Y.
Qed.

(* the second iteration: only close callbacks are left, nothing becomes pending again *)
Lemma round2_AC s res beh cnt :
  R [] [] None s -> AC s -> allfreed s -> inflight s = [] -> done s = [] ->
  (forall k, Forall noinit (beh k)) -> ut s = [] ->
  closingq (fst (fst (iteration true (fst (release s res)) beh cnt))) = [].
Proof.
  intros H A AF Ei Ed B U.
  pose proof (allfreed_allempty s H AF) as E.
  unfold release. rewrite Ei, Ed. cbn [fst map app].
  unfold iteration. cbv zeta. cbn [done set_done set_inflight set_now work_done].
  set (sc := set_closingq _ []).
  change (closingq (set_done (set_now (set_inflight (set_done s []) [])
                                      (clock (set_inflight (set_done s []) []))) []))
    with (closingq s).
  assert (Ac : AC sc) by exact A.
  assert (Ec : allempty sc) by exact E.
  assert (Uc : ut sc = []) by exact U.
  pose proof (run_closing_empty (closingq s) sc beh cnt Ac Uc Ec B) as Q.
  assert (Hc : R [] (closingq s) None sc).
  { destruct H as [S (N & C & I & G)]. split; [eapply SI_same; [| |exact S]; reflexivity|].
    split; [exact N|]. split; [exact C|]. split.
    - intros c L. destruct (I c L) as [Y|[Y|[Y|[Y|[Y|[Y|Y]]]]]]; unfold J.
      + rewrite Ei in Y. destruct Y.
      + rewrite Ed in Y. destruct Y.
      + destruct Y.
      + right; right; right; right; left. exact Y.
      + destruct Y.
      + right; right; right; right; right; left. exact Y.
      + discriminate.
    - intros h P. destruct (G h P) as [Y|Y]; auto. }
  pose proof (R_run_closing [] (closingq s) sc beh cnt Hc) as C1.
  pose proof (run_closing_AC (closingq s) sc beh cnt Ac Uc B) as C2. cbv zeta in C2.
  destruct (run_closing (closingq s) sc beh cnt) as [[sd e2] n2]. cbn [fst] in *.
  destruct C2 as (F2 & _).
  set (se := set_now sd (clock sd)).
  assert (He : SI se) by (destruct C1 as [S _]; eapply SI_same; [| |exact S]; reflexivity).
  assert (Ae : AC se) by (eapply AC_Fr; eauto).
  assert (Ue : ut se = []).
  { destruct F2 as (_ & _ & _ & _ & _ & _ & Fu). change (ut se) with (ut sd). rewrite Fu. exact U. }
  rewrite (run_timers_none true beh se n2 (no_armed se He Ae) Ue). cbn [fst].
  change (closingq se) with (closingq sd).
  rewrite Q. reflexivity.
Qed.

(* a state in which nothing is left *)
Lemma finished s :
  R [] [] None s -> AC s -> allfreed s -> inflight s = [] -> done s = [] -> closingq s = [] ->
  alive s = false /\ loop_close s = 0 /\ live_ctx s = 0%nat.
Proof.
  intros H A AF Ei Ed Eq.
  pose proof (allfreed_allempty s H AF) as E.
  assert (NoAct : existsb h_active (hs s) = false).
  { destruct (existsb h_active (hs s)) eqn:X; auto. apply existsb_exists in X.
    destruct X as (x & I & Ax). destruct (In_nth _ _ dflt_h I) as (n & L & En).
    destruct (A n L) as [_ Na]. unfold geth in Na. rewrite En in Na. congruence. }
  assert (AllClosed : forallb h_closed (hs s) = true).
  { apply forallb_forall. intros x I. destruct (In_nth _ _ dflt_h I) as (n & L & En).
    destruct (h_closed x) eqn:Cx; auto. exfalso.
    destruct H as [_ (_ & _ & _ & G)]. destruct (A n L) as [Cl _].
    destruct (G n) as [Y|Y]; [|rewrite Eq in Y; destruct Y|destruct Y].
    unfold pend, geth in *. rewrite En in *. specialize (E n). unfold geth in E. rewrite En in E. auto. }
  split; [|split].
  - unfold alive. rewrite NoAct, Ei, Ed, Eq. reflexivity.
  - unfold loop_close. rewrite AllClosed, Ei, Ed. reflexivity.
  - unfold live_ctx.
    assert (X : filter (fun x => negb (c_freed x)) (cs s) = []).
    { destruct (filter (fun x => negb (c_freed x)) (cs s)) as [|x l] eqn:F; auto. exfalso.
      assert (I : In x (filter (fun x => negb (c_freed x)) (cs s))) by (rewrite F; left; reflexivity).
      apply filter_In in I. destruct I as [I Nx]. destruct (In_nth _ _ dflt_ctx I) as (n & L & En).
      specialize (AF n L). unfold getc in AF. rewrite En in AF. rewrite AF in Nx. discriminate. }
    rewrite X. reflexivity.
Qed.

Theorem drain_closes_clean :
  forall fuel s res beh cnt,
  R [] [] None s -> AC s -> (forall k, Forall noinit (beh k)) -> ut s = [] ->
  let s' := fst (fst (drain true (S (S fuel)) s res beh cnt)) in
  loop_close s' = 0 /\ live_ctx s' = 0%nat.
Proof.
  intros fuel s res beh cnt H A B U.
  pose proof (round_AC s res beh cnt H A B U) as X. cbv zeta in X.
  cbn [drain].
  destruct (release s res) as [s1 e1] eqn:Er. cbn [fst] in X.
  destruct (iteration true s1 beh cnt) as [[s2 e2] n2] eqn:Ei. cbn [fst] in X.
  destruct X as (H2 & A2 & AF2 & I2 & D2 & U2).
  destruct (alive s2) eqn:Al.
  - pose proof (round_AC s2 res beh n2 H2 A2 B U2) as Y. cbv zeta in Y.
    pose proof (round2_AC s2 res beh n2 H2 A2 AF2 I2 D2 B U2) as Q.
    destruct (release s2 res) as [s3 e3] eqn:Er2. cbn [fst] in Y, Q.
    destruct (iteration true s3 beh n2) as [[s4 e4] n4] eqn:Ei2. cbn [fst] in Y, Q.
    destruct Y as (H4 & A4 & AF4 & I4 & D4 & U4).
    destruct (finished s4 H4 A4 AF4 I4 D4 Q) as (Na & LC & LV).
    rewrite Na. cbn [fst]. auto.
  - cbn [fst].
    assert (Q : closingq s2 = []).
    { unfold alive in Al. rewrite I2, D2 in Al. cbn in Al.
      destruct (closingq s2); auto. rewrite orb_true_r in Al. discriminate. }
    destruct (finished s2 H2 A2 AF2 I2 D2 Q) as (_ & LC & LV). auto.
Qed.

(* ------------------------------------------------------------------ *)
(* a closing handle is stopped (uv_close stops it, start is not called on it) *)
(* ------------------------------------------------------------------ *)
Definition CI (s : st) : Prop := forall h, h_closing (geth s h) = true -> h_active (geth s h) = false.

Lemma CI_same s s' : hs s' = hs s -> CI s -> CI s'.
Proof. intros E H h. unfold geth in *. rewrite E. apply H. Qed.

Lemma CI_flags s s' :
  (forall h, h_closing (geth s' h) = h_closing (geth s h) /\ h_active (geth s' h) = h_active (geth s h)) ->
  CI s -> CI s'.
Proof. intros F H h Cl. destruct (F h) as [F1 F2]. rewrite F1 in Cl. rewrite F2. auto. Qed.

Lemma do_stop_flags s h :
  length (hs (do_stop s h)) = length (hs s) /\
  (forall h0, h_closing (geth (do_stop s h) h0) = h_closing (geth s h0)) /\
  (forall h0, h0 <> h -> h_active (geth (do_stop s h) h0) = h_active (geth s h0)) /\
  h_active (geth (do_stop s h) h) = false.
Proof.
  unfold do_stop. destruct (h_active (geth s h)) eqn:Ha; cbn [negb]; [|repeat split; auto].
  set (s1 := match h_chain (geth s h) with [] => s | c :: _ => _ end).
  assert (E : hs s1 = hs s).
  { unfold s1. destruct (h_chain (geth s h)); auto. destruct (timer_active _); reflexivity. }
  assert (G : forall h0, geth s1 h0 = geth s h0) by (intros; unfold geth; rewrite E; reflexivity).
  split; [rewrite len_hs_upd_h, E; reflexivity|].
  split; [|split].
  - intros h0. rewrite geth_upd_h, G. destruct (Nat.eqb h h0 && Nat.ltb h (length (hs s1))); reflexivity.
  - intros h0 Ne. rewrite geth_upd_h, G. destruct (Nat.eqb_spec h h0); [congruence|reflexivity].
  - rewrite geth_upd_h, G, Nat.eqb_refl, E. cbn [andb].
    destruct (Nat.ltb_spec h (length (hs s))); [reflexivity|].
    unfold geth in Ha. rewrite nth_overflow in Ha by auto. discriminate.
Qed.

Lemma CI_do_stop s h : CI s -> CI (do_stop s h).
Proof.
  intros H h0 Cl. destruct (do_stop_flags s h) as (_ & F1 & F2 & F3).
  rewrite F1 in Cl. destruct (Nat.eq_dec h0 h) as [->|Ne]; [exact F3|]. rewrite F2 by auto. auto.
Qed.

Lemma do_close_flags s h :
  length (hs (do_close s h)) = length (hs s) /\
  (forall h0, h0 <> h -> h_closing (geth (do_close s h) h0) = h_closing (geth s h0) /\
                         h_active (geth (do_close s h) h0) = h_active (geth s h0)) /\
  h_active (geth (do_close s h) h) = false /\
  ((h < length (hs s))%nat -> h_closing (geth (do_close s h) h) = true).
Proof.
  unfold do_close. set (s0 := upd_h s h h_set_closing). set (s1 := do_stop s0 h).
  destruct (do_stop_flags s0 h) as (L & F1 & F2 & F3). fold s1 in L, F1, F2, F3.
  assert (K : length (hs s1) = length (hs s) /\
    (forall h0, h0 <> h -> h_closing (geth s1 h0) = h_closing (geth s h0) /\
                           h_active (geth s1 h0) = h_active (geth s h0)) /\
    h_active (geth s1 h) = false /\
    ((h < length (hs s))%nat -> h_closing (geth s1 h) = true)).
  { split; [rewrite L; apply len_hs_upd_h|]. split; [|split; auto].
    - intros h0 Ne. rewrite F1, F2 by auto. unfold s0. rewrite geth_upd_h.
      destruct (Nat.eqb_spec h h0); [congruence|]. auto.
    - intros Lh. rewrite F1. unfold s0. rewrite geth_upd_h, Nat.eqb_refl. cbn [andb].
      destruct (Nat.ltb_spec h (length (hs s))); [reflexivity|lia]. }
  destruct (h_chain (geth s1 h)); exact K.
Qed.

Lemma CI_do_close s h : CI s -> CI (do_close s h).
Proof.
  intros H h0 Cl. destruct (do_close_flags s h) as (_ & F1 & F2 & _).
  destruct (Nat.eq_dec h0 h) as [->|Ne]; [exact F2|].
  destruct (F1 h0 Ne) as [A B]. rewrite A in Cl. rewrite B. auto.
Qed.

Lemma CI_do_start s h cb p iv fl :
  h_closing (geth s h) = false -> CI s -> CI (fst (do_start s h cb p iv fl)).
Proof.
  intros Nc H. unfold do_start. destruct (h_active (geth s h)); [exact H|].
  assert (K : forall X : st, hs X = hs s ->
              CI (upd_h X h (fun x => h_set_active true (h_set_chain (length (cs s) :: h_chain x) x)))).
  { intros X E h0 Cl. rewrite geth_upd_h in *.
    assert (G : geth X h0 = geth s h0) by (unfold geth; rewrite E; reflexivity). rewrite G in *.
    destruct (Nat.eqb_spec h h0) as [Eh|Ne]; cbn [andb] in *; [|auto].
    subst h0. destruct (Nat.ltb h (length (hs X))); [|auto]. cbn in Cl. congruence. }
  destruct fl as [|[|[|[|fl]]]]; cbn [fst]; try exact H; try (apply K; reflexivity).
Qed.

Lemma CI_api s o : CI s -> CI (fst (api s o)).
Proof.
  intros H. destruct o; cbn [api fst]; auto.
  - intros h Cl. unfold geth, set_hs in *. cbn [hs] in *.
    destruct (Nat.lt_ge_cases h (length (hs s))) as [L|L].
    + rewrite app_nth1 in * by auto. apply H; auto.
    + destruct (Nat.eq_dec h (length (hs s))) as [->|Ne].
      * rewrite nth_middle in *. reflexivity.
      * rewrite nth_overflow in * by (rewrite app_length; cbn; lia). reflexivity.
  - destruct (valid s h && negb (h_closing (geth s h))) eqn:G; auto.
    apply andb_true_iff in G. destruct G as [_ G]. apply negb_true_iff in G.
    pose proof (CI_do_start s h cb path interval fail G H) as X.
    destruct (do_start s h cb path interval fail); auto.
  - destruct (valid s h && negb (h_closed (geth s h))); cbn [fst]; auto. apply CI_do_stop; auto.
  - destruct (valid s h && negb (h_closing (geth s h))); cbn [fst]; auto. apply CI_do_close; auto.
  - cbn [fst]. apply (do_walk_inv CI).
    + intros s0 h0 _ H0. apply CI_do_close; auto.
    + intros s0 l H0. exact H0.
    + exact H.
Qed.

Lemma CI_apis os : forall s, CI s -> CI (fst (apis s os)).
Proof.
  induction os as [|o os IH]; intros s H; cbn [apis]; auto.
  pose proof (CI_api s o H) as X. destruct (api s o) as [s1 e1]. cbn [fst] in X.
  pose proof (IH s1 X) as Y. destruct (apis s1 os) as [s2 e2]. exact Y.
Qed.

Lemma CI_user_cb s ev beh cnt : CI s -> CI (fst (fst (user_cb s ev beh cnt))).
Proof.
  intros H. unfold user_cb. pose proof (CI_apis (beh cnt) s H) as X. destruct (apis s (beh cnt)); exact X.
Qed.

Lemma CI_poll_cb fx s c res beh cnt : CI s -> CI (fst (fst (poll_cb fx s c res beh cnt))).
Proof.
  intros H. rewrite poll_cb_split. cbv zeta.
  set (s0 := upd_c s c (c_set_inflight false)).
  assert (H0 : CI s0) by exact H.
  assert (M : CI (fst (fst (mid fx s0 c res beh cnt)))).
  { unfold mid. destruct (gone fx s0 (c_parent (getc s0 c)) c); auto.
    destruct res as [r sb]. destruct (negb (r =? 0)).
    - destruct (negb (c_busy (getc s0 c) =? r)); auto.
      pose proof (CI_user_cb s0 (EPoll (c_parent (getc s0 c)) (c_cb (getc s0 c)) (c_path (getc s0 c)) r
                                       (c_sb (getc s0 c)) zero_sb) beh cnt H0) as X.
      destruct (user_cb s0 _ beh cnt) as [[s' e] n]. exact X.
    - destruct (negb (c_busy (getc s0 c) =? 0) && _); [|exact H0].
      pose proof (CI_user_cb s0 (EPoll (c_parent (getc s0 c)) (c_cb (getc s0 c)) (c_path (getc s0 c)) 0
                                       (c_sb (getc s0 c)) sb) beh cnt H0) as X.
      destruct (user_cb s0 _ beh cnt) as [[s' e] n]. exact X. }
  destruct (mid fx s0 c res beh cnt) as [[s1 ev] n]. cbn [fst] in *.
  unfold out_part. destruct (gone fx s1 (c_parent (getc s0 c)) c); exact M.
Qed.

Lemma CI_work_done fx l : forall s beh cnt, CI s -> CI (fst (fst (work_done fx l s beh cnt))).
Proof.
  induction l as [|[c r] l IH]; intros s beh cnt H; cbn [work_done]; auto.
  pose proof (CI_poll_cb fx s c r beh cnt H) as X.
  destruct (poll_cb fx s c r beh cnt) as [[s1 e1] n1]. cbn [fst] in X.
  pose proof (IH s1 beh n1 X) as Y. destruct (work_done fx l s1 beh n1) as [[s2 e2] n2]. exact Y.
Qed.

Lemma CI_run_closing q : forall s beh cnt, CI s -> CI (fst (fst (run_closing q s beh cnt))).
Proof.
  induction q as [|[c|h] q IH]; intros s beh cnt H; cbn [run_closing]; auto.
  - apply IH. destruct (timer_close_cb_Fr s c) as [(F & _) _]. eapply CI_flags; eauto.
  - assert (H1 : CI (upd_h s h h_set_closed)).
    { eapply CI_flags; [|exact H]. intros h'. rewrite geth_upd_h.
      destruct (Nat.eqb h h' && Nat.ltb h (length (hs s))); auto. }
    pose proof (CI_user_cb _ (EClosed h (live_of s h)) beh cnt H1) as X.
    destruct (user_cb (upd_h s h h_set_closed) (EClosed h (live_of s h)) beh cnt) as [[s1 e1] n1]. cbn [fst] in X.
    pose proof (IH s1 beh n1 X) as Y. destruct (run_closing q s1 beh n1) as [[s2 e2] n2]. exact Y.
Qed.

Lemma CI_run_timers fx beh s cnt : CI s -> CI (fst (fst (run_timers fx beh s cnt))).
Proof.
  apply (run_timers_inv CI).
  - intros s0 c H. exact H.
  - intros s0 l H. exact H.
  - intros s0 c H. unfold timer_fire. destruct (fx && _); exact H.
  - intros s0 os H. apply CI_apis; auto.
Qed.

Lemma CI_iteration fx s beh cnt : CI s -> CI (fst (fst (iteration fx s beh cnt))).
Proof.
  intros H. unfold iteration. cbv zeta.
  set (s0 := set_now s (clock s)).
  pose proof (CI_work_done fx (done s0) (set_done s0 []) beh cnt H) as X.
  destruct (work_done fx (done s0) (set_done s0 []) beh cnt) as [[s1 e1] n1]. cbn [fst] in X.
  pose proof (CI_run_closing (closingq s1) (set_closingq s1 []) beh n1 X) as Y.
  destruct (run_closing (closingq s1) (set_closingq s1 []) beh n1) as [[s2 e2] n2]. cbn [fst] in *.
  pose proof (CI_run_timers fx beh (set_now s2 (clock s2)) n2 Y) as Z.
  destruct (run_timers fx beh (set_now s2 (clock s2)) n2) as [[s3 e3] n3]. exact Z.
Qed.

Lemma CI_drain fx fuel : forall s res beh cnt, CI s -> CI (fst (fst (drain fx fuel s res beh cnt))).
Proof.
  induction fuel as [|f IH]; intros s res beh cnt H; cbn [drain]; auto.
  assert (X : CI (fst (release s res))) by exact H.
  destruct (release s res) as [s1 e1]. cbn [fst] in X.
  pose proof (CI_iteration fx s1 beh cnt X) as Y.
  destruct (iteration fx s1 beh cnt) as [[s2 e2] n2]. cbn [fst] in Y.
  destruct (alive s2); auto.
  pose proof (IH s2 res beh n2 Y) as Z. destruct (drain fx f s2 res beh n2) as [[s3 e3] n3]. exact Z.
Qed.

Lemma CI_run fx os : forall s beh cnt, CI s -> CI (fst (run fx s os beh cnt)).
Proof.
  induction os as [|o os IH]; intros s beh cnt H; [exact H|].
  destruct o; cbn [run].
  all: try (match goal with
            | Hs : CI ?s0, IHx : forall s beh cnt, CI s -> _ |- context [api ?s0 ?o] =>
                let X := fresh "X" in let Y := fresh "Y" in
                pose proof (CI_api s0 o Hs) as X;
                destruct (api s0 o) as [s1 e1]; cbn [fst] in X;
                pose proof (IHx s1 beh cnt X) as Y; destruct (run fx s1 os beh cnt); exact Y
            end).
  - assert (X : CI (fst (release s res))) by exact H.
    destruct (release s res) as [s1 e1]. cbn [fst] in X.
    pose proof (IH s1 beh cnt X) as Y. destruct (run fx s1 os beh cnt); exact Y.
  - apply IH. exact H.
  - pose proof (CI_iteration fx s beh cnt H) as X.
    destruct (iteration fx s beh cnt) as [[s1 e1] n1]. cbn [fst] in X.
    pose proof (IH s1 beh n1 X) as Y. destruct (run fx s1 os beh n1); exact Y.
  - apply IH. exact H.
  - assert (H' : CI (set_ut s [])) by exact H.
    pose proof (CI_drain fx drain_fuel _ res beh cnt H') as X.
    destruct (drain fx drain_fuel (set_ut s []) res beh cnt) as [[s1 e1] n1]. cbn [fst] in X.
    pose proof (IH s1 beh n1 X) as Y. destruct (run fx s1 os beh n1); exact Y.
Qed.

Lemma CI_init t0 : CI (init t0).
Proof. intros h Cl. unfold geth in *. cbn in *. destruct h; discriminate. Qed.

(* uv_close on every handle *)
Lemma close_list_AC l : forall s, CI s ->
  let s' := fst (apis s (map OClose l)) in
  CI s' /\ length (hs s') = length (hs s) /\
  (forall h, h_closing (geth s h) = true -> h_closing (geth s' h) = true) /\
  (forall h, In h l -> (h < length (hs s))%nat -> h_closing (geth s' h) = true).
Proof.
  induction l as [|h0 l IH]; intros s H; cbn [map apis].
  - cbn. split; [exact H|]. split; [reflexivity|]. split; [auto|]. intros h [].
  - assert (K : CI (fst (api s (OClose h0))) /\ length (hs (fst (api s (OClose h0)))) = length (hs s) /\
               (forall h, h_closing (geth s h) = true -> h_closing (geth (fst (api s (OClose h0))) h) = true) /\
               ((h0 < length (hs s))%nat -> h_closing (geth (fst (api s (OClose h0))) h0) = true)).
    { split; [apply CI_api; auto|]. cbn [api]. unfold valid.
      destruct (Nat.ltb_spec h0 (length (hs s))) as [L|L]; cbn [andb]; [|repeat split; auto; lia].
      destruct (h_closing (geth s h0)) eqn:Cl; cbn [negb fst]; [repeat split; auto|].
      destruct (do_close_flags s h0) as (F0 & F1 & _ & F3).
      split; [exact F0|]. split; [|exact F3].
      intros h Ch. destruct (Nat.eq_dec h h0) as [->|Ne]; [congruence|].
      destruct (F1 h Ne) as [A _]. rewrite A. exact Ch. }
    destruct (api s (OClose h0)) as [s1 e1]. cbn [fst] in K. destruct K as (K1 & K2 & K3 & K4).
    pose proof (IH s1 K1) as X. cbv zeta in X.
    destruct (apis s1 (map OClose l)) as [s2 e2]. cbn [fst] in *.
    destruct X as (X1 & X2 & X3 & X4).
    split; [exact X1|]. split; [congruence|]. split.
    + intros h Ch. apply X3. apply K3. exact Ch.
    + intros h [<-|I] L; [apply X3; apply K4; exact L|]. apply X4; auto. rewrite K2. exact L.
Qed.

Lemma close_all_AC s : CI s -> AC (close_all s).
Proof.
  intros H. unfold close_all.
  pose proof (close_list_AC (seq 0 (length (hs s))) s H) as X. cbv zeta in X.
  destruct X as (X1 & X2 & _ & X4).
  intros h L. rewrite X2 in L.
  assert (Cl : h_closing (geth (fst (apis s (map OClose (seq 0 (length (hs s)))))) h) = true).
  { apply X4; auto. apply in_seq. lia. }
  split; [exact Cl|]. apply X1. exact Cl.
Qed.

(* ------------------------------------------------------------------ *)
(* C17_close_waits_for_stat / C17_ctx_all_freed / C17_never_blocks_loop_close *)
(* ------------------------------------------------------------------ *)
Lemma ut_do_stop s h : ut (do_stop s h) = ut s.
Proof.
  unfold do_stop. destruct (negb (h_active (geth s h))); auto.
  destruct (h_chain (geth s h)); auto. destruct (timer_active _); reflexivity.
Qed.

Lemma ut_api_close s h : ut (fst (api s (OClose h))) = ut s.
Proof.
  cbn [api]. destruct (valid s h && negb (h_closing (geth s h))); cbn [fst]; auto.
  unfold do_close. set (s1 := do_stop _ h).
  assert (E : ut s1 = ut s) by (unfold s1; rewrite ut_do_stop; reflexivity).
  destruct (h_chain (geth s1 h)); exact E.
Qed.

Lemma ut_apis_close l : forall s, ut (fst (apis s (map OClose l))) = ut s.
Proof.
  induction l as [|h l IH]; intros s; cbn [map apis]; auto.
  pose proof (ut_api_close s h) as X. destruct (api s (OClose h)) as [s1 e1]. cbn [fst] in X.
  pose proof (IH s1) as Y. destruct (apis s1 (map OClose l)) as [s2 e2]. cbn [fst] in *. congruence.
Qed.

Theorem closes_clean_current : closes_clean_stmt true.
Proof.
  intros t0 os beh res B.
  set (s := set_ut (fst (run true (init t0) os beh 0)) []).
  assert (HR0 : R [] [] None (fst (run true (init t0) os beh 0))) by (apply R_run; apply R_init).
  assert (HR : R [] [] None s).
  { destruct HR0 as [S H]. split; [eapply SI_same; [| |exact S]; reflexivity|].
    eapply R4_same; [| | | | |exact H]; reflexivity. }
  assert (HC : CI s) by (apply (CI_run true os (init t0) beh 0%nat); apply CI_init).
  assert (HR' : R [] [] None (close_all s)) by (apply R_apis; exact HR).
  assert (HA : AC (close_all s)) by (apply close_all_AC; exact HC).
  assert (B' : forall k, Forall noinit (beh k)) by exact B.
  assert (U : ut (close_all s) = []) by (unfold close_all; rewrite ut_apis_close; reflexivity).
  exact (drain_closes_clean 62 (close_all s) res beh 0%nat HR' HA B' U).
Qed.

(* every reachable state of the current code satisfies R: every context that is not freed is
   waiting somewhere it will be served from, chains hold live contexts only, and a closing
   handle without context is in the closing list *)
Theorem reachable_R : forall t0 os beh, R [] [] None (fst (run true (init t0) os beh 0)).
Proof. intros. apply R_run. apply R_init. Qed.
