(* C03, part 3: the blocking rules (poll timeout), the clock across io_poll,
   and uv_stop. *)
From UV Require Import Lib.Base Model.Heap Model.Timer Model.LoopCore
  Proofs.TimerProofs Proofs.C03Base Proofs.C03Order Proofs.C03Step Proofs.UvRunAlt.

Local Open Scope Z_scope.

(* ================= whole iterations and runs are Steps ================= *)
Lemma iteration_step beh s mode : Step beh s (fst (iteration s beh mode)).
Proof.
  destruct (iteration s beh mode) as [s' evs] eqn:E. cbn [fst].
  destruct (iteration_phases _ _ _ _ _ E)
    as (s1 & e1 & s2 & e2 & s3 & e3 & s4 & e4 & s5 & e5 & e6 & H1 & H2 & H3 & H4 & H5 & H6 & _).
  assert (A1 : Step beh s s1) by (rewrite <- (fst_eq _ _ _ H1); apply run_watchers_step).
  assert (A2 : Step beh s1 s2) by (rewrite <- (fst_eq _ _ _ H2); apply run_watchers_step).
  assert (A3 : Step beh (set_dirty s2 false) s3) by (rewrite <- (fst_eq _ _ _ H3); apply io_poll_step).
  assert (A4 : Step beh s3 s4) by (rewrite <- (fst_eq _ _ _ H4); apply run_watchers_step).
  assert (A5 : Step beh (set_closing s4 []) s5) by (rewrite <- (fst_eq _ _ _ H5); apply run_closing_step).
  assert (A6 : Step beh (update_time s5) s') by (rewrite <- (fst_eq _ _ _ H6); apply l_run_timers_step).
  eapply Step_trans; [exact A1|]. eapply Step_trans; [exact A2|].
  eapply Step_trans; [apply (Step_core beh s2 (set_dirty s2 false)); reflexivity|].
  eapply Step_trans; [exact A3|]. eapply Step_trans; [exact A4|].
  eapply Step_trans; [apply (Step_core beh s4 (set_closing s4 [])); reflexivity|].
  eapply Step_trans; [exact A5|].
  eapply Step_trans; [apply Step_update_time|exact A6].
Qed.

Lemma loop_iters_step beh mode s its s' : loop_iters beh mode s its s' -> Step beh s s'.
Proof.
  induction 1.
  - apply Step_refl.
  - rewrite <- (fst_eq _ _ _ H). apply iteration_step.
  - eapply Step_trans; [|eassumption]. rewrite <- (fst_eq _ _ _ H). apply iteration_step.
Qed.

Lemma run_loop_step beh fuel s mode :
  Step beh s (fst (fst (run_loop fuel s beh mode))).
Proof.
  destruct (run_loop fuel s beh mode) as [[s' evs] r] eqn:E. cbn [fst].
  destruct (run_loop_iters _ _ _ _ _ _ _ E) as (its & H & _). eapply loop_iters_step; eauto.
Qed.

(* the clock invariant: loop time never runs ahead of the clock *)
Definition ClockInv (s : lstate) : Prop := now (ts s) <= clock s.

Lemma ClockInv_init t0 m : ClockInv (linit t0 m).
Proof. unfold ClockInv. cbn. lia. Qed.

Lemma Step_clock beh s s' : Step beh s s' -> ClockInv s ->
  ClockInv s' /\ now (ts s) <= now (ts s') /\ clock s <= clock s'.
Proof.
  unfold ClockInv. intros (_ & _ & _ & C & _ & N) H. destruct (N H). auto.
Qed.

(* uv_run clears stop_flag at its end, so it is a Step only up to that *)
Lemma uv_run_time beh fuel s mode : ClockInv s ->
  let s' := fst (uv_run fuel s beh mode) in
  ClockInv s' /\ now (ts s) <= now (ts s') /\ clock s <= clock s' /\
  (cbcount s <= cbcount s')%nat /\ metrics s' = metrics s.
Proof.
  intros CI. cbv zeta. rewrite uv_run_alt_eq. unfold uv_run_alt.
  set (r := loop_alive s).
  set (s0 := if r then s else update_time s).
  assert (S0 : Step beh s s0).
  { subst s0. destruct r; [apply Step_refl|apply Step_update_time]. }
  match goal with |- context [if ?c then ?a else ?b] =>
    assert (S1 : Step beh s0 (fst (if c then a else b)));
    [destruct c; cbn [fst]|destruct (if c then a else b) as [s1 e0]] end.
  - eapply Step_trans; [apply Step_update_time|apply l_run_timers_step].
  - apply Step_refl.
  - cbn [fst] in S1.
    match goal with |- context [if ?c then ?a else ?b] =>
      assert (S2 : Step beh s1 (fst (fst (if c then a else b))));
      [destruct c; cbn [fst]|destruct (if c then a else b) as [[s2 e1] r']] end.
    + apply run_loop_step.
    + apply Step_refl.
    + cbn [fst] in *.
      assert (S : Step beh s s2) by (eapply Step_trans; [exact S0|eapply Step_trans; eauto]).
      destruct (Step_clock _ _ _ S CI) as (A & B & C).
      unfold ClockInv in *. lcbn. destruct S as (S & _ & _ & _ & M & _). auto.
Qed.

Lemma lrun_clock beh os : forall s, ClockInv s -> ClockInv (fst (lrun s os beh)).
Proof.
  induction os as [|o os IH]; intros s CI; [exact CI|].
  assert (Hgen : forall s1 e1, lapi s o = (s1, e1) ->
            ClockInv (fst (let '(s2, e2) := lrun s1 os beh in (s2, e1 ++ e2)))).
  { intros s1 e1 E. pose proof (lapi_quiet s o) as Q. rewrite E in Q. cbn [fst] in Q.
    assert (CI1 : ClockInv s1).
    { unfold ClockInv in *. destruct Q as (_ & _ & Q3 & _ & Q5). lia. }
    pose proof (IH s1 CI1) as H. destruct (lrun s1 os beh). exact H. }
  destruct o; cbn [lrun];
    try (destruct (lapi s _) as [s1 e1]; exact (Hgen s1 e1 eq_refl)).
  - pose proof (uv_run_time beh run_fuel s mode CI) as (A & _).
    destruct (uv_run run_fuel s beh mode) as [s1 e1]. cbn [fst] in A.
    pose proof (IH s1 A) as H. destruct (lrun s1 os beh). exact H.
  - pose proof (IH s CI) as H. destruct (lrun s os beh). exact H.
Qed.

(* ================= the blocking rules ================= *)
(* when the poll must not block *)
Definition zero_rule (s s2 : lstate) (mode : nat) : Prop :=
  (mode <> 0%nat /\ mode <> 1%nat) \/          (* UV_RUN_NOWAIT *)
  (mode = 1%nat /\ idle_q s <> []) \/           (* ONCE, an idle handle was queued at iteration start *)
  stop_flag s2 = true \/
  idle_q s2 <> [] \/
  closing s2 <> [] \/
  (nact s2 <= 0 /\ nreq s2 <= 0).

Lemma is_nil_true {A} (l : list A) : match l with [] => true | _ => false end = true <-> l = [].
Proof. destruct l; split; intros H; auto; discriminate. Qed.

Lemma is_nil_false {A} (l : list A) : match l with [] => true | _ => false end = false <-> l <> [].
Proof. destruct l; split; intros H; auto; try discriminate; congruence. Qed.

Definition bt_zero (s : lstate) : Prop :=
  stop_flag s = true \/ idle_q s <> [] \/ closing s <> [] \/ (nact s <= 0 /\ nreq s <= 0).

Lemma backend_timeout_rules s :
  (bt_zero s -> backend_timeout s = 0) /\
  (~ bt_zero s -> backend_timeout s = next_timeout (ts s)).
Proof.
  unfold backend_timeout, bt_zero.
  destruct (stop_flag s); cbn [negb andb].
  { split; [reflexivity|]. intros H; exfalso; apply H; auto. }
  destruct (Z.ltb_spec 0 (nact s)) as [Ha|Ha]; destruct (Z.ltb_spec 0 (nreq s)) as [Hr|Hr];
    cbn [orb andb];
    destruct (idle_q s) as [|x xs]; destruct (closing s) as [|y ys]; cbn [andb];
    (split; [intros H; try reflexivity;
              destruct H as [H|[H|[H|[H1 H2]]]]; try discriminate; try congruence; try lia
            |intros H; try reflexivity; exfalso; apply H;
              try (right; left; discriminate); try (right; right; left; discriminate);
              try (right; right; right; lia)]).
Qed.

Theorem poll_timeout_rules s s2 mode :
  (zero_rule s s2 mode -> poll_timeout s s2 mode = 0) /\
  (~ zero_rule s s2 mode -> poll_timeout s s2 mode = next_timeout (ts s2)) /\
  -1 <= poll_timeout s s2 mode <= int_max /\
  (forall k, heap_min (hp (ts s2)) = Some k ->
     now (ts s2) + poll_timeout s s2 mode <= Z.max (now (ts s2)) (k_timeout k)).
Proof.
  pose proof (backend_timeout_rules s2) as (BZ & BN).
  pose proof (next_timeout_bound (ts s2)) as (NB & ND).
  assert (ZR : zero_rule s s2 mode <->
               ((Nat.eqb mode 1 && match idle_q s with [] => true | _ => false end) || Nat.eqb mode 0 = false
                \/ bt_zero s2)).
  { unfold zero_rule, bt_zero.
    destruct (Nat.eqb_spec mode 0) as [->|H0]; cbn [orb andb].
    - rewrite orb_true_r. split.
      + intros [[H _]|[[H _]|H]]; try congruence. right; exact H.
      + intros [H|H]; [discriminate|]. right; right; exact H.
    - rewrite orb_false_r. destruct (Nat.eqb_spec mode 1) as [->|H1]; cbn [andb].
      + rewrite is_nil_false. split.
        * intros [[_ H]|[[_ H]|H]]; try congruence; auto.
        * intros [H|H]; [right; left; auto|right; right; exact H].
      + split; auto. }
  assert (PZ : zero_rule s s2 mode -> poll_timeout s s2 mode = 0).
  { intros H. apply ZR in H. unfold poll_timeout. destruct H as [->|H]; [reflexivity|].
    destruct (_ || _); [apply BZ; exact H|reflexivity]. }
  assert (PN : ~ zero_rule s s2 mode -> poll_timeout s s2 mode = next_timeout (ts s2)).
  { intros H. unfold poll_timeout.
    destruct ((Nat.eqb mode 1 && match idle_q s with [] => true | _ => false end) || Nat.eqb mode 0) eqn:E.
    - apply BN. intros B. apply H, ZR. right; exact B.
    - exfalso. apply H, ZR. left; reflexivity. }
  split; [exact PZ|]. split; [exact PN|].
  assert (D : poll_timeout s s2 mode = 0 \/ poll_timeout s s2 mode = next_timeout (ts s2)).
  { unfold poll_timeout, backend_timeout. repeat break_if; auto. }
  split.
  - destruct D as [-> | ->]; [unfold int_max; lia|exact NB].
  - intros k Hk. destruct D as [-> | ->]; [lia|apply ND; exact Hk].
Qed.

(* what uv_backend_timeout() reports *)
Theorem backend_timeout_reports s :
  lapi s LBackendTimeout = (s, [VBt (if io_dirty s then 0 else backend_timeout s)]).
Proof. reflexivity. Qed.

(* in DEFAULT mode (and in ONCE mode unless an idle handle was queued) the
   poller is handed exactly uv__backend_timeout of the state after prepare *)
Lemma poll_timeout_is_backend s s2 mode :
  mode = 0%nat \/ (mode = 1%nat /\ idle_q s = []) ->
  poll_timeout s s2 mode = backend_timeout s2.
Proof.
  unfold poll_timeout. intros [->|[-> ->]]; reflexivity.
Qed.

(* ================= loop time is not touched by callbacks ================= *)
Lemma Quiet_now s s' : Quiet s s' -> now (ts s') = now (ts s).
Proof. intros (_ & _ & _ & _ & H). exact H. Qed.

Lemma callback_now s beh tag i : now (ts (fst (callback s beh tag i))) = now (ts s).
Proof.
  rewrite callback_eq. cbn [fst].
  rewrite (Quiet_now _ _ (lapis_quiet _ _)). reflexivity.
Qed.

Lemma core_now s s' : core s' = core s -> now (ts s') = now (ts s).
Proof. unfold core. intros H. inversion H. reflexivity. Qed.

Lemma run_lq_now fuel : forall s beh k tag,
  now (ts (fst (run_lq fuel s beh k tag))) = now (ts s).
Proof.
  induction fuel as [|f IH]; intros s beh k tag; cbn [run_lq]; [reflexivity|].
  destruct (lq s) as [|i rest]; [reflexivity|]. cbv zeta.
  match goal with |- context [callback ?s0 beh tag i] =>
    pose proof (callback_now s0 beh tag i) as H1; destruct (callback s0 beh tag i) as [s3 e1] end.
  pose proof (IH s3 beh k tag) as H2. destruct (run_lq f s3 beh k tag) as [s4 e2].
  cbn [fst] in *. rewrite H2, H1. apply core_now. rewrite core_wq_set. reflexivity.
Qed.

Lemma run_watchers_now s beh k tag :
  now (ts (fst (run_watchers s beh k tag))) = now (ts s).
Proof.
  unfold run_watchers. rewrite run_lq_now. apply core_now.
  match goal with |- core (set_lq ?x ?v) = _ => change (core (set_lq x v)) with (core x) end.
  apply core_wq_set.
Qed.

Lemma run_wq_now l : forall s beh, now (ts (fst (run_wq l s beh))) = now (ts s).
Proof.
  induction l as [|w rest IH]; intros s beh; cbn [run_wq]; [reflexivity|]. cbv zeta.
  match goal with |- context [if ?c then _ else _] => destruct c end.
  - match goal with |- context [callback ?s0 beh 5%nat w] =>
      pose proof (callback_now s0 beh 5%nat w) as H1; destruct (callback s0 beh 5%nat w) as [s3 e1] end.
    pose proof (IH s3 beh) as H2. destruct (run_wq rest s3 beh) as [s4 e2].
    cbn [fst] in *. rewrite H2, H1. reflexivity.
  - match goal with |- context [run_wq rest ?s0 beh] =>
      pose proof (IH s0 beh) as H2; destruct (run_wq rest s0 beh) as [s4 e2] end.
    cbn [fst] in *. rewrite H2. reflexivity.
Qed.

Lemma run_alq_now fuel : forall s beh, now (ts (fst (run_alq fuel s beh))) = now (ts s).
Proof.
  induction fuel as [|f IH]; intros s beh; cbn [run_alq]; [reflexivity|].
  destruct (alq s) as [|i rest]; [reflexivity|]. cbv zeta.
  match goal with |- context [if ?c then _ else _] => destruct c end;
    [match goal with |- context [if ?c then _ else _] => destruct c end|].
  - match goal with |- context [callback ?s0 beh 4%nat i] =>
      pose proof (callback_now s0 beh 4%nat i) as H1; destruct (callback s0 beh 4%nat i) as [s4 e1] end.
    pose proof (IH s4 beh) as H2. destruct (run_alq f s4 beh) as [s5 e2].
    cbn [fst] in *. rewrite H2, H1. reflexivity.
  - match goal with |- context [run_alq f ?s0 beh] =>
      pose proof (IH s0 beh) as H2; destruct (run_alq f s0 beh) as [s5 e2] end.
    cbn [fst] in *. rewrite H2. reflexivity.
  - match goal with |- context [run_alq f ?s0 beh] =>
      pose proof (IH s0 beh) as H2; destruct (run_alq f s0 beh) as [s5 e2] end.
    cbn [fst] in *. rewrite H2. reflexivity.
Qed.

(* the timeout of an iteration is computed against the loop time of the
   iteration's start: idle and prepare callbacks do not refresh it *)
Lemma iteration_timeout_base s beh mode s' evs :
  iteration s beh mode = (s', evs) ->
  exists s1 e1 s2 e2,
    run_watchers s beh KIdle 1 = (s1, e1) /\ run_watchers s1 beh KPrepare 2 = (s2, e2) /\
    now (ts s2) = now (ts s).
Proof.
  intros E. destruct (iteration_phases _ _ _ _ _ E)
    as (s1 & e1 & s2 & e2 & s3 & e3 & s4 & e4 & s5 & e5 & e6 & H1 & H2 & _).
  exists s1, e1, s2, e2. repeat split; auto.
  rewrite <- (fst_eq _ _ _ H2), run_watchers_now, <- (fst_eq _ _ _ H1), run_watchers_now.
  reflexivity.
Qed.

(* ================= io_poll and the clock ================= *)
(* the moment the poll returns, as a function of the state and the timeout *)
Definition wake (s : lstate) (timeout : Z) : Z :=
  if efd s then clock s
  else if timeout <=? 0 then clock s
  else if metrics s then Z.max (clock s) (now (ts s) + timeout)
  else clock s + timeout.

Theorem io_poll_clock s beh timeout s' evs :
  io_poll s beh timeout = (s', evs) ->
  (* loop time after the poll is the wake-up time *)
  now (ts s') = wake s timeout /\
  (* never blocks longer than asked *)
  (ClockInv s -> 0 <= timeout -> clock s <= wake s timeout <= clock s + timeout) /\
  (* a readable eventfd or a zero timeout: no blocking at all *)
  (efd s = true \/ timeout = 0 -> wake s timeout = clock s) /\
  (* without a ready eventfd nothing runs: the state is the old one at the wake-up time *)
  (efd s = false -> clock s' = wake s timeout /\ cbcount s' = cbcount s) /\
  (* a negative timeout with nothing to wake the loop is the deadlock the model reports *)
  (efd s = false -> timeout < 0 -> stop_flag s' = true /\ In VHang evs) /\
  (* monotone *)
  clock s <= clock s' /\ now (ts s') <= clock s' /\
  (ClockInv s -> now (ts s) <= now (ts s')).
Proof.
  intros E.
  pose proof (io_poll_step beh s timeout) as ST. rewrite E in ST. cbn [fst] in ST.
  assert (W2 : ClockInv s -> 0 <= timeout -> clock s <= wake s timeout <= clock s + timeout).
  { unfold ClockInv. intros CI Ht. unfold wake. repeat break_if; lia. }
  assert (W3 : efd s = true \/ timeout = 0 -> wake s timeout = clock s).
  { unfold wake. intros [-> | ->]; [reflexivity|]. destruct (efd s); reflexivity. }
  assert (W1 : now (ts s') = wake s timeout /\
               (efd s = false -> clock s' = wake s timeout /\ cbcount s' = cbcount s) /\
               (efd s = false -> timeout < 0 -> stop_flag s' = true /\ In VHang evs) /\
               now (ts s') <= clock s').
  { unfold io_poll in E. unfold wake. destruct (efd s) eqn:Eefd.
    - cbv zeta in E.
      match type of E with context [if ?c then ?a else ?b] =>
        assert (H1 : now (ts (fst (if c then a else b))) = clock s /\
                     Step beh (update_time s) (fst (if c then a else b)));
        [destruct c; cbn [fst]|destruct (if c then a else b) as [s2 e1]] end.
      + rewrite run_wq_now. split; [reflexivity|].
        eapply Step_trans; [|apply run_wq_step]. apply Step_core; reflexivity.
      + split; [reflexivity|]. apply Step_core; reflexivity.
      + cbn [fst] in H1. destruct H1 as [H1 S1].
        match type of E with context [run_alq ?n ?s0 beh] =>
          pose proof (run_alq_now n s0 beh) as H2; pose proof (run_alq_step beh n s0) as S2;
          destruct (run_alq n s0 beh) as [s4 e2] end.
        cbn [fst] in *. inversion E; subst s4 evs. lcbn_in H2.
        split; [congruence|]. split; [discriminate|]. split; [discriminate|].
        assert (S3 : Step beh (update_time s) s').
        { eapply Step_trans; [exact S1|]. eapply Step_trans; [|exact S2].
          apply Step_core; reflexivity. }
        destruct S3 as (_ & _ & _ & _ & _ & N). unfold update_time in N. lcbn_in N.
        destruct N; lia.
    - destruct (Z.eqb_spec timeout 0) as [->|Hne].
      + inversion E; subst. unfold update_time. lcbn. cbn [Z.leb].
        repeat split; auto; try lia.
      + destruct (Z.ltb_spec timeout 0) as [Hneg|Hpos].
        * inversion E; subst. unfold update_time. lcbn.
          destruct (Z.leb_spec timeout 0); [|lia].
          repeat split; auto; try lia. right; left; reflexivity.
        * destruct (Z.leb_spec timeout 0); [lia|].
          destruct (metrics s).
          -- destruct (Z.leb_spec (timeout - (clock s - now (ts s))) 0);
               inversion E; subst; unfold update_time; lcbn; repeat split; auto; lia.
          -- inversion E; subst; unfold update_time; lcbn; repeat split; auto; lia. }
  destruct W1 as (A & B & C & D).
  destruct ST as (_ & _ & _ & ST4 & _ & ST6).
  repeat split; auto; try (apply W2; assumption); try (apply B; assumption);
    try (apply C; assumption).
  intros CI. apply ST6 in CI. tauto.
Qed.

(* with the idle-time metric the wake-up is never later than the deadline the
   timeout was computed for (loop time + timeout), unless the clock is already
   past it; without the metric the sleep is relative to the clock at the poll *)
Lemma wake_metrics s timeout :
  efd s = false -> metrics s = true -> 0 < timeout ->
  wake s timeout = Z.max (clock s) (now (ts s) + timeout).
Proof. unfold wake. intros -> -> H. destruct (Z.leb_spec timeout 0); [lia|reflexivity]. Qed.

Lemma wake_plain s timeout :
  efd s = false -> metrics s = false -> 0 < timeout ->
  wake s timeout = clock s + timeout.
Proof. unfold wake. intros -> -> H. destruct (Z.leb_spec timeout 0); [lia|reflexivity]. Qed.

(* the VPoll event: the timeout of the (last) epoll_pwait *)
Lemma io_poll_event s beh timeout :
  exists t b1 b2 b3 b4 rest,
    snd (io_poll s beh timeout) = VPoll t b1 b2 b3 b4 :: rest /\
    (metrics s = false -> t = timeout) /\
    (t = timeout \/ (metrics s = true /\ 0 <= t /\ (ClockInv s -> 0 <= timeout -> t <= timeout))).
Proof.
  unfold io_poll, ClockInv. destruct (efd s).
  - cbv zeta. destruct (if wq_pending _ then _ else _) as [s2 e1].
    destruct (run_alq _ _ _) as [s4 e2]. cbn [snd]. unfold vpoll.
    do 6 eexists. split; [reflexivity|]. destruct (metrics s).
    + split; [discriminate|]. right. repeat split; auto; lia.
    + split; auto.
  - destruct (Z.eqb_spec timeout 0) as [->|Hne].
    { cbn [snd]. unfold vpoll. do 6 eexists. split; [reflexivity|]. split; auto. }
    destruct (Z.ltb_spec timeout 0).
    { cbn [snd]. unfold vpoll. do 6 eexists. split; [reflexivity|]. split; auto. }
    destruct (metrics s).
    + destruct (Z.leb_spec (timeout - (clock s - now (ts s))) 0);
        cbn [snd]; unfold vpoll; do 6 eexists; (split; [reflexivity|]);
        (split; [discriminate|]); right; repeat split; auto; lia.
    + cbn [snd]. unfold vpoll. do 6 eexists. split; [reflexivity|]. split; auto.
Qed.

(* ================= uv_stop ================= *)
Theorem uv_run_clears_stop fuel s beh mode : stop_flag (fst (uv_run fuel s beh mode)) = false.
Proof.
  rewrite uv_run_alt_eq. unfold uv_run_alt. cbv zeta.
  destruct (if Nat.eqb mode 0 && loop_alive s && negb (stop_flag (if loop_alive s then s else update_time s))
            then l_run_timers _ beh else _) as [s1 e0].
  destruct (if loop_alive s && negb (stop_flag s1) then _ else _) as [[s2 e1] r']. reflexivity.
Qed.

(* stop_flag set at the end of a DEFAULT iteration: no further iteration *)
Theorem run_loop_stop_returns fuel s beh s1 e1 :
  iteration s beh 0 = (s1, e1) -> stop_flag s1 = true ->
  run_loop (S fuel) s beh 0 = (s1, e1, loop_alive s1).
Proof.
  intros E Hs. cbn [run_loop]. rewrite E. cbn [Nat.eqb negb]. rewrite Hs.
  cbn [negb]. rewrite andb_false_r. reflexivity.
Qed.

(* ONCE / NOWAIT: exactly one iteration *)
Theorem run_loop_once fuel s beh mode s1 e1 :
  mode <> 0%nat -> iteration s beh mode = (s1, e1) ->
  run_loop (S fuel) s beh mode = (s1, e1, loop_alive s1).
Proof.
  intros Hm E. cbn [run_loop]. rewrite E.
  destruct (Nat.eqb_spec mode 0); [contradiction|]. reflexivity.
Qed.

(* stop_flag is sticky inside an iteration, and a callback that calls
   uv_stop sets it (callbacks are numbered by cbcount) *)
Theorem iteration_stop_sticky s beh mode s' evs :
  iteration s beh mode = (s', evs) ->
  (stop_flag s = true -> stop_flag s' = true) /\
  (forall n, (cbcount s <= n < cbcount s')%nat -> (n < cap)%nat ->
             In LStopLoop (beh n) -> stop_flag s' = true).
Proof.
  intros E. pose proof (iteration_step beh s mode) as ST. rewrite E in ST. cbn [fst] in ST.
  destruct ST as (_ & A & B & _). split; assumption.
Qed.

(* hence: uv_stop called by any callback of a DEFAULT iteration ends the loop
   with that iteration *)
Theorem uv_stop_ends_loop fuel s beh s1 e1 n :
  iteration s beh 0 = (s1, e1) ->
  (cbcount s <= n < cbcount s1)%nat -> (n < cap)%nat -> In LStopLoop (beh n) ->
  run_loop (S fuel) s beh 0 = (s1, e1, loop_alive s1).
Proof.
  intros E Hn Hc Hin. apply run_loop_stop_returns; [exact E|].
  destruct (iteration_stop_sticky _ _ _ _ _ E) as [_ H]. eapply H; eauto.
Qed.

(* every iteration of a run but the last ends with stop_flag clear and the
   loop alive: this is [li_step] of [loop_iters] (C03Order.run_loop_iters). *)

(* uv_stop before uv_run: no iteration, the flag is consumed *)
Theorem uv_run_stopped fuel s beh mode :
  stop_flag s = true ->
  uv_run fuel s beh mode =
  (set_stop (if loop_alive s then s else update_time s) false, [VRun (loop_alive s)]).
Proof.
  intros Hs. rewrite uv_run_alt_eq. unfold uv_run_alt. cbv zeta.
  assert (H0 : stop_flag (if loop_alive s then s else update_time s) = true).
  { destruct (loop_alive s); [exact Hs|]. unfold update_time. lcbn. exact Hs. }
  rewrite H0. cbn [negb]. rewrite !andb_false_r. rewrite H0. cbn [negb].
  rewrite andb_false_r. reflexivity.
Qed.

(* a run that starts with the flag clear (in particular: right after another
   uv_run) enters the loop exactly when the loop is alive *)
Theorem uv_run_enters fuel s beh mode s' evs :
  stop_flag s = false -> loop_alive s = true -> mode <> 0%nat ->
  uv_run (S fuel) s beh mode = (s', evs) ->
  exists s1 e1, iteration s beh mode = (s1, e1) /\
                s' = set_stop s1 false /\ evs = e1 ++ [VRun (loop_alive s1)].
Proof.
  intros Hs Ha Hm E. rewrite uv_run_alt_eq in E. unfold uv_run_alt in E. cbv zeta in E. rewrite Ha in E.
  destruct (Nat.eqb_spec mode 0) as [|_]; [contradiction|]. cbn [andb] in E.
  rewrite Hs in E. cbn [negb andb] in E.
  destruct (iteration s beh mode) as [s1 e1] eqn:E1.
  rewrite (run_loop_once fuel s beh mode s1 e1 Hm E1) in E.
  inversion E; subst. exists s1, e1. repeat split; auto.
Qed.

Theorem uv_run_enters_default fuel s beh s' evs :
  stop_flag s = false -> loop_alive s = true ->
  uv_run (S fuel) s beh 0 = (s', evs) ->
  exists st e0, l_run_timers (update_time s) beh = (st, e0) /\
    (stop_flag st = true -> s' = set_stop st false /\ evs = e0 ++ [VRun (loop_alive st)]) /\
    (stop_flag st = false ->
       exists s1 e1 rest, iteration st beh 0 = (s1, e1) /\ evs = e0 ++ e1 ++ rest).
Proof.
  intros Hs Ha E. rewrite uv_run_alt_eq in E. unfold uv_run_alt in E. cbv zeta in E. rewrite Ha in E.
  cbn [Nat.eqb andb] in E. rewrite Hs in E. cbn [negb] in E.
  destruct (l_run_timers (update_time s) beh) as [st e0] eqn:E0.
  exists st, e0. split; [reflexivity|]. split.
  - intros Hst. rewrite Hst in E. cbn [negb andb] in E. inversion E; subst. split; reflexivity.
  - intros Hst. rewrite Hst in E. cbn [negb andb] in E.
    destruct (run_loop (S fuel) st beh 0) as [[s2 e1] r'] eqn:E1.
    inversion E; subst. cbn [run_loop] in E1.
    destruct (iteration st beh 0) as [s1 ei] eqn:Ei. exists s1, ei.
    cbn [Nat.eqb negb] in E1.
    destruct (loop_alive s1 && negb (stop_flag s1)).
    + destruct (run_loop fuel s1 beh 0) as [[s3 e3] r3]. inversion E1; subst.
      exists (e3 ++ [VRun r']). split; [reflexivity|]. rewrite <- !app_assoc. reflexivity.
    + inversion E1; subst. exists [VRun (loop_alive s2)]. split; reflexivity.
Qed.
