(* C02 on Model/LoopCore.v (timer / idle / prepare / check / async handles):
   uv_close never runs a callback; close_cb exactly once, in a closing phase;
   nothing for the handle after its close_cb.

   Uses the accounting invariant LInvG of Proofs/LoopCoreInv.v (closing list =
   the closing-and-not-closed handles, once each; closing -> inactive) and
   adds the queue-membership invariant QInv below: a closing handle is in
   no watcher queue, no async list and not in the ready list of the timers. *)
From UV Require Import Lib.Base Model.Heap Model.Timer Model.LoopCore
  Proofs.HeapProofs Proofs.TimerProofs Proofs.LoopCoreInv.
Local Open Scope Z_scope.

Ltac splits := repeat match goal with |- _ /\ _ => split end.

(* ------------------------------------------------------------------ *)
(* state access                                                       *)
(* ------------------------------------------------------------------ *)
Lemma nth_upd_gen {A} (l : list A) i j f d :
  nth j (upd i f l) d = if Nat.eqb i j && Nat.ltb i (length l) then f (nth i l d) else nth j l d.
Proof.
  revert i j. induction l as [|x l IH]; intros i j.
  - simpl. rewrite andb_false_r. destruct i; reflexivity.
  - destruct i as [|i], j as [|j]; simpl; try reflexivity.
    rewrite IH. reflexivity.
Qed.

Lemma hget_upd_h s i f j :
  hget (upd_h s i f) j = if Nat.eqb i j && Nat.ltb i (length (hs s)) then f (hget s i) else hget s j.
Proof. unfold hget, upd_h, set_hs. cbn [hs]. apply nth_upd_gen. Qed.

Lemma len_upd_h s i f : length (hs (upd_h s i f)) = length (hs s).
Proof. unfold upd_h, set_hs. cbn [hs]. apply upd_length. Qed.

Lemma lvalid_lt s i : lvalid s i = true <-> (i < length (hs s))%nat.
Proof. unfold lvalid. apply Nat.ltb_lt. Qed.

Lemma usable_facts s i : usable s i = true -> (i < length (hs s))%nat /\ h_closed (hget s i) = false.
Proof.
  unfold usable. intros H. apply andb_prop in H. destruct H as [A B].
  apply lvalid_lt in A. apply negb_true_iff in B. auto.
Qed.

(* the flags the close protocol looks at *)
Definition fl (h : hrec) := (h_kind h, h_active h, h_closing h, h_closed h).

(* ------------------------------------------------------------------ *)
(* kinds never change, CLOSED is never reset, handles never disappear *)
(* ------------------------------------------------------------------ *)
Definition KF (s s' : lstate) : Prop :=
  (length (hs s) <= length (hs s'))%nat /\
  forall i, (i < length (hs s))%nat ->
    h_kind (hget s' i) = h_kind (hget s i) /\
    (h_closed (hget s i) = true -> h_closed (hget s' i) = true).

Lemma KF_refl s : KF s s.
Proof. split; [lia|auto]. Qed.

Lemma KF_trans a b c : KF a b -> KF b c -> KF a c.
Proof.
  intros [A1 A2] [B1 B2]. split; [lia|]. intros i Hi.
  destruct (A2 i Hi) as (K1 & C1). destruct (B2 i ltac:(lia)) as (K2 & C2).
  split; [congruence|auto].
Qed.

Lemma KF_hs s s' : hs s' = hs s -> KF s s'.
Proof. intros E. split; unfold hget; rewrite E; [lia|auto]. Qed.

Lemma KF_upd s i f :
  h_kind (f (hget s i)) = h_kind (hget s i) ->
  (h_closed (hget s i) = true -> h_closed (f (hget s i)) = true) ->
  KF s (upd_h s i f).
Proof.
  intros A B. split; [rewrite len_upd_h; lia|]. intros j Hj. rewrite hget_upd_h.
  destruct (Nat.eqb i j && Nat.ltb i (length (hs s))) eqn:E; [|auto].
  apply andb_prop in E. destruct E as [E _]. apply Nat.eqb_eq in E. subst j. auto.
Qed.

(* ------------------------------------------------------------------ *)
(* queue membership                                                   *)
(* ------------------------------------------------------------------ *)
Record QInv (s : lstate) : Prop := {
  q_w : forall k i, In i (wq_get s k) ->
        (i < length (hs s))%nat /\ h_active (hget s i) = true /\ h_kind (hget s i) = k;
  q_lq : forall i, In i (lq s) ->
        (i < length (hs s))%nat /\ h_active (hget s i) = true /\ is_watcher s i = true;
  q_as : forall i, In i (async_q s ++ alq s) ->
        (i < length (hs s))%nat /\ h_kind (hget s i) = KAsync /\ h_closing (hget s i) = false;
  q_rd : forall i, In i (ready (ts s)) -> h_closing (hget s i) = false
}.

Lemma QInv_init t0 m : QInv (linit t0 m).
Proof. constructor; cbn; try (intros; contradiction). intros k i. destruct k; cbn; contradiction. Qed.

Definition queues (s : lstate) := (idle_q s, prepare_q s, check_q s, lq s, async_q s, alq s).

Lemma queues_proj s s' : queues s' = queues s ->
  lq s' = lq s /\ async_q s' = async_q s /\ alq s' = alq s.
Proof. unfold queues. intros E. inversion E. auto. Qed.

Lemma wq_get_queues s s' k : queues s' = queues s -> wq_get s' k = wq_get s k.
Proof. unfold queues. intros E. inversion E. destruct k; cbn; congruence. Qed.

Lemma is_watcher_kind s i :
  is_watcher s i = true <->
  (h_kind (hget s i) = KIdle \/ h_kind (hget s i) = KPrepare \/ h_kind (hget s i) = KCheck).
Proof.
  unfold is_watcher, kind_is. destruct (h_kind (hget s i)); cbn; split; intros H;
    try discriminate; auto; destruct H as [H|[H|H]]; discriminate.
Qed.

(* the handle table keeps its flags except ACTIVE of handle i, which is not a
   watcher (or keeps ACTIVE too); queues unchanged; the ready list shrinks *)
Lemma QInv_frame s s' i :
  QInv s -> length (hs s') = length (hs s) -> queues s' = queues s ->
  (forall j, h_kind (hget s' j) = h_kind (hget s j) /\ h_closing (hget s' j) = h_closing (hget s j)) ->
  (forall j, j <> i -> h_active (hget s' j) = h_active (hget s j)) ->
  (is_watcher s i = false \/ h_active (hget s' i) = h_active (hget s i)) ->
  (forall j, In j (ready (ts s')) -> In j (ready (ts s))) ->
  QInv s'.
Proof.
  intros Q L E F A W R. destruct Q.
  assert (ACT : forall j, is_watcher s j = true -> h_active (hget s' j) = h_active (hget s j)).
  { intros j Hw. destruct (Nat.eq_dec j i) as [->|Hne]; [|auto]. destruct W as [W|W]; congruence. }
  assert (Eq := E). unfold queues in Eq. inversion Eq.
  constructor.
  - intros k j Hj. rewrite (wq_get_queues s s' k E) in Hj. destruct (q_w0 k j Hj) as (A1 & A2 & A3).
    destruct (F j) as (F1 & F2). splits; try congruence; try lia.
    rewrite ACT; auto. apply is_watcher_kind. destruct k; cbn in Hj; try contradiction; auto.
  - intros j Hj. rewrite H3 in Hj. destruct (q_lq0 j Hj) as (A1 & A2 & A3).
    splits; try lia.
    + rewrite ACT; auto.
    + apply is_watcher_kind. apply is_watcher_kind in A3. destruct (F j) as (F1 & _). rewrite F1. exact A3.
  - intros j Hj. rewrite H4, H5 in Hj. destruct (q_as0 j Hj) as (A1 & A2 & A3).
    destruct (F j) as (F1 & F2). splits; try congruence; lia.
  - intros j Hj. destruct (F j) as (_ & F2). rewrite F2. apply q_rd0. apply R. exact Hj.
Qed.

(* ------------------------------------------------------------------ *)
(* steps that touch one handle's ACTIVE/REF flags and the timers      *)
(* ------------------------------------------------------------------ *)
Definition Shape (s s' : lstate) (i : nat) : Prop :=
  length (hs s') = length (hs s) /\ queues s' = queues s /\
  (forall j, h_kind (hget s' j) = h_kind (hget s j) /\ h_closing (hget s' j) = h_closing (hget s j) /\
             h_closed (hget s' j) = h_closed (hget s j)) /\
  (forall j, j <> i -> h_active (hget s' j) = h_active (hget s j)) /\
  (forall j, In j (ready (ts s')) -> In j (ready (ts s))).

Lemma Shape_refl s i : Shape s s i.
Proof. unfold Shape. splits; auto. Qed.

Lemma Shape_trans a b c i : Shape a b i -> Shape b c i -> Shape a c i.
Proof.
  intros (A1 & A2 & A3 & A4 & A5) (B1 & B2 & B3 & B4 & B5). unfold Shape. splits.
  - congruence.
  - congruence.
  - intros j. destruct (A3 j) as (X1 & X2 & X3). destruct (B3 j) as (Y1 & Y2 & Y3). splits; congruence.
  - intros j Hj. rewrite B4, A4; auto.
  - auto.
Qed.

Lemma Shape_KF s s' i : Shape s s' i -> KF s s'.
Proof.
  intros (A1 & _ & A3 & _). split; [lia|]. intros j _. destruct (A3 j) as (X1 & _ & X3).
  split; [exact X1|congruence].
Qed.

Lemma Shape_QInv s s' i :
  QInv s -> Shape s s' i ->
  (is_watcher s i = false \/ h_active (hget s' i) = h_active (hget s i)) -> QInv s'.
Proof.
  intros Q (A1 & A2 & A3 & A4 & A5) W. eapply QInv_frame; eauto.
  intros j. destruct (A3 j) as (X1 & X2 & _). auto.
Qed.

(* a flag update of handle i that keeps kind, closing, closed *)
Lemma Shape_upd s i f :
  (h_kind (f (hget s i)) = h_kind (hget s i)) ->
  (h_closing (f (hget s i)) = h_closing (hget s i)) ->
  (h_closed (f (hget s i)) = h_closed (hget s i)) ->
  Shape s (upd_h s i f) i.
Proof.
  intros A B C. unfold Shape. splits; auto.
  - apply len_upd_h.
  - intros j. rewrite hget_upd_h.
    destruct (Nat.eqb i j && Nat.ltb i (length (hs s))) eqn:E; [|auto].
    apply andb_prop in E. destruct E as [E _]. apply Nat.eqb_eq in E. subst j. auto.
  - intros j Hj. rewrite hget_upd_h. apply Nat.eqb_neq in Hj. rewrite Nat.eqb_sym in Hj.
    rewrite Hj. reflexivity.
Qed.

Lemma Shape_fields s s' i :
  hs s' = hs s -> queues s' = queues s -> ready (ts s') = ready (ts s) -> Shape s s' i.
Proof.
  intros A B C. unfold Shape, hget. rewrite A, C. splits; auto.
Qed.

Lemma upd_h_active_same s i f :
  h_active (f (hget s i)) = h_active (hget s i) ->
  h_active (hget (upd_h s i f) i) = h_active (hget s i).
Proof.
  intros A. rewrite hget_upd_h. destruct (Nat.eqb i i && Nat.ltb i (length (hs s))); auto.
Qed.

Lemma Shape_handle_start s i : Shape s (handle_start s i) i.
Proof.
  unfold handle_start. destruct (h_active (hget s i)); [apply Shape_refl|].
  destruct (h_ref (hget s i)).
  - apply Shape_trans with (b := upd_h s i (with_active true));
      [apply Shape_upd; reflexivity|apply Shape_fields; reflexivity].
  - apply Shape_upd; reflexivity.
Qed.

Lemma Shape_handle_stop s i : Shape s (handle_stop s i) i.
Proof.
  unfold handle_stop. destruct (h_active (hget s i)); [|apply Shape_refl].
  destruct (h_ref (hget s i)).
  - apply Shape_trans with (b := upd_h s i (with_active false));
      [apply Shape_upd; reflexivity|apply Shape_fields; reflexivity].
  - apply Shape_upd; reflexivity.
Qed.

Lemma Shape_handle_ref s i :
  Shape s (handle_ref s i) i /\ h_active (hget (handle_ref s i) i) = h_active (hget s i).
Proof.
  unfold handle_ref. destruct (h_ref (hget s i)); [split; [apply Shape_refl|reflexivity]|].
  assert (A : Shape s (upd_h s i (with_ref true)) i) by (apply Shape_upd; reflexivity).
  assert (B : h_active (hget (upd_h s i (with_ref true)) i) = h_active (hget s i))
    by (apply upd_h_active_same; reflexivity).
  destruct (h_closing (hget s i)); [auto|].
  destruct (h_active (hget s i)); [|auto].
  split; [eapply Shape_trans; [exact A|apply Shape_fields; reflexivity]|exact B].
Qed.

Lemma Shape_handle_unref s i :
  Shape s (handle_unref s i) i /\ h_active (hget (handle_unref s i) i) = h_active (hget s i).
Proof.
  unfold handle_unref. destruct (h_ref (hget s i)); [|split; [apply Shape_refl|reflexivity]].
  assert (A : Shape s (upd_h s i (with_ref false)) i) by (apply Shape_upd; reflexivity).
  assert (B : h_active (hget (upd_h s i (with_ref false)) i) = h_active (hget s i))
    by (apply upd_h_active_same; reflexivity).
  destruct (h_closing (hget s i)); [auto|].
  destruct (h_active (hget s i)); [|auto].
  split; [eapply Shape_trans; [exact A|apply Shape_fields; reflexivity]|exact B].
Qed.

Lemma ts_handle_stop s i : ts (handle_stop s i) = ts s.
Proof. unfold handle_stop. destruct (h_active (hget s i)), (h_ref (hget s i)); reflexivity. Qed.

Lemma Shape_set_ts s t i :
  (forall j, In j (ready t) -> In j (ready (ts s))) -> Shape s (set_ts s t) i.
Proof. intros R. unfold Shape. splits; auto. Qed.

Lemma Shape_sync s i : Shape s (sync_timer_active s i) i.
Proof. unfold sync_timer_active. destruct (t_active (get (ts s) i)); [apply Shape_handle_start|apply Shape_handle_stop]. Qed.

Section timers.
Variables (s : lstate) (pend wpend : list nat) (i : nat).
Hypothesis Hinv : LInvG s pend wpend.
Hypothesis Hi : (i < length (hs s))%nat.

Let T : TI (ts s) := hi_ti _ _ (proj1 Hinv).
Let Hit : (i < length (tms (ts s)))%nat.
Proof. rewrite (hi_len _ _ (proj1 Hinv)). exact Hi. Qed.

Lemma Shape_l_timer_stop : Shape s (l_timer_stop s i) i.
Proof.
  unfold l_timer_stop. destruct (tframe_stop (ts s) i T Hit) as ((_ & _ & R & _) & _).
  eapply Shape_trans; [apply Shape_set_ts; exact R|apply Shape_sync].
Qed.

Lemma Shape_l_timer_start cb t r : Shape s (fst (l_timer_start s i cb t r)) i.
Proof.
  unfold l_timer_start. destruct (tframe_start (ts s) i cb t r T Hit) as ((_ & _ & R & _) & _).
  destruct (timer_start (ts s) i cb t r) as [ts' c]. cbn [fst] in *.
  eapply Shape_trans; [|apply Shape_sync].
  destruct (Z.eqb c 0).
  - eapply Shape_trans; [apply Shape_handle_stop|]. apply Shape_set_ts. rewrite ts_handle_stop. exact R.
  - apply Shape_set_ts. exact R.
Qed.

Lemma Shape_l_timer_again : Shape s (fst (l_timer_again s i)) i.
Proof.
  unfold l_timer_again. destruct (tframe_again (ts s) i T Hit) as ((_ & _ & R & _) & _).
  destruct (timer_again (ts s) i) as [ts' c]. cbn [fst] in *.
  eapply Shape_trans; [|apply Shape_sync].
  match goal with |- Shape s (set_ts (if ?b then _ else _) _) i => destruct b end.
  - eapply Shape_trans; [apply Shape_handle_stop|]. apply Shape_set_ts. rewrite ts_handle_stop. exact R.
  - apply Shape_set_ts. exact R.
Qed.
End timers.

(* ------------------------------------------------------------------ *)
(* steps that take handle i out of queues                             *)
(* ------------------------------------------------------------------ *)
Definition OnlyAt (s s' : lstate) (i : nat) : Prop :=
  length (hs s') = length (hs s) /\ forall j, j <> i -> hget s' j = hget s j.

Lemma OnlyAt_refl s i : OnlyAt s s i.
Proof. split; auto. Qed.

Lemma OnlyAt_trans a b c i : OnlyAt a b i -> OnlyAt b c i -> OnlyAt a c i.
Proof. intros [A1 A2] [B1 B2]. split; [congruence|]. intros j Hj. rewrite B2, A2; auto. Qed.

Lemma OnlyAt_upd s i f : OnlyAt s (upd_h s i f) i.
Proof.
  split; [apply len_upd_h|]. intros j Hj. rewrite hget_upd_h.
  apply Nat.eqb_neq in Hj. rewrite Nat.eqb_sym in Hj. rewrite Hj. reflexivity.
Qed.

Lemma OnlyAt_hs s s' i : hs s' = hs s -> OnlyAt s s' i.
Proof. intros E. unfold OnlyAt, hget. rewrite E. auto. Qed.

Lemma OnlyAt_handle_stop s i : OnlyAt s (handle_stop s i) i.
Proof.
  unfold handle_stop. destruct (h_active (hget s i)); [|apply OnlyAt_refl].
  destruct (h_ref (hget s i)).
  - apply OnlyAt_trans with (b := upd_h s i (with_active false)); [apply OnlyAt_upd|apply OnlyAt_hs; reflexivity].
  - apply OnlyAt_upd.
Qed.

Lemma OnlyAt_handle_start s i : OnlyAt s (handle_start s i) i.
Proof.
  unfold handle_start. destruct (h_active (hget s i)); [apply OnlyAt_refl|].
  destruct (h_ref (hget s i)).
  - apply OnlyAt_trans with (b := upd_h s i (with_active true)); [apply OnlyAt_upd|apply OnlyAt_hs; reflexivity].
  - apply OnlyAt_upd.
Qed.

Lemma OnlyAt_KF s s' i :
  OnlyAt s s' i -> h_kind (hget s' i) = h_kind (hget s i) ->
  (h_closed (hget s i) = true -> h_closed (hget s' i) = true) -> KF s s'.
Proof.
  intros [A B] C D. split; [lia|]. intros j _. destruct (Nat.eq_dec j i) as [->|Hne]; [auto|].
  rewrite B by exact Hne. auto.
Qed.

Lemma QInv_sub s s' i :
  QInv s -> OnlyAt s s' i ->
  (forall k j, In j (wq_get s' k) -> In j (wq_get s k) /\ j <> i) ->
  (forall j, In j (lq s') -> In j (lq s) /\ j <> i) ->
  (forall j, In j (async_q s' ++ alq s') -> In j (async_q s ++ alq s) /\ j <> i) ->
  (forall j, In j (ready (ts s')) -> In j (ready (ts s)) /\ j <> i) ->
  QInv s'.
Proof.
  intros Q [L O] A B C D. destruct Q. constructor.
  - intros k j Hj. destruct (A k j Hj) as (H1 & H2). rewrite O, L by exact H2. apply q_w0. exact H1.
  - intros j Hj. destruct (B j Hj) as (H1 & H2). unfold is_watcher, kind_is. rewrite O, L by exact H2.
    apply q_lq0. exact H1.
  - intros j Hj. destruct (C j Hj) as (H1 & H2). rewrite O, L by exact H2. apply q_as0. exact H1.
  - intros j Hj. destruct (D j Hj) as (H1 & H2). rewrite O by exact H2. apply q_rd0. exact H1.
Qed.

Lemma in_remove_q i j l : In j (remove_q i l) <-> In j l /\ i <> j.
Proof. unfold remove_q. apply remove_id_in. Qed.

Lemma queues_handle_stop s i : queues (handle_stop s i) = queues s.
Proof. apply (Shape_handle_stop s i). Qed.

Lemma wq_get_handle_stop s i k : wq_get (handle_stop s i) k = wq_get s k.
Proof. apply wq_get_queues. apply queues_handle_stop. Qed.

Lemma ts_handle_start s i : ts (handle_start s i) = ts s.
Proof. unfold handle_start. destruct (h_active (hget s i)), (h_ref (hget s i)); reflexivity. Qed.

Lemma kind_not_watcher s i : h_kind (hget s i) = KTimer \/ h_kind (hget s i) = KAsync -> is_watcher s i = false.
Proof. unfold is_watcher, kind_is. intros [H|H]; rewrite H; reflexivity. Qed.

Lemma wq_kind_watcher s k j : In j (wq_get s k) -> k = KIdle \/ k = KPrepare \/ k = KCheck.
Proof. destruct k; cbn; auto; contradiction. Qed.

Lemma hget_upd_h_same s i f : (i < length (hs s))%nat -> hget (upd_h s i f) i = f (hget s i).
Proof. intros H. rewrite hget_upd_h, Nat.eqb_refl. apply Nat.ltb_lt in H. rewrite H. reflexivity. Qed.

Lemma handle_stop_fl s i : (i < length (hs s))%nat ->
  fl (hget (handle_stop s i) i) =
  (h_kind (hget s i), false, h_closing (hget s i), h_closed (hget s i)).
Proof.
  intros Hi. unfold handle_stop. destruct (h_active (hget s i)) eqn:Ea.
  - destruct (h_ref (hget s i));
      [change (hget (set_nact (upd_h s i (with_active false)) (nact (upd_h s i (with_active false)) - 1)) i)
         with (hget (upd_h s i (with_active false)) i)|];
      rewrite hget_upd_h_same by exact Hi; reflexivity.
  - unfold fl. rewrite Ea. reflexivity.
Qed.

Lemma handle_start_fl s i : (i < length (hs s))%nat ->
  fl (hget (handle_start s i) i) =
  (h_kind (hget s i), true, h_closing (hget s i), h_closed (hget s i)).
Proof.
  intros Hi. unfold handle_start. destruct (h_active (hget s i)) eqn:Ea.
  - unfold fl. rewrite Ea. reflexivity.
  - destruct (h_ref (hget s i));
      [change (hget (set_nact (upd_h s i (with_active true)) (nact (upd_h s i (with_active true)) + 1)) i)
         with (hget (upd_h s i (with_active true)) i)|];
      rewrite hget_upd_h_same by exact Hi; reflexivity.
Qed.

(* uv_{idle,prepare,check}_stop *)
Definition RT (s : lstate) : Prop := forall j, In j (ready (ts s)) -> is_timer (hget s j) = true.

Lemma watcher_stop_spec s i :
  RT s -> QInv s -> (i < length (hs s))%nat -> is_watcher s i = true ->
  QInv (watcher_stop s i) /\ OnlyAt s (watcher_stop s i) i /\
  fl (hget (watcher_stop s i) i) = (h_kind (hget s i), false, h_closing (hget s i), h_closed (hget s i)) /\
  ~ In i (lq (watcher_stop s i)) /\ (forall j, In j (lq (watcher_stop s i)) -> In j (lq s)) /\
  (forall k, ~ In i (wq_get (watcher_stop s i) k)) /\
  async_q (watcher_stop s i) = async_q s /\ alq (watcher_stop s i) = alq s /\
  ts (watcher_stop s i) = ts s /\ closing (watcher_stop s i) = closing s.
Proof.
  intros HI Q Hi Hw. unfold watcher_stop.
  destruct (h_active (hget s i)) eqn:Ea.
  2:{ splits; auto.
      - apply OnlyAt_refl.
      - unfold fl. rewrite Ea. reflexivity.
      - intros H. destruct (q_lq _ Q i H) as (_ & A & _). congruence.
      - intros k H. destruct (q_w _ Q k i H) as (_ & A & _). congruence. }
  assert (LQS0 : True) by exact I.
  set (k := h_kind (hget s i)).
  set (s1 := wq_set s k (remove_q i (wq_get s k))).
  set (s2 := set_lq s1 (remove_q i (lq s1))).
  assert (H1 : hs s2 = hs s) by (unfold s2, s1; destruct k; reflexivity).
  assert (G2 : forall j, hget s2 j = hget s j) by (intros j; unfold hget; rewrite H1; reflexivity).
  assert (O : OnlyAt s (handle_stop s2 i) i).
  { apply OnlyAt_trans with (b := s2); [apply OnlyAt_hs; exact H1|apply OnlyAt_handle_stop]. }
  assert (WQ : forall k' j, In j (wq_get s2 k') -> In j (wq_get s k') /\ j <> i).
  { intros k' j Hj. pose proof (wq_kind_watcher _ _ _ Hj) as Hk'.
    assert (Hold : In j (wq_get s k')).
    { unfold s2, s1 in Hj. apply is_watcher_kind in Hw. fold k in Hw.
      destruct k, k'; cbn in Hj |- *; try apply in_remove_q in Hj; try tauto;
        destruct Hw as [Hw|[Hw|Hw]]; discriminate. }
    split; [exact Hold|]. intros ->.
    destruct (q_w _ Q k' i Hold) as (_ & _ & Hk). fold k in Hk. subst k'.
    unfold s2, s1 in Hj. destruct k; cbn in Hj; try apply in_remove_q in Hj; try tauto;
      destruct Hk' as [?|[?|?]]; discriminate. }
  assert (LQ : forall j, In j (lq s2) -> In j (lq s) /\ j <> i).
  { intros j Hj. unfold s2 in Hj. cbn [lq set_lq] in Hj. apply in_remove_q in Hj.
    destruct Hj as [Hj Hne]. split; [|auto]. unfold s1 in Hj. destruct k; exact Hj. }
  assert (AS : async_q s2 = async_q s /\ alq s2 = alq s /\ ts s2 = ts s /\ closing s2 = closing s)
    by (unfold s2, s1; destruct k; auto).
  destruct AS as (AS1 & AS2 & AS3 & AS4).
  destruct (Shape_handle_stop s2 i) as (_ & SQ & _).
  destruct (queues_proj _ _ SQ) as (E4 & E5 & E6).
  assert (NT : is_timer (hget s i) = false).
  { unfold is_timer. apply is_watcher_kind in Hw. destruct Hw as [H|[H|H]]; rewrite H; reflexivity. }
  splits.
  - apply QInv_sub with (s := s) (i := i); auto.
    + intros k' j Hj. rewrite wq_get_handle_stop in Hj. auto.
    + intros j Hj. rewrite E4 in Hj. auto.
    + intros j Hj. rewrite E5, E6, AS1, AS2 in Hj. split; [exact Hj|]. intros ->.
      destruct (q_as _ Q i Hj) as (_ & Hk & _). apply is_watcher_kind in Hw. rewrite Hk in Hw.
      destruct Hw as [H|[H|H]]; discriminate.
    + intros j Hj. rewrite ts_handle_stop, AS3 in Hj. split; [exact Hj|]. intros ->.
      pose proof (HI i Hj). congruence.
  - exact O.
  - rewrite handle_stop_fl by (rewrite H1; exact Hi). rewrite G2. reflexivity.
  - rewrite E4. intros H. destruct (LQ i H). congruence.
  - intros j Hj. rewrite E4 in Hj. apply (LQ j Hj).
  - intros k' H. rewrite wq_get_handle_stop in H. destruct (WQ k' i H). congruence.
  - congruence.
  - congruence.
  - rewrite ts_handle_stop. exact AS3.
  - unfold handle_stop. destruct (h_active (hget s2 i)), (h_ref (hget s2 i)); exact AS4.
Qed.

Lemma LInvG_RT s pend wpend : LInvG s pend wpend -> RT s.
Proof. intros [HI _] j Hj. apply (hi_ready _ _ HI j Hj). Qed.

Lemma is_timer_kind h : is_timer h = true <-> h_kind h = KTimer.
Proof. unfold is_timer. destruct (h_kind h); cbn; split; intros H; auto; discriminate. Qed.

(* UV_HANDLE_CLOSING is set on a handle that sits in no async list and not in
   the ready list *)
Lemma QInv_closing_flag s i :
  QInv s -> ~ In i (async_q s ++ alq s) -> ~ In i (ready (ts s)) ->
  QInv (upd_h s i (with_closing true)).
Proof.
  intros Q A R. destruct Q.
  assert (G : forall j, h_kind (hget (upd_h s i (with_closing true)) j) = h_kind (hget s j) /\
                        h_active (hget (upd_h s i (with_closing true)) j) = h_active (hget s j) /\
                        (j <> i -> h_closing (hget (upd_h s i (with_closing true)) j) = h_closing (hget s j))).
  { intros j. rewrite hget_upd_h. destruct (Nat.eqb i j && Nat.ltb i (length (hs s))) eqn:E; [|auto].
    apply andb_prop in E. destruct E as [E _]. apply Nat.eqb_eq in E. subst j. splits; auto. congruence. }
  constructor.
  - intros k j Hj. change (wq_get (upd_h s i (with_closing true)) k) with (wq_get s k) in Hj.
    destruct (q_w0 k j Hj) as (A1 & A2 & A3). destruct (G j) as (G1 & G2 & _).
    rewrite len_upd_h. splits; congruence.
  - intros j Hj. change (lq (upd_h s i (with_closing true))) with (lq s) in Hj.
    destruct (q_lq0 j Hj) as (A1 & A2 & A3). destruct (G j) as (G1 & G2 & _).
    rewrite len_upd_h. splits; try congruence.
    apply is_watcher_kind. apply is_watcher_kind in A3. rewrite G1. exact A3.
  - intros j Hj. change (async_q (upd_h s i (with_closing true)) ++ alq (upd_h s i (with_closing true)))
      with (async_q s ++ alq s) in Hj.
    destruct (q_as0 j Hj) as (A1 & A2 & A3). destruct (G j) as (G1 & _ & G3).
    rewrite len_upd_h. splits; try congruence. rewrite G3; [exact A3|]. intros ->. auto.
  - intros j Hj. change (ready (ts (upd_h s i (with_closing true)))) with (ready (ts s)) in Hj.
    destruct (G j) as (_ & _ & G3). rewrite G3; [auto|]. intros ->. auto.
Qed.

Lemma set_closing_QInv s v : QInv s -> QInv (set_closing s v).
Proof. intros [A B C D]. constructor; auto. Qed.

Lemma KF_set_closing s v : KF s (set_closing s v).
Proof. apply KF_hs. reflexivity. Qed.

(* uv_close *)
Lemma l_close_spec s pend wpend i :
  LInvG s pend wpend -> QInv s -> (i < length (hs s))%nat ->
  h_closing (hget s i) = false ->
  QInv (l_close s i) /\ KF s (l_close s i).
Proof.
  intros Hinv Q Hi Hc. pose proof Hinv as [HI _]. pose proof (LInvG_RT _ _ _ Hinv) as HR.
  unfold l_close. rewrite Hc.
  set (s1 := upd_h s i (with_closing true)).
  assert (G1 : hget s1 i = with_closing true (hget s i)) by (apply hget_upd_h_same; exact Hi).
  assert (L1 : length (hs s1) = length (hs s)) by apply len_upd_h.
  assert (O1 : OnlyAt s s1 i) by apply OnlyAt_upd.
  destruct (h_kind (hget s i)) eqn:Ek.
  - (* timer *)
    set (s2 := set_ts s1 (timer_close (ts s1) i)).
    assert (Hit : (i < length (tms (ts s)))%nat) by (rewrite (hi_len _ _ HI); exact Hi).
    destruct (timer_stop_effect (ts s) i (hi_ti _ _ HI) Hit) as (_ & Hnr & _ & _ & _ & Hrd & _).
    assert (O : OnlyAt s (handle_stop s2 i) i).
    { apply OnlyAt_trans with (b := s2); [|apply OnlyAt_handle_stop].
      apply OnlyAt_trans with (b := s1); [exact O1|apply OnlyAt_hs; reflexivity]. }
    assert (F : fl (hget (handle_stop s2 i) i) = (KTimer, false, true, h_closed (hget s i))).
    { rewrite handle_stop_fl by (cbn [hs set_ts s2]; rewrite L1; exact Hi).
      change (hget s2 i) with (hget s1 i). rewrite G1. cbn. rewrite Ek. reflexivity. }
    unfold fl in F. inversion F as [[F1 F2 F3 F4]].
    destruct (queues_proj _ _ (queues_handle_stop s2 i)) as (E4 & E5 & E6).
    split.
    + apply set_closing_QInv. apply QInv_sub with (s := s) (i := i); auto.
      * intros k j Hj. rewrite wq_get_handle_stop in Hj. change (wq_get s2 k) with (wq_get s k) in Hj.
        split; [exact Hj|]. intros ->. destruct (q_w _ Q k i Hj) as (_ & _ & K).
        apply wq_kind_watcher in Hj. rewrite Ek in K. subst k. destruct Hj as [?|[?|?]]; discriminate.
      * intros j Hj. rewrite E4 in Hj. change (lq s2) with (lq s) in Hj.
        split; [exact Hj|]. intros ->. destruct (q_lq _ Q i Hj) as (_ & _ & K).
        apply is_watcher_kind in K. rewrite Ek in K. destruct K as [?|[?|?]]; discriminate.
      * intros j Hj. rewrite E5, E6 in Hj. change (async_q s2 ++ alq s2) with (async_q s ++ alq s) in Hj.
        split; [exact Hj|]. intros ->. destruct (q_as _ Q i Hj) as (_ & K & _). congruence.
      * intros j Hj. rewrite ts_handle_stop in Hj. unfold s2 in Hj. cbn [ts set_ts] in Hj.
        change (ts s1) with (ts s) in Hj. unfold timer_close in Hj. rewrite ready_set in Hj.
        split; [apply Hrd; exact Hj|]. intros ->. auto.
    + eapply KF_trans; [|apply KF_set_closing]. apply OnlyAt_KF with (i := i); auto; congruence.
  - (* idle *)
    assert (W : is_watcher s1 i = true) by (apply is_watcher_kind; rewrite G1; cbn; auto).
    assert (Q1 : QInv s1).
    { apply QInv_closing_flag; auto.
      - intros H. destruct (q_as _ Q i H) as (_ & K & _). congruence.
      - intros H. pose proof (HR i H) as K. apply is_timer_kind in K. congruence. }
    assert (R1 : RT s1).
    { intros j Hj. change (ready (ts s1)) with (ready (ts s)) in Hj. pose proof (HR j Hj) as K.
      apply is_timer_kind. apply is_timer_kind in K. unfold s1. rewrite hget_upd_h.
      destruct (Nat.eqb i j && Nat.ltb i (length (hs s))) eqn:E; [|exact K].
      apply andb_prop in E. destruct E as [E _]. apply Nat.eqb_eq in E. subst j. exact K. }
    destruct (watcher_stop_spec s1 i R1 Q1 ltac:(lia) W) as (Q2 & O2 & F2 & _).
    split; [apply set_closing_QInv; exact Q2|].
    eapply KF_trans; [|apply KF_set_closing]. unfold fl in F2. inversion F2 as [[F21 F22 F23 F24]].
    apply OnlyAt_KF with (i := i); [eapply OnlyAt_trans; eauto| |]; rewrite ?F21, ?F24, G1; auto.
  - (* prepare *)
    assert (W : is_watcher s1 i = true) by (apply is_watcher_kind; rewrite G1; cbn; auto).
    assert (Q1 : QInv s1).
    { apply QInv_closing_flag; auto.
      - intros H. destruct (q_as _ Q i H) as (_ & K & _). congruence.
      - intros H. pose proof (HR i H) as K. apply is_timer_kind in K. congruence. }
    assert (R1 : RT s1).
    { intros j Hj. change (ready (ts s1)) with (ready (ts s)) in Hj. pose proof (HR j Hj) as K.
      apply is_timer_kind. apply is_timer_kind in K. unfold s1. rewrite hget_upd_h.
      destruct (Nat.eqb i j && Nat.ltb i (length (hs s))) eqn:E; [|exact K].
      apply andb_prop in E. destruct E as [E _]. apply Nat.eqb_eq in E. subst j. exact K. }
    destruct (watcher_stop_spec s1 i R1 Q1 ltac:(lia) W) as (Q2 & O2 & F2 & _).
    split; [apply set_closing_QInv; exact Q2|].
    eapply KF_trans; [|apply KF_set_closing]. unfold fl in F2. inversion F2 as [[F21 F22 F23 F24]].
    apply OnlyAt_KF with (i := i); [eapply OnlyAt_trans; eauto| |]; rewrite ?F21, ?F24, G1; auto.
  - (* check *)
    assert (W : is_watcher s1 i = true) by (apply is_watcher_kind; rewrite G1; cbn; auto).
    assert (Q1 : QInv s1).
    { apply QInv_closing_flag; auto.
      - intros H. destruct (q_as _ Q i H) as (_ & K & _). congruence.
      - intros H. pose proof (HR i H) as K. apply is_timer_kind in K. congruence. }
    assert (R1 : RT s1).
    { intros j Hj. change (ready (ts s1)) with (ready (ts s)) in Hj. pose proof (HR j Hj) as K.
      apply is_timer_kind. apply is_timer_kind in K. unfold s1. rewrite hget_upd_h.
      destruct (Nat.eqb i j && Nat.ltb i (length (hs s))) eqn:E; [|exact K].
      apply andb_prop in E. destruct E as [E _]. apply Nat.eqb_eq in E. subst j. exact K. }
    destruct (watcher_stop_spec s1 i R1 Q1 ltac:(lia) W) as (Q2 & O2 & F2 & _).
    split; [apply set_closing_QInv; exact Q2|].
    eapply KF_trans; [|apply KF_set_closing]. unfold fl in F2. inversion F2 as [[F21 F22 F23 F24]].
    apply OnlyAt_KF with (i := i); [eapply OnlyAt_trans; eauto| |]; rewrite ?F21, ?F24, G1; auto.
  - (* async *)
    set (s2 := upd_h s1 i (with_pending true)).
    set (s3 := set_async s2 (remove_q i (async_q s2))).
    set (s4 := set_alq s3 (remove_q i (alq s3))).
    assert (G4 : hget s4 i = with_pending true (with_closing true (hget s i))).
    { change (hget s4 i) with (hget s2 i). unfold s2. rewrite hget_upd_h_same by lia. rewrite G1. reflexivity. }
    assert (L4 : length (hs s4) = length (hs s)).
    { change (hs s4) with (hs s2). unfold s2. rewrite len_upd_h. exact L1. }
    assert (O : OnlyAt s (handle_stop s4 i) i).
    { apply OnlyAt_trans with (b := s4); [|apply OnlyAt_handle_stop].
      apply OnlyAt_trans with (b := s1); [exact O1|].
      apply OnlyAt_trans with (b := s2); [apply OnlyAt_upd|apply OnlyAt_hs; reflexivity]. }
    assert (F : fl (hget (handle_stop s4 i) i) = (KAsync, false, true, h_closed (hget s i))).
    { rewrite handle_stop_fl by (rewrite L4; exact Hi). rewrite G4. cbn. rewrite Ek. reflexivity. }
    unfold fl in F. inversion F as [[F1 F2 F3 F4]].
    destruct (queues_proj _ _ (queues_handle_stop s4 i)) as (E4 & E5 & E6).
    split.
    + apply set_closing_QInv. apply QInv_sub with (s := s) (i := i); auto.
      * intros k j Hj. rewrite wq_get_handle_stop in Hj. change (wq_get s4 k) with (wq_get s k) in Hj.
        split; [exact Hj|]. intros ->. destruct (q_w _ Q k i Hj) as (_ & _ & K).
        apply wq_kind_watcher in Hj. rewrite Ek in K. subst k. destruct Hj as [?|[?|?]]; discriminate.
      * intros j Hj. rewrite E4 in Hj. change (lq s4) with (lq s) in Hj.
        split; [exact Hj|]. intros ->. destruct (q_lq _ Q i Hj) as (_ & _ & K).
        apply is_watcher_kind in K. rewrite Ek in K. destruct K as [?|[?|?]]; discriminate.
      * intros j Hj. rewrite E5, E6 in Hj.
        change (async_q s4) with (remove_q i (async_q s)) in Hj.
        change (alq s4) with (remove_q i (alq s)) in Hj.
        apply in_app_or in Hj. destruct Hj as [Hj|Hj]; apply in_remove_q in Hj; destruct Hj as [Hj Hne];
          (split; [apply in_or_app; auto|auto]).
      * intros j Hj. rewrite ts_handle_stop in Hj. change (ts s4) with (ts s) in Hj.
        split; [exact Hj|]. intros ->. pose proof (HR i Hj) as K. apply is_timer_kind in K. congruence.
    + eapply KF_trans; [|apply KF_set_closing]. apply OnlyAt_KF with (i := i); auto; congruence.
Qed.

(* uv_{idle,prepare,check}_start *)
Lemma wq_get_set_same s k v :
  (k = KIdle \/ k = KPrepare \/ k = KCheck) -> wq_get (wq_set s k v) k = v.
Proof. intros [H|[H|H]]; subst k; reflexivity. Qed.

Lemma wq_get_set_other s k k' v : k <> k' -> wq_get (wq_set s k v) k' = wq_get s k'.
Proof. intros H. destruct k, k'; try reflexivity; congruence. Qed.

Lemma watcher_start_spec s i hascb :
  QInv s -> (i < length (hs s))%nat -> is_watcher s i = true ->
  QInv (fst (watcher_start s i hascb)) /\ KF s (fst (watcher_start s i hascb)).
Proof.
  intros Q Hi Hw. unfold watcher_start.
  destruct (h_active (hget s i)) eqn:Ea; [split; [exact Q|apply KF_refl]|].
  destruct hascb; cbn [negb fst]; [|split; [exact Q|apply KF_refl]].
  set (k := h_kind (hget s i)).
  assert (Hk : k = KIdle \/ k = KPrepare \/ k = KCheck) by (apply is_watcher_kind; exact Hw).
  set (s1 := wq_set s k (i :: wq_get s k)).
  set (s2 := upd_h s1 i (with_hascb true)).
  assert (H1 : hs s1 = hs s) by (unfold s1; destruct k; reflexivity).
  assert (G1 : forall j, hget s1 j = hget s j) by (intros j; unfold hget; rewrite H1; reflexivity).
  assert (L2 : length (hs s2) = length (hs s)) by (unfold s2; rewrite len_upd_h, H1; reflexivity).
  assert (G2 : hget s2 i = with_hascb true (hget s i)).
  { unfold s2. rewrite hget_upd_h_same by (rewrite H1; exact Hi). rewrite G1. reflexivity. }
  assert (O : OnlyAt s (handle_start s2 i) i).
  { apply OnlyAt_trans with (b := s2); [|apply OnlyAt_handle_start].
    apply OnlyAt_trans with (b := s1); [apply OnlyAt_hs; exact H1|apply OnlyAt_upd]. }
  assert (F : fl (hget (handle_start s2 i) i) = (k, true, h_closing (hget s i), h_closed (hget s i))).
  { rewrite handle_start_fl by (rewrite L2; exact Hi). rewrite G2. reflexivity. }
  unfold fl in F. inversion F as [[F1 F2 F3 F4]].
  destruct (Shape_handle_start s2 i) as (_ & SQ & _).
  destruct (queues_proj _ _ SQ) as (E4 & E5 & E6).
  destruct O as [OL OO].
  assert (AQ : lq s2 = lq s /\ async_q s2 = async_q s /\ alq s2 = alq s /\ ts s2 = ts s)
    by (unfold s2, s1; destruct k; auto).
  destruct AQ as (AQ1 & AQ2 & AQ3 & AQ4).
  split.
  - destruct Q. constructor.
    + intros k' j Hj. rewrite (wq_get_queues _ _ k' SQ) in Hj.
      change (wq_get s2 k') with (wq_get s1 k') in Hj.
      destruct (Nat.eq_dec j i) as [->|Hne].
      * rewrite OL. split; [exact Hi|]. split; [exact F2|].
        destruct (hkind_eqb k k') eqn:Ekk.
        -- rewrite F1. destruct k, k'; try discriminate; reflexivity.
        -- assert (k <> k') by (intros <-; destruct k; discriminate).
           unfold s1 in Hj. rewrite wq_get_set_other in Hj by assumption.
           destruct (q_w0 k' i Hj) as (_ & A & _). congruence.
      * rewrite OO, OL by exact Hne. apply q_w0.
        destruct (hkind_eqb k k') eqn:Ekk.
        -- assert (k = k') by (destruct k, k'; try discriminate; reflexivity). subst k'.
           unfold s1 in Hj. rewrite wq_get_set_same in Hj by exact Hk.
           destruct Hj as [->|Hj]; [congruence|exact Hj].
        -- assert (k <> k') by (intros <-; destruct k; discriminate).
           unfold s1 in Hj. rewrite wq_get_set_other in Hj by assumption. exact Hj.
    + intros j Hj. rewrite E4, AQ1 in Hj. destruct (q_lq0 j Hj) as (A1 & A2 & A3).
      assert (j <> i) by (intros ->; congruence).
      unfold is_watcher, kind_is. rewrite OO, OL by assumption. auto.
    + intros j Hj. rewrite E5, E6, AQ2, AQ3 in Hj. destruct (q_as0 j Hj) as (A1 & A2 & A3).
      assert (j <> i).
      { intros ->. apply is_watcher_kind in Hw. rewrite A2 in Hw. destruct Hw as [?|[?|?]]; discriminate. }
      rewrite OO, OL by assumption. auto.
    + intros j Hj. rewrite ts_handle_start, AQ4 in Hj.
      destruct (Nat.eq_dec j i) as [->|Hne]; [rewrite F3|rewrite OO by exact Hne]; auto.
  - apply OnlyAt_KF with (i := i); [split; assumption|rewrite F1; reflexivity|rewrite F4; auto].
Qed.

(* uv__handle_init (+ uv_async_init) *)
Lemma hget_init_old s k j : (j < length (hs s))%nat -> hget (handle_init s k) j = hget s j.
Proof. intros H. unfold hget, handle_init. cbn [hs set_ts set_hs]. apply app_nth1. exact H. Qed.

Lemma hget_init_new s k :
  hget (handle_init s k) (length (hs s)) = mkH k false true false false false false.
Proof.
  unfold hget, handle_init. cbn [hs set_ts set_hs]. rewrite app_nth2 by lia.
  rewrite Nat.sub_diag. reflexivity.
Qed.

Lemma len_init s k : length (hs (handle_init s k)) = S (length (hs s)).
Proof. unfold handle_init. cbn [hs set_ts set_hs]. rewrite app_length. simpl. lia. Qed.

Lemma init_QInv s k : QInv s -> QInv (handle_init s k) /\ KF s (handle_init s k).
Proof.
  intros Q. split.
  - destruct Q. constructor.
    + intros k' j Hj. change (wq_get (handle_init s k) k') with (wq_get s k') in Hj.
      destruct (q_w0 k' j Hj) as (A1 & A2 & A3). rewrite len_init, hget_init_old by exact A1. splits; auto.
    + intros j Hj. change (lq (handle_init s k)) with (lq s) in Hj.
      destruct (q_lq0 j Hj) as (A1 & A2 & A3). unfold is_watcher, kind_is.
      rewrite len_init, hget_init_old by exact A1. splits; auto.
    + intros j Hj. change (async_q (handle_init s k) ++ alq (handle_init s k)) with (async_q s ++ alq s) in Hj.
      destruct (q_as0 j Hj) as (A1 & A2 & A3). rewrite len_init, hget_init_old by exact A1. splits; auto.
    + intros j Hj. change (ready (ts (handle_init s k))) with (ready (ts s)) in Hj.
      destruct (Nat.lt_ge_cases j (length (hs s))) as [L|G].
      * rewrite hget_init_old by exact L. auto.
      * destruct (Nat.eq_dec j (length (hs s))) as [->|Hne].
        -- rewrite hget_init_new. reflexivity.
        -- rewrite hget_overflow by (rewrite len_init; lia). reflexivity.
  - split; [rewrite len_init; lia|]. intros j Hj. rewrite hget_init_old by exact Hj. auto.
Qed.

(* ------------------------------------------------------------------ *)
(* one API call                                                       *)
(* ------------------------------------------------------------------ *)
Definition is_cb (e : levent) : bool := match e with VCb _ _ _ => true | _ => false end.

Lemma lapi_no_cb s o : forallb (fun e => negb (is_cb e)) (snd (lapi s o)) = true.
Proof.
  destruct o; cbn [lapi];
    repeat match goal with
    | |- context [if ?c then _ else _] => destruct c
    | |- context [let '(_, _) := ?p in _] => destruct p
    | |- context [match ?k with KTimer => _ | _ => _ end] => destruct k
    end; reflexivity.
Qed.

Lemma QInv_fields s s' :
  QInv s -> hs s' = hs s -> queues s' = queues s -> ready (ts s') = ready (ts s) -> QInv s'.
Proof.
  intros Q A B C. apply Shape_QInv with (s := s) (i := O); auto.
  - apply Shape_fields; auto.
  - right. unfold hget. rewrite A. reflexivity.
Qed.

Lemma kind_is_true s i k : kind_is s i k = true -> h_kind (hget s i) = k.
Proof. unfold kind_is. destruct (h_kind (hget s i)), k; cbn; intros; try discriminate; reflexivity. Qed.

Lemma lapi_spec s pend wpend o :
  LInvG s pend wpend -> QInv s -> QInv (fst (lapi s o)) /\ KF s (fst (lapi s o)).
Proof.
  intros Hinv Q. pose proof Hinv as [HI _].
  assert (Same : QInv s /\ KF s s) by (split; [exact Q|apply KF_refl]).
  destruct o; cbn [lapi]; try exact Same.
  - (* LInit *)
    destruct (init_QInv s k Q) as (Q1 & K1).
    destruct k; cbn [fst]; try (split; assumption).
    set (i := length (hs s)). set (s1 := handle_init s KAsync) in *.
    assert (Hi1 : (i < length (hs s1))%nat) by (unfold s1; rewrite len_init; unfold i; lia).
    assert (Gi : hget s1 i = mkH KAsync false true false false false false) by apply hget_init_new.
    set (s2 := upd_h s1 i (with_hascb hascb)).
    assert (S2 : Shape s1 s2 i) by (apply Shape_upd; reflexivity).
    assert (Q2 : QInv s2).
    { apply Shape_QInv with (s := s1) (i := i); auto. right. apply upd_h_active_same. reflexivity. }
    assert (G2 : hget s2 i = with_hascb hascb (hget s1 i)) by (apply hget_upd_h_same; exact Hi1).
    set (s3 := set_async s2 (async_q s2 ++ [i])).
    assert (Q3 : QInv s3).
    { destruct Q2. constructor; auto.
      intros j Hj. change (async_q s3 ++ alq s3) with ((async_q s2 ++ [i]) ++ alq s2) in Hj.
      assert (Hj' : In j (async_q s2 ++ alq s2) \/ j = i).
      { rewrite !in_app_iff in Hj. rewrite in_app_iff. simpl in Hj. intuition (subst; auto). }
      destruct Hj' as [Hj' | ->]; [apply q_as0; exact Hj'|].
      change (hs s3) with (hs s2). change (hget s3 i) with (hget s2 i).
      destruct S2 as (L2 & _). rewrite L2, G2, Gi. splits; auto. }
    split.
    + apply Shape_QInv with (s := s3) (i := i); auto; [apply Shape_handle_start|].
      left. apply kind_not_watcher. right. change (hget s3 i) with (hget s2 i). rewrite G2, Gi. reflexivity.
    + eapply KF_trans; [exact K1|]. eapply KF_trans; [apply (Shape_KF _ _ _ S2)|].
      eapply KF_trans; [apply KF_hs; reflexivity|]. apply (Shape_KF _ _ _ (Shape_handle_start s3 i)).
  - (* LTStart *)
    destruct (usable s i && kind_is s i KTimer) eqn:U; [|exact Same].
    apply andb_prop in U. destruct U as [U K]. apply usable_facts in U. destruct U as [Hi _].
    apply kind_is_true in K.
    pose proof (Shape_l_timer_start s pend wpend i Hinv Hi cb t r) as S.
    destruct (l_timer_start s i cb t r) as [s' c]. cbn [fst] in *.
    split; [|apply (Shape_KF _ _ _ S)].
    apply Shape_QInv with (s := s) (i := i); auto. left. apply kind_not_watcher. auto.
  - (* LTAgain *)
    destruct (usable s i && kind_is s i KTimer) eqn:U; [|exact Same].
    apply andb_prop in U. destruct U as [U K]. apply usable_facts in U. destruct U as [Hi _].
    apply kind_is_true in K.
    pose proof (Shape_l_timer_again s pend wpend i Hinv Hi) as S.
    destruct (l_timer_again s i) as [s' c]. cbn [fst] in *.
    split; [|apply (Shape_KF _ _ _ S)].
    apply Shape_QInv with (s := s) (i := i); auto. left. apply kind_not_watcher. auto.
  - (* LTSetRepeat *)
    destruct (usable s i && kind_is s i KTimer) eqn:U; [|exact Same].
    cbn [fst]. split; [|apply KF_hs; reflexivity].
    apply QInv_fields with (s := s); auto.
  - (* LStart *)
    destruct (usable s i && is_watcher s i && negb (h_closing (hget s i))) eqn:U; [|exact Same].
    apply andb_prop in U. destruct U as [U _]. apply andb_prop in U. destruct U as [U W].
    apply usable_facts in U. destruct U as [Hi _].
    pose proof (watcher_start_spec s i hascb Q Hi W) as S.
    destruct (watcher_start s i hascb) as [s' c]. exact S.
  - (* LStop *)
    destruct (usable s i) eqn:U; [|exact Same].
    apply usable_facts in U. destruct U as [Hi _].
    destruct (kind_is s i KTimer) eqn:K.
    + apply kind_is_true in K. cbn [fst].
      pose proof (Shape_l_timer_stop s pend wpend i Hinv Hi) as S.
      split; [|apply (Shape_KF _ _ _ S)].
      apply Shape_QInv with (s := s) (i := i); auto. left. apply kind_not_watcher. auto.
    + destruct (is_watcher s i) eqn:W; [|exact Same]. cbn [fst].
      destruct (watcher_stop_spec s i (LInvG_RT _ _ _ Hinv) Q Hi W) as (Q2 & O2 & F2 & _).
      split; [exact Q2|]. unfold fl in F2. inversion F2 as [[F21 F22 F23 F24]].
      apply OnlyAt_KF with (i := i); auto. congruence.
  - (* LRef *)
    destruct (usable s i); [|exact Same]. cbn [fst].
    destruct (Shape_handle_ref s i) as (S & A).
    split; [apply Shape_QInv with (s := s) (i := i); auto|apply (Shape_KF _ _ _ S)].
  - (* LUnref *)
    destruct (usable s i); [|exact Same]. cbn [fst].
    destruct (Shape_handle_unref s i) as (S & A).
    split; [apply Shape_QInv with (s := s) (i := i); auto|apply (Shape_KF _ _ _ S)].
  - (* LClose *)
    destruct (usable s i && negb (h_closing (hget s i))) eqn:U; [|exact Same].
    apply andb_prop in U. destruct U as [U C]. apply usable_facts in U. destruct U as [Hi _].
    apply negb_true_iff in C. cbn [fst]. apply l_close_spec with (pend := pend) (wpend := wpend); auto.
  - (* LSend *)
    destruct (usable s i && kind_is s i KAsync); [|exact Same]. cbn [fst].
    unfold async_send. destruct (h_pending (hget s i)); [exact Same|].
    assert (S : Shape s (upd_h s i (with_pending true)) i) by (apply Shape_upd; reflexivity).
    split.
    + apply QInv_fields with (s := upd_h s i (with_pending true)); auto.
      apply Shape_QInv with (s := s) (i := i); auto. right. apply upd_h_active_same. reflexivity.
    + eapply KF_trans; [apply (Shape_KF _ _ _ S)|apply KF_hs; reflexivity].
  - (* LWork *)
    cbn [fst]. unfold work_submit.
    match goal with |- context [if ?c then _ else _] => destruct c end;
      (split; [apply QInv_fields with (s := s); auto|apply KF_hs; reflexivity]).
  - (* LStopLoop *)
    cbn [fst]. split; [apply QInv_fields with (s := s); auto|apply KF_hs; reflexivity].
  - (* LAdv *)
    cbn [fst]. split; [apply QInv_fields with (s := s); auto|apply KF_hs; reflexivity].
Qed.

(* the detached watcher queue only shrinks during API calls *)
Definition LQS (s s' : lstate) : Prop := forall j, In j (lq s') -> In j (lq s).

Lemma LQS_eq s s' : lq s' = lq s -> LQS s s'.
Proof. intros E j. rewrite E. auto. Qed.

Lemma LQS_trans a b c : LQS a b -> LQS b c -> LQS a c.
Proof. intros A B j H. auto. Qed.

Lemma lq_handle_start s i : lq (handle_start s i) = lq s.
Proof. unfold handle_start. destruct (h_active (hget s i)), (h_ref (hget s i)); reflexivity. Qed.
Lemma lq_handle_stop s i : lq (handle_stop s i) = lq s.
Proof. unfold handle_stop. destruct (h_active (hget s i)), (h_ref (hget s i)); reflexivity. Qed.
Lemma lq_handle_ref s i : lq (handle_ref s i) = lq s.
Proof. unfold handle_ref. destruct (h_ref (hget s i)), (h_closing (hget s i)), (h_active (hget s i)); reflexivity. Qed.
Lemma lq_handle_unref s i : lq (handle_unref s i) = lq s.
Proof. unfold handle_unref. destruct (h_ref (hget s i)), (h_closing (hget s i)), (h_active (hget s i)); reflexivity. Qed.
Lemma lq_sync s i : lq (sync_timer_active s i) = lq s.
Proof. unfold sync_timer_active. destruct (t_active (get (ts s) i)); [apply lq_handle_start|apply lq_handle_stop]. Qed.
Lemma lq_wq_set s k v : lq (wq_set s k v) = lq s.
Proof. destruct k; reflexivity. Qed.

Lemma LQS_watcher_stop s i : LQS s (watcher_stop s i).
Proof.
  unfold watcher_stop. destruct (h_active (hget s i)); [|apply LQS_eq; reflexivity].
  intros j Hj. rewrite lq_handle_stop in Hj. cbn [lq set_lq] in Hj.
  apply in_remove_q in Hj. destruct Hj as [Hj _]. rewrite lq_wq_set in Hj. exact Hj.
Qed.

Lemma LQS_l_close s i : LQS s (l_close s i).
Proof.
  unfold l_close. destruct (h_closing (hget s i)); [apply LQS_eq; reflexivity|].
  intros j Hj. cbn [lq set_closing] in Hj.
  destruct (h_kind (hget s i)).
  - rewrite lq_handle_stop in Hj. exact Hj.
  - apply LQS_watcher_stop in Hj. exact Hj.
  - apply LQS_watcher_stop in Hj. exact Hj.
  - apply LQS_watcher_stop in Hj. exact Hj.
  - rewrite lq_handle_stop in Hj. exact Hj.
Qed.

Lemma LQS_lapi s o : LQS s (fst (lapi s o)).
Proof.
  destruct o; cbn [lapi];
    repeat match goal with
    | |- context [if ?c then _ else _] => destruct c
    end; cbn [fst]; try (apply LQS_eq; reflexivity).
  - destruct k; cbn [fst]; apply LQS_eq; try reflexivity.
    rewrite lq_handle_start. reflexivity.
  - unfold l_timer_start. destruct (timer_start (ts s) i cb t r) as [t' c]. cbn [fst].
    apply LQS_eq. rewrite lq_sync. cbn [lq set_ts]. destruct (Z.eqb c 0); [apply lq_handle_stop|reflexivity].
  - unfold l_timer_again. destruct (timer_again (ts s) i) as [t' c]. cbn [fst].
    apply LQS_eq. rewrite lq_sync. cbn [lq set_ts].
    match goal with |- lq (if ?b then _ else _) = _ => destruct b end; [apply lq_handle_stop|reflexivity].
  - unfold watcher_start. destruct (h_active (hget s i)); [apply LQS_eq; reflexivity|].
    destruct hascb; cbn [negb fst]; apply LQS_eq; [|reflexivity].
    rewrite lq_handle_start. cbn [lq upd_h set_hs]. apply lq_wq_set.
  - apply LQS_eq. unfold l_timer_stop. rewrite lq_sync. reflexivity.
  - apply LQS_watcher_stop.
  - apply LQS_eq. apply lq_handle_ref.
  - apply LQS_eq. apply lq_handle_unref.
  - apply LQS_l_close.
  - apply LQS_eq. unfold async_send. destruct (h_pending (hget s i)); reflexivity.
  - apply LQS_eq. unfold work_submit. match goal with |- context [if ?c then _ else _] => destruct c end; reflexivity.
Qed.
