(* C02 on Model/LoopCore.v (timer / idle / prepare / check / async handles):
   uv_close never runs a callback; close_cb exactly once, in a closing phase;
   nothing for the handle after its close_cb.

   Uses the accounting invariant LInvG of Proofs/LoopCoreInv.v (closing list =
   the closing-and-not-closed handles, once each; closing -> inactive) and
   adds the queue-membership invariant QInv below: a closing handle is in
   no watcher queue, no async list and not in the ready list of the timers. *)
From UV Require Import Lib.Base Model.Heap Model.Timer Model.LoopCore
  Proofs.HeapProofs Proofs.TimerProofs Proofs.LoopCoreInv.
Local Open Scope Z_scope.

Ltac splits := repeat match goal with |- _ /\ _ => split end.

(* ------------------------------------------------------------------ *)
(* state access                                                       *)
(* ------------------------------------------------------------------ *)
Lemma nth_upd_gen {A} (l : list A) i j f d :
  nth j (upd i f l) d = if Nat.eqb i j && Nat.ltb i (length l) then f (nth i l d) else nth j l d.
Proof.
  revert i j. induction l as [|x l IH]; intros i j.
  - simpl. rewrite andb_false_r. destruct i; reflexivity.
  - destruct i as [|i], j as [|j]; simpl; try reflexivity.
    rewrite IH. reflexivity.
Qed.

Lemma hget_upd_h s i f j :
  hget (upd_h s i f) j = if Nat.eqb i j && Nat.ltb i (length (hs s)) then f (hget s i) else hget s j.
Proof. unfold hget, upd_h, set_hs. cbn [hs]. apply nth_upd_gen. Qed.

Lemma len_upd_h s i f : length (hs (upd_h s i f)) = length (hs s).
Proof. unfold upd_h, set_hs. cbn [hs]. apply upd_length. Qed.

Lemma lvalid_lt s i : lvalid s i = true <-> (i < length (hs s))%nat.
Proof. unfold lvalid. apply Nat.ltb_lt. Qed.

Lemma usable_facts s i : usable s i = true -> (i < length (hs s))%nat /\ h_closed (hget s i) = false.
Proof.
  unfold usable. intros H. apply andb_prop in H. destruct H as [A B].
  apply lvalid_lt in A. apply negb_true_iff in B. auto.
Qed.

(* the flags the close protocol looks at *)
Definition fl (h : hrec) := (h_kind h, h_active h, h_closing h, h_closed h).

(* ------------------------------------------------------------------ *)
(* kinds never change, CLOSED is never reset, handles never disappear *)
(* ------------------------------------------------------------------ *)
Definition KF (s s' : lstate) : Prop :=
  (length (hs s) <= length (hs s'))%nat /\
  forall i, (i < length (hs s))%nat ->
    h_kind (hget s' i) = h_kind (hget s i) /\
    (h_closed (hget s i) = true -> h_closed (hget s' i) = true).

Lemma KF_refl s : KF s s.
Proof. split; [lia|auto]. Qed.

Lemma KF_trans a b c : KF a b -> KF b c -> KF a c.
Proof.
  intros [A1 A2] [B1 B2]. split; [lia|]. intros i Hi.
  destruct (A2 i Hi) as (K1 & C1). destruct (B2 i ltac:(lia)) as (K2 & C2).
  split; [congruence|auto].
Qed.

Lemma KF_hs s s' : hs s' = hs s -> KF s s'.
Proof. intros E. split; unfold hget; rewrite E; [lia|auto]. Qed.

Lemma KF_upd s i f :
  h_kind (f (hget s i)) = h_kind (hget s i) ->
  (h_closed (hget s i) = true -> h_closed (f (hget s i)) = true) ->
  KF s (upd_h s i f).
Proof.
  intros A B. split; [rewrite len_upd_h; lia|]. intros j Hj. rewrite hget_upd_h.
  destruct (Nat.eqb i j && Nat.ltb i (length (hs s))) eqn:E; [|auto].
  apply andb_prop in E. destruct E as [E _]. apply Nat.eqb_eq in E. subst j. auto.
Qed.

(* ------------------------------------------------------------------ *)
(* queue membership                                                   *)
(* ------------------------------------------------------------------ *)
Record QInv (s : lstate) : Prop := {
  q_w : forall k i, In i (wq_get s k) ->
        (i < length (hs s))%nat /\ h_active (hget s i) = true /\ h_kind (hget s i) = k;
  q_lq : forall i, In i (lq s) ->
        (i < length (hs s))%nat /\ h_active (hget s i) = true /\ is_watcher s i = true;
  q_as : forall i, In i (async_q s ++ alq s) ->
        (i < length (hs s))%nat /\ h_kind (hget s i) = KAsync /\ h_closing (hget s i) = false;
  q_rd : forall i, In i (ready (ts s)) -> h_closing (hget s i) = false
}.

Lemma QInv_init t0 m : QInv (linit t0 m).
Proof. constructor; cbn; try (intros; contradiction). intros k i. destruct k; cbn; contradiction. Qed.

Definition queues (s : lstate) := (idle_q s, prepare_q s, check_q s, lq s, async_q s, alq s).

Lemma queues_proj s s' : queues s' = queues s ->
  lq s' = lq s /\ async_q s' = async_q s /\ alq s' = alq s.
Proof. unfold queues. intros E. inversion E. auto. Qed.

Lemma wq_get_queues s s' k : queues s' = queues s -> wq_get s' k = wq_get s k.
Proof. unfold queues. intros E. inversion E. destruct k; cbn; congruence. Qed.

Lemma is_watcher_kind s i :
  is_watcher s i = true <->
  (h_kind (hget s i) = KIdle \/ h_kind (hget s i) = KPrepare \/ h_kind (hget s i) = KCheck).
Proof.
  unfold is_watcher, kind_is. destruct (h_kind (hget s i)); cbn; split; intros H;
    try discriminate; auto; destruct H as [H|[H|H]]; discriminate.
Qed.

(* the handle table keeps its flags except ACTIVE of handle i, which is not a
   watcher (or keeps ACTIVE too); queues unchanged; the ready list shrinks *)
Lemma QInv_frame s s' i :
  QInv s -> length (hs s') = length (hs s) -> queues s' = queues s ->
  (forall j, h_kind (hget s' j) = h_kind (hget s j) /\ h_closing (hget s' j) = h_closing (hget s j)) ->
  (forall j, j <> i -> h_active (hget s' j) = h_active (hget s j)) ->
  (is_watcher s i = false \/ h_active (hget s' i) = h_active (hget s i)) ->
  (forall j, In j (ready (ts s')) -> In j (ready (ts s))) ->
  QInv s'.
Proof.
  intros Q L E F A W R. destruct Q.
  assert (ACT : forall j, is_watcher s j = true -> h_active (hget s' j) = h_active (hget s j)).
  { intros j Hw. destruct (Nat.eq_dec j i) as [->|Hne]; [|auto]. destruct W as [W|W]; congruence. }
  assert (Eq := E). unfold queues in Eq. inversion Eq.
  constructor.
  - intros k j Hj. rewrite (wq_get_queues s s' k E) in Hj. destruct (q_w0 k j Hj) as (A1 & A2 & A3).
    destruct (F j) as (F1 & F2). splits; try congruence; try lia.
    rewrite ACT; auto. apply is_watcher_kind. destruct k; cbn in Hj; try contradiction; auto.
  - intros j Hj. rewrite H3 in Hj. destruct (q_lq0 j Hj) as (A1 & A2 & A3).
    splits; try lia.
    + rewrite ACT; auto.
    + apply is_watcher_kind. apply is_watcher_kind in A3. destruct (F j) as (F1 & _). rewrite F1. exact A3.
  - intros j Hj. rewrite H4, H5 in Hj. destruct (q_as0 j Hj) as (A1 & A2 & A3).
    destruct (F j) as (F1 & F2). splits; try congruence; lia.
  - intros j Hj. destruct (F j) as (_ & F2). rewrite F2. apply q_rd0. apply R. exact Hj.
Qed.

(* ------------------------------------------------------------------ *)
(* steps that touch one handle's ACTIVE/REF flags and the timers      *)
(* ------------------------------------------------------------------ *)
Definition Shape (s s' : lstate) (i : nat) : Prop :=
  length (hs s') = length (hs s) /\ queues s' = queues s /\
  (forall j, h_kind (hget s' j) = h_kind (hget s j) /\ h_closing (hget s' j) = h_closing (hget s j) /\
             h_closed (hget s' j) = h_closed (hget s j)) /\
  (forall j, j <> i -> h_active (hget s' j) = h_active (hget s j)) /\
  (forall j, In j (ready (ts s')) -> In j (ready (ts s))).

Lemma Shape_refl s i : Shape s s i.
Proof. unfold Shape. splits; auto. Qed.

Lemma Shape_trans a b c i : Shape a b i -> Shape b c i -> Shape a c i.
Proof.
  intros (A1 & A2 & A3 & A4 & A5) (B1 & B2 & B3 & B4 & B5). unfold Shape. splits.
  - congruence.
  - congruence.
  - intros j. destruct (A3 j) as (X1 & X2 & X3). destruct (B3 j) as (Y1 & Y2 & Y3). splits; congruence.
  - intros j Hj. rewrite B4, A4; auto.
  - auto.
Qed.

Lemma Shape_KF s s' i : Shape s s' i -> KF s s'.
Proof.
  intros (A1 & _ & A3 & _). split; [lia|]. intros j _. destruct (A3 j) as (X1 & _ & X3).
  split; [exact X1|congruence].
Qed.

Lemma Shape_QInv s s' i :
  QInv s -> Shape s s' i ->
  (is_watcher s i = false \/ h_active (hget s' i) = h_active (hget s i)) -> QInv s'.
Proof.
  intros Q (A1 & A2 & A3 & A4 & A5) W. eapply QInv_frame; eauto.
  intros j. destruct (A3 j) as (X1 & X2 & _). auto.
Qed.

(* a flag update of handle i that keeps kind, closing, closed *)
Lemma Shape_upd s i f :
  (h_kind (f (hget s i)) = h_kind (hget s i)) ->
  (h_closing (f (hget s i)) = h_closing (hget s i)) ->
  (h_closed (f (hget s i)) = h_closed (hget s i)) ->
  Shape s (upd_h s i f) i.
Proof.
  intros A B C. unfold Shape. splits; auto.
  - apply len_upd_h.
  - intros j. rewrite hget_upd_h.
    destruct (Nat.eqb i j && Nat.ltb i (length (hs s))) eqn:E; [|auto].
    apply andb_prop in E. destruct E as [E _]. apply Nat.eqb_eq in E. subst j. auto.
  - intros j Hj. rewrite hget_upd_h. apply Nat.eqb_neq in Hj. rewrite Nat.eqb_sym in Hj.
    rewrite Hj. reflexivity.
Qed.

Lemma Shape_fields s s' i :
  hs s' = hs s -> queues s' = queues s -> ready (ts s') = ready (ts s) -> Shape s s' i.
Proof.
  intros A B C. unfold Shape, hget. rewrite A, C. splits; auto.
Qed.

Lemma upd_h_active_same s i f :
  h_active (f (hget s i)) = h_active (hget s i) ->
  h_active (hget (upd_h s i f) i) = h_active (hget s i).
Proof.
  intros A. rewrite hget_upd_h. destruct (Nat.eqb i i && Nat.ltb i (length (hs s))); auto.
Qed.

Lemma Shape_handle_start s i : Shape s (handle_start s i) i.
Proof.
  unfold handle_start. destruct (h_active (hget s i)); [apply Shape_refl|].
  destruct (h_ref (hget s i)).
  - apply Shape_trans with (b := upd_h s i (with_active true));
      [apply Shape_upd; reflexivity|apply Shape_fields; reflexivity].
  - apply Shape_upd; reflexivity.
Qed.

Lemma Shape_handle_stop s i : Shape s (handle_stop s i) i.
Proof.
  unfold handle_stop. destruct (h_active (hget s i)); [|apply Shape_refl].
  destruct (h_ref (hget s i)).
  - apply Shape_trans with (b := upd_h s i (with_active false));
      [apply Shape_upd; reflexivity|apply Shape_fields; reflexivity].
  - apply Shape_upd; reflexivity.
Qed.

Lemma Shape_handle_ref s i :
  Shape s (handle_ref s i) i /\ h_active (hget (handle_ref s i) i) = h_active (hget s i).
Proof.
  unfold handle_ref. destruct (h_ref (hget s i)); [split; [apply Shape_refl|reflexivity]|].
  assert (A : Shape s (upd_h s i (with_ref true)) i) by (apply Shape_upd; reflexivity).
  assert (B : h_active (hget (upd_h s i (with_ref true)) i) = h_active (hget s i))
    by (apply upd_h_active_same; reflexivity).
  destruct (h_closing (hget s i)); [auto|].
  destruct (h_active (hget s i)); [|auto].
  split; [eapply Shape_trans; [exact A|apply Shape_fields; reflexivity]|exact B].
Qed.

Lemma Shape_handle_unref s i :
  Shape s (handle_unref s i) i /\ h_active (hget (handle_unref s i) i) = h_active (hget s i).
Proof.
  unfold handle_unref. destruct (h_ref (hget s i)); [|split; [apply Shape_refl|reflexivity]].
  assert (A : Shape s (upd_h s i (with_ref false)) i) by (apply Shape_upd; reflexivity).
  assert (B : h_active (hget (upd_h s i (with_ref false)) i) = h_active (hget s i))
    by (apply upd_h_active_same; reflexivity).
  destruct (h_closing (hget s i)); [auto|].
  destruct (h_active (hget s i)); [|auto].
  split; [eapply Shape_trans; [exact A|apply Shape_fields; reflexivity]|exact B].
Qed.

Lemma ts_handle_stop s i : ts (handle_stop s i) = ts s.
Proof. unfold handle_stop. destruct (h_active (hget s i)), (h_ref (hget s i)); reflexivity. Qed.

Lemma Shape_set_ts s t i :
  (forall j, In j (ready t) -> In j (ready (ts s))) -> Shape s (set_ts s t) i.
Proof. intros R. unfold Shape. splits; auto. Qed.

Lemma Shape_sync s i : Shape s (sync_timer_active s i) i.
Proof. unfold sync_timer_active. destruct (t_active (get (ts s) i)); [apply Shape_handle_start|apply Shape_handle_stop]. Qed.

Section timers.
Variables (s : lstate) (pend wpend : list nat) (i : nat).
Hypothesis Hinv : LInvG s pend wpend.
Hypothesis Hi : (i < length (hs s))%nat.

Let T : TI (ts s) := hi_ti _ _ (proj1 Hinv).
Let Hit : (i < length (tms (ts s)))%nat.
Proof. rewrite (hi_len _ _ (proj1 Hinv)). exact Hi. Qed.

Lemma Shape_l_timer_stop : Shape s (l_timer_stop s i) i.
Proof.
  unfold l_timer_stop. destruct (tframe_stop (ts s) i T Hit) as ((_ & _ & R & _) & _).
  eapply Shape_trans; [apply Shape_set_ts; exact R|apply Shape_sync].
Qed.

Lemma Shape_l_timer_start cb t r : Shape s (fst (l_timer_start s i cb t r)) i.
Proof.
  unfold l_timer_start. destruct (tframe_start (ts s) i cb t r T Hit) as ((_ & _ & R & _) & _).
  destruct (timer_start (ts s) i cb t r) as [ts' c]. cbn [fst] in *.
  eapply Shape_trans; [|apply Shape_sync].
  destruct (Z.eqb c 0).
  - eapply Shape_trans; [apply Shape_handle_stop|]. apply Shape_set_ts. rewrite ts_handle_stop. exact R.
  - apply Shape_set_ts. exact R.
Qed.

Lemma Shape_l_timer_again : Shape s (fst (l_timer_again s i)) i.
Proof.
  unfold l_timer_again. destruct (tframe_again (ts s) i T Hit) as ((_ & _ & R & _) & _).
  destruct (timer_again (ts s) i) as [ts' c]. cbn [fst] in *.
  eapply Shape_trans; [|apply Shape_sync].
  match goal with |- Shape s (set_ts (if ?b then _ else _) _) i => destruct b end.
  - eapply Shape_trans; [apply Shape_handle_stop|]. apply Shape_set_ts. rewrite ts_handle_stop. exact R.
  - apply Shape_set_ts. exact R.
Qed.
End timers.

(* ------------------------------------------------------------------ *)
(* steps that take handle i out of queues                             *)
(* ------------------------------------------------------------------ *)
Definition OnlyAt (s s' : lstate) (i : nat) : Prop :=
  length (hs s') = length (hs s) /\ forall j, j <> i -> hget s' j = hget s j.

Lemma OnlyAt_refl s i : OnlyAt s s i.
Proof. split; auto. Qed.

Lemma OnlyAt_trans a b c i : OnlyAt a b i -> OnlyAt b c i -> OnlyAt a c i.
Proof. intros [A1 A2] [B1 B2]. split; [congruence|]. intros j Hj. rewrite B2, A2; auto. Qed.

Lemma OnlyAt_upd s i f : OnlyAt s (upd_h s i f) i.
Proof.
  split; [apply len_upd_h|]. intros j Hj. rewrite hget_upd_h.
  apply Nat.eqb_neq in Hj. rewrite Nat.eqb_sym in Hj. rewrite Hj. reflexivity.
Qed.

Lemma OnlyAt_hs s s' i : hs s' = hs s -> OnlyAt s s' i.
Proof. intros E. unfold OnlyAt, hget. rewrite E. auto. Qed.

Lemma OnlyAt_handle_stop s i : OnlyAt s (handle_stop s i) i.
Proof.
  unfold handle_stop. destruct (h_active (hget s i)); [|apply OnlyAt_refl].
  destruct (h_ref (hget s i)).
  - apply OnlyAt_trans with (b := upd_h s i (with_active false)); [apply OnlyAt_upd|apply OnlyAt_hs; reflexivity].
  - apply OnlyAt_upd.
Qed.

Lemma OnlyAt_handle_start s i : OnlyAt s (handle_start s i) i.
Proof.
  unfold handle_start. destruct (h_active (hget s i)); [apply OnlyAt_refl|].
  destruct (h_ref (hget s i)).
  - apply OnlyAt_trans with (b := upd_h s i (with_active true)); [apply OnlyAt_upd|apply OnlyAt_hs; reflexivity].
  - apply OnlyAt_upd.
Qed.

Lemma OnlyAt_KF s s' i :
  OnlyAt s s' i -> h_kind (hget s' i) = h_kind (hget s i) ->
  (h_closed (hget s i) = true -> h_closed (hget s' i) = true) -> KF s s'.
Proof.
  intros [A B] C D. split; [lia|]. intros j _. destruct (Nat.eq_dec j i) as [->|Hne]; [auto|].
  rewrite B by exact Hne. auto.
Qed.

Lemma QInv_sub s s' i :
  QInv s -> OnlyAt s s' i ->
  (forall k j, In j (wq_get s' k) -> In j (wq_get s k) /\ j <> i) ->
  (forall j, In j (lq s') -> In j (lq s) /\ j <> i) ->
  (forall j, In j (async_q s' ++ alq s') -> In j (async_q s ++ alq s) /\ j <> i) ->
  (forall j, In j (ready (ts s')) -> In j (ready (ts s)) /\ j <> i) ->
  QInv s'.
Proof.
  intros Q [L O] A B C D. destruct Q. constructor.
  - intros k j Hj. destruct (A k j Hj) as (H1 & H2). rewrite O, L by exact H2. apply q_w0. exact H1.
  - intros j Hj. destruct (B j Hj) as (H1 & H2). unfold is_watcher, kind_is. rewrite O, L by exact H2.
    apply q_lq0. exact H1.
  - intros j Hj. destruct (C j Hj) as (H1 & H2). rewrite O, L by exact H2. apply q_as0. exact H1.
  - intros j Hj. destruct (D j Hj) as (H1 & H2). rewrite O by exact H2. apply q_rd0. exact H1.
Qed.

Lemma in_remove_q i j l : In j (remove_q i l) <-> In j l /\ i <> j.
Proof. unfold remove_q. apply remove_id_in. Qed.

Lemma queues_handle_stop s i : queues (handle_stop s i) = queues s.
Proof. apply (Shape_handle_stop s i). Qed.

Lemma wq_get_handle_stop s i k : wq_get (handle_stop s i) k = wq_get s k.
Proof. apply wq_get_queues. apply queues_handle_stop. Qed.

Lemma ts_handle_start s i : ts (handle_start s i) = ts s.
Proof. unfold handle_start. destruct (h_active (hget s i)), (h_ref (hget s i)); reflexivity. Qed.

Lemma kind_not_watcher s i : h_kind (hget s i) = KTimer \/ h_kind (hget s i) = KAsync -> is_watcher s i = false.
Proof. unfold is_watcher, kind_is. intros [H|H]; rewrite H; reflexivity. Qed.

Lemma wq_kind_watcher s k j : In j (wq_get s k) -> k = KIdle \/ k = KPrepare \/ k = KCheck.
Proof. destruct k; cbn; auto; contradiction. Qed.

Lemma hget_upd_h_same s i f : (i < length (hs s))%nat -> hget (upd_h s i f) i = f (hget s i).
Proof. intros H. rewrite hget_upd_h, Nat.eqb_refl. apply Nat.ltb_lt in H. rewrite H. reflexivity. Qed.

Lemma handle_stop_fl s i : (i < length (hs s))%nat ->
  fl (hget (handle_stop s i) i) =
  (h_kind (hget s i), false, h_closing (hget s i), h_closed (hget s i)).
Proof.
  intros Hi. unfold handle_stop. destruct (h_active (hget s i)) eqn:Ea.
  - destruct (h_ref (hget s i));
      [change (hget (set_nact (upd_h s i (with_active false)) (nact (upd_h s i (with_active false)) - 1)) i)
         with (hget (upd_h s i (with_active false)) i)|];
      rewrite hget_upd_h_same by exact Hi; reflexivity.
  - unfold fl. rewrite Ea. reflexivity.
Qed.

Lemma handle_start_fl s i : (i < length (hs s))%nat ->
  fl (hget (handle_start s i) i) =
  (h_kind (hget s i), true, h_closing (hget s i), h_closed (hget s i)).
Proof.
  intros Hi. unfold handle_start. destruct (h_active (hget s i)) eqn:Ea.
  - unfold fl. rewrite Ea. reflexivity.
  - destruct (h_ref (hget s i));
      [change (hget (set_nact (upd_h s i (with_active true)) (nact (upd_h s i (with_active true)) + 1)) i)
         with (hget (upd_h s i (with_active true)) i)|];
      rewrite hget_upd_h_same by exact Hi; reflexivity.
Qed.

(* uv_{idle,prepare,check}_stop *)
Lemma watcher_stop_spec s pend wpend i :
  LInvG s pend wpend -> QInv s -> (i < length (hs s))%nat -> is_watcher s i = true ->
  QInv (watcher_stop s i) /\ OnlyAt s (watcher_stop s i) i /\
  fl (hget (watcher_stop s i) i) = (h_kind (hget s i), false, h_closing (hget s i), h_closed (hget s i)) /\
  ~ In i (lq (watcher_stop s i)) /\ (forall k, ~ In i (wq_get (watcher_stop s i) k)) /\
  async_q (watcher_stop s i) = async_q s /\ alq (watcher_stop s i) = alq s /\
  ts (watcher_stop s i) = ts s /\ closing (watcher_stop s i) = closing s.
Proof.
  intros Hinv Q Hi Hw. pose proof Hinv as [HI _]. unfold watcher_stop.
  destruct (h_active (hget s i)) eqn:Ea.
  2:{ splits; auto.
      - apply OnlyAt_refl.
      - unfold fl. rewrite Ea. reflexivity.
      - intros H. destruct (q_lq _ Q i H) as (_ & A & _). congruence.
      - intros k H. destruct (q_w _ Q k i H) as (_ & A & _). congruence. }
  set (k := h_kind (hget s i)).
  set (s1 := wq_set s k (remove_q i (wq_get s k))).
  set (s2 := set_lq s1 (remove_q i (lq s1))).
  assert (H1 : hs s2 = hs s) by (unfold s2, s1; destruct k; reflexivity).
  assert (G2 : forall j, hget s2 j = hget s j) by (intros j; unfold hget; rewrite H1; reflexivity).
  assert (O : OnlyAt s (handle_stop s2 i) i).
  { apply OnlyAt_trans with (b := s2); [apply OnlyAt_hs; exact H1|apply OnlyAt_handle_stop]. }
  assert (WQ : forall k' j, In j (wq_get s2 k') -> In j (wq_get s k') /\ j <> i).
  { intros k' j Hj. pose proof (wq_kind_watcher _ _ _ Hj) as Hk'.
    assert (Hold : In j (wq_get s k')).
    { unfold s2, s1 in Hj. apply is_watcher_kind in Hw. fold k in Hw.
      destruct k, k'; cbn in Hj |- *; try apply in_remove_q in Hj; try tauto;
        destruct Hw as [Hw|[Hw|Hw]]; discriminate. }
    split; [exact Hold|]. intros ->.
    destruct (q_w _ Q k' i Hold) as (_ & _ & Hk). fold k in Hk. subst k'.
    unfold s2, s1 in Hj. destruct k; cbn in Hj; try apply in_remove_q in Hj; try tauto;
      destruct Hk' as [?|[?|?]]; discriminate. }
  assert (LQ : forall j, In j (lq s2) -> In j (lq s) /\ j <> i).
  { intros j Hj. unfold s2 in Hj. cbn [lq set_lq] in Hj. apply in_remove_q in Hj.
    destruct Hj as [Hj Hne]. split; [|auto]. unfold s1 in Hj. destruct k; exact Hj. }
  assert (AS : async_q s2 = async_q s /\ alq s2 = alq s /\ ts s2 = ts s /\ closing s2 = closing s)
    by (unfold s2, s1; destruct k; auto).
  destruct AS as (AS1 & AS2 & AS3 & AS4).
  destruct (Shape_handle_stop s2 i) as (_ & SQ & _).
  destruct (queues_proj _ _ SQ) as (E4 & E5 & E6).
  assert (NT : is_timer (hget s i) = false).
  { unfold is_timer. apply is_watcher_kind in Hw. destruct Hw as [H|[H|H]]; rewrite H; reflexivity. }
  splits.
  - apply QInv_sub with (s := s) (i := i); auto.
    + intros k' j Hj. rewrite wq_get_handle_stop in Hj. auto.
    + intros j Hj. rewrite E4 in Hj. auto.
    + intros j Hj. rewrite E5, E6, AS1, AS2 in Hj. split; [exact Hj|]. intros ->.
      destruct (q_as _ Q i Hj) as (_ & Hk & _). apply is_watcher_kind in Hw. rewrite Hk in Hw.
      destruct Hw as [H|[H|H]]; discriminate.
    + intros j Hj. rewrite ts_handle_stop, AS3 in Hj. split; [exact Hj|]. intros ->.
      pose proof (hi_ready _ _ HI i Hj). congruence.
  - exact O.
  - rewrite handle_stop_fl by (rewrite H1; exact Hi). rewrite G2. reflexivity.
  - rewrite E4. intros H. destruct (LQ i H). congruence.
  - intros k' H. rewrite wq_get_handle_stop in H. destruct (WQ k' i H). congruence.
  - congruence.
  - congruence.
  - rewrite ts_handle_stop. exact AS3.
  - unfold handle_stop. destruct (h_active (hget s2 i)), (h_ref (hget s2 i)); exact AS4.
Qed.
